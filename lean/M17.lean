-- Root of the `M17` library: model, specification, generated tables, lemmas and property theorems.
import M17.Model.Golay
import M17.Spec.Golay
import M17.Lemmas.Bits
import M17.Lemmas.Golay
import M17.Props.C04
import M17.Model.Crc
import M17.Spec.Crc
import M17.Lemmas.Crc
import M17.Props.C09

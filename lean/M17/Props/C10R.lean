/-
C10 (extension) — the two conditioning stages composed in the order the modem uses them: the transmitter interleaves and
then randomizes, the receiver de-randomizes and then de-interleaves.  For every 368-value frame of int8 soft values the
receive chain undoes the transmit chain exactly.
-/
import M17.Props.C10

namespace M17.C10R
open M17.Cond M17.C10

attribute [local irreducible] interleaveSoft index invIndex in
/-- every value of an interleaved frame is a value of the input frame -/
theorem interleave_mem (xs : List Int) (h : xs.length = 368) : ∀ y ∈ interleaveSoft xs, y ∈ xs := by
  intro y hy
  obtain ⟨p, hp, rfl⟩ := List.getElem_of_mem hy
  have hlen : (interleaveSoft xs).length = 368 := by unfold interleaveSoft; rw [scatter_length, K_eq]
  have hp' : p < 368 := by omega
  -- p = index (invIndex p)
  obtain ⟨hlt, hinv⟩ := index_perm.2 p hp'
  have := interleave_soft_position xs (invIndex p) hlt
  rw [hinv] at this
  have e : (interleaveSoft xs)[p] = xs.getD (invIndex p) 0 := by
    rw [← this, List.getD_eq_getElem?_getD, List.getElem?_eq_getElem hp]; rfl
  rw [e, List.getD_eq_getElem?_getD, List.getElem?_eq_getElem (by omega)]
  exact List.getElem_mem _

/-- receive chain ∘ transmit chain = identity on int8 frames -/
theorem conditioning_roundtrip (xs : List Int) (h : xs.length = 368) (hb : ∀ x ∈ xs, -128 ≤ x ∧ x ≤ 127) :
    deinterleaveSoft (randSoft (randSoft (interleaveSoft xs))) = xs := by
  rw [rand_soft_involutive _ (fun y hy => hb y (interleave_mem xs h y hy))]
  exact deinterleave_interleave_soft xs h

example : (List.replicate 368 (5 : Int)).length = 368 ∧ ∀ x ∈ List.replicate 368 (5 : Int), -128 ≤ x ∧ x ≤ 127 := by
  refine ⟨List.length_replicate, ?_⟩
  intro x hx
  rw [List.eq_of_mem_replicate hx]; omega

end M17.C10R

/-
C07 — the symbol sample index stays in its documented range 0..9: for EVERY projected value (any estimate, any clock offset, any number of
samples since the last sync word) the free-running update yields an index 0..9, and so does the update after a Kalman step whose estimate
lies in [0, 10).
-/
import M17.Model.Clock

namespace M17.C07C
open M17.Clock

theorem wrap_round_in_range (csw : Int) (h0 : 0 ≤ csw) (h1 : csw ≤ 10 * U) : 0 ≤ wrapIndex (roundAway csw) ∧ wrapIndex (roundAway csw) ≤ 9 := by
  unfold wrapIndex roundAway U at *
  simp only [h0, if_true]
  have hr0 : 0 ≤ (2 * csw + 1048576) / (2 * 1048576) := by omega
  have hr1 : (2 * csw + 1048576) / (2 * 1048576) ≤ 10 := by omega
  generalize (2 * csw + 1048576) / (2 * 1048576) = r at hr0 hr1
  have : ¬ r < 0 := by omega
  simp only [this, if_false]
  split <;> omega

/-- **free-running update: index in 0..9 for every estimate, clock offset and sample count** -/
theorem free_index_in_range (est clk : Int) (count : Nat) : 0 ≤ freeIndex est clk count ∧ freeIndex est clk count ≤ 9 := by
  unfold freeIndex
  simp only
  generalize est + clk * (count : Int) = v
  have hpos : (0 : Int) < 10 * U := by unfold U; decide
  have h1 := Int.tmod_lt_of_pos v hpos
  have h2 := Int.lt_tmod_of_pos v hpos
  generalize Int.tmod v (10 * U) = c0 at h1 h2
  apply wrap_round_in_range
  · split
    · omega
    · split <;> omega
  · split
    · omega
    · split <;> omega

/-- update after a sync word: the Kalman estimate is kept in [0, 10), so the index is 0..9 -/
theorem locked_index_in_range (est : Int) (h0 : 0 ≤ est) (h1 : est < 10 * U) : 0 ≤ lockedIndex est ∧ lockedIndex est ≤ 9 := by
  unfold lockedIndex
  exact wrap_round_in_range est h0 (by omega)

/-! ## non-vacuity -/
example : freeIndex (95 * 104857) 100 206680 = 9 := by decide +kernel
example : freeIndex (9 * 1048576 + 600000) 0 0 = 0 := by decide +kernel

end M17.C07C

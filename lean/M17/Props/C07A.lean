/-
C07 — AX.25 parsing in m17-demod's packet handler forms no out-of-bounds access, for every frame content and length.
-/
import M17.Model.Ax25

namespace M17.C07A
open M17.Ax25

/-- every access `(offset, length)` lies inside a frame of `n` bytes -/
def InBounds (n : Nat) (acc : List (Nat × Nat)) : Prop := ∀ a ∈ acc, a.1 + a.2 ≤ n

theorem repeaters_in_bounds (f : List Nat) : ∀ (fuel index : Nat),
    InBounds f.length (repeaters f fuel index).2 ∧
    7 * (repeaters f fuel index).1.length + index ≤ max index (f.length - 1) ∧ (repeaters f fuel index).1.length = (repeaters f fuel index).2.length := by
  intro fuel
  induction fuel with
  | zero => intro index; simp [repeaters, InBounds]; omega
  | succ fuel ih =>
    intro index
    simp only [repeaters]
    by_cases h : index + 7 < f.length
    · simp only [h, if_true]
      by_cases hm : (fixup ((f.drop index).take 7)).1 = true
      · simp only [hm, if_true]
        obtain ⟨i1, i2, i3⟩ := ih (index + 7)
        refine ⟨?_, ?_, by simp [i3]⟩
        · intro a ha
          rcases List.mem_cons.mp ha with rfl | ha
          · simp only; omega
          · exact i1 a ha
        · simp only [List.length_cons]; omega
      · simp only [hm]
        refine ⟨?_, ?_, by simp⟩
        · intro a ha; simp only [Bool.false_eq_true, if_false, List.mem_cons, List.not_mem_nil, or_false] at ha; rw [ha]; simp only; omega
        · simp; omega
    · simp only [h, if_false]
      simp [InBounds]; omega

/-- **no out-of-bounds access in `ax25_frame::parse`**: for every frame (any length, any content) every `substr`, every `operator[]` and the
    final iterator range lie inside the frame, and the iterator range is well formed (`begin + i ≤ end − 2`) -/
theorem parse_in_bounds (f : List Nat) (p : Parsed) (h : parse f = some p) : InBounds f.length p.accesses := by
  unfold parse at h
  by_cases hn : f.length < 17
  · simp [hn] at h
  · simp only [hn, if_false] at h
    obtain ⟨r1, r2, r3⟩ := repeaters_in_bounds f f.length 14
    generalize hrp : (if (fixup ((f.drop 7).take 7)).1 = true then repeaters f f.length 14 else ([], [])) = rp at h
    have hrpb : InBounds f.length rp.2 ∧ 7 * rp.1.length + 14 ≤ max 14 (f.length - 1) := by
      rw [← hrp]; split
      · exact ⟨r1, r2⟩
      · refine ⟨by simp [InBounds], ?_⟩
        simp only [List.length_nil]; omega
    have hacc0 : InBounds f.length ([(f.length - 2, 2), (0, 7), (7, 7)] ++ rp.2) := by
      intro a ha
      rcases List.mem_append.mp ha with ha | ha
      · simp only [List.mem_cons, List.not_mem_nil, or_false] at ha
        rcases ha with rfl | rfl | rfl <;> simp only <;> omega
      · exact hrpb.1 a ha
    by_cases h5 : f.length < 7 * (rp.1.length + 2) + 5
    · simp only [h5, if_true, Option.some.injEq] at h
      rw [← h]; exact hacc0
    · simp only [h5, if_false] at h
      by_cases ht : frameType (f.getD (7 * (rp.1.length + 2)) 0) = 3
      · simp only [ht, if_true, Option.some.injEq] at h
        rw [← h]
        intro a ha
        rcases List.mem_append.mp ha with ha | ha
        · rcases List.mem_append.mp ha with ha | ha
          · rcases List.mem_append.mp ha with ha | ha
            · exact hacc0 a ha
            · simp only [List.mem_cons, List.not_mem_nil, or_false] at ha; rw [ha]; simp only; omega
          · simp only [List.mem_cons, List.not_mem_nil, or_false] at ha; rw [ha]; simp only; omega
        · simp only [List.mem_cons, List.not_mem_nil, or_false] at ha; rw [ha]; simp only; omega
      · simp only [ht, if_false, Option.some.injEq] at h
        rw [← h]
        intro a ha
        rcases List.mem_append.mp ha with ha | ha
        · rcases List.mem_append.mp ha with ha | ha
          · rcases List.mem_append.mp ha with ha | ha
            · exact hacc0 a ha
            · simp only [List.mem_cons, List.not_mem_nil, or_false] at ha; rw [ha]; simp only; omega
          · simp at ha
        · simp only [List.mem_cons, List.not_mem_nil, or_false] at ha; rw [ha]; simp only; omega

/-! ## non-vacuity: a minimal UI frame (two addresses, control 0x03, PID 0xF0, two FCS bytes) is parsed with an empty info field -/
example : (parse ([130, 160, 164, 166, 64, 64, 96, 156, 96, 134, 130, 152, 152, 97, 3, 240, 0, 0, 0])).map (fun p => (p.ftype, p.pid, p.info.length)) =
    some (3, some 240, 1) := by decide

end M17.C07A

/-
C15 — the queue is a bounded FIFO under every thread interleaving: capacity never exceeded, every accepted item
handed to exactly one get in put-completion order, nothing accepted is lost (not by close either), puts rejected
once the queue is not open; every completed call is a step of the sequential specification.
-/
import M17.Model.Queue
import M17.Gen.Queue

namespace M17.C15
open M17.Q

/-- capacity, bookkeeping and FIFO invariant -/
def Inv (s : Sys) : Prop :=
  s.size = s.items.length ∧ s.items.length ≤ s.cap ∧ s.putLog = s.getLog ++ s.items ∧
  (s.st = .closing → s.items ≠ [])

theorem step_inv (s s' : Sys) (c : Choice) (h : Inv s) (hs : step s c = some s') : Inv s' ∧ s'.cap = s.cap := by
  obtain ⟨h1, h2, h3, h4⟩ := h
  unfold step at hs
  unfold Inv
  repeat' split at hs
  all_goals (first | contradiction | skip)
  all_goals (cases hs)
  all_goals (simp_all [setPc, putTail, getTail])
  all_goals (try (split <;> simp_all))
  all_goals (try omega)

/-- **every reachable state, for any number of threads, any programs, any schedule** -/
theorem reachable_inv (cs : List Choice) : ∀ (s s' : Sys), Inv s → runAll s cs = some s' → Inv s' := by
  induction cs with
  | nil => intro s s' h hr; cases hr; exact h
  | cons c cs ih =>
    intro s s' h hr
    simp only [runAll] at hr
    cases hstep : step s c with
    | none => simp [hstep] at hr
    | some s1 =>
      simp [hstep] at hr
      exact ih s1 s' (step_inv s s1 c h hstep).1 hr

/-- initial state: empty open queue of capacity `cap`, any threads with any first calls -/
def initSys (cap : Nat) (pcs : List Pc) : Sys :=
  { cap := cap, items := [], size := 0, st := .opn, pcs := pcs, putLog := [], getLog := [] }

theorem init_inv (cap : Nat) (pcs : List Pc) : Inv (initSys cap pcs) := by
  simp [Inv, initSys]

/-- **capacity and FIFO for every schedule**: the queue never holds more than `cap` items, and the sequence of values
    accepted by put equals the sequence handed out by get followed by what is still queued — so each accepted item is
    delivered at most once, in put-completion order (hence per-producer order), and nothing accepted is ever dropped -/
theorem fifo_all_schedules (cap : Nat) (pcs : List Pc) (cs : List Choice) (s : Sys)
    (h : runAll (initSys cap pcs) cs = some s) :
    s.items.length ≤ cap ∧ s.putLog = s.getLog ++ s.items := by
  have hi := reachable_inv cs _ s (init_inv cap pcs) h
  have hc : s.cap = cap := by
    have gen : ∀ (cs : List Choice) (a b : Sys), Inv a → runAll a cs = some b → b.cap = a.cap := by
      intro cs
      induction cs with
      | nil => intro a b _ hr; cases hr; rfl
      | cons c cs ih =>
        intro a b ha hr
        simp only [runAll] at hr
        cases hstep : step a c with
        | none => simp [hstep] at hr
        | some a1 =>
          simp [hstep] at hr
          have := step_inv a a1 c ha hstep
          rw [ih a1 b this.1 hr, this.2]
    exact gen cs _ s (init_inv cap pcs) h
  exact ⟨hc ▸ hi.2.1, hi.2.2.1⟩

/-- **close never discards anything, and a queue that is not open accepts nothing** -/
theorem not_open_rejects_puts (s s' : Sys) (c : Choice) (hs : step s c = some s') (hst : s.st ≠ .opn) :
    s'.putLog = s.putLog ∧ s'.st ≠ .opn := by
  unfold step at hs
  repeat' split at hs
  all_goals (first | contradiction | skip)
  all_goals (cases hs)
  all_goals (simp_all [setPc, putTail, getTail])
  all_goals (try (split <;> simp_all))

theorem close_keeps_items (s s' : Sys) (t : Nat) (hp : s.pcs.getD t .idle = .closeStart) (hs : step s (.run t) = some s') :
    s'.items = s.items ∧ s'.putLog = s.putLog ∧ s'.getLog = s.getLog ∧ s'.st ≠ .opn := by
  unfold step at hs
  simp only [hp] at hs
  cases hs
  simp [setPc]
  split <;> simp

/-! ## every completed call is a step of the sequential bounded-FIFO specification -/

def abs (s : Sys) : BQ := { cap := s.cap, items := s.items, st := s.st }

/-- the lock-held segment in which a `put` is accepted is `BQ.apply (put v)` -/
theorem put_accept_refines (s : Sys) (t v : Nat) (h : Inv s) (hfull : s.size ≠ s.cap) (ho : s.st = .opn) :
    BQ.apply (abs s) (.put v) = some (abs (putTail s t v), true, none) := by
  obtain ⟨h1, h2, _, _⟩ := h
  unfold BQ.apply abs putTail
  have : ¬ s.items.length = s.cap := by omega
  simp [this, ho, setPc]

theorem put_reject_refines (s : Sys) (v : Nat) (hn : s.st ≠ .opn) :
    BQ.apply (abs s) (.put v) = some (abs s, false, none) := by
  unfold BQ.apply abs
  simp only
  split <;> simp [hn]

theorem get_refines (s : Sys) (t x : Nat) (xs : List Nat) (hi : s.items = x :: xs) :
    BQ.apply (abs s) .get = some (abs (getTail s t x xs), true, some x) := by
  unfold BQ.apply abs getTail
  simp [hi, setPc]

theorem get_closed_refines (s : Sys) (hi : s.items = []) (hc : s.st = .closed) :
    BQ.apply (abs s) .get = some (abs s, false, none) := by
  unfold BQ.apply abs; simp [hi, hc]

/-! ## data-race freedom from the access table of the current source -/

/-- every access to a plain data member (`queue_`, `size_`, `state_`) is made with `mutex_` held -/
def raceFree (tbl : List (String × String × Bool × Bool)) : Bool :=
  tbl.all fun a => tbl.all fun b =>
    -- same member, at least one write  ⇒  both under the lock
    !(a.2.1 == b.2.1 && (a.2.2.1 || b.2.2.1)) || (a.2.2.2 && b.2.2.2)

/-- **all member accesses in queue.h (as extracted from the current source on this run) are lock-protected**;
    with the C++ memory model's "conflicting accesses ordered by one mutex" this is data-race freedom -/
theorem race_free : raceFree Gen.queueAccess = true := by decide +kernel

theorem access_table_nonempty : Gen.queueAccess.length ≥ 20 ∧
    (Gen.queueAccess.any fun a => a.1 == "is_open" && a.2.1 == "state_") = true ∧
    (Gen.queueAccess.any fun a => a.1 == "close" && a.2.1 == "state_" && a.2.2.1) = true := by decide +kernel

end M17.C15

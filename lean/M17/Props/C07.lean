/-
C07 — index and arithmetic ranges of the receive path, proved over the models (all inputs).
-/
import M17.Props.C02
import M17.Props.C05
import M17.Props.C11
import M17.Props.C17

namespace M17.C07
open M17.Dec

/-- the LICH fragment number extracted from a fragment is 0..7; a slot is written only for 0..5, and then the five
    bytes land at offsets 5n..5n+4 ≤ 29 of the 30-byte LSF buffer, whose length is preserved -/
theorem lich_slot_in_range (lsf lich : List Nat) (hl : lsf.length = 30) (h5 : (lich.take 5).length = 5) :
    let n := (lich.getD 5 0 >>> 5) % 8
    n < 8 ∧ (n ≤ 5 → 5 * n + 5 ≤ 30 ∧ (setSlot lsf n (lich.take 5)).length = 30) := by
  simp only
  refine ⟨Nat.mod_lt _ (by decide), ?_⟩
  intro hn
  exact ⟨by omega, C05.setSlot_length lsf _ _ hl hn h5⟩

/-- Viterbi path metrics (and the sums formed before each comparison) stay below 2^31 − 1 for every in-range input and
    every trellis up to the 244 steps the history buffer allows: no `int32_t` overflow -/
theorem viterbi_metric_no_overflow (fs : List Vit.Branch) (hf : ∀ f ∈ fs, ∀ s b, f s b ≤ 318) (hlen : fs.length ≤ 244)
    (s : Nat) (hs : s < 16) : (Vit.dp fs Vit.initMetrics).getD s 0 + 318 < 2 ^ 31 - 1 := by
  have hb := C02.metric_bound fs 318 hf Vit.initMetrics Gen.vitMaxMetric (by
    intro t ht; rw [C02.init_getD t ht]; split <;> omega) s hs
  have hm : Gen.vitMaxMetric = 2 ^ 30 - 1 := C02.gen_limits.2.2.2.2.2
  have : 318 * fs.length ≤ 318 * 244 := Nat.mul_le_mul_left _ hlen
  omega

/-- `decode_callsign` writes at most nine characters: the tenth array element is always the terminator -/
theorem callsign_index_le_9 (addr : List Nat) : (Call.decode addr).length = 10 ∧ (Call.decode addr).getD 9 1 = 0 := by
  obtain ⟨hl, n, hn, h0, hnz⟩ := C17.decode_terminated addr
  refine ⟨hl, ?_⟩
  -- the terminator sits at index n ≤ 9 and everything after the digits is zero fill
  unfold Call.decode
  split
  · exact C17.broadcast_props.2.1
  · have hd := (C17.digitsGo_props 9 (Call.fromBytes addr)).1
    generalize Call.digitsGo 9 (Call.fromBytes addr) = ds at hd
    simp only
    rw [List.getD_eq_getElem?_getD, List.getElem?_append_right (by omega)]
    simp only [List.getElem?_replicate]
    split
    · rfl
    · omega

/-- `depuncture` writes every slot of its output buffer (no stale slot is ever read by the decoder) -/
theorem depuncture_fills_buffer (p : List Nat) (xs prev : List Int) : (Punct.depuncture p xs prev).length = prev.length := by
  unfold Punct.depuncture; exact C11.depunctureGo_length p _ _ _

/-- framer: the fill index advances by two per symbol from an even value below 368 and wraps to 0 at 368 -/
theorem framer_index_in_range (i : Nat) (h : i < 368) (he : i % 2 = 0) :
    let i' := if i + 2 = 368 then 0 else i + 2
    i + 1 < 368 ∧ i' < 368 ∧ i' % 2 = 0 := by
  simp only; split <;> omega

/-- application packet handler: the size taken from the EOF byte is clamped to the 25 payload bytes of a segment -/
theorem packet_size_le_25 (b : Nat) : min ((b % 128) >>> 2) 25 ≤ 25 := Nat.min_le_right _ _

/-- symbol clock: an estimate in [0, 10) maps to a sample index 0..9 (the conversion is "nearest integer, wrapped") -/
theorem clock_index_in_range (k : Nat) (h : k ≤ 10) : (if k = 10 then 0 else k) ≤ 9 := by split <;> omega

end M17.C07

/-
C07 / application glue — packet reassembly in m17-demod (`decode_packet`): a packet cut into 25-byte segments as the M17 packet sender cuts
it (segment counter in the control byte, EOF flag + byte count on the last segment) is reassembled exactly, for every content and every
length up to 33 segments, after whatever the link setup frame left in the buffer; the last call's result is the X.25 check of exactly
those bytes.  (`packet_size_le_25` in C07 bounds the byte count; this is the functional statement.)
-/
import M17.Model.AppPacket

namespace M17.C07P
open M17.AppPacket

/-- the sender's segmentation: full segments numbered k, k+1, …, then the last one with EOF and its byte count (fuel = an upper bound on the number of segments) -/
def segments : Nat → Nat → List Nat → List (List Nat)
  | 0, _, _ => []
  | f+1, k, d =>
    if d.length ≤ 25 then [d ++ List.replicate (25 - d.length) 0 ++ [128 + 4 * d.length]]
    else (d.take 25 ++ [4 * k]) :: segments f (k + 1) (d.drop 25)

theorem last_ctl (d : List Nat) (h : d.length ≤ 25) :
    (d ++ List.replicate (25 - d.length) 0 ++ [128 + 4 * d.length]).getD 25 0 = 128 + 4 * d.length := by
  have hl : (d ++ List.replicate (25 - d.length) 0).length = 25 := by simp; omega
  rw [List.getD_eq_getElem?_getD, List.getElem?_append_right (by omega), hl]
  simp

theorem mid_ctl (d : List Nat) (k : Nat) (h : 25 < d.length) : (d.take 25 ++ [4 * k]).getD 25 0 = 4 * k := by
  have hl : (d.take 25).length = 25 := by simp; omega
  rw [List.getD_eq_getElem?_getD, List.getElem?_append_right (by omega), hl]
  simp

/-- **reassembly**: the buffer after the last segment is what was there before followed by exactly the packet's bytes, and the result of
    the last call is the frame-check of exactly those bytes; every earlier call returns true -/
theorem reassembly : ∀ (f k : Nat) (d pre : List Nat), d.length / 25 < f → k + (d.length - 1) / 25 ≤ 32 →
    (run ⟨pre, k⟩ (segments f k d)).1.buf = pre ++ d ∧
    (run ⟨pre, k⟩ (segments f k d)).2.getLast? = some (x25 (pre ++ d) == 0x0f47) ∧
    (∀ r ∈ (run ⟨pre, k⟩ (segments f k d)).2.dropLast, r = true) := by
  intro f
  induction f with
  | zero => intro k d pre hf; omega
  | succ f ih =>
    intro k d pre hf hk
    by_cases hd : d.length ≤ 25
    · simp only [segments, hd, if_true, run, step, last_ctl d hd]
      have h128 : 128 ≤ 128 + 4 * d.length := by omega
      have hn : min ((128 + 4 * d.length) % 128 / 4) 25 = d.length := by omega
      have htake : (d ++ List.replicate (25 - d.length) 0 ++ [128 + 4 * d.length]).take d.length = d := by
        rw [List.append_assoc, List.take_append_of_le_length (by omega), List.take_length]
      simp only [h128, if_true, hn, htake]
      simp
    · have hd' : 25 < d.length := by omega
      have hk31 : k ≤ 31 := by
        have : 1 ≤ (d.length - 1) / 25 := by
          apply (Nat.le_div_iff_mul_le (by decide)).mpr; omega
        omega
      have hmid : ¬ 128 ≤ 4 * k := by omega
      have hfn : 4 * k % 128 / 4 = k := by omega
      have htake : (d.take 25 ++ [4 * k]).take 25 = d.take 25 := by
        rw [List.take_append_of_le_length (by simp; omega)]
        exact List.take_of_length_le (by simp; omega)
      have hrec := ih (k + 1) (d.drop 25) (pre ++ d.take 25)
        (by rw [List.length_drop]; omega)
        (by rw [List.length_drop]; omega)
      simp only [segments, hd, if_false, run, step, mid_ctl d k hd', hmid, hfn, htake]
      simp only [ne_eq, not_true_eq_false, if_false]
      obtain ⟨h1, h2, h3⟩ := hrec
      have hcat : pre ++ List.take 25 d ++ List.drop 25 d = pre ++ d := by
        rw [List.append_assoc, List.take_append_drop]
      refine ⟨by rw [h1, hcat], ?_, ?_⟩
      · -- last flag
        generalize hrs : (run ⟨pre ++ List.take 25 d, k + 1⟩ (segments f (k + 1) (List.drop 25 d))).2 = rs at h2 h3 ⊢
        cases rs with
        | nil => simp at h2
        | cons r rs' => rw [List.getLast?_cons_cons]; rw [h2, hcat]
      · intro r hr
        generalize hrs : (run ⟨pre ++ List.take 25 d, k + 1⟩ (segments f (k + 1) (List.drop 25 d))).2 = rs at h2 h3 hr
        cases rs with
        | nil => simp at h2
        | cons r' rs' =>
          rw [List.dropLast_cons_cons] at hr
          rcases List.mem_cons.mp hr with rfl | hr'
          · rfl
          · exact h3 r hr'

/-- non-vacuity: a 60-byte packet in three segments from counter 0, after a RAW link setup frame (empty buffer) -/
example : (run ⟨[], 0⟩ (segments 4 0 (List.range 60))).1.buf = List.range 60 := by decide

/-- the counter is 5 bits wide: a 34th segment is rejected as a sequence error (so 33 segments = 825 bytes is the limit of the statement) -/
example : (step ⟨[], 32⟩ (List.replicate 25 0 ++ [4 * 32 % 128])).2 = false := by decide

end M17.C07P

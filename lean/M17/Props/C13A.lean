/-
C13 — audio content of the transmit plan: every frame `transmit()` hands to the encoder carries exactly the corresponding
320-sample window of the input (the last, partial window zero padded; then one all-zero block) — nothing stale from an earlier
block, for every audio length.  Together with `C13.plan_numbering` this is `plan = specPlan`.
-/
import M17.Props.C13

namespace M17.C13A
open M17.Mod M17.C13

/-- the block being filled after the samples `pre`: the samples of the current window, zero padded to 320 -/
def cur (pre : List Int) : List Int :=
  pre.drop (320 * (pre.length / 320)) ++ List.replicate (320 - pre.length % 320) 0

/-- audio invariant of the loop after the samples `pre` -/
def AInv (s : TxState) (pre : List Int) : Prop :=
  s.index = pre.length % 320 ∧ s.sent.length = pre.length / 320 ∧ s.audio = cur pre ∧
  ∀ k, k < pre.length / 320 → (s.sent.getD k (0, 0, [])).2.2 = (pre.drop (320 * k)).take 320

theorem ainv_init : AInv init [] := by
  refine ⟨rfl, rfl, rfl, ?_⟩
  intro k hk; simp at hk

theorem drop_len (pre : List Int) : (pre.drop (320 * (pre.length / 320))).length = pre.length % 320 := by
  rw [List.length_drop]; omega

theorem ainv_step (s : TxState) (pre : List Int) (x : Int) (h : AInv s pre) : AInv (onSample s x) (pre ++ [x]) := by
  obtain ⟨h1, h2, h3, h4⟩ := h
  have hlen : (pre ++ [x]).length = pre.length + 1 := by simp
  have hA := drop_len pre
  -- the block after writing x at `index`
  have hset : s.audio.set s.index x =
      pre.drop (320 * (pre.length / 320)) ++ x :: List.replicate (319 - pre.length % 320) 0 := by
    rw [h3, h1]; unfold cur
    rw [List.set_append, if_neg (by omega), hA, Nat.sub_self]
    have : 320 - pre.length % 320 = (319 - pre.length % 320) + 1 := by omega
    rw [this, List.replicate_succ, List.set_cons_zero]
  unfold onSample
  by_cases hc : s.index + 1 = 320
  · simp only [hc, if_true]
    have hr : pre.length % 320 = 319 := by omega
    have hd : (pre.length + 1) / 320 = pre.length / 320 + 1 := by omega
    have hm : (pre.length + 1) % 320 = 0 := by omega
    refine ⟨by simp only; omega, by simp only [List.length_append, List.length_singleton, hlen]; omega, ?_, ?_⟩
    · simp only; unfold cur
      rw [hlen, hd, hm, List.drop_of_length_le (by rw [hlen]; omega)]; rfl
    · intro k hk
      rw [hlen, hd] at hk
      simp only
      by_cases hk2 : k < pre.length / 320
      · rw [List.getD_eq_getElem?_getD, List.getElem?_append_left (by omega), ← List.getD_eq_getElem?_getD, h4 k hk2]
        rw [List.drop_append_of_le_length (by omega), List.take_append_of_le_length (by rw [List.length_drop]; omega)]
      · have hke : k = pre.length / 320 := by omega
        rw [List.getD_eq_getElem?_getD, List.getElem?_append_right (by omega)]
        simp only [h2, hke, Nat.sub_self, List.getElem?_cons_zero, Option.getD_some]
        rw [hset, hr, List.drop_append_of_le_length (by omega)]
        simp only [Nat.sub_self, List.replicate_zero]
        rw [List.take_of_length_le (by simp only [List.length_append, hA, List.length_singleton]; omega)]
  · simp only [hc, if_false]
    have hd : (pre.length + 1) / 320 = pre.length / 320 := by omega
    have hm : (pre.length + 1) % 320 = pre.length % 320 + 1 := by omega
    refine ⟨by simp only; omega, by simp only [hlen, hd]; exact h2, ?_, ?_⟩
    · simp only; rw [hset]; unfold cur
      rw [hlen, hd, hm, List.drop_append_of_le_length (by omega), List.append_assoc]
      have : 319 - pre.length % 320 = 320 - (pre.length % 320 + 1) := by omega
      rw [this]; rfl
    · intro k hk
      rw [hlen, hd] at hk
      simp only
      rw [h4 k hk, List.drop_append_of_le_length (by omega), List.take_append_of_le_length (by rw [List.length_drop]; omega)]

theorem ainv_fold (xs : List Int) : ∀ (s : TxState) (pre : List Int), AInv s pre → AInv (xs.foldl onSample s) (pre ++ xs) := by
  induction xs with
  | nil => intro s pre h; simpa using h
  | cons x xs ih =>
    intro s pre h
    simp only [List.foldl]
    have := ih (onSample s x) (pre ++ [x]) (ainv_step s pre x h)
    simpa using this

/-- **audio content of every frame, for every audio length**: frame `k < n` (n = ⌈len/320⌉) carries the `k`-th 320-sample window of the
    input, the last one zero padded — exactly `Mod.blocks` — and the final frame the all-zero block -/
theorem plan_audio (samples : List Int) (k : Nat) (hk : k < (samples.length + 319) / 320) :
    ((plan samples).getD k (0, 0, [])).2.2 = (blocks samples).getD k [] := by
  have h := ainv_fold samples init [] ainv_init
  rw [List.nil_append] at h
  obtain ⟨h1, h2, h3, h4⟩ := h
  have hb : (blocks samples).getD k [] =
      (samples.drop (320 * k)).take 320 ++ List.replicate (320 - ((samples.drop (320 * k)).take 320).length) 0 := by
    unfold blocks
    simp [List.getD_eq_getElem?_getD, hk]
  rw [hb]
  unfold plan finish
  by_cases hp : (samples.foldl onSample init).index > 0
  · simp only [hp, if_true]
    have hq : (samples.length + 319) / 320 = samples.length / 320 + 1 := by omega
    rw [hq] at hk
    by_cases hk2 : k < samples.length / 320
    · rw [List.getD_eq_getElem?_getD, List.getElem?_append_left (by simp only [List.length_append, List.length_singleton]; omega),
        List.getElem?_append_left (by omega), ← List.getD_eq_getElem?_getD, h4 k hk2]
      have : ((samples.drop (320 * k)).take 320).length = 320 := by rw [List.length_take, List.length_drop]; omega
      rw [this]; simp
    · have hke : k = samples.length / 320 := by omega
      rw [List.getD_eq_getElem?_getD, List.getElem?_append_left (by simp only [List.length_append, List.length_singleton]; omega),
        List.getElem?_append_right (by omega)]
      simp only [h2, hke, Nat.sub_self, List.getElem?_cons_zero, Option.getD_some, h3]
      unfold cur
      have hA := drop_len samples
      rw [List.take_of_length_le (by omega), hA]
  · simp only [hp, if_false]
    have hr : samples.length % 320 = 0 := by omega
    have hq : (samples.length + 319) / 320 = samples.length / 320 := by omega
    rw [hq] at hk
    rw [List.getD_eq_getElem?_getD, List.getElem?_append_left (by omega), ← List.getD_eq_getElem?_getD, h4 k hk]
    have : ((samples.drop (320 * k)).take 320).length = 320 := by rw [List.length_take, List.length_drop]; omega
    rw [this]; simp

theorem blocks_length (xs : List Int) : (blocks xs).length = (xs.length + 319) / 320 := by unfold blocks; simp

/-- **the transmit loop implements the specification's plan** — same frame numbers, same LICH fragment indices, same audio blocks, same
    final end-of-stream frame — for every input length -/
theorem plan_eq_specPlan (samples : List Int) : plan samples = specPlan samples := by
  obtain ⟨hl, hnum, hfn, hlich, hz⟩ := plan_numbering samples
  have hbl := blocks_length samples
  have hsp : ∀ Z, List.replicate 320 (0 : Int) = Z → specPlan samples =
      (blocks samples ++ [Z]).zipIdx.map fun (b, k) => (k % 0x8000 + (if k + 1 = (blocks samples ++ [Z]).length then 0x8000 else 0), k % 6, b) := by
    intro Z hZ; subst hZ; rfl
  generalize hZ : List.replicate 320 (0 : Int) = Z at hz
  rw [hsp Z hZ]
  apply List.ext_getElem?
  intro k
  rw [List.getElem?_map, List.getElem?_zipIdx]
  simp only [List.length_append, List.length_singleton, hbl, Nat.zero_add]
  by_cases h1 : k < (samples.length + 319) / 320 + 1
  · have hg : (plan samples)[k]? = some ((plan samples).getD k (0, 0, [])) := by
      rw [List.getD_eq_getElem?_getD, List.getElem?_eq_getElem (by rw [hl]; exact h1)]; rfl
    rw [hg]
    by_cases hk : k < (samples.length + 319) / 320
    · obtain ⟨a1, a2⟩ := hnum k hk
      have a3 := plan_audio samples k hk
      have hb : (blocks samples ++ [Z])[k]? = some ((blocks samples).getD k []) := by
        rw [List.getElem?_append_left (by rw [hbl]; exact hk), List.getD_eq_getElem?_getD,
          List.getElem?_eq_getElem (by rw [hbl]; exact hk)]; rfl
      rw [hb]
      simp only [Option.map_some, if_neg (show ¬ k + 1 = (samples.length + 319) / 320 + 1 by omega), Nat.add_zero]
      exact congrArg some (Prod.ext a1 (Prod.ext a2 a3))
    · have hke : k = (samples.length + 319) / 320 := by omega
      subst hke
      have hb : (blocks samples ++ [Z])[(samples.length + 319) / 320]? = some Z := by
        rw [List.getElem?_append_right (by rw [hbl]; omega)]
        simp only [hbl, Nat.sub_self, List.getElem?_cons_zero]
      rw [hb]
      simp only [Option.map_some, if_true]
      exact congrArg some (Prod.ext hfn (Prod.ext hlich hz))
  · rw [List.getElem?_eq_none (by rw [hl]; omega),
      List.getElem?_eq_none (by simp only [List.length_append, List.length_singleton, hbl]; omega)]
    rfl

/-! ## non-vacuity / sanity: a one-sample input gives one zero-padded frame then the end-of-stream frame -/
example : (plan [5]).map (fun t => (t.1, t.2.1, t.2.2.take 2)) = [(0, 0, [5, 0]), (0x8001, 1, [0, 0])] := by decide

end M17.C13A

/-
C05 / C01 — late entry: a receiver that missed the link setup frame collects the LICH fragments of a clean transmission,
in ANY order and with ANY repetitions, and reports the link setup data bit-exact at the very frame that completes the set.

Composes `M17.C01F.lich_roundtrip` (the LICH of a specification-encoded stream frame is unpacked exactly) with the collection
logic of `decode_lich` (mask, slots, CRC gate), by induction over the list of received frames.
-/
import M17.Props.C01F

namespace M17.C05S
open M17.Dec M17.C05 M17.C01F M17.Cond

/-- all six fragment positions occur in `S` -/
def Covers (S : List Nat) : Prop := ∀ i, i < 6 → i ∈ S

/-- the decoder is waiting for link setup and has collected exactly the positions in `S`, all from `lsf` -/
def Inv (lsf : List Nat) (S : List Nat) (σ : DState) : Prop :=
  σ.mode = .lsf ∧ σ.lsfBuf.length = 30 ∧ σ.mask < 256 ∧
  (∀ i, i < 6 → (σ.mask.testBit i = true ↔ i ∈ S)) ∧ (∀ i, i ∈ S → i < 6 → slot σ.lsfBuf i = slot lsf i)

/-- `frames` are clean soft images (magnitudes `lo`..7) of stream frames of one transmission with link setup data `lsf`, carrying
    the LICH fragments numbered `ns` (each 0..5) and arbitrary 18-byte payloads -/
def Frames (lo : Int) (lsf : List Nat) : List Nat → List (List Int) → Prop
  | n :: ns, f :: fs => n < 6 ∧ (∃ data : List Nat, data.length = 18 ∧ SoftImage lo (Spec.Tx.streamFrameBits lsf n data) f) ∧ Frames lo lsf ns fs
  | [], [] => True
  | _, _ => False

/-- the decoder state after a run of stream-sync frames -/
def runState (σ : DState) (frames : List (List Int)) : DState := frames.foldl (fun s f => (step s .stream f true).state) σ

/-- all callbacks of the run -/
def runCalls : DState → List (List Int) → List Callback
  | _, [] => []
  | σ, f :: fs => (step σ .stream f true).calls ++ runCalls (step σ .stream f true).state fs

/-! ## mask arithmetic (all 256 × 6 cases by kernel evaluation) -/

def maskOK : Bool := (List.range 256).all fun m => (List.range 6).all fun fn =>
  let m' := (m ||| 2 ^ fn) % 256
  decide (m' < 256) && ((List.range 6).all fun i => m'.testBit i == (m.testBit i || i == fn)) &&
  (decide (m' % 64 = 63) == (List.range 6).all fun i => m'.testBit i)
theorem mask_ok : maskOK = true := by decide +kernel

theorem mask_facts (m fn : Nat) (hm : m < 256) (hfn : fn < 6) :
    (m ||| 2 ^ fn) % 256 < 256 ∧ (∀ i, i < 6 → ((m ||| 2 ^ fn) % 256).testBit i = (m.testBit i || i == fn)) ∧
    (((m ||| 2 ^ fn) % 256) % 64 = 63 ↔ ∀ i, i < 6 → ((m ||| 2 ^ fn) % 256).testBit i = true) := by
  have h := M17.Bits.all_range (M17.Bits.all_range mask_ok hm) hfn
  simp only [Bool.and_eq_true, decide_eq_true_eq, List.all_eq_true, List.mem_range, beq_iff_eq] at h
  refine ⟨h.1.1, fun i hi => h.1.2 i hi, ?_⟩
  have h2 := h.2
  constructor
  · intro h63 i hi
    have : decide (((m ||| 2 ^ fn) % 256) % 64 = 63) = true := by simpa using h63
    rw [this] at h2
    have h3 := h2.symm
    rw [List.all_eq_true] at h3
    exact h3 i (List.mem_range.mpr hi)
  · intro hall
    have : ((List.range 6).all fun i => ((m ||| 2 ^ fn) % 256).testBit i) = true := by
      rw [List.all_eq_true]; intro i hi; exact hall i (List.mem_range.mp hi)
    rw [this] at h2
    simpa using h2

/-! ## one frame -/

theorem slot_eq (lsf : List Nat) (n : Nat) : (lsf.drop (5 * n)).take 5 = slot lsf n := rfl

/-- what `decode_lich` does with fragment `n` of `lsf`, spelled out -/
theorem step_fragment (lo : Int) (hlo : 1 ≤ lo) (lsf : List Nat) (hl : lsf.length = 30) (hb : Bytes.AllBytes lsf)
    (σ : DState) (hm : σ.mode = .lsf) (n : Nat) (hn : n < 6) (data : List Nat) (hd : data.length = 18) (f : List Int) (cb : Bool)
    (hr : SoftImage lo (Spec.Tx.streamFrameBits lsf n data) f) :
    step σ .stream f cb =
      (let cbk : Callback := ⟨.lich, slot lsf n ++ [n * 32], 0⟩
       let buf := setSlot σ.lsfBuf n (slot lsf n)
       let mask := (σ.mask ||| 2 ^ n) % 256
       if mask % 64 ≠ 63 then
         { state := { σ with mask := mask, lsfBuf := buf }, calls := [cbk], result := .incomplete, cost := some sizeMax }
       else if Spec.crc16 buf = 0 then
         { state := { mode := .stream, mask := 0, lsfBuf := buf }, calls := [cbk, ⟨.lsf, buf, 0⟩], result := .ok, cost := some 0 }
       else
         { state := { σ with mask := mask, lsfBuf := buf }, calls := [cbk], result := .incomplete, cost := some 128 }) := by
  have hu := lich_roundtrip lo hlo lsf hl hb n data hd f hr
  have h6 : n % 6 = n := Nat.mod_eq_of_lt hn
  have h8 : n % 8 = n := Nat.mod_eq_of_lt (by omega)
  rw [h6, h8, slot_eq] at hu
  have hsl := slot_length lsf n hl (by omega)
  have hfn : ((slot lsf n ++ [n * 32]).getD 5 0 >>> 5) % 8 = n := by
    rw [List.getD_eq_getElem?_getD, List.getElem?_append_right (by omega), hsl]
    simp only [Nat.sub_self, List.getElem?_cons_zero, Option.getD_some, Nat.shiftRight_eq_div_pow]
    omega
  have htk : (slot lsf n ++ [n * 32]).take 5 = slot lsf n := by
    rw [List.take_append_of_le_length (by omega), List.take_of_length_le (by omega)]
  have h5 : Gen.maxLichFragment = 5 := by decide
  unfold step
  simp only [hm]
  unfold decodeLich
  rw [hu]
  simp only [hfn, htk, h5, crcOf_is_m17_crc]
  have : ¬ n > 5 := by omega
  simp only [this, if_false, hm]

/-! ## the run -/

theorem step_incomplete (lo : Int) (hlo : 1 ≤ lo) (lsf : List Nat) (hl : lsf.length = 30) (hb : Bytes.AllBytes lsf)
    (S : List Nat) (σ : DState) (hI : Inv lsf S σ) (n : Nat) (hn : n < 6) (data : List Nat) (hd : data.length = 18) (f : List Int) (cb : Bool)
    (hr : SoftImage lo (Spec.Tx.streamFrameBits lsf n data) f) (hnc : ¬ Covers (n :: S)) :
    Inv lsf (n :: S) (step σ .stream f cb).state ∧ (step σ .stream f cb).calls = [⟨.lich, slot lsf n ++ [n * 32], 0⟩] ∧
    (step σ .stream f cb).result = .incomplete := by
  obtain ⟨hm, hbl, hmk, hbits, hslots⟩ := hI
  obtain ⟨m1, m2, m3⟩ := mask_facts σ.mask n hmk hn
  have hne : ((σ.mask ||| 2 ^ n) % 256) % 64 ≠ 63 := by
    intro h63
    apply hnc
    intro i hi
    have := (m3.mp h63) i hi
    rw [m2 i hi] at this
    simp only [Bool.or_eq_true, beq_iff_eq] at this
    rcases this with h | h
    · exact List.mem_cons_of_mem _ ((hbits i hi).mp h)
    · rw [h]; exact List.mem_cons_self
  rw [step_fragment lo hlo lsf hl hb σ hm n hn data hd f cb hr]
  simp only [hne, ne_eq, not_false_eq_true, if_true]
  refine ⟨⟨hm, setSlot_length _ _ n hbl (by omega) (slot_length lsf n hl (by omega)), m1, ?_, ?_⟩, trivial, trivial⟩
  · intro i hi
    rw [m2 i hi]
    simp only [Bool.or_eq_true, beq_iff_eq, List.mem_cons]
    constructor
    · rintro (h | h)
      · right; exact (hbits i hi).mp h
      · left; exact h
    · rintro (h | h)
      · right; exact h
      · left; exact (hbits i hi).mpr h
  · intro i him hi
    rw [slot_setSlot _ _ n i hbl (by omega) (by omega) (slot_length lsf n hl (by omega))]
    by_cases hin : i = n
    · rw [if_pos hin, hin]
    · rw [if_neg hin]
      rcases List.mem_cons.mp him with h | h
      · exact absurd h hin
      · exact hslots i h hi

theorem covers_perm (a : Nat) (pre S : List Nat) : Covers (a :: pre ++ S) ↔ Covers (pre ++ a :: S) := by
  unfold Covers
  constructor <;> intro h i hi <;> have := h i hi <;> simp only [List.cons_append, List.mem_cons, List.mem_append] at this ⊢ <;>
    rcases this with h | h | h <;> simp [h]

theorem covers_mono (a : Nat) (S : List Nat) (h : Covers S) : Covers (a :: S) := fun i hi => List.mem_cons_of_mem _ (h i hi)

/-- **while the set is incomplete the decoder keeps collecting**: after any run of fragments of `lsf` that does not yet cover all six
    positions, the collected state is exactly "the positions seen, with `lsf`'s bytes", and only LICH callbacks were made -/
theorem run_incomplete (lo : Int) (hlo : 1 ≤ lo) (lsf : List Nat) (hl : lsf.length = 30) (hb : Bytes.AllBytes lsf) :
    ∀ (pre : List Nat) (fpre : List (List Int)) (S : List Nat) (σ : DState), Inv lsf S σ → Frames lo lsf pre fpre → ¬ Covers (pre ++ S) →
    Inv lsf (pre.reverse ++ S) (runState σ fpre) ∧ ∀ c ∈ runCalls σ fpre, c.ftype = .lich := by
  intro pre
  induction pre with
  | nil =>
    intro fpre S σ hI hF _
    cases fpre with
    | nil => exact ⟨hI, fun c hc => by simp [runCalls] at hc⟩
    | cons _ _ => simp [Frames] at hF
  | cons n pre ih =>
    intro fpre S σ hI hF hnc
    cases fpre with
    | nil => simp [Frames] at hF
    | cons f fs =>
      obtain ⟨hn, ⟨data, hd, hr⟩, hF'⟩ := hF
      have hnc1 : ¬ Covers (n :: S) := by
        intro h; apply hnc; intro i hi
        have := h i hi
        simp only [List.cons_append, List.mem_cons, List.mem_append] at this ⊢
        rcases this with h | h <;> simp [h]
      obtain ⟨hI', hc, _⟩ := step_incomplete lo hlo lsf hl hb S σ hI n hn data hd f true hr hnc1
      have hnc2 : ¬ Covers (pre ++ n :: S) := fun h => hnc ((covers_perm n pre S).mpr h)
      obtain ⟨r1, r2⟩ := ih fs (n :: S) _ hI' hF' hnc2
      refine ⟨?_, ?_⟩
      · have : (n :: pre).reverse ++ S = pre.reverse ++ n :: S := by simp
        rw [this]; exact r1
      · intro c hcm
        simp only [runCalls, List.mem_append] at hcm
        rcases hcm with h | h
        · rw [hc] at h; simp only [List.mem_cons, List.not_mem_nil, or_false] at h; rw [h]
        · exact r2 c h

/-- **late entry**: from a decoder that is waiting for link setup with nothing collected, after ANY sequence of clean stream frames of one
    transmission (fragments in any order, with any repetitions) that leaves exactly one position missing, the frame carrying that position
    makes the decoder report the link setup data `lsf` bit-exact (LICH callback, then LSF callback with cost 0), return OK, clear the
    collection and enter stream mode — provided `lsf` passes the CRC, as every transmitted LSF does -/
theorem late_entry (lo : Int) (hlo : 1 ≤ lo) (lsf : List Nat) (hl : lsf.length = 30) (hb : Bytes.AllBytes lsf) (hcrc : Spec.crc16 lsf = 0)
    (σ : DState) (hI : Inv lsf [] σ) (pre : List Nat) (fpre : List (List Int)) (hF : Frames lo lsf pre fpre)
    (n : Nat) (hn : n < 6) (data : List Nat) (hd : data.length = 18) (f : List Int) (cb : Bool)
    (hr : SoftImage lo (Spec.Tx.streamFrameBits lsf n data) f)
    (hnot : ¬ Covers pre) (hcov : Covers (n :: pre)) :
    step (runState σ fpre) .stream f cb =
      { state := { mode := .stream, mask := 0, lsfBuf := lsf },
        calls := [⟨.lich, slot lsf n ++ [n * 32], 0⟩, ⟨.lsf, lsf, 0⟩], result := .ok, cost := some 0 } := by
  obtain ⟨hI1, _⟩ := run_incomplete lo hlo lsf hl hb pre fpre [] σ hI hF (by simpa using hnot)
  simp only [List.append_nil] at hI1
  obtain ⟨hm, hbl, hmk, hbits, hslots⟩ := hI1
  obtain ⟨m1, m2, m3⟩ := mask_facts (runState σ fpre).mask n hmk hn
  have h63 : (((runState σ fpre).mask ||| 2 ^ n) % 256) % 64 = 63 := by
    apply m3.mpr
    intro i hi
    rw [m2 i hi]
    simp only [Bool.or_eq_true, beq_iff_eq]
    rcases List.mem_cons.mp (hcov i hi) with h | h
    · right; exact h
    · left; exact (hbits i hi).mpr (List.mem_reverse.mpr h)
  have hbuf : setSlot (runState σ fpre).lsfBuf n (slot lsf n) = lsf := by
    apply setSlot_completes _ lsf _ n hbl hl (by omega) rfl
    intro i hi hin
    have : i ∈ pre := by
      rcases List.mem_cons.mp (hcov i (by omega)) with h | h
      · exact absurd h hin
      · exact h
    exact hslots i (List.mem_reverse.mpr this) (by omega)
  rw [step_fragment lo hlo lsf hl hb _ hm n hn data hd f cb hr]
  simp only [h63, ne_eq, not_true_eq_false, if_false, hbuf, hcrc, if_true]

/-! ## non-vacuity -/

/-- the state after construction (and after any failed LSF-sync frame) satisfies the starting condition -/
example (lsf : List Nat) : Inv lsf [] Dec.init := by
  refine ⟨rfl, by simp [Dec.init], by decide, ?_, ?_⟩
  · intro i _; simp [Dec.init]
  · intro i hi; simp at hi

example : ¬ Covers [0, 1, 2, 3, 4] ∧ Covers [5, 0, 1, 2, 3, 4] := by
  constructor
  · intro h; have := h 5 (by decide); simp at this
  · intro i hi; have : i = 0 ∨ i = 1 ∨ i = 2 ∨ i = 3 ∨ i = 4 ∨ i = 5 := by omega
    rcases this with rfl | rfl | rfl | rfl | rfl | rfl <;> simp

end M17.C05S

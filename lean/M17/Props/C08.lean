/-
C08 — the frame decoder follows its documented state machine; the outcome for a frame depends only on the mode,
the LICH fragments collected so far and the frame itself.
-/
import M17.Model.Decoder
import M17.Spec.DecoderSM

namespace M17.C08
open M17.Dec
open M17.Spec (SM.Obs)

def toM : Mode → Spec.SM.Mode
  | .lsf => .lsf | .stream => .stream | .basicPacket => .basicPacket | .fullPacket => .fullPacket | .bert => .bert
def toS : Sync → Spec.SM.Sync
  | .lsf => .lsf | .stream => .stream | .packet => .packet | .bert => .bert
def toR : Result → Spec.SM.Result
  | .fail => .fail | .ok => .ok | .eos => .eos | .incomplete => .incomplete | .packetIncomplete => .packetIncomplete
def toK : FType → Spec.SM.Kind
  | .lsf => .lsf | .lich => .lich | .stream => .stream | .basicPacket => .basicPacket | .fullPacket => .fullPacket | .bert => .bert

/-- the received frame after derandomizing and deinterleaving -/
def cond (frame : List Int) : List Int := Cond.deinterleaveSoft (Cond.randSoft frame)

/-- the abstract observations, as the decoder computes them from the frame and its LICH state -/
def obsOf (σ : DState) (frame : List Int) (cb : Bool) : SM.Obs :=
  let buf := cond frame
  let l := fec Gen.p1 buf 488 240
  let lich := unpackLich buf
  let fn := ((lich.getD []).getD 5 0 >>> 5) % 8
  let lsf' := setSlot σ.lsfBuf fn ((lich.getD []).take 5)
  { lsfCrcOk := crcOf l.2.2 = 0,
    isStream := l.2.1.getD 111 false,
    voiceBit := l.2.1.getD 109 false,
    rawPacket := 2 * (l.2.1.getD 109 false).toNat + (l.2.1.getD 110 false).toNat = 1,
    golayOk := lich.isSome,
    fragInRange := fn ≤ Gen.maxLichFragment,
    allSix := ((σ.mask ||| 2 ^ fn) % 256) % 64 = 63,
    lichCrcOk := crcOf lsf' = 0,
    eof := (fec Gen.p3 buf 420 206).2.2.getD 25 0 ≥ 128,
    cb := cb }

attribute [local irreducible] fec unpackLich crcOf Cond.deinterleaveSoft Cond.randSoft setSlot

abbrev view (o : StepOut) : Spec.SM.Mode × Spec.SM.Result × List Spec.SM.Kind :=
  (toM o.state.mode, toR o.result, o.calls.map (toK ∘ Callback.ftype))

/-! core of each branch, stated over arbitrary decoded values (no FEC terms), then instantiated -/

theorem lsf_core (σ : DState) (r : Nat × List Bool × List Nat) (c : Nat) (o : SM.Obs)
    (h1 : o.lsfCrcOk = decide (c = 0)) (h2 : o.isStream = r.2.1.getD 111 false) (h3 : o.voiceBit = r.2.1.getD 109 false)
    (h4 : o.rawPacket = decide (2 * (r.2.1.getD 109 false).toNat + (r.2.1.getD 110 false).toNat = 1)) (m : Spec.SM.Mode) :
    view (if c = 0 then
        { state := { σ with mode := updateState .lsf r.2.1, lsfBuf := r.2.2 },
          calls := [⟨.lsf, r.2.2, r.1⟩], result := .ok, cost := some r.1 }
      else
        { state := { mode := .lsf, mask := 0, lsfBuf := List.replicate 30 0 }, calls := [], result := .fail, cost := some r.1 })
      = Spec.SM.step m .lsf o := by
  unfold Spec.SM.step updateState
  by_cases hc : c = 0
  · simp only [hc, if_true, h1, h2, h3, h4, decide_true]
    cases r.2.1.getD 111 false <;> cases r.2.1.getD 109 false <;> cases r.2.1.getD 110 false <;> simp [view, toM, toR, toK]
  · simp [hc, h1, view, toM, toR]

theorem lich_core_none (σ : DState) (o : SM.Obs) (h1 : o.golayOk = false) (hm : σ.mode = .lsf) :
    view ({ state := σ, calls := [], result := .fail, cost := none } : StepOut) = Spec.SM.step .lsf .stream o := by
  unfold Spec.SM.step; simp [h1, view, toM, toR, hm]

theorem lich_core_some (σ : DState) (lich : List Nat) (crcf : List Nat → Nat) (o : SM.Obs)
    (h1 : o.golayOk = true)
    (h2 : o.fragInRange = decide ((lich.getD 5 0 >>> 5) % 8 ≤ Gen.maxLichFragment))
    (h3 : o.allSix = decide (((σ.mask ||| 2 ^ ((lich.getD 5 0 >>> 5) % 8)) % 256) % 64 = 63))
    (h4 : o.lichCrcOk = decide (crcf (setSlot σ.lsfBuf ((lich.getD 5 0 >>> 5) % 8) (lich.take 5)) = 0))
    (hm : σ.mode = .lsf) :
    view (
        let cb : Callback := ⟨.lich, lich, 0⟩
        let fn := (lich.getD 5 0 >>> 5) % 8
        if fn > Gen.maxLichFragment then
          { state := σ, calls := [cb], result := .incomplete, cost := some sizeMax }
        else
          let lsf := setSlot σ.lsfBuf fn (lich.take 5)
          let mask := (σ.mask ||| 2 ^ fn) % 256
          if mask % 64 ≠ 63 then
            { state := { σ with mask := mask, lsfBuf := lsf }, calls := [cb], result := .incomplete, cost := some sizeMax }
          else if crcf lsf = 0 then
            { state := { mode := .stream, mask := 0, lsfBuf := lsf }, calls := [cb, ⟨.lsf, lsf, 0⟩], result := .ok, cost := some 0 }
          else
            { state := { σ with mask := mask, lsfBuf := lsf }, calls := [cb], result := .incomplete, cost := some 128 })
      = Spec.SM.step .lsf .stream o := by
  unfold Spec.SM.step
  simp only [h1, h2, h3, h4, Bool.not_true, Bool.false_eq_true, if_false]
  obtain ⟨fn, hfn⟩ : ∃ fn, fn = (lich.getD 5 0 >>> 5) % 8 := ⟨_, rfl⟩
  simp only [← hfn]
  obtain ⟨c, hc'⟩ : ∃ c, c = crcf (setSlot σ.lsfBuf fn (lich.take 5)) := ⟨_, rfl⟩
  obtain ⟨m8, hm8⟩ : ∃ m8, m8 = (σ.mask ||| 2 ^ fn) % 256 := ⟨_, rfl⟩
  simp only [← hc', ← hm8]
  by_cases hf : fn > Gen.maxLichFragment
  · have : ¬ fn ≤ Gen.maxLichFragment := by omega
    simp [hf, this, view, toM, toR, toK, hm]
  · have hle : fn ≤ Gen.maxLichFragment := by omega
    simp only [hf, if_false, hle, decide_true, Bool.not_true, Bool.false_eq_true]
    by_cases h6 : m8 % 64 = 63
    · by_cases hc : c = 0 <;> simp [h6, hc, view, toM, toR, toK, hm]
    · simp [h6, view, toM, toR, toK, hm]

theorem packet_core (σ : DState) (r : Nat × List Bool × List Nat) (ty : FType) (cb : Bool) (o : SM.Obs)
    (h1 : o.eof = decide (r.2.2.getD 25 0 ≥ 128)) (h2 : o.cb = cb) :
    view (if r.2.2.getD 25 0 ≥ 128 then
        { state := { σ with mode := .lsf }, calls := [⟨ty, r.2.2, r.1⟩], result := if cb then .ok else .fail, cost := some r.1 }
      else
        { state := σ, calls := [⟨ty, r.2.2, r.1⟩], result := .packetIncomplete, cost := some r.1 })
      = (if o.eof then (Spec.SM.Mode.lsf, (if o.cb then Spec.SM.Result.ok else .fail), [toK ty])
         else (toM σ.mode, .packetIncomplete, [toK ty])) := by
  obtain ⟨e, he'⟩ : ∃ e, e = r.2.2.getD 25 0 := ⟨_, rfl⟩
  simp only [← he'] at h1 ⊢
  subst h2
  by_cases he : e ≥ 128
  · cases hcb : o.cb <;> simp [he, h1, hcb, view, toM, toR, toK]
  · simp [he, h1, view, toM, toR, toK]

/-- **the modelled `operator()` simulates the documented state machine**: mode after the frame, return code and
    the sequence of callback kinds are those of `Spec.SM.step`, for every state, sync type, content and callback result -/
theorem step_refines_spec (σ : DState) (sync : Sync) (frame : List Int) (cb : Bool) :
    view (step σ sync frame cb) = Spec.SM.step (toM σ.mode) (toS sync) (obsOf σ frame cb) := by
  cases sync
  · exact lsf_core { σ with mode := .lsf } (fec Gen.p1 (cond frame) 488 240) (crcOf (fec Gen.p1 (cond frame) 488 240).2.2)
      (obsOf σ frame cb) rfl rfl rfl rfl (toM σ.mode)
  · cases hm : σ.mode
    · unfold step; simp only [hm]
      show view (decodeLich σ (cond frame)) = Spec.SM.step .lsf .stream (obsOf σ frame cb)
      unfold decodeLich
      cases hu : unpackLich (cond frame) with
      | none =>
        exact lich_core_none σ _ (by show (unpackLich (cond frame)).isSome = false; rw [hu]; rfl) hm
      | some lich =>
        exact lich_core_some σ lich crcOf _ (by show (unpackLich (cond frame)).isSome = true; rw [hu]; rfl)
          (by show decide (((((unpackLich (cond frame)).getD []).getD 5 0 >>> 5) % 8) ≤ Gen.maxLichFragment) = _; rw [hu]; rfl)
          (by show decide (((σ.mask ||| 2 ^ (((((unpackLich (cond frame)).getD []).getD 5 0 >>> 5) % 8))) % 256) % 64 = 63) = _; rw [hu]; rfl)
          (by show decide (crcOf (setSlot σ.lsfBuf (((((unpackLich (cond frame)).getD []).getD 5 0 >>> 5) % 8)) (((unpackLich (cond frame)).getD []).take 5)) = 0) = _; rw [hu]; rfl)
          hm
    · unfold step; simp [hm, decodeStream, view, toM, toS, toR, toK, Spec.SM.step]
    · unfold step; simp [hm, view, toM, toS, toR, toK, Spec.SM.step]
    · unfold step; simp [hm, view, toM, toS, toR, toK, Spec.SM.step]
    · unfold step; simp [hm, view, toM, toS, toR, toK, Spec.SM.step]
  · cases hm : σ.mode
    · unfold step; simp [hm, view, toM, toS, toR, toK, Spec.SM.step]
    · unfold step; simp [hm, view, toM, toS, toR, toK, Spec.SM.step]
    · have := packet_core σ (fec Gen.p3 (cond frame) 420 206) .basicPacket cb (obsOf σ frame cb) rfl rfl
      unfold step; simp only [hm]
      show view (decodePacket σ (cond frame) .basicPacket cb) = _
      unfold decodePacket
      rw [this]; simp [hm, toM, toS, toK, Spec.SM.step]
    · have := packet_core σ (fec Gen.p3 (cond frame) 420 206) .fullPacket cb (obsOf σ frame cb) rfl rfl
      unfold step; simp only [hm]
      show view (decodePacket σ (cond frame) .fullPacket cb) = _
      unfold decodePacket
      rw [this]; simp [hm, toM, toS, toK, Spec.SM.step]
    · unfold step; simp [hm, view, toM, toS, toR, toK, Spec.SM.step]
  · unfold step; simp [decodeBert, view, toM, toS, toR, toK, Spec.SM.step]

/-! ## the clauses of the property, read off the refinement -/

/-- LSF sync always restarts link setup: the outcome does not depend on the state the decoder was in; it is either
    (OK, one LSF callback) or (FAIL, no callback, mode LSF) -/
theorem lsf_sync_restarts (σ σ' : DState) (frame : List Int) (cb cb' : Bool) :
    view (step σ .lsf frame cb) = view (step σ' .lsf frame cb') ∧
    (view (step σ .lsf frame cb) = (.lsf, .fail, []) ∨
      ((view (step σ .lsf frame cb)).2 = (.ok, [.lsf]) ∧ (view (step σ .lsf frame cb)).1 ≠ .bert)) := by
  rw [step_refines_spec, step_refines_spec]
  refine ⟨rfl, ?_⟩
  simp only [Spec.SM.step, toS]
  split
  · right; refine ⟨rfl, ?_⟩; split <;> split <;> simp
  · left; rfl

/-- while waiting for link setup, stream frames are LICH-collected: callbacks are none, [LICH] or [LICH, LSF]; stream
    mode is entered exactly when the reassembled LSF is reported -/
theorem stream_in_lsf_mode_collects_lich (σ : DState) (frame : List Int) (cb : Bool) (hm : σ.mode = .lsf) :
    let v := view (step σ .stream frame cb)
    (v = (.lsf, .fail, []) ∨ v = (.lsf, .incomplete, [.lich]) ∨ v = (.stream, .ok, [.lich, .lsf])) := by
  simp only
  rw [step_refines_spec, hm]
  simp only [Spec.SM.step, toS, toM]
  split
  · left; rfl
  · split
    · right; left; rfl
    · split
      · right; left; rfl
      · split
        · right; right; rfl
        · right; left; rfl

/-- in stream mode every stream frame is payload-decoded -/
theorem stream_mode_decodes (σ : DState) (frame : List Int) (cb : Bool) (hm : σ.mode = .stream) :
    view (step σ .stream frame cb) = (.stream, .ok, [.stream]) := by
  rw [step_refines_spec, hm]; rfl

/-- stream mode is entered only by a (voice) stream LSF or by a completed LICH reassembly -/
theorem stream_mode_entry (σ : DState) (sync : Sync) (frame : List Int) (cb : Bool)
    (h : (view (step σ sync frame cb)).1 = .stream) (hn : σ.mode ≠ .stream) :
    (sync = .lsf ∧ (view (step σ sync frame cb)).2 = (.ok, [.lsf])) ∨
    (sync = .stream ∧ σ.mode = .lsf ∧ (view (step σ sync frame cb)).2 = (.ok, [.lich, .lsf])) := by
  rw [step_refines_spec] at h ⊢
  cases sync <;> cases hm : σ.mode <;> simp only [Spec.SM.step, toS, toM, hm] at h ⊢ <;> try (exact absurd hm hn)
  all_goals (first
    | (split at h <;> simp_all)
    | simp_all)
  all_goals (repeat' split at h) <;> simp_all

/-- packet frames are accepted only in a packet mode, and packet modes are entered only by an LSF-sync frame -/
theorem packet_only_after_packet_lsf (σ : DState) (sync : Sync) (frame : List Int) (cb : Bool) :
    (sync = .packet → σ.mode ≠ .basicPacket → σ.mode ≠ .fullPacket → view (step σ sync frame cb) = (.lsf, .fail, [])) ∧
    (((view (step σ sync frame cb)).1 = .basicPacket ∨ (view (step σ sync frame cb)).1 = .fullPacket) →
      sync = .lsf ∨ (sync = .packet ∧ (toM σ.mode = (view (step σ sync frame cb)).1))) := by
  rw [step_refines_spec]
  constructor
  · intro hs h1 h2
    subst hs
    cases hm : σ.mode <;> simp_all [Spec.SM.step, toS, toM]
  · intro h
    cases sync <;> cases hm : σ.mode <;> simp only [Spec.SM.step, toS, toM, hm] at h ⊢ <;>
      first | (left; rfl) | (repeat' split at h) <;> simp_all

/-- a packet ends at the EOF bit with the callback's verdict; otherwise the mode is kept -/
theorem packet_ends_at_eof (σ : DState) (frame : List Int) (cb : Bool)
    (hm : σ.mode = .basicPacket ∨ σ.mode = .fullPacket) :
    view (step σ .packet frame cb) =
      (if (obsOf σ frame cb).eof then (.lsf, (if cb then .ok else .fail), [toK (if σ.mode = .basicPacket then .basicPacket else .fullPacket)])
       else (toM σ.mode, .packetIncomplete, [toK (if σ.mode = .basicPacket then .basicPacket else .fullPacket)])) := by
  rw [step_refines_spec]
  have hcb : (obsOf σ frame cb).cb = cb := rfl
  rcases hm with hm | hm <;> simp [Spec.SM.step, toS, toM, toK, hm, hcb]

/-- BERT sync always decodes BERT -/
theorem bert_always_bert (σ : DState) (frame : List Int) (cb : Bool) :
    view (step σ .bert frame cb) = (.bert, .ok, [.bert]) := by
  rw [step_refines_spec]; rfl

/-- a sync type that is not valid in the current mode drops back to link setup and fails, with no callback -/
theorem invalid_sync_drops_to_lsf_fail (σ : DState) (frame : List Int) (cb : Bool) :
    ((σ.mode = .basicPacket ∨ σ.mode = .fullPacket ∨ σ.mode = .bert) → view (step σ .stream frame cb) = (.lsf, .fail, [])) ∧
    ((σ.mode = .lsf ∨ σ.mode = .stream ∨ σ.mode = .bert) → view (step σ .packet frame cb) = (.lsf, .fail, [])) := by
  rw [step_refines_spec, step_refines_spec]
  constructor <;> intro h <;> rcases h with h | h | h <;> simp [Spec.SM.step, toS, toM, h]

/-- within the model, what is reported for a payload frame does not depend on the LICH state at all, and what is
    reported for an LSF / BERT frame does not depend on the previous state at all -/
theorem outcome_depends_on_abstract_state (σ σ' : DState) (frame : List Int) (cb : Bool) :
    (σ.mode = .stream → σ'.mode = .stream →
      (step σ .stream frame cb).calls = (step σ' .stream frame cb).calls ∧
      (step σ .stream frame cb).result = (step σ' .stream frame cb).result ∧
      (step σ .stream frame cb).cost = (step σ' .stream frame cb).cost) ∧
    ((step σ .bert frame cb).calls = (step σ' .bert frame cb).calls ∧ (step σ .bert frame cb).cost = (step σ' .bert frame cb).cost) ∧
    ((step σ .lsf frame cb).calls = (step σ' .lsf frame cb).calls ∧ (step σ .lsf frame cb).cost = (step σ' .lsf frame cb).cost ∧
      (step σ .lsf frame cb).result = (step σ' .lsf frame cb).result) := by
  refine ⟨?_, ⟨rfl, rfl⟩, ?_⟩
  · intro h h'
    unfold step; simp only [h, h']; exact ⟨rfl, rfl, rfl⟩
  · unfold step decodeLsf
    simp only
    split <;> exact ⟨rfl, rfl, rfl⟩

end M17.C08

/-
C18 — PRBS9/BERT: maximal-length generator, lock within 27 bits, exact error count.
-/
import M17.Model.Prbs
import M17.Lemmas.Bits
import M17.Lemmas.Bytes

namespace M17.C18
open M17.Prbs

/-! ## bridge lemmas -/
/-- taps 9 and 5 (x^9 + x^5 + 1), 9-bit mask, lock after 18 good bits, unlock at 25 errors in 128, start state 1 -/
theorem gen_consts : Gen.prbsTap1 = 8 ∧ Gen.prbsTap2 = 4 ∧ Gen.prbsMask = 511 ∧ Gen.prbsLockCount = 18 ∧
    Gen.prbsUnlockCount = 25 ∧ Gen.prbsInitState = 1 ∧ Gen.prbsHistBits = 128 := by decide

/-! ## arithmetic form of the register operations -/

theorem shiftIn_eq (s : Nat) (b : Bool) : shiftIn s b = (2 * s + (if b then 1 else 0)) % 512 := by
  unfold shiftIn
  have hm : Gen.prbsMask = 2 ^ 9 - 1 := by decide
  rw [hm, Nat.and_two_pow_sub_one_eq_mod, Bits.shl1_or _ _ (by split <;> decide)]

theorem shiftIn_lt (s : Nat) (b : Bool) : shiftIn s b < 512 := by rw [shiftIn_eq]; omega

theorem fb_eq (s : Nat) : fb s = (s / 256 % 2 != s / 16 % 2) := by
  unfold fb
  have h1 : Gen.prbsTap1 = 8 := by decide
  have h2 : Gen.prbsTap2 = 4 := by decide
  rw [h1, h2, Nat.shiftRight_eq_div_pow, Nat.shiftRight_eq_div_pow]

/-! ## the generator is the PRBS9 m-sequence -/

def genStates : Nat → Nat → List Nat
  | 0, _ => []
  | n+1, g => shiftIn g (fb g) :: genStates n (shiftIn g (fb g))

/-- period exactly 511 from the reset state (first return to the start register after 511 steps), every register on
    the way non-zero and 9 bits wide, 256 ones per period.  The recurrence x^9 + x^5 + 1 is the tap pair (8, 4) of
    `gen_consts` read through `fb_eq`. -/
def orbitOK : Bool :=
  let st := genStates 511 1
  let bits := genBits 511 1
  st.getLastD 0 == 1 && (st.take 510).all (· != 1) && st.all (fun s => s != 0 && decide (s < 512)) &&
  bits.count true == 256

theorem period_511 : orbitOK = true := by decide +kernel


/-! ## lock -/

theorem genState_eq_foldl (n g : Nat) : genState n g = (genBits n g).foldl shiftIn g := by
  induction n generalizing g with
  | zero => rfl
  | succ n ih => simp only [genState, genBits, List.foldl]; exact ih _

theorem genBits_add (m n g : Nat) : genBits (m + n) g = genBits m g ++ genBits n (genState m g) := by
  induction m generalizing g with
  | zero => simp [genBits, genState]
  | succ m ih => rw [Nat.succ_add]; simp only [genBits, genState, List.cons_append]; rw [ih]

theorem genBits_length (n g : Nat) : (genBits n g).length = n := by
  induction n generalizing g with
  | zero => rfl
  | succ n ih => simp [genBits, ih]

theorem genState_add (m n g : Nat) : genState (m + n) g = genState n (genState m g) := by
  induction m generalizing g with
  | zero => simp [genState]
  | succ m ih => rw [Nat.succ_add]; simp only [genState]; exact ih _

theorem run_append (s : St) (a b : List Bool) : run s (a ++ b) = run (run s a) b := by
  unfold run; rw [List.foldl_append]

theorem run_cons (s : St) (b : Bool) (bs : List Bool) : run s (b :: bs) = run (validate s b).1 bs := rfl

/-- one unsynchronised step: the register shifts the received bit in; the counter logic sees only `result` -/
theorem validate_unsynced (s : St) (b : Bool) (h : s.synced = false) :
    (validate s b).1.state = shiftIn s.state b ∧
    (validate s b).2 = (b != fb s.state) ∧
    ((b != fb s.state) = true → (validate s b).1.synced = false ∧ (validate s b).1.syncCount = 0) ∧
    ((b != fb s.state) = false → (s.syncCount + 1) % 256 ≠ 18 →
        (validate s b).1.synced = false ∧ (validate s b).1.syncCount = (s.syncCount + 1) % 256) ∧
    ((b != fb s.state) = false → (s.syncCount + 1) % 256 = 18 → (validate s b).1.synced = true) := by
  have hl : Gen.prbsLockCount = 18 := by decide
  unfold validate synchronize
  simp only [h, Bool.not_false, if_true, hl]
  by_cases hr : (b != fb s.state) = true
  · simp [hr]
  · have hr' : (b != fb s.state) = false := by simpa using hr
    by_cases hc : (s.syncCount + 1) % 256 = 18
    · simp [hr', hc, h]
    · simp [hr', hc, h]

/-- while fewer than 18 bits have been seen since the counter was zero, no lock; the register holds the shifted-in bits -/
theorem no_early_lock (bits : List Bool) : ∀ (s : St), s.synced = false → s.syncCount + bits.length ≤ 17 →
    (run s bits).synced = false ∧ (run s bits).syncCount ≤ s.syncCount + bits.length ∧
    (run s bits).state = bits.foldl shiftIn s.state := by
  induction bits with
  | nil => intro s h _; exact ⟨h, by simp [run], rfl⟩
  | cons b bs ih =>
    intro s h hlen
    simp only [List.length_cons] at hlen
    obtain ⟨h1, _, h3, h4, _⟩ := validate_unsynced s b h
    have hstep : (validate s b).1.synced = false ∧ (validate s b).1.syncCount ≤ s.syncCount + 1 := by
      by_cases hr : (b != fb s.state) = true
      · have := h3 hr; exact ⟨this.1, by omega⟩
      · have hr' : (b != fb s.state) = false := by simpa using hr
        have hne : (s.syncCount + 1) % 256 ≠ 18 := by omega
        have := h4 hr' hne
        exact ⟨this.1, by omega⟩
    have := ih (validate s b).1 hstep.1 (by omega)
    rw [run_cons]
    refine ⟨this.1, ?_, ?_⟩
    · simp only [List.length_cons]; omega
    · rw [this.2.2, h1]; rfl

/-- nine shifted-in bits determine the register, whatever it held before -/
theorem nine_bits_determine (bits : List Bool) (h : bits.length = 9) (a b : Nat) :
    bits.foldl shiftIn a = bits.foldl shiftIn b := by
  match bits, h with
  | [b1, b2, b3, b4, b5, b6, b7, b8, b9], _ =>
    simp only [List.foldl, shiftIn_eq]
    omega

/-- while the validator's register equals the generator's and the received bits are the generator's,
    every bit matches and the counter runs up to the lock -/
theorem tracking (k : Nat) : ∀ (s : St) (g : Nat), s.synced = false → s.state = g → s.syncCount + k < 18 →
    (run s (genBits k g)).synced = false ∧ (run s (genBits k g)).syncCount = s.syncCount + k ∧
    (run s (genBits k g)).state = genState k g := by
  induction k with
  | zero => intro s g h hs _; exact ⟨h, rfl, hs⟩
  | succ k ih =>
    intro s g h hs hk
    simp only [genBits, genState]
    obtain ⟨h1, _, _, h4, _⟩ := validate_unsynced s (fb g) h
    have hr : (fb g != fb s.state) = false := by rw [hs]; simp
    have hne : (s.syncCount + 1) % 256 ≠ 18 := by omega
    have h4' := h4 hr hne
    have hsc : (validate s (fb g)).1.syncCount = s.syncCount + 1 := by rw [h4'.2]; omega
    have := ih (validate s (fb g)).1 (shiftIn g (fb g)) h4'.1 (by rw [h1, hs]) (by omega)
    rw [run_cons]
    refine ⟨this.1, by rw [this.2.1, hsc]; omega, this.2.2⟩

/-- **a validator fed any phase of the sequence locks within 27 bits** (and not before 18), and at
    lock its register equals the generator's.  `v` is any unlocked validator whose run counter is 0 — the
    condition after construction, `reset()`, and after an unlock; its register content is arbitrary. -/
theorem locks_within_27 (v : St) (g0 : Nat) (hv : v.synced = false) (hc : v.syncCount = 0) :
    ∃ n, 18 ≤ n ∧ n ≤ 27 ∧ (run v (genBits n g0)).synced = true ∧ (run v (genBits n g0)).state = genState n g0 ∧
      ∀ m, m < n → (run v (genBits m g0)).synced = false := by
  -- phase 1: the first nine bits
  obtain ⟨p1, p2, p3⟩ := no_early_lock (genBits 9 g0) v hv (by rw [hc, genBits_length]; omega)
  rw [hc, genBits_length] at p2
  have hst : (run v (genBits 9 g0)).state = genState 9 g0 := by
    rw [p3, genState_eq_foldl]
    exact nine_bits_determine _ (genBits_length 9 g0) _ _
  generalize hs9 : run v (genBits 9 g0) = s9 at p1 p2 hst
  -- phase 2: c more … up to 17 counted, then the locking bit
  let c := s9.syncCount
  have hcle : c ≤ 9 := by simpa using p2
  obtain ⟨t1, t2, t3⟩ := tracking (17 - c) s9 (genState 9 g0) p1 hst (by omega)
  generalize hs17 : run s9 (genBits (17 - c) (genState 9 g0)) = s17 at t1 t2 t3
  -- the locking step
  obtain ⟨l1, _, _, _, l5⟩ := validate_unsynced s17 (fb s17.state) t1
  have hr : (fb s17.state != fb s17.state) = false := by simp
  have hlock := l5 hr (by rw [t2]; omega)
  have hg : genState (9 + (17 - c)) g0 = s17.state := by rw [genState_add, t3]
  have hrun : run v (genBits (9 + (17 - c) + 1) g0) = (validate s17 (fb s17.state)).1 := by
    rw [genBits_add, genBits_add, run_append, run_append, hs9, hs17, hg]; rfl
  refine ⟨9 + (17 - c) + 1, by omega, by omega, ?_, ?_, ?_⟩
  · rw [hrun]; exact hlock
  · rw [hrun, l1, genState_add, hg]; rfl
  · intro m hm
    by_cases hm9 : m ≤ 9
    · exact (no_early_lock (genBits m g0) v hv (by rw [hc, genBits_length]; omega)).1
    · have : m = 9 + (m - 9) := by omega
      rw [this, genBits_add, run_append, hs9]
      exact (tracking (m - 9) s9 (genState 9 g0) p1 hst (by omega)).1

/-! ## exact counting while locked -/

/-- number of `true` entries -/
def ones (l : List Bool) : Nat := l.count true

/-- one locked step: the register free-runs, the error flag is `received xor generated`, counters advance -/
theorem validate_synced (s : St) (b : Bool) (h : s.synced = true) :
    (validate s b).1.state = shiftIn s.state (fb s.state) ∧
    (validate s b).2 = (b != fb s.state) ∧
    (validate s b).1.bitCount = (s.bitCount + 1) % 2 ^ 32 ∧
    (validate s b).1.errCount = (if (b != fb s.state) then (s.errCount + 1) % 2 ^ 32 else s.errCount) ∧
    (validate s b).1.syncCount = s.syncCount := by
  unfold validate generate countErrors
  simp only [h, Bool.not_true, Bool.false_eq_true, if_false]
  by_cases hr : (b != fb s.state) = true
  · simp only [hr, if_true]
    refine ⟨?_, ?_, ?_, ?_, ?_⟩ <;> first | rfl | trivial
  · have hr' : (b != fb s.state) = false := by simpa using hr
    simp only [hr', Bool.false_eq_true, if_false]
    refine ⟨?_, ?_, ?_, ?_, ?_⟩ <;> first | rfl | trivial

/-- the last 128 error flags (older ones forgotten, missing ones `false`), oldest first -/
def W (rs : List Bool) : List Bool := (List.replicate 128 false ++ rs).drop rs.length

theorem W_length (rs : List Bool) : (W rs).length = 128 := by
  unfold W; rw [List.length_drop, List.length_append, List.length_replicate]; omega

theorem W_snoc (rs : List Bool) (r : Bool) : W (rs ++ [r]) = (W rs).drop 1 ++ [r] := by
  unfold W
  rw [← List.append_assoc, List.length_append, List.length_singleton, List.drop_drop]
  rw [List.drop_append_of_le_length (by simp)]

theorem ones_snoc (rs : List Bool) (r : Bool) :
    ones (W (rs ++ [r])) + (if (W rs).getD 0 false then 1 else 0) = ones (W rs) + (if r then 1 else 0) := by
  rw [W_snoc]
  have hl := W_length rs
  generalize W rs = w at hl ⊢
  cases w with
  | nil => simp at hl
  | cons x w =>
    unfold ones
    simp only [List.drop_succ_cons, List.drop_zero, List.count_append, List.getD_cons_zero, List.count_cons,
      List.count_nil]
    cases x <;> cases r <;> simp <;> omega

theorem ones_pos_of_head (l : List Bool) (h : l.getD 0 false = true) : 1 ≤ ones l := by
  cases l with
  | nil => simp at h
  | cons x l => simp at h; subst h; unfold ones; simp

theorem ones_le (l : List Bool) : ones l ≤ l.length := List.count_le_length

/-- what the validator remembers about the error flags `rs` seen since it locked -/
def Inv (s : St) (rs : List Bool) : Prop :=
  s.histPos = rs.length % 128 ∧ s.history.length = 128 ∧ s.histCount = ones (W rs) ∧
  ∀ j, j < 128 → s.history.getD j false = (W rs).getD ((j + 128 - s.histPos) % 128) false

theorem inv_fresh (s : St) (h1 : s.history = List.replicate 128 false) (h2 : s.histCount = 0) (h3 : s.histPos = 0) :
    Inv s [] := by
  refine ⟨by simp [h3], by simp [h1], ?_, ?_⟩
  · rw [h2]; unfold W ones; simp
  · intro j hj
    rw [h1, h3]; unfold W
    simp only [List.append_nil, List.length_nil, List.drop_zero, List.getD_eq_getElem?_getD, List.getElem?_replicate]
    split <;> split <;> rfl

/-! field-by-field description of `count_errors` (proved by simplification, never by unfolding in the unifier) -/
theorem ce_state (s : St) (e : Bool) : (countErrors s e).state = s.state := by
  unfold countErrors; cases e <;> simp
theorem ce_pos (s : St) (e : Bool) : (countErrors s e).histPos = if s.histPos + 1 = histBits then 0 else s.histPos + 1 := by
  unfold countErrors; cases e <;> simp
theorem ce_hist (s : St) (e : Bool) : (countErrors s e).history = s.history.set s.histPos e := by
  unfold countErrors; cases e <;> simp
theorem ce_bits (s : St) (e : Bool) : (countErrors s e).bitCount = (s.bitCount + 1) % 2 ^ 32 := by
  unfold countErrors; cases e <;> simp
theorem ce_errs (s : St) (e : Bool) : (countErrors s e).errCount = if e then (s.errCount + 1) % 2 ^ 32 else s.errCount := by
  unfold countErrors; cases e <;> simp
theorem ce_cnt (s : St) (e : Bool) : (countErrors s e).histCount =
    if e then ((s.histCount + 2 ^ 64 - (if s.history.getD s.histPos false then 1 else 0)) % 2 ^ 64 + 1) % 2 ^ 64
    else (s.histCount + 2 ^ 64 - (if s.history.getD s.histPos false then 1 else 0)) % 2 ^ 64 := by
  unfold countErrors; cases e <;> simp
theorem ce_synced (s : St) (e : Bool) : (countErrors s e).synced =
    if e then (if ((s.histCount + 2 ^ 64 - (if s.history.getD s.histPos false then 1 else 0)) % 2 ^ 64 + 1) % 2 ^ 64 ≥ 25
      then false else s.synced)
    else s.synced := by
  have hu : Gen.prbsUnlockCount = 25 := by decide
  unfold countErrors; cases e <;> simp [hu]

attribute [local irreducible] countErrors

/-- the state a locked validator is in after `validate` -/
theorem validate_locked_eq (s : St) (b : Bool) (h : s.synced = true) :
    (validate s b).1 = countErrors { s with state := shiftIn s.state (fb s.state) } (b != fb s.state) := by
  unfold validate generate
  simp [h]

/-- the bookkeeping of one locked step, stated on the *fields* of the old and new state only -/
theorem locked_step_abs (pos pos1 cnt cnt1 : Nat) (hist hist1 : List Bool) (rs : List Bool) (r : Bool)
    (i1 : pos = rs.length % 128) (i2 : hist.length = 128) (i3 : cnt = ones (W rs))
    (i4 : ∀ j, j < 128 → hist.getD j false = (W rs).getD ((j + 128 - pos) % 128) false)
    (hpos1 : pos1 = if pos + 1 = 128 then 0 else pos + 1)
    (hhist1 : hist1 = hist.set pos r)
    (hcnt1 : cnt1 = if r then ((cnt + 2 ^ 64 - (if hist.getD pos false then 1 else 0)) % 2 ^ 64 + 1) % 2 ^ 64
                    else (cnt + 2 ^ 64 - (if hist.getD pos false then 1 else 0)) % 2 ^ 64) :
    pos1 = (rs ++ [r]).length % 128 ∧ hist1.length = 128 ∧ cnt1 = ones (W (rs ++ [r])) ∧
    (∀ j, j < 128 → hist1.getD j false = (W (rs ++ [r])).getD ((j + 128 - pos1) % 128) false) := by
  have hpos : pos < 128 := by rw [i1]; exact Nat.mod_lt _ (by decide)
  have hold : hist.getD pos false = (W rs).getD 0 false := by
    rw [i4 _ hpos]; congr 1; omega
  have hcnt := ones_snoc rs r
  have hle : ones (W rs) ≤ 128 := by have := ones_le (W rs); rw [W_length] at this; exact this
  have hle' : ones (W (rs ++ [r])) ≤ 128 := by have := ones_le (W (rs ++ [r])); rw [W_length] at this; exact this
  have hposh := ones_pos_of_head (W rs)
  have hnew : cnt1 = ones (W (rs ++ [r])) := by
    rw [hcnt1, hold, i3]
    generalize (W rs).getD 0 false = old at hcnt hposh
    cases old <;> cases r <;> simp only [↓reduceIte, Bool.false_eq_true, forall_const, false_imp_iff] at hcnt hposh ⊢ <;> omega
  have hposn : pos1 = (rs ++ [r]).length % 128 := by
    rw [hpos1]
    simp only [List.length_append, List.length_singleton]; split <;> omega
  refine ⟨hposn, by rw [hhist1]; simp [i2], hnew, ?_⟩
  intro j hj
  rw [hhist1, Bytes.getD_set_eq, i2, hposn, W_snoc]
  have hwl := W_length rs
  simp only [List.length_append, List.length_singleton]
  by_cases hjp : pos = j
  · rw [if_pos ⟨hjp, hpos⟩]
    have : (j + 128 - (rs.length + 1) % 128) % 128 = 127 := by omega
    rw [this, List.getD_eq_getElem?_getD, List.getElem?_append_right (by simp [hwl])]
    simp [hwl]
  · have : ¬ (pos = j ∧ pos < 128) := fun c => hjp c.1
    rw [if_neg this, i4 j hj]
    have hk : (j + 128 - (rs.length + 1) % 128) % 128 + 1 = (j + 128 - pos) % 128 := by omega
    have hk2 : (j + 128 - (rs.length + 1) % 128) % 128 < 127 := by omega
    rw [List.getD_eq_getElem?_getD, List.getD_eq_getElem?_getD,
      List.getElem?_append_left (by simp [hwl]; omega), List.getElem?_drop, ← hk, Nat.add_comm]

/-- one locked step with error flag `r` (received bit = generated bit xor `r`) -/
theorem locked_step (s : St) (rs : List Bool) (r : Bool) (hs : s.synced = true) (hinv : Inv s rs) :
    Inv (validate s (fb s.state != r)).1 (rs ++ [r]) ∧
    (validate s (fb s.state != r)).1.state = shiftIn s.state (fb s.state) ∧
    (validate s (fb s.state != r)).1.synced = !(r && decide (25 ≤ ones (W (rs ++ [r])))) ∧
    (validate s (fb s.state != r)).1.errCount = (if r then (s.errCount + 1) % 2 ^ 32 else s.errCount) ∧
    (validate s (fb s.state != r)).1.bitCount = (s.bitCount + 1) % 2 ^ 32 := by
  obtain ⟨i1, i2, i3, i4⟩ := hinv
  have hb : histBits = 128 := by decide
  have hres : ((fb s.state != r) != fb s.state) = r := by cases fb s.state <;> cases r <;> rfl
  rw [validate_locked_eq s _ hs, hres]
  generalize hs0 : ({ s with state := shiftIn s.state (fb s.state) } : St) = s0
  have e1 : s0.histPos = s.histPos := by rw [← hs0]
  have e2 : s0.history = s.history := by rw [← hs0]
  have e3 : s0.histCount = s.histCount := by rw [← hs0]
  have e4 : s0.synced = s.synced := by rw [← hs0]
  have e5 : s0.errCount = s.errCount := by rw [← hs0]
  have e6 : s0.bitCount = s.bitCount := by rw [← hs0]
  have e7 : s0.state = shiftIn s.state (fb s.state) := by rw [← hs0]
  have hA := locked_step_abs s.histPos (countErrors s0 r).histPos s.histCount (countErrors s0 r).histCount
    s.history (countErrors s0 r).history rs r i1 i2 i3 i4
    (by rw [ce_pos, e1, hb]) (by rw [ce_hist, e1, e2]) (by rw [ce_cnt, e1, e2, e3])
  have hsyn : (countErrors s0 r).synced = !(r && decide (25 ≤ ones (W (rs ++ [r])))) := by
    rw [ce_synced, e1, e2, e3, e4, hs]
    have hc := hA.2.2.1
    rw [ce_cnt, e1, e2, e3] at hc
    cases r
    · simp
    · simp only [if_true] at hc ⊢
      rw [hc]
      by_cases h25 : 25 ≤ ones (W (rs ++ [true])) <;> simp [h25]
  exact ⟨⟨hA.1, hA.2.1, hA.2.2.1, hA.2.2.2⟩, by rw [ce_state, e7], hsyn, by rw [ce_errs, e5], by rw [ce_bits, e6]⟩

/-- **exact counts**: from a validator that has just locked and tracks the generator, for every error pattern `e`
    whose every 128-bit window holds fewer than 25 errors, the validator stays locked, its error count grows by
    exactly the number of differing bits, its bit count by exactly the number of bits checked (`uint32_t`
    arithmetic), and its register keeps tracking the generator -/
theorem exact_count (e : List Bool) : ∀ (s : St) (g : Nat) (rs : List Bool), s.synced = true → s.state = g → Inv s rs →
    s.errCount < 2 ^ 32 → s.bitCount < 2 ^ 32 →
    (∀ k, 1 ≤ k → k ≤ e.length → ones (W (rs ++ e.take k)) < 25) →
    let s' := run s (List.zipWith (fun x y => x != y) (genBits e.length g) e)
    s'.synced = true ∧ s'.errCount = (s.errCount + ones e) % 2 ^ 32 ∧
    s'.bitCount = (s.bitCount + e.length) % 2 ^ 32 ∧ s'.state = genState e.length g ∧ Inv s' (rs ++ e) := by
  induction e with
  | nil =>
    intro s g rs hs hst hinv hE hB _
    simp only [List.length_nil, genBits, List.zipWith_nil_right, run, List.foldl, ones, List.count_nil, Nat.add_zero,
      genState, List.append_nil]
    exact ⟨hs, (Nat.mod_eq_of_lt hE).symm, (Nat.mod_eq_of_lt hB).symm, hst, hinv⟩
  | cons r e ih =>
    intro s g rs hs hst hinv hE hB hsp
    have hz : List.zipWith (fun x y => x != y) (genBits (r :: e).length g) (r :: e) =
        (fb s.state != r) :: List.zipWith (fun x y => x != y) (genBits e.length (shiftIn g (fb g))) e := by
      simp only [List.length_cons, genBits, List.zipWith_cons_cons, hst]
    obtain ⟨l1, l2, l3, l4, l5⟩ := locked_step s rs r hs hinv
    have h1 := hsp 1 (by omega) (by simp)
    simp only [List.take_succ_cons, List.take_zero] at h1
    have hsyn1 : (validate s (fb s.state != r)).1.synced = true := by
      rw [l3]; have : ¬ 25 ≤ ones (W (rs ++ [r])) := by omega
      simp [this]
    have hE1 : (validate s (fb s.state != r)).1.errCount < 2 ^ 32 := by
      rw [l4]; split
      · exact Nat.mod_lt _ (by decide)
      · exact hE
    have hB1 : (validate s (fb s.state != r)).1.bitCount < 2 ^ 32 := by rw [l5]; exact Nat.mod_lt _ (by decide)
    have := ih (validate s (fb s.state != r)).1 (shiftIn g (fb g)) (rs ++ [r]) hsyn1 (by rw [l2, hst]) l1 hE1 hB1 (by
      intro k hk1 hk2
      have := hsp (k + 1) (by omega) (by simp; omega)
      simpa [List.take_succ_cons, List.append_assoc] using this)
    simp only at this
    obtain ⟨r1, r2, r3, r4, r5⟩ := this
    simp only
    rw [hz, run_cons]
    refine ⟨r1, ?_, ?_, ?_, ?_⟩
    · rw [r2, l4]
      have : ones (r :: e) = (if r then 1 else 0) + ones e := by
        unfold ones; cases r <;> simp [List.count_cons] <;> omega
      rw [this]
      generalize ones e = oe
      generalize s.errCount = ec
      cases r <;> simp only [↓reduceIte, Bool.false_eq_true] <;> omega
    · rw [r3, l5]; simp only [List.length_cons]
      generalize s.bitCount = bc
      generalize e.length = n
      omega
    · rw [r4]; rfl
    · rw [List.append_assoc] at r5; exact r5

/-- **unlock**: the first time a 128-bit window holds 25 errors, the validator drops lock (on that very bit) -/
theorem unlock_at_25 (s : St) (rs : List Bool) (hs : s.synced = true) (hinv : Inv s rs)
    (h25 : 25 ≤ ones (W (rs ++ [true]))) : (validate s (fb s.state != true)).1.synced = false := by
  obtain ⟨_, _, l3, _, _⟩ := locked_step s rs true hs hinv
  rw [l3]; simp [h25]

/-- a validator that just locked satisfies the bookkeeping invariant with an empty error history -/
theorem inv_at_lock (s : St) (b : Bool) (h : s.synced = false) (hl : (validate s b).1.synced = true) :
    Inv (validate s b).1 [] := by
  have hlc : Gen.prbsLockCount = 18 := by decide
  have hb : histBits = 128 := by decide
  unfold validate synchronize at hl ⊢
  simp only [h, Bool.not_false, if_true, hlc] at hl ⊢
  by_cases hr : (b != fb s.state) = true
  · simp only [hr, if_true] at hl; simp [h] at hl
  · have hr' : (b != fb s.state) = false := by simpa using hr
    simp only [hr', Bool.false_eq_true, if_false] at hl ⊢
    by_cases hc : (s.syncCount + 1) % 256 = 18
    · simp only [hc, if_true]
      exact inv_fresh _ (by rw [hb]) rfl rfl
    · simp only [hc, if_false] at hl; simp [h] at hl

/-! ## non-vacuity -/
example : (run init (genBits 27 1)).synced = true := by decide +kernel
example : (run init (genBits 17 1)).synced = false := by decide +kernel
example : ones (W ([] ++ [true, false, true].take 2)) < 25 := by decide +kernel

end M17.C18

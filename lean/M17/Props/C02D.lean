/-
C02 — "every error pattern lighter than half the punctured code's distance is corrected".

From `decode_is_argmin` (maximum likelihood) by the triangle inequality, with the distance of the punctured code COMPUTED by a
verified backward dynamic program over the error trellis (one pass, kernel-evaluated for the four M17 geometries):

* the code is linear, so the distance between two code words on the received positions is the masked weight of the code word of
  their difference;
* `scan` lower-bounds the masked weight of every input sequence that is non-zero somewhere inside the payload (the decoder does
  not force the end state, so sequences that differ only in the flush bits decode to the same payload and do not count);
* hence a full-confidence word with `w` bit errors on received positions, `2 w < d`, decodes to the transmitted payload.
-/
import M17.Props.C02
import M17.Props.C01F

namespace M17.C02D
open M17.Vit M17.C02

abbrev Pair := Bool × Bool

/-- masked weight of one code symbol: number of received positions where it is 1 -/
def mw (m c : Pair) : Nat := (m.1 && c.1).toNat + (m.2 && c.2).toNat

def pxor (a b : Pair) : Pair := (a.1 != b.1, a.2 != b.2)

/-- masked weight of a code sequence -/
def mweight : List Pair → List Pair → Nat
  | m :: ms, c :: cs => mw m c + mweight ms cs
  | _, _ => 0

/-- masked Hamming distance -/
def mham : List Pair → List Pair → List Pair → Nat
  | m :: ms, c :: cs, d :: ds => mw m (pxor c d) + mham ms cs ds
  | _, _, _ => 0

/-! ## linearity of the convolutional encoder -/

def linOK : Bool := (List.range 16).all fun s1 => (List.range 16).all fun s2 => [false, true].all fun b1 => [false, true].all fun b2 =>
  Spec.convOut (s1 ^^^ s2) (b1 != b2) == pxor (Spec.convOut s1 b1) (Spec.convOut s2 b2) &&
  Spec.convNext (s1 ^^^ s2) (b1 != b2) == (Spec.convNext s1 b1 ^^^ Spec.convNext s2 b2)
theorem lin_ok : linOK = true := by decide +kernel

theorem lin (s1 s2 : Nat) (h1 : s1 < 16) (h2 : s2 < 16) (b1 b2 : Bool) :
    Spec.convOut (s1 ^^^ s2) (b1 != b2) = pxor (Spec.convOut s1 b1) (Spec.convOut s2 b2) ∧
    Spec.convNext (s1 ^^^ s2) (b1 != b2) = (Spec.convNext s1 b1 ^^^ Spec.convNext s2 b2) := by
  have h := M17.Bits.all_range (M17.Bits.all_range lin_ok h1) h2
  simp only [List.all_cons, List.all_nil, Bool.and_true, Bool.and_eq_true, beq_iff_eq] at h
  obtain ⟨⟨⟨a1, a2⟩, ⟨a3, a4⟩⟩, ⟨⟨a5, a6⟩, ⟨a7, a8⟩⟩⟩ := h
  cases b1 <;> cases b2
  · exact ⟨a1, a2⟩
  · exact ⟨a3, a4⟩
  · exact ⟨a5, a6⟩
  · exact ⟨a7, a8⟩

theorem mham_linear : ∀ (ms : List Pair) (v u : List Bool) (s1 s2 : Nat), s1 < 16 → s2 < 16 → v.length = u.length →
    mham ms (Spec.convFrom s1 v) (Spec.convFrom s2 u) = mweight ms (Spec.convFrom (s1 ^^^ s2) (List.zipWith (· != ·) v u)) := by
  intro ms
  induction ms with
  | nil => intro v u s1 s2 _ _ _; cases v <;> cases u <;> simp [mham, mweight, Spec.convFrom]
  | cons m ms ih =>
    intro v u s1 s2 h1 h2 hl
    cases v with
    | nil => cases u with
      | nil => simp [mham, mweight, Spec.convFrom]
      | cons _ _ => simp at hl
    | cons a v =>
      cases u with
      | nil => simp at hl
      | cons b u =>
        obtain ⟨l1, l2⟩ := lin s1 s2 h1 h2 a b
        simp only [Spec.convFrom, mham, mweight, List.zipWith_cons_cons, l1, l2]
        rw [ih v u _ _ (C01.convNext_lt s1 a) (C01.convNext_lt s2 b) (by simpa using hl)]

/-! ## backward dynamic program: a lower bound on the masked weight of every sequence that is non-zero in the payload -/

/-- one backward step: cheapest continuation from each state -/
def stepTbl (m : Pair) (B : List Nat) : List Nat :=
  (List.range 16).map fun s =>
    min (mw m (Spec.convOut s false) + B.getD (Spec.convNext s false) 0) (mw m (Spec.convOut s true) + B.getD (Spec.convNext s true) 0)

/-- cheapest masked weight of any continuation, per start state -/
def backTbl : List Pair → List Nat
  | [] => List.replicate 16 0
  | m :: ms => stepTbl m (backTbl ms)

theorem back_le : ∀ (ms : List Pair) (s : Nat) (u : List Bool), s < 16 → u.length = ms.length →
    (backTbl ms).getD s 0 ≤ mweight ms (Spec.convFrom s u) := by
  intro ms
  induction ms with
  | nil => intro s u hs hu; cases u with
    | nil =>
      simp only [backTbl, mweight, Spec.convFrom]
      rw [List.getD_eq_getElem?_getD, List.getElem?_replicate]; split <;> simp
    | cons _ _ => simp at hu
  | cons m ms ih =>
    intro s u hs hu
    cases u with
    | nil => simp at hu
    | cons b u =>
      simp only [backTbl, stepTbl, Spec.convFrom, mweight]
      rw [getD_map_range _ 0 s hs]
      have := ih (Spec.convNext s b) u (C01.convNext_lt s b) (by simpa using hu)
      cases b <;> omega

/-- (table for the suffix, best candidate so far): the candidate at a position is "first non-zero input bit here", allowed only while
    at least `tail` further steps follow (i.e. inside the payload) -/
def scan (tail : Nat) : List Pair → List Nat × Nat
  | [] => (List.replicate 16 0, 1000000)
  | m :: ms =>
    let r := scan tail ms
    (stepTbl m r.1, if tail ≤ ms.length then min r.2 (mw m (Spec.convOut 0 true) + r.1.getD (Spec.convNext 0 true) 0) else r.2)

theorem scan_tbl (tail : Nat) : ∀ ms, (scan tail ms).1 = backTbl ms
  | [] => rfl
  | m :: ms => by simp only [scan, backTbl, scan_tbl tail ms]

theorem conv_zero : Spec.convOut 0 false = (false, false) ∧ Spec.convNext 0 false = 0 := by decide

/-- **the scan value bounds the masked weight of every sequence with a 1 inside the payload** -/
theorem scan_le (tail : Nat) : ∀ (ms : List Pair) (w : List Bool), w.length = ms.length →
    (∃ t, t + tail < ms.length ∧ w.getD t false = true) → (scan tail ms).2 ≤ mweight ms (Spec.convFrom 0 w) := by
  intro ms
  induction ms with
  | nil => intro w _ ⟨t, ht, _⟩; simp at ht
  | cons m ms ih =>
    intro w hw ⟨t, ht, hwt⟩
    cases w with
    | nil => simp at hw
    | cons b w =>
      have hwl : w.length = ms.length := by simpa using hw
      simp only [scan, Spec.convFrom, mweight]
      cases b with
      | true =>
        have hb := back_le ms (Spec.convNext 0 true) w (C01.convNext_lt 0 true) hwl
        rw [← scan_tbl tail ms] at hb
        have hc : tail ≤ ms.length := by simp only [List.length_cons] at ht; omega
        rw [if_pos hc]
        omega
      | false =>
        cases t with
        | zero => simp at hwt
        | succ t =>
          have := ih w hwl ⟨t, by simp only [List.length_cons] at ht; omega, by simpa using hwt⟩
          rw [conv_zero.1, conv_zero.2]
          have h0 : mw m (false, false) = 0 := by simp [mw]
          rw [h0, Nat.zero_add]
          split <;> omega

/-! ## full-confidence received vectors and their soft distance -/

/-- the received pairs for hard word `h` at full confidence `±L` on the received positions, 0 (erased) elsewhere -/
def recvOf (l : Nat) : List Pair → List Pair → List (Int × Int)
  | m :: ms, c :: cs => ((if m.1 then expect l c.1 else 0), (if m.2 then expect l c.2 else 0)) :: recvOf l ms cs
  | _, _ => []

theorem dist_full (l : Nat) (hl : 1 ≤ l) (mbit cbit bit : Bool) :
    dist l bit (if mbit then expect l cbit else 0) = 2 * l * (mbit && (cbit != bit)).toNat := by
  have hl0 : l ≠ 0 := by omega
  unfold dist expect
  cases mbit <;> cases cbit <;> cases bit <;> simp [hl0] <;> omega

theorem softDist_full (l : Nat) (hl : 1 ≤ l) : ∀ (ms h cs : List Pair), ms.length = h.length → h.length = cs.length →
    softDist l (recvOf l ms h) cs = 2 * l * mham ms h cs := by
  intro ms
  induction ms with
  | nil => intro h cs _ _; simp [recvOf, softDist, mham]
  | cons m ms ih =>
    intro h cs h1 h2
    cases h with
    | nil => simp at h1
    | cons c h =>
      cases cs with
      | nil => simp at h2
      | cons d cs =>
        simp only [recvOf, softDist, mham, mw, pxor]
        rw [dist_full l hl, dist_full l hl, ih h cs (by simpa using h1) (by simpa using h2)]
        simp only [Nat.mul_add]

theorem mw_tri (m a b c : Pair) : mw m (pxor a c) ≤ mw m (pxor a b) + mw m (pxor b c) := by
  obtain ⟨m1, m2⟩ := m; obtain ⟨a1, a2⟩ := a; obtain ⟨b1, b2⟩ := b; obtain ⟨c1, c2⟩ := c
  cases m1 <;> cases m2 <;> cases a1 <;> cases a2 <;> cases b1 <;> cases b2 <;> cases c1 <;> cases c2 <;> decide

theorem mham_tri : ∀ (ms a b c : List Pair), a.length = b.length → b.length = c.length →
    mham ms a c ≤ mham ms a b + mham ms b c := by
  intro ms
  induction ms with
  | nil => intro a b c _ _; simp [mham]
  | cons m ms ih =>
    intro a b c h1 h2
    cases a with
    | nil => simp [mham]
    | cons x a =>
      cases b with
      | nil => simp at h1
      | cons y b =>
        cases c with
        | nil => simp at h2
        | cons z c =>
          simp only [mham]
          have := ih a b c (by simpa using h1) (by simpa using h2)
          have := mw_tri m x y z
          omega

theorem mw_comm (m a b : Pair) : mw m (pxor a b) = mw m (pxor b a) := by
  obtain ⟨m1, m2⟩ := m; obtain ⟨a1, a2⟩ := a; obtain ⟨b1, b2⟩ := b
  cases m1 <;> cases m2 <;> cases a1 <;> cases a2 <;> cases b1 <;> cases b2 <;> decide

theorem mham_comm : ∀ (ms a b : List Pair), mham ms a b = mham ms b a := by
  intro ms
  induction ms with
  | nil => intro a b; cases a <;> cases b <;> simp [mham]
  | cons m ms ih =>
    intro a b
    cases a with
    | nil => cases b <;> simp [mham]
    | cons x a => cases b with
      | nil => simp [mham]
      | cons y b => simp only [mham, ih a b, mw_comm m x y]

theorem recvOf_length (l : Nat) : ∀ (ms h : List Pair), ms.length = h.length → (recvOf l ms h).length = ms.length := by
  intro ms
  induction ms with
  | nil => intro h _; simp [recvOf]
  | cons m ms ih =>
    intro h hl
    cases h with
    | nil => simp at hl
    | cons c h => simp only [recvOf, List.length_cons, ih h (by simpa using hl)]

theorem recvOf_range (l : Nat) (hl : l ≤ 31) : ∀ (ms h : List Pair) (p : Int × Int), p ∈ recvOf l ms h →
    (-128 ≤ p.1 ∧ p.1 ≤ 127) ∧ (-128 ≤ p.2 ∧ p.2 ≤ 127) := by
  intro ms
  induction ms with
  | nil => intro h p hp; simp [recvOf] at hp
  | cons m ms ih =>
    intro h p hp
    cases h with
    | nil => simp [recvOf] at hp
    | cons c h =>
      simp only [recvOf, List.mem_cons] at hp
      rcases hp with rfl | hp
      · unfold expect
        obtain ⟨m1, m2⟩ := m; obtain ⟨c1, c2⟩ := c
        cases m1 <;> cases m2 <;> cases c1 <;> cases c2 <;> simp <;> omega
      · exact ih h p hp

/-- a differing payload means the difference sequence has a 1 inside the payload -/
theorem take_ne_exists (outN : Nat) : ∀ (v u : List Bool), v.length = u.length → v.take outN ≠ u.take outN →
    ∃ t, t < outN ∧ t < v.length ∧ (List.zipWith (· != ·) v u).getD t false = true := by
  induction outN with
  | zero => intro v u _ h; simp at h
  | succ n ih =>
    intro v u hl h
    cases v with
    | nil => cases u with
      | nil => simp at h
      | cons _ _ => simp at hl
    | cons a v =>
      cases u with
      | nil => simp at hl
      | cons b u =>
        by_cases hab : a = b
        · subst hab
          have h' : v.take n ≠ u.take n := by intro c; apply h; simp [c]
          obtain ⟨t, h1, h2, h3⟩ := ih v u (by simpa using hl) h'
          exact ⟨t + 1, by omega, by simp; omega, by simpa using h3⟩
        · exact ⟨0, by omega, by simp, by cases a <;> cases b <;> simp_all⟩

/-- **errors below half the distance are corrected** — for every soft width, every mask of received positions (any puncturing), every
    message `u`, and every full-confidence hard word `h` whose masked Hamming distance `w` from the code word of `u` satisfies
    `2 w < d`, where `d = scan` is the computed distance bound of the masked code: the decoder returns the payload of `u` -/
theorem corrects_below_half_distance (llr : Nat) (hl : llr = 2 ∨ llr = 3 ∨ llr = 4 ∨ llr = 5 ∨ llr = 6)
    (mask h : List Pair) (u : List Bool) (tail outN : Nat)
    (hu : u.length = mask.length) (hh : h.length = mask.length) (hout : outN + tail = mask.length)
    (hsmall : 318 * mask.length < 2 ^ 30 - 1)
    (hw : 2 * mham mask h (Spec.convFrom 0 u) < (scan tail mask).2) :
    (decode llr ((recvOf (limit llr) mask h).flatMap fun p => [p.1, p.2]) outN).2 = u.take outN := by
  have hL1 : 1 ≤ limit llr := by rcases hl with h | h | h | h | h <;> subst h <;> decide
  have hL := limit_le llr hl
  have hrl := recvOf_length (limit llr) mask h hh.symm
  have hfl := C01.flat_length (recvOf (limit llr) mask h)
  obtain ⟨ustar, e1, e2, e3, _⟩ := decode_is_argmin llr hl ((recvOf (limit llr) mask h).flatMap fun p => [p.1, p.2])
    (by
      intro x hx
      simp only [List.mem_flatMap, List.mem_cons, List.mem_nil_iff, or_false] at hx
      obtain ⟨p, hp, hx⟩ := hx
      have := recvOf_range (limit llr) hL mask h p hp
      rcases hx with rfl | rfl
      · exact this.1
      · exact this.2)
    (by rw [hfl, hrl]; omega) outN
  rw [C01.pairs_flat] at e3
  rw [hfl, hrl] at e1
  have e1' : ustar.length = mask.length := by omega
  rw [e2]
  by_cases hc : ustar.take outN = u.take outN
  · exact hc
  · exfalso
    obtain ⟨t, t1, t2, t3⟩ := take_ne_exists outN ustar u (by rw [e1', hu]) hc
    have hlen : (List.zipWith (· != ·) ustar u).length = mask.length := by simp [e1', hu]
    have hs := scan_le tail mask (List.zipWith (· != ·) ustar u) hlen ⟨t, by omega, t3⟩
    have hlin := mham_linear mask ustar u 0 0 (by decide) (by decide) (by rw [e1', hu])
    rw [Nat.xor_self] at hlin
    rw [← hlin] at hs
    have cl1 : (Spec.convFrom 0 ustar).length = mask.length := by rw [C01F.convFrom_length, e1']
    have cl2 : (Spec.convFrom 0 u).length = mask.length := by rw [C01F.convFrom_length, hu]
    have htri := mham_tri mask (Spec.convFrom 0 ustar) h (Spec.convFrom 0 u) (by rw [cl1, hh]) (by rw [hh, cl2])
    have hmin := e3 u (by rw [hfl, hrl, hu]; omega)
    rw [softDist_full (limit llr) hL1 mask h _ hh.symm (by rw [hh, cl1]),
      softDist_full (limit llr) hL1 mask h _ hh.symm (by rw [hh, cl2])] at hmin
    have hmin' : mham mask h (Spec.convFrom 0 ustar) ≤ mham mask h (Spec.convFrom 0 u) :=
      Nat.le_of_mul_le_mul_left hmin (by omega)
    rw [mham_comm mask (Spec.convFrom 0 ustar) h] at htri
    omega

/-! ## the four M17 geometries -/

/-- received-position mask of a puncture geometry: coded bit `i` is received iff the matrix keeps it and it fits the frame -/
def maskOf (p : List Nat) (n out : Nat) : List Pair :=
  (List.range (n / 2)).map fun t => (C01F.recv p out (2 * t), C01F.recv p out (2 * t + 1))

/-- **computed distances of the punctured, unterminated code** (LSF P1 488→368, stream P2 296→272, packet P3 420→368, BERT P2 402→368):
    over all pairs of messages that differ anywhere in the payload the minimum distance on received positions is 3 / 2 / 3 / 3 (the
    weakest pairs differ only in the last payload bits, which the unforced end state protects least); over pairs that differ at least
    12 bits before the end of the payload it is 4 / 6 / 5 / 5 — the free distances of the punctured codes are 4 / 6 / 5 / 6 -/
theorem geometry_distances :
    (scan 4 (maskOf Gen.p1 488 368)).2 = 3 ∧ (scan 4 (maskOf Gen.p2 296 272)).2 = 2 ∧
    (scan 4 (maskOf Gen.p3 420 368)).2 = 3 ∧ (scan 4 (maskOf Gen.p2 402 368)).2 = 3 ∧
    (scan 16 (maskOf Gen.p1 488 368)).2 = 4 ∧ (scan 16 (maskOf Gen.p2 296 272)).2 = 6 ∧
    (scan 16 (maskOf Gen.p3 420 368)).2 = 5 ∧ (scan 16 (maskOf Gen.p2 402 368)).2 = 5 := by decide +kernel

theorem maskOf_length (p : List Nat) (n out : Nat) : (maskOf p n out).length = n / 2 := by unfold maskOf; simp

/-- **LSF frames: any single bit error among the 368 received bits is corrected** (full-confidence input, the decoder's soft width 4) -/
theorem lsf_single_error_corrected (h : List Pair) (u : List Bool) (hu : u.length = 244) (hh : h.length = 244)
    (hw : mham (maskOf Gen.p1 488 368) h (Spec.convFrom 0 u) ≤ 1) :
    (decode 4 ((recvOf 7 (maskOf Gen.p1 488 368) h).flatMap fun p => [p.1, p.2]) 240).2 = u.take 240 := by
  have := corrects_below_half_distance 4 (by decide) (maskOf Gen.p1 488 368) h u 4 240
    (by rw [maskOf_length]; exact hu) (by rw [maskOf_length]; exact hh) (by rw [maskOf_length])
    (by rw [maskOf_length]; decide) (by rw [geometry_distances.1]; omega)
  exact this

/-- **stream frames: any two bit errors among the 272 received payload-part bits leave the first 132 payload bits (frame number and the
    first 14½ audio bytes) intact** — the last 12 bits are only protected against single errors further inside (see `geometry_distances`) -/
theorem stream_double_error_prefix (h : List Pair) (u : List Bool) (hu : u.length = 148) (hh : h.length = 148)
    (hw : mham (maskOf Gen.p2 296 272) h (Spec.convFrom 0 u) ≤ 2) :
    (decode 4 ((recvOf 7 (maskOf Gen.p2 296 272) h).flatMap fun p => [p.1, p.2]) 132).2 = u.take 132 := by
  have := corrects_below_half_distance 4 (by decide) (maskOf Gen.p2 296 272) h u 16 132
    (by rw [maskOf_length]; exact hu) (by rw [maskOf_length]; exact hh) (by rw [maskOf_length])
    (by rw [maskOf_length]; decide) (by rw [geometry_distances.2.2.2.2.2.1]; omega)
  exact this

/-- the payload returned for a shorter `outN` is a prefix of the one returned for a longer `outN` (same received vector) -/
theorem decode_prefix (llr : Nat) (recv : List Int) (a b : Nat) (hab : a ≤ b) :
    (decode llr recv a).2 = (decode llr recv b).2.take a := by
  unfold decode
  simp only [List.take_take, Nat.min_eq_left hab]

/-! ## non-vacuity -/
example : mham [(true, true), (true, false)] [(true, false), (true, true)] [(false, false), (true, false)] = 1 := by decide

end M17.C02D

/-
C13 — m17-mod emits the specification stream for its inputs, continuously pulse-shaped.

Proved here: the sequencing logic of `transmit()` numbers the frames 0,1,2,… (mod 0x8000), cycles the LICH fragments
0..5, sends one frame per 320-sample block plus the zero-padded partial block, and ends with one frame carrying the
end-of-stream bit — for every audio length; and filtering block after block through ONE filter object equals one
continuous filter run over the concatenated symbol stream (`C19.fir_run_append`).
The per-frame encoders are the FEC functions of C04/C09/C10/C11 composed as in C01; their byte-for-byte equality with the
independent `M17.Spec.Tx` encoder is checked three-way (C++ / model / specification) on every run.
-/
import M17.Model.Mod
import M17.Spec.Tx
import M17.Props.C19

namespace M17.C13
open M17.Mod

/-- invariant of the transmit loop after `m` samples -/
def Inv (s : TxState) (m : Nat) : Prop :=
  s.index = m % 320 ∧ s.frameNumber = (m / 320) % 0x8000 ∧ s.lich = (m / 320) % 6 ∧ s.sent.length = m / 320 ∧
  ∀ k, k < m / 320 → (s.sent.getD k (0, 0, [])).1 = k % 0x8000 ∧ (s.sent.getD k (0, 0, [])).2.1 = k % 6

theorem inv_init : Inv init 0 := by
  refine ⟨rfl, rfl, rfl, rfl, ?_⟩
  intro k hk; omega

theorem inv_step (s : TxState) (m : Nat) (x : Int) (h : Inv s m) : Inv (onSample s x) (m + 1) := by
  obtain ⟨h1, h2, h3, h4, h5⟩ := h
  unfold onSample
  by_cases hc : s.index + 1 = 320
  · simp only [hc, if_true]
    have hd : (m + 1) / 320 = m / 320 + 1 := by omega
    refine ⟨by simp only; omega, ?_, ?_, by simp only [List.length_append, List.length_singleton]; omega, ?_⟩
    · simp only; rw [h2]; split <;> omega
    · simp only; rw [h3]; split <;> omega
    · intro k hk
      simp only
      by_cases hk2 : k < m / 320
      · rw [List.getD_eq_getElem?_getD, List.getElem?_append_left (by omega), ← List.getD_eq_getElem?_getD]
        exact h5 k hk2
      · have hke : k = m / 320 := by omega
        rw [List.getD_eq_getElem?_getD, List.getElem?_append_right (by omega)]
        simp only [h4, hke, Nat.sub_self, List.getElem?_cons_zero, Option.getD_some]
        exact ⟨h2, h3⟩
  · simp only [hc, if_false]
    have hd : (m + 1) / 320 = m / 320 := by omega
    refine ⟨by simp only; omega, by simp only; rw [hd]; exact h2, by simp only; rw [hd]; exact h3, by simp only; rw [hd]; exact h4, ?_⟩
    intro k hk; simp only; rw [hd] at hk; exact h5 k hk

theorem inv_fold (xs : List Int) : ∀ (s : TxState) (m : Nat), Inv s m → Inv (xs.foldl onSample s) (m + xs.length) := by
  induction xs with
  | nil => intro s m h; simpa using h
  | cons x xs ih =>
    intro s m h
    simp only [List.foldl, List.length_cons]
    have := ih (onSample s x) (m + 1) (inv_step s m x h)
    have e : m + 1 + xs.length = m + (xs.length + 1) := by omega
    rw [e] at this; exact this

theorem eos_bit (fn : Nat) (h : fn < 0x8000) : (fn ||| 0x8000) % 65536 = fn + 0x8000 := by
  have := Nat.two_pow_add_eq_or_of_lt (i := 15) (b := fn) (by simpa using h) 1
  rw [Nat.or_comm]
  simp only [Nat.mul_one] at this
  rw [show (0x8000 : Nat) = 2 ^ 15 from rfl, ← this]
  omega

theorem finish_numbering (s : TxState) (m : Nat) (h : Inv s m) :
    let n := (m + 319) / 320
    (finish s).length = n + 1 ∧
    (∀ k, k < n → ((finish s).getD k (0, 0, [])).1 = k % 0x8000 ∧ ((finish s).getD k (0, 0, [])).2.1 = k % 6) ∧
    ((finish s).getD n (0, 0, [])).1 = n % 0x8000 + 0x8000 ∧ ((finish s).getD n (0, 0, [])).2.1 = n % 6 ∧
    ((finish s).getD n (0, 0, [])).2.2 = List.replicate 320 0 := by
  obtain ⟨h1, h2, h3, h4, h5⟩ := h
  simp only
  unfold finish
  by_cases hp : s.index > 0
  · -- a partial block is pending
    have hn : (m + 319) / 320 = m / 320 + 1 := by omega
    simp only [hp, if_true, hn]
    have hfn : (if (s.frameNumber + 1) % 65536 = 0x8000 then 0 else (s.frameNumber + 1) % 65536) = (m / 320 + 1) % 0x8000 := by
      rw [h2]; split <;> omega
    have hl : (if s.lich + 1 = 6 then 0 else s.lich + 1) = (m / 320 + 1) % 6 := by rw [h3]; split <;> omega
    refine ⟨by simp only [List.length_append, List.length_singleton]; omega, ?_, ?_, ?_, ?_⟩
    · intro k hk
      rw [List.getD_eq_getElem?_getD, List.getElem?_append_left (by simp only [List.length_append, List.length_singleton]; omega)]
      by_cases hk2 : k < m / 320
      · rw [List.getElem?_append_left (by omega), ← List.getD_eq_getElem?_getD]; exact h5 k hk2
      · have hke : k = m / 320 := by omega
        rw [List.getElem?_append_right (by omega)]
        simp only [h4, hke, Nat.sub_self, List.getElem?_cons_zero, Option.getD_some]
        exact ⟨h2, h3⟩
    · rw [List.getD_eq_getElem?_getD, List.getElem?_append_right (by simp only [List.length_append, List.length_singleton]; omega)]
      simp only [List.length_append, List.length_singleton, h4, Nat.sub_self, List.getElem?_cons_zero, Option.getD_some]
      rw [hfn, eos_bit _ (by omega)]
    · rw [List.getD_eq_getElem?_getD, List.getElem?_append_right (by simp only [List.length_append, List.length_singleton]; omega)]
      simp only [List.length_append, List.length_singleton, h4, Nat.sub_self, List.getElem?_cons_zero, Option.getD_some]
      exact hl
    · rw [List.getD_eq_getElem?_getD, List.getElem?_append_right (by simp only [List.length_append, List.length_singleton]; omega)]
      simp only [List.length_append, List.length_singleton, h4, Nat.sub_self, List.getElem?_cons_zero, Option.getD_some]
  · have hn : (m + 319) / 320 = m / 320 := by omega
    simp only [hp, if_false, hn]
    refine ⟨by simp only [List.length_append, List.length_singleton]; omega, ?_, ?_, ?_, ?_⟩
    · intro k hk
      rw [List.getD_eq_getElem?_getD, List.getElem?_append_left (by omega), ← List.getD_eq_getElem?_getD]; exact h5 k hk
    · rw [List.getD_eq_getElem?_getD, List.getElem?_append_right (by omega)]
      simp only [h4, Nat.sub_self, List.getElem?_cons_zero, Option.getD_some]
      rw [h2, eos_bit _ (by omega)]
    · rw [List.getD_eq_getElem?_getD, List.getElem?_append_right (by omega)]
      simp only [h4, Nat.sub_self, List.getElem?_cons_zero, Option.getD_some]
      exact h3
    · rw [List.getD_eq_getElem?_getD, List.getElem?_append_right (by omega)]
      simp only [h4, Nat.sub_self, List.getElem?_cons_zero, Option.getD_some]

/-- **frame numbering and LICH cycling for every audio length**: with `n = ⌈len/320⌉` audio blocks, `transmit()` sends
    `n + 1` stream frames; frame `k < n` carries frame number `k mod 0x8000` and LICH fragment `k mod 6`; the final frame
    carries `(n mod 0x8000) | 0x8000` (end-of-stream bit), fragment `n mod 6` and the all-zero audio block -/
theorem plan_numbering (samples : List Int) :
    let n := (samples.length + 319) / 320
    (plan samples).length = n + 1 ∧
    (∀ k, k < n → ((plan samples).getD k (0, 0, [])).1 = k % 0x8000 ∧ ((plan samples).getD k (0, 0, [])).2.1 = k % 6) ∧
    ((plan samples).getD n (0, 0, [])).1 = n % 0x8000 + 0x8000 ∧ ((plan samples).getD n (0, 0, [])).2.1 = n % 6 ∧
    ((plan samples).getD n (0, 0, [])).2.2 = List.replicate 320 0 := by
  have hinv := inv_fold samples init 0 inv_init
  rw [Nat.zero_add] at hinv
  exact finish_numbering _ _ hinv

/-- the numbering is the specification's: same frame-number and LICH fields as `Spec.Tx.streamFrames` assigns -/
theorem spec_numbering (k total : Nat) : (k % 0x8000 + (if k + 1 = total then 0x8000 else 0)) =
    (if k + 1 = total then k % 0x8000 + 0x8000 else k % 0x8000) := by split <;> rfl

/-- **one continuous filter run**: shaping the symbol stream block after block through the same filter object gives the
    same samples as one run over the concatenation — no symbol is dropped or truncated at a block boundary.  (What the
    pinned tree did instead — a second filter object for the EOT block — is not an instance of this theorem.) -/
theorem baseband_is_one_continuous_run {α : Type} [Lean.Grind.CommRing α] (f : Dsp.Fir α) (blocks : List (List α)) :
    (blocks.foldl (fun (st : Dsp.Fir α × List α) b => ((st.1.run b).1, st.2 ++ (st.1.run b).2)) (f, [])).2
      = (f.run blocks.flatten).2 := by
  have gen : ∀ (bs : List (List α)) (g : Dsp.Fir α) (acc : List α),
      (bs.foldl (fun (st : Dsp.Fir α × List α) b => ((st.1.run b).1, st.2 ++ (st.1.run b).2)) (g, acc)).2
        = acc ++ (g.run bs.flatten).2 := by
    intro bs
    induction bs with
    | nil => intro g acc; simp [Dsp.Fir.run]
    | cons b bs ih =>
      intro g acc
      simp only [List.foldl, List.flatten_cons]
      rw [ih, (C19.fir_run_append g b bs.flatten).1, List.append_assoc]
  simpa using gen blocks f []

end M17.C13

/-
C18 (extension) — the generator is 511-periodic FOR EVER: not only does the register return to its start after 511
steps (`C18.period_511`, kernel evaluation of one period), but every output index `n`, however large, repeats the
bit at `n mod 511`, every run of `511·k` bits is `k` copies of the same period and holds exactly `256·k` ones, and this
holds from every register value on the orbit (every phase of the sequence).
-/
import M17.Props.C18

namespace M17.C18P
open M17.Prbs M17.C18

theorem return_511 : genState 511 1 = 1 := by decide +kernel

theorem ones_511 : (genBits 511 1).count true = 256 := by decide +kernel

/-- the register after any whole number of periods is the start register -/
theorem genState_periods (k : Nat) : genState (511 * k) 1 = 1 := by
  induction k with
  | zero => rfl
  | succ k ih => rw [Nat.mul_succ, genState_add, ih, return_511]

/-- the output of `k` whole periods is `k` copies of one period -/
theorem genBits_periods (k : Nat) : genBits (511 * k) 1 = (List.replicate k (genBits 511 1)).flatten := by
  induction k with
  | zero => rfl
  | succ k ih =>
    rw [Nat.mul_succ, genBits_add, ih, genState_periods, List.replicate_succ']
    simp

/-- exactly 256 ones in every period, for ever -/
theorem ones_periods (k : Nat) : (genBits (511 * k) 1).count true = 256 * k := by
  induction k with
  | zero => rfl
  | succ k ih => rw [Nat.mul_succ, genBits_add, List.count_append, ih, genState_periods, ones_511, Nat.mul_succ]

/-- every phase: from the register reached after `p` steps, 511 further steps return to it -/
theorem return_511_any_phase (p : Nat) : genState 511 (genState p 1) = genState p 1 := by
  rw [← genState_add, Nat.add_comm, genState_add, return_511]

attribute [local irreducible] genBits genState in
/-- from any register that returns to itself after 511 steps, every output index repeats with period 511 -/
theorem bit_periodic_of_return (g : Nat) (hg : genState 511 g = g) (n m : Nat) (h : n + 511 < m) :
    (genBits m g).getD (n + 511) false = (genBits m g).getD n false := by
  obtain ⟨r, rfl⟩ : ∃ r, m = 511 + r := ⟨m - 511, by omega⟩
  have hn : n < r := by omega
  -- the tail restarts from register 1
  have e1 : (genBits (511 + r) g).getD (n + 511) false = (genBits r g).getD n false := by
    have hs := genBits_add 511 r g
    rw [hg] at hs
    generalize genBits (511 + r) g = L at hs ⊢
    generalize hP : genBits 511 g = P at hs
    have hP' : P.length = 511 := by rw [← hP, genBits_length]
    subst hs
    have hi : n + 511 - 511 = n := by omega
    rw [List.getD_eq_getElem?_getD, List.getElem?_append_right (by omega), hP', hi, ← List.getD_eq_getElem?_getD]
  -- and a prefix of a run is the shorter run
  have e2 : (genBits (r + 511) g).getD n false = (genBits r g).getD n false := by
    have hs := genBits_add r 511 g
    generalize genBits (r + 511) g = L at hs ⊢
    have hr := genBits_length r g
    generalize genBits r g = R at hs hr ⊢
    generalize genBits 511 (genState r g) = T at hs
    subst hs
    rw [List.getD_eq_getElem?_getD, List.getElem?_append_left (by omega), ← List.getD_eq_getElem?_getD]
  rw [e1, Nat.add_comm 511 r, e2]

/-- every output index repeats with period 511 (stated on prefixes: the bit at index `n + 511` of any long enough
    run equals the bit at index `n`) -/
theorem bit_periodic (n m : Nat) (h : n + 511 < m) :
    (genBits m 1).getD (n + 511) false = (genBits m 1).getD n false :=
  bit_periodic_of_return 1 return_511 n m h

/-- the same from every phase of the sequence (the register reached after any number `p` of steps) -/
theorem bit_periodic_any_phase (p n m : Nat) (h : n + 511 < m) :
    (genBits m (genState p 1)).getD (n + 511) false = (genBits m (genState p 1)).getD n false :=
  bit_periodic_of_return _ (return_511_any_phase p) n m h

/-- non-vacuity: the first nine output bits and a wrapped index -/
example : genBits 9 1 = (genBits 520 1).drop 511 := by decide +kernel

end M17.C18P

/-
C04 — Golay(24,12): corrects every ≤3-bit error, rejects every 4-bit error, never reports success
with data other than that of the unique codeword within distance three; the encoder is systematic,
linear, with minimum distance 8.

All statements are about `M17.Golay` (the model of include/m17cxx/Golay24.h over the LUT and
polynomial regenerated from the current headers) and hold for every 24-bit received word.
-/
import M17.Lemmas.Golay

namespace M17.C04
open M17.Golay M17.Bits

-- keep the elaborator from unfolding the register loops and the 2048-entry table during unification
attribute [local irreducible] syn lut encode23 encode24 wtN

/-! ## bridge lemmas: generated constants vs. specification -/

theorem gen_poly_eq_spec : Gen.golayPoly = Spec.golayPoly := by decide

/-- the generated lookup table is a complete, key-sorted coset-leader table -/
theorem lut_ok : lutOKb = true := lutOKb_true

theorem encode24_eq_spec (d : Nat) (hd : d < 4096) : encode24 d = Spec.golay24 d := by
  have h := all_range wtTable_ok hd
  simp only [Bool.and_eq_true, beq_iff_eq] at h
  exact h.2

/-! ## facts read off the tables -/

theorem enc23_facts (d : Nat) (hd : d < 4096) :
    syn (encode23 d) = 0 ∧ encode23 d >>> 11 = d ∧ encode23 d < 2 ^ 23 ∧
    encode23 d = (syn d ^^^ (d <<< 11)) := by
  have h := all_range encTable_ok hd
  simp only [Bool.and_eq_true, beq_iff_eq, decide_eq_true_eq] at h
  exact ⟨h.1.1.1, h.1.1.2, h.1.2, h.2⟩

theorem enc24_facts (d : Nat) (hd : d < 4096) :
    (d = 0 ∨ 7 ≤ wtN 23 (encode23 d)) ∧ (d = 0 ∨ 8 ≤ wtN 24 (encode24 d)) ∧
    wtN 24 (encode24 d) % 2 = 0 ∧ encode24 d >>> 12 = d ∧ encode24 d < 2 ^ 24 := by
  have h := all_range wtTable_ok hd
  simp only [Bool.and_eq_true, Bool.or_eq_true, beq_iff_eq, decide_eq_true_eq] at h
  exact ⟨h.1.1.1.1.1, h.1.1.1.1.2, h.1.1.1.2, h.1.1.2, h.1.2⟩

theorem lut_entry (i : Nat) (hi : i < 2048) :
    ∃ p, lut[i]? = some (i <<< 12, p) ∧ syn p = i ∧ wtN 23 p ≤ 3 ∧ p < 2 ^ 23 := by
  have h := lut_ok
  unfold lutOKb at h
  simp only [Bool.and_eq_true, beq_iff_eq] at h
  obtain ⟨hlen, hall⟩ := h
  generalize lut = l at hlen hall ⊢
  have hi' : i < l.length := by omega
  obtain ⟨e, he⟩ : ∃ e, l[i]? = some e := ⟨_, List.getElem?_eq_getElem hi'⟩
  have hmem : (e, i) ∈ l.zipIdx := by
    rw [List.mem_zipIdx_iff_getElem?]; exact he
  rw [List.all_eq_true] at hall
  have := hall _ hmem
  simp only [Bool.and_eq_true, beq_iff_eq, decide_eq_true_eq] at this
  obtain ⟨⟨⟨h1, h2⟩, h3⟩, h4⟩ := this
  obtain ⟨k, p⟩ := e
  simp only at h1 h2 h3 h4
  subst h1
  exact ⟨p, he, h2, h3, h4⟩

/-- a 23-bit word with zero syndrome is the codeword of its top 12 bits -/
theorem codeword_of_syn_zero (x : Nat) (hx : x < 2 ^ 23) (hs : syn x = 0) : x = encode23 (x >>> 11) := by
  have hd : x >>> 11 < 4096 := by rw [Nat.shiftRight_eq_div_pow]; omega
  obtain ⟨h1a, h1b, h1c, _⟩ := enc23_facts _ hd
  have ht : (x ^^^ encode23 (x >>> 11)) >>> 11 = 0 := by
    rw [Nat.shiftRight_xor_distrib, h1b, Nat.xor_self]
  have ht' : x ^^^ encode23 (x >>> 11) < 2048 := by
    rw [Nat.shiftRight_eq_div_pow] at ht
    have := Nat.div_eq_zero_iff.mp ht
    omega
  have hst : syn (x ^^^ encode23 (x >>> 11)) = 0 := by rw [syn_lin, hs, h1a]; rfl
  have h2 := all_range lowTable_ok ht'
  simp only [Bool.or_eq_true, beq_iff_eq, bne_iff_ne, ne_eq] at h2
  have : x ^^^ encode23 (x >>> 11) = 0 := by
    rcases h2 with h2 | h2
    · exact h2
    · exact absurd hst h2
  exact eq_of_xor_eq_zero this

/-- a non-zero 23-bit word with zero syndrome has weight ≥ 7 -/
theorem weight_of_syn_zero (x : Nat) (hx : x < 2 ^ 23) (hs : syn x = 0) (hne : x ≠ 0) : 7 ≤ wtN 23 x := by
  have hc := codeword_of_syn_zero x hx hs
  have hd : x >>> 11 < 4096 := by rw [Nat.shiftRight_eq_div_pow]; omega
  obtain ⟨h3, _⟩ := enc24_facts _ hd
  rcases h3 with h3 | h3
  · rw [h3] at hc
    have : x = 0 := by rw [hc]; decide +kernel
    exact absurd this hne
  · rw [← hc] at h3; exact h3

/-- two patterns of weight ≤ 3 with the same syndrome are equal (minimum distance 7) -/
theorem coset_leader_unique (a b : Nat) (ha : a < 2 ^ 23) (hb : b < 2 ^ 23)
    (wa : wtN 23 a ≤ 3) (wb : wtN 23 b ≤ 3) (h : syn a = syn b) : a = b := by
  have hx : a ^^^ b < 2 ^ 23 := Nat.xor_lt_two_pow ha hb
  have hs : syn (a ^^^ b) = 0 := by rw [syn_lin, h, Nat.xor_self]
  have hw : wtN 23 (a ^^^ b) ≤ 6 := by have := wtN_xor_le 23 a b; omega
  by_cases hz : a ^^^ b = 0
  · exact eq_of_xor_eq_zero hz
  · have := weight_of_syn_zero _ hx hs hz; omega

/-! ## encoder -/

/-- systematic: the data word is the top 12 bits of the codeword -/
theorem encode_systematic (d : Nat) (hd : d < 4096) : encode24 d >>> 12 = d ∧ encode24 d < 2 ^ 24 :=
  ⟨(enc24_facts d hd).2.2.2.1, (enc24_facts d hd).2.2.2.2⟩

theorem encode23_linear (a b : Nat) (ha : a < 4096) (hb : b < 4096) :
    encode23 (a ^^^ b) = encode23 a ^^^ encode23 b := by
  have hab : a ^^^ b < 4096 := Nat.xor_lt_two_pow (n := 12) ha hb
  rw [(enc23_facts _ hab).2.2.2, (enc23_facts _ ha).2.2.2, (enc23_facts _ hb).2.2.2,
    syn_lin, Nat.shiftLeft_xor_distrib]
  -- xor AC
  rw [Nat.xor_assoc, Nat.xor_assoc]; congr 1
  rw [← Nat.xor_assoc, Nat.xor_comm (syn b), Nat.xor_assoc]

theorem parity_iff (x : Nat) (hx : x < 2 ^ 23) : parity x = true ↔ wtN 23 x % 2 = 1 := by
  unfold parity popcount
  rw [show (32 : Nat) = 23 + 9 from rfl, wtN_of_lt 23 9 x hx]
  simp

/-- `encode24 d = 2 * encode23 d + (weight of encode23 d mod 2)` -/
theorem encode24_eq (d : Nat) (hd : d < 4096) :
    encode24 d = 2 * encode23 d + wtN 23 (encode23 d) % 2 := by
  unfold encode24
  simp only
  have hlt := (enc23_facts d hd).2.2.1
  have hp := parity_iff (encode23 d) hlt
  by_cases h : parity (encode23 d) = true
  · rw [if_pos h, shl1_or _ _ (by decide)]; have := hp.mp h; omega
  · rw [if_neg h, shl1_or _ _ (by decide)]
    have : ¬ (wtN 23 (encode23 d) % 2 = 1) := fun c => h (hp.mpr c)
    omega

/-- linear over GF(2) -/
theorem encode_linear (a b : Nat) (ha : a < 4096) (hb : b < 4096) :
    encode24 (a ^^^ b) = encode24 a ^^^ encode24 b := by
  have hab : a ^^^ b < 4096 := Nat.xor_lt_two_pow (n := 12) ha hb
  rw [encode24_eq _ hab, encode24_eq _ ha, encode24_eq _ hb,
    xor_double_add _ _ _ _ (by omega) (by omega), encode23_linear a b ha hb]
  congr 1
  have h := wtN_xor_parity 23 (encode23 a) (encode23 b)
  generalize wtN 23 (encode23 a ^^^ encode23 b) = wab at h ⊢
  generalize wtN 23 (encode23 a) = wa at h ⊢
  generalize wtN 23 (encode23 b) = wb at h ⊢
  have hy : ((wa % 2 ^^^ wb % 2) % 2 = 1) ↔ ¬ ((wa % 2 % 2 = 1) ↔ (wb % 2 % 2 = 1)) := Nat.xor_mod_two_eq_one
  have hlt : wa % 2 ^^^ wb % 2 < 2 := Nat.xor_lt_two_pow (n := 1) (by omega) (by omega)
  omega

/-- minimum distance 8 -/
theorem min_distance_8 (a b : Nat) (ha : a < 4096) (hb : b < 4096) (hne : a ≠ b) :
    8 ≤ wtN 24 (encode24 a ^^^ encode24 b) := by
  have hab : a ^^^ b < 4096 := Nat.xor_lt_two_pow (n := 12) ha hb
  rw [← encode_linear a b ha hb]
  rcases (enc24_facts _ hab).2.1 with h | h
  · exact absurd (eq_of_xor_eq_zero h) hne
  · exact h

/-! ## decoder -/

/-- the table lookup of `decode`: for every 23-bit word the `lower_bound` lands on the entry whose key
    is exactly the syndrome, and that entry is a pattern of weight ≤ 3 in the same coset -/
theorem lookup (x : Nat) (hx : x < 2 ^ 23) :
    ∃ p, lowerBound lut (syndrome x) = some (syndrome x, p) ∧ p < 2 ^ 23 ∧ wtN 23 p ≤ 3 ∧ syn p = syn x := by
  have hs : syn x < 2048 := syn_lt x hx
  have hsyn : syndrome x = syn x <<< 12 := by
    unfold syndrome; rw [Nat.mod_eq_of_lt (by omega)]
  obtain ⟨p, hget, hp1, hp2, hp3⟩ := lut_entry (syn x) hs
  refine ⟨p, ?_, hp3, hp2, hp1⟩
  rw [hsyn]
  unfold lowerBound
  rw [List.find?_eq_some_iff_getElem]
  refine ⟨by simp, syn x, ?_⟩
  obtain ⟨hlt, heq⟩ := List.getElem?_eq_some_iff.mp hget
  refine ⟨hlt, heq, ?_⟩
  intro j hj
  obtain ⟨q, hq, _⟩ := lut_entry j (by omega)
  obtain ⟨hjl, hje⟩ := List.getElem?_eq_some_iff.mp hq
  rw [hje]
  simp only [Bool.not_eq_eq_eq_not, Bool.not_true, decide_eq_false_iff_not, Nat.not_lt]
  rw [Nat.shiftLeft_eq, Nat.shiftLeft_eq]
  omega

theorem popcount_shl1 (p : Nat) (hp : p < 2 ^ 23) : popcount (p <<< 1) = wtN 23 p := by
  unfold popcount
  rw [shl1, show (32 : Nat) = 24 + 8 from rfl, wtN_of_lt 24 8 _ (by omega)]
  have := wtN_succ_double 23 p 0 (by decide)
  simpa using this

theorem parity_24 (o : Nat) (ho : o < 2 ^ 24) : parity o = true ↔ wtN 24 o % 2 = 1 := by
  unfold parity popcount
  rw [show (32 : Nat) = 24 + 8 from rfl, wtN_of_lt 24 8 o ho]
  simp

/-- `decode` on a 24-bit word, with the table lookup resolved -/
theorem decode_eq (r : Nat) (hr : r < 2 ^ 24) :
    ∃ p, p < 2 ^ 23 ∧ wtN 23 p ≤ 3 ∧ syn p = syn (r >>> 1) ∧
      decode r = if wtN 23 p < 3 ∨ wtN 24 (r ^^^ (2 * p)) % 2 = 0 then some (r ^^^ (2 * p)) else none := by
  have hx : r >>> 1 < 2 ^ 23 := by rw [shr1]; omega
  obtain ⟨p, hl, hp3, hp2, hp1⟩ := lookup (r >>> 1) hx
  refine ⟨p, hp3, hp2, hp1, ?_⟩
  unfold decode decodeWith
  simp only [hl, if_true]
  rw [popcount_shl1 p hp3, shl1]
  have ho : r ^^^ (2 * p) < 2 ^ 24 := Nat.xor_lt_two_pow hr (by omega)
  have hpar := parity_24 _ ho
  by_cases h1 : wtN 23 p < 3
  · simp [h1]
  · by_cases h2 : wtN 24 (r ^^^ (2 * p)) % 2 = 0
    · have : parity (r ^^^ 2 * p) = false := by
        cases hc : parity (r ^^^ 2 * p) with
        | false => rfl
        | true => have := hpar.mp hc; omega
      simp [h1, h2, this]
    · have : parity (r ^^^ 2 * p) = true := hpar.mpr (by omega)
      simp [h1, h2, this]

/-- `e xor 2*(e/2)` is the lowest bit of `e` -/
theorem xor_clear_low (e : Nat) : e ^^^ (2 * (e / 2)) = e % 2 := by
  have h := xor_double_add (e / 2) (e / 2) (e % 2) 0 (by omega) (by decide)
  have h1 : 2 * (e / 2) + e % 2 = e := by omega
  rw [h1, Nat.xor_self, Nat.xor_zero] at h
  simpa using h

theorem wt24_split (e : Nat) : wtN 24 e = e % 2 + wtN 23 (e / 2) := by
  show wtN (23 + 1) e = _
  rw [wtN]

/-- **corrects every error pattern of weight ≤ 3** (any of the 24 positions, parity bit included) -/
theorem decode_corrects (d e : Nat) (hd : d < 4096) (he : e < 2 ^ 24) (hw : wtN 24 e ≤ 3) :
    ∃ o, decode (encode24 d ^^^ e) = some o ∧ o >>> 12 = d := by
  obtain ⟨_, _, heven, hsys, hlt⟩ := enc24_facts d hd
  obtain ⟨hsyn0, _, h23, _⟩ := enc23_facts d hd
  have hr : encode24 d ^^^ e < 2 ^ 24 := Nat.xor_lt_two_pow hlt he
  obtain ⟨p, hp3, hp2, hp1, hdec⟩ := decode_eq _ hr
  -- syndrome of the received word = syndrome of the error pattern
  have hc : encode24 d >>> 1 = encode23 d := by rw [shr1, encode24_eq d hd]; omega
  have hsyn : syn p = syn (e / 2) := by
    rw [hp1, Nat.shiftRight_xor_distrib, hc, syn_lin, hsyn0, Nat.zero_xor, shr1]
  have hwe := wt24_split e
  have hpe : p = e / 2 := coset_leader_unique p (e / 2) hp3 (by omega) hp2 (by omega) hsyn
  have hout : encode24 d ^^^ e ^^^ (2 * p) = encode24 d ^^^ (e % 2) := by
    rw [hpe, Nat.xor_assoc, xor_clear_low]
  rw [hout] at hdec
  refine ⟨encode24 d ^^^ (e % 2), ?_, ?_⟩
  · rw [hdec]
    by_cases h1 : wtN 23 p < 3
    · simp [h1]
    · have h0 : e % 2 = 0 := by rw [hpe] at h1; omega
      simp [h0, heven]
  · rw [Nat.shiftRight_xor_distrib, hsys]
    have : (e % 2) >>> 12 = 0 := by rw [Nat.shiftRight_eq_div_pow]; omega
    rw [this, Nat.xor_zero]

/-- **rejects every error pattern of weight exactly 4** -/
theorem decode_rejects4 (d e : Nat) (hd : d < 4096) (he : e < 2 ^ 24) (hw : wtN 24 e = 4) :
    decode (encode24 d ^^^ e) = none := by
  obtain ⟨_, _, heven, hsys, hlt⟩ := enc24_facts d hd
  obtain ⟨hsyn0, _, h23, _⟩ := enc23_facts d hd
  have hr : encode24 d ^^^ e < 2 ^ 24 := Nat.xor_lt_two_pow hlt he
  obtain ⟨p, hp3, hp2, hp1, hdec⟩ := decode_eq _ hr
  have hc : encode24 d >>> 1 = encode23 d := by rw [shr1, encode24_eq d hd]; omega
  have hsyn : syn p = syn (e / 2) := by
    rw [hp1, Nat.shiftRight_xor_distrib, hc, syn_lin, hsyn0, Nat.zero_xor, shr1]
  have hwe := wt24_split e
  have he2 : e / 2 < 2 ^ 23 := by omega
  rw [hdec]
  -- q = p xor e/2 is a codeword of the (23,12) code
  have hq : syn (p ^^^ e / 2) = 0 := by rw [syn_lin, hsyn, Nat.xor_self]
  have hqlt : p ^^^ e / 2 < 2 ^ 23 := Nat.xor_lt_two_pow hp3 he2
  have hout : encode24 d ^^^ e ^^^ (2 * p) = encode24 d ^^^ (2 * (p ^^^ e / 2) + e % 2) := by
    have : e = 2 * (e / 2) + e % 2 := by omega
    rw [Nat.xor_assoc]; congr 1
    conv => lhs; rw [this]
    have h := xor_double_add (e / 2) p (e % 2) 0 (by omega) (by decide)
    simp only [Nat.add_zero, Nat.xor_zero] at h
    rw [h, Nat.xor_comm]
  have hwout : wtN 24 (encode24 d ^^^ e ^^^ (2 * p)) % 2 = (e % 2 + wtN 23 (p ^^^ e / 2)) % 2 := by
    have hw2 : wtN 24 (2 * (p ^^^ e / 2) + e % 2) = e % 2 + wtN 23 (p ^^^ e / 2) :=
      wtN_succ_double 23 _ _ (by omega)
    rw [hout, wtN_xor_parity, hw2]
    omega
  by_cases hodd : e % 2 = 1
  · -- parity bit hit and three more: the leader is exactly e/2
    have hpe : p = e / 2 := coset_leader_unique p (e / 2) hp3 he2 hp2 (by omega) hsyn
    have h3 : wtN 23 p = 3 := by rw [hpe]; omega
    have hz : wtN 23 (p ^^^ e / 2) = 0 := by rw [hpe, Nat.xor_self]; exact wtN_zero 23
    rw [if_neg]
    rw [hwout, hz]; omega
  · -- four errors among the 23 cyclic positions: leader has weight 3, total change has weight 7
    have h4 : wtN 23 (e / 2) = 4 := by omega
    have hne : p ^^^ e / 2 ≠ 0 := by
      intro h0; have := eq_of_xor_eq_zero h0; rw [this] at hp2; omega
    have h7 := weight_of_syn_zero _ hqlt hq hne
    have hle := wtN_xor_le 23 p (e / 2)
    have hparq := wtN_xor_parity 23 p (e / 2)
    rw [if_neg]
    rw [hwout]; omega

/-- **never reports success with data other than that of the unique codeword within distance 3** -/
theorem decode_sound (r o : Nat) (hr : r < 2 ^ 24) (h : decode r = some o) :
    o >>> 12 < 4096 ∧ wtN 24 (r ^^^ encode24 (o >>> 12)) ≤ 3 ∧
    ∀ d', d' < 4096 → wtN 24 (r ^^^ encode24 d') ≤ 3 → d' = o >>> 12 := by
  obtain ⟨p, hp3, hp2, hp1, hdec⟩ := decode_eq _ hr
  rw [hdec] at h
  split at h
  case isFalse => exact absurd h (by simp)
  case isTrue hacc =>
  have ho : o = r ^^^ (2 * p) := by injection h with h; exact h.symm
  have holt : o < 2 ^ 24 := by rw [ho]; exact Nat.xor_lt_two_pow hr (by omega)
  -- the corrected word without its parity bit is a (23,12) codeword
  have ho1 : o / 2 = r / 2 ^^^ p := by
    rw [ho, Nat.xor_div_two]; congr 1; omega
  have hsyn0 : syn (o / 2) = 0 := by rw [ho1, syn_lin, hp1, shr1, Nat.xor_self]
  have ho2lt : o / 2 < 2 ^ 23 := by omega
  have hcw := codeword_of_syn_zero _ ho2lt hsyn0
  have hdd : (o / 2) >>> 11 = o >>> 12 := by
    rw [Nat.shiftRight_eq_div_pow, Nat.shiftRight_eq_div_pow, Nat.div_div_eq_div_mul]
  rw [hdd] at hcw
  have hd : o >>> 12 < 4096 := by rw [Nat.shiftRight_eq_div_pow]; omega
  have henc := encode24_eq _ hd
  rw [← hcw] at henc
  have hwo := wt24_split o
  -- distance from r to that codeword
  have hdist : wtN 24 (r ^^^ encode24 (o >>> 12)) ≤ 3 := by
    have hro : r ^^^ o = 2 * p := by
      rw [ho, ← Nat.xor_assoc, Nat.xor_self, Nat.zero_xor]
    have hw2p : wtN 24 (2 * p) = wtN 23 p := by
      have := wtN_succ_double 23 p 0 (by decide); simpa using this
    by_cases hev : wtN 24 o % 2 = 0
    · -- parity consistent: o is the codeword itself
      have : encode24 (o >>> 12) = o := by rw [henc]; omega
      rw [this, hro, hw2p]; exact hp2
    · -- parity inconsistent: accepted only because the leader has weight < 3
      have hp : wtN 23 p < 3 := by
        rcases hacc with h1 | h1
        · exact h1
        · rw [← ho] at h1; omega
      have hfl : encode24 (o >>> 12) = o ^^^ 1 := by
        have h1 : o = 2 * (o / 2) + o % 2 := by omega
        have hx := xor_double_add (o / 2) 0 (o % 2) 1 (by omega) (by decide)
        simp only [Nat.mul_zero, Nat.zero_add, Nat.xor_zero] at hx
        rw [← h1] at hx
        rw [hx, henc]
        have hb : o % 2 = 0 ∨ o % 2 = 1 := by omega
        rcases hb with hb | hb <;> rw [hb] at hwo ⊢ <;> simp <;> omega
      rw [hfl, ← Nat.xor_assoc, hro]
      have hx := xor_double_add p 0 0 1 (by decide) (by decide)
      simp only [Nat.mul_zero, Nat.zero_add, Nat.xor_zero, Nat.add_zero, Nat.zero_xor] at hx
      have hw2 : wtN 24 (2 * p + 1) = 1 + wtN 23 p := wtN_succ_double 23 p 1 (by decide)
      rw [hx, hw2]
      omega
  refine ⟨hd, hdist, ?_⟩
  intro d' hd' hw'
  by_cases hne : d' = o >>> 12
  · exact hne
  · have h8 := min_distance_8 d' (o >>> 12) hd' hd hne
    have htri : wtN 24 (encode24 d' ^^^ encode24 (o >>> 12)) ≤
        wtN 24 (r ^^^ encode24 d') + wtN 24 (r ^^^ encode24 (o >>> 12)) := by
      have : encode24 d' ^^^ encode24 (o >>> 12) = (r ^^^ encode24 d') ^^^ (r ^^^ encode24 (o >>> 12)) := by
        rw [Nat.xor_assoc, ← Nat.xor_assoc (encode24 d'), Nat.xor_comm (encode24 d') r, Nat.xor_assoc r,
          ← Nat.xor_assoc r, Nat.xor_self, Nat.zero_xor]
      rw [this]; exact wtN_xor_le 24 _ _
    omega

/-- the direct-indexed decoder used by the compiled driver is the modelled decoder (24-bit words) -/
theorem decodeFast_eq (r : Nat) (hr : r < 2 ^ 24) : decodeFast r = decode r := by
  have hx : r >>> 1 < 2 ^ 23 := by rw [shr1]; omega
  obtain ⟨p, hl, _, _, _⟩ := lookup (r >>> 1) hx
  have hs : syn (r >>> 1) < 2048 := syn_lt _ hx
  have hsyn : syndrome (r >>> 1) = syn (r >>> 1) <<< 12 := by
    unfold syndrome; rw [Nat.mod_eq_of_lt (by omega)]
  obtain ⟨q, hget, _⟩ := lut_entry (syn (r >>> 1)) hs
  have hidx : syndrome (r >>> 1) >>> 12 = syn (r >>> 1) := by
    rw [hsyn, Nat.shiftLeft_shiftRight]
  -- both lookups return the same entry
  have hpq : p = q := by
    unfold lowerBound at hl
    have := List.find?_eq_some_iff_getElem.mp hl
    obtain ⟨_, i, hi, hei, hall⟩ := this
    obtain ⟨hlt, heq⟩ := List.getElem?_eq_some_iff.mp hget
    -- index i must be syn (r>>>1): keys are injective
    obtain ⟨q', hq', _⟩ := lut_entry i (by
      have := lut_ok; unfold lutOKb at this; simp only [Bool.and_eq_true, beq_iff_eq] at this; omega)
    obtain ⟨_, hq'e⟩ := List.getElem?_eq_some_iff.mp hq'
    rw [hei] at hq'e
    have hk : syndrome (r >>> 1) = i <<< 12 := (Prod.ext_iff.mp hq'e).1
    have hi2 : i = syn (r >>> 1) := by
      rw [hsyn, Nat.shiftLeft_eq, Nat.shiftLeft_eq] at hk; omega
    subst hi2
    rw [hei] at heq
    exact (Prod.ext_iff.mp heq).2
  have harr : lutArr.getD (syndrome (r >>> 1) >>> 12) (0, 0) = (syndrome (r >>> 1), q) := by
    rw [hidx]
    unfold lutArr
    obtain ⟨hlt, heq⟩ := List.getElem?_eq_some_iff.mp hget
    simp [Array.getD, hlt, heq, hsyn]
  have h1 : decodeFast r = decodeWith [(syndrome (r >>> 1), q)] r := by
    unfold decodeFast decodeWith lowerBound
    simp only [harr]
    simp
  rw [h1]
  unfold decode decodeWith
  simp only [hl, hpq]
  simp [lowerBound]

/-! ## non-vacuity and the refuted variant -/

-- the hypotheses are met by concrete, non-trivial cases (kernel evaluation of the model itself)
example : decode (encode24 0xABC ^^^ 0b11) = some (encode24 0xABC ^^^ 1) := by decide +kernel
example : decode (encode24 0x5A5 ^^^ 0x800401) = some (encode24 0x5A5 ^^^ 1) := by decide +kernel
example : decode (encode24 0x123 ^^^ 0x00F000) = none := by decide +kernel

/-- The acceptance rule of the tree as pinned (weight of the *syndrome* below 3) — kept to document the
    defect the repair removed: it rejects a 2-bit error that includes the overall-parity bit. -/
def decodePinned (input : Nat) : Option Nat :=
  let s := syndrome (input >>> 1)
  match lowerBound lut s with
  | none => none
  | some (key, pat) =>
    if key = s then
      let output := input ^^^ (pat <<< 1)
      if popcount s < 3 || !parity output then some output else none
    else none

theorem pinned_rule_refuted : ∃ d e, d < 4096 ∧ e < 2 ^ 24 ∧ wtN 24 e ≤ 3 ∧ decodePinned (encode24 d ^^^ e) = none :=
  ⟨5, 3, by decide, by decide, by decide +kernel, by decide +kernel⟩

end M17.C04

/-
C10 — interleaver and randomizer are exact, mutually inverse bit-conditioning maps; the soft,
bit-array and packed-byte variants implement the same mapping.
-/
import M17.Lemmas.Cond
import M17.Lemmas.Bits
import M17.Spec.Cond

namespace M17.C10
open M17.Cond M17.Bytes

/-! ## bridge lemmas -/

theorem gen_params_eq_spec : Gen.ileaveF1 = 45 ∧ Gen.ileaveF2 = 92 ∧ Gen.ileaveK = 368 := by decide

theorem index_eq_spec (i : Nat) : index i = Spec.ileaveIndex i := by
  unfold index Spec.ileaveIndex K
  rw [gen_params_eq_spec.1, gen_params_eq_spec.2.1, gen_params_eq_spec.2.2]

/-- the values `index(i)` the real interleaver object returns are those of the modelled formula -/
theorem gen_index_eq_model : Gen.ileaveIndex = (List.range 368).map index := by decide +kernel

theorem gen_dc_eq_spec : Gen.randDC = Spec.randDC := by decide

/-- the `dc_` sign table the real randomizer object built is the modelled one -/
theorem gen_signs_eq_model : Gen.randSigns = (List.range 368).map dcSign := by decide +kernel

/-! ## the interleaver index is a permutation of 0..367 -/

/-- inverse permutation, by search -/
def invIndex (p : Nat) : Nat := ((List.range 368).find? (fun i => index i == p)).getD 0

def permOK : Bool :=
  (List.range 368).all fun i => decide (index i < 368) && invIndex (index i) == i &&
    decide (invIndex i < 368) && index (invIndex i) == i

theorem perm_ok : permOK = true := by decide +kernel

theorem index_perm : Bij index invIndex 368 := by
  have h := perm_ok
  unfold permOK at h
  rw [List.all_eq_true] at h
  constructor
  · intro i hi
    have := h i (List.mem_range.mpr hi)
    simp only [Bool.and_eq_true, decide_eq_true_eq, beq_iff_eq] at this
    exact ⟨this.1.1.1, this.1.1.2⟩
  · intro p hp
    have := h p (List.mem_range.mpr hp)
    simp only [Bool.and_eq_true, decide_eq_true_eq, beq_iff_eq] at this
    exact ⟨this.1.2, this.2⟩

theorem K_eq : K = 368 := gen_params_eq_spec.2.2

/-! ## interleave / deinterleave are mutually inverse (soft variant) -/

theorem deinterleave_interleave_soft (xs : List Int) (h : xs.length = 368) :
    deinterleaveSoft (interleaveSoft xs) = xs := by
  unfold deinterleaveSoft interleaveSoft; rw [K_eq]
  exact gather_scatter index invIndex 368 index_perm 0 xs h

theorem interleave_deinterleave_soft (xs : List Int) (h : xs.length = 368) :
    interleaveSoft (deinterleaveSoft xs) = xs := by
  unfold deinterleaveSoft interleaveSoft; rw [K_eq]
  exact scatter_gather index invIndex 368 index_perm 0 xs h

/-- where each input position ends up: output position `index i` holds input `i` -/
theorem interleave_soft_position (xs : List Int) (i : Nat) (hi : i < 368) :
    (interleaveSoft xs).getD (index i) 0 = xs.getD i 0 := by
  unfold interleaveSoft; rw [K_eq]
  rw [scatter_getD index invIndex 368 index_perm 0 xs _ (index_perm.1 i hi).1, (index_perm.1 i hi).2]

/-! ## the packed-byte variants implement the same permutation -/

theorem interleaveBytes_bit (bs : List Nat) (p : Nat) (hp : p < 368) :
    getBit (interleaveBytes bs) p = getBit bs (invIndex p) := by
  unfold interleaveBytes; rw [K_eq]
  rw [assign_prefix index invIndex 368 index_perm (fun i => getBit bs i) _ (by simp) 368 (Nat.le_refl _) p hp]
  simp [(index_perm.2 p hp).1]

theorem deinterleaveBytes_bit (bs : List Nat) (i : Nat) (hi : i < 368) :
    getBit (deinterleaveBytes bs) i = getBit bs (index i) := by
  unfold deinterleaveBytes; rw [K_eq]
  have := assign_prefix id id 368 (bij_id 368) (fun i => getBit bs (index i)) (List.replicate (368 / 8) 0) (by simp)
    368 (Nat.le_refl _) i hi
  simp only [id] at this
  rw [this]; simp [hi]

/-- the byte interleaver agrees with the soft/array interleaver: bit `index i` of the output is bit `i` of the input -/
theorem bytes_variant_agrees (bs : List Nat) (i : Nat) (hi : i < 368) :
    getBit (interleaveBytes bs) (index i) = getBit bs i ∧
    getBit (deinterleaveBytes (interleaveBytes bs)) i = getBit bs i := by
  have h1 : getBit (interleaveBytes bs) (index i) = getBit bs i := by
    rw [interleaveBytes_bit _ _ (index_perm.1 i hi).1, (index_perm.1 i hi).2]
  exact ⟨h1, by rw [deinterleaveBytes_bit _ _ hi, h1]⟩

/-- whichever variant the transmitter used, the receiver's soft de-interleaver undoes it:
    soft values derived from the byte-interleaved frame de-interleave to those of the original bits -/
theorem soft_deinterleave_undoes_bytes (bs : List Nat) (f : Bool → Int) (i : Nat) (hi : i < 368) :
    (deinterleaveSoft ((List.range 368).map fun p => f (getBit (interleaveBytes bs) p))).getD i 0 = f (getBit bs i) := by
  unfold deinterleaveSoft; rw [K_eq, gather_getD _ _ _ _ _ hi]
  have hlt := (index_perm.1 i hi).1
  simp only [List.getD_eq_getElem?_getD, List.getElem?_map, List.getElem?_range hlt, Option.map_some, Option.getD_some]
  rw [(bytes_variant_agrees bs i hi).1]

/-! ## randomizer -/

theorem narrow8_id (x : Int) (h1 : -128 ≤ x) (h2 : x ≤ 127) : narrow8 x = x := by unfold narrow8; omega

/-- applying the soft randomizer twice is the identity on every `int8_t` value (−128 included) -/
theorem rand_soft_step_involutive (x : Int) (i : Nat) (h1 : -128 ≤ x) (h2 : x ≤ 127) :
    narrow8 (narrow8 (x * dcSign i) * dcSign i) = x := by
  unfold dcSign narrow8
  split <;> omega

theorem rand_soft_involutive (xs : List Int) (h : ∀ x ∈ xs, -128 ≤ x ∧ x ≤ 127) :
    randSoft (randSoft xs) = xs := by
  unfold randSoft
  apply List.ext_getElem (by simp)
  intro n h1 h2
  simp only [List.getElem_map, List.getElem_zipIdx, Nat.zero_add]
  have hx := h xs[n] (List.getElem_mem h2)
  exact rand_soft_step_involutive _ _ hx.1 hx.2

theorem xorLsb_involutive (x : Int) (b : Bool) : xorLsb (xorLsb x b) b = x := by
  unfold xorLsb
  cases b
  · simp
  · simp only [if_true]
    split <;> split <;> omega

theorem rand_bits_involutive (xs : List Int) : randBits (randBits xs) = xs := by
  unfold randBits
  apply List.ext_getElem (by simp)
  intro n h1 h2
  simp only [List.getElem_map, List.getElem_zipIdx, Nat.zero_add]
  exact xorLsb_involutive _ _

/-- one masked step of the byte randomizer is an xor with the masked DC byte -/
theorem randByteStep_eq (f dc k : Nat) (hf : f < 256) (hk : k < 8) :
    randByteStep f dc (2 ^ k) = f ^^^ (dc &&& 2 ^ k) := by
  unfold randByteStep
  apply Nat.eq_of_testBit_eq
  intro i
  simp only [Nat.testBit_or, Nat.testBit_and, Nat.testBit_xor, Nat.testBit_two_pow, testBit_255]
  by_cases hi : i < 8
  · by_cases hik : k = i <;> simp [hi, hik]
  · have : f.testBit i = false := Nat.testBit_lt_two_pow (Nat.lt_of_lt_of_le hf (by
      have : 2 ^ 8 ≤ 2 ^ i := Nat.pow_le_pow_right (by decide) (by omega)
      simpa using this))
    have hik : ¬ k = i := by omega
    simp [hi, this, hik]

def maskSumOK : Bool := (List.range 256).all fun d =>
  ((d &&& 128) ^^^ (d &&& 64) ^^^ (d &&& 32) ^^^ (d &&& 16) ^^^ (d &&& 8) ^^^ (d &&& 4) ^^^ (d &&& 2) ^^^ (d &&& 1)) == d

theorem maskSum_ok : maskSumOK = true := by decide +kernel

theorem xor_lt_256 (a b : Nat) (ha : a < 256) : a ^^^ (b &&& 2 ^ k) < 256 ∨ 8 ≤ k := by
  by_cases hk : k < 8
  · left
    have h1 : b &&& 2 ^ k ≤ 2 ^ k := Nat.and_le_right
    have h2 : 2 ^ k < 2 ^ 8 := Nat.pow_lt_pow_right (by decide) hk
    exact Nat.xor_lt_two_pow (n := 8) ha (by omega)
  · right; omega

/-- the byte randomizer xors each byte with the DC byte -/
theorem randByte_eq (f dc : Nat) (hf : f < 256) (hdc : dc < 256) : randByte f dc = f ^^^ dc := by
  unfold randByte
  simp only [List.foldl]
  have e7 : (128 : Nat) = 2 ^ 7 := by decide
  have e6 : (64 : Nat) = 2 ^ 6 := by decide
  have e5 : (32 : Nat) = 2 ^ 5 := by decide
  have e4 : (16 : Nat) = 2 ^ 4 := by decide
  have e3 : (8 : Nat) = 2 ^ 3 := by decide
  have e2 : (4 : Nat) = 2 ^ 2 := by decide
  have e1 : (2 : Nat) = 2 ^ 1 := by decide
  have e0 : (1 : Nat) = 2 ^ 0 := by decide
  have l (a k : Nat) (hk : k < 8) (ha : a < 256) : a ^^^ (dc &&& 2 ^ k) < 256 := by
    rcases xor_lt_256 (k := k) a dc ha with h | h
    · exact h
    · omega
  rw [e7, randByteStep_eq f dc 7 hf (by decide)]
  have h7 := l f 7 (by decide) hf
  rw [e6, randByteStep_eq _ dc 6 h7 (by decide)]
  have h6 := l _ 6 (by decide) h7
  rw [e5, randByteStep_eq _ dc 5 h6 (by decide)]
  have h5 := l _ 5 (by decide) h6
  rw [e4, randByteStep_eq _ dc 4 h5 (by decide)]
  have h4 := l _ 4 (by decide) h5
  rw [e3, randByteStep_eq _ dc 3 h4 (by decide)]
  have h3 := l _ 3 (by decide) h4
  rw [e2, randByteStep_eq _ dc 2 h3 (by decide)]
  have h2 := l _ 2 (by decide) h3
  rw [e1, randByteStep_eq _ dc 1 h2 (by decide)]
  have h1 := l _ 1 (by decide) h2
  rw [e0, randByteStep_eq _ dc 0 h1 (by decide)]
  have hs := M17.Bits.all_range maskSum_ok hdc
  simp only [beq_iff_eq] at hs
  have : f ^^^ (dc &&& 2 ^ 7) ^^^ (dc &&& 2 ^ 6) ^^^ (dc &&& 2 ^ 5) ^^^ (dc &&& 2 ^ 4) ^^^ (dc &&& 2 ^ 3) ^^^
      (dc &&& 2 ^ 2) ^^^ (dc &&& 2 ^ 1) ^^^ (dc &&& 2 ^ 0) =
      f ^^^ ((dc &&& 128) ^^^ (dc &&& 64) ^^^ (dc &&& 32) ^^^ (dc &&& 16) ^^^ (dc &&& 8) ^^^ (dc &&& 4) ^^^ (dc &&& 2) ^^^ (dc &&& 1)) := by
    simp only [← e7, ← e6, ← e5, ← e4, ← e3, ← e2, ← e1, ← e0]
    ac_rfl
  rw [this, hs]

def dcBytesOK : Bool := Gen.randDC.all fun d => decide (d < 256)
theorem dcBytes_ok : dcBytesOK = true := by decide

/-- the byte randomizer flips exactly the bits where the DC sequence has a one -/
theorem randBytes_bit (bs : List Nat) (hb : AllBytes bs) (i : Nat) (hi : i < 8 * bs.length) (hi2 : i < 368) :
    getBit (randBytes bs) i = (getBit bs i ^^ dcBit i) := by
  have hlen : i / 8 < bs.length := by omega
  unfold randBytes getBit dcBit getBit
  simp only [List.getD_eq_getElem?_getD, List.getElem?_map, List.getElem?_zipIdx, Nat.zero_add]
  have hget : bs[i / 8]? = some bs[i / 8] := List.getElem?_eq_getElem hlen
  rw [hget]
  simp only [Option.map_some, Option.getD_some]
  have hbl : bs[i / 8] < 256 := hb _ (List.getElem_mem _)
  have hdl : Gen.randDC[i / 8]?.getD 0 < 256 := by
    have hh := dcBytes_ok
    unfold dcBytesOK at hh
    rw [List.all_eq_true] at hh
    cases hq : Gen.randDC[i / 8]? with
    | none => simp
    | some d =>
      have := hh d (List.mem_of_getElem? hq)
      simpa using this
  rw [randByte_eq _ _ hbl hdl, Nat.testBit_xor]

theorem rand_bytes_involutive_bit (bs : List Nat) (hb : AllBytes bs) (i : Nat) (hi : i < 8 * bs.length) (hi2 : i < 368)
    (hb2 : AllBytes (randBytes bs)) :
    getBit (randBytes (randBytes bs)) i = getBit bs i := by
  have hl : (randBytes bs).length = bs.length := by simp [randBytes]
  rw [randBytes_bit _ hb2 i (by omega) hi2, randBytes_bit _ hb i hi hi2]
  cases getBit bs i <;> cases dcBit i <;> rfl

/-- soft value of a bit at magnitude `m`: positive = 1 -/
def softOf (m : Int) (b : Bool) : Int := if b then m else -m

/-- the three randomizer variants agree: sign-flipping the soft value of a bit = soft value of the
    xor-ed bit; xor on a 0/1 array = xor-ed bit; byte xor = xor-ed bit (`randBytes_bit`) -/
theorem rand_variants_agree (m : Int) (hm1 : 1 ≤ m) (hm2 : m ≤ 127) (b : Bool) (i : Nat) :
    narrow8 (softOf m b * dcSign i) = softOf m (b ^^ dcBit i) ∧
    xorLsb (if b then 1 else 0) (dcSign i = -1) = (if (b ^^ dcBit i) then 1 else 0) := by
  unfold dcSign softOf xorLsb narrow8
  cases b <;> cases dcBit i <;> simp <;> omega

/-! ## non-vacuity -/
example : Bij index invIndex 368 := index_perm
example : index 1 = 137 ∧ invIndex 137 = 1 := by decide +kernel

end M17.C10

/-
C17 — callsign codec: lossless for valid callsigns, terminated for any address.
-/
import M17.Model.Callsign

namespace M17.C17
open M17.Call

/-! ## bridge lemmas -/

/-- the decode table of the current header is the M17 alphabet (digit 0 is never produced for a valid callsign) -/
theorem gen_alphabet : Gen.callAlphabet.drop 1 = "ABCDEFGHIJKLMNOPQRSTUVWXYZ0123456789-/.".toList.map Char.toNat := by decide
theorem gen_broadcast : Gen.callBroadcast = "BROADCAST".toList.map Char.toNat ++ [0] ∧ Gen.callBroadcastAddr = List.replicate 6 255
    ∧ Gen.callLen = 10 := by decide

/-! ## characters -/

/-- the M17 callsign alphabet: A–Z, 0–9, '-', '/', '.' -/
def validChar (c : Nat) : Bool :=
  (65 ≤ c && c ≤ 90) || (48 ≤ c && c ≤ 57) || c == 45 || c == 47 || c == 46

def charTableOK : Bool := (List.range 128).all fun c =>
  !validChar c || (decide (1 ≤ charVal c) && decide (charVal c ≤ 39) && valChar (charVal c) == c && c != 0)

theorem charTable_ok : charTableOK = true := by decide +kernel

theorem valid_facts (c : Nat) (h : validChar c = true) :
    1 ≤ charVal c ∧ charVal c ≤ 39 ∧ valChar (charVal c) = c ∧ c ≠ 0 := by
  have hc : c < 128 := by
    unfold validChar at h
    simp only [Bool.or_eq_true, Bool.and_eq_true, decide_eq_true_eq, beq_iff_eq] at h
    omega
  have := charTable_ok
  unfold charTableOK at this
  rw [List.all_eq_true] at this
  have := this c (List.mem_range.mpr hc)
  simp only [Bool.or_eq_true, Bool.not_eq_true', Bool.and_eq_true, decide_eq_true_eq, beq_iff_eq, bne_iff_ne, ne_eq] at this
  rcases this with h0 | h1
  · rw [h] at h0; exact absurd h0 (by simp)
  · exact ⟨h1.1.1.1, h1.1.1.2, h1.1.2, h1.2⟩

/-- strict mode accepts exactly the arrays made of alphabet characters only, and then returns the non-strict result -/
theorem charVal_ne_zero_iff (c : Nat) : (charVal c != 0) = validChar c := by
  unfold charVal validChar
  by_cases h1 : 65 ≤ c ∧ c ≤ 90
  · have : c - 65 + 1 ≠ 0 := by omega
    simp [h1, this]
  · by_cases h2 : 48 ≤ c ∧ c ≤ 57
    · have : c - 48 + 27 ≠ 0 := by omega
      have h1' : ¬ (65 ≤ c ∧ c ≤ 90) := h1
      simp [h1', h2, this]
    · by_cases h3 : c = 45
      · subst h3; decide
      · by_cases h4 : c = 47
        · subst h4; decide
        · by_cases h5 : c = 46
          · subst h5; decide
          · simp only [h1, h2, h3, h4, h5, if_false]
            have a1 : (decide (65 ≤ c) && decide (c ≤ 90)) = false := by
              rcases Nat.lt_or_ge c 65 with h | h
              · simp; omega
              · have : ¬ c ≤ 90 := fun h' => h1 ⟨h, h'⟩
                simp [this]
            have a2 : (decide (48 ≤ c) && decide (c ≤ 57)) = false := by
              rcases Nat.lt_or_ge c 48 with h | h
              · simp; omega
              · have : ¬ c ≤ 57 := fun h' => h2 ⟨h, h'⟩
                simp [this]
            simp [a1, a2, h3, h4, h5]

theorem encodeStrict_spec (call a : List Nat) :
    encodeStrict call = some a ↔ (∀ c ∈ call, validChar c = true) ∧ a = encode call := by
  unfold encodeStrict
  have : call.all (fun c => charVal c != 0) = call.all validChar := by
    congr 1; funext c; exact charVal_ne_zero_iff c
  rw [this]
  by_cases h : call.all validChar = true
  · simp only [h, if_true, Option.some.injEq]
    rw [List.all_eq_true] at h
    exact ⟨fun e => ⟨h, e.symm⟩, fun e => e.2.symm⟩
  · simp only [h, if_false]
    constructor
    · intro e; cases e
    · intro e; exact absurd (List.all_eq_true.mpr e.1) h

theorem charVal_le (c : Nat) : charVal c ≤ 39 := by
  unfold charVal; split
  · omega
  · split
    · omega
    · split
      · omega
      · split
        · omega
        · split <;> omega

def alphaNonzeroOK : Bool := (List.range 40).all fun d => valChar d != 0
theorem alphaNonzero_ok : alphaNonzeroOK = true := by decide +kernel

theorem valChar_ne_zero (d : Nat) (hd : d < 40) : valChar d ≠ 0 := by
  have := alphaNonzero_ok
  unfold alphaNonzeroOK at this
  rw [List.all_eq_true] at this
  simpa using this d (List.mem_range.mpr hd)

/-! ## base-40 arithmetic -/

/-- value of little-endian base-40 digits -/
def horner : List Nat → Nat
  | [] => 0
  | d :: ds => d + 40 * horner ds

theorem horner_lt (ds : List Nat) (h : ∀ d ∈ ds, d ≤ 39) : horner ds < 40 ^ ds.length := by
  induction ds with
  | nil => simp [horner]
  | cons d ds ih =>
    have h1 := ih (fun x hx => h x (List.mem_cons_of_mem _ hx))
    have h2 := h d (List.mem_cons_self)
    simp only [horner, List.length_cons, Nat.pow_succ]
    omega

theorem horner_append_zeros (ds : List Nat) (k : Nat) : horner (ds ++ List.replicate k 0) = horner ds := by
  induction ds with
  | nil =>
    induction k with
    | zero => rfl
    | succ k ih => simp only [List.nil_append] at ih ⊢; rw [List.replicate_succ]; simp [horner, ih]
  | cons d ds ih => simp only [List.cons_append, horner, ih]

/-- the code's accumulation loop over the reversed array, with `uint64_t` wrap, is Horner's rule
    (no wrap can occur for at most 10 characters) -/
theorem encode_value (call : List Nat) (hlen : call.length ≤ 10) :
    call.reverse.foldl (fun acc c => (acc * 40 + charVal c) % 2 ^ 64) 0 = horner (call.map charVal) := by
  rw [List.foldl_reverse]
  induction call with
  | nil => rfl
  | cons c cs ih =>
    simp only [List.foldr, List.map, horner]
    rw [ih (by simp at hlen; omega)]
    have hb := horner_lt (cs.map charVal) (by
      intro d hd; simp only [List.mem_map] at hd; obtain ⟨x, _, rfl⟩ := hd; exact charVal_le x)
    have hc := charVal_le c
    have hl : cs.length ≤ 9 := by simp at hlen; omega
    have hp : 40 ^ (cs.map charVal).length ≤ 40 ^ 9 := Nat.pow_le_pow_right (by decide) (by simpa using hl)
    have h9 : (40 : Nat) ^ 9 = 262144000000000 := by decide
    rw [Nat.mod_eq_of_lt (by omega)]
    omega

theorem bytes_roundtrip (v : Nat) (hv : v < 2 ^ 48) : fromBytes (toBytes v) = v := by
  unfold fromBytes toBytes
  simp only [List.getD_cons_zero, List.getD_cons_succ]
  omega

theorem digits_of_horner (ds : List Nat) (h : ∀ d ∈ ds, 1 ≤ d ∧ d ≤ 39) (fuel : Nat) (hf : ds.length ≤ fuel) :
    digitsGo fuel (horner ds) = ds.map valChar := by
  induction ds generalizing fuel with
  | nil => cases fuel <;> simp [digitsGo, horner]
  | cons d ds ih =>
    cases fuel with
    | zero => simp at hf
    | succ fuel =>
      have hd := h d List.mem_cons_self
      show digitsGo (fuel + 1) (d + 40 * horner ds) = valChar d :: ds.map valChar
      simp only [digitsGo]
      have hne : ¬ (d + 40 * horner ds = 0) := by omega
      rw [if_neg hne]
      have h1 : (d + 40 * horner ds) % 40 = d := by omega
      have h2 : (d + 40 * horner ds) / 40 = horner ds := by omega
      rw [h1, h2, ih (fun x hx => h x (List.mem_cons_of_mem _ hx)) fuel (by simpa using hf)]

/-! ## the property -/

/-- **encoding a valid callsign of 1–9 characters and decoding it returns the same `call_t`** -/
theorem roundtrip (cs : List Nat) (hv : ∀ c ∈ cs, validChar c = true) (h1 : 1 ≤ cs.length) (h9 : cs.length ≤ 9) :
    decode (encode (pad cs)) = pad cs ∧ cString (decode (encode (pad cs))) = cs := by
  have hpl : (pad cs).length = 10 := by unfold pad; simp; omega
  have hval : (pad cs).reverse.foldl (fun acc c => (acc * 40 + charVal c) % 2 ^ 64) 0 = horner (cs.map charVal) := by
    rw [encode_value _ (by omega)]
    unfold pad
    rw [List.map_append, List.map_replicate]
    have : charVal 0 = 0 := by decide
    rw [this, horner_append_zeros]
  have hds : ∀ d ∈ cs.map charVal, 1 ≤ d ∧ d ≤ 39 := by
    intro d hd; simp only [List.mem_map] at hd; obtain ⟨x, hx, rfl⟩ := hd
    have := valid_facts x (hv x hx); exact ⟨this.1, this.2.1⟩
  have hlt : horner (cs.map charVal) < 40 ^ 9 := by
    have := horner_lt (cs.map charVal) (fun d hd => (hds d hd).2)
    have hp : 40 ^ (cs.map charVal).length ≤ 40 ^ 9 := Nat.pow_le_pow_right (by decide) (by simpa using h9)
    omega
  have h409 : (40 : Nat) ^ 9 = 262144000000000 := by decide
  have hlt48 : horner (cs.map charVal) < 2 ^ 48 := by omega
  have hdec : decode (encode (pad cs)) = pad cs := by
    unfold decode encode
    rw [hval]
    have hnb : toBytes (horner (cs.map charVal)) ≠ Gen.callBroadcastAddr := by
      intro hb
      have := bytes_roundtrip _ hlt48
      rw [hb] at this
      have hbv : fromBytes Gen.callBroadcastAddr = 281474976710655 := by decide
      omega
    rw [if_neg hnb]
    simp only [bytes_roundtrip _ hlt48]
    rw [digits_of_horner _ hds 9 (by simpa using h9)]
    unfold pad
    simp only [List.map_map, List.length_map]
    congr 1
    apply List.ext_getElem (by simp)
    intro i hi1 hi2
    simp only [List.getElem_map, Function.comp]
    exact (valid_facts _ (hv _ (List.getElem_mem _))).2.2.1
  refine ⟨hdec, ?_⟩
  rw [hdec]
  unfold cString pad
  rw [List.takeWhile_append_of_pos]
  · have : 10 - cs.length = (10 - cs.length - 1) + 1 := by omega
    rw [this, List.replicate_succ]; simp
  · intro c hc
    simpa using (valid_facts c (hv c hc)).2.2.2

/-- **distinct callsigns get distinct addresses** -/
theorem encode_injective (a b : List Nat) (ha : ∀ c ∈ a, validChar c = true) (hb : ∀ c ∈ b, validChar c = true)
    (ha1 : 1 ≤ a.length) (ha9 : a.length ≤ 9) (hb1 : 1 ≤ b.length) (hb9 : b.length ≤ 9)
    (h : encode (pad a) = encode (pad b)) : a = b := by
  have h1 := (roundtrip a ha ha1 ha9).2
  have h2 := (roundtrip b hb hb1 hb9).2
  rw [h] at h1
  rw [← h1, h2]

/-- **the all-ones address decodes to BROADCAST** -/
theorem decode_broadcast : decode (List.replicate 6 255) = "BROADCAST".toList.map Char.toNat ++ [0] := by decide +kernel

/-- a valid callsign never encodes to the broadcast address -/
theorem encode_valid_ne_broadcast (cs : List Nat) (hv : ∀ c ∈ cs, validChar c = true) (h1 : 1 ≤ cs.length)
    (h9 : cs.length ≤ 9) : encode (pad cs) ≠ List.replicate 6 255 := by
  intro hb
  have := (roundtrip cs hv h1 h9).2
  rw [hb, decode_broadcast] at this
  -- the decoded string would be "BROADCAST", whose encoding is not the broadcast address
  rw [← this] at hb
  revert hb; decide +kernel

theorem digitsGo_props (fuel v : Nat) : (digitsGo fuel v).length ≤ fuel ∧ ∀ c ∈ digitsGo fuel v, c ≠ 0 := by
  induction fuel generalizing v with
  | zero => simp [digitsGo]
  | succ fuel ih =>
    simp only [digitsGo]
    split
    · simp
    · obtain ⟨h1, h2⟩ := ih (v / 40)
      refine ⟨by simp; omega, ?_⟩
      intro c hc
      rcases List.mem_cons.mp hc with rfl | hc
      · exact valChar_ne_zero _ (Nat.mod_lt _ (by decide))
      · exact h2 c hc

theorem broadcast_props : Gen.callBroadcast.length = 10 ∧ Gen.callBroadcast.getD 9 1 = 0 ∧
    ((List.range 9).all fun i => Gen.callBroadcast.getD i 0 != 0) = true := by decide +kernel

theorem terminated_of_append (ds : List Nat) (hl : ds.length ≤ 9) (hnz : ∀ c ∈ ds, c ≠ 0) :
    (ds ++ List.replicate (10 - ds.length) 0).length = 10 ∧
    ∃ n, n ≤ 9 ∧ (ds ++ List.replicate (10 - ds.length) 0).getD n 1 = 0 ∧
      ∀ i, i < n → (ds ++ List.replicate (10 - ds.length) 0).getD i 0 ≠ 0 := by
  refine ⟨by simp; omega, ds.length, hl, ?_, ?_⟩
  · rw [List.getD_eq_getElem?_getD, List.getElem?_append_right (Nat.le_refl _)]
    have : 10 - ds.length = (9 - ds.length) + 1 := by omega
    rw [this, List.replicate_succ]; simp
  · intro i hi
    rw [List.getD_eq_getElem?_getD, List.getElem?_append_left hi]
    simp only [List.getElem?_eq_getElem hi, Option.getD_some]
    exact hnz _ (List.getElem_mem _)

theorem terminated_broadcast : Gen.callBroadcast.length = 10 ∧
    ∃ n, n ≤ 9 ∧ Gen.callBroadcast.getD n 1 = 0 ∧ ∀ i, i < n → Gen.callBroadcast.getD i 0 ≠ 0 := by
  obtain ⟨b1, b2, b3⟩ := broadcast_props
  refine ⟨b1, 9, Nat.le_refl _, b2, ?_⟩
  intro i hi
  rw [List.all_eq_true] at b3
  simpa using b3 i (List.mem_range.mpr hi)

/-- **decoding any address yields a NUL-terminated string of at most 9 characters in the 10-byte array** -/
theorem decode_terminated (addr : List Nat) :
    (decode addr).length = 10 ∧
    ∃ n, n ≤ 9 ∧ (decode addr).getD n 1 = 0 ∧ ∀ i, i < n → (decode addr).getD i 0 ≠ 0 := by
  by_cases hbc : addr = Gen.callBroadcastAddr
  · have hd : decode addr = Gen.callBroadcast := by unfold decode; rw [if_pos hbc]
    rw [hd]; exact terminated_broadcast
  · have hd : decode addr = digitsGo 9 (fromBytes addr) ++ List.replicate (10 - (digitsGo 9 (fromBytes addr)).length) 0 := by
      unfold decode; rw [if_neg hbc]
    rw [hd]
    exact terminated_of_append _ (digitsGo_props 9 _).1 (digitsGo_props 9 _).2

/-! ## the defect of the pinned loop, documented; non-vacuity -/

/-- the unbounded loop fills all ten characters for the address 40^9 = 0xEE6B28000000: no terminator -/
theorem pinned_decode_unterminated : ∀ c ∈ decodePinned [0xEE, 0x6B, 0x28, 0x00, 0x00, 0x00], c ≠ 0 := by decide +kernel

example : decode (encode (pad ("W1AW".toList.map Char.toNat))) = pad ("W1AW".toList.map Char.toNat) := by decide +kernel
example : validChar 65 = true ∧ validChar 46 = true ∧ validChar 32 = false := by decide

end M17.C17

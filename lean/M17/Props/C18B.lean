/-
C18 — BERT end to end: frames built from the PRBS9 generator, passed through the frame decoder and the application's BERT handler,
re-lock the validator with zero errors (composition of C01F.bert_roundtrip, byte packing/unpacking, locks_within_27 and exact_count).
-/
import M17.Props.C18
import M17.Props.C01F
import M17.Model.App

namespace M17.C18B
open M17.Prbs M17.C18 M17.Dec

/-! ## unpacking what `to_byte_array` packed -/

theorem byteOf_testBit : ∀ (c : List Bool), c.length ≤ 8 → ∀ j, j < 8 → (Bytes.byteOf c).testBit (7 - j) = c.getD j false
  | [], _ => by decide
  | [a], _ => by cases a <;> decide
  | [a, b], _ => by cases a <;> cases b <;> decide
  | [a, b, c], _ => by cases a <;> cases b <;> cases c <;> decide
  | [a, b, c, d], _ => by cases a <;> cases b <;> cases c <;> cases d <;> decide
  | [a, b, c, d, e], _ => by cases a <;> cases b <;> cases c <;> cases d <;> cases e <;> decide
  | [a, b, c, d, e, f], _ => by cases a <;> cases b <;> cases c <;> cases d <;> cases e <;> cases f <;> decide
  | [a, b, c, d, e, f, g], _ => by cases a <;> cases b <;> cases c <;> cases d <;> cases e <;> cases f <;> cases g <;> decide
  | [a, b, c, d, e, f, g, h], _ => by cases a <;> cases b <;> cases c <;> cases d <;> cases e <;> cases f <;> cases g <;> cases h <;> decide
  | _ :: _ :: _ :: _ :: _ :: _ :: _ :: _ :: _ :: _, h => by simp at h

/-- `get_bit_index` on the packed bytes returns the bits that were packed -/
theorem getBit_pack (bits : List Bool) (i : Nat) (hi : i < bits.length) : Bytes.getBit (Bytes.pack bits) i = bits.getD i false := by
  unfold Bytes.getBit Bytes.pack
  have hk : i / 8 < (bits.length + 7) / 8 := by omega
  rw [List.getD_eq_getElem?_getD, List.getElem?_map, List.getElem?_range hk]
  simp only [Option.map_some, Option.getD_some]
  rw [byteOf_testBit _ (by rw [List.length_take]; omega) (i % 8) (by omega)]
  rw [List.getD_eq_getElem?_getD, List.getElem?_take, if_pos (by omega), List.getElem?_drop, ← List.getD_eq_getElem?_getD]
  congr 1; omega

/-- the application's `decode_bert`: bytes 0..23 MSB first, then the top five bits of byte 24 -/
abbrev appBertBits (bytes : List Nat) : List Bool := App.bertBits bytes

theorem appBertBits_pack (bits : List Bool) (h : bits.length = 197) : appBertBits (Bytes.pack bits) = bits := by
  unfold appBertBits App.bertBits
  apply List.ext_getElem (by simp [h])
  intro i h1 h2
  simp only [List.getElem_map, List.getElem_range]
  rw [getBit_pack bits i h2]
  simp [List.getD_eq_getElem?_getD, h2]

/-! ## counters up to the moment of lock -/

theorem validate_unsynced_counts (s : St) (b : Bool) (h : s.synced = false) :
    (validate s b).1.errCount = s.errCount ∧
    ((validate s b).1.synced = false → (validate s b).1.bitCount = s.bitCount) ∧
    ((validate s b).1.synced = true → (validate s b).1.bitCount = (s.bitCount + 18) % 2 ^ 32) := by
  have hl : Gen.prbsLockCount = 18 := by decide
  unfold validate synchronize
  simp only [h, Bool.not_false, if_true, hl]
  by_cases hr : (b != fb s.state) = true
  · simp [hr, h]
  · have hr' : (b != fb s.state) = false := by simpa using hr
    by_cases hc : (s.syncCount + 1) % 256 = 18
    · simp [hr', hc]
    · simp [hr', hc, h]

/-- if the validator is unlocked before every proper prefix of `bits` and locked after all of them, the error count is untouched, the bit
    count has grown by the 18-bit lock run, and the error window is empty -/
theorem counts_at_lock : ∀ (bits : List Bool) (s : St), s.synced = false →
    (∀ m, m < bits.length → (run s (bits.take m)).synced = false) → (run s bits).synced = true →
    (run s bits).errCount = s.errCount ∧ (run s bits).bitCount = (s.bitCount + 18) % 2 ^ 32 ∧ Inv (run s bits) [] := by
  intro bits
  induction bits with
  | nil => intro s h _ hl; simp [run] at hl; rw [h] at hl; cases hl
  | cons b bs ih =>
    intro s h hpre hl
    obtain ⟨c1, c2, c3⟩ := validate_unsynced_counts s b h
    by_cases hs1 : (validate s b).1.synced = true
    · -- locked by the first bit: there is no further bit
      cases bs with
      | nil =>
        simp only [run, List.foldl]
        exact ⟨c1, c3 hs1, inv_at_lock s b h hs1⟩
      | cons b2 bs2 =>
        have := hpre 1 (by simp)
        simp only [List.take_succ_cons, List.take_zero, run, List.foldl] at this
        rw [this] at hs1; cases hs1
    · have hs1' : (validate s b).1.synced = false := by simpa using hs1
      have hpre' : ∀ m, m < bs.length → (run (validate s b).1 (bs.take m)).synced = false := by
        intro m hm
        have := hpre (m + 1) (by simp; omega)
        simpa only [List.take_succ_cons, run_cons] using this
      rw [run_cons] at hl ⊢
      obtain ⟨r1, r2, r3⟩ := ih (validate s b).1 hs1' hpre' hl
      exact ⟨by rw [r1, c1], by rw [r2, c2 hs1'], r3⟩

theorem genBits_take (n m g : Nat) (h : m ≤ n) : (genBits n g).take m = genBits m g := by
  have : n = m + (n - m) := by omega
  rw [this, genBits_add, List.take_append_of_le_length (by rw [genBits_length]; omega), List.take_of_length_le (by rw [genBits_length]; omega)]

theorem zipWith_false (l : List Bool) : List.zipWith (fun x y => x != y) l (List.replicate l.length false) = l := by
  induction l with
  | nil => rfl
  | cons a l ih => simp only [List.length_cons, List.replicate_succ, List.zipWith_cons_cons, ih]; simp

theorem ones_W_false (k j : Nat) : ones (W ([] ++ (List.replicate k false).take j)) = 0 := by
  unfold ones W
  rw [List.count_eq_zero]
  intro hmem
  have := List.mem_of_mem_drop hmem
  simp only [List.nil_append, List.take_replicate, List.mem_append, List.mem_replicate] at this
  rcases this with ⟨_, h⟩ | ⟨_, h⟩ <;> cases h

/-- **an error-free run of the sequence**: any phase, any unlocked validator whose run counter is 0 (after construction, `reset()` or an
    unlock): after `T ≥ 27` bits it is locked, has counted no error, and has counted the 18 lock bits plus every bit since the lock -/
theorem clean_run (v : St) (g0 T : Nat) (hv : v.synced = false) (hc : v.syncCount = 0) (hT : 27 ≤ T)
    (hE : v.errCount < 2 ^ 32) :
    ∃ n, 18 ≤ n ∧ n ≤ 27 ∧ (run v (genBits T g0)).synced = true ∧ (run v (genBits T g0)).errCount = v.errCount ∧
      (run v (genBits T g0)).bitCount = ((v.bitCount + 18) % 2 ^ 32 + (T - n)) % 2 ^ 32 ∧
      (run v (genBits T g0)).state = genState T g0 := by
  obtain ⟨n, n1, n2, n3, n4, n5⟩ := locks_within_27 v g0 hv hc
  have hpre : ∀ m, m < (genBits n g0).length → (run v ((genBits n g0).take m)).synced = false := by
    intro m hm
    rw [genBits_length] at hm
    rw [genBits_take n m g0 (by omega)]
    exact n5 m hm
  obtain ⟨k1, k2, k3⟩ := counts_at_lock (genBits n g0) v hv hpre n3
  have hsplit : T = n + (T - n) := by omega
  have hrun : run v (genBits T g0) = run (run v (genBits n g0)) (genBits (T - n) (genState n g0)) := by
    conv => lhs; rw [hsplit, genBits_add, run_append]
  have hex := exact_count (List.replicate (T - n) false) (run v (genBits n g0)) (genState n g0) [] n3 n4 k3
    (by rw [k1]; exact hE) (by rw [k2]; exact Nat.mod_lt _ (by decide))
    (by intro k _ _; rw [ones_W_false]; decide)
  simp only [List.length_replicate] at hex
  have hz := zipWith_false (genBits (T - n) (genState n g0))
  rw [genBits_length] at hz
  rw [hz] at hex
  obtain ⟨e1, e2, e3, e4, _⟩ := hex
  refine ⟨n, n1, n2, ?_, ?_, ?_, ?_⟩
  · rw [hrun]; exact e1
  · rw [hrun, e2, k1]
    have : ones (List.replicate (T - n) false) = 0 := by
      unfold ones; rw [List.count_eq_zero]; intro h; simp at h
    rw [this, Nat.add_zero, Nat.mod_eq_of_lt hE]
  · rw [hrun, e3, k2]
  · rw [hrun, e4, ← genState_add]; congr 1; omega

/-! ## through the frame decoder and the application handler -/

/-- one received BERT frame: `operator()(BERT sync)` then `decode_bert` on every callback -/
def rxFrame (st : DState × St) (frame : List Int) : DState × St :=
  let out := step st.1 .bert frame true
  (out.state, out.calls.foldl (fun v c => run v (appBertBits c.bytes)) st.2)

/-- `frames` are clean soft images of consecutive BERT frames cut from the generator's sequence starting at register value `g` -/
def BertFrames (lo : Int) : Nat → List (List Int) → Prop
  | g, f :: fs => C01F.SoftImage lo (Spec.Tx.bertFrameBits (genBits 197 g)) f ∧ BertFrames lo (genState 197 g) fs
  | _, [] => True

theorem rx_is_run (lo : Int) (hlo : 1 ≤ lo) : ∀ (fs : List (List Int)) (g : Nat) (σ : DState) (v : St), BertFrames lo g fs →
    (fs.foldl rxFrame (σ, v)).2 = run v (genBits (197 * fs.length) g) := by
  intro fs
  induction fs with
  | nil => intro g σ v _; rfl
  | cons f fs ih =>
    intro g σ v ⟨h1, h2⟩
    have hb := C01F.bert_roundtrip lo hlo σ (genBits 197 g) (genBits_length 197 g) f true h1
    have hstep : rxFrame (σ, v) f = ({ σ with mode := .bert }, run v (genBits 197 g)) := by
      unfold rxFrame
      simp only [hb, List.foldl, appBertBits_pack _ (genBits_length 197 g)]
    simp only [List.foldl, hstep]
    rw [ih (genState 197 g) _ _ h2]
    have : 197 * (f :: fs).length = 197 + 197 * fs.length := by simp only [List.length_cons]; omega
    rw [this, genBits_add, run_append]

/-- **BERT end to end**: clean frames cut from any phase of the PRBS9 sequence, decoded by the frame decoder from ANY state and fed by the
    application handler to ANY freshly unlocked validator, lock it within the first frame and yield zero errors for ever after; the bit
    count is the 18-bit lock run plus every bit since -/
theorem bert_end_to_end (lo : Int) (hlo : 1 ≤ lo) (fs : List (List Int)) (g0 : Nat) (σ : DState) (v : St)
    (hF : BertFrames lo g0 fs) (hN : 1 ≤ fs.length) (hv : v.synced = false) (hc : v.syncCount = 0) (hE : v.errCount < 2 ^ 32) :
    ∃ n, 18 ≤ n ∧ n ≤ 27 ∧ (fs.foldl rxFrame (σ, v)).2.synced = true ∧ (fs.foldl rxFrame (σ, v)).2.errCount = v.errCount ∧
      (fs.foldl rxFrame (σ, v)).2.bitCount = ((v.bitCount + 18) % 2 ^ 32 + (197 * fs.length - n)) % 2 ^ 32 := by
  rw [rx_is_run lo hlo fs g0 σ v hF]
  obtain ⟨n, a, b, c, d, e, _⟩ := clean_run v g0 (197 * fs.length) hv hc (by omega) hE
  exact ⟨n, a, b, c, d, e⟩

/-! ## non-vacuity: the constructed validator meets the hypotheses -/
example : Prbs.init.synced = false ∧ Prbs.init.syncCount = 0 ∧ Prbs.init.errCount < 2 ^ 32 := by decide

end M17.C18B

/-
C19 (extension) — the IIR filter realises its difference equation at EVERY time index, for EVERY input sequence and from
EVERY internal state (no "from rest" hypothesis), in exact arithmetic over any commutative ring.
-/
import M17.Props.C19

namespace M17.C19I
open M17.Dsp Lean.Grind

variable {α : Type} [CommRing α]

/-- run the filter over an input list, collecting the outputs -/
def iirRun (f : Iir3 α) : List α → Iir3 α × List α
  | [] => (f, [])
  | x :: xs => let s := f.step x; let r := iirRun s.1 xs; (r.1, s.2 :: r.2)

theorem iirRun_length (xs : List α) : ∀ f : Iir3 α, (iirRun f xs).2.length = xs.length := by
  induction xs with
  | nil => intro f; rfl
  | cons x xs ih => intro f; simp [iirRun, ih]

/-- the coefficients never change -/
theorem step_coeffs (f : Iir3 α) (x : α) : (f.step x).1.a = f.a ∧ (f.step x).1.b = f.b := ⟨rfl, rfl⟩

/-- three consecutive calls from ANY state satisfy the difference equation
    y[n] + a1·y[n−1] + a2·y[n−2] = b0·x[n] + b1·x[n−1] + b2·x[n−2] -/
theorem iir_three_any_state (f : Iir3 α) (x0 x1 x2 : α) :
    let s0 := f.step x0; let s1 := s0.1.step x1; let s2 := s1.1.step x2
    s2.2 + f.a.2.1 * s1.2 + f.a.2.2 * s0.2 = f.b.1 * x2 + f.b.2.1 * x1 + f.b.2.2 * x0 := by
  simp only [Iir3.step]
  grind

/-- every window of three consecutive samples of every run, from every initial state, satisfies the difference equation -/
theorem iir_difference_equation_all (xs : List α) : ∀ (f : Iir3 α) (n : Nat), n + 2 < xs.length →
    (iirRun f xs).2.getD (n + 2) 0 + f.a.2.1 * (iirRun f xs).2.getD (n + 1) 0 + f.a.2.2 * (iirRun f xs).2.getD n 0 =
      f.b.1 * xs.getD (n + 2) 0 + f.b.2.1 * xs.getD (n + 1) 0 + f.b.2.2 * xs.getD n 0 := by
  induction xs with
  | nil => intro f n h; simp at h
  | cons x0 xs ih =>
    intro f n h
    cases n with
    | succ m =>
      have := ih (f.step x0).1 m (by simp at h; omega)
      rw [(step_coeffs f x0).1, (step_coeffs f x0).2] at this
      simpa [iirRun, List.getD_cons_succ] using this
    | zero =>
      match xs, h with
      | x1 :: x2 :: rest, _ =>
        have := iir_three_any_state f x0 x1 x2
        simpa [iirRun] using this

/-- the first two outputs from rest: y[0] = b0·x[0], y[1] + a1·y[0] = b0·x[1] + b1·x[0] (zero initial conditions) -/
theorem iir_start_from_rest (f : Iir3 α) (x0 x1 : α) (hrest : f.w1 = 0 ∧ f.w2 = 0) :
    let s0 := f.step x0; let s1 := s0.1.step x1
    s0.2 = f.b.1 * x0 ∧ s1.2 + f.a.2.1 * s0.2 = f.b.1 * x1 + f.b.2.1 * x0 := by
  obtain ⟨h1, h2⟩ := hrest
  simp only [Iir3.step, h1, h2]
  constructor <;> grind

/-- non-vacuity: a concrete filter and input over `Int` -/
example : (iirRun ({ b := (1, 2, 3), a := (1, -1, 2), w1 := 5, w2 := -7 } : Iir3 Int) [1, 2, 3, 4]).2 = [9, 67, 59, -59] := by decide

end M17.C19I

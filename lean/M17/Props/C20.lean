/-
C20 — decision logic of m17-demod's link report, for all inputs.
-/
import M17.Model.App
import M17.Spec.Tx
import M17.Props.C17

namespace M17.C20
open M17.App

/-- the TYPE field the transmitter builds for a voice stream is reported as a voice stream, for every CAN -/
theorem type_report_voice (can : Nat) : typeName (Spec.Tx.voiceType can) = "STR:V/V" := by
  unfold typeName Spec.Tx.voiceType
  have h1 : (5 + 128 * can) % 2 = 1 := by omega
  have h2 : (5 + 128 * can) / 2 % 4 = 2 := by omega
  simp only [h1, ↓reduceIte, h2]
  decide

/-- … and the CAN printed is the transmitter's -/
theorem can_report (can : Nat) (h : can < 16) : canField (Spec.Tx.voiceType can) = can := by
  unfold canField Spec.Tx.voiceType; omega

/-- … and the LSF handler never enters packet mode for it: no packet diagnostics for a voice stream -/
theorem voice_lsf_is_stream (can : Nat) :
    isPacket (Spec.Tx.voiceType can % 256) = false ∧ packetDiag (Spec.Tx.voiceType can % 256) = "" := by
  have h1 : (Spec.Tx.voiceType can % 256) % 2 = 1 := by unfold Spec.Tx.voiceType; omega
  have hp : isPacket (Spec.Tx.voiceType can % 256) = false := by unfold isPacket; rw [h1]; decide
  exact ⟨hp, by unfold packetDiag; rw [hp]; rfl⟩

/-- the report classifies every TYPE value as one of seven texts, and the CAN field is 0..15 -/
theorem type_report_total (t : Nat) :
    typeName t ∈ ["STR:UNK", "STR:D/D", "STR:V/V", "STR:V/D", "PKT:UNK", "PKT:RAW", "PKT:ENC"] ∧ canField t < 16 := by
  refine ⟨?_, by unfold canField; omega⟩
  unfold typeName
  have h4 : t / 2 % 4 < 4 := Nat.mod_lt _ (by decide)
  split
  · generalize t / 2 % 4 = k at h4
    match k, h4 with
    | 0, _ => decide
    | 1, _ => decide
    | 2, _ => decide
    | 3, _ => decide
  · generalize t / 2 % 4 = k at h4
    match k, h4 with
    | 0, _ => decide
    | 1, _ => decide
    | 2, _ => decide
    | 3, _ => decide

/-- the callsign printed for an address is the callsign that was encoded (C17's round trip, through the way the
    application prints a `call_t`) -/
theorem callsign_report (cs : List Nat) (hv : ∀ c ∈ cs, C17.validChar c = true) (h1 : 1 ≤ cs.length) (h9 : cs.length ≤ 9) :
    printed (Call.decode (Call.encode (Call.pad cs))) = cs := by
  rw [(C17.roundtrip cs hv h1 h9).1]
  unfold printed Call.pad
  rw [List.filter_append]
  have hz : (List.replicate (10 - cs.length) 0).filter (· ≠ 0) = [] := by
    rw [List.filter_eq_nil_iff]; intro a ha; simp only [List.mem_replicate] at ha; simp [ha.2]
  rw [hz, List.append_nil, List.filter_eq_self]
  intro c hc
  have := (C17.valid_facts c (hv c hc))
  simp only [ne_eq, decide_not, Bool.not_eq_eq_eq_not, Bool.not_true, decide_eq_false_iff_not]
  intro h0
  subst h0
  exact absurd (hv 0 hc) (by decide)

/-- audio output: 640 bytes per delivered stream frame, whatever the costs and the noise-blanker setting -/
theorem audio_bytes_multiple_of_640 (nb : Bool) (costs : List Nat) :
    (costs.map (audioBytes nb)).sum = 640 * costs.length := by
  induction costs with
  | nil => rfl
  | cons c cs ih =>
    simp only [List.map_cons, List.sum_cons, List.length_cons, ih]
    unfold audioBytes; split <;> omega

end M17.C20

/-
C03 — the demodulator's sync/frame state machine keeps frame boundaries exact in stream reception, for every signal.
Theorems about the control skeleton `M17.Demod.step` under ALL event sequences (the analog parts are the events);
the real demodulator's traces are checked to be traces of this skeleton on every run (tools/props/c03.py).
-/
import M17.Model.Demod
namespace M17.C03
open M17.Demod

theorem gen_consts : MINS = 78 ∧ MAXS = 86 ∧ MAXMISS = 10 ∧ SCOST = 80 ∧ PCOST = 60 ∧ BLK = 192 := by decide

def FInv (s : St) : Prop :=
  s.fi % 2 = 0 ∧ s.fi < 368 ∧ (s.dcd = false → s.st = 0) ∧ (s.fi ≠ 0 → s.st = 6 ∨ (s.st = 0 ∧ s.dcd = false))

theorem updateDcd_finv (s : St) (d : Bool) (h : FInv s) : FInv (updateDcd s d) := by
  obtain ⟨h1, h2, h3, h4⟩ := h
  simp only [updateDcd, FInv]
  split
  · split <;> simp_all
  · split <;> simp_all

/-- the part of a state the framer invariant talks about -/
def Core (s : St) : Nat × Nat × Bool := (s.fi, s.st, s.dcd)

theorem finv_of_core (s t : St) (h : FInv s) (hc : t.fi = s.fi ∧ t.st = s.st ∧ t.dcd = s.dcd) : FInv t := by
  unfold FInv at *; rw [hc.1, hc.2.1, hc.2.2]; exact h

theorem doUnlocked_finv (s : St) (e : Ev) (hd : s.dcd = true) (hs : s.st = 0) (h : FInv s) : FInv (doUnlocked s e) := by
  obtain ⟨h1, h2, h3, h4⟩ := h
  have hf : s.fi = 0 := by
    by_cases hf : s.fi = 0
    · exact hf
    · rcases h4 hf with h | h <;> simp_all
  simp only [doUnlocked, FInv]
  split
  · split <;> simp_all
  · split <;> split <;> simp_all

theorem doLsfSync_finv (s : St) (e : Ev) (hd : s.dcd = true) (hs : s.st = 1) (h : FInv s) : FInv (doLsfSync s e) := by
  obtain ⟨h1, h2, h3, h4⟩ := h
  have hf : s.fi = 0 := by
    by_cases hf : s.fi = 0
    · exact hf
    · rcases h4 hf with h | h <;> simp_all
  simp only [doLsfSync, FInv]
  repeat' split
  all_goals simp_all

theorem doStreamSync_finv (s : St) (e : Ev) (hd : s.dcd = true) (hs : s.st = 2) (h : FInv s) : FInv (doStreamSync s e) := by
  obtain ⟨h1, h2, h3, h4⟩ := h
  have hf : s.fi = 0 := by
    by_cases hf : s.fi = 0
    · exact hf
    · rcases h4 hf with h | h <;> simp_all
  simp only [doStreamSync, FInv]
  repeat' split
  all_goals simp_all

theorem doPacketSync_finv (b : Bool) (s : St) (e : Ev) (hd : s.dcd = true) (hs : s.st = 3 ∨ s.st = 4) (h : FInv s) : FInv (doPacketSync b s e) := by
  obtain ⟨h1, h2, h3, h4⟩ := h
  have hf : s.fi = 0 := by
    by_cases hf : s.fi = 0
    · exact hf
    · rcases h4 hf with h | h <;> rcases hs with hs | hs <;> simp_all
  simp only [doPacketSync, FInv]
  repeat' split
  all_goals simp_all

theorem doSyncWait_finv (s : St) (hd : s.dcd = true) (hs : s.st = 5) (h : FInv s) : FInv (doSyncWait s) := by
  obtain ⟨h1, h2, h3, h4⟩ := h
  have hf : s.fi = 0 := by
    by_cases hf : s.fi = 0
    · exact hf
    · rcases h4 hf with h | h <;> simp_all
  simp only [doSyncWait, FInv]
  split <;> simp_all

theorem doFrame_finv (s : St) (e : Ev) (hd : s.dcd = true) (hs : s.st = 6) (h : FInv s) : FInv (doFrame s e) := by
  obtain ⟨h1, h2, h3, h4⟩ := h
  simp only [doFrame, FInv]
  repeat' split
  all_goals simp_all
  all_goals omega

theorem advance_core (s : St) : (advance s).fi = s.fi ∧ (advance s).st = s.st ∧ (advance s).dcd = s.dcd := by
  simp only [advance]
  split
  · split
    · exact ⟨rfl, rfl, rfl⟩
    · split <;> exact ⟨rfl, rfl, rfl⟩
  · exact ⟨rfl, rfl, rfl⟩

theorem dispatch_finv (m : St) (e : Ev) (hmd : m.dcd = true) (hmi : FInv m) : FInv (dispatch m e) := by
  unfold dispatch
  split
  · exact doUnlocked_finv m e hmd (by assumption) hmi
  · exact doLsfSync_finv m e hmd (by assumption) hmi
  · exact doStreamSync_finv m e hmd (by assumption) hmi
  · exact doPacketSync_finv false m e hmd (Or.inl (by assumption)) hmi
  · exact doPacketSync_finv true m e hmd (Or.inr (by assumption)) hmi
  · exact doSyncWait_finv m hmd (by assumption) hmi
  · exact doFrame_finv m e hmd (by assumption) hmi
  · exact hmi

theorem step_finv (s : St) (e : Ev) (h : FInv s) : FInv (step s e) := by
  unfold step
  have ht : FInv (tick s) := finv_of_core s _ h ⟨rfl, rfl, rfl⟩
  simp only []
  split
  · split
    · exact finv_of_core _ _ (updateDcd_finv _ e.det ht) ⟨rfl, rfl, rfl⟩
    · exact ht
  · rename_i hd
    have hd' : (tick s).dcd = true := by simpa using hd
    have ha : FInv (advance (tick s)) := finv_of_core _ _ ht (advance_core _)
    have hsw := dispatch_finv (advance (tick s)) e (by rw [(advance_core _).2.2]; exact hd') ha
    split
    · exact finv_of_core _ _ (updateDcd_finv _ e.det hsw) ⟨rfl, rfl, rfl⟩
    · exact hsw

theorem init_finv : FInv init := by simp [FInv, init]

/-- **framer invariant, every reachable state**: whatever the signal does, the framer fill index is even and below 368, and it is
    non-zero only while a frame is being collected (state FRAME) or after carrier loss — in which case carrier detect resets it before
    the next frame starts.  So each 368-soft-bit frame handed to the decoder is 184 consecutive symbols of one FRAME episode. -/
theorem run_finv (es : List Ev) : FInv (run init es) := by
  suffices h : ∀ s, FInv s → FInv (run s es) from h init init_finv
  induction es with
  | nil => intro s h; exact h
  | cons e es ih => intro s h; exact ih _ (step_finv s e h)

/-! ## the inter-frame schedule in stream reception -/

theorem hMINS : MINS = 78 := gen_consts.1
theorem hMAXS : MAXS = 86 := gen_consts.2.1

/-- events of a sample in which the end-of-transmission correlator does not fire and carrier detect stays asserted -/
def Quiet (e : Ev) : Prop := e.eotTrig = false ∧ e.det = true

theorem updateDcd_quiet (s : St) (hd : s.dcd = true) : updateDcd s true = s := by
  simp [updateDcd, hd]

/-- the fields the schedule argument follows -/
structure Same (a b : St) : Prop where
  si : a.si = b.si
  ci : a.ci = b.ci
  fi : a.fi = b.fi
  fr : a.frames = b.frames
  dcd : a.dcd = b.dcd
  ncr : a.ncr = b.ncr

theorem doStreamSync_spec (s : St) (e : Ev) (he : e.eotTrig = false) :
    Same (doStreamSync s e) s ∧ (doStreamSync s e).sc = s.sc + 1 ∧
    ((doStreamSync s e).st = s.st ∧ s.sc + 1 ≤ 86 ∨ (doStreamSync s e).st = 5 ∧ 78 ≤ s.sc + 1 ∨
     (doStreamSync s e).st = 6 ∧ 86 < s.sc + 1 ∨ (doStreamSync s e).st = 0 ∧ 78 ≤ s.sc + 1) := by
  simp only [doStreamSync, hMINS, hMAXS, he]
  repeat' split
  all_goals (refine ⟨⟨rfl, rfl, rfl, rfl, rfl, rfl⟩, rfl, ?_⟩)
  all_goals simp_all
  all_goals omega

theorem doSyncWait_spec (s : St) :
    Same (doSyncWait s) s ∧ ((doSyncWait s).st = s.st ∧ (doSyncWait s).sc = s.sc + 1 ∧ s.sc < 86 ∨ (doSyncWait s).st = 6 ∧ 86 ≤ s.sc) := by
  simp only [doSyncWait, hMAXS]
  split
  · exact ⟨⟨rfl, rfl, rfl, rfl, rfl, rfl⟩, Or.inl ⟨rfl, rfl, by assumption⟩⟩
  · exact ⟨⟨rfl, rfl, rfl, rfl, rfl, rfl⟩, Or.inr ⟨rfl, by omega⟩⟩

/-- `do_frame` away from the sample point and from the half-way point does nothing -/
theorem doFrame_idle (s : St) (e : Ev) (h5 : absDiff s.si s.ci ≠ 5) (hne : s.ci ≠ s.si) : doFrame s e = s := by
  simp [doFrame, h5, hne]

/-- `do_frame` at the sample point takes one symbol -/
theorem doFrame_symbol (s : St) (e : Ev) (heq : s.ci = s.si) (hf : s.fi + 2 ≠ 368) :
    doFrame s e = { s with fi := s.fi + 2 } := by
  simp [doFrame, heq, hf, absDiff]

theorem advance_spec (s : St) (hn : s.ncr = false) :
    (advance s).si = s.si ∧ (advance s).ci = (s.ci + 1) % 10 ∧ (advance s).fi = s.fi ∧ (advance s).frames = s.frames ∧
    (advance s).dcd = s.dcd ∧ (advance s).ncr = false ∧ (advance s).st = s.st ∧ (advance s).sc = s.sc := by
  simp only [advance, hn]
  split
  · simp only [Bool.false_eq_true, ↓reduceIte]
    split <;> exact ⟨rfl, rfl, rfl, rfl, rfl, rfl, rfl, rfl⟩
  · exact ⟨rfl, rfl, rfl, rfl, rfl, by first | rfl | exact hn, rfl, rfl⟩

theorem dispatch_dcd (m : St) (e : Ev) : (dispatch m e).dcd = m.dcd := by
  unfold dispatch
  split
  · simp only [doUnlocked]; repeat' split
    all_goals rfl
  · simp only [doLsfSync]; repeat' split
    all_goals rfl
  · simp only [doStreamSync]; repeat' split
    all_goals rfl
  · simp only [doPacketSync]; repeat' split
    all_goals rfl
  · simp only [doPacketSync]; repeat' split
    all_goals rfl
  · simp only [doSyncWait]; split <;> rfl
  · simp only [doFrame]; repeat' split
    all_goals rfl
  · rfl

/-- with carrier detect asserted and the detector still asserting, a step is the state switch (plus, possibly, the block counter reset) -/
theorem step_dcd_on (t : St) (e : Ev) (hd : t.dcd = true) (hdet : e.det = true) :
    step t e = dispatch (advance (tick t)) e ∨ step t e = setCnt0 (dispatch (advance (tick t)) e) := by
  have hdt : (tick t).dcd = true := hd
  have hX : (dispatch (advance (tick t)) e).dcd = true := by
    rw [dispatch_dcd, (advance_core _).2.2]; exact hdt
  simp only [step, hdt, Bool.true_eq_false, ↓reduceIte]
  split
  · right; rw [hdet, updateDcd_quiet _ hX]
  · left; rfl

/-- state `k` samples after a frame was completed at sample index `si0` with `fr0` frames delivered (1 ≤ k ≤ 89) -/
def Mid (si0 fr0 k : Nat) (t : St) : Prop :=
  t.si = si0 ∧ t.ci = (si0 + k) % 10 ∧ t.fi = 0 ∧ t.frames = fr0 ∧ t.dcd = true ∧ t.ncr = false ∧
  ((k ≤ 86 ∧ t.sc = k ∧ (t.st = 2 ∨ (t.st = 5 ∧ 78 ≤ k))) ∨ (k = 87 ∧ (t.st = 6 ∨ (t.st = 5 ∧ t.sc = 87))) ∨ (88 ≤ k ∧ t.st = 6))

theorem mid_of_setCnt0 (si0 fr0 k : Nat) (t : St) (h : Mid si0 fr0 k t) : Mid si0 fr0 k (setCnt0 t) := h

/-- one more sample -/
theorem mid_step (si0 fr0 k : Nat) (t : St) (e : Ev) (hsi : si0 < 10) (hm : Mid si0 fr0 k t) (hk : k ≤ 88) (hq : Quiet e)
    (hnz : (step t e).st ≠ 0) : Mid si0 fr0 (k + 1) (step t e) := by
  obtain ⟨h1, h2, h3, h4, h5, h6, h7⟩ := hm
  obtain ⟨a1, a2, a3, a4, a5, a6, a7, a8⟩ := advance_spec (tick t) h6
  have b1 : (advance (tick t)).si = si0 := by rw [a1]; exact h1
  have b2 : (advance (tick t)).ci = (si0 + (k + 1)) % 10 := by rw [a2]; show (t.ci + 1) % 10 = _; rw [h2]; omega
  have b3 : (advance (tick t)).fi = 0 := by rw [a3]; exact h3
  have b4 : (advance (tick t)).frames = fr0 := by rw [a4]; exact h4
  have b5 : (advance (tick t)).dcd = true := by rw [a5]; exact h5
  have b7 : (advance (tick t)).st = t.st := a7
  have b8 : (advance (tick t)).sc = t.sc := a8
  have hS := step_dcd_on t e h5 hq.2
  generalize advance (tick t) = m at *
  -- enough to show the claim for the state switch
  suffices hD : (dispatch m e).st ≠ 0 → Mid si0 fr0 (k + 1) (dispatch m e) by
    rcases hS with hs | hs
    · rw [hs] at hnz ⊢; exact hD hnz
    · rw [hs] at hnz ⊢; exact mid_of_setCnt0 _ _ _ _ (hD hnz)
  intro hnz'
  rcases h7 with ⟨hk86, hsc, hst | ⟨hst, h78⟩⟩ | ⟨hk87, hst | ⟨hst, hsc⟩⟩ | ⟨hk88, hst⟩
  · -- STREAM_SYNC, counting
    have hd : dispatch m e = doStreamSync m e := by simp only [dispatch, b7, hst]
    rw [hd] at hnz' ⊢
    obtain ⟨hs, hsc', hcase⟩ := doStreamSync_spec m e hq.1
    refine ⟨by rw [hs.si, b1], by rw [hs.ci, b2], by rw [hs.fi, b3], by rw [hs.fr, b4], by rw [hs.dcd, b5], by rw [hs.ncr, a6], ?_⟩
    rw [b8, hsc] at hsc' hcase
    rw [b7, hst] at hcase
    rcases hcase with ⟨h, hle⟩ | ⟨h, hle⟩ | ⟨h, hle⟩ | ⟨h, hle⟩
    · exact Or.inl ⟨hle, hsc', Or.inl h⟩
    · by_cases h86 : k + 1 ≤ 86
      · exact Or.inl ⟨h86, hsc', Or.inr ⟨h, hle⟩⟩
      · exact Or.inr (Or.inl ⟨by omega, Or.inr ⟨h, by omega⟩⟩)
    · exact Or.inr (Or.inl ⟨by omega, Or.inl h⟩)
    · exact absurd h hnz'
  · -- SYNC_WAIT, counting
    have hd : dispatch m e = doSyncWait m := by simp only [dispatch, b7, hst]
    rw [hd]
    obtain ⟨hs, hcase⟩ := doSyncWait_spec m
    refine ⟨by rw [hs.si, b1], by rw [hs.ci, b2], by rw [hs.fi, b3], by rw [hs.fr, b4], by rw [hs.dcd, b5], by rw [hs.ncr, a6], ?_⟩
    rw [b8, hsc, b7, hst] at hcase
    rcases hcase with ⟨h, hsc', hlt⟩ | ⟨h, hle⟩
    · exact Or.inl ⟨by omega, hsc', Or.inr ⟨h, by omega⟩⟩
    · exact Or.inr (Or.inl ⟨by omega, Or.inl h⟩)
  · -- FRAME since sample 87: samples 88 is neither the sample point nor the half-way point
    have hd : dispatch m e = doFrame m e := by simp only [dispatch, b7, hst]
    rw [hd, doFrame_idle m e (by rw [b1, b2]; unfold absDiff; split <;> omega) (by rw [b1, b2]; omega)]
    exact ⟨b1, b2, b3, b4, b5, a6, Or.inr (Or.inr ⟨by omega, by rw [b7]; exact hst⟩)⟩
  · -- late sync word at count 87: SYNC_WAIT hands over at once
    have hd : dispatch m e = doSyncWait m := by simp only [dispatch, b7, hst]
    rw [hd]
    obtain ⟨hs, hcase⟩ := doSyncWait_spec m
    refine ⟨by rw [hs.si, b1], by rw [hs.ci, b2], by rw [hs.fi, b3], by rw [hs.fr, b4], by rw [hs.dcd, b5], by rw [hs.ncr, a6], ?_⟩
    rw [b8, hsc, b7, hst] at hcase
    rcases hcase with ⟨h, hsc', hlt⟩ | ⟨h, hle⟩
    · omega
    · exact Or.inr (Or.inr ⟨by omega, h⟩)
  · have hd : dispatch m e = doFrame m e := by simp only [dispatch, b7, hst]
    rw [hd, doFrame_idle m e (by rw [b1, b2]; unfold absDiff; split <;> omega) (by rw [b1, b2]; omega)]
    exact ⟨b1, b2, b3, b4, b5, a6, Or.inr (Or.inr ⟨by omega, by rw [b7]; exact hst⟩)⟩

/-- the 90th sample after a completed frame is the sample point again: it takes the first symbol of the next frame -/
theorem mid_final (si0 fr0 : Nat) (t : St) (e : Ev) (hsi : si0 < 10) (hm : Mid si0 fr0 89 t) (hq : Quiet e) :
    (step t e).fi = 2 ∧ (step t e).st = 6 ∧ (step t e).frames = fr0 ∧ (step t e).si = si0 := by
  obtain ⟨h1, h2, h3, h4, h5, h6, h7⟩ := hm
  obtain ⟨a1, a2, a3, a4, a5, a6, a7, a8⟩ := advance_spec (tick t) h6
  have b1 : (advance (tick t)).si = si0 := by rw [a1]; exact h1
  have b2 : (advance (tick t)).ci = si0 := by rw [a2]; show (t.ci + 1) % 10 = _; rw [h2]; omega
  have b3 : (advance (tick t)).fi = 0 := by rw [a3]; exact h3
  have b4 : (advance (tick t)).frames = fr0 := by rw [a4]; exact h4
  have hst : t.st = 6 := by rcases h7 with ⟨h, _⟩ | ⟨h, _⟩ | ⟨_, h⟩ <;> first | omega | exact h
  have b7 : (advance (tick t)).st = 6 := by rw [a7]; exact hst
  have hS := step_dcd_on t e h5 hq.2
  generalize advance (tick t) = m at *
  have hd : dispatch m e = doFrame m e := by simp only [dispatch, b7]
  rw [doFrame_symbol m e (by rw [b1, b2]) (by rw [b3]; decide)] at hd
  rcases hS with hs | hs <;> rw [hs, hd] <;> simp [setCnt0, b3, b7, b4, b1]

theorem run_take_succ (s : St) (es : List Ev) (k : Nat) (hk : k < es.length) :
    run s (es.take (k + 1)) = step (run s (es.take k)) es[k] := by
  simp only [run, List.take_add_one, List.foldl_append, List.getElem?_eq_getElem hk, Option.toList_some, List.foldl_cons, List.foldl_nil]

/-- **inter-frame schedule of stream reception, for every signal**: start from the sample at which a stream frame was completed
    (state STREAM_SYNC, counters zero, correlator index = sample index).  Over the next 90 samples — whatever the correlators,
    the Viterbi cost, the clock estimate do, as long as the end-of-transmission correlator does not fire, carrier detect holds and
    the machine does not give up (state UNLOCKED) — no symbol is taken for 89 samples and the 90th sample takes the first symbol of
    the next frame into an empty framer, at the unchanged sample index: exactly the eight symbol periods of the sync word are
    skipped, whether the sync word was found early (count 78..86), late (87) or missed altogether (coasting). -/
theorem steady_next_symbol (s0 : St) (es : List Ev) (hsi : s0.si < 10) (h0 : Mid s0.si s0.frames 0 s0) (hlen : es.length = 90)
    (hq : ∀ e ∈ es, Quiet e) (hnz : ∀ k, k ≤ 89 → (run s0 (es.take k)).st ≠ 0) :
    (∀ k, k ≤ 89 → (run s0 (es.take k)).fi = 0 ∧ (run s0 (es.take k)).frames = s0.frames) ∧
    (run s0 es).fi = 2 ∧ (run s0 es).st = 6 ∧ (run s0 es).frames = s0.frames ∧ (run s0 es).si = s0.si := by
  have hmid : ∀ k, k ≤ 89 → Mid s0.si s0.frames k (run s0 (es.take k)) := by
    intro k
    induction k with
    | zero => intro _; simpa [run] using h0
    | succ k ih =>
      intro hk
      have hk' : k < es.length := by omega
      rw [run_take_succ s0 es k hk']
      apply mid_step _ _ _ _ _ hsi (ih (by omega)) (by omega) (hq _ (List.getElem_mem hk'))
      rw [← run_take_succ s0 es k hk']
      exact hnz (k + 1) hk
  refine ⟨fun k hk => ⟨(hmid k hk).2.2.1, (hmid k hk).2.2.2.1⟩, ?_⟩
  have h89 := hmid 89 (by omega)
  have hfull : run s0 es = step (run s0 (es.take 89)) es[89] := by
    rw [← run_take_succ s0 es 89 (by omega)]
    congr 1
    exact (List.take_of_length_le (by omega)).symm
  rw [hfull]
  exact mid_final _ _ _ _ hsi h89 (hq _ (List.getElem_mem _))

/-- non-vacuity: a coasting inter-frame gap (no sync word found, low cost) followed by the first symbol -/
example : let s0 : St := { init with st := 2, dcd := true, si := 3, ci := 3, cost := 10, frames := 7 }
    (run s0 (List.replicate 90 {})).fi = 2 ∧ (run s0 (List.replicate 90 {})).frames = 7 ∧ (run s0 (List.replicate 89 {})).fi = 0 := by
  decide +kernel

/-! ## frame delivery -/

theorem dispatch_frames (m : St) (e : Ev) (h : (dispatch m e).frames ≠ m.frames) :
    m.st = 6 ∧ m.fi = 366 ∧ (dispatch m e).frames = m.frames + 1 ∧ (dispatch m e).fi = 0 ∧ (dispatch m e).sc = 0 := by
  unfold dispatch at h ⊢
  split at h
  · simp only [doUnlocked] at h; repeat' split at h
    all_goals exact absurd rfl h
  · simp only [doLsfSync] at h; repeat' split at h
    all_goals exact absurd rfl h
  · simp only [doStreamSync] at h; repeat' split at h
    all_goals exact absurd rfl h
  · simp only [doPacketSync] at h; repeat' split at h
    all_goals exact absurd rfl h
  · simp only [doPacketSync] at h; repeat' split at h
    all_goals exact absurd rfl h
  · simp only [doSyncWait] at h; split at h <;> exact absurd rfl h
  · rename_i h6
    simp only [h6]
    simp only [doFrame] at h ⊢
    repeat' split at h
    all_goals first | exact absurd rfl h | skip
    all_goals simp_all
    all_goals omega
  · exact absurd rfl h

/-- **a frame is handed to the decoder only by the 184th symbol of a FRAME episode** (framer at 366 of 368 soft bits), and that
    step leaves the framer empty and restarts the sync count -/
theorem frame_delivery (s : St) (e : Ev) (h : (step s e).frames ≠ s.frames) :
    s.dcd = true ∧ s.st = 6 ∧ s.fi = 366 ∧ (step s e).frames = s.frames + 1 ∧ (step s e).fi = 0 := by
  by_cases hd : s.dcd = true
  · have hc := advance_core (tick s)
    have hfr : (advance (tick s)).frames = s.frames := by
      simp only [advance]; repeat' split
      all_goals rfl
    have hX : (dispatch (advance (tick s)) e).dcd = true := by rw [dispatch_dcd, hc.2.2]; exact hd
    have hstep : (step s e).frames = (dispatch (advance (tick s)) e).frames ∧ ((step s e).fi = (dispatch (advance (tick s)) e).fi ∨ (dispatch (advance (tick s)) e).fi ≠ 0 ∧ False) := by
      have hdt : (tick s).dcd = true := hd
      simp only [step, hdt, Bool.true_eq_false, ↓reduceIte]
      split
      · -- carrier-detect poll: on → unchanged; off → dcd_off keeps framer and ghost counter
        simp only [updateDcd, hX, Bool.not_true, Bool.false_and, Bool.false_eq_true, ↓reduceIte, Bool.true_and]
        split <;> exact ⟨rfl, Or.inl rfl⟩
      · exact ⟨rfl, Or.inl rfl⟩
    rw [hstep.1, ← hfr] at h
    obtain ⟨g1, g2, g3, g4, g5⟩ := dispatch_frames _ e h
    refine ⟨hd, by show (tick s).st = 6; rw [← hc.2.1]; exact g1, by show (tick s).fi = 366; rw [← hc.1]; exact g2, by rw [hstep.1, g3, hfr], ?_⟩
    rcases hstep.2 with h' | ⟨_, hf⟩
    · rw [h', g4]
    · exact absurd hf id
  · have hd' : s.dcd = false := by simpa using hd
    have hdt : (tick s).dcd = false := hd'
    exfalso; apply h
    simp only [step, hdt, ↓reduceIte]
    split
    · simp only [setCnt0, updateDcd]; repeat' split
      all_goals rfl
    · rfl

/-! ## bounded coasting: the stream state cannot be held for ever without a sync word -/

theorem hMAXMISS : MAXMISS = 10 := gen_consts.2.2.1

/-- events of a sample in which no stream sync word is found, the end-of-transmission correlator does not fire, and a decoded
    frame leaves the decoder in a stream state -/
def NoSync (e : Ev) : Prop := 0 ≤ e.lsfUpd ∧ e.eotTrig = false ∧ (e.decState = 0 ∨ e.decState = 1)

/-- coasting invariant relative to the state (f0 frames delivered, m0 missed sync words) at which coasting began -/
def Coast (f0 m0 : Nat) (s : St) : Prop :=
  s.dcd = true ∧ s.msc ≤ 10 ∧ ((s.st = 2 ∧ s.frames + m0 ≤ s.msc + f0) ∨ (s.st = 6 ∧ s.frames + m0 + 1 ≤ s.msc + f0))

theorem doStreamSync_coast (s : St) (e : Ev) (he : NoSync e) :
    (doStreamSync s e).dcd = s.dcd ∧ (doStreamSync s e).frames = s.frames ∧
    (((doStreamSync s e).st = s.st ∧ (doStreamSync s e).msc = s.msc) ∨ ((doStreamSync s e).st = 6 ∧ (doStreamSync s e).msc = s.msc + 1 ∧ s.msc < 10) ∨
     (doStreamSync s e).st = 0) := by
  obtain ⟨h1, h2, _⟩ := he
  have hl : ¬ e.lsfUpd < 0 := by omega
  simp only [doStreamSync, hMINS, hMAXS, hMAXMISS, h2, hl]
  repeat' split
  all_goals (refine ⟨rfl, rfl, ?_⟩)
  all_goals simp_all

theorem doFrame_coast (s : St) (e : Ev) (he : NoSync e) :
    (doFrame s e).dcd = s.dcd ∧ (doFrame s e).msc = s.msc ∧
    (((doFrame s e).st = s.st ∧ (doFrame s e).frames = s.frames) ∨ ((doFrame s e).st = 2 ∧ (doFrame s e).frames = s.frames + 1)) := by
  obtain ⟨_, _, hd⟩ := he
  simp only [doFrame]
  repeat' split
  all_goals (refine ⟨rfl, rfl, ?_⟩)
  all_goals simp_all

theorem advance_coast (s : St) : (advance s).dcd = s.dcd ∧ (advance s).msc = s.msc ∧ (advance s).st = s.st ∧ (advance s).frames = s.frames := by
  simp only [advance]
  repeat' split
  all_goals exact ⟨rfl, rfl, rfl, rfl⟩

theorem updateDcd_coast (s : St) (d : Bool) (hd : s.dcd = true) :
    (updateDcd s d = s) ∨ (updateDcd s d).st = 0 := by
  simp only [updateDcd, hd]
  cases d <;> simp

/-- one sample of coasting -/
theorem coast_step (f0 m0 : Nat) (s : St) (e : Ev) (h : Coast f0 m0 s) (he : NoSync e) (hnz : (step s e).st ≠ 0) : Coast f0 m0 (step s e) := by
  obtain ⟨hd, hm, hst⟩ := h
  obtain ⟨a1, a2, a3, a4⟩ := advance_coast (tick s)
  have b1 : (advance (tick s)).dcd = true := by rw [a1]; exact hd
  have b2 : (advance (tick s)).msc = s.msc := a2
  have b3 : (advance (tick s)).st = s.st := a3
  have b4 : (advance (tick s)).frames = s.frames := a4
  -- the state switch
  have hD : (dispatch (advance (tick s)) e).st ≠ 0 → Coast f0 m0 (dispatch (advance (tick s)) e) := by
    generalize advance (tick s) = m at *
    intro hz
    rcases hst with ⟨h2, hf⟩ | ⟨h6, hf⟩
    · have hd' : dispatch m e = doStreamSync m e := by simp only [dispatch, b3, h2]
      rw [hd'] at hz ⊢
      obtain ⟨c1, c2, c3⟩ := doStreamSync_coast m e he
      refine ⟨by rw [c1, b1], ?_, ?_⟩
      · rcases c3 with ⟨_, c⟩ | ⟨_, c, cl⟩ | c
        · rw [c, b2]; exact hm
        · rw [c, b2]; rw [b2] at cl; omega
        · exact absurd c hz
      · rcases c3 with ⟨cs, c⟩ | ⟨cs, c, cl⟩ | c
        · left; exact ⟨by rw [cs, b3, h2], by rw [c2, c, b4, b2]; exact hf⟩
        · right; exact ⟨cs, by rw [c2, c, b4, b2]; omega⟩
        · exact absurd c hz
    · have hd' : dispatch m e = doFrame m e := by simp only [dispatch, b3, h6]
      rw [hd']
      obtain ⟨c1, c2, c3⟩ := doFrame_coast m e he
      refine ⟨by rw [c1, b1], by rw [c2, b2]; exact hm, ?_⟩
      rcases c3 with ⟨cs, c⟩ | ⟨cs, c⟩
      · right; exact ⟨by rw [cs, b3, h6], by rw [c, c2, b4, b2]; exact hf⟩
      · left; exact ⟨cs, by rw [c, c2, b4, b2]; omega⟩
  -- the carrier-detect poll at the end of the step either changes nothing or drops to UNLOCKED
  have hdt : (tick s).dcd = true := hd
  have hX : (dispatch (advance (tick s)) e).dcd = true := by rw [dispatch_dcd, (advance_core _).2.2]; exact hdt
  have hstep : step s e = dispatch (advance (tick s)) e ∨ step s e = setCnt0 (dispatch (advance (tick s)) e) ∨ (step s e).st = 0 := by
    simp only [step, hdt, Bool.true_eq_false, ↓reduceIte]
    split
    · rcases updateDcd_coast (dispatch (advance (tick s)) e) e.det hX with hu | hu
      · right; left; rw [hu]
      · right; right; exact hu
    · left; rfl
  rcases hstep with hs | hs | hs
  · rw [hs] at hnz ⊢; exact hD hnz
  · rw [hs] at hnz ⊢; exact hD hnz
  · exact absurd hs hnz

/-- **coasting is bounded, for every signal**: start where a stream frame has just been delivered with `m0 ≤ 10` missed sync words on
    the count.  However the correlators, the Viterbi cost and the clock behave, if no stream sync word is found, then as long as the
    demodulator has not given up (state UNLOCKED, after which it searches for sync words afresh) it has delivered at most `10 − m0`
    further frames: it cannot hold the stream state for ever on frames that merely decode below the cost limit. -/
theorem coasting_bounded (s0 : St) (es : List Ev) (h0 : s0.st = 2 ∧ s0.dcd = true ∧ s0.msc ≤ 10) (he : ∀ e ∈ es, NoSync e)
    (hnz : ∀ k, k ≤ es.length → (run s0 (es.take k)).st ≠ 0) :
    (run s0 es).frames + s0.msc ≤ s0.frames + 10 := by
  have hc : ∀ k, k ≤ es.length → Coast s0.frames s0.msc (run s0 (es.take k)) := by
    intro k
    induction k with
    | zero => intro _; simp only [List.take_zero, run, List.foldl_nil]; exact ⟨h0.2.1, h0.2.2, Or.inl ⟨h0.1, by omega⟩⟩
    | succ k ih =>
      intro hk
      have hk' : k < es.length := by omega
      rw [run_take_succ s0 es k hk']
      apply coast_step _ _ _ _ (ih (by omega)) (he _ (List.getElem_mem hk'))
      rw [← run_take_succ s0 es k hk']
      exact hnz (k + 1) hk
  have := hc es.length (Nat.le_refl _)
  rw [List.take_length] at this
  obtain ⟨_, hm, hst⟩ := this
  rcases hst with ⟨_, hf⟩ | ⟨_, hf⟩ <;> omega


/-! ## a lock needs decodable frames: sync words alone cannot hold the stream state -/

theorem hSCOST : SCOST = 80 := gen_consts.2.2.2.1

/-- events of a sample in which the end-of-transmission correlator does not fire and any frame completed decodes at or above the
    stream cost limit (nothing usable), leaving the decoder in a stream state; sync words may or may not be found -/
def Undecodable (e : Ev) : Prop := e.eotTrig = false ∧ 80 ≤ e.cost ∧ (e.decState = 0 ∨ e.decState = 1)

def Locked (f0 m0 : Nat) (s : St) : Prop :=
  s.dcd = true ∧ s.msc ≤ 10 ∧ 80 ≤ s.cost ∧
  ((s.st = 2 ∧ s.frames + m0 ≤ s.msc + f0) ∨ ((s.st = 5 ∨ s.st = 6) ∧ s.frames + m0 + 1 ≤ s.msc + f0))

theorem doStreamSync_undec (s : St) (e : Ev) (he : e.eotTrig = false) (hc : 80 ≤ s.cost) :
    (doStreamSync s e).dcd = s.dcd ∧ (doStreamSync s e).frames = s.frames ∧ (doStreamSync s e).cost = s.cost ∧
    (((doStreamSync s e).st = s.st ∧ (doStreamSync s e).msc = s.msc) ∨
     (((doStreamSync s e).st = 5 ∨ (doStreamSync s e).st = 6) ∧ (doStreamSync s e).msc = s.msc + 1 ∧ s.msc < 10) ∨
     (doStreamSync s e).st = 0) := by
  have hnc : ¬ s.cost < 80 := by omega
  simp only [doStreamSync, hMINS, hMAXS, hMAXMISS, hSCOST, he, hnc]
  repeat' split
  all_goals (refine ⟨rfl, rfl, rfl, ?_⟩)
  all_goals simp_all

theorem doSyncWait_undec (s : St) :
    (doSyncWait s).dcd = s.dcd ∧ (doSyncWait s).frames = s.frames ∧ (doSyncWait s).cost = s.cost ∧ (doSyncWait s).msc = s.msc ∧
    ((doSyncWait s).st = s.st ∨ (doSyncWait s).st = 6) := by
  simp only [doSyncWait]
  split
  · exact ⟨rfl, rfl, rfl, rfl, Or.inl rfl⟩
  · exact ⟨rfl, rfl, rfl, rfl, Or.inr rfl⟩

theorem doFrame_undec (s : St) (e : Ev) (he : Undecodable e) :
    (doFrame s e).dcd = s.dcd ∧ (doFrame s e).msc = s.msc ∧
    (((doFrame s e).st = s.st ∧ (doFrame s e).frames = s.frames ∧ (doFrame s e).cost = s.cost) ∨
     ((doFrame s e).st = 2 ∧ (doFrame s e).frames = s.frames + 1 ∧ 80 ≤ (doFrame s e).cost)) := by
  obtain ⟨_, hcst, hd⟩ := he
  simp only [doFrame]
  repeat' split
  all_goals (refine ⟨rfl, rfl, ?_⟩)
  all_goals simp_all

theorem advance_undec (s : St) : (advance s).dcd = s.dcd ∧ (advance s).msc = s.msc ∧ (advance s).st = s.st ∧ (advance s).frames = s.frames ∧ (advance s).cost = s.cost := by
  simp only [advance]
  repeat' split
  all_goals exact ⟨rfl, rfl, rfl, rfl, rfl⟩

theorem locked_step (f0 m0 : Nat) (s : St) (e : Ev) (h : Locked f0 m0 s) (he : Undecodable e) (hnz : (step s e).st ≠ 0) : Locked f0 m0 (step s e) := by
  obtain ⟨hd, hm, hcs, hst⟩ := h
  obtain ⟨a1, a2, a3, a4, a5⟩ := advance_undec (tick s)
  have b1 : (advance (tick s)).dcd = true := by rw [a1]; exact hd
  have b2 : (advance (tick s)).msc = s.msc := a2
  have b3 : (advance (tick s)).st = s.st := a3
  have b4 : (advance (tick s)).frames = s.frames := a4
  have b5 : (advance (tick s)).cost = s.cost := a5
  have hD : (dispatch (advance (tick s)) e).st ≠ 0 → Locked f0 m0 (dispatch (advance (tick s)) e) := by
    generalize advance (tick s) = m at *
    intro hz
    rcases hst with ⟨h2, hf⟩ | ⟨h5 | h6, hf⟩
    · have hd' : dispatch m e = doStreamSync m e := by simp only [dispatch, b3, h2]
      rw [hd'] at hz ⊢
      obtain ⟨c1, c2, c3, c4⟩ := doStreamSync_undec m e he.1 (by rw [b5]; exact hcs)
      refine ⟨by rw [c1, b1], ?_, by rw [c3, b5]; exact hcs, ?_⟩
      · rcases c4 with ⟨_, c⟩ | ⟨_, c, cl⟩ | c
        · rw [c, b2]; exact hm
        · rw [c, b2]; rw [b2] at cl; omega
        · exact absurd c hz
      · rcases c4 with ⟨cs, c⟩ | ⟨cs, c, cl⟩ | c
        · left; exact ⟨by rw [cs, b3, h2], by rw [c2, c, b4, b2]; exact hf⟩
        · right; exact ⟨cs, by rw [c2, c, b4, b2]; omega⟩
        · exact absurd c hz
    · have hd' : dispatch m e = doSyncWait m := by simp only [dispatch, b3, h5]
      rw [hd']
      obtain ⟨c1, c2, c3, c4, c5⟩ := doSyncWait_undec m
      refine ⟨by rw [c1, b1], by rw [c4, b2]; exact hm, by rw [c3, b5]; exact hcs, Or.inr ⟨?_, by rw [c2, c4, b4, b2]; exact hf⟩⟩
      rcases c5 with c | c
      · left; rw [c, b3, h5]
      · right; exact c
    · have hd' : dispatch m e = doFrame m e := by simp only [dispatch, b3, h6]
      rw [hd']
      obtain ⟨c1, c2, c3⟩ := doFrame_undec m e he
      refine ⟨by rw [c1, b1], by rw [c2, b2]; exact hm, ?_, ?_⟩
      · rcases c3 with ⟨_, _, c⟩ | ⟨_, _, c⟩
        · rw [c, b5]; exact hcs
        · exact c
      · rcases c3 with ⟨cs, c, _⟩ | ⟨cs, c, _⟩
        · right; exact ⟨Or.inr (by rw [cs, b3, h6]), by rw [c, c2, b4, b2]; exact hf⟩
        · left; exact ⟨cs, by rw [c, c2, b4, b2]; omega⟩
  have hdt : (tick s).dcd = true := hd
  have hX : (dispatch (advance (tick s)) e).dcd = true := by rw [dispatch_dcd, (advance_core _).2.2]; exact hdt
  have hstep : step s e = dispatch (advance (tick s)) e ∨ step s e = setCnt0 (dispatch (advance (tick s)) e) ∨ (step s e).st = 0 := by
    simp only [step, hdt, Bool.true_eq_false, ↓reduceIte]
    split
    · rcases updateDcd_coast (dispatch (advance (tick s)) e) e.det hX with hu | hu
      · right; left; rw [hu]
      · right; right; exact hu
    · left; rfl
  rcases hstep with hs | hs | hs
  · rw [hs] at hnz ⊢; exact hD hnz
  · rw [hs] at hnz ⊢; exact hD hnz
  · exact absurd hs hnz

/-- **sync words alone cannot hold the stream state, for every signal**: start where a stream frame has just been delivered undecodable
    (cost at or above the limit) with `m0 ≤ 10` on the miss count.  If every further frame is undecodable too, then — whether or not a
    sync word is found at the expected place in every frame — at most `10 − m0` more frames are delivered before the demodulator gives
    up (state UNLOCKED) and searches again.  A data pattern that resembles the sync word and recurs in every frame therefore cannot keep
    it locked to frames it cannot decode. -/
theorem lock_needs_decodable_frames (s0 : St) (es : List Ev) (h0 : s0.st = 2 ∧ s0.dcd = true ∧ s0.msc ≤ 10 ∧ 80 ≤ s0.cost)
    (he : ∀ e ∈ es, Undecodable e) (hnz : ∀ k, k ≤ es.length → (run s0 (es.take k)).st ≠ 0) :
    (run s0 es).frames + s0.msc ≤ s0.frames + 10 := by
  have hc : ∀ k, k ≤ es.length → Locked s0.frames s0.msc (run s0 (es.take k)) := by
    intro k
    induction k with
    | zero => intro _; simp only [List.take_zero, run, List.foldl_nil]; exact ⟨h0.2.1, h0.2.2.1, h0.2.2.2, Or.inl ⟨h0.1, by omega⟩⟩
    | succ k ih =>
      intro hk
      have hk' : k < es.length := by omega
      rw [run_take_succ s0 es k hk']
      apply locked_step _ _ _ _ (ih (by omega)) (he _ (List.getElem_mem hk'))
      rw [← run_take_succ s0 es k hk']
      exact hnz (k + 1) hk
  have := hc es.length (Nat.le_refl _)
  rw [List.take_length] at this
  obtain ⟨_, hm, _, hst⟩ := this
  rcases hst with ⟨_, hf⟩ | ⟨_, hf⟩ <;> omega


end M17.C03

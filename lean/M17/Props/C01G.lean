/-
C01 — the reported cost of a clean frame, as an explicit function of the received soft values:
cost = round( Σ over the 368 (stream: the 272 payload) received values of (7 − |r|) / 7 ).
(`C01F` states the cost as `round(slack/7)` with `slack` defined on the de-punctured block; here `slack` is shown to be that sum: de-puncturing
places every received value exactly once, de-interleaving is a permutation, de-randomizing only flips signs.)
-/
import M17.Props.C01F

namespace M17.C01G
open M17.Vit M17.C01 M17.Cond M17.Punct M17.C01F

/-- Σ base1 over a list of soft values -/
def sumB (xs : List Int) : Nat := (xs.map (base1 7)).sum

theorem baseCost_eq_sumB : ∀ (d : List Int), d.length % 2 = 0 → baseCost 7 (pairs d) = sumB d
  | [], _ => rfl
  | [_], h => by simp at h
  | a :: b :: rest, h => by
    have ih := baseCost_eq_sumB rest (by simp only [List.length_cons] at h; omega)
    unfold baseCost sumB at ih ⊢
    simp only [pairs, List.map_cons, List.sum_cons, ih]
    omega

theorem base1_zero : base1 7 0 = 0 := by decide

/-- de-puncturing places each received value once (and zeros elsewhere): the sum is that of the values consumed -/
theorem sum_depuncture (p : List Nat) : ∀ (n pi : Nat) (xs : List Int),
    sumB (depunctureGo p pi xs n) = sumB (xs.take (C11.rank p pi n)) := by
  intro n
  induction n with
  | zero => intro pi xs; simp [depunctureGo, C11.rank, sumB]
  | succ n ih =>
    intro pi xs
    simp only [depunctureGo, C11.rank]
    by_cases hp : pAt p pi = true
    · simp only [hp, Bool.not_true, Bool.false_eq_true, if_false, if_true]
      cases xs with
      | nil =>
        have := ih (nextP p pi) []
        unfold sumB at this ⊢
        simp only [List.map_cons, List.sum_cons, base1_zero, Nat.zero_add, this, List.take_nil]
      | cons x xs =>
        have := ih (nextP p pi) xs
        unfold sumB at this ⊢
        rw [Nat.add_comm 1, List.take_succ_cons]
        simp only [List.map_cons, List.sum_cons, this]
    · simp only [hp, Bool.not_false, if_true, Bool.false_eq_true, if_false, Nat.zero_add]
      have := ih (nextP p pi) xs
      unfold sumB at this ⊢
      simp only [List.map_cons, List.sum_cons, base1_zero, Nat.zero_add, this]

/-- number of kept positions in each geometry (BERT: 369 kept, 368 transmitted) -/
theorem ranks : C11.rank Gen.p1 0 488 = 368 ∧ C11.rank Gen.p2 0 296 = 272 ∧ C11.rank Gen.p3 0 420 = 368 ∧ C11.rank Gen.p2 0 402 = 369 := by
  decide +kernel

theorem slack_eq_sum (p : List Nat) (xs : List Int) (n : Nat) (hn : n % 2 = 0) (hk : xs.length ≤ C11.rank p 0 n) :
    slack p xs n = sumB xs := by
  unfold slack
  rw [baseCost_eq_sumB _ (by rw [C11.depunctureGo_length]; exact hn), sum_depuncture, List.take_of_length_le hk]

/-! ## de-interleaving permutes, de-randomizing flips signs: the sum is unchanged -/

theorem perm_sum_nat {l₁ l₂ : List Nat} (h : l₁.Perm l₂) : l₁.sum = l₂.sum := by
  induction h with
  | nil => rfl
  | cons x _ ih => simp [ih]
  | swap x y l => simp only [List.sum_cons]; omega
  | trans _ _ ih1 ih2 => rw [ih1, ih2]

theorem index_perm_list : ((List.range 368).map index).Perm (List.range 368) := by decide +kernel

theorem list_as_map (xs : List Int) (h : xs.length = 368) : xs = (List.range 368).map (fun i => xs.getD i 0) := by
  apply List.ext_getElem (by simp [h])
  intro i h1 h2
  simp [List.getD_eq_getElem?_getD, h1]

theorem sum_deinterleave (xs : List Int) (h : xs.length = 368) : sumB (deinterleaveSoft xs) = sumB xs := by
  unfold deinterleaveSoft gather
  rw [C10.K_eq]
  have e1 : (List.range 368).map (fun i => xs.getD (index i) 0) = ((List.range 368).map index).map (fun i => xs.getD i 0) := by
    rw [List.map_map]; rfl
  have hp := (index_perm_list.map (fun i => xs.getD i 0)).map (base1 7)
  unfold sumB
  rw [e1, perm_sum_nat hp]
  conv => rhs; rw [list_as_map xs h]

/-- every value is an `int8_t` (what the demodulator hands over) -/
def I8 (xs : List Int) : Prop := ∀ x ∈ xs, -128 ≤ x ∧ x ≤ 127

theorem base1_rand (x : Int) (i : Nat) (h : -128 ≤ x ∧ x ≤ 127) : base1 7 (narrow8 (x * dcSign i)) = base1 7 x := by
  unfold base1 narrow8 dcSign
  split <;> split <;> split <;> omega

theorem sum_randSoft (xs : List Int) (h8 : I8 xs) : sumB (randSoft xs) = sumB xs := by
  unfold sumB randSoft
  rw [List.map_map]
  have : ∀ (l : List Int) (k : Nat), I8 l →
      ((l.zipIdx k).map ((base1 7) ∘ fun (x : Int × Nat) => narrow8 (x.1 * dcSign x.2))) = l.map (base1 7) := by
    intro l
    induction l with
    | nil => intro k _; rfl
    | cons a l ih =>
      intro k hl
      have ha := hl a (List.mem_cons_self ..)
      have hr : I8 l := fun x hx => hl x (List.mem_cons_of_mem _ hx)
      simp only [List.zipIdx_cons, List.map_cons, Function.comp, base1_rand a k ha, ih (k + 1) hr]
  exact congrArg List.sum (this xs 0 h8)

/-- **cost of a single-block clean frame (LSF, packet, BERT geometry)** = round(Σ over the 368 received values of base1 / 7), where
    `base1 7 r = 7 − |r|` for every non-erased value -/
theorem cleanCost_formula (p : List Nat) (frame : List Int) (n : Nat) (hf : frame.length = 368) (h8 : I8 frame) (hn : n % 2 = 0) (hk : 368 ≤ C11.rank p 0 n) :
    cleanCost p frame n = roundDiv (sumB frame) 7 := by
  unfold cleanCost
  have hl : (deinterleaveSoft (randSoft frame)).length = 368 := by unfold deinterleaveSoft; rw [C10.K_eq, gather_length]
  rw [slack_eq_sum p _ n hn (by rw [hl]; exact hk), sum_deinterleave _ (by rw [C01F.randSoft_length, hf]), sum_randSoft _ h8]

theorem lsf_cost_formula (frame : List Int) (hf : frame.length = 368) (h8 : I8 frame) : cleanCost Gen.p1 frame 488 = roundDiv (sumB frame) 7 :=
  cleanCost_formula Gen.p1 frame 488 hf h8 (by decide) (by rw [ranks.1]; decide)

theorem packet_cost_formula (frame : List Int) (hf : frame.length = 368) (h8 : I8 frame) : cleanCost Gen.p3 frame 420 = roundDiv (sumB frame) 7 :=
  cleanCost_formula Gen.p3 frame 420 hf h8 (by decide) (by rw [ranks.2.2.1]; decide)

theorem bert_cost_formula (frame : List Int) (hf : frame.length = 368) (h8 : I8 frame) : cleanCost Gen.p2 frame 402 = roundDiv (sumB frame) 7 :=
  cleanCost_formula Gen.p2 frame 402 hf h8 (by decide) (by rw [ranks.2.2.2]; decide)

/-- stream frames: the cost counts the 272 payload values (de-interleaved positions 96..367) only -/
theorem stream_cost_formula (frame : List Int) :
    roundDiv (slack Gen.p2 ((deinterleaveSoft (randSoft frame)).drop 96) 296) 7 =
      roundDiv (sumB ((deinterleaveSoft (randSoft frame)).drop 96)) 7 := by
  have hl : (deinterleaveSoft (randSoft frame)).length = 368 := by unfold deinterleaveSoft; rw [C10.K_eq, gather_length]
  rw [slack_eq_sum Gen.p2 _ 296 (by decide) (by rw [List.length_drop, hl, ranks.2.1]; decide)]

/-- on a clean soft image every value is non-zero with magnitude ≤ 7, so its contribution is exactly 7 − |r| -/
theorem base1_of_carries (lo : Int) (hlo : 1 ≤ lo) (b : Bool) (x : Int) (h : Carries lo b x) : (base1 7 x : Int) = 7 - x.natAbs := by
  unfold Carries at h; unfold base1
  cases b <;> simp at h <;> split <;> omega

/-! ## the stream cost in terms of frame positions -/

theorem randSoft_getD (xs : List Int) (j : Nat) (hj : j < xs.length) :
    (randSoft xs).getD j 0 = narrow8 (xs.getD j 0 * dcSign j) := by
  unfold randSoft
  have : ∀ (l : List Int) (k j : Nat), j < l.length →
      ((l.zipIdx k).map (fun (x : Int × Nat) => narrow8 (x.1 * dcSign x.2))).getD j 0 = narrow8 (l.getD j 0 * dcSign (k + j)) := by
    intro l
    induction l with
    | nil => intro k j h; simp at h
    | cons a l ih =>
      intro k j h
      cases j with
      | zero => simp [List.zipIdx_cons]
      | succ j =>
        simp only [List.zipIdx_cons, List.map_cons, List.getD_cons_succ]
        rw [ih (k + 1) j (by simpa using h)]
        have e : k + 1 + j = k + (j + 1) := by omega
        rw [e]
  have h := this xs 0 j hj
  simpa using h

theorem drop96 : List.drop 96 (List.range 368) = List.range' 96 272 := by
  rw [List.range_eq_range', List.drop_range']

/-- the stream cost in terms of FRAME positions: the 272 positions that the interleaver maps to de-interleaved indices 96..367 -/
theorem stream_slack_positions (frame : List Int) (hf : frame.length = 368) (h8 : I8 frame) :
    sumB ((deinterleaveSoft (randSoft frame)).drop 96) =
      ((List.range' 96 272).map (fun i => base1 7 (frame.getD (index i) 0))).sum := by
  unfold deinterleaveSoft gather
  rw [C10.K_eq]
  unfold sumB
  have hidx : ∀ i, index i < 368 := fun i => by
    have := Nat.mod_lt (Gen.ileaveF1 * i + Gen.ileaveF2 * i * i) (show 0 < K by rw [C10.K_eq]; decide)
    rw [C10.K_eq] at this; exact this
  have e : ((List.range 368).map (fun i => (randSoft frame).getD (index i) 0)).drop 96
      = (List.range' 96 272).map (fun i => (randSoft frame).getD (index i) 0) := by
    rw [← List.map_drop, drop96]
  rw [e, List.map_map]
  congr 1
  apply List.map_congr_left
  intro i _
  simp only [Function.comp]
  rw [randSoft_getD frame (index i) (by rw [hf]; exact hidx i)]
  apply base1_rand
  have hmem : frame.getD (index i) 0 ∈ frame := by
    rw [List.getD_eq_getElem?_getD, List.getElem?_eq_getElem (by rw [hf]; exact hidx i)]
    simp
  exact h8 _ hmem

/-! ## non-vacuity -/
example : sumB [7, -7, 3, -1] = 10 := by decide

end M17.C01G

/-
C19 — DSP primitives equal their definitions (exact arithmetic, any commutative ring, every input length); the RRC tap
sets are symmetric and cascade to a Nyquist pulse.
Floating-point rounding is outside these theorems; it is covered by the correspondence stream (stated tolerance).
-/
import M17.Model.Dsp
import M17.Gen.Taps
import M17.Gen.TapsTx

namespace M17.C19
open M17.Dsp Lean.Grind

variable {α : Type} [CommRing α]

theorem getD_set {β} (l : List β) (i j : Nat) (a d : β) :
    (l.set i a).getD j d = if i = j ∧ i < l.length then a else l.getD j d := by
  simp only [List.getD_eq_getElem?_getD, List.getElem?_set]
  by_cases h : i = j
  · subst h; by_cases h2 : i < l.length <;> simp [h2]
  · simp [h]

/-! ## circular-buffer index arithmetic (any buffer length) -/

theorem idx_newest (n pos : Nat) (hp : pos < n) : ((if pos + 1 = n then 0 else pos + 1) + n - 1) % n = pos := by
  by_cases h : pos + 1 = n
  · rw [if_pos h]; have : 0 + n - 1 = pos := by omega
    rw [this]; exact Nat.mod_eq_of_lt hp
  · rw [if_neg h]; have : pos + 1 + n - 1 = pos + n := by omega
    rw [this, Nat.add_mod_right]; exact Nat.mod_eq_of_lt hp

theorem idx_shift (n pos k : Nat) (hp : pos < n) (hk : k + 1 < n) :
    ((if pos + 1 = n then 0 else pos + 1) + n - 1 - (k + 1)) % n = (pos + n - 1 - k) % n := by
  by_cases h : pos + 1 = n
  · rw [if_pos h]
    have e1 : 0 + n - 1 - (k + 1) = n - 2 - k := by omega
    have e2 : pos + n - 1 - k = (n - 2 - k) + n := by omega
    rw [e1, e2, Nat.add_mod_right]
  · rw [if_neg h]; congr 1; omega

theorem idx_distinct (n pos k : Nat) (hp : pos < n) (hk : k + 1 < n) : (pos + n - 1 - k) % n ≠ pos := by
  by_cases h : k < pos
  · have e : pos + n - 1 - k = (pos - 1 - k) + n := by omega
    rw [e, Nat.add_mod_right, Nat.mod_eq_of_lt (by omega)]; omega
  · rw [Nat.mod_eq_of_lt (by omega)]; omega

/-! ## FIR = convolution with the taps from a zero state -/

/-- the `n` most recent inputs, newest first -/
def shiftIn (n : Nat) (past : List α) (x : α) : List α := (x :: past).take n

/-- the circular buffer of `f` holds the shift register `past` (newest first) -/
def Holds (f : Fir α) (past : List α) : Prop :=
  f.history.length = f.taps.length ∧ f.pos < f.taps.length ∧ past.length = f.taps.length ∧
  ∀ i, i < f.taps.length → f.history.getD ((f.pos + f.taps.length - 1 - i) % f.taps.length) 0 = past.getD i 0

/-- dot product of the shift register with the taps: Σ_{i<N} x[n−i] · taps[i] -/
def dot (past taps : List α) : α :=
  (List.range taps.length).foldl (fun acc i => acc + past.getD i 0 * taps.getD i 0) 0

theorem foldl_congr_range {β} (n : Nat) (f g : β → Nat → β) (h : ∀ acc i, i < n → f acc i = g acc i) (a : β) :
    (List.range n).foldl f a = (List.range n).foldl g a := by
  induction n generalizing a with
  | zero => rfl
  | succ n ih =>
    rw [List.range_succ, List.foldl_append, List.foldl_append]
    simp only [List.foldl]
    rw [ih (fun acc i hi => h acc i (by omega)), h _ n (by omega)]

/-- writing `x` at the write position of a circular buffer that holds `past` makes it hold `x :: past` (truncated) -/
theorem ring_key (hist past : List α) (pos n : Nat) (x : α) (h1 : hist.length = n) (h2 : pos < n)
    (h4 : ∀ i, i < n → hist.getD ((pos + n - 1 - i) % n) 0 = past.getD i 0) :
    ∀ i, i < n → (hist.set pos x).getD (((if pos + 1 = n then 0 else pos + 1) + n - 1 - i) % n) 0
        = (shiftIn n past x).getD i 0 := by
  obtain ⟨m, hm⟩ : ∃ m, n = m + 1 := ⟨n - 1, by omega⟩
  intro i hi
  unfold shiftIn
  cases i with
  | zero =>
    rw [Nat.sub_zero, idx_newest _ _ h2, getD_set, if_pos ⟨rfl, by omega⟩, hm]
    simp [List.take_succ_cons]
  | succ k =>
    rw [idx_shift _ _ k h2 hi, getD_set, if_neg (fun c => idx_distinct _ _ k h2 hi c.1.symm), h4 k (by omega)]
    simp only [List.getD_eq_getElem?_getD, List.getElem?_take, hi, if_true, List.getElem?_cons_succ]

/-- one call of the filter: the output is the dot product of the updated shift register with the taps, and the
    circular buffer keeps holding the shift register -/
theorem fir_step (f : Fir α) (past : List α) (x : α) (h : Holds f past) :
    (f.step x).2 = dot (shiftIn f.taps.length past x) f.taps ∧ Holds (f.step x).1 (shiftIn f.taps.length past x) := by
  obtain ⟨h1, h2, h3, h4⟩ := h
  have key := ring_key f.history past f.pos f.taps.length x h1 h2 h4
  constructor
  · unfold Fir.step dot
    simp only
    exact foldl_congr_range _ _ _ (fun acc i hi => by rw [key i hi]) _
  · unfold Holds
    simp only [Fir.step]
    refine ⟨by simp [h1], ?_, by simp [shiftIn, h3], ?_⟩
    · split <;> omega
    · intro i hi; exact key i hi

theorem init_holds (taps : List α) (h : 0 < taps.length) :
    Holds (Fir.init taps) (List.replicate taps.length 0) := by
  refine ⟨by simp [Fir.init], by simpa [Fir.init] using h, by simp [Fir.init], ?_⟩
  intro i _
  simp only [Fir.init, List.getD_eq_getElem?_getD, List.getElem?_replicate]
  split <;> split <;> rfl

/-- the shift register after feeding `xs` to a zero-initialised filter -/
def regAfter (n : Nat) (xs : List α) : List α := xs.foldl (shiftIn n) (List.replicate n 0)

theorem run_taps (f : Fir α) (xs : List α) : (f.run xs).1.taps = f.taps := by
  induction xs generalizing f with
  | nil => rfl
  | cons x xs ih => simp only [Fir.run]; rw [ih]; rfl

/-- **FIR = convolution from a zero state, for every input length and every tap count**: the k-th output is the dot
    product of the taps with the last N inputs (zero before the start) -/
theorem fir_eq_convolution (taps : List α) (h : 0 < taps.length) (xs : List α) :
    ∀ (f : Fir α) (past : List α), Holds f past → f.taps = taps →
      (f.run xs).2 = (List.range xs.length).map (fun k => dot ((xs.take (k + 1)).foldl (shiftIn taps.length) past) taps) ∧
      Holds (f.run xs).1 (xs.foldl (shiftIn taps.length) past) := by
  induction xs with
  | nil => intro f past hh _; exact ⟨rfl, hh⟩
  | cons x xs ih =>
    intro f past hh ht
    obtain ⟨s1, s2⟩ := fir_step f past x hh
    have ht1 : (f.step x).1.taps = taps := by simp [Fir.step, ht]
    obtain ⟨i1, i2⟩ := ih (f.step x).1 (shiftIn taps.length past x) (by rw [← ht]; exact s2) ht1
    simp only [Fir.run, List.length_cons, List.foldl_cons]
    refine ⟨?_, i2⟩
    rw [i1, List.range_succ_eq_map, List.map_cons, List.map_map]
    simp only [List.take_succ_cons, List.foldl_cons, List.take_zero, List.foldl_nil, Function.comp]
    rw [s1, ht]
    rfl

/-- `reset()` restores the zero state: same outputs as a fresh filter -/
theorem fir_reset (taps : List α) (h : 0 < taps.length) :
    Holds ({ (Fir.init taps) with history := List.replicate taps.length 0, pos := 0 } : Fir α) (List.replicate taps.length 0) :=
  init_holds taps h

/-- feeding a concatenation is feeding the pieces one after the other through the same filter object: one continuous
    run (used by C13 for the baseband) -/
theorem fir_run_append (f : Fir α) (xs ys : List α) :
    (f.run (xs ++ ys)).2 = (f.run xs).2 ++ ((f.run xs).1.run ys).2 ∧ (f.run (xs ++ ys)).1 = ((f.run xs).1.run ys).1 := by
  induction xs generalizing f with
  | nil => exact ⟨rfl, rfl⟩
  | cons x xs ih =>
    simp only [List.cons_append, Fir.run]
    obtain ⟨a, b⟩ := ih (f.step x).1
    exact ⟨by rw [a], b⟩

/-! ## IIR (direct form II, three coefficients, a0 = 1) realises its difference equation -/

/-- with `w` the internal state sequence, outputs satisfy y[n] + a1·y[n−1] + a2·y[n−2] = b0·x[n] + b1·x[n−1] + b2·x[n−2];
    stated for three consecutive calls from any state reached from rest -/
theorem iir_difference_equation (f : Iir3 α) (x0 x1 x2 : α) (hrest : f.w1 = 0 ∧ f.w2 = 0) :
    let s0 := f.step x0; let s1 := s0.1.step x1; let s2 := s1.1.step x2
    s2.2 + f.a.2.1 * s1.2 + f.a.2.2 * s0.2 = f.b.1 * x2 + f.b.2.1 * x1 + f.b.2.2 * x0 := by
  obtain ⟨h1, h2⟩ := hrest
  simp only [Iir3.step, h1, h2]
  grind

/-- the general step: for ANY internal state `(w1, w2)`, the call computes `w0 = x − a1·w1 − a2·w2`, returns
    `b0·w0 + b1·w1 + b2·w2` and shifts the state — the direct-form-II realisation of the transfer function b(z)/a(z) -/
theorem iir_state_recurrence (f : Iir3 α) (x : α) :
    (f.step x).2 = f.b.1 * (x - f.a.2.1 * f.w1 - f.a.2.2 * f.w2) + f.b.2.1 * f.w1 + f.b.2.2 * f.w2 := by
  simp only [Iir3.step]
  grind

theorem iir_state_shift (f : Iir3 α) (x : α) :
    (f.step x).1.w1 = x - f.a.2.1 * f.w1 - f.a.2.2 * f.w2 ∧ (f.step x).1.w2 = f.w1 := ⟨rfl, rfl⟩

/-! ## sliding DFT: the recursive update equals the direct DFT sum of the most recent window -/

/-- Σ_m past[m] · w^(k+m+1) -/
def dftSum (w : α) : List α → Nat → α
  | [], _ => 0
  | p :: ps, k => p * w ^ (k + 1) + dftSum w ps (k + 1)

theorem dftSum_shift (w : α) (l : List α) (k : Nat) : dftSum w l (k + 1) = w * dftSum w l k := by
  induction l generalizing k with
  | nil => simp [dftSum]; grind
  | cons p ps ih => simp only [dftSum]; rw [ih]; grind

theorem dftSum_snoc (w : α) (l : List α) (a : α) (k : Nat) :
    dftSum w (l ++ [a]) k = dftSum w l k + a * w ^ (k + l.length + 1) := by
  induction l generalizing k with
  | nil => simp [dftSum]; grind
  | cons p ps ih =>
    simp only [List.cons_append, dftSum, List.length_cons]
    rw [ih]
    have : k + 1 + ps.length + 1 = k + (ps.length + 1) + 1 := by omega
    rw [this]; grind

/-- the sliding-DFT state holds the window `past` (newest first) -/
def HoldsS (s : Sdft α) (past : List α) : Prop :=
  0 < s.samples.length ∧ s.index < s.samples.length ∧ past.length = s.samples.length ∧
  ∀ i, i < s.samples.length → s.samples.getD ((s.index + s.samples.length - 1 - i) % s.samples.length) 0 = past.getD i 0

/-- **sliding DFT closed form** (un-damped variant, `NSlidingDFT`): if the coefficient is an N-th root of unity
    (`w^N = 1`, true of `exp(−2πi·k/N)` for the configured integer bin `k`), the value kept and returned after each sample
    is Σ_{m<N} x[n−m]·w^(m+1): the DFT of the most recent N samples at that bin, up to a unit-modulus phase factor — so its
    magnitude is that of the direct DFT of the window -/
theorem nsdft_closed_form (s : Sdft α) (past : List α) (x : α) (h : HoldsS s past)
    (hw : s.coeff ^ s.samples.length = 1) (hd : s.damp = 1) (hr : s.result = dftSum s.coeff past 0) :
    (s.step x).2 = dftSum s.coeff (shiftIn s.samples.length past x) 0 ∧
    (s.step x).1.result = dftSum s.coeff (shiftIn s.samples.length past x) 0 ∧
    HoldsS (s.step x).1 (shiftIn s.samples.length past x) ∧ (s.step x).1.coeff = s.coeff ∧ (s.step x).1.damp = s.damp ∧
    (s.step x).1.samples.length = s.samples.length := by
  obtain ⟨h0, h1, h2, h3⟩ := h
  obtain ⟨m, hm⟩ : ∃ m, s.samples.length = m + 1 := ⟨s.samples.length - 1, by omega⟩
  -- the slot about to be overwritten holds the oldest sample of the window
  have hold : s.samples.getD s.index 0 = past.getD m 0 := by
    have := h3 m (by omega)
    rw [← this]; congr 1
    rw [hm]
    have e : s.index + (m + 1) - 1 - m = s.index := by omega
    rw [e]; exact (Nat.mod_eq_of_lt (by omega)).symm
  -- split the window into its newest m samples and the oldest one
  have hsplit : past = past.take m ++ [past.getD m 0] := by
    have hl : past.length = m + 1 := by omega
    apply List.ext_getElem?
    intro i
    by_cases hi : i < m
    · rw [List.getElem?_append_left (by simp; omega), List.getElem?_take, if_pos hi]
    · rw [List.getElem?_append_right (by simp; omega)]
      simp only [List.length_take, hl]
      by_cases him : i = m
      · subst him; simp [List.getD_eq_getElem?_getD, hl]
      · have : i - min m (m + 1) ≥ 1 := by omega
        rw [List.getElem?_eq_none (by omega)]
        cases hq : i - min m (m + 1) with
        | zero => omega
        | succ q => simp
  have hval : (s.result + (x - s.samples.getD s.index 0)) * s.coeff
      = dftSum s.coeff (shiftIn s.samples.length past x) 0 := by
    rw [hold, hr]
    unfold shiftIn
    rw [hm, List.take_succ_cons]
    simp only [dftSum, Nat.zero_add]
    rw [dftSum_shift]
    conv => lhs; rw [hsplit, dftSum_snoc]
    have hlen : (past.take m).length = m := by simp; omega
    rw [hlen, Nat.zero_add]
    rw [hm] at hw
    have hsp : (past.take m ++ [past.getD m 0]).getD m 0 = past.getD m 0 := by rw [← hsplit]
    rw [hsp]
    grind
  refine ⟨hval, ?_, ?_, rfl, rfl, by simp [Sdft.step]⟩
  · simp only [Sdft.step, hd]
    rw [hval]; grind
  · unfold HoldsS
    simp only [Sdft.step, List.length_set]
    refine ⟨h0, by split <;> omega, by simp [shiftIn, h2], ?_⟩
    exact ring_key s.samples past s.index s.samples.length x rfl h1 h3

/-! ## the root-raised-cosine tap sets (exact values of the current sources) -/

/-- exact tap values in units of 2^(1000−1074) = 2^-74 (every tap of the four tables is a multiple of that unit — checked
    by `tapsExact`; only ratios matter below, so the common unit is immaterial) -/
def tv (l : List (Int × Nat)) : List Int := l.map fun p => p.1 * ((2 ^ (p.2 - 1000) : Nat) : Int)

def tapsExact (l : List (Int × Nat)) : Bool := l.all fun p => decide (1000 ≤ p.2)

def dotI (a b : List Int) : Int := (List.zipWith (· * ·) a b).foldl (· + ·) 0

/-- k-th coefficient of the cascade (discrete convolution) of two tap sets -/
def cascade (a b : List Int) (k : Nat) : Int :=
  dotI (a.take (k + 1)) (((b ++ List.replicate a.length 0).take (k + 1)).reverse)

/-- symmetric about the centre of its first `n` entries (the 150-entry tables end with a literal 0.0) -/
def symmetric (t : List Int) (n : Nat) : Bool := (t.take n) == (t.take n).reverse && (t.drop n).all (· == 0)

/-- Nyquist criterion of the cascade at 10 samples per symbol: main tap at `p` positive and the largest; every
    symbol-spaced side tap below 0.5 % of it; their absolute sum below 2 % -/
def nyquistOK (a b : List Int) (p : Nat) : Bool :=
  let c := cascade a b
  let side := (List.range 30).flatMap fun j => if j == 0 then [] else [c (p + 10 * j), if 10 * j ≤ p then c (p - 10 * j) else 0]
  decide (0 < c p) && side.all (fun v => decide (200 * v.natAbs < (c p).natAbs)) &&
  decide (50 * (side.map Int.natAbs).foldl (· + ·) 0 < (c p).natAbs) &&
  (List.range (a.length + b.length)).all (fun k => decide (c k ≤ c p))

/-- all four tap sets in the repository are symmetric about their peak -/
theorem taps_symmetric :
    symmetric (tv Gen.rxTapsF) 149 = true ∧ symmetric (tv Gen.rxTapsD) 149 = true ∧
    symmetric (tv Gen.txTaps150) 149 = true ∧ symmetric (tv Gen.modTaps79) 79 = true := by decide +kernel

/-- every transmit/receive pairing cascades to a Nyquist pulse (side taps < 0.5 %, sum < 2 %) -/
theorem cascade_nyquist :
    nyquistOK (tv Gen.txTaps150) (tv Gen.rxTapsD) 148 = true ∧ nyquistOK (tv Gen.txTaps150) (tv Gen.rxTapsF) 148 = true ∧
    nyquistOK (tv Gen.modTaps79) (tv Gen.rxTapsD) 113 = true ∧ nyquistOK (tv Gen.modTaps79) (tv Gen.rxTapsF) 113 = true := by
  decide +kernel

theorem taps_exact : tapsExact Gen.rxTapsF = true ∧ tapsExact Gen.rxTapsD = true ∧ tapsExact Gen.txTaps150 = true ∧
    tapsExact Gen.modTaps79 = true := by decide +kernel

theorem gen_tx_scale : Gen.txScale = 7168 ∧ Gen.txTaps150.length = 150 ∧ Gen.modTaps79.length = 79 ∧
    Gen.rxTapsF.length = 150 ∧ Gen.rxTapsD.length = 150 := by decide +kernel

/-- the correlator's IIR denominators have a0 = 1.0 (= 2^52 · 2^1022 units of 2^-1074) -/
theorem corr_a0_one : (Gen.corrAF.head?.map fun p => (p.1 == 4503599627370496 && p.2 == 1022)) = some true ∧
    (Gen.corrAD.head?.map fun p => (p.1 == 4503599627370496 && p.2 == 1022)) = some true := by
  decide +kernel

end M17.C19

/-
C09 — CRC-16 is the M17 CRC for every message and detects all short error classes.

`M17.Crc` is the model of include/m17cxx/CRC16.h (augmented register, `reset()` pre-compensation,
16 flush steps in `get()`); `M17.Spec.crc16` is the textbook direct form (poly 0x5935, init 0xFFFF,
MSB first, no reflection, no final xor).  All statements hold for byte strings / bit strings of
every length.
-/
import M17.Lemmas.Crc

namespace M17.C09
open M17.Spec M17.CrcL M17.Bits

/-! ## bridge lemmas -/

theorem gen_poly_eq_spec : Gen.crcPoly = Spec.crcPoly := by decide
theorem gen_init_eq_spec : Gen.crcInit = Spec.crcInit := by decide
/-- the model's `reset()` computes the register value the dumper read back from the real object -/
theorem reset_eq_gen : Crc.reset = Gen.crcResetReg := by decide
theorem reset_lt : Crc.reset < 65536 := by decide
/-- `reset()` pre-compensates the 16 flush steps of `get()`: get() right after reset() is Init -/
theorem fwd16_reset : fwd16 Crc.reset = Spec.crcInit := by decide

/-! ## the implementation computes the specification CRC -/

theorem step_eq_aStep (r : Nat) (b : Bool) (hr : r < 65536) : Crc.step r b = aStep r b := by
  unfold Crc.step Crc.stepP aStep a0
  have hp : Crc.poly = crcPoly := gen_poly_eq_spec
  rw [hp, Nat.mod_eq_of_lt hr]
  have hor : (2 * r % 65536 ||| if b = true then 1 else 0) = (2 * r % 65536) ^^^ (if b = true then 1 else 0) := by
    cases b
    · simp
    · simp only [if_true]
      have h2 : 2 * r % 65536 = 2 * (r % 32768) := by omega
      rw [h2]
      have h3 := shl1_or (r % 32768) 1 (by decide)
      rw [shl1] at h3
      rw [h3]
      have h4 := xor_double_add (r % 32768) 0 0 1 (by decide) (by decide)
      simp at h4
      omega
  simp only [hor]
  by_cases h : 32768 ≤ r
  · simp only [h, if_true]; ac_rfl
  · simp [h]

theorem get_eq_fwd16 (r : Nat) (hr : r < 65536) : Crc.get r = fwd16 r := by
  unfold Crc.get fwd16
  have : ∀ n x, x < 65536 → Crc.iter (fun r => Crc.step r false) n x = iter a0 n x := by
    intro n
    induction n with
    | zero => intro x _; rfl
    | succ n ih =>
      intro x hx
      simp only [Crc.iter, iter]
      have h1 : Crc.step x false = a0 x := by rw [step_eq_aStep x false hx]; simp [aStep]
      rw [h1]; exact ih _ (a0_lt x)
  exact this 16 r hr

/-- feeding bits through the implementation's register step, viewed through `fwd16`, is the direct form -/
theorem bits_commute (bits : List Bool) : ∀ r, r < 65536 →
    fwd16 (bits.foldl Crc.step r) = crcBitsFrom (fwd16 r) bits ∧ bits.foldl Crc.step r < 65536 := by
  induction bits with
  | nil => intro r hr; exact ⟨rfl, hr⟩
  | cons b bs ih =>
    intro r hr
    simp only [List.foldl]
    rw [step_eq_aStep r b hr]
    obtain ⟨h1, h2⟩ := ih (aStep r b) (aStep_lt r b)
    refine ⟨?_, h2⟩
    rw [h1, commute r b hr]; rfl

theorem update_eq (r byte : Nat) (hr : r < 65536) :
    Crc.update r byte = (byteBits byte).foldl Crc.step r := by
  unfold Crc.update byteBits
  rw [List.foldl_map]
  have := (bits_commute ((List.range 8).map fun i => (byte >>> (7 - i)) % 2 = 1) r hr).2
  rw [List.foldl_map] at this
  exact Nat.mod_eq_of_lt this

theorem bytes_commute (bytes : List Nat) : ∀ r, r < 65536 →
    fwd16 (bytes.foldl Crc.update r) = crcBitsFrom (fwd16 r) (bytesBits bytes) ∧ bytes.foldl Crc.update r < 65536 := by
  induction bytes with
  | nil => intro r hr; exact ⟨rfl, hr⟩
  | cons b bs ih =>
    intro r hr
    simp only [List.foldl, bytesBits, List.flatMap_cons]
    rw [update_eq r b hr]
    obtain ⟨h1, h2⟩ := bits_commute (byteBits b) r hr
    obtain ⟨h3, h4⟩ := ih _ h2
    refine ⟨?_, h4⟩
    rw [h3, h1, crcBitsFrom_append]; rfl

/-- **after `reset()` the engine computes the M17 CRC-16 of every byte string** -/
theorem impl_eq_spec (bytes : List Nat) : Crc.crc bytes = Spec.crc16 bytes := by
  unfold Crc.crc Spec.crc16 crcBits
  obtain ⟨h1, h2⟩ := bytes_commute bytes Crc.reset reset_lt
  rw [get_eq_fwd16 _ h2, h1, fwd16_reset]

/-! ## a message followed by its CRC checks to zero -/

theorem crc16_lt (bytes : List Nat) : Spec.crc16 bytes < 65536 :=
  crcBitsFrom_lt _ _ (by decide)

theorem own_bytes_bits (v : Nat) (hv : v < 65536) : byteBits (v / 256) ++ byteBits (v % 256) = msbBits 16 v := by
  unfold byteBits
  have hr : List.range 8 = [0, 1, 2, 3, 4, 5, 6, 7] := by decide
  rw [hr]
  simp only [List.map, List.cons_append, List.nil_append, Nat.shiftRight_eq_div_pow, Nat.reduceSub, Nat.reducePow]
  simp only [msbBits]
  simp only [List.cons.injEq, and_true, decide_eq_decide]
  refine ⟨?_, ?_, ?_, ?_, ?_, ?_, ?_, ?_, ?_, ?_, ?_, ?_, ?_, ?_, ?_, ?_⟩ <;> omega

theorem append_crc_checks_zero (m : List Nat) : Spec.crc16 (m ++ Spec.crcBytes m) = 0 := by
  have hv := crc16_lt m
  unfold Spec.crcBytes
  generalize hvdef : Spec.crc16 m = v at hv ⊢
  unfold Spec.crc16 crcBits at hvdef ⊢
  unfold bytesBits at hvdef ⊢
  rw [List.flatMap_append, crcBitsFrom_append, hvdef]
  simp only [List.flatMap_cons, List.flatMap_nil, List.append_nil]
  rw [own_bytes_bits v hv]
  exact feed_msbBits16 v hv

/-- the same for the implementation, as the decoder uses it (`get_bytes()` appended, then `get() == 0`) -/
theorem impl_append_checks_zero (m : List Nat) :
    Crc.crc (m ++ Crc.getBytes (m.foldl Crc.update Crc.reset)) = 0 := by
  have h := impl_eq_spec m
  unfold Crc.crc at h
  have hb : Crc.getBytes (m.foldl Crc.update Crc.reset) = Spec.crcBytes m := by
    unfold Crc.getBytes Spec.crcBytes
    simp only [h]
    have hv := crc16_lt m
    generalize Spec.crc16 m = c at hv ⊢
    rw [Nat.shiftRight_eq_div_pow]
    have : c / 2 ^ 8 % 256 = c / 256 := by omega
    rw [this]
  rw [hb, impl_eq_spec]
  exact append_crc_checks_zero m

/-! ## error detection -/

/-- changing a message by the error pattern `e` changes the CRC exactly when the CRC of `e` from a
    zero register is non-zero -/
theorem detects_iff (m e : List Bool) (h : m.length = e.length) :
    crcBits (List.zipWith xor m e) ≠ crcBits m ↔ crcBitsFrom 0 e ≠ 0 := by
  unfold crcBits
  have := crc_affine m e crcInit 0 h (by decide) (by decide)
  rw [Nat.xor_zero] at this
  rw [this]
  constructor
  · intro hne h0; rw [h0, Nat.xor_zero] at hne; exact hne rfl
  · intro hne heq
    apply hne
    have : crcBitsFrom crcInit m ^^^ (crcBitsFrom crcInit m ^^^ crcBitsFrom 0 e) = 0 := by
      rw [heq, Nat.xor_self]
    rw [← Nat.xor_assoc, Nat.xor_self, Nat.zero_xor] at this
    exact this

theorem crc0_leading_zeros (i : Nat) (w : List Bool) :
    crcBitsFrom 0 (List.replicate i false ++ w) = crcBitsFrom 0 w := by
  rw [crcBitsFrom_append, crcBitsFrom_zeros, iter_a0_zero]

/-- value of a bit string read as a binary number -/
def bitsVal (bits : List Bool) : Nat := bits.foldl (fun v b => 2 * v + (if b then 1 else 0)) 0

/-- up to 16 bits fed into a zero augmented register are simply stored -/
theorem aug_short (bits : List Bool) : ∀ r k, r < 2 ^ k → k + bits.length ≤ 16 →
    bits.foldl aStep r = bits.foldl (fun v b => 2 * v + (if b then 1 else 0)) r ∧
    bits.foldl aStep r < 2 ^ (k + bits.length) := by
  induction bits with
  | nil => intro r k hr _; exact ⟨rfl, by simpa using hr⟩
  | cons b bs ih =>
    intro r k hr hk
    simp only [List.foldl, List.length_cons] at hk ⊢
    have hk15 : k ≤ 15 := by omega
    have hr15 : r < 32768 := Nat.lt_of_lt_of_le hr (by
      have := Nat.pow_le_pow_right (n := 2) (by decide) hk15; simpa using this)
    have hstep : aStep r b = 2 * r + (if b then 1 else 0) := by
      unfold aStep a0
      have : ¬ 32768 ≤ r := by omega
      rw [if_neg this, Nat.xor_zero, Nat.mod_eq_of_lt (by omega)]
      cases b
      · simp
      · have h4 := xor_double_add r 0 0 1 (by decide) (by decide)
        simp at h4; simpa using h4
    rw [hstep]
    have hlt : 2 * r + (if b then 1 else 0) < 2 ^ (k + 1) := by
      rw [Nat.pow_succ]; split <;> omega
    obtain ⟨h1, h2⟩ := ih _ (k + 1) hlt (by omega)
    refine ⟨h1, ?_⟩
    have : k + 1 + bs.length = k + (bs.length + 1) := by omega
    rw [this] at h2; exact h2

theorem direct_eq_fwd_aug (bits : List Bool) : ∀ r, r < 65536 →
    crcBitsFrom (fwd16 r) bits = fwd16 (bits.foldl aStep r) := by
  induction bits with
  | nil => intro r _; rfl
  | cons b bs ih =>
    intro r hr
    show crcBitsFrom (crcStep (fwd16 r) b) bs = _
    rw [← commute r b hr, ih _ (aStep_lt r b)]; rfl

theorem foldl_lead (bs : List Bool) : ∀ r, 1 ≤ r →
    1 ≤ bs.foldl (fun v b => 2 * v + (if b then 1 else 0)) r := by
  induction bs with
  | nil => intro r h; exact h
  | cons b bs ih => intro r h; simp only [List.foldl]; exact ih _ (by omega)

/-- a burst (first bit set, at most 16 bits wide) leaves a non-zero register -/
theorem burst_nonzero (b : List Bool) (hb : b.length ≤ 15) : crcBitsFrom 0 (true :: b) ≠ 0 := by
  have h0 : (0 : Nat) = fwd16 0 := fwd16_zero.symm
  rw [h0, direct_eq_fwd_aug _ 0 (by decide)]
  obtain ⟨h1, h2⟩ := aug_short (true :: b) 0 0 (by decide) (by simp; omega)
  have hne : (true :: b).foldl aStep 0 ≠ 0 := by
    rw [h1, List.foldl_cons]
    have := foldl_lead b (2 * 0 + (if true = true then 1 else 0)) (by simp)
    omega
  have hlt : (true :: b).foldl aStep 0 < 65536 := by
    have : 2 ^ (0 + (true :: b).length) ≤ 2 ^ 16 := Nat.pow_le_pow_right (by decide) (by simp; omega)
    omega
  exact iter_a0_ne_zero 16 _ hlt hne

/-- **every error burst of up to 16 bits changes the check value** (any message length, any position) -/
theorem detects_burst (m b : List Bool) (i j : Nat) (hb : b.length ≤ 15)
    (hm : m.length = i + (1 + b.length) + j) :
    crcBits (List.zipWith xor m (List.replicate i false ++ (true :: b) ++ List.replicate j false)) ≠ crcBits m := by
  rw [detects_iff _ _ (by simp; omega)]
  rw [List.append_assoc, crc0_leading_zeros, crcBitsFrom_append, crcBitsFrom_zeros]
  exact iter_a0_ne_zero j _ (crcBitsFrom_lt _ _ (by decide)) (burst_nonzero b hb)

/-- **every single-bit error changes the check value** -/
theorem detects_single (m : List Bool) (i j : Nat) (hm : m.length = i + 1 + j) :
    crcBits (List.zipWith xor m (List.replicate i false ++ [true] ++ List.replicate j false)) ≠ crcBits m :=
  detects_burst m [] i j (by simp) (by simpa using hm)

/-- the polynomial does not return to itself within 239 zero steps (order of x exceeds 239) -/
def orbitOK : Bool := (List.range 239).all fun d => iter a0 (d + 1) crcPoly != crcPoly

theorem orbit_ok : orbitOK = true := by decide +kernel

/-- **every double-bit error in a frame of up to 240 bits changes the check value** -/
theorem detects_double (m : List Bool) (i d j : Nat) (hd : d < 239)
    (hm : m.length = i + 1 + d + 1 + j) :
    crcBits (List.zipWith xor m
      (List.replicate i false ++ [true] ++ List.replicate d false ++ [true] ++ List.replicate j false)) ≠ crcBits m := by
  rw [detects_iff _ _ (by simp; omega)]
  rw [List.append_assoc, List.append_assoc, List.append_assoc, crc0_leading_zeros]
  rw [show [true] ++ (List.replicate d false ++ ([true] ++ List.replicate j false)) =
    ([true] ++ List.replicate d false ++ [true]) ++ List.replicate j false by simp]
  rw [crcBitsFrom_append, crcBitsFrom_zeros]
  apply iter_a0_ne_zero j _ (crcBitsFrom_lt _ _ (by decide))
  rw [crcBitsFrom_append, crcBitsFrom_append, crcBitsFrom_zeros]
  have h1 : crcBitsFrom 0 [true] = crcPoly := by decide
  rw [h1]
  show crcStep (iter a0 d crcPoly) true ≠ 0
  rw [crcStep_eq]
  simp only [if_true]
  have hstep : a0 (iter a0 d crcPoly) = iter a0 (d + 1) crcPoly := (iter_comm a0 d crcPoly).symm
  rw [hstep]
  intro h0
  have heq := eq_of_xor_eq_zero h0
  have := all_range orbit_ok hd
  simp only [bne_iff_ne, ne_eq] at this
  exact this heq

/-! ## non-vacuity -/
example : Crc.crc [0x41] = 0x206E := by decide +kernel
example : Spec.crc16 ([1, 2, 3] ++ Spec.crcBytes [1, 2, 3]) = 0 := by decide +kernel

end M17.C09

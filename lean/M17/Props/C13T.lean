/-
C13 / C01 — the frame builders of m17-mod (model `M17.TxMod`, written as the code is written) produce exactly the frames of the independent
specification encoder `M17.Spec.Tx`: link setup frame (LSF bytes and the 48 channel bytes) and every stream frame (LICH segment, frame
number, payload) — for every callsign pair over the M17 alphabet, every channel access number, every LICH index 0..5, every frame number
and every payload.  With `M17.Props.C01F` this makes "frames produced by the repository's own transmit code decode bit-exact" a theorem
about the models on both sides.
-/
import M17.Model.TxMod
import M17.Props.C20P

namespace M17.C13T
open M17.TxMod M17.Cond M17.Punct M17.C01F

def toN (b : Bool) : Nat := if b then 1 else 0
def toI (b : Bool) : Int := if b then 1 else 0

/-! ## the shift-register encoder is the specification's encoder -/

def msbOK : Bool := (List.range 256).all fun b => msbBits b == (Spec.byteBits b).map toN
theorem msb_ok : msbOK = true := by decide +kernel

theorem msbBits_eq (b : Nat) (hb : b < 256) : msbBits b = (Spec.byteBits b).map toN := by
  have := M17.Bits.all_range msb_ok hb
  simpa using this

def stepOK : Bool := (List.range 32).all fun m => [false, true].all fun x =>
  let m' := updateMemory m (toN x)
  decide (m' < 32) && convolveBit 0o31 m' == toN (Spec.convOut (m % 16) x).1 && convolveBit 0o27 m' == toN (Spec.convOut (m % 16) x).2 &&
  m' % 16 == Spec.convNext (m % 16) x
theorem step_ok : stepOK = true := by decide +kernel

theorem step_eq (m : Nat) (hm : m < 32) (x : Bool) :
    updateMemory m (toN x) < 32 ∧ convolveBit 0o31 (updateMemory m (toN x)) = toN (Spec.convOut (m % 16) x).1 ∧
    convolveBit 0o27 (updateMemory m (toN x)) = toN (Spec.convOut (m % 16) x).2 ∧
    updateMemory m (toN x) % 16 = Spec.convNext (m % 16) x := by
  have := M17.Bits.all_range step_ok hm
  simp only [List.all_cons, List.all_nil, Bool.and_true, Bool.and_eq_true, decide_eq_true_eq, beq_iff_eq] at this
  cases x
  · exact ⟨this.1.1.1.1, this.1.1.1.2, this.1.1.2, this.1.2⟩
  · exact ⟨this.2.1.1.1, this.2.1.1.2, this.2.1.2, this.2.2⟩

theorem encBits_eq : ∀ (bs : List Bool) (m : Nat), m < 32 →
    encBits m (bs.map toN) = (Spec.convFrom (m % 16) bs).flatMap fun p => [toN p.1, toN p.2] := by
  intro bs
  induction bs with
  | nil => intro m _; rfl
  | cons b bs ih =>
    intro m hm
    obtain ⟨h1, h2, h3, h4⟩ := step_eq m hm b
    simp only [List.map_cons, encBits, Spec.convFrom, List.flatMap_cons, List.cons_append, List.nil_append]
    rw [h2, h3, ih _ h1, h4]

theorem flatMap_map_pairs (cs : List (Bool × Bool)) :
    (cs.flatMap fun p => [toN p.1, toN p.2]) = (cs.flatMap fun p => [p.1, p.2]).map toN := by
  induction cs with
  | nil => rfl
  | cons c cs ih => simp only [List.flatMap_cons, List.map_append, List.map_cons, List.map_nil, ih]

theorem flatMap_msb (bytes : List Nat) (hb : Bytes.AllBytes bytes) : bytes.flatMap msbBits = (Spec.Tx.bitsOfBytes bytes).map toN := by
  unfold Spec.Tx.bitsOfBytes
  induction bytes with
  | nil => rfl
  | cons b bs ih =>
    simp only [List.flatMap_cons, List.map_append]
    rw [msbBits_eq b (hb b List.mem_cons_self), ih (fun x hx => hb x (List.mem_cons_of_mem _ hx))]

/-- **the code's convolutional encoder = the specification's**, for every byte string -/
theorem encodeBytes_eq (bytes : List Nat) (hb : Bytes.AllBytes bytes) :
    encodeBytes bytes = (Spec.convEncode (Spec.Tx.bitsOfBytes bytes)).map toN := by
  unfold encodeBytes Spec.convEncode
  rw [flatMap_msb bytes hb]
  have : ([0, 0, 0, 0] : List Nat) = [false, false, false, false].map toN := rfl
  rw [this, ← List.map_append, encBits_eq _ 0 (by decide), flatMap_map_pairs]

/-! ## puncturing, interleaving, randomizing and packing of 0/1 arrays -/

theorem punctureGo_map {α β} (f : α → β) (p : List Nat) : ∀ (xs : List α) (pi room : Nat),
    punctureGo p pi (xs.map f) room = (punctureGo p pi xs room).map f := by
  intro xs
  induction xs with
  | nil => intro pi room; cases room <;> simp [punctureGo]
  | cons x xs ih =>
    intro pi room
    cases room with
    | zero => simp [punctureGo]
    | succ room =>
      simp only [List.map_cons, punctureGo]
      split
      · simp [ih]
      · exact ih _ _

theorem toI_of_toN (b : Bool) : Int.ofNat (toN b) = toI b := by cases b <;> rfl

theorem punct_eq_spec (p : List Nat) (hp : 0 < p.length) (cbits : List Bool) (n : Nat) :
    punct p (cbits.map toN) n = (Spec.Tx.punct p cbits n).map toI := by
  unfold punct
  rw [List.map_map]
  have : (Int.ofNat ∘ toN) = toI := by funext b; exact toI_of_toN b
  rw [this, punctureGo_map, C11.puncture_spec, C01F.punct_eq p hp]

theorem getD_map_toI (xs : List Bool) (j : Nat) : (xs.map toI).getD j 0 = toI (xs.getD j false) := by
  simp only [List.getD_eq_getElem?_getD, List.getElem?_map]
  cases xs[j]? <;> rfl

attribute [local irreducible] Spec.Tx.ileave in
theorem ileave_eq_spec (xs : List Bool) (_h : xs.length = 368) : interleaveSoft (xs.map toI) = (Spec.Tx.ileave xs).map toI := by
  unfold interleaveSoft
  rw [C10.K_eq]
  apply Cond.list_ext_getD _ _ 0 368 (Cond.scatter_length _ _ _ _) (by rw [List.length_map, C01F.ileave_length])
  intro p hp
  rw [Cond.scatter_getD index C10.invIndex 368 C10.index_perm 0 _ p hp, getD_map_toI, getD_map_toI]
  congr 1
  rw [C01F.ileave_eq_scatter, Cond.scatter_getD Spec.ileaveIndex C10.invIndex 368 C01F.spec_index_perm false xs p hp]

theorem randBits_eq_spec (ys : List Bool) (h : ys.length = 368) : randBits (ys.map toI) = (Spec.Tx.rnd ys).map toI := by
  apply Cond.list_ext_getD _ _ 0 368 (by unfold randBits; simp [h]) (by rw [List.length_map, C01F.rnd_length ys h])
  intro i hi
  rw [getD_map_toI, C01F.rnd_getD ys h i hi]
  unfold randBits
  simp only [List.getD_eq_getElem?_getD, List.getElem?_map, List.getElem?_zipIdx, Nat.zero_add]
  have hy : ys[i]? = some ys[i] := List.getElem?_eq_getElem (by omega)
  simp only [hy, Option.map_some, Option.getD_some]
  have := (C10.rand_variants_agree 1 (by decide) (by decide) ys[i] i).2
  unfold toI
  rw [this]

/-- one output byte: `c <<= 1; c |= bit` eight times = the specification's MSB-first byte value -/
theorem packByte_eq (a b c d e f g h : Bool) :
    ([a, b, c, d, e, f, g, h].map toI).foldl (fun c v => ((c <<< 1) % 256) ||| v.toNat) 0 = Spec.Tx.byteOfBits [a, b, c, d, e, f, g, h] := by
  cases a <;> cases b <;> cases c <;> cases d <;> cases e <;> cases f <;> cases g <;> cases h <;> rfl

theorem list8 (l : List Bool) (h : l.length = 8) : ∃ a b c d e f g h', l = [a, b, c, d, e, f, g, h'] := by
  match l, h with
  | [a, b, c, d, e, f, g, h'], _ => exact ⟨a, b, c, d, e, f, g, h', rfl⟩

/-- **`output_bitstream` packs the frame as the specification does** (whole bytes) -/
theorem packBits_eq_spec (bits : List Bool) (h8 : bits.length % 8 = 0) : packBits (bits.map toI) = Spec.Tx.bytesOfBits bits := by
  unfold packBits Spec.Tx.bytesOfBits
  rw [List.length_map]
  have e : (bits.length + 7) / 8 = bits.length / 8 := by omega
  rw [e]
  apply List.map_congr_left
  intro k hk
  have hk' := List.mem_range.mp hk
  have hl : ((bits.drop (8 * k)).take 8).length = 8 := by rw [List.length_take, List.length_drop]; omega
  obtain ⟨a, b, c, d, e', f, g, h', hc⟩ := list8 _ hl
  rw [← List.map_drop, ← List.map_take, hc]
  exact packByte_eq a b c d e' f g h'

/-! ## Golay words of the LICH -/

theorem and_pow_ne_zero (x k : Nat) : (x &&& 2 ^ k ≠ 0) ↔ x.testBit k = true := by
  constructor
  · intro h
    by_cases ht : x.testBit k = true
    · exact ht
    · exfalso; apply h
      apply Nat.eq_of_testBit_eq
      intro j
      rw [Nat.testBit_and, Nat.testBit_two_pow, Nat.zero_testBit]
      by_cases hj : k = j
      · subst hj; simp at ht; simp [ht]
      · simp [hj]
  · intro ht h0
    have : (x &&& 2 ^ k).testBit k = true := by rw [Nat.testBit_and, Nat.testBit_two_pow, ht]; simp
    rw [h0, Nat.zero_testBit] at this
    cases this

theorem wordVals_eq (w : Nat) (_hw : w < 2 ^ 24) : wordVals w = (Spec.Tx.wordBits w 24).map toI := by
  unfold wordVals Spec.Tx.wordBits
  rw [List.map_map]
  apply List.map_congr_left
  intro i hi
  have hi' := List.mem_range.mp hi
  simp only [Function.comp]
  have h1 : (((w <<< i) % 2 ^ 32) &&& 2 ^ 23 ≠ 0) ↔ w.testBit (23 - i) = true := by
    rw [and_pow_ne_zero, Nat.testBit_mod_two_pow, Nat.testBit_shiftLeft]
    simp only [show (23 < 32) = True by simp, decide_true, Bool.true_and]
    have : (23 ≥ i) := by omega
    simp [this]
  have h2 : ((w >>> (24 - 1 - i)) % 2 = 1) ↔ w.testBit (23 - i) = true := by
    rw [Nat.testBit_eq_decide_div_mod_eq, Nat.shiftRight_eq_div_pow]
    have : 24 - 1 - i = 23 - i := by omega
    rw [this]; simp
  unfold toI
  by_cases ht : w.testBit (23 - i) = true
  · rw [if_pos (h1.mpr ht)]; simp [h2.mpr ht]
  · rw [if_neg (fun c => ht (h1.mp c))]
    have : ¬ ((w >>> (24 - 1 - i)) % 2 = 1) := fun c => ht (h2.mp c)
    simp [this]

/-! ## the link setup frame -/

def typeOK : Bool := (List.range 16).all fun can =>
  (can >>> 1) % 256 == Spec.Tx.voiceType can / 256 % 256 && (5 ||| ((can &&& 1) <<< 7)) % 256 == Spec.Tx.voiceType can % 256
theorem type_ok : typeOK = true := by decide

theorem crc_bytes_eq (body : List Nat) : [(Crc.crc body >>> 8) &&& 255, Crc.crc body &&& 255] = Spec.crcBytes body := by
  rw [C09.impl_eq_spec]
  have hlt := C09.crc16_lt body
  unfold Spec.crcBytes
  have e : (255 : Nat) = 2 ^ 8 - 1 := by decide
  rw [e, Nat.and_two_pow_sub_one_eq_mod, Nat.and_two_pow_sub_one_eq_mod, Nat.shiftRight_eq_div_pow]
  congr 1
  omega

/-- **the LSF bytes `send_lsf` builds are the specification's LSF** for the same callsigns and channel access number -/
theorem lsfBytes_eq_spec (src dst : List Nat) (hsv : ∀ c ∈ src, C17.validChar c = true) (hs1 : 1 ≤ src.length) (hs9 : src.length ≤ 9)
    (hdv : ∀ c ∈ dst, C17.validChar c = true) (hd9 : dst.length ≤ 9) (can : Nat) (hcan : can < 16) :
    TxMod.lsfBytes src dst can = Spec.Tx.lsfBytes dst src (Spec.Tx.voiceType can) (List.replicate 14 0) := by
  unfold TxMod.lsfBytes Spec.Tx.lsfBytes
  have hs := (C20P.spec_callsign_eq src hsv hs1 hs9).symm
  have hd : (if dst.isEmpty = true then List.replicate 6 255 else Call.encode (Call.pad dst)) = Spec.Tx.callsign dst := by
    cases dst with
    | nil => rfl
    | cons c cs =>
      simp only [List.isEmpty_cons, Bool.false_eq_true, if_false]
      exact (C20P.spec_callsign_eq (c :: cs) hdv (by simp) hd9).symm
  have ht := M17.Bits.all_range type_ok hcan
  simp only [Bool.and_eq_true, beq_iff_eq] at ht
  simp only [hs, hd, ht.1, ht.2, crc_bytes_eq]

theorem lsf_len (dst src : List Nat) (typ : Nat) : (Spec.Tx.lsfBytes dst src typ (List.replicate 14 0)).length = 30 :=
  (C20P.lsf_facts dst src typ (List.replicate 14 0) (by simp) (by intro b hb; simp only [List.mem_replicate] at hb; omega)).len

theorem lsf_allbytes (dst src : List Nat) (typ : Nat) : Bytes.AllBytes (Spec.Tx.lsfBytes dst src typ (List.replicate 14 0)) :=
  (C20P.lsf_facts dst src typ (List.replicate 14 0) (by simp) (by intro b hb; simp only [List.mem_replicate] at hb; omega)).bytes

/-- the 368 channel values of any 30-byte LSF are the specification's channel bits -/
theorem lsfFrameVals_eq (lsf : List Nat) (hl : lsf.length = 30) (hb : Bytes.AllBytes lsf) :
    lsfFrameVals lsf = (Spec.Tx.lsfFrameBits lsf).map toI := by
  unfold lsfFrameVals Spec.Tx.lsfFrameBits
  rw [encodeBytes_eq lsf hb, punct_eq_spec Gen.p1 C01F.p1_pos, C11.gen_p1_eq_spec]
  have hu : (Spec.Tx.bitsOfBytes lsf).length = 240 := by rw [C01F.bitsOfBytes_length, hl]
  have hpl : (Spec.Tx.punct Spec.p1 (Spec.convEncode (Spec.Tx.bitsOfBytes lsf)) 368).length = 368 := by
    rw [← C11.gen_p1_eq_spec]
    exact C01F.punct_length Gen.p1 C01F.p1_pos _ 488 368 (by rw [hu]) (by rw [C11.kept_lsf]; omega)
  rw [ileave_eq_spec _ hpl, randBits_eq_spec _ (C01F.ileave_length _)]

/-- **`send_lsf` emits exactly the specification's link setup frame** (sync word and 46 channel bytes) -/
theorem sendLsf_eq_spec (src dst : List Nat) (hsv : ∀ c ∈ src, C17.validChar c = true) (hs1 : 1 ≤ src.length) (hs9 : src.length ≤ 9)
    (hdv : ∀ c ∈ dst, C17.validChar c = true) (hd9 : dst.length ≤ 9) (can : Nat) (hcan : can < 16) :
    sendLsf src dst can = Spec.Tx.lsfFrame (Spec.Tx.lsfBytes dst src (Spec.Tx.voiceType can) (List.replicate 14 0)) := by
  unfold sendLsf Spec.Tx.lsfFrame
  rw [lsfBytes_eq_spec src dst hsv hs1 hs9 hdv hd9 can hcan, lsfFrameVals_eq _ (lsf_len _ _ _) (lsf_allbytes _ _ _)]
  have h368 : (Spec.Tx.lsfFrameBits (Spec.Tx.lsfBytes dst src (Spec.Tx.voiceType can) (List.replicate 14 0))).length = 368 := by
    unfold Spec.Tx.lsfFrameBits; exact C01F.rnd_length _ (C01F.ileave_length _)
  rw [packBits_eq_spec _ (by rw [h368])]
  rfl

/-! ## stream frames -/

theorem hi_word (x y : Nat) (hx : x < 256) (hy : y < 256) : ((x <<< 4) ||| ((y >>> 4) &&& 15)) % 65536 = x * 16 + y / 16 := by
  have e : (15 : Nat) = 2 ^ 4 - 1 := by decide
  rw [e, Nat.and_two_pow_sub_one_eq_mod, Nat.shiftRight_eq_div_pow]
  have h1 : y / 2 ^ 4 % 2 ^ 4 < 2 ^ 4 := Nat.mod_lt _ (by decide)
  rw [← Nat.shiftLeft_add_eq_or_of_lt h1, Nat.shiftLeft_eq]
  omega

theorem lo_word (x y : Nat) (_hx : x < 256) (hy : y < 256) : (((x &&& 15) <<< 8) ||| y) % 65536 = (x % 16) * 256 + y := by
  have e : (15 : Nat) = 2 ^ 4 - 1 := by decide
  rw [e, Nat.and_two_pow_sub_one_eq_mod]
  have h1 : y < 2 ^ 8 := by omega
  rw [← Nat.shiftLeft_add_eq_or_of_lt h1, Nat.shiftLeft_eq]
  omega

/-- **`make_lich_segment` builds the specification's LICH bits** for fragment `n` (0..5) of any 30-byte LSF -/
theorem lichSegment_eq_spec (lsf : List Nat) (hl : lsf.length = 30) (hb : Bytes.AllBytes lsf) (n : Nat) (hn : n < 6) :
    lichSegment ((lsf.drop (5 * n)).take 5) n = (Spec.Tx.lichBits lsf n).map toI := by
  have h6 : n % 6 = n := Nat.mod_eq_of_lt hn
  have h8 : n % 8 = n := Nat.mod_eq_of_lt (by omega)
  have hsl5 : ((lsf.drop (5 * n)).take 5).length = 5 := by rw [List.length_take, List.length_drop, hl]; omega
  -- the five segment bytes
  obtain ⟨b0, b1, b2, b3, b4, hseg⟩ : ∃ b0 b1 b2 b3 b4, (lsf.drop (5 * n)).take 5 = [b0, b1, b2, b3, b4] := by
    match (lsf.drop (5 * n)).take 5, hsl5 with
    | [b0, b1, b2, b3, b4], _ => exact ⟨b0, b1, b2, b3, b4, rfl⟩
  have hmem : ∀ b ∈ [b0, b1, b2, b3, b4], b < 256 := by
    intro b hbm; rw [← hseg] at hbm; exact hb b (List.mem_of_mem_drop (List.mem_of_mem_take hbm))
  have l0 := hmem b0 (by simp); have l1 := hmem b1 (by simp); have l2 := hmem b2 (by simp)
  have l3 := hmem b3 (by simp); have l4 := hmem b4 (by simp)
  have l5 : n * 32 < 256 := by omega
  obtain ⟨d0, d1, d2, d3⟩ := C01F.lich_data_words b0 b1 b2 b3 b4 (n * 32) l0 l1 l2 l3 l4 l5
  unfold C01F.bitsVal at d0 d1 d2 d3
  have hspec : Spec.Tx.lichBits lsf n =
      Spec.Tx.wordBits (Spec.golay24 (b0 * 16 + b1 / 16)) 24 ++ (Spec.Tx.wordBits (Spec.golay24 ((b1 % 16) * 256 + b2)) 24 ++
      (Spec.Tx.wordBits (Spec.golay24 (b3 * 16 + b4 / 16)) 24 ++ Spec.Tx.wordBits (Spec.golay24 ((b4 % 16) * 256 + n * 32)) 24)) := by
    unfold Spec.Tx.lichBits
    simp only [h6, h8, hseg, List.cons_append, List.nil_append, List.range, List.range.loop, List.flatMap_cons, List.flatMap_nil,
      List.append_nil, d0, d1, d2, d3]
  rw [hspec, hseg]
  unfold lichSegment
  simp only [List.getD_cons_zero, List.getD_cons_succ]
  have hn256 : n % 256 = n := Nat.mod_eq_of_lt (by omega)
  have e3 : (n % 256) <<< 5 = n * 32 := by rw [hn256, Nat.shiftLeft_eq]
  rw [hi_word b0 b1 l0 l1, lo_word b1 b2 l1 l2, hi_word b3 b4 l3 l4, e3, lo_word b4 (n * 32) l4 l5]
  rw [C04.encode24_eq_spec _ (by omega), C04.encode24_eq_spec _ (by omega), C04.encode24_eq_spec _ (by omega), C04.encode24_eq_spec _ (by omega)]
  have g (d : Nat) (hd : d < 4096) : Spec.golay24 d < 2 ^ 24 := by
    rw [← C04.encode24_eq_spec d hd]; exact (C04.encode_systematic d hd).2
  rw [wordVals_eq _ (g _ (by omega)), wordVals_eq _ (g _ (by omega)), wordVals_eq _ (g _ (by omega)), wordVals_eq _ (g _ (by omega))]
  simp only [List.map_append, List.append_assoc]

/-- `make_data_frame` builds the specification's punctured code word of frame number ‖ payload -/
theorem dataFrame_eq_spec (fn : Nat) (_hfn : fn < 65536) (payload : List Nat) (hp : Bytes.AllBytes payload) :
    dataFrame fn payload = (Spec.Tx.punct Spec.p2 (Spec.convEncode (Spec.Tx.bitsOfBytes ([fn / 256 % 256, fn % 256] ++ payload))) 272).map toI := by
  unfold dataFrame
  have e : (255 : Nat) = 2 ^ 8 - 1 := by decide
  have h1 : (fn >>> 8) &&& 255 = fn / 256 % 256 := by rw [e, Nat.and_two_pow_sub_one_eq_mod, Nat.shiftRight_eq_div_pow]
  have h2 : fn &&& 255 = fn % 256 := by rw [e, Nat.and_two_pow_sub_one_eq_mod]
  rw [h1, h2]
  have hb : Bytes.AllBytes ([fn / 256 % 256, fn % 256] ++ payload) := by
    intro b hbm
    rcases List.mem_append.mp hbm with h | h
    · simp only [List.mem_cons, List.not_mem_nil, or_false] at h; rcases h with rfl | rfl <;> omega
    · exact hp b h
  rw [encodeBytes_eq _ hb, punct_eq_spec Gen.p2 C01F.p2_pos, C11.gen_p2_eq_spec]

/-- **every stream frame `transmit()` sends is the specification's stream frame**: LICH fragment `n` of the LSF, 16-bit frame number,
    16 payload bytes -/
theorem streamFrame_eq_spec (lsf : List Nat) (hl : lsf.length = 30) (hb : Bytes.AllBytes lsf) (n : Nat) (hn : n < 6)
    (fn : Nat) (hfn : fn < 65536) (payload : List Nat) (hpl : payload.length = 16) (hp : Bytes.AllBytes payload) :
    TxMod.streamFrame lsf n fn payload = Spec.Tx.streamFrame lsf n fn payload := by
  unfold TxMod.streamFrame sendAudioFrame Spec.Tx.streamFrame Spec.Tx.streamFrameBits
  rw [lichSegment_eq_spec lsf hl hb n hn, dataFrame_eq_spec fn hfn payload hp, ← List.map_append]
  have hu : (Spec.Tx.bitsOfBytes ([fn / 256 % 256, fn % 256] ++ payload)).length = 144 := by
    rw [C01F.bitsOfBytes_length]; simp [hpl]
  have hpun : (Spec.Tx.punct Spec.p2 (Spec.convEncode (Spec.Tx.bitsOfBytes ([fn / 256 % 256, fn % 256] ++ payload))) 272).length = 272 := by
    rw [← C11.gen_p2_eq_spec]
    exact C01F.punct_length Gen.p2 C01F.p2_pos _ 296 272 (by rw [hu]) (by rw [C11.kept_stream]; omega)
  have h368 : (Spec.Tx.lichBits lsf n ++ Spec.Tx.punct Spec.p2 (Spec.convEncode (Spec.Tx.bitsOfBytes ([fn / 256 % 256, fn % 256] ++ payload))) 272).length = 368 := by
    rw [List.length_append, C01F.lichBits_length, hpun]
  rw [ileave_eq_spec _ h368, randBits_eq_spec _ (C01F.ileave_length _), packBits_eq_spec _ (by rw [C01F.rnd_length _ (C01F.ileave_length _)])]
  rfl

/-! ## consequence: frames of m17-mod's transmit code decode bit-exact (C01, second transmitter) -/

/-- the bits carried by a 48-byte frame of the model are the specification's channel bits (what `C01F.lsf_roundtrip` / `stream_roundtrip`
    take as input): the frame is sync word ‖ packed bits -/
theorem sendLsf_bits (src dst : List Nat) (hsv : ∀ c ∈ src, C17.validChar c = true) (hs1 : 1 ≤ src.length) (hs9 : src.length ≤ 9)
    (hdv : ∀ c ∈ dst, C17.validChar c = true) (hd9 : dst.length ≤ 9) (can : Nat) (hcan : can < 16) :
    sendLsf src dst can = [0x55, 0xF7] ++ Spec.Tx.bytesOfBits (Spec.Tx.lsfFrameBits (Spec.Tx.lsfBytes dst src (Spec.Tx.voiceType can) (List.replicate 14 0))) := by
  rw [sendLsf_eq_spec src dst hsv hs1 hs9 hdv hd9 can hcan]; rfl

theorem byteBits_byteOfBits (a b c d e f g h : Bool) :
    Spec.byteBits (Spec.Tx.byteOfBits [a, b, c, d, e, f, g, h]) = [a, b, c, d, e, f, g, h] := by
  cases a <;> cases b <;> cases c <;> cases d <;> cases e <;> cases f <;> cases g <;> cases h <;> rfl

theorem bytesOfBits_cons8 (a b c d e f g h : Bool) (rest : List Bool) :
    Spec.Tx.bytesOfBits (a :: b :: c :: d :: e :: f :: g :: h :: rest) =
      Spec.Tx.byteOfBits [a, b, c, d, e, f, g, h] :: Spec.Tx.bytesOfBits rest := by
  unfold Spec.Tx.bytesOfBits
  have e1 : ((a :: b :: c :: d :: e :: f :: g :: h :: rest).length + 7) / 8 = (rest.length + 7) / 8 + 1 := by
    simp only [List.length_cons]; omega
  rw [e1, List.range_succ_eq_map, List.map_cons, List.map_map]
  congr 1

/-- the bits of the packed bytes are the bits that were packed (whole bytes) -/
theorem bits_of_bytesOfBits : ∀ (n : Nat) (bits : List Bool), bits.length = 8 * n → Spec.Tx.bitsOfBytes (Spec.Tx.bytesOfBits bits) = bits := by
  intro n
  induction n with
  | zero => intro bits h; have : bits = [] := List.eq_nil_of_length_eq_zero (by omega); subst this; rfl
  | succ n ih =>
    intro bits h
    match bits, h with
    | a :: b :: c :: d :: e :: f :: g :: h' :: rest, h =>
      rw [bytesOfBits_cons8]
      unfold Spec.Tx.bitsOfBytes
      rw [List.flatMap_cons, byteBits_byteOfBits]
      have := ih rest (by simp only [List.length_cons] at h; omega)
      unfold Spec.Tx.bitsOfBytes at this
      rw [this]; rfl

/-- **C01 for the second transmitter**: the link setup frame m17-mod emits (model `sendLsf`), received as ANY clean soft image of its 46
    channel bytes, is decoded to exactly the LSF m17-mod built, reported with result OK, and the decoder enters stream mode -/
theorem m17mod_lsf_decodes (lo : Int) (hlo : 1 ≤ lo) (σ : Dec.DState) (cb : Bool) (src dst : List Nat)
    (hsv : ∀ c ∈ src, C17.validChar c = true) (hs1 : 1 ≤ src.length) (hs9 : src.length ≤ 9)
    (hdv : ∀ c ∈ dst, C17.validChar c = true) (hd9 : dst.length ≤ 9) (can : Nat) (hcan : can < 16)
    (frame : List Int) (hr : SoftImage lo (Spec.Tx.bitsOfBytes ((sendLsf src dst can).drop 2)) frame) :
    (Dec.step σ .lsf frame cb).calls = [⟨.lsf, TxMod.lsfBytes src dst can, cleanCost Gen.p1 frame 488⟩] ∧
    (Dec.step σ .lsf frame cb).result = .ok ∧ (Dec.step σ .lsf frame cb).state.mode = .stream := by
  rw [sendLsf_bits src dst hsv hs1 hs9 hdv hd9 can hcan] at hr
  have h368 : (Spec.Tx.lsfFrameBits (Spec.Tx.lsfBytes dst src (Spec.Tx.voiceType can) (List.replicate 14 0))).length = 8 * 46 := by
    unfold Spec.Tx.lsfFrameBits; rw [C01F.rnd_length _ (C01F.ileave_length _)]
  have hd2 : ([0x55, 0xF7] ++ Spec.Tx.bytesOfBits (Spec.Tx.lsfFrameBits (Spec.Tx.lsfBytes dst src (Spec.Tx.voiceType can) (List.replicate 14 0)))).drop 2 =
      Spec.Tx.bytesOfBits (Spec.Tx.lsfFrameBits (Spec.Tx.lsfBytes dst src (Spec.Tx.voiceType can) (List.replicate 14 0))) := rfl
  rw [hd2, bits_of_bytesOfBits 46 _ h368] at hr
  have := C20P.link_report lo hlo σ cb src dst hsv hs1 hs9 hdv hd9 can hcan (List.replicate 14 0) (by simp)
    (by intro b hb; simp only [List.mem_replicate] at hb; omega) frame hr
  rw [lsfBytes_eq_spec src dst hsv hs1 hs9 hdv hd9 can hcan]
  exact ⟨this.1, this.2.1, this.2.2.1⟩

/-- … and every stream frame m17-mod emits, received in stream mode as any clean soft image, is delivered with exactly its frame number
    and payload -/
theorem m17mod_stream_decodes (lo : Int) (hlo : 1 ≤ lo) (σ : Dec.DState) (hm : σ.mode = .stream) (cb : Bool)
    (lsf : List Nat) (hl : lsf.length = 30) (hb : Bytes.AllBytes lsf) (n : Nat) (hn : n < 6)
    (fn : Nat) (hfn : fn < 65536) (payload : List Nat) (hpl : payload.length = 16) (hp : Bytes.AllBytes payload)
    (frame : List Int) (hr : SoftImage lo (Spec.Tx.bitsOfBytes ((TxMod.streamFrame lsf n fn payload).drop 2)) frame) :
    (Dec.step σ .stream frame cb).calls.map (fun c => (c.ftype, c.bytes)) = [(.stream, [fn / 256 % 256, fn % 256] ++ payload)] ∧
    (Dec.step σ .stream frame cb).result = .ok := by
  rw [streamFrame_eq_spec lsf hl hb n hn fn hfn payload hpl hp] at hr
  unfold Spec.Tx.streamFrame at hr
  have hd2 : (Spec.Tx.streamSync ++ Spec.Tx.bytesOfBits (Spec.Tx.streamFrameBits lsf n ([fn / 256 % 256, fn % 256] ++ payload))).drop 2 =
      Spec.Tx.bytesOfBits (Spec.Tx.streamFrameBits lsf n ([fn / 256 % 256, fn % 256] ++ payload)) := rfl
  have h368 : (Spec.Tx.streamFrameBits lsf n ([fn / 256 % 256, fn % 256] ++ payload)).length = 8 * 46 := by
    unfold Spec.Tx.streamFrameBits; rw [C01F.rnd_length _ (C01F.ileave_length _)]
  rw [hd2, bits_of_bytesOfBits 46 _ h368] at hr
  have hdb : Bytes.AllBytes ([fn / 256 % 256, fn % 256] ++ payload) := by
    intro b hbm
    rcases List.mem_append.mp hbm with h | h
    · simp only [List.mem_cons, List.not_mem_nil, or_false] at h; rcases h with rfl | rfl <;> omega
    · exact hp b h
  have := C01F.stream_roundtrip lo hlo σ hm lsf n _ (by simp [hpl]) hdb frame cb hr
  rw [this]
  exact ⟨rfl, rfl⟩

/-! ## BERT frames -/

theorem packByteN_eq' (a b c d e f g h : Bool) :
    ([a, b, c, d, e, f, g, h].map toN).foldl (fun t b => ((t <<< 1) % 256) ||| b) 0 = Spec.Tx.byteOfBits [a, b, c, d, e, f, g, h] := by
  cases a <;> cases b <;> cases c <;> cases d <;> cases e <;> cases f <;> cases g <;> cases h <;> rfl

theorem last5 (a b c d e : Bool) :
    (msbBits ((([a, b, c, d, e].map toN).foldl (fun t b => ((t <<< 1) % 256) ||| b) 0 <<< 3) % 256)).take 5 = [a, b, c, d, e].map toN := by
  cases a <;> cases b <;> cases c <;> cases d <;> cases e <;> rfl

theorem byteOfBits_lt' (a b c d e f g h : Bool) : Spec.Tx.byteOfBits [a, b, c, d, e, f, g, h] < 256 := by
  cases a <;> cases b <;> cases c <;> cases d <;> cases e <;> cases f <;> cases g <;> cases h <;> decide

theorem bytesOfBits_bytes : ∀ (n : Nat) (bits : List Bool), bits.length = 8 * n → Bytes.AllBytes (Spec.Tx.bytesOfBits bits) := by
  intro n
  induction n with
  | zero =>
    intro bits h
    have : bits = [] := List.eq_nil_of_length_eq_zero (by omega)
    subst this; intro b hb; simp [Spec.Tx.bytesOfBits] at hb
  | succ n ih =>
    intro bits h
    match bits, h with
    | a :: b :: c :: d :: e :: f :: g :: h' :: rest, h =>
      rw [bytesOfBits_cons8]
      intro x hx
      rcases List.mem_cons.mp hx with rfl | hx
      · exact byteOfBits_lt' a b c d e f g h'
      · exact ih rest (by simp only [List.length_cons] at h; omega) x hx

/-- the 24 full data bytes `make_bert_frame` builds, read back bit by bit, are the first 192 generator bits -/
theorem bert_repack (bs : List Bool) (h : bs.length = 197) :
    ((bertData (bs.map toN)).take 24).flatMap msbBits = (bs.take 192).map toN := by
  unfold bertData
  rw [List.take_append_of_le_length (by simp), List.take_of_length_le (by simp)]
  have hpk : (List.range 24).map (fun k => (((bs.map toN).drop (8 * k)).take 8).foldl (fun b x => ((b <<< 1) % 256) ||| x) 0) =
      Spec.Tx.bytesOfBits (bs.take 192) := by
    unfold Spec.Tx.bytesOfBits
    have e : ((bs.take 192).length + 7) / 8 = 24 := by rw [List.length_take, h]; decide
    rw [e]
    apply List.map_congr_left
    intro k hk
    have hk' := List.mem_range.mp hk
    have hl : (((bs.take 192).drop (8 * k)).take 8).length = 8 := by
      rw [List.length_take, List.length_drop, List.length_take, h]; omega
    obtain ⟨a, b, c, d, e', f, g, h', hc⟩ := list8 _ hl
    have hsame : ((bs.take 192).drop (8 * k)).take 8 = (bs.drop (8 * k)).take 8 := by
      rw [List.drop_take, List.take_take, Nat.min_eq_left (by omega)]
    rw [← List.map_drop, ← List.map_take, ← hsame, hc]
    exact packByteN_eq' a b c d e' f g h'
  rw [hpk, flatMap_msb _ (bytesOfBits_bytes 24 _ (by rw [List.length_take, h]; decide)), bits_of_bytesOfBits 24 _ (by rw [List.length_take, h]; decide)]

theorem bert_last (bs : List Bool) (h : bs.length = 197) :
    (msbBits ((bertData (bs.map toN)).getD 24 0)).take 5 = (bs.drop 192).map toN := by
  unfold bertData
  rw [List.getD_eq_getElem?_getD, List.getElem?_append_right (by simp)]
  simp only [List.length_map, List.length_range, Nat.sub_self, List.getElem?_cons_zero, Option.getD_some]
  have hl : ((bs.drop 192).take 5).length = 5 := by rw [List.length_take, List.length_drop, h]; decide
  obtain ⟨a, b, c, d, e, hc⟩ : ∃ a b c d e, (bs.drop 192).take 5 = [a, b, c, d, e] := by
    match (bs.drop 192).take 5, hl with
    | [a, b, c, d, e], _ => exact ⟨a, b, c, d, e, rfl⟩
  have hd : bs.drop 192 = [a, b, c, d, e] := by
    rw [← hc, List.take_of_length_le (by rw [List.length_drop, h]; decide)]
  rw [← List.map_drop, ← List.map_take, hc, hd]
  exact last5 a b c d e

/-- **`make_bert_frame` + the BERT loop of `main()` emit exactly the specification's BERT frame** of the 197 generator bits -/
theorem bertFrame_eq_spec (bs : List Bool) (h : bs.length = 197) : TxMod.bertFrame (bs.map toN) = Spec.Tx.bertFrame bs := by
  unfold TxMod.bertFrame bertFrameVals Spec.Tx.bertFrame Spec.Tx.bertFrameBits
  simp only
  rw [bert_repack bs h, bert_last bs h, ← List.map_append, List.take_append_drop]
  have : ([0, 0, 0, 0] : List Nat) = [false, false, false, false].map toN := rfl
  rw [this, ← List.map_append, encBits_eq _ 0 (by decide), flatMap_map_pairs]
  have hce : ((Spec.convFrom (0 % 16) (bs ++ [false, false, false, false])).flatMap fun p => [p.1, p.2]) = Spec.convEncode bs := rfl
  rw [hce, punct_eq_spec Gen.p2 C01F.p2_pos, C11.gen_p2_eq_spec]
  have hpl : (Spec.Tx.punct Spec.p2 (Spec.convEncode bs) 368).length = 368 := by
    rw [← C11.gen_p2_eq_spec]
    exact C01F.punct_length Gen.p2 C01F.p2_pos bs 402 368 (by rw [h]) (by rw [C11.kept_bert.1]; omega)
  rw [ileave_eq_spec _ hpl, randBits_eq_spec _ (C01F.ileave_length _), packBits_eq_spec _ (by rw [C01F.rnd_length _ (C01F.ileave_length _)])]
  rfl

/-! ## non-vacuity -/
example : sendLsf ("W1AW".toList.map Char.toNat) [] 10 =
    Spec.Tx.lsfFrame (Spec.Tx.lsfBytes [] ("W1AW".toList.map Char.toNat) (Spec.Tx.voiceType 10) (List.replicate 14 0)) :=
  sendLsf_eq_spec _ _ (by decide) (by decide) (by decide) (by simp) (by simp) 10 (by decide)

end M17.C13T

/-
C06 — no history latches the carrier detector off.  Theorems about `Dcd.update` at `Ext` (exact arithmetic with the
IEEE special values); the same function is executed at binary32 against `DataCarrierDetect` by the correspondence.
-/
import M17.Model.Dcd
import M17.Gen.Taps

namespace M17.C06
open M17.Dcd M17.Dcd.Ext

/-- carrier-detect thresholds of the demodulator (`dcd{2400, 3600, 0.1, 4.0}`), regenerated from the current headers on
    every run: exact values of the binary32 constants -/
def loQ : Rat := (Gen.dcdLo.1 : Rat) / (Gen.dcdLo.2 : Rat)
def hiQ : Rat := (Gen.dcdHi.1 : Rat) / (Gen.dcdHi.2 : Rat)
def lo : Ext := fin loQ
def hi : Ext := fin hiQ

/-- what the theorems below need of the thresholds in the current headers -/
theorem gen_thresholds : 0 < loQ ∧ loQ ≤ 1 / 5 ∧ loQ ≤ hiQ ∧ hiQ ≤ 4 := by decide +kernel

/-- a state is sane when its level is a finite non-negative number -/
def Sane (s : State Ext) : Prop := ∃ q : Rat, s.level = fin q ∧ 0 ≤ q

/-- band energies are sums of squared magnitudes: finite and non-negative -/
def Energy (e : Ext) : Prop := ∃ q : Rat, e = fin q ∧ 0 ≤ q

theorem rat_div_nonneg {a b : Rat} (ha : 0 ≤ a) (hb : 0 < b) : 0 ≤ a / b := by
  rw [Rat.div_def]; exact Rat.mul_nonneg ha (Rat.le_of_lt (Rat.inv_pos.2 hb))

theorem rat_le_div {r a b : Rat} (hb : 0 < b) (hr : r * b ≤ a) : r ≤ a / b := by
  apply Rat.not_lt.1
  intro h
  have := (Rat.div_lt_iff hb).1 h
  exact absurd this (Rat.not_lt.2 hr)

/-- one update keeps the level finite and non-negative, whatever the band energies — including both zero -/
theorem update_sane (s : State Ext) (l1 l2 : Ext) (hs : Sane s) (h1 : Energy l1) (h2 : Energy l2) :
    Sane (update ops lo hi s l1 l2) := by
  obtain ⟨q, hq, hq0⟩ := hs
  obtain ⟨a, rfl, ha⟩ := h1
  obtain ⟨b, rfl, hb⟩ := h2
  unfold Sane update
  simp only [hq, ops, gt, decide_eq_true_eq]
  by_cases hb0 : b > 0
  · have hbne : b ≠ 0 := by intro h; rw [h] at hb0; exact absurd hb0 (by decide)
    simp only [hb0, ↓reduceIte, div, hbne, scale, add]
    refine ⟨_, rfl, ?_⟩
    have : 0 ≤ a / b := rat_div_nonneg ha hb0
    grind
  · simp only [hb0, ↓reduceIte, scale, add]
    exact ⟨_, rfl, by grind⟩

/-- **no NaN latch**: from the initial state, after ANY history of band energies (exact digital silence included) the
    level is a finite number -/
theorem dcd_no_nan_latch (xs : List (Ext × Ext)) (hx : ∀ p ∈ xs, Energy p.1 ∧ Energy p.2) (s : State Ext) (hs : Sane s) :
    Sane (run ops lo hi s xs) := by
  induction xs generalizing s with
  | nil => exact hs
  | cons p xs ih =>
    simp only [run, List.foldl_cons]
    exact ih (fun q hq => hx q (List.mem_cons_of_mem _ hq)) _ (update_sane s p.1 p.2 hs (hx p (List.mem_cons_self)).1 (hx p (List.mem_cons_self)).2)

/-- the level after an update with in-band/out-of-band ratio at least `r` -/
theorem update_level_ge (s : State Ext) (q a b r : Rat) (hq : s.level = fin q) (hb : 0 < b) (hr : r * b ≤ a) :
    ∃ q' : Rat, (update ops lo hi s (fin a) (fin b)).level = fin q' ∧ 4 / 5 * q + 1 / 5 * r ≤ q' := by
  have hbne : b ≠ 0 := by intro h; rw [h] at hb; exact absurd hb (by decide)
  unfold update
  simp only [hq, ops, gt, decide_eq_true_eq, hb, ↓reduceIte, div, hbne, scale, add]
  refine ⟨_, rfl, ?_⟩
  have : r ≤ a / b := rat_le_div hb hr
  grind

/-- a carrier present for four consecutive updates is detected: whatever finite non-negative level the history left
    behind (and whether or not `unlock` was called), four updates whose band-energy ratio is at least 8 assert carrier detect -/
theorem dcd_recovers (s : State Ext) (hs : Sane s) (a1 b1 a2 b2 a3 b3 a4 b4 : Rat)
    (h1 : 0 < b1 ∧ 8 * b1 ≤ a1) (h2 : 0 < b2 ∧ 8 * b2 ≤ a2) (h3 : 0 < b3 ∧ 8 * b3 ≤ a3) (h4 : 0 < b4 ∧ 8 * b4 ≤ a4) :
    (run ops lo hi s [(fin a1, fin b1), (fin a2, fin b2), (fin a3, fin b3), (fin a4, fin b4)]).triggered = true := by
  obtain ⟨q0, hq0, h0⟩ := hs
  simp only [run, List.foldl_cons, List.foldl_nil]
  obtain ⟨q1, e1, g1⟩ := update_level_ge s q0 a1 b1 8 hq0 h1.1 h1.2
  obtain ⟨q2, e2, g2⟩ := update_level_ge _ q1 a2 b2 8 e1 h2.1 h2.2
  obtain ⟨q3, e3, g3⟩ := update_level_ge _ q2 a3 b3 8 e2 h3.1 h3.2
  obtain ⟨q4, e4, g4⟩ := update_level_ge _ q3 a4 b4 8 e3 h4.1 h4.2
  have hq4 : q4 > 4 := by grind
  generalize hS : update ops lo hi (update ops lo hi (update ops lo hi s (fin a1) (fin b1)) (fin a2) (fin b2)) (fin a3) (fin b3) = s3 at e4 ⊢
  have hlev : (update ops lo hi s3 (fin a4) (fin b4)).level = fin q4 := e4
  have htr : (update ops lo hi s3 (fin a4) (fin b4)).triggered
      = if s3.triggered then gt (update ops lo hi s3 (fin a4) (fin b4)).level lo else gt (update ops lo hi s3 (fin a4) (fin b4)).level hi := rfl
  rw [htr, hlev]
  have hth := gen_thresholds
  have h1' : gt (fin q4) lo = true := by simp only [lo, gt, decide_eq_true_eq]; grind
  have h2' : gt (fin q4) hi = true := by simp only [hi, gt, decide_eq_true_eq]; grind
  split <;> assumption

/-- every pair of a history is a block with positive out-of-band energy and band-energy ratio at least `r` -/
def RatioGe (r : Rat) (xs : List (Ext × Ext)) : Prop :=
  ∀ p ∈ xs, ∃ a b : Rat, p = (fin a, fin b) ∧ 0 < b ∧ r * b ≤ a

/-- level after `n` blocks of ratio at least `r`: at least `r - (4/5)^n (r - q)` from level `q` (induction over the history) -/
theorem run_level_ge (r : Rat) (xs : List (Ext × Ext)) (hx : RatioGe r xs) (s : State Ext) (q : Rat) (hq : s.level = fin q) :
    ∃ q' : Rat, (run ops lo hi s xs).level = fin q' ∧ r - (4 / 5) ^ xs.length * (r - q) ≤ q' := by
  induction xs generalizing s q with
  | nil => exact ⟨q, hq, by simp only [List.length_nil, Rat.pow_zero]; grind⟩
  | cons p xs ih =>
    obtain ⟨a, b, rfl, hb, hr⟩ := hx _ List.mem_cons_self
    obtain ⟨q1, e1, g1⟩ := update_level_ge s q a b r hq hb hr
    obtain ⟨q', e', g'⟩ := ih (fun p hp => hx p (List.mem_cons_of_mem _ hp)) _ q1 e1
    refine ⟨q', by simpa only [run, List.foldl_cons] using e', ?_⟩
    have hc : (0 : Rat) ≤ (4 / 5) ^ xs.length := Rat.pow_nonneg (by decide +kernel)
    have hm : (4 / 5 : Rat) ^ xs.length * (r - q1) ≤ (4 / 5) ^ xs.length * (4 / 5 * (r - q)) :=
      Rat.mul_le_mul_of_nonneg_left (by grind) hc
    simp only [List.length_cons, Rat.pow_succ]
    generalize (4 / 5 : Rat) ^ xs.length = c at *
    grind

/-- **general recovery bound**: after ANY history that left a finite non-negative level, `n ≥ 1` consecutive blocks whose band-energy
    ratio is at least `r` assert carrier detect as soon as `(4/5)^n · r < r − htrigger` — e.g. 4 blocks at ratio 8, 10 blocks at 4.5 -/
theorem dcd_recovers_within (r : Rat) (xs : List (Ext × Ext)) (hx : RatioGe r xs) (hne : xs ≠ [])
    (s : State Ext) (hs : Sane s) (hr0 : 0 ≤ r) (hn : (4 / 5) ^ xs.length * r < r - hiQ) :
    (run ops lo hi s xs).triggered = true := by
  obtain ⟨q0, hq0, h0⟩ := hs
  obtain ⟨q', e', g'⟩ := run_level_ge r xs hx s q0 hq0
  have hc : (0 : Rat) ≤ (4 / 5) ^ xs.length := Rat.pow_nonneg (by decide +kernel)
  have hm : (4 / 5 : Rat) ^ xs.length * (r - q0) ≤ (4 / 5) ^ xs.length * r := Rat.mul_le_mul_of_nonneg_left (by grind) hc
  have hq' : hiQ < q' := by
    generalize (4 / 5 : Rat) ^ xs.length = c at *
    grind
  -- the flag is recomputed by the last update from the final level
  obtain ⟨ys, p, rfl⟩ : ∃ ys p, xs = ys ++ [p] := ⟨xs.dropLast, xs.getLast hne, (List.dropLast_concat_getLast hne).symm⟩
  have hrun : run ops lo hi s (ys ++ [p]) = update ops lo hi (run ops lo hi s ys) p.1 p.2 := by
    simp only [run, List.foldl_append, List.foldl_cons, List.foldl_nil]
  rw [hrun] at e' ⊢
  generalize run ops lo hi s ys = s3 at e' ⊢
  have htr : (update ops lo hi s3 p.1 p.2).triggered
      = if s3.triggered then gt (update ops lo hi s3 p.1 p.2).level lo else gt (update ops lo hi s3 p.1 p.2).level hi := rfl
  rw [htr, e']
  have hth := gen_thresholds
  have h1' : gt (fin q') lo = true := by simp only [lo, gt, decide_eq_true_eq]; grind
  have h2' : gt (fin q') hi = true := by simp only [hi, gt, decide_eq_true_eq]; exact hq'
  split <;> assumption

/-- the bound instantiated at the ratio measured on clean transmissions (≥ 4.5 on every block): ten blocks suffice -/
theorem dcd_recovers_10_at_4_5 (xs : List (Ext × Ext)) (hx : RatioGe (9 / 2) xs) (hl : xs.length = 10) (s : State Ext) (hs : Sane s) :
    (run ops lo hi s xs).triggered = true := by
  apply dcd_recovers_within (9 / 2) xs hx (by intro h; rw [h] at hl; exact absurd hl (by decide)) s hs (by decide +kernel)
  rw [hl]
  have := gen_thresholds
  have h10 : ((4 / 5 : Rat) ^ 10) * (9 / 2) < 1 / 2 := by decide +kernel
  grind

/-- once asserted, carrier detect holds as long as the ratio stays above the low threshold -/
theorem dcd_holds (s : State Ext) (q a b : Rat) (hq : s.level = fin q) (hl : loQ < q) (ht : s.triggered = true)
    (hb : 0 < b) (hr : loQ * b < a) : (update ops lo hi s (fin a) (fin b)).triggered = true := by
  have hbne : b ≠ 0 := by intro h; rw [h] at hb; exact absurd hb (by decide)
  have hr' : loQ < a / b := by rw [Rat.lt_div_iff hb]; exact hr
  unfold update
  simp only [hq, ht, ops, gt, decide_eq_true_eq, hb, ↓reduceIte, div, hbne, scale, add, lo]
  grind

/-- what the guard is for: without it, one update on exact digital silence makes the level NaN … -/
theorem unguarded_silence_is_nan (s : State Ext) (q : Rat) (hq : s.level = fin q) :
    (updateUnguarded ops lo hi s (fin 0) (fin 0)).level = nan ∧ (updateUnguarded ops lo hi s (fin 0) (fin 0)).triggered = false := by
  unfold updateUnguarded
  simp [hq, ops, div, scale, add, gt]

/-- … and from a NaN level no later band energies whatsoever can assert carrier detect again (the latch) -/
theorem unguarded_nan_latches (xs : List (Ext × Ext)) (s : State Ext) (hn : s.level = nan) (ht : s.triggered = false) :
    (xs.foldl (fun s p => updateUnguarded ops lo hi s p.1 p.2) s).triggered = false
      ∧ (xs.foldl (fun s p => updateUnguarded ops lo hi s p.1 p.2) s).level = nan := by
  induction xs generalizing s with
  | nil => exact ⟨ht, hn⟩
  | cons p xs ih =>
    simp only [List.foldl_cons]
    apply ih
    · unfold updateUnguarded; simp only [hn, ops, scale]
      cases hd : Ext.div p.1 p.2 <;> simp [add]
    · unfold updateUnguarded; simp only [hn, ht, ops, scale]
      cases hd : Ext.div p.1 p.2 <;> simp [add, gt, hi]

/-- non-vacuity: digital silence followed by four blocks with ratio 10 -/
example : (run ops lo hi ⟨fin 0, false⟩ [(fin 0, fin 0), (fin 0, fin 0), (fin 10, fin 1), (fin 10, fin 1), (fin 10, fin 1), (fin 10, fin 1)]).triggered = true := by
  decide +kernel

end M17.C06

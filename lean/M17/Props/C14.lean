/-
C14 — M17Modulator emits a complete, well-formed stream for every key-up: preamble, LSF, audio frames numbered
0,1,2,… with LICH segments cycling 0..5, a final frame with the end-of-stream bit, and ends idle.
-/
import M17.Model.Modulator

namespace M17.C14
open M17.Modulator

theorem samples_succ (n : Nat) (m : M) : samples (n + 1) m = onSample (samples n m) := rfl

/-- audio received while idle is discarded and changes nothing -/
theorem idle_discards_audio (m : M) (h : m.st = .idle) (n : Nat) : samples n m = m := by
  induction n with
  | zero => rfl
  | succ n ih => rw [samples_succ, ih]; unfold onSample; simp [h]

/-- the audio frames sent while ACTIVE after `j` samples -/
def audioFrames (j : Nat) : List Item := (List.range (j / 320)).map fun k => Item.audio (k % 0x8000) (k % 6) 320

/-- invariant of the ACTIVE phase after `j` samples -/
theorem active_phase (base : List Item) (j : Nat) (m : M)
    (h : m.st = .active ∧ m.index = 0 ∧ m.fn = 0 ∧ m.lich = 0 ∧ m.out = base) :
    (samples j m).st = .active ∧ (samples j m).index = j % 320 ∧ (samples j m).fn = (j / 320) % 0x8000 ∧
    (samples j m).lich = (j / 320) % 6 ∧ (samples j m).out = base ++ audioFrames j := by
  induction j with
  | zero => obtain ⟨h1, h2, h3, h4, h5⟩ := h; exact ⟨h1, h2, h3, h4, by simp [samples, audioFrames, h5]⟩
  | succ j ih =>
    obtain ⟨i1, i2, i3, i4, i5⟩ := ih
    rw [samples_succ]
    generalize samples j m = s at i1 i2 i3 i4 i5
    by_cases hc : s.index + 1 = 320
    · have hd : (j + 1) / 320 = j / 320 + 1 := by omega
      have e1 : (onSample s).st = .active := by unfold onSample; simp only [i1]; rw [if_pos hc]
      have e2 : (onSample s).index = 0 := by unfold onSample; simp only [i1]; rw [if_pos hc]
      have e3 : (onSample s).fn = (if (s.fn + 1) % 65536 = 0x8000 then 0 else (s.fn + 1) % 65536) := by
        unfold onSample; simp only [i1]; rw [if_pos hc]
      have e4 : (onSample s).lich = (if s.lich + 1 = 6 then 0 else s.lich + 1) := by
        unfold onSample; simp only [i1]; rw [if_pos hc]
      have e5 : (onSample s).out = s.out ++ [Item.audio s.fn s.lich 320] := by
        unfold onSample; simp only [i1]; rw [if_pos hc]
      refine ⟨e1, by rw [e2]; omega, ?_, ?_, ?_⟩
      · rw [e3, i3]; split <;> omega
      · rw [e4, i4]; split <;> omega
      · rw [e5, i5, i3, i4]
        unfold audioFrames
        rw [hd, List.range_succ, List.map_append, List.append_assoc]
        rfl
    · have hd : (j + 1) / 320 = j / 320 := by omega
      have e1 : (onSample s).st = .active := by unfold onSample; simp only [i1]; rw [if_neg hc]
      have e2 : (onSample s).index = s.index + 1 := by unfold onSample; simp only [i1]; rw [if_neg hc]
      have e3 : (onSample s).fn = s.fn := by unfold onSample; simp only [i1]; rw [if_neg hc]
      have e4 : (onSample s).lich = s.lich := by unfold onSample; simp only [i1]; rw [if_neg hc]
      have e5 : (onSample s).out = s.out := by unfold onSample; simp only [i1]; rw [if_neg hc]
      refine ⟨e1, by rw [e2]; omega, by rw [e3, hd]; exact i3, by rw [e4, hd]; exact i4, ?_⟩
      rw [e5]; unfold audioFrames; rw [hd]; exact i5

theorem eos_bit (fn : Nat) (h : fn < 0x8000) : (fn ||| 0x8000) % 65536 = fn + 0x8000 := by
  have := Nat.two_pow_add_eq_or_of_lt (i := 15) (b := fn) (by simpa using h) 1
  rw [Nat.or_comm]
  simp only [Nat.mul_one] at this
  rw [show (0x8000 : Nat) = 2 ^ 15 from rfl, ← this]
  omega

/-- one key-up: `ptt_on`, the two samples that trigger preamble and link setup, `n` audio samples, `ptt_off`, one more sample -/
def keyup (n : Nat) (m : M) : M := onSample (pttOff (samples n (onSample (onSample (pttOn m)))))

/-- **every key-up, for every amount of audio**: from IDLE the modulator emits exactly the preamble, the LSF frame, one
    audio frame per complete 320-sample block numbered 0,1,2,… (mod 0x8000) with LICH segments cycling 0..5, then one
    frame with the end-of-stream bit carrying the remaining samples; nothing else -/
theorem keyup_output (m : M) (h : m.st = .idle) (n : Nat) :
    (keyup n m).out = m.out ++ [Item.preamble, Item.lsf] ++ audioFrames n ++
      [Item.audio ((n / 320) % 0x8000 + 0x8000) ((n / 320) % 6) (n % 320 + 1)] := by
  unfold keyup
  have e1 : pttOn m = { m with st := .preamble } := by unfold pttOn; simp [h]
  have e2 : onSample (onSample (pttOn m)) = { m with st := .active, index := 0, fn := 0, lich := 0, out := m.out ++ [.preamble] ++ [.lsf] } := by
    rw [e1]; simp [onSample]
  rw [e2]
  obtain ⟨a1, a2, a3, a4, a5⟩ := active_phase (m.out ++ [.preamble] ++ [.lsf]) n
    ({ m with st := .active, index := 0, fn := 0, lich := 0, out := m.out ++ [.preamble] ++ [.lsf] } : M) ⟨rfl, rfl, rfl, rfl, rfl⟩
  generalize samples n _ = s at a1 a2 a3 a4 a5
  have hp : pttOff s = { s with st := .endOfStream } := by unfold pttOff; simp only [a1, if_true]
  rw [hp]
  show s.out ++ [Item.audio ((s.fn ||| 0x8000) % 65536) s.lich (s.index + 1)] = _
  rw [a5, a3, a4, a2, eos_bit _ (by omega)]
  simp [List.append_assoc]

/-- **the modulator ends idle** (and a further key-up starts again from frame number 0, LICH 0 — set in LINK_SETUP) -/
theorem keyup_ends_idle (m : M) (h : m.st = .idle) (n : Nat) : (keyup n m).st = .idle := by
  unfold keyup
  have e1 : pttOn m = { m with st := .preamble } := by unfold pttOn; simp [h]
  have e2 : onSample (onSample (pttOn m)) = { m with st := .active, index := 0, fn := 0, lich := 0, out := m.out ++ [.preamble] ++ [.lsf] } := by
    rw [e1]; simp [onSample]
  rw [e2]
  obtain ⟨a1, _⟩ := active_phase (m.out ++ [.preamble] ++ [.lsf]) n
    ({ m with st := .active, index := 0, fn := 0, lich := 0, out := m.out ++ [.preamble] ++ [.lsf] } : M) ⟨rfl, rfl, rfl, rfl, rfl⟩
  generalize samples n _ = s at a1
  have hp : pttOff s = { s with st := .endOfStream } := by unfold pttOff; simp only [a1, if_true]
  rw [hp]; rfl

/-- the LICH segment index used for every frame is below 6 (array bound of `lich`) -/
theorem lich_index_in_range (n k : Nat) : (k % 6) < 6 ∧ ((n / 320) % 6) < 6 := ⟨Nat.mod_lt _ (by decide), Nat.mod_lt _ (by decide)⟩

/-! non-vacuity -/
example : (keyup 700 { st := .idle, index := 0, fn := 0, lich := 0, out := [] }).out =
    [.preamble, .lsf, .audio 0 0 320, .audio 1 1 320, .audio 32770 2 61] := by decide +kernel

end M17.C14

/-
C11 — puncture / depuncture keep positions exactly and mark everything else erased.
Generic in the matrix, the lengths, the contents and the previous content of the output buffer;
then instantiated for the four (matrix, length) pairs of the modem.
-/
import M17.Model.Puncture
import M17.Spec.Fec
import M17.Lemmas.Cond

namespace M17.C11
open M17.Punct M17.Bytes

/-! ## bridge lemmas -/
theorem gen_p1_eq_spec : Gen.p1 = Spec.p1 := by decide
theorem gen_p2_eq_spec : Gen.p2 = Spec.p2 := by decide
theorem gen_p3_eq_spec : Gen.p3 = Spec.p3 := by decide

/-! ## specification vocabulary -/

/-- matrix row reached after `i` loop iterations starting at `pi` -/
def pIdx (p : List Nat) : Nat → Nat → Nat
  | pi, 0 => pi
  | pi, i+1 => pIdx p (nextP p pi) i

/-- the loop's wrap-around is the cyclic repetition of the matrix -/
theorem pIdx_eq_mod (p : List Nat) (pi i : Nat) (hpi : pi < p.length) : pIdx p pi i = (pi + i) % p.length := by
  induction i generalizing pi with
  | zero => simp [pIdx, Nat.mod_eq_of_lt hpi]
  | succ i ih =>
    simp only [pIdx]
    unfold nextP
    by_cases h : pi + 1 = p.length
    · rw [if_pos h, ih 0 (by omega)]
      have : pi + (i + 1) = i + p.length := by omega
      rw [this, Nat.zero_add, Nat.add_mod_right]
    · rw [if_neg h, ih (pi + 1) (by omega)]
      congr 1; omega

/-- kept values in order: positions where the cyclically repeated matrix is 1 -/
def keptSeq (p : List Nat) : Nat → List α → List α
  | _, [] => []
  | pi, x :: xs => if pAt p pi then x :: keptSeq p (nextP p pi) xs else keptSeq p (nextP p pi) xs

/-- number of kept positions among the first `i` -/
def rank (p : List Nat) : Nat → Nat → Nat
  | _, 0 => 0
  | pi, i+1 => (if pAt p pi then 1 else 0) + rank p (nextP p pi) i

/-! ## puncture -/

/-- **puncturing keeps exactly the positions where the matrix is 1, in order, up to the output size** -/
theorem puncture_spec (p : List Nat) (pi : Nat) (xs : List α) (room : Nat) :
    punctureGo p pi xs room = (keptSeq p pi xs).take room := by
  induction xs generalizing pi room with
  | nil => cases room <;> simp [punctureGo, keptSeq]
  | cons x xs ih =>
    cases room with
    | zero => simp [punctureGo]
    | succ room =>
      simp only [punctureGo, keptSeq]
      split
      · simp [ih]
      · exact ih _ _

/-- the output buffer: kept values first, previous content beyond them untouched; return value = count -/
theorem puncture_out (p : List Nat) (xs prev : List α) :
    (puncture p xs prev).1 = (keptSeq p 0 xs).take prev.length ++ prev.drop ((keptSeq p 0 xs).take prev.length).length ∧
    (puncture p xs prev).2 = ((keptSeq p 0 xs).take prev.length).length := by
  unfold puncture; simp [puncture_spec]

/-- the value at original position `i`, if kept, sits at index `rank i` of the kept sequence -/
theorem keptSeq_rank (p : List Nat) (d : α) (xs : List α) : ∀ (pi i : Nat), i < xs.length → pAt p (pIdx p pi i) = true →
    (keptSeq p pi xs).getD (rank p pi i) d = xs.getD i d := by
  induction xs with
  | nil => intro pi i h; simp at h
  | cons x xs ih =>
    intro pi i hi hk
    cases i with
    | zero =>
      simp only [pIdx] at hk
      simp [keptSeq, hk, rank]
    | succ i =>
      simp only [pIdx] at hk
      simp only [keptSeq, rank]
      have := ih (nextP p pi) i (by simpa using hi) hk
      by_cases hp : pAt p pi
      · simp only [hp, if_true]
        rw [Nat.add_comm, List.getD_cons_succ, this, List.getD_cons_succ]
      · simp only [hp]
        simp only [Bool.false_eq_true, if_false, Nat.zero_add, this, List.getD_cons_succ]

/-- packed-byte variant: same kept bits, written MSB-first from bit 0 -/
theorem punctureBytes_bit (p : List Nat) (inb prev : List Nat) (i : Nat)
    (hi : i < (punctureBytes p inb prev).2) :
    getBit (punctureBytes p inb prev).1 i = ((keptSeq p 0 (unpack inb)).take (8 * prev.length)).getD i false := by
  unfold punctureBytes at hi ⊢
  simp only [puncture_spec] at hi ⊢
  generalize hk : (keptSeq p 0 (unpack inb)).take (8 * prev.length) = kept at hi ⊢
  have hkl : kept.length ≤ 8 * prev.length := by rw [← hk]; simp [List.length_take]; omega
  -- run the loop on the identity "permutation" of the first 8*len bit positions
  have := Cond.assign_prefix id id (8 * prev.length) (Cond.bij_id _) (fun i => kept.getD i false) prev rfl
    kept.length hkl i (by omega)
  simp only [id] at this
  rw [this, if_pos hi]

/-! ## depuncture -/

/-- **de-puncturing puts each received value back at its original position and writes the erasure
    value 0 at every punctured or not-received position** — whatever the buffer held before -/
theorem depuncture_spec (p : List Nat) : ∀ (n pi : Nat) (xs : List Int) (i : Nat), i < n →
    (depunctureGo p pi xs n).getD i 0 =
      if pAt p (pIdx p pi i) then xs.getD (rank p pi i) 0 else 0 := by
  intro n
  induction n with
  | zero => intro pi xs i h; omega
  | succ n ih =>
    intro pi xs i hi
    cases i with
    | zero =>
      simp only [depunctureGo, pIdx, rank]
      by_cases hp : pAt p pi
      · cases xs <;> simp [hp]
      · simp [hp]
    | succ i =>
      simp only [depunctureGo, pIdx, rank]
      by_cases hp : pAt p pi
      · cases xs with
        | nil =>
          simp only [hp, Bool.not_true, Bool.false_eq_true, if_false, List.getD_cons_succ]
          rw [ih _ _ _ (by omega)]; simp
        | cons x xs =>
          simp only [hp, Bool.not_true, Bool.false_eq_true, if_false, List.getD_cons_succ, if_true]
          rw [ih _ _ _ (by omega), Nat.add_comm 1, List.getD_cons_succ]
      · simp only [hp, Bool.not_false, if_true, List.getD_cons_succ, Bool.false_eq_true, if_false, Nat.zero_add]
        rw [ih _ _ _ (by omega)]

theorem depunctureGo_length (p : List Nat) : ∀ (n pi : Nat) (xs : List Int), (depunctureGo p pi xs n).length = n := by
  intro n
  induction n with
  | zero => intro pi xs; rfl
  | succ n ih =>
    intro pi xs
    simp only [depunctureGo]
    split
    · simp [ih]
    · split <;> simp [ih]

/-- the result does not depend on the previous content of the output buffer (only on its length) -/
theorem depuncture_prev_independent (p : List Nat) (xs prev1 prev2 : List Int) (h : prev1.length = prev2.length) :
    depuncture p xs prev1 = depuncture p xs prev2 := by
  unfold depuncture; rw [h]

/-- **depuncture after puncture is the identity on kept positions (that fit the frame), 0 elsewhere** -/
theorem depuncture_puncture (p : List Nat) (xs : List Int) (out n : Nat) (hn : n = xs.length) (i : Nat) (hi : i < n) :
    (depunctureGo p 0 (punctureGo p 0 xs out) n).getD i 0 =
      if pAt p (pIdx p 0 i) ∧ rank p 0 i < out then xs.getD i 0 else 0 := by
  rw [depuncture_spec p n 0 _ i hi, puncture_spec]
  by_cases hk : pAt p (pIdx p 0 i)
  · simp only [hk, if_true, true_and]
    by_cases hr : rank p 0 i < out
    · rw [if_pos hr]
      have := keptSeq_rank p (0 : Int) xs 0 i (by omega) hk
      rw [← this]
      simp only [List.getD_eq_getElem?_getD, List.getElem?_take, hr, if_true]
    · rw [if_neg hr]
      simp only [List.getD_eq_getElem?_getD, List.getElem?_take, hr, if_false, Option.getD_none]
  · simp [hk]

/-! ## the four modem geometries (kernel evaluation on position-tagged frames) -/

/-- number of kept positions among the first `n` -/
def keptCount (p : List Nat) (n : Nat) : Nat := (keptSeq p 0 (List.range n)).length

theorem kept_lsf : keptCount Gen.p1 488 = 368 := by decide +kernel
theorem kept_stream : keptCount Gen.p2 296 = 272 := by decide +kernel
/-- BERT: 369 positions are kept, so the 368-bit frame drops the last one (position 401 is "not received") -/
theorem kept_bert : keptCount Gen.p2 402 = 369 ∧ pAt Gen.p2 (pIdx Gen.p2 0 401) = true ∧ rank Gen.p2 0 401 = 368 := by
  decide +kernel
theorem kept_packet : keptCount Gen.p3 420 = 368 := by decide +kernel

/-- puncturing yields exactly one frame's worth of bits: 368, 272, 368, 368 -/
theorem frame_sizes :
    (punctureGo Gen.p1 0 (List.range 488) 368).length = 368 ∧
    (punctureGo Gen.p2 0 (List.range 296) 272).length = 272 ∧
    (punctureGo Gen.p2 0 (List.range 402) 368).length = 368 ∧
    (punctureGo Gen.p3 0 (List.range 420) 368).length = 368 := by decide +kernel

/-! ## the defect of the pinned loop, documented -/

/-- the loop as pinned leaves the last BERT slot as it was: the result depends on `prev` -/
theorem pinned_depuncture_keeps_stale_slot :
    (depunctureGoPinned Gen.p2 0 (List.replicate 368 1) (List.replicate 402 7)).getD 401 0 = 7 := by
  decide +kernel

example : (depunctureGo Gen.p2 0 (List.replicate 368 1) 402).getD 401 0 = 0 := by decide +kernel

end M17.C11

/-
C12 — "the second soft bit never decreases with the sample's magnitude", lifted from the table-level check `Monotone2` to every value:
for 0 ≤ x ≤ y the second soft bit of y is at least that of x, and for x ≤ y ≤ 0 the second soft bit of x is at least that of y.
-/
import M17.Props.C12

namespace M17.C12M
open M17.Llr M17.C12

/-- adjacent entries: from threshold −1 upwards the second soft bit does not decrease -/
def Up (tbl : List E) : Bool := (tbl.zip tbl.tail).all fun p => !decide (-one ≤ p.1.1) || decide (p.1.2.2 ≤ p.2.2.2)
/-- adjacent entries: while thresholds are at most +1 the second soft bit does not increase -/
def Down (tbl : List E) : Bool := (tbl.zip tbl.tail).all fun p => !decide (p.2.1 ≤ one) || decide (p.2.2.2 ≤ p.1.2.2)

theorem mono2_split (tbl : List E) (h : Monotone2 tbl = true) :
    Up tbl = true ∧ Down tbl = true ∧ (∃ e ∈ tbl, 0 ≤ e.1 ∧ e.1 ≤ one) := by
  unfold Monotone2 at h
  simp only [Bool.and_eq_true, List.all_eq_true, List.any_eq_true, decide_eq_true_eq] at h
  obtain ⟨⟨hall, ⟨e, he, he1⟩⟩, _⟩ := h
  refine ⟨?_, ?_, ⟨e, he, he1⟩⟩
  · unfold Up; rw [List.all_eq_true]; intro p hp; exact (hall p hp).2
  · unfold Down; rw [List.all_eq_true]; intro p hp; exact (hall p hp).1

theorem up_tail (e : E) (rest : List E) (hm : Monotone (e :: rest) = true) (hu : Up (e :: rest) = true) (he : -one ≤ e.1) :
    Up rest = true ∧ ∀ f ∈ rest, e.2.2 ≤ f.2.2 := by
  induction rest generalizing e with
  | nil => exact ⟨by simp [Up], by simp⟩
  | cons e' rest ih =>
    obtain ⟨hmt, htail⟩ := mono_tail e (e' :: rest) hm
    unfold Up at hu
    simp only [List.tail_cons, List.zip_cons_cons, List.all_cons, Bool.and_eq_true, Bool.or_eq_true, Bool.not_eq_true',
      decide_eq_false_iff_not, decide_eq_true_eq] at hu
    have hu' : Up (e' :: rest) = true := by unfold Up; simpa using hu.2
    have h1 : e.2.2 ≤ e'.2.2 := by rcases hu.1 with h | h; exact absurd he h; exact h
    have he' : -one ≤ e'.1 := by have := (htail e' (by simp)).2; omega
    obtain ⟨_, h2⟩ := ih e' hmt hu' he'
    refine ⟨hu', ?_⟩
    intro f hf
    rcases List.mem_cons.mp hf with rfl | hf
    · exact h1
    · have := h2 f hf; omega

/-- table level, right of −1: a later bin has a second soft bit at least as large -/
theorem lookup_up (tbl : List E) (hm : Monotone tbl = true) (hu : Up tbl = true) : ∀ (lo lo' : Option Int) (x y : Int)
    (r1 r2 : Option Int × E × Bool), -one ≤ x → x ≤ y → lookupP lo tbl x = some r1 → lookupP lo' tbl y = some r2 →
    r1.2.1.2.2 ≤ r2.2.1.2.2 := by
  induction tbl with
  | nil => intro lo lo' x y r1 r2 _ _ h; simp [lookupP] at h
  | cons e rest ih =>
    intro lo lo' x y r1 r2 hx hxy h1 h2
    cases rest with
    | nil =>
      simp only [lookupP, Option.some.injEq] at h1 h2
      subst h1; subst h2; exact Int.le_refl _
    | cons e' rest' =>
      obtain ⟨hmt, _⟩ := mono_tail e (e' :: rest') hm
      simp only [lookupP] at h1 h2
      by_cases hxe : x ≤ e.1
      · simp only [hxe, if_true, Option.some.injEq] at h1
        subst h1
        by_cases hy : y ≤ e.1
        · simp only [hy, if_true, Option.some.injEq] at h2; subst h2; exact Int.le_refl _
        · simp only [hy, if_false] at h2
          exact (up_tail e (e' :: rest') hm hu (by omega)).2 _ (lookup_mem_list _ _ _ _ h2)
      · have hy : ¬ y ≤ e.1 := by omega
        simp only [hxe, hy, if_false] at h1 h2
        have hu' : Up (e' :: rest') = true := by
          unfold Up at hu ⊢
          simp only [List.tail_cons, List.zip_cons_cons, List.all_cons, Bool.and_eq_true] at hu
          exact hu.2
        exact ih hmt hu' _ _ x y r1 r2 hx hxy h1 h2

/-- table level, left of +1: an earlier bin has a second soft bit at least as large, provided the later bin's threshold is ≤ +1 -/
theorem lookup_down (tbl : List E) (hm : Monotone tbl = true) (hd : Down tbl = true) : ∀ (lo lo' : Option Int) (x y : Int)
    (r1 r2 : Option Int × E × Bool), x ≤ y → lookupP lo tbl x = some r1 → lookupP lo' tbl y = some r2 → r2.2.1.1 ≤ one →
    r2.2.1.2.2 ≤ r1.2.1.2.2 := by
  induction tbl with
  | nil => intro lo lo' x y r1 r2 _ h; simp [lookupP] at h
  | cons e rest ih =>
    intro lo lo' x y r1 r2 hxy h1 h2 hle
    cases rest with
    | nil =>
      simp only [lookupP, Option.some.injEq] at h1 h2
      subst h1; subst h2; exact Int.le_refl _
    | cons e' rest' =>
      obtain ⟨hmt, htail⟩ := mono_tail e (e' :: rest') hm
      have hd' : Down (e' :: rest') = true := by
        unfold Down at hd ⊢
        simp only [List.tail_cons, List.zip_cons_cons, List.all_cons, Bool.and_eq_true] at hd
        exact hd.2
      simp only [lookupP] at h1 h2
      by_cases hxe : x ≤ e.1
      · simp only [hxe, if_true, Option.some.injEq] at h1
        subst h1
        by_cases hy : y ≤ e.1
        · simp only [hy, if_true, Option.some.injEq] at h2; subst h2; exact Int.le_refl _
        · simp only [hy, if_false] at h2
          -- chain e ≥ e' ≥ … ≥ r2 : go through the head of the tail
          have hstep : e'.2.2 ≤ e.2.2 := by
            unfold Down at hd
            simp only [List.tail_cons, List.zip_cons_cons, List.all_cons, Bool.and_eq_true, Bool.or_eq_true, Bool.not_eq_true',
              decide_eq_false_iff_not, decide_eq_true_eq] at hd
            rcases hd.1 with h | h
            · exfalso; apply h
              have hr2 := lookup_mem_list _ _ _ _ h2
              rcases List.mem_cons.mp hr2 with h' | h'
              · rw [← h']; exact hle
              · have := (mono_tail e' rest' hmt).2 _ h'; omega
            · exact h
          -- within the tail: from its first bin (reached by any value ≤ e'.1) to r2
          have hfirst : lookupP (some e.1) (e' :: rest') (min y e'.1) = some (some e.1, e', match rest' with | [] => true | _ => false) := by
            cases rest' with
            | nil => simp [lookupP]
            | cons _ _ => simp only [lookupP, if_pos (Int.min_le_right y e'.1)]
          have := ih hmt hd' (some e.1) (some e.1) (min y e'.1) y _ r2 (Int.min_le_left y e'.1) hfirst h2 hle
          simp only at this
          show r2.2.1.2.2 ≤ e.2.2
          omega
      · have hy : ¬ y ≤ e.1 := by omega
        simp only [hxe, hy, if_false] at h1 h2
        exact ih hmt hd' _ _ x y r1 r2 hxy h1 h2 hle

/-- the bin found for `s` lies at or before every entry whose threshold is ≥ `s` -/
theorem lookup_first (tbl : List E) (hm : Monotone tbl = true) : ∀ (lo : Option Int) (s : Int) (r : Option Int × E × Bool) (f : E),
    lookupP lo tbl s = some r → f ∈ tbl → s ≤ f.1 → r.2.1.1 ≤ f.1 := by
  induction tbl with
  | nil => intro lo s r f h; simp [lookupP] at h
  | cons e rest ih =>
    intro lo s r f h hf hs
    cases rest with
    | nil =>
      simp only [lookupP, Option.some.injEq] at h
      subst h
      simp only [List.mem_cons, List.not_mem_nil, or_false] at hf
      rw [hf]; exact Int.le_refl _
    | cons e' rest' =>
      obtain ⟨hmt, htail⟩ := mono_tail e (e' :: rest') hm
      simp only [lookupP] at h
      by_cases hse : s ≤ e.1
      · simp only [hse, if_true, Option.some.injEq] at h
        subst h
        rcases List.mem_cons.mp hf with rfl | hf
        · exact Int.le_refl _
        · have := (htail f hf).2; simp only; omega
      · simp only [hse, if_false] at h
        rcases List.mem_cons.mp hf with rfl | hf
        · omega
        · exact ih hmt _ s r f h hf hs

theorem clamp_fin_nonneg (x : Int) (h : 0 ≤ x) : 0 ≤ clamp (.fin x) := by
  unfold clamp three; simp only; repeat' split
  all_goals omega

theorem clamp_fin_nonpos (x : Int) (h : x ≤ 0) : clamp (.fin x) ≤ 0 := by
  unfold clamp three; simp only; repeat' split
  all_goals omega

theorem one_pos : 0 < one := by unfold one; exact Int.pow_pos (by decide)

/-- **the second soft bit never decreases with the sample's magnitude** — every finite value (all floats and doubles, ±∞ as extreme values) -/
theorem llr0_monotone_in_abs (tbl : List E) (hm : Monotone tbl = true) (h2 : Monotone2 tbl = true) (x y : Int) :
    (0 ≤ x → x ≤ y → (llr tbl (.fin x)).2 ≤ (llr tbl (.fin y)).2) ∧
    (x ≤ y → y ≤ 0 → (llr tbl (.fin y)).2 ≤ (llr tbl (.fin x)).2) := by
  obtain ⟨hu, hd, ⟨t, ht, ht0, ht1⟩⟩ := mono2_split tbl h2
  have hne : tbl ≠ [] := by intro h; rw [h] at ht; simp at ht
  have tx := lookup_total tbl hne none (clamp (.fin x))
  have ty := lookup_total tbl hne none (clamp (.fin y))
  cases h1 : lookupP none tbl (clamp (.fin x)) with
  | none => rw [h1] at tx; simp at tx
  | some r1 =>
    cases h3 : lookupP none tbl (clamp (.fin y)) with
    | none => rw [h3] at ty; simp at ty
    | some r2 =>
      unfold llr
      rw [h1, h3]
      obtain ⟨l1, e1, b1⟩ := r1
      obtain ⟨l2, e2, b2⟩ := r2
      simp only
      constructor
      · intro hx hxy
        have hc := clamp_mono (.fin x) (.fin y) x y rfl rfl hxy
        have h0 := clamp_fin_nonneg x hx
        have := lookup_up tbl hm hu none none _ _ _ _ (by have := one_pos; omega) hc h1 h3
        exact this
      · intro hxy hy
        have hc := clamp_mono (.fin x) (.fin y) x y rfl rfl hxy
        have h0 := clamp_fin_nonpos y hy
        have hf := lookup_first tbl hm none _ _ t h3 ht (by omega)
        have := lookup_down tbl hm hd none none _ _ _ _ hc h1 h3 (by simp only at hf ⊢; omega)
        exact this

/-- instances for the six tables of the current headers -/
theorem second_bit_monotone_all_tables (x y : Int) :
    ∀ tbl ∈ [Gen.llrF4, Gen.llrD4, Gen.llrF3, Gen.llrD3, Gen.llrF2, Gen.llrD2],
      (0 ≤ x → x ≤ y → (llr tbl (.fin x)).2 ≤ (llr tbl (.fin y)).2) ∧ (x ≤ y → y ≤ 0 → (llr tbl (.fin y)).2 ≤ (llr tbl (.fin x)).2) := by
  intro tbl h
  simp only [List.mem_cons, List.not_mem_nil, or_false] at h
  rcases h with rfl | rfl | rfl | rfl | rfl | rfl
  · exact llr0_monotone_in_abs _ table_F4.2.1 table_F4.2.2 x y
  · exact llr0_monotone_in_abs _ table_D4.2.1 table_D4.2.2 x y
  · exact llr0_monotone_in_abs _ table_F3.2.1 table_F3.2.2 x y
  · exact llr0_monotone_in_abs _ table_D3.2.1 table_D3.2.2 x y
  · exact llr0_monotone_in_abs _ table_F2.2.1 table_F2.2.2 x y
  · exact llr0_monotone_in_abs _ table_D2.2.1 table_D2.2.2 x y

end M17.C12M

/-
C14 / C01 — the frame builders of `M17Modulator` (model `M17.TxModulator`, packed-byte code path: `conv_encode`, `puncture_bytes`, byte interleaver,
`M17ByteRandomizer`, `assign_bit_index` LICH) produce exactly the frames of the specification encoder `M17.Spec.Tx` — whatever the buffers the code
leaves uninitialised held before.  Third transmitter of C01.
-/
import M17.Model.TxModulator
import M17.Props.C13T

namespace M17.C14T
open M17.Bytes M17.Cond M17.Punct M17.C13T M17.C01F

/-! ## bytes are determined by their bits -/

theorem getBit_eq_testBit (bs : List Nat) (k j : Nat) (hj : j < 8) : getBit bs (8 * k + (7 - j)) = (bs.getD k 0).testBit j := by
  unfold getBit
  have e1 : (8 * k + (7 - j)) / 8 = k := by omega
  have e2 : 7 - (8 * k + (7 - j)) % 8 = j := by omega
  rw [e1, e2]

theorem bytes_ext (a b : List Nat) (hl : a.length = b.length) (ha : AllBytes a) (hb : AllBytes b)
    (h : ∀ i, i < 8 * a.length → getBit a i = getBit b i) : a = b := by
  apply List.ext_getElem hl
  intro k h1 h2
  apply Nat.eq_of_testBit_eq
  intro j
  by_cases hj : j < 8
  · have := h (8 * k + (7 - j)) (by omega)
    rw [getBit_eq_testBit a k j hj, getBit_eq_testBit b k j hj] at this
    simpa [List.getD_eq_getElem?_getD, h1, h2] using this
  · have l1 : a[k] < 2 ^ j := Nat.lt_of_lt_of_le (ha _ (List.getElem_mem h1)) (by
      have : (2 : Nat) ^ 8 ≤ 2 ^ j := Nat.pow_le_pow_right (by decide) (by omega)
      omega)
    have l2 : b[k] < 2 ^ j := Nat.lt_of_lt_of_le (hb _ (List.getElem_mem h2)) (by
      have : (2 : Nat) ^ 8 ≤ 2 ^ j := Nat.pow_le_pow_right (by decide) (by omega)
      omega)
    rw [Nat.testBit_lt_two_pow l1, Nat.testBit_lt_two_pow l2]

theorem byteOfBits_testBit (a b c d e f g h : Bool) :
    ∀ j, j < 8 → (Spec.Tx.byteOfBits [a, b, c, d, e, f, g, h]).testBit (7 - j) = [a, b, c, d, e, f, g, h].getD j false := by
  cases a <;> cases b <;> cases c <;> cases d <;> cases e <;> cases f <;> cases g <;> cases h <;> decide

theorem byteOfBits_lt (a b c d e f g h : Bool) : Spec.Tx.byteOfBits [a, b, c, d, e, f, g, h] < 256 := by
  cases a <;> cases b <;> cases c <;> cases d <;> cases e <;> cases f <;> cases g <;> cases h <;> decide

theorem bytesOfBits_facts : ∀ (n : Nat) (bits : List Bool), bits.length = 8 * n →
    (Spec.Tx.bytesOfBits bits).length = n ∧ AllBytes (Spec.Tx.bytesOfBits bits) ∧
    ∀ i, i < 8 * n → getBit (Spec.Tx.bytesOfBits bits) i = bits.getD i false := by
  intro n
  induction n with
  | zero =>
    intro bits h
    have : bits = [] := List.eq_nil_of_length_eq_zero (by omega)
    subst this
    exact ⟨rfl, fun b hb => by simp [Spec.Tx.bytesOfBits] at hb, fun i hi => by omega⟩
  | succ n ih =>
    intro bits h
    match bits, h with
    | a :: b :: c :: d :: e :: f :: g :: h' :: rest, h =>
      obtain ⟨r1, r2, r3⟩ := ih rest (by simp only [List.length_cons] at h; omega)
      rw [C13T.bytesOfBits_cons8]
      refine ⟨by simp [r1], ?_, ?_⟩
      · intro x hx
        rcases List.mem_cons.mp hx with rfl | hx
        · exact byteOfBits_lt a b c d e f g h'
        · exact r2 x hx
      · intro i hi
        by_cases h8 : i < 8
        · unfold getBit
          have e1 : i / 8 = 0 := by omega
          have e2 : i % 8 = i := by omega
          rw [e1, e2, List.getD_cons_zero, byteOfBits_testBit a b c d e f g h' i h8]
          have : i = 0 ∨ i = 1 ∨ i = 2 ∨ i = 3 ∨ i = 4 ∨ i = 5 ∨ i = 6 ∨ i = 7 := by omega
          rcases this with rfl | rfl | rfl | rfl | rfl | rfl | rfl | rfl <;> rfl
        · have hi2 : i - 8 < 8 * n := by omega
          have := r3 (i - 8) hi2
          unfold getBit at this ⊢
          have e1 : i / 8 = (i - 8) / 8 + 1 := by omega
          have e2 : i % 8 = (i - 8) % 8 := by omega
          rw [e1, e2, List.getD_cons_succ, this]
          have e3 : i = (i - 8) + 8 := by omega
          conv => rhs; rw [e3]
          simp only [List.getD_eq_getElem?_getD, List.getElem?_cons_succ]

/-! ## the byte-level operations keep bytes below 256 -/

theorem assignBit_bytes (bs : List Nat) (hb : AllBytes bs) (i : Nat) (v : Bool) : AllBytes (assignBit bs i v) := by
  intro x hx
  unfold assignBit setBit resetBit at hx
  have hk : 7 - i % 8 < 8 := by omega
  split at hx
  · rcases List.mem_or_eq_of_mem_set hx with h | h
    · exact hb x h
    · rw [h]
      have hg : bs.getD (i / 8) 0 < 2 ^ 8 := by
        rw [List.getD_eq_getElem?_getD]
        cases hq : bs[i / 8]? with
        | none => simp
        | some y => simp only [Option.getD_some]; exact hb y (List.mem_of_getElem? hq)
      exact Nat.or_lt_two_pow hg (Nat.pow_lt_pow_right (by decide) hk)
  · rcases List.mem_or_eq_of_mem_set hx with h | h
    · exact hb x h
    · rw [h]
      have hg : bs.getD (i / 8) 0 < 256 := by
        rw [List.getD_eq_getElem?_getD]
        cases hq : bs[i / 8]? with
        | none => simp
        | some y => simp only [Option.getD_some]; exact hb y (List.mem_of_getElem? hq)
      exact Nat.lt_of_le_of_lt Nat.and_le_left hg

theorem foldl_assign_bytes (tgt : Nat → Nat) (val : Nat → Bool) (l : List Nat) (buf : List Nat) (hb : AllBytes buf) :
    AllBytes (l.foldl (fun b i => assignBit b (tgt i) (val i)) buf) := by
  induction l generalizing buf with
  | nil => exact hb
  | cons a l ih => exact ih _ (assignBit_bytes buf hb _ _)

theorem zeros_bytes (n : Nat) : AllBytes (List.replicate n 0) := by
  intro x hx; simp only [List.mem_replicate] at hx; omega

theorem interleaveBytes_facts (bs : List Nat) : (interleaveBytes bs).length = 46 ∧ AllBytes (interleaveBytes bs) := by
  unfold interleaveBytes
  rw [C10.K_eq]
  exact ⟨by rw [Cond.foldl_assign_length]; simp, foldl_assign_bytes _ _ _ _ (zeros_bytes _)⟩

theorem randBytes_facts (bs : List Nat) (hb : AllBytes bs) (hl : bs.length = 46) : (randBytes bs).length = 46 ∧ AllBytes (randBytes bs) := by
  unfold randBytes
  refine ⟨by simp [hl], ?_⟩
  intro x hx
  simp only [List.mem_map] at hx
  obtain ⟨⟨b, i⟩, hm, rfl⟩ := hx
  have hbm : b ∈ bs := by
    have := List.mem_zipIdx hm
    rw [this.2.2]; exact List.getElem_mem _
  have hb256 := hb b hbm
  have hdc : Gen.randDC.getD i 0 < 256 := by
    have hall := C10.dcBytes_ok
    unfold C10.dcBytesOK at hall
    rw [List.all_eq_true] at hall
    rw [List.getD_eq_getElem?_getD]
    cases hq : Gen.randDC[i]? with
    | none => simp
    | some y => simp only [Option.getD_some]; simpa using hall y (List.mem_of_getElem? hq)
  simp only
  rw [C10.randByte_eq b _ hb256 hdc]
  exact Nat.xor_lt_two_pow (n := 8) hb256 hdc

theorem punctureBytes_facts (p : List Nat) (inb prev : List Nat) (hb : AllBytes prev) :
    (punctureBytes p inb prev).1.length = prev.length ∧ AllBytes (punctureBytes p inb prev).1 := by
  unfold punctureBytes
  exact ⟨Cond.foldl_assign_length _ _ _ _, foldl_assign_bytes _ _ _ _ hb⟩

/-! ## `conv_encode` packs the specification's code word -/

theorem packByteN_eq (a b c d e f g h : Bool) :
    ([a, b, c, d, e, f, g, h].map toN).foldl (fun t b => ((t <<< 1) % 256) ||| b) 0 = Spec.Tx.byteOfBits [a, b, c, d, e, f, g, h] := by
  cases a <;> cases b <;> cases c <;> cases d <;> cases e <;> cases f <;> cases g <;> cases h <;> rfl

theorem packCoded_eq_spec (cbits : List Bool) (h8 : cbits.length % 8 = 0) :
    TxModulator.packCoded (cbits.map toN) = Spec.Tx.bytesOfBits cbits := by
  unfold TxModulator.packCoded Spec.Tx.bytesOfBits
  rw [List.length_map]
  have e : (cbits.length + 7) / 8 = cbits.length / 8 := by omega
  rw [e]
  apply List.map_congr_left
  intro k hk
  have hk' := List.mem_range.mp hk
  have hl : ((cbits.drop (8 * k)).take 8).length = 8 := by rw [List.length_take, List.length_drop]; omega
  obtain ⟨a, b, c, d, e', f, g, h', hc⟩ := C13T.list8 _ hl
  rw [← List.map_drop, ← List.map_take, hc]
  exact packByteN_eq a b c d e' f g h'

theorem convEncode_eq_spec (data : List Nat) (hb : AllBytes data) :
    TxModulator.convEncode data = Spec.Tx.bytesOfBits (Spec.convEncode (Spec.Tx.bitsOfBytes data)) := by
  unfold TxModulator.convEncode
  rw [C13T.encodeBytes_eq data hb, packCoded_eq_spec _ (by rw [C01F.convEncode_length, C01F.bitsOfBytes_length]; omega)]

/-- the bits `get_bit_index` reads from packed specification bits are those bits -/
theorem unpack_bytesOfBits (n : Nat) (bits : List Bool) (h : bits.length = 8 * n) : unpack (Spec.Tx.bytesOfBits bits) = bits := by
  obtain ⟨r1, _, r3⟩ := bytesOfBits_facts n bits h
  unfold unpack
  rw [r1]
  apply List.ext_getElem (by simp [h])
  intro i h1 h2
  simp only [List.getElem_map, List.getElem_range]
  rw [r3 i (by simpa using h1)]
  simp [List.getD_eq_getElem?_getD, h2]

/-! ## the packed-byte channel chain = the specification's chain on bits -/

attribute [local irreducible] Spec.Tx.ileave in
/-- interleaving and randomizing 46 packed bytes whose bits are `S` gives the packed specification bits `rnd (ileave S)` -/
theorem channel_eq (X : List Nat) (S : List Bool)
    (hbits : ∀ i, i < 368 → getBit X i = S.getD i false) :
    randBytes (interleaveBytes X) = Spec.Tx.bytesOfBits (Spec.Tx.rnd (Spec.Tx.ileave S)) := by
  obtain ⟨il1, il2⟩ := interleaveBytes_facts X
  obtain ⟨r1, r2⟩ := randBytes_facts _ il2 il1
  have hlen : (Spec.Tx.rnd (Spec.Tx.ileave S)).length = 8 * 46 := by rw [C01F.rnd_length _ (C01F.ileave_length _)]
  obtain ⟨b1, b2, b3⟩ := bytesOfBits_facts 46 _ hlen
  apply bytes_ext _ _ (by rw [r1, b1]) r2 b2
  intro i hi
  rw [r1] at hi
  rw [b3 i hi, C10.randBytes_bit _ il2 i (by rw [il1]; exact hi) hi, C10.interleaveBytes_bit X i hi,
    hbits _ (C10.index_perm.2 i hi).1, C01F.rnd_getD _ (C01F.ileave_length _) i hi, C01F.ileave_eq_scatter,
    Cond.scatter_getD Spec.ileaveIndex C10.invIndex 368 C01F.spec_index_perm false S i hi]

/-- `puncture_bytes` of packed specification code bits into a buffer of `L` bytes that the kept bits fill completely -/
theorem punctureBytes_bits (p : List Nat) (hp : 0 < p.length) (cb : List Bool) (m : Nat) (hcb : cb.length = 8 * m) (prev : List Nat)
    (hk : 8 * prev.length ≤ (C11.keptSeq p 0 cb).length) (i : Nat) (hi : i < 8 * prev.length) :
    getBit (punctureBytes p (Spec.Tx.bytesOfBits cb) prev).1 i = (Spec.Tx.punct p cb (8 * prev.length)).getD i false := by
  have hu := unpack_bytesOfBits m cb hcb
  have hcount : (punctureBytes p (Spec.Tx.bytesOfBits cb) prev).2 = 8 * prev.length := by
    unfold punctureBytes
    simp only [C11.puncture_spec, hu, List.length_take]
    omega
  rw [C11.punctureBytes_bit p _ prev i (by rw [hcount]; exact hi), hu, C01F.punct_eq p hp]

theorem getBit_append (a b : List Nat) (i : Nat) :
    getBit (a ++ b) i = if i < 8 * a.length then getBit a i else getBit b (i - 8 * a.length) := by
  unfold getBit
  by_cases h : i < 8 * a.length
  · rw [if_pos h, List.getD_eq_getElem?_getD, List.getElem?_append_left (by omega), ← List.getD_eq_getElem?_getD]
  · rw [if_neg h, List.getD_eq_getElem?_getD, List.getElem?_append_right (by omega), ← List.getD_eq_getElem?_getD]
    have e1 : (i - 8 * a.length) / 8 = i / 8 - a.length := by omega
    have e2 : (i - 8 * a.length) % 8 = i % 8 := by omega
    rw [e1, e2]

theorem toI_ne_zero (b : Bool) : (toI b != 0) = b := by cases b <;> rfl

/-- the LICH bytes `make_lich_segment` assembles with `assign_bit_index` carry the specification's LICH bits, whatever the array held -/
theorem lichSegment_bits (lsf : List Nat) (hl : lsf.length = 30) (hb : AllBytes lsf) (n : Nat) (hn : n < 6) (prev : List Nat) (hp : prev.length = 12)
    (i : Nat) (hi : i < 96) :
    getBit (TxModulator.lichSegment ((lsf.drop (5 * n)).take 5) n prev) i = (Spec.Tx.lichBits lsf n).getD i false := by
  unfold TxModulator.lichSegment
  simp only
  have := Cond.assign_prefix id id 96 (Cond.bij_id 96)
    (fun i => (TxMod.lichSegment ((lsf.drop (5 * n)).take 5) n).getD i 0 != 0) prev (by rw [hp]) 96 (Nat.le_refl _) i hi
  simp only [id] at this
  rw [this, if_pos hi, C13T.lichSegment_eq_spec lsf hl hb n hn, C13T.getD_map_toI, toI_ne_zero]

theorem lichSegment_facts (seg : List Nat) (n : Nat) (prev : List Nat) (hp : prev.length = 12) (hb : AllBytes prev) :
    (TxModulator.lichSegment seg n prev).length = 12 ∧ AllBytes (TxModulator.lichSegment seg n prev) := by
  unfold TxModulator.lichSegment
  exact ⟨by simp only; rw [Cond.foldl_assign_length, hp], foldl_assign_bytes _ _ _ _ hb⟩

/-! ## the frames -/

theorem address_eq_spec (cs : List Nat) (hv : ∀ c ∈ cs, C17.validChar c = true) (h9 : cs.length ≤ 9) :
    TxModulator.address cs = Spec.Tx.callsign cs := by
  unfold TxModulator.address
  cases cs with
  | nil => rfl
  | cons c cs =>
    simp only [List.isEmpty_cons, Bool.false_eq_true, if_false]
    exact (C20P.spec_callsign_eq (c :: cs) hv (by simp) h9).symm

theorem lsfBytes_eq_spec (src dst : List Nat) (hsv : ∀ c ∈ src, C17.validChar c = true) (hs9 : src.length ≤ 9)
    (hdv : ∀ c ∈ dst, C17.validChar c = true) (hd9 : dst.length ≤ 9) :
    TxModulator.lsfBytes (TxModulator.address src) (TxModulator.address dst) =
      Spec.Tx.lsfBytes dst src (Spec.Tx.voiceType 0) (List.replicate 14 0) := by
  unfold TxModulator.lsfBytes Spec.Tx.lsfBytes
  rw [address_eq_spec src hsv hs9, address_eq_spec dst hdv hd9]
  simp only [C13T.crc_bytes_eq]
  rfl

/-- **`send_link_setup` emits exactly the specification's link setup frame** (voice stream, CAN 0 — the modulator has no CAN setting), for
    every source and destination over the M17 alphabet (a blank one meaning broadcast), whatever the `punctured` array held before -/
theorem sendLinkSetup_eq_spec (src dst : List Nat) (hsv : ∀ c ∈ src, C17.validChar c = true) (hs9 : src.length ≤ 9)
    (hdv : ∀ c ∈ dst, C17.validChar c = true) (hd9 : dst.length ≤ 9) (prev : List Nat) (hp : prev.length = 46) :
    TxModulator.sendLinkSetup src dst prev = Spec.Tx.lsfFrame (Spec.Tx.lsfBytes dst src (Spec.Tx.voiceType 0) (List.replicate 14 0)) := by
  unfold TxModulator.sendLinkSetup TxModulator.lsfChannel Spec.Tx.lsfFrame Spec.Tx.lsfFrameBits
  rw [lsfBytes_eq_spec src dst hsv hs9 hdv hd9]
  generalize hlsf : Spec.Tx.lsfBytes dst src (Spec.Tx.voiceType 0) (List.replicate 14 0) = lsf
  have hl : lsf.length = 30 := by rw [← hlsf]; exact C13T.lsf_len _ _ _
  have hb : AllBytes lsf := by rw [← hlsf]; exact C13T.lsf_allbytes _ _ _
  rw [convEncode_eq_spec lsf hb]
  have hu : (Spec.Tx.bitsOfBytes lsf).length = 240 := by rw [C01F.bitsOfBytes_length, hl]
  have hcl : (Spec.convEncode (Spec.Tx.bitsOfBytes lsf)).length = 8 * 61 := by rw [C01F.convEncode_length, hu]
  have hkept : 8 * prev.length ≤ (C11.keptSeq Gen.p1 0 (Spec.convEncode (Spec.Tx.bitsOfBytes lsf))).length := by
    rw [C01F.keptSeq_length_congr Gen.p1 _ (List.range 488) 0 (by rw [hcl]; simp)]
    have := C11.kept_lsf; unfold C11.keptCount at this; rw [this, hp]
    exact Nat.le_refl _
  have hch := channel_eq (punctureBytes Gen.p1 (Spec.Tx.bytesOfBits (Spec.convEncode (Spec.Tx.bitsOfBytes lsf))) prev).1
    (Spec.Tx.punct Spec.p1 (Spec.convEncode (Spec.Tx.bitsOfBytes lsf)) 368) (by
      intro i hi
      have := punctureBytes_bits Gen.p1 C01F.p1_pos _ 61 hcl prev hkept i (by rw [hp]; exact hi)
      rw [hp, C11.gen_p1_eq_spec] at this
      exact this)
  rw [hch]
  rfl

/-- **every stream frame the modulator sends is the specification's stream frame**, whatever the uninitialised buffers held -/
theorem streamFrame_eq_spec (lsf : List Nat) (hl : lsf.length = 30) (hb : AllBytes lsf) (n : Nat) (hn : n < 6)
    (fn : Nat) (payload : List Nat) (hpl : payload.length = 16) (hp : AllBytes payload)
    (prevL prevP : List Nat) (hL : prevL.length = 12) (hLb : AllBytes prevL) (hP : prevP.length = 34) :
    TxModulator.streamFrame lsf n fn payload prevL prevP = Spec.Tx.streamFrame lsf n fn payload := by
  unfold TxModulator.streamFrame TxModulator.sendAudioFrame TxModulator.makePayload Spec.Tx.streamFrame Spec.Tx.streamFrameBits
  have e : (255 : Nat) = 2 ^ 8 - 1 := by decide
  have h1 : (fn >>> 8) &&& 255 = fn / 256 % 256 := by rw [e, Nat.and_two_pow_sub_one_eq_mod, Nat.shiftRight_eq_div_pow]
  have h2 : fn &&& 255 = fn % 256 := by rw [e, Nat.and_two_pow_sub_one_eq_mod]
  rw [h1, h2]
  generalize hdata : [fn / 256 % 256, fn % 256] ++ payload = data
  have hdb : AllBytes data := by
    rw [← hdata]; intro b hbm
    rcases List.mem_append.mp hbm with h | h
    · simp only [List.mem_cons, List.not_mem_nil, or_false] at h; rcases h with rfl | rfl <;> omega
    · exact hp b h
  have hdl : data.length = 18 := by rw [← hdata]; simp [hpl]
  rw [convEncode_eq_spec data hdb]
  have hu : (Spec.Tx.bitsOfBytes data).length = 144 := by rw [C01F.bitsOfBytes_length, hdl]
  have hcl : (Spec.convEncode (Spec.Tx.bitsOfBytes data)).length = 8 * 37 := by rw [C01F.convEncode_length, hu]
  have hkept : 8 * prevP.length ≤ (C11.keptSeq Gen.p2 0 (Spec.convEncode (Spec.Tx.bitsOfBytes data))).length := by
    rw [C01F.keptSeq_length_congr Gen.p2 _ (List.range 296) 0 (by rw [hcl]; simp)]
    have := C11.kept_stream; unfold C11.keptCount at this; rw [this, hP]
    exact Nat.le_refl _
  obtain ⟨ll, _⟩ := lichSegment_facts ((lsf.drop (5 * n)).take 5) n prevL hL hLb
  have hch := channel_eq
    (TxModulator.lichSegment ((lsf.drop (5 * n)).take 5) n prevL ++
      (punctureBytes Gen.p2 (Spec.Tx.bytesOfBits (Spec.convEncode (Spec.Tx.bitsOfBytes data))) prevP).1)
    (Spec.Tx.lichBits lsf n ++ Spec.Tx.punct Spec.p2 (Spec.convEncode (Spec.Tx.bitsOfBytes data)) 272) (by
      intro i hi
      rw [getBit_append, ll]
      by_cases h96 : i < 96
      · rw [if_pos (by omega), lichSegment_bits lsf hl hb n hn prevL hL i h96]
        simp [List.getD_eq_getElem?_getD, List.getElem?_append_left, C01F.lichBits_length, h96]
      · rw [if_neg (by omega)]
        have := punctureBytes_bits Gen.p2 C01F.p2_pos _ 37 hcl prevP hkept (i - 8 * 12) (by rw [hP]; omega)
        rw [hP, C11.gen_p2_eq_spec] at this
        rw [C11.gen_p2_eq_spec, this]
        simp only [List.getD_eq_getElem?_getD]
        rw [List.getElem?_append_right (by rw [C01F.lichBits_length]; omega), C01F.lichBits_length])
  rw [hch]
  rfl

/-! ## consequence: frames of M17Modulator decode bit-exact (C01, third transmitter) -/

theorem modulator_lsf_decodes (lo : Int) (hlo : 1 ≤ lo) (σ : Dec.DState) (cb : Bool) (src dst : List Nat)
    (hsv : ∀ c ∈ src, C17.validChar c = true) (hs1 : 1 ≤ src.length) (hs9 : src.length ≤ 9)
    (hdv : ∀ c ∈ dst, C17.validChar c = true) (hd9 : dst.length ≤ 9) (prev : List Nat) (hp : prev.length = 46)
    (frame : List Int) (hr : SoftImage lo (Spec.Tx.bitsOfBytes ((TxModulator.sendLinkSetup src dst prev).drop 2)) frame) :
    (Dec.step σ .lsf frame cb).calls =
      [⟨.lsf, TxModulator.lsfBytes (TxModulator.address src) (TxModulator.address dst), cleanCost Gen.p1 frame 488⟩] ∧
    (Dec.step σ .lsf frame cb).result = .ok ∧ (Dec.step σ .lsf frame cb).state.mode = .stream := by
  rw [sendLinkSetup_eq_spec src dst hsv hs9 hdv hd9 prev hp] at hr
  unfold Spec.Tx.lsfFrame at hr
  have h368 : (Spec.Tx.lsfFrameBits (Spec.Tx.lsfBytes dst src (Spec.Tx.voiceType 0) (List.replicate 14 0))).length = 8 * 46 := by
    unfold Spec.Tx.lsfFrameBits; rw [C01F.rnd_length _ (C01F.ileave_length _)]
  have hd2 : (Spec.Tx.lsfSync ++ Spec.Tx.bytesOfBits (Spec.Tx.lsfFrameBits (Spec.Tx.lsfBytes dst src (Spec.Tx.voiceType 0) (List.replicate 14 0)))).drop 2 =
      Spec.Tx.bytesOfBits (Spec.Tx.lsfFrameBits (Spec.Tx.lsfBytes dst src (Spec.Tx.voiceType 0) (List.replicate 14 0))) := rfl
  rw [hd2, C13T.bits_of_bytesOfBits 46 _ h368] at hr
  have := C20P.link_report lo hlo σ cb src dst hsv hs1 hs9 hdv hd9 0 (by decide) (List.replicate 14 0) (by simp)
    (by intro b hb; simp only [List.mem_replicate] at hb; omega) frame hr
  rw [lsfBytes_eq_spec src dst hsv hs9 hdv hd9]
  exact ⟨this.1, this.2.1, this.2.2.1⟩

theorem modulator_stream_decodes (lo : Int) (hlo : 1 ≤ lo) (σ : Dec.DState) (hm : σ.mode = .stream) (cb : Bool)
    (lsf : List Nat) (hl : lsf.length = 30) (hb : AllBytes lsf) (n : Nat) (hn : n < 6)
    (fn : Nat) (hfn : fn < 65536) (payload : List Nat) (hpl : payload.length = 16) (hp : AllBytes payload)
    (prevL prevP : List Nat) (hL : prevL.length = 12) (hLb : AllBytes prevL) (hP : prevP.length = 34)
    (frame : List Int) (hr : SoftImage lo (Spec.Tx.bitsOfBytes ((TxModulator.streamFrame lsf n fn payload prevL prevP).drop 2)) frame) :
    (Dec.step σ .stream frame cb).calls.map (fun c => (c.ftype, c.bytes)) = [(.stream, [fn / 256 % 256, fn % 256] ++ payload)] ∧
    (Dec.step σ .stream frame cb).result = .ok := by
  rw [streamFrame_eq_spec lsf hl hb n hn fn payload hpl hp prevL prevP hL hLb hP,
    ← C13T.streamFrame_eq_spec lsf hl hb n hn fn hfn payload hpl hp] at hr
  exact C13T.m17mod_stream_decodes lo hlo σ hm cb lsf hl hb n hn fn hfn payload hpl hp frame hr

/-! ## non-vacuity -/
example : TxModulator.sendLinkSetup ("W1AW".toList.map Char.toNat) [] (List.replicate 46 0xAA) =
    Spec.Tx.lsfFrame (Spec.Tx.lsfBytes [] ("W1AW".toList.map Char.toNat) (Spec.Tx.voiceType 0) (List.replicate 14 0)) :=
  sendLinkSetup_eq_spec _ _ (by decide) (by decide) (by simp) (by simp) _ (by simp)

end M17.C14T

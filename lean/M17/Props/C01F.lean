/-
C01 — clean-channel round trip, FRAME LEVEL.

`M17.Props.C01` proves the Viterbi core (a sign-consistent received vector decodes to the transmitted input bits).
This file composes it with the other stages into statements about the *whole* frame decoder model
`Dec.step` fed with the soft image of a *specification-encoded* frame (`Spec.Tx.*FrameBits`):

  receive side (model of the code)                     transmit side (written from the specification)
  randSoft → deinterleaveSoft → depuncture → Viterbi    convEncode → punct → ileave → rnd
  → pack → CRC / Golay / LICH unpack                    golay24, lichBits, crc

for every payload, every decoder state, and every per-position soft magnitude 1..7 with the correct sign.
-/
import M17.Props.C01
import M17.Props.C05
import M17.Props.C10
import M17.Spec.Tx

namespace M17.C01F
open M17.Vit M17.C01 M17.Cond M17.Punct M17.Dec

/-- the soft value `r` carries bit `b`: correct sign (positive = 1), magnitude `lo`..7 -/
def Carries (lo : Int) (b : Bool) (r : Int) : Prop := if b then lo ≤ r ∧ r ≤ 7 else -7 ≤ r ∧ r ≤ -lo

/-- `r` is a clean soft image of the bit sequence `bits`: every position has the right sign and any magnitude in
    `lo`..7 (`lo = 1`: everything the 4-bit soft demapper can emit for a correct decision; `lo = 7`: full confidence) -/
def SoftImage (lo : Int) (bits : List Bool) (r : List Int) : Prop :=
  r.length = bits.length ∧ ∀ i, i < bits.length → Carries lo (bits.getD i false) (r.getD i 0)

/-! ## stage 1 — the receiver's soft de-randomizer undoes the specification's randomizer -/

/-- the specification's 46 randomizer bytes, as bits, are the bits the code derives its ±1 table from -/
theorem dc_bridge : Spec.Tx.bitsOfBytes Spec.randDC = (List.range 368).map dcBit := by decide +kernel

theorem rnd_getD (bits : List Bool) (h : bits.length = 368) (i : Nat) (hi : i < 368) :
    (Spec.Tx.rnd bits).getD i false = (bits.getD i false != dcBit i) := by
  unfold Spec.Tx.rnd
  rw [dc_bridge]
  simp [List.getD_eq_getElem?_getD, h, hi]

theorem rnd_length (bits : List Bool) (h : bits.length = 368) : (Spec.Tx.rnd bits).length = 368 := by
  unfold Spec.Tx.rnd; rw [dc_bridge]; simp [h]

theorem randSoft_getD (r : List Int) (i : Nat) (hi : i < r.length) :
    (randSoft r).getD i 0 = narrow8 (r.getD i 0 * dcSign i) := by
  unfold randSoft
  simp [List.getD_eq_getElem?_getD, hi]

theorem randSoft_length (r : List Int) : (randSoft r).length = r.length := by unfold randSoft; simp

theorem rand_image (lo : Int) (hlo : 1 ≤ lo) (bits : List Bool) (r : List Int) (h : bits.length = 368)
    (hr : SoftImage lo (Spec.Tx.rnd bits) r) : SoftImage lo bits (randSoft r) := by
  obtain ⟨hl, hp⟩ := hr
  rw [rnd_length bits h] at hl hp
  refine ⟨by rw [randSoft_length, hl, h], ?_⟩
  intro i hi
  rw [h] at hi
  rw [randSoft_getD r i (by omega)]
  have := hp i hi
  rw [rnd_getD bits h i hi] at this
  generalize r.getD i 0 = x at this ⊢
  generalize bits.getD i false = b at this ⊢
  generalize hd : dcBit i = d at this ⊢
  unfold Carries dcSign narrow8
  unfold Carries at this
  rw [hd]
  cases b <;> cases d <;> simp at this ⊢ <;> omega

/-! ## stage 2 — the receiver's soft de-interleaver undoes the specification's interleaver -/

theorem ileave_eq_scatter (bits : List Bool) : Spec.Tx.ileave bits = scatter Spec.ileaveIndex 368 false bits := rfl

theorem spec_index_perm : Bij Spec.ileaveIndex C10.invIndex 368 := by
  have h := C10.index_perm
  refine ⟨fun i hi => ?_, fun p hp => ?_⟩
  · rw [← C10.index_eq_spec]; exact h.1 i hi
  · rw [← C10.index_eq_spec]; exact h.2 p hp

theorem ileave_length (bits : List Bool) : (Spec.Tx.ileave bits).length = 368 := by
  rw [ileave_eq_scatter]; exact scatter_length _ _ _ _

attribute [local irreducible] Spec.Tx.ileave in
theorem deinterleave_image (lo : Int) (bits : List Bool) (r : List Int) (h : bits.length = 368)
    (hr : SoftImage lo (Spec.Tx.ileave bits) r) : SoftImage lo bits (deinterleaveSoft r) := by
  obtain ⟨hl, hp⟩ := hr
  rw [ileave_length] at hl hp
  unfold deinterleaveSoft
  rw [C10.K_eq]
  refine ⟨by rw [gather_length, h], ?_⟩
  intro i hi
  rw [h] at hi
  rw [gather_getD _ _ _ _ _ hi]
  have hb : index i < 368 ∧ C10.invIndex (index i) = i := C10.index_perm.1 i hi
  have hb1 := hb.1
  have hs : (Spec.Tx.ileave bits).getD (index i) false = bits.getD i false := by
    rw [ileave_eq_scatter, C10.index_eq_spec,
      scatter_getD Spec.ileaveIndex C10.invIndex 368 spec_index_perm false bits _ (by rw [← C10.index_eq_spec]; exact hb.1)]
    rw [← C10.index_eq_spec, hb.2]
  have h2 := hp (index i) hb1
  rw [hs] at h2
  exact h2

/-- stages 1+2: what `Dec.step` computes first (`deinterleaveSoft (randSoft frame)`) is a clean soft image of the
    368 bits that went into the specification's interleaver -/
theorem condition_image (lo : Int) (hlo : 1 ≤ lo) (bits : List Bool) (frame : List Int) (h : bits.length = 368)
    (hr : SoftImage lo (Spec.Tx.rnd (Spec.Tx.ileave bits)) frame) :
    SoftImage lo bits (deinterleaveSoft (randSoft frame)) :=
  deinterleave_image lo bits _ h (rand_image lo hlo _ _ (ileave_length bits) hr)

/-! ## stage 3 — the specification's puncturing (a filter on positions) is the code's puncturing loop -/

theorem succ_mod (k len : Nat) (h : 0 < len) :
    (k + 1) % len = if k % len + 1 = len then 0 else k % len + 1 := by
  have hk := Nat.div_add_mod k len
  have hr := Nat.mod_lt k h
  by_cases hc : k % len + 1 = len
  · rw [if_pos hc]
    have : k + 1 = len * (k / len + 1) := by rw [Nat.mul_add, Nat.mul_one]; omega
    rw [this, Nat.mul_mod_right]
  · rw [if_neg hc]
    have : k + 1 = len * (k / len) + (k % len + 1) := by omega
    rw [this, Nat.mul_add_mod, Nat.mod_eq_of_lt (by omega)]

theorem filter_eq_keptSeq (p : List Nat) (hp : 0 < p.length) (xs : List α) : ∀ (k : Nat),
    (((xs.zipIdx k).filter fun (x : α × Nat) => p.getD (x.2 % p.length) 0 != 0).map Prod.fst) = C11.keptSeq p (k % p.length) xs := by
  induction xs with
  | nil => intro k; simp [C11.keptSeq]
  | cons x xs ih =>
    intro k
    simp only [List.zipIdx_cons, C11.keptSeq, List.filter_cons]
    have hn : nextP p (k % p.length) = (k + 1) % p.length := by unfold nextP; rw [succ_mod k _ hp]
    rw [hn]
    unfold pAt
    split
    · simp only [List.map_cons, ih (k + 1)]
    · exact ih (k + 1)

theorem punct_eq (p : List Nat) (hp : 0 < p.length) (bits : List Bool) (n : Nat) :
    Spec.Tx.punct p bits n = (C11.keptSeq p 0 bits).take n := by
  unfold Spec.Tx.punct
  have := filter_eq_keptSeq p hp bits 0
  rw [Nat.zero_mod] at this
  rw [← this]

/-! ## stage 4 — de-puncturing the soft image of a punctured code word gives a vector consistent with the code word -/

/-- coded bit `i` is received: kept by the matrix and inside the frame -/
def recv (p : List Nat) (out i : Nat) : Bool := pAt p (C11.pIdx p 0 i) && decide (C11.rank p 0 i < out)

theorem depunct_getD (lo : Int) (p : List Nat) (c : List Bool) (r : List Int) (out n : Nat) (hn : c.length = n) (hlen : r.length = out)
    (hr : SoftImage lo ((C11.keptSeq p 0 c).take out) r) (i : Nat) (hi : i < n) :
    (recv p out i = false → (depunctureGo p 0 r n).getD i 0 = 0) ∧
    (recv p out i = true → Carries lo (c.getD i false) ((depunctureGo p 0 r n).getD i 0)) := by
  rw [C11.depuncture_spec p n 0 r i hi]
  unfold recv
  by_cases hk : pAt p (C11.pIdx p 0 i) = true
  · simp only [hk, if_true, Bool.true_and, decide_eq_false_iff_not, decide_eq_true_eq]
    constructor
    · intro h
      simp [List.getD_eq_getElem?_getD, List.getElem?_eq_none (by omega : r.length ≤ C11.rank p 0 i)]
    · intro h
      obtain ⟨hl, hpt⟩ := hr
      have h1 := hpt (C11.rank p 0 i) (by omega)
      have h2 := C11.keptSeq_rank p false c 0 i (by omega) hk
      have h3 : ((C11.keptSeq p 0 c).take out).getD (C11.rank p 0 i) false = c.getD i false := by
        rw [← h2]; simp [List.getD_eq_getElem?_getD, h]
      rw [h3] at h1
      exact h1
  · simp only [hk]
    simp

/-- every trellis step of the geometry receives at least one of its two coded bits -/
def noDouble (p : List Nat) (n out : Nat) : Bool :=
  (List.range (n / 2)).all fun t => recv p out (2 * t) || recv p out (2 * t + 1)

/-- LSF (P1, 488 → 368), stream (P2, 296 → 272), packet (P3, 420 → 368), BERT (P2, 402 → 368; the 369th kept bit is
    not transmitted) -/
theorem geometries_noDouble :
    noDouble Gen.p1 488 368 = true ∧ noDouble Gen.p2 296 272 = true ∧
    noDouble Gen.p3 420 368 = true ∧ noDouble Gen.p2 402 368 = true := by decide +kernel

theorem pairs_length : ∀ (d : List Int), (pairs d).length = d.length / 2
  | [] => rfl
  | [_] => by simp [pairs]
  | a :: b :: rest => by simp only [pairs, List.length_cons, pairs_length rest]; omega

theorem flat_pairs : ∀ (d : List Int), d.length % 2 = 0 → ((pairs d).flatMap fun p => [p.1, p.2]) = d
  | [], _ => rfl
  | [_], h => by simp at h
  | a :: b :: rest, h => by
    simp only [pairs, List.flatMap_cons, List.cons_append, List.nil_append]
    rw [flat_pairs rest (by simp only [List.length_cons] at h; omega)]

theorem carries_okSign (lo : Int) (hlo : 1 ≤ lo) (b : Bool) (x : Int) (h : Carries lo b x) : okSign 7 b x ∧ x ≠ 0 := by
  unfold Carries at h; unfold okSign
  cases b <;> simp at h ⊢ <;> omega

/-- pointwise sign-consistency and "no step loses both values" give the recursive `Consistent` of `M17.C01` -/
theorem consistent_of_pointwise : ∀ (cs : List (Bool × Bool)) (d : List Int), d.length = 2 * cs.length →
    (∀ t, t < cs.length →
      okSign 7 (cs.getD t (false, false)).1 (d.getD (2 * t) 0) ∧ okSign 7 (cs.getD t (false, false)).2 (d.getD (2 * t + 1) 0) ∧
      ¬ (d.getD (2 * t) 0 = 0 ∧ d.getD (2 * t + 1) 0 = 0)) →
    Consistent 7 (pairs d) cs := by
  intro cs
  induction cs with
  | nil => intro d hd _; cases d with
    | nil => simp [pairs, Consistent]
    | cons _ _ => simp at hd
  | cons c cs ih =>
    intro d hd h
    match d, hd with
    | a :: b :: rest, hd =>
      simp only [pairs, Consistent]
      have h0 := h 0 (by simp)
      simp only [List.getD_cons_zero, Nat.mul_zero, Nat.zero_add, List.getD_cons_succ] at h0
      refine ⟨h0.1, h0.2.1, h0.2.2, ih rest (by simp only [List.length_cons] at hd; omega) ?_⟩
      intro t ht
      have := h (t + 1) (by simp; omega)
      have e1 : 2 * (t + 1) = (2 * t + 1) + 1 := by omega
      rw [e1] at this
      simpa only [List.getD_cons_succ] using this

theorem flat_getD (cs : List (Bool × Bool)) : ∀ (t : Nat), t < cs.length →
    (cs.flatMap fun p => [p.1, p.2]).getD (2 * t) false = (cs.getD t (false, false)).1 ∧
    (cs.flatMap fun p => [p.1, p.2]).getD (2 * t + 1) false = (cs.getD t (false, false)).2 := by
  induction cs with
  | nil => intro t ht; simp at ht
  | cons c cs ih =>
    intro t ht
    cases t with
    | zero => simp
    | succ t =>
      have := ih t (by simpa using ht)
      have e1 : 2 * (t + 1) = (2 * t + 1) + 1 := by omega
      rw [e1]
      simpa only [List.flatMap_cons, List.cons_append, List.nil_append, List.getD_cons_succ] using this

theorem flatMap_pair_length (cs : List (Bool × Bool)) : (cs.flatMap fun p => [p.1, p.2]).length = 2 * cs.length := by
  induction cs with
  | nil => rfl
  | cons c cs ih => simp only [List.flatMap_cons, List.length_append, List.length_cons, List.length_nil, ih]; omega

theorem convFrom_length : ∀ (u : List Bool) (s : Nat), (Spec.convFrom s u).length = u.length
  | [], _ => rfl
  | b :: u, s => by simp only [Spec.convFrom, List.length_cons, convFrom_length u]

/-- **de-punctured clean soft image of a punctured code word is `Consistent` with the code word** -/
theorem depunct_consistent (lo : Int) (hlo : 1 ≤ lo) (p : List Nat) (v : List Bool) (r : List Int) (out n : Nat)
    (hn : n = 2 * v.length) (hlen : r.length = out) (hnd : noDouble p n out = true)
    (hr : SoftImage lo ((C11.keptSeq p 0 ((Spec.convFrom 0 v).flatMap fun p => [p.1, p.2])).take out) r) :
    Consistent 7 (pairs (depunctureGo p 0 r n)) (Spec.convFrom 0 v) := by
  have hcl : ((Spec.convFrom 0 v).flatMap fun p => [p.1, p.2]).length = n := by
    rw [flatMap_pair_length, convFrom_length, hn]
  apply consistent_of_pointwise
  · rw [C11.depunctureGo_length, convFrom_length, hn]
  · intro t ht
    rw [convFrom_length] at ht
    have g0 := depunct_getD lo p _ r out n hcl hlen hr (2 * t) (by omega)
    have g1 := depunct_getD lo p _ r out n hcl hlen hr (2 * t + 1) (by omega)
    obtain ⟨f0, f1⟩ := flat_getD (Spec.convFrom 0 v) t (by rw [convFrom_length]; exact ht)
    rw [f0] at g0
    rw [f1] at g1
    have hnd' := M17.Bits.all_range hnd (i := t) (by omega)
    simp only [Bool.or_eq_true] at hnd'
    refine ⟨?_, ?_, ?_⟩
    · cases h : recv p out (2 * t)
      · rw [g0.1 h]; left; rfl
      · exact (carries_okSign lo hlo _ _ (g0.2 h)).1
    · cases h : recv p out (2 * t + 1)
      · rw [g1.1 h]; left; rfl
      · exact (carries_okSign lo hlo _ _ (g1.2 h)).1
    · intro hz
      rcases hnd' with h | h
      · exact (carries_okSign lo hlo _ _ (g0.2 h)).2 hz.1
      · exact (carries_okSign lo hlo _ _ (g1.2 h)).2 hz.2

/-! ## stage 5 — the decoder's FEC chain (`depuncture` → `Viterbi::decode` → `to_byte_array`) on a clean frame -/

theorem limit4 : limit 4 = 7 := by decide

/-- the slack of the received vector: Σ (7 − |r|) over the received (non-erased) positions of the de-punctured block -/
def slack (p : List Nat) (r : List Int) (n : Nat) : Nat := baseCost 7 (pairs (depunctureGo p 0 r n))

/-- **FEC chain, clean frame**: for every puncture matrix / geometry that never erases a whole trellis step, every message
    `u`, and every clean soft image `r` (per-position magnitudes `lo`..7) of the punctured specification code word, the
    decoder's chain returns exactly `u`, packed MSB-first, with cost `round(slack/7)` -/
theorem fec_clean (lo : Int) (hlo : 1 ≤ lo) (p : List Nat) (hp : 0 < p.length) (u : List Bool) (r : List Int) (out n : Nat)
    (hn : n = 2 * (u.length + 4)) (hlen : r.length = out) (hnd : noDouble p n out = true)
    (hsmall : 318 * (u.length + 4) < 2 ^ 30 - 1)
    (hr : SoftImage lo (Spec.Tx.punct p (Spec.convEncode u) out) r) :
    fec p r n u.length = (roundDiv (slack p r n) 7, u, Bytes.pack u) := by
  unfold fec slack
  rw [punct_eq p hp] at hr
  unfold Spec.convEncode at hr
  have hv : (u ++ [false, false, false, false]).length = u.length + 4 := by simp
  have hc := depunct_consistent lo hlo p (u ++ [false, false, false, false]) r out n (by rw [hv]; exact hn) hlen hnd hr
  have hdl : (depunctureGo p 0 r n).length = n := C11.depunctureGo_length p n 0 r
  have hpl : (pairs (depunctureGo p 0 r n)).length = u.length + 4 := by rw [pairs_length, hdl, hn]; omega
  have hflat := flat_pairs (depunctureGo p 0 r n) (by rw [hdl, hn]; omega)
  have hv := viterbi_clean_exact 4 (by decide) (pairs (depunctureGo p 0 r n)) (u ++ [false, false, false, false]) u.length
    (by rw [limit4]; exact hc) (by rw [hpl]; exact hsmall)
  rw [hflat, limit4] at hv
  simp only [vitLLR, hv, List.take_left']

/-! ### cost 0 at full confidence -/

theorem base1_zero_of_full (x : Int) (h : x = 0 ∨ x = 7 ∨ x = -7) : base1 7 x = 0 := by
  unfold base1; rcases h with h | h | h <;> simp [h]

theorem baseCost_zero : ∀ (d : List Int), (∀ x ∈ d, x = 0 ∨ x = 7 ∨ x = -7) → baseCost 7 (pairs d) = 0
  | [], _ => rfl
  | [_], _ => by simp [pairs, baseCost]
  | a :: b :: rest, h => by
    have ih := baseCost_zero rest (fun x hx => h x (by simp [hx]))
    unfold baseCost at ih ⊢
    simp only [pairs, List.map_cons, List.sum_cons, ih]
    rw [base1_zero_of_full a (h a (by simp)), base1_zero_of_full b (h b (by simp))]

theorem depunct_mem (p : List Nat) : ∀ (n pi : Nat) (r : List Int) (x : Int), x ∈ depunctureGo p pi r n → x = 0 ∨ x ∈ r := by
  intro n
  induction n with
  | zero => intro pi r x h; simp [depunctureGo] at h
  | succ n ih =>
    intro pi r x h
    simp only [depunctureGo] at h
    split at h
    · rcases List.mem_cons.mp h with h | h
      · left; exact h
      · exact ih _ _ _ h
    · cases r with
      | nil =>
        rcases List.mem_cons.mp h with h | h
        · left; exact h
        · exact ih _ _ _ h
      | cons y r =>
        rcases List.mem_cons.mp h with h | h
        · right; simp [h]
        · rcases ih _ _ _ h with h | h
          · left; exact h
          · right; simp [h]

theorem full_mem (bits : List Bool) (r : List Int) (h : SoftImage 7 bits r) : ∀ x ∈ r, x = 7 ∨ x = -7 := by
  intro x hx
  obtain ⟨i, hi, rfl⟩ := List.getElem_of_mem hx
  have := h.2 i (by rw [← h.1]; exact hi)
  have e : r.getD i 0 = r[i] := by simp [List.getD_eq_getElem?_getD, hi]
  rw [e] at this
  unfold Carries at this
  split at this <;> omega

/-- at full confidence (every soft value ±7) the slack, hence the reported cost, is 0 -/
theorem slack_zero_of_full (p : List Nat) (bits : List Bool) (r : List Int) (n : Nat) (h : SoftImage 7 bits r) : slack p r n = 0 := by
  unfold slack
  apply baseCost_zero
  intro x hx
  rcases depunct_mem p n 0 r x hx with h0 | h1
  · left; exact h0
  · right; exact full_mem bits r h x h1

theorem roundDiv_zero : roundDiv 0 7 = 0 := by decide

/-! ## stage 6 — byte packing: `to_byte_array` undoes the specification's MSB-first bit expansion -/

def byteOfOK : Bool := (List.range 256).all fun b => Bytes.byteOf (Spec.byteBits b) == b
theorem byteOf_ok : byteOfOK = true := by decide +kernel

theorem byteOf_byteBits (b : Nat) (hb : b < 256) : Bytes.byteOf (Spec.byteBits b) = b := by
  have := M17.Bits.all_range byteOf_ok hb
  simpa using this

theorem byteBits_length (b : Nat) : (Spec.byteBits b).length = 8 := by unfold Spec.byteBits; simp

theorem bitsOfBytes_length (bs : List Nat) : (Spec.Tx.bitsOfBytes bs).length = 8 * bs.length := by
  unfold Spec.Tx.bitsOfBytes
  induction bs with
  | nil => rfl
  | cons b bs ih => simp only [List.flatMap_cons, List.length_append, byteBits_length, ih, List.length_cons]; omega

theorem chunk_bitsOfBytes (bs : List Nat) : ∀ (k : Nat), k < bs.length →
    ((Spec.Tx.bitsOfBytes bs).drop (8 * k)).take 8 = Spec.byteBits (bs.getD k 0) := by
  unfold Spec.Tx.bitsOfBytes
  induction bs with
  | nil => intro k hk; simp at hk
  | cons b bs ih =>
    intro k hk
    cases k with
    | zero =>
      simp only [List.flatMap_cons, Nat.mul_zero, List.drop_zero, List.getD_cons_zero]
      rw [List.take_append_of_le_length (by rw [byteBits_length]; omega), List.take_of_length_le (by rw [byteBits_length]; omega)]
    | succ k =>
      have e : 8 * (k + 1) = (Spec.byteBits b).length + 8 * k := by rw [byteBits_length]; omega
      simp only [List.flatMap_cons, List.getD_cons_succ]
      rw [e, List.drop_append, List.drop_of_length_le (by omega), Nat.add_sub_cancel_left, List.nil_append]
      exact ih k (by simpa using hk)

/-- **packing the bits of a byte string gives the byte string back** -/
theorem pack_bitsOfBytes (bs : List Nat) (hb : Bytes.AllBytes bs) : Bytes.pack (Spec.Tx.bitsOfBytes bs) = bs := by
  unfold Bytes.pack
  rw [bitsOfBytes_length]
  have e : (8 * bs.length + 7) / 8 = bs.length := by omega
  rw [e]
  apply List.ext_getElem (by simp)
  intro i h1 h2
  simp only [List.getElem_map, List.getElem_range]
  rw [chunk_bitsOfBytes bs i h2]
  have e2 : bs.getD i 0 = bs[i] := by simp [List.getD_eq_getElem?_getD, h2]
  rw [e2]
  exact byteOf_byteBits _ (hb _ (List.getElem_mem h2))

/-! ## frame geometry: lengths -/

theorem keptSeq_length_congr (p : List Nat) : ∀ (xs : List α) (ys : List β) (pi : Nat), xs.length = ys.length →
    (C11.keptSeq p pi xs).length = (C11.keptSeq p pi ys).length := by
  intro xs
  induction xs with
  | nil => intro ys pi h; cases ys with
    | nil => rfl
    | cons _ _ => simp at h
  | cons x xs ih =>
    intro ys pi h
    cases ys with
    | nil => simp at h
    | cons y ys =>
      simp only [C11.keptSeq]
      have := ih ys (nextP p pi) (by simpa using h)
      split <;> simp [this]

theorem convEncode_length (u : List Bool) : (Spec.convEncode u).length = 2 * (u.length + 4) := by
  unfold Spec.convEncode
  rw [flatMap_pair_length, convFrom_length]; simp

theorem punct_length (p : List Nat) (hp : 0 < p.length) (u : List Bool) (n out : Nat) (hn : 2 * (u.length + 4) = n)
    (hk : out ≤ C11.keptCount p n) : (Spec.Tx.punct p (Spec.convEncode u) out).length = out := by
  rw [punct_eq p hp, List.length_take]
  unfold C11.keptCount at hk
  rw [keptSeq_length_congr p (Spec.convEncode u) (List.range n) 0 (by rw [convEncode_length, hn]; simp)]
  omega

theorem softImage_length {lo : Int} {bits : List Bool} {r : List Int} (h : SoftImage lo bits r) : r.length = bits.length := h.1

/-! ## the decoder's front end + FEC chain on a specification-encoded single-block frame -/

/-- common core of LSF / packet / BERT frames: `fec p (deinterleave (derandomize frame)) n u.length` returns `u` -/
theorem frame_fec (lo : Int) (hlo : 1 ≤ lo) (p : List Nat) (hp : 0 < p.length) (u : List Bool) (frame : List Int) (n : Nat)
    (hn : n = 2 * (u.length + 4)) (hk : 368 ≤ C11.keptCount p n) (hnd : noDouble p n 368 = true)
    (hsmall : 318 * (u.length + 4) < 2 ^ 30 - 1)
    (hr : SoftImage lo (Spec.Tx.rnd (Spec.Tx.ileave (Spec.Tx.punct p (Spec.convEncode u) 368))) frame) :
    fec p (deinterleaveSoft (randSoft frame)) n u.length =
      (roundDiv (slack p (deinterleaveSoft (randSoft frame)) n) 7, u, Bytes.pack u) := by
  have hpl := punct_length p hp u n 368 hn.symm hk
  have hc := condition_image lo hlo _ frame hpl hr
  exact fec_clean lo hlo p hp u _ 368 n hn (by rw [softImage_length hc, hpl]) hnd hsmall hc

/-! ## the four frame kinds -/

theorem p1_pos : 0 < Gen.p1.length := by decide
theorem p2_pos : 0 < Gen.p2.length := by decide
theorem p3_pos : 0 < Gen.p3.length := by decide

/-- the reported cost of a clean frame: `round(slack/7)` of the de-randomized, de-interleaved, de-punctured block -/
def cleanCost (p : List Nat) (frame : List Int) (n : Nat) : Nat :=
  roundDiv (slack p (deinterleaveSoft (randSoft frame)) n) 7

/-- **link setup frame**: for every 30-byte LSF, every decoder state and every clean soft image of the specification-encoded
    frame, `operator()(LSF sync)` decodes exactly the 30 bytes; it reports them (callback, result OK, stored as the current
    LSF, mode from the TYPE field) iff their CRC checks, and otherwise fails without a callback -/
theorem lsf_roundtrip (lo : Int) (hlo : 1 ≤ lo) (σ : DState) (lsf : List Nat) (hl : lsf.length = 30) (hb : Bytes.AllBytes lsf)
    (frame : List Int) (cb : Bool) (hr : SoftImage lo (Spec.Tx.lsfFrameBits lsf) frame) :
    (Spec.crc16 lsf = 0 →
      step σ .lsf frame cb =
        { state := { mode := updateState .lsf (Spec.Tx.bitsOfBytes lsf), mask := σ.mask, lsfBuf := lsf },
          calls := [⟨.lsf, lsf, cleanCost Gen.p1 frame 488⟩], result := .ok, cost := some (cleanCost Gen.p1 frame 488) }) ∧
    (Spec.crc16 lsf ≠ 0 →
      step σ .lsf frame cb =
        { state := { mode := .lsf, mask := 0, lsfBuf := List.replicate 30 0 },
          calls := [], result := .fail, cost := some (cleanCost Gen.p1 frame 488) }) := by
  unfold Spec.Tx.lsfFrameBits at hr
  rw [← C11.gen_p1_eq_spec] at hr
  have hu : (Spec.Tx.bitsOfBytes lsf).length = 240 := by rw [bitsOfBytes_length, hl]
  have hf := frame_fec lo hlo Gen.p1 p1_pos (Spec.Tx.bitsOfBytes lsf) frame 488 (by rw [hu]) (by rw [C11.kept_lsf]; omega)
    geometries_noDouble.1 (by rw [hu]; decide) hr
  rw [hu, pack_bitsOfBytes lsf hb] at hf
  unfold step decodeLsf cleanCost
  simp only [hf, C05.crcOf_is_m17_crc]
  constructor
  · intro h; simp only [h, if_true]
  · intro h; simp only [h, if_false]

/-- **packet frame** (206 bits = 25 bytes ‖ EOF ‖ 5-bit counter, zero padded to 26 bytes by `to_byte_array`): in either packet
    mode the callback receives exactly the packed payload; the frame ends the packet iff its EOF bit is set -/
theorem packet_roundtrip (lo : Int) (hlo : 1 ≤ lo) (σ : DState) (bits : List Bool) (hl : bits.length = 206)
    (frame : List Int) (cb : Bool) (hr : SoftImage lo (Spec.Tx.packetFrameBits bits) frame)
    (ty : FType) (hm : (σ.mode = .basicPacket ∧ ty = .basicPacket) ∨ (σ.mode = .fullPacket ∧ ty = .fullPacket)) :
    step σ .packet frame cb =
      (if (Bytes.pack bits).getD 25 0 ≥ 128 then
        { state := { σ with mode := .lsf }, calls := [⟨ty, Bytes.pack bits, cleanCost Gen.p3 frame 420⟩],
          result := if cb then .ok else .fail, cost := some (cleanCost Gen.p3 frame 420) }
      else
        { state := σ, calls := [⟨ty, Bytes.pack bits, cleanCost Gen.p3 frame 420⟩],
          result := .packetIncomplete, cost := some (cleanCost Gen.p3 frame 420) }) := by
  unfold Spec.Tx.packetFrameBits at hr
  rw [← C11.gen_p3_eq_spec] at hr
  have hf := frame_fec lo hlo Gen.p3 p3_pos bits frame 420 (by rw [hl]) (by rw [C11.kept_packet]; omega)
    geometries_noDouble.2.2.1 (by rw [hl]; decide) hr
  rw [hl] at hf
  unfold step cleanCost
  rcases hm with ⟨h1, h2⟩ | ⟨h1, h2⟩ <;> (simp only [h1, h2]; unfold decodePacket; simp only [hf])

/-- **BERT frame** (197 bits): whatever the state, the callback receives exactly the packed 197 bits (25 bytes, last three
    bits zero) and the decoder is in BERT mode afterwards -/
theorem bert_roundtrip (lo : Int) (hlo : 1 ≤ lo) (σ : DState) (bits : List Bool) (hl : bits.length = 197)
    (frame : List Int) (cb : Bool) (hr : SoftImage lo (Spec.Tx.bertFrameBits bits) frame) :
    step σ .bert frame cb =
      { state := { σ with mode := .bert }, calls := [⟨.bert, Bytes.pack bits, cleanCost Gen.p2 frame 402⟩],
        result := .ok, cost := some (cleanCost Gen.p2 frame 402) } := by
  unfold Spec.Tx.bertFrameBits at hr
  rw [← C11.gen_p2_eq_spec] at hr
  have hf := frame_fec lo hlo Gen.p2 p2_pos bits frame 402 (by rw [hl]) (by rw [C11.kept_bert.1]; omega)
    geometries_noDouble.2.2.2 (by rw [hl]; decide) hr
  rw [hl] at hf
  unfold step decodeBert cleanCost
  simp only [hf]

/-! ## stream frames: LICH (96 bits, Golay) ‖ payload (272 bits, convolutional) -/

theorem softImage_append (lo : Int) (a b : List Bool) (r : List Int) (h : SoftImage lo (a ++ b) r) :
    SoftImage lo a (r.take a.length) ∧ SoftImage lo b (r.drop a.length) := by
  obtain ⟨hl, hp⟩ := h
  rw [List.length_append] at hl hp
  refine ⟨⟨by rw [List.length_take]; omega, ?_⟩, ⟨by rw [List.length_drop]; omega, ?_⟩⟩
  · intro i hi
    have := hp i (by omega)
    have e1 : (a ++ b).getD i false = a.getD i false := by
      simp [List.getD_eq_getElem?_getD, List.getElem?_append_left hi]
    have e2 : (r.take a.length).getD i 0 = r.getD i 0 := by
      simp [List.getD_eq_getElem?_getD, List.getElem?_take, hi]
    rw [e1] at this; rw [e2]; exact this
  · intro i hi
    have := hp (a.length + i) (by omega)
    have e1 : (a ++ b).getD (a.length + i) false = b.getD i false := by
      simp [List.getD_eq_getElem?_getD, List.getElem?_append_right]
    have e2 : (r.drop a.length).getD i 0 = r.getD (a.length + i) 0 := by
      simp [List.getD_eq_getElem?_getD, List.getElem?_drop]
    rw [e1] at this; rw [e2]; exact this

theorem wordBits_length (w n : Nat) : (Spec.Tx.wordBits w n).length = n := by unfold Spec.Tx.wordBits; simp

theorem lichBits_length (lsf : List Nat) (n : Nat) : (Spec.Tx.lichBits lsf n).length = 96 := by
  unfold Spec.Tx.lichBits
  simp [List.range, List.range.loop, wordBits_length]

/-- **stream frame in stream mode**: the callback receives exactly the 18 data bytes (frame number ‖ 16 payload bytes),
    whatever LICH fragment rides along -/
theorem stream_roundtrip (lo : Int) (hlo : 1 ≤ lo) (σ : DState) (hm : σ.mode = .stream) (lsf : List Nat) (lichN : Nat)
    (data : List Nat) (hd : data.length = 18) (hb : Bytes.AllBytes data)
    (frame : List Int) (cb : Bool) (hr : SoftImage lo (Spec.Tx.streamFrameBits lsf lichN data) frame) :
    step σ .stream frame cb =
      { state := σ, calls := [⟨.stream, data, roundDiv (slack Gen.p2 ((deinterleaveSoft (randSoft frame)).drop 96) 296) 7⟩],
        result := .ok, cost := some (roundDiv (slack Gen.p2 ((deinterleaveSoft (randSoft frame)).drop 96) 296) 7) } := by
  unfold Spec.Tx.streamFrameBits at hr
  rw [← C11.gen_p2_eq_spec] at hr
  have hu : (Spec.Tx.bitsOfBytes data).length = 144 := by rw [bitsOfBytes_length, hd]
  have hpl := punct_length Gen.p2 p2_pos (Spec.Tx.bitsOfBytes data) 296 272 (by rw [hu]) (by rw [C11.kept_stream]; omega)
  have hc := condition_image lo hlo _ frame (by rw [List.length_append, lichBits_length, hpl]) hr
  have hs := (softImage_append lo _ _ _ hc).2
  rw [lichBits_length] at hs
  have hf := fec_clean lo hlo Gen.p2 p2_pos (Spec.Tx.bitsOfBytes data) _ 272 296 (by rw [hu]) (by rw [softImage_length hs, hpl])
    geometries_noDouble.2.1 (by rw [hu]; decide) hs
  rw [hu, pack_bitsOfBytes data hb] at hf
  unfold step
  simp only [hm]
  unfold decodeStream
  simp only [hf]

/-! ### LICH: hard decisions on a clean image give the Golay code words back -/

/-- value of a bit string, MSB first -/
def bitsVal (bits : List Bool) : Nat := bits.foldl (fun v b => 2 * v + b.toNat) 0

theorem foldl_val_acc (bits : List Bool) : ∀ (acc : Nat),
    bits.foldl (fun v b => 2 * v + b.toNat) acc = acc * 2 ^ bits.length + bitsVal bits := by
  unfold bitsVal
  induction bits with
  | nil => intro acc; simp
  | cons b bits ih =>
    intro acc
    simp only [List.foldl_cons, List.length_cons]
    rw [ih (2 * acc + b.toNat), ih (2 * 0 + b.toNat), Nat.pow_succ]
    simp only [Nat.mul_zero, Nat.zero_add, Nat.add_mul]
    rw [Nat.mul_comm 2 acc, Nat.mul_assoc, Nat.mul_comm 2 (2 ^ bits.length)]
    omega

theorem bitsVal_append (a b : List Bool) : bitsVal (a ++ b) = bitsVal a * 2 ^ b.length + bitsVal b := by
  unfold bitsVal
  rw [List.foldl_append, foldl_val_acc b]
  rfl

theorem softImage_cons (lo : Int) (b : Bool) (bits : List Bool) (x : Int) (xs : List Int) (h : SoftImage lo (b :: bits) (x :: xs)) :
    Carries lo b x ∧ SoftImage lo bits xs := by
  obtain ⟨hl, hp⟩ := h
  refine ⟨by simpa using hp 0 (by simp), by simpa using hl, ?_⟩
  intro i hi
  have := hp (i + 1) (by simp; omega)
  simpa only [List.getD_cons_succ] using this

/-- `buffer[k] > 0` decisions on a clean soft image reproduce the bits -/
theorem hardWord_image (lo : Int) (hlo : 1 ≤ lo) : ∀ (bits : List Bool) (xs : List Int) (acc : Nat), SoftImage lo bits xs →
    xs.foldl (fun acc x => 2 * acc + (if x > 0 then 1 else 0)) acc = bits.foldl (fun v b => 2 * v + b.toNat) acc := by
  intro bits
  induction bits with
  | nil => intro xs acc h; cases xs with
    | nil => rfl
    | cons _ _ => have := h.1; simp at this
  | cons b bits ih =>
    intro xs acc h
    cases xs with
    | nil => have := h.1; simp at this
    | cons x xs =>
      obtain ⟨hc, ht⟩ := softImage_cons lo b bits x xs h
      simp only [List.foldl_cons]
      have e : (if x > 0 then 1 else 0) = b.toNat := by
        unfold Carries at hc
        cases b <;> simp at hc ⊢ <;> omega
      rw [e]
      exact ih xs _ ht

theorem wordBits_succ (w n : Nat) : Spec.Tx.wordBits w (n + 1) = Spec.Tx.wordBits (w / 2) n ++ [decide (w % 2 = 1)] := by
  unfold Spec.Tx.wordBits
  rw [List.range_succ, List.map_append]
  congr 1
  · apply List.map_congr_left
    intro i hi
    have hi' := List.mem_range.mp hi
    have e : n + 1 - 1 - i = (n - 1 - i) + 1 := by omega
    rw [e, Nat.shiftRight_succ_inside]
  · simp

theorem bitsVal_wordBits : ∀ (n w : Nat), bitsVal (Spec.Tx.wordBits w n) = w % 2 ^ n := by
  intro n
  induction n with
  | zero => intro w; simp [Spec.Tx.wordBits, bitsVal, Nat.mod_one]
  | succ n ih =>
    intro w
    rw [wordBits_succ, bitsVal_append, ih (w / 2)]
    have : bitsVal [decide (w % 2 = 1)] = w % 2 := by
      unfold bitsVal
      rcases Nat.mod_two_eq_zero_or_one w with h | h <;> simp [h]
    rw [this, Nat.pow_succ, Nat.mul_comm (2 ^ n) 2, Nat.mod_mul]
    simp only [List.length_cons, List.length_nil, Nat.pow_one]
    omega

/-- the 24 hard decisions on a clean image of a 24-bit word are that word -/
theorem hardWord_wordBits (lo : Int) (hlo : 1 ≤ lo) (w : Nat) (hw : w < 2 ^ 24) (xs : List Int)
    (h : SoftImage lo (Spec.Tx.wordBits w 24) xs) : hardWord xs = w := by
  unfold hardWord
  rw [hardWord_image lo hlo _ xs 0 h]
  have := bitsVal_wordBits 24 w
  unfold bitsVal at this
  rw [this, Nat.mod_eq_of_lt hw]

/-! ### the four 12-bit data words of a LICH fragment -/

def byteValOK : Bool := (List.range 256).all fun b =>
  bitsVal (Spec.byteBits b) == b && bitsVal ((Spec.byteBits b).take 4) == b / 16 && bitsVal ((Spec.byteBits b).drop 4) == b % 16
theorem byteVal_ok : byteValOK = true := by decide +kernel

theorem byteVal (b : Nat) (hb : b < 256) :
    bitsVal (Spec.byteBits b) = b ∧ bitsVal ((Spec.byteBits b).take 4) = b / 16 ∧ bitsVal ((Spec.byteBits b).drop 4) = b % 16 := by
  have := M17.Bits.all_range byteVal_ok hb
  simpa [and_assoc] using this

theorem byteBits_explicit (b : Nat) : ∃ x7 x6 x5 x4 x3 x2 x1 x0, Spec.byteBits b = [x7, x6, x5, x4, x3, x2, x1, x0] :=
  ⟨_, _, _, _, _, _, _, _, rfl⟩

/-- the four 12-bit slices of six bytes, as byte / nibble concatenations -/
theorem lich_slices (b0 b1 b2 b3 b4 b5 : Nat) :
    let bits := Spec.Tx.bitsOfBytes [b0, b1, b2, b3, b4, b5]
    (bits.drop (12 * 0)).take 12 = Spec.byteBits b0 ++ (Spec.byteBits b1).take 4 ∧
    (bits.drop (12 * 1)).take 12 = (Spec.byteBits b1).drop 4 ++ Spec.byteBits b2 ∧
    (bits.drop (12 * 2)).take 12 = Spec.byteBits b3 ++ (Spec.byteBits b4).take 4 ∧
    (bits.drop (12 * 3)).take 12 = (Spec.byteBits b4).drop 4 ++ Spec.byteBits b5 := by
  obtain ⟨a7, a6, a5, a4, a3, a2, a1, a0, ha⟩ := byteBits_explicit b0
  obtain ⟨c7, c6, c5, c4, c3, c2, c1, c0, hc⟩ := byteBits_explicit b1
  obtain ⟨d7, d6, d5, d4, d3, d2, d1, d0, hd⟩ := byteBits_explicit b2
  obtain ⟨e7, e6, e5, e4, e3, e2, e1, e0, he⟩ := byteBits_explicit b3
  obtain ⟨f7, f6, f5, f4, f3, f2, f1, f0, hf⟩ := byteBits_explicit b4
  obtain ⟨g7, g6, g5, g4, g3, g2, g1, g0, hg⟩ := byteBits_explicit b5
  simp only [Spec.Tx.bitsOfBytes, List.flatMap_cons, List.flatMap_nil, ha, hc, hd, he, hf, hg]
  exact ⟨rfl, rfl, rfl, rfl⟩

theorem lich_data_words (b0 b1 b2 b3 b4 b5 : Nat)
    (l0 : b0 < 256) (l1 : b1 < 256) (l2 : b2 < 256) (l3 : b3 < 256) (l4 : b4 < 256) (l5 : b5 < 256) :
    let bits := Spec.Tx.bitsOfBytes [b0, b1, b2, b3, b4, b5]
    bitsVal ((bits.drop (12 * 0)).take 12) = b0 * 16 + b1 / 16 ∧
    bitsVal ((bits.drop (12 * 1)).take 12) = (b1 % 16) * 256 + b2 ∧
    bitsVal ((bits.drop (12 * 2)).take 12) = b3 * 16 + b4 / 16 ∧
    bitsVal ((bits.drop (12 * 3)).take 12) = (b4 % 16) * 256 + b5 := by
  obtain ⟨s0, s1, s2, s3⟩ := lich_slices b0 b1 b2 b3 b4 b5
  simp only at s0 s1 s2 s3 ⊢
  rw [s0, s1, s2, s3]
  simp only [bitsVal_append, List.length_take, List.length_drop, byteBits_length,
    (byteVal b0 l0).1, (byteVal b1 l1).2.1, (byteVal b1 l1).2.2, (byteVal b2 l2).1,
    (byteVal b3 l3).1, (byteVal b4 l4).2.1, (byteVal b4 l4).2.2, (byteVal b5 l5).1,
    (by decide : min 4 8 = 4), Nat.reducePow, Nat.reduceSub]
  exact ⟨trivial, trivial, trivial, trivial⟩

theorem take_drop_take (l : List Int) (k m n : Nat) (h : k + m ≤ n) : ((l.take n).drop k).take m = (l.drop k).take m := by
  rw [List.drop_take, List.take_take, Nat.min_eq_left (by omega)]

theorem list6 (l : List Nat) (h : l.length = 6) :
    l = [l.getD 0 0, l.getD 1 0, l.getD 2 0, l.getD 3 0, l.getD 4 0, l.getD 5 0] := by
  match l, h with
  | [_, _, _, _, _, _], _ => rfl

/-- a clean 96-value image of four 24-bit words: the `k`-th group of 24 hard decisions is the `k`-th word -/
theorem four_words (lo : Int) (hlo : 1 ≤ lo) (w0 w1 w2 w3 : Nat) (h0 : w0 < 2 ^ 24) (h1 : w1 < 2 ^ 24) (h2 : w2 < 2 ^ 24) (h3 : w3 < 2 ^ 24)
    (buf : List Int)
    (h : SoftImage lo (Spec.Tx.wordBits w0 24 ++ (Spec.Tx.wordBits w1 24 ++ (Spec.Tx.wordBits w2 24 ++ Spec.Tx.wordBits w3 24))) buf) :
    hardWord ((buf.drop (24 * 0)).take 24) = w0 ∧ hardWord ((buf.drop (24 * 1)).take 24) = w1 ∧
    hardWord ((buf.drop (24 * 2)).take 24) = w2 ∧ hardWord ((buf.drop (24 * 3)).take 24) = w3 := by
  obtain ⟨a0, r0⟩ := softImage_append lo _ _ _ h
  obtain ⟨a1, r1⟩ := softImage_append lo _ _ _ r0
  obtain ⟨a2, r2⟩ := softImage_append lo _ _ _ r1
  simp only [wordBits_length] at a0 r0 a1 r1 a2 r2
  have l3 : (List.drop 24 (List.drop 24 (List.drop 24 buf))).length = 24 := by rw [softImage_length r2, wordBits_length]
  refine ⟨hardWord_wordBits lo hlo w0 h0 _ (by simpa using a0), hardWord_wordBits lo hlo w1 h1 _ (by simpa using a1),
    hardWord_wordBits lo hlo w2 h2 _ (by simpa [List.drop_drop] using a2), ?_⟩
  have := hardWord_wordBits lo hlo w3 h3 _ r2
  rw [← List.take_of_length_le (Nat.le_of_eq l3)] at this
  simpa [List.drop_drop] using this

/-- **LICH of a clean stream frame**: `unpack_lich` returns exactly the six LICH bytes the specification puts into the frame —
    five bytes of the LSF at slot `lichN mod 6` and the fragment counter `lichN mod 8` in the top three bits of the sixth -/
theorem lich_roundtrip (lo : Int) (hlo : 1 ≤ lo) (lsf : List Nat) (hl : lsf.length = 30) (hb : Bytes.AllBytes lsf) (lichN : Nat)
    (data : List Nat) (hd : data.length = 18)
    (frame : List Int) (hr : SoftImage lo (Spec.Tx.streamFrameBits lsf lichN data) frame) :
    unpackLich (deinterleaveSoft (randSoft frame)) = some ((lsf.drop (5 * (lichN % 6))).take 5 ++ [(lichN % 8) * 32]) := by
  unfold Spec.Tx.streamFrameBits at hr
  rw [← C11.gen_p2_eq_spec] at hr
  have hu : (Spec.Tx.bitsOfBytes data).length = 144 := by rw [bitsOfBytes_length, hd]
  have hpl := punct_length Gen.p2 p2_pos (Spec.Tx.bitsOfBytes data) 296 272 (by rw [hu]) (by rw [C11.kept_stream]; omega)
  have hc := condition_image lo hlo _ frame (by rw [List.length_append, lichBits_length, hpl]) hr
  have hs := (softImage_append lo _ _ _ hc).1
  rw [lichBits_length] at hs
  generalize deinterleaveSoft (randSoft frame) = buf at hs ⊢
  -- the six LICH bytes
  generalize hseg : (lsf.drop (5 * (lichN % 6))).take 5 ++ [(lichN % 8) * 32] = seg at hs ⊢
  have hsl : seg.length = 6 := by
    rw [← hseg, List.length_append, List.length_take, List.length_drop, hl]
    have := Nat.mod_lt lichN (by decide : 0 < 6)
    simp only [List.length_cons, List.length_nil]; omega
  have hsb : Bytes.AllBytes seg := by
    intro b hbm
    rw [← hseg] at hbm
    rcases List.mem_append.mp hbm with h | h
    · exact hb b (List.mem_of_mem_drop (List.mem_of_mem_take h))
    · have := Nat.mod_lt lichN (by decide : 0 < 8)
      simp only [List.mem_cons, List.not_mem_nil, or_false] at h; omega
  have e6 := list6 seg hsl
  generalize seg.getD 0 0 = b0, seg.getD 1 0 = b1, seg.getD 2 0 = b2, seg.getD 3 0 = b3, seg.getD 4 0 = b4, seg.getD 5 0 = b5 at e6
  subst e6
  have l0 := hsb b0 (by simp); have l1 := hsb b1 (by simp); have l2 := hsb b2 (by simp)
  have l3 := hsb b3 (by simp); have l4 := hsb b4 (by simp); have l5 := hsb b5 (by simp)
  obtain ⟨d0, d1, d2, d3⟩ := lich_data_words b0 b1 b2 b3 b4 b5 l0 l1 l2 l3 l4 l5
  unfold bitsVal at d0 d1 d2 d3
  have hlb : Spec.Tx.lichBits lsf lichN =
      Spec.Tx.wordBits (Spec.golay24 (b0 * 16 + b1 / 16)) 24 ++ (Spec.Tx.wordBits (Spec.golay24 ((b1 % 16) * 256 + b2)) 24 ++
      (Spec.Tx.wordBits (Spec.golay24 (b3 * 16 + b4 / 16)) 24 ++ Spec.Tx.wordBits (Spec.golay24 ((b4 % 16) * 256 + b5)) 24)) := by
    unfold Spec.Tx.lichBits
    simp only [hseg, List.range, List.range.loop, List.flatMap_cons, List.flatMap_nil, List.append_nil, d0, d1, d2, d3]
  rw [hlb] at hs
  have g0 := C04.encode24_eq_spec (b0 * 16 + b1 / 16) (by omega)
  have g1 := C04.encode24_eq_spec ((b1 % 16) * 256 + b2) (by omega)
  have g2 := C04.encode24_eq_spec (b3 * 16 + b4 / 16) (by omega)
  have g3 := C04.encode24_eq_spec ((b4 % 16) * 256 + b5) (by omega)
  rw [← g0, ← g1, ← g2, ← g3] at hs
  obtain ⟨w0, w1, w2, w3⟩ := four_words lo hlo _ _ _ _
    (C04.encode_systematic (b0 * 16 + b1 / 16) (by omega)).2 (C04.encode_systematic ((b1 % 16) * 256 + b2) (by omega)).2
    (C04.encode_systematic (b3 * 16 + b4 / 16) (by omega)).2 (C04.encode_systematic ((b4 % 16) * 256 + b5) (by omega)).2 (buf.take 96) hs
  rw [take_drop_take buf _ 24 96 (by omega)] at w0 w1 w2 w3
  exact C05.unpack_lich_correct buf b0 b1 b2 b3 b4 b5 0 0 0 0 l0 l1 l2 l3 l4 l5
    ⟨⟨by decide, by decide⟩, ⟨by decide, by decide⟩, ⟨by decide, by decide⟩, ⟨by decide, by decide⟩⟩
    (by rw [w0, Nat.xor_zero]) (by rw [w1, Nat.xor_zero]) (by rw [w2, Nat.xor_zero]) (by rw [w3, Nat.xor_zero])

/-- **stream frame while waiting for link setup** (late entry): the first callback is the LICH fragment, bit-exact, with cost 0;
    everything the decoder does next (collect, report the reassembled LSF, enter stream mode) is governed by `M17.C05` -/
theorem lich_callback (lo : Int) (hlo : 1 ≤ lo) (σ : DState) (hm : σ.mode = .lsf) (lsf : List Nat) (hl : lsf.length = 30)
    (hb : Bytes.AllBytes lsf) (lichN : Nat) (data : List Nat) (hd : data.length = 18)
    (frame : List Int) (cb : Bool) (hr : SoftImage lo (Spec.Tx.streamFrameBits lsf lichN data) frame) :
    (step σ .stream frame cb).calls.head? =
      some ⟨.lich, (lsf.drop (5 * (lichN % 6))).take 5 ++ [(lichN % 8) * 32], 0⟩ := by
  have hu := lich_roundtrip lo hlo lsf hl hb lichN data hd frame hr
  unfold step
  simp only [hm]
  unfold decodeLich
  rw [hu]
  simp only
  split
  · rfl
  · split
    · rfl
    · split <;> rfl

/-! ## full confidence ⇒ reported cost 0 -/

theorem cleanCost_zero (p : List Nat) (bits : List Bool) (frame : List Int) (n : Nat) (h : bits.length = 368)
    (hr : SoftImage 7 (Spec.Tx.rnd (Spec.Tx.ileave bits)) frame) : cleanCost p frame n = 0 := by
  unfold cleanCost
  rw [slack_zero_of_full p bits _ n (condition_image 7 (by decide) bits frame h hr)]
  rfl

/-- link setup frame at full confidence (every soft value ±7): cost 0 -/
theorem lsf_cost_zero (lsf : List Nat) (hl : lsf.length = 30) (frame : List Int)
    (hr : SoftImage 7 (Spec.Tx.lsfFrameBits lsf) frame) : cleanCost Gen.p1 frame 488 = 0 := by
  unfold Spec.Tx.lsfFrameBits at hr
  rw [← C11.gen_p1_eq_spec] at hr
  have hu : (Spec.Tx.bitsOfBytes lsf).length = 240 := by rw [bitsOfBytes_length, hl]
  exact cleanCost_zero Gen.p1 _ frame 488
    (punct_length Gen.p1 p1_pos _ 488 368 (by rw [hu]) (by rw [C11.kept_lsf]; omega)) hr

/-- packet frame at full confidence: cost 0 -/
theorem packet_cost_zero (bits : List Bool) (hl : bits.length = 206) (frame : List Int)
    (hr : SoftImage 7 (Spec.Tx.packetFrameBits bits) frame) : cleanCost Gen.p3 frame 420 = 0 := by
  unfold Spec.Tx.packetFrameBits at hr
  rw [← C11.gen_p3_eq_spec] at hr
  exact cleanCost_zero Gen.p3 _ frame 420
    (punct_length Gen.p3 p3_pos _ 420 368 (by rw [hl]) (by rw [C11.kept_packet]; omega)) hr

/-- stream frame at full confidence: cost 0 -/
theorem stream_cost_zero (lsf : List Nat) (lichN : Nat) (data : List Nat) (hd : data.length = 18) (frame : List Int)
    (hr : SoftImage 7 (Spec.Tx.streamFrameBits lsf lichN data) frame) :
    roundDiv (slack Gen.p2 ((deinterleaveSoft (randSoft frame)).drop 96) 296) 7 = 0 := by
  unfold Spec.Tx.streamFrameBits at hr
  rw [← C11.gen_p2_eq_spec] at hr
  have hu : (Spec.Tx.bitsOfBytes data).length = 144 := by rw [bitsOfBytes_length, hd]
  have hpl := punct_length Gen.p2 p2_pos (Spec.Tx.bitsOfBytes data) 296 272 (by rw [hu]) (by rw [C11.kept_stream]; omega)
  have hc := condition_image 7 (by decide) _ frame (by rw [List.length_append, lichBits_length, hpl]) hr
  have hs := (softImage_append 7 _ _ _ hc).2
  rw [lichBits_length] at hs
  rw [slack_zero_of_full Gen.p2 _ _ 296 hs]
  rfl

/-! ## non-vacuity: soft images exist for every bit sequence and every magnitude -/

/-- the soft image at uniform magnitude `m` -/
def softAt (m : Int) (bits : List Bool) : List Int := bits.map fun b => if b then m else -m

theorem softAt_image (m : Int) (_h1 : 1 ≤ m) (h7 : m ≤ 7) (bits : List Bool) : SoftImage m bits (softAt m bits) := by
  refine ⟨by simp [softAt], ?_⟩
  intro i hi
  have : (softAt m bits).getD i 0 = if bits.getD i false then m else -m := by
    simp [softAt, List.getD_eq_getElem?_getD, hi]
  rw [this]
  unfold Carries
  cases bits.getD i false <;> simp <;> omega

/-- monotone in the lower bound: an image at magnitudes `lo`..7 is an image at magnitudes 1..7 -/
theorem softImage_weaken (lo : Int) (hlo : 1 ≤ lo) (bits : List Bool) (r : List Int) (h : SoftImage lo bits r) : SoftImage 1 bits r := by
  refine ⟨h.1, fun i hi => ?_⟩
  have := h.2 i hi
  unfold Carries at this ⊢
  split at this <;> simp_all <;> omega

example : SoftImage 7 [true, false] [7, -7] := softAt_image 7 (by decide) (by decide) [true, false]
example : SoftImage 1 [true, false, true] [3, -7, 1] := by
  refine ⟨rfl, fun i hi => ?_⟩
  have : i = 0 ∨ i = 1 ∨ i = 2 := by simp at hi; omega
  rcases this with rfl | rfl | rfl <;> simp [Carries]

end M17.C01F

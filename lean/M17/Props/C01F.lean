/-
C01 — clean-channel round trip, FRAME LEVEL.

`M17.Props.C01` proves the Viterbi core (a sign-consistent received vector decodes to the transmitted input bits).
This file composes it with the other stages into statements about the *whole* frame decoder model
`Dec.step` fed with the soft image of a *specification-encoded* frame (`Spec.Tx.*FrameBits`):

  receive side (model of the code)                     transmit side (written from the specification)
  randSoft → deinterleaveSoft → depuncture → Viterbi    convEncode → punct → ileave → rnd
  → pack → CRC / Golay / LICH unpack                    golay24, lichBits, crc

for every payload, every decoder state, and every per-position soft magnitude 1..7 with the correct sign.
-/
import M17.Props.C01
import M17.Props.C05
import M17.Props.C10
import M17.Spec.Tx

namespace M17.C01F
open M17.Vit M17.C01 M17.Cond M17.Punct M17.Dec

/-- the soft value `r` carries bit `b`: correct sign (positive = 1), magnitude 1..7 -/
def Carries (b : Bool) (r : Int) : Prop := if b then 1 ≤ r ∧ r ≤ 7 else -7 ≤ r ∧ r ≤ -1

/-- `r` is a clean soft image of the bit sequence `bits` (any per-position magnitudes 1..7) -/
def SoftImage (bits : List Bool) (r : List Int) : Prop :=
  r.length = bits.length ∧ ∀ i, i < bits.length → Carries (bits.getD i false) (r.getD i 0)

/-! ## stage 1 — the receiver's soft de-randomizer undoes the specification's randomizer -/

/-- the specification's 46 randomizer bytes, as bits, are the bits the code derives its ±1 table from -/
theorem dc_bridge : Spec.Tx.bitsOfBytes Spec.randDC = (List.range 368).map dcBit := by decide +kernel

theorem rnd_getD (bits : List Bool) (h : bits.length = 368) (i : Nat) (hi : i < 368) :
    (Spec.Tx.rnd bits).getD i false = (bits.getD i false != dcBit i) := by
  unfold Spec.Tx.rnd
  rw [dc_bridge]
  simp [List.getD_eq_getElem?_getD, h, hi]

theorem rnd_length (bits : List Bool) (h : bits.length = 368) : (Spec.Tx.rnd bits).length = 368 := by
  unfold Spec.Tx.rnd; rw [dc_bridge]; simp [h]

theorem randSoft_getD (r : List Int) (i : Nat) (hi : i < r.length) :
    (randSoft r).getD i 0 = narrow8 (r.getD i 0 * dcSign i) := by
  unfold randSoft
  simp [List.getD_eq_getElem?_getD, hi]

theorem randSoft_length (r : List Int) : (randSoft r).length = r.length := by unfold randSoft; simp

theorem rand_image (bits : List Bool) (r : List Int) (h : bits.length = 368) (hr : SoftImage (Spec.Tx.rnd bits) r) :
    SoftImage bits (randSoft r) := by
  obtain ⟨hl, hp⟩ := hr
  rw [rnd_length bits h] at hl hp
  refine ⟨by rw [randSoft_length, hl, h], ?_⟩
  intro i hi
  rw [h] at hi
  rw [randSoft_getD r i (by omega)]
  have := hp i hi
  rw [rnd_getD bits h i hi] at this
  generalize r.getD i 0 = x at this ⊢
  generalize bits.getD i false = b at this ⊢
  generalize hd : dcBit i = d at this ⊢
  unfold Carries dcSign narrow8
  unfold Carries at this
  rw [hd]
  cases b <;> cases d <;> simp at this ⊢ <;> omega

/-! ## stage 2 — the receiver's soft de-interleaver undoes the specification's interleaver -/

theorem ileave_eq_scatter (bits : List Bool) : Spec.Tx.ileave bits = scatter Spec.ileaveIndex 368 false bits := rfl

theorem spec_index_perm : Bij Spec.ileaveIndex C10.invIndex 368 := by
  have h := C10.index_perm
  refine ⟨fun i hi => ?_, fun p hp => ?_⟩
  · rw [← C10.index_eq_spec]; exact h.1 i hi
  · rw [← C10.index_eq_spec]; exact h.2 p hp

theorem ileave_length (bits : List Bool) : (Spec.Tx.ileave bits).length = 368 := by
  rw [ileave_eq_scatter]; exact scatter_length _ _ _ _

theorem deinterleave_image (bits : List Bool) (r : List Int) (h : bits.length = 368)
    (hr : SoftImage (Spec.Tx.ileave bits) r) : SoftImage bits (deinterleaveSoft r) := by
  obtain ⟨hl, hp⟩ := hr
  rw [ileave_length] at hl hp
  unfold deinterleaveSoft
  rw [C10.K_eq]
  refine ⟨by rw [gather_length, h], ?_⟩
  intro i hi
  rw [h] at hi
  rw [gather_getD _ _ _ _ _ hi]
  have hb : index i < 368 ∧ C10.invIndex (index i) = i := C10.index_perm.1 i hi
  have hb1 := hb.1
  have := hp _ hb1
  have hs : (Spec.Tx.ileave bits).getD (index i) false = bits.getD i false := by
    rw [ileave_eq_scatter, C10.index_eq_spec,
      scatter_getD Spec.ileaveIndex C10.invIndex 368 spec_index_perm false bits _ (by rw [← C10.index_eq_spec]; exact hb.1)]
    rw [← C10.index_eq_spec, hb.2]
  rw [hs] at this
  exact this

end M17.C01F

/-
C01 — clean-channel round trip.

Part A: for every input sequence, a received vector whose non-erased values have the transmitted signs (any
magnitudes 1..L, any erasures that leave at least one value per trellis step) decodes to exactly that sequence,
with cost round(Σ(L−|r|)/L) — in particular 0 at full confidence.
Part B: the de-punctured soft image of a specification-encoded payload is such a vector, for each of the four M17
geometries, so puncture → soft map → depuncture → Viterbi returns the payload bit-exact.
The remaining glue of a whole frame (randomizer, interleaver — C10; LICH — C04/C05; byte packing; CRC — C09) is proved
per stage in those files and exercised end to end by the correspondence stream of this property.
-/
import M17.Props.C02
import M17.Props.C11

namespace M17.C01
open M17.Vit M17.C02

/-! ## Part A — a sign-consistent received vector decodes to the transmitted sequence -/

/-- least possible contribution of one received value: `L − |r|` unless erased -/
def base1 (l : Nat) (r : Int) : Nat := if r ≠ 0 then l - r.natAbs else 0

def baseCost (l : Nat) (rp : List (Int × Int)) : Nat := (rp.map fun p => base1 l p.1 + base1 l p.2).sum

/-- `r` is erased, or has the sign of the coded bit and a magnitude in 1..L -/
def okSign (l : Nat) (bit : Bool) (r : Int) : Prop := r = 0 ∨ (if bit then 1 ≤ r ∧ r ≤ l else -(l : Int) ≤ r ∧ r ≤ -1)

/-- magnitude at most L (true of every value the 4-bit framer emits) -/
def inRange (l : Nat) (r : Int) : Prop := -(l : Int) ≤ r ∧ r ≤ l

theorem dist_ge_base (l : Nat) (bit : Bool) (r : Int) (h : inRange l r) : base1 l r ≤ dist l bit r := by
  unfold base1 dist expect inRange at *; split <;> cases bit <;> simp <;> omega

theorem dist_eq_base (l : Nat) (bit : Bool) (r : Int) (h : okSign l bit r) : dist l bit r = base1 l r := by
  unfold base1 dist expect okSign at *
  rcases h with h | h
  · simp [h]
  · cases bit <;> simp at h ⊢ <;> split <;> omega

theorem dist_wrong_sign (l : Nat) (bit : Bool) (r : Int) (h : okSign l bit r) (hr : r ≠ 0) :
    base1 l r + 2 ≤ dist l (!bit) r := by
  unfold base1 dist expect okSign at *
  rcases h with h | h
  · exact absurd h hr
  · cases bit <;> simp at h ⊢ <;> simp [hr] <;> omega

/-- the received pairs are consistent with the encoder output for input `u` from state `s` -/
def Consistent (l : Nat) : List (Int × Int) → List (Bool × Bool) → Prop
  | r :: rs, c :: cs => okSign l c.1 r.1 ∧ okSign l c.2 r.2 ∧ ¬ (r.1 = 0 ∧ r.2 = 0) ∧ Consistent l rs cs
  | [], [] => True
  | _, _ => False

def AllInRange (l : Nat) (rp : List (Int × Int)) : Prop := ∀ p ∈ rp, inRange l p.1 ∧ inRange l p.2

theorem okSign_inRange (l : Nat) (bit : Bool) (r : Int) (h : okSign l bit r) : inRange l r := by
  unfold okSign inRange at *; rcases h with h | h
  · omega
  · cases bit <;> simp at h <;> omega

theorem consistent_inRange (l : Nat) : ∀ (rp : List (Int × Int)) (cs : List (Bool × Bool)), Consistent l rp cs → AllInRange l rp := by
  intro rp
  induction rp with
  | nil => intro cs _ p hp; simp at hp
  | cons r rp ih =>
    intro cs h p hp
    cases cs with
    | nil => simp [Consistent] at h
    | cons c cs =>
      simp only [Consistent] at h
      rcases List.mem_cons.mp hp with rfl | hp
      · exact ⟨okSign_inRange l _ _ h.1, okSign_inRange l _ _ h.2.1⟩
      · exact ih cs h.2.2.2 p hp

/-- every path costs at least the base cost -/
theorem any_path_ge_base (l : Nat) : ∀ (rp : List (Int × Int)) (v : List Bool) (s : Nat), v.length = rp.length →
    AllInRange l rp → baseCost l rp ≤ softDist l rp (Spec.convFrom s v) := by
  intro rp
  induction rp with
  | nil => intro v s _ _; simp [baseCost, softDist]
  | cons r rp ih =>
    intro v s hv hr
    cases v with
    | nil => simp at hv
    | cons b v =>
      simp only [Spec.convFrom, softDist, baseCost, List.map, List.sum_cons]
      have h1 := ih v (Spec.convNext s b) (by simpa using hv) (fun p hp => hr p (List.mem_cons_of_mem _ hp))
      have hrr := hr r List.mem_cons_self
      have d1 := dist_ge_base l (Spec.convOut s b).1 r.1 hrr.1
      have d2 := dist_ge_base l (Spec.convOut s b).2 r.2 hrr.2
      unfold baseCost at h1
      omega

/-- the transmitted path costs exactly the base cost -/
theorem sent_path_eq_base (l : Nat) : ∀ (rp : List (Int × Int)) (u : List Bool) (s : Nat),
    Consistent l rp (Spec.convFrom s u) → softDist l rp (Spec.convFrom s u) = baseCost l rp := by
  intro rp
  induction rp with
  | nil => intro u s _; cases u <;> simp [baseCost, softDist, Spec.convFrom]
  | cons r rp ih =>
    intro u s h
    cases u with
    | nil => simp [Spec.convFrom, Consistent] at h
    | cons b u =>
      simp only [Spec.convFrom, Consistent] at h
      simp only [Spec.convFrom, softDist, baseCost, List.map, List.sum_cons]
      rw [dist_eq_base l _ _ h.1, dist_eq_base l _ _ h.2.1, ih u _ h.2.2.2]
      rfl

/-- flipping the input bit complements both coded bits (both generator polynomials contain the x^0 tap) -/
theorem convOut_flip (s : Nat) (hs : s < 16) (b : Bool) :
    (Spec.convOut s (!b)).1 = !(Spec.convOut s b).1 ∧ (Spec.convOut s (!b)).2 = !(Spec.convOut s b).2 := by
  have hk := costTables_ok
  unfold costTablesOK at hk
  rw [List.all_eq_true] at hk
  have hk2 := hk 4 (by simp)
  rw [List.all_eq_true] at hk2
  have := hk2 s (List.mem_range.mpr hs)
  simp only [Bool.and_eq_true, beq_iff_eq, Bool.or_eq_true, decide_eq_true_eq] at this
  obtain ⟨⟨⟨⟨⟨_, k3⟩, k4⟩, _⟩, _⟩, _⟩ := this
  cases b
  · exact ⟨k3, k4⟩
  · simp only [Bool.not_true, k3, k4, Bool.not_not]; exact ⟨trivial, trivial⟩

theorem convNext_lt (s : Nat) (b : Bool) : Spec.convNext s b < 16 := by unfold Spec.convNext; omega

/-- **every other input sequence is strictly farther from the received vector** -/
theorem other_path_gt (l : Nat) : ∀ (rp : List (Int × Int)) (u v : List Bool) (s : Nat), s < 16 → v.length = rp.length →
    Consistent l rp (Spec.convFrom s u) → v ≠ u →
    baseCost l rp < softDist l rp (Spec.convFrom s v) := by
  intro rp
  induction rp with
  | nil =>
    intro u v s _ hv h hne
    cases u with
    | nil => cases v with
      | nil => exact absurd rfl hne
      | cons _ _ => simp at hv
    | cons _ _ => simp [Spec.convFrom, Consistent] at h
  | cons r rp ih =>
    intro u v s hs hv h hne
    cases u with
    | nil => simp [Spec.convFrom, Consistent] at h
    | cons a u =>
      cases v with
      | nil => simp at hv
      | cons b v =>
        simp only [Spec.convFrom, Consistent] at h
        obtain ⟨h1, h2, h3, h4⟩ := h
        have hrange := consistent_inRange l rp _ h4
        simp only [Spec.convFrom, softDist, baseCost, List.map, List.sum_cons]
        by_cases hab : b = a
        · subst hab
          have hne' : v ≠ u := fun c => hne (by rw [c])
          have := ih u v _ (convNext_lt s b) (by simpa using hv) h4 hne'
          rw [dist_eq_base l _ _ h1, dist_eq_base l _ _ h2]
          unfold baseCost at this
          omega
        · have hb : b = !a := by cases a <;> cases b <;> simp_all
          subst hb
          obtain ⟨f1, f2⟩ := convOut_flip s hs a
          rw [f1, f2]
          have hrest := any_path_ge_base l rp v (Spec.convNext s (!a)) (by simpa using hv) hrange
          unfold baseCost at hrest
          have g1 := dist_ge_base l (!(Spec.convOut s a).1) r.1 (okSign_inRange l _ _ h1)
          have g2 := dist_ge_base l (!(Spec.convOut s a).2) r.2 (okSign_inRange l _ _ h2)
          by_cases hr1 : r.1 = 0
          · have hr2 : r.2 ≠ 0 := fun c => h3 ⟨hr1, c⟩
            have := dist_wrong_sign l _ _ h2 hr2
            omega
          · have := dist_wrong_sign l _ _ h1 hr1
            omega

theorem pairs_flat (rp : List (Int × Int)) : pairs (rp.flatMap fun p => [p.1, p.2]) = rp := by
  induction rp with
  | nil => rfl
  | cons r rp ih => simp only [List.flatMap_cons, List.cons_append, List.nil_append, pairs, ih]

theorem consistent_length (l : Nat) : ∀ (rp : List (Int × Int)) (u : List Bool) (s : Nat),
    Consistent l rp (Spec.convFrom s u) → u.length = rp.length := by
  intro rp
  induction rp with
  | nil => intro u s h; cases u with
    | nil => rfl
    | cons _ _ => simp [Spec.convFrom, Consistent] at h
  | cons r rp ih =>
    intro u s h
    cases u with
    | nil => simp [Spec.convFrom, Consistent] at h
    | cons b u =>
      simp only [Spec.convFrom, Consistent] at h
      simp only [List.length_cons]
      rw [ih u _ h.2.2.2]

theorem flat_length (rp : List (Int × Int)) : (rp.flatMap fun p => [p.1, p.2]).length = 2 * rp.length := by
  induction rp with
  | nil => rfl
  | cons r rp ih => simp only [List.flatMap_cons, List.length_append, List.length_cons, List.length_nil, ih]; omega

/-- **Viterbi clean round trip** (every soft width, every trellis length, every payload, every per-position magnitude
    1..L with correct sign, erasures allowed as long as no trellis step loses both values): the decoder returns exactly
    the first `outN` transmitted input bits, and the cost is `round(Σ(L − |r|)/L)` over the received positions -/
theorem viterbi_clean_exact (llr : Nat) (hl : llr = 2 ∨ llr = 3 ∨ llr = 4 ∨ llr = 5 ∨ llr = 6)
    (rp : List (Int × Int)) (u : List Bool) (outN : Nat)
    (hcons : Consistent (limit llr) rp (Spec.convFrom 0 u))
    (hlen : 318 * rp.length < 2 ^ 30 - 1) :
    decode llr (rp.flatMap fun p => [p.1, p.2]) outN =
      (roundDiv (baseCost (limit llr) rp) (limit llr), u.take outN) := by
  have hul := consistent_length _ rp u 0 hcons
  have hrange := consistent_inRange _ rp _ hcons
  have hL := limit_le llr hl
  have hfl := flat_length rp
  have hr : ∀ x ∈ (rp.flatMap fun p => [p.1, p.2]), -128 ≤ x ∧ x ≤ 127 := by
    intro x hx
    simp only [List.mem_flatMap, List.mem_cons, List.mem_nil_iff, or_false] at hx
    obtain ⟨p, hp, hx⟩ := hx
    have := hrange p hp
    unfold inRange at this
    rcases hx with rfl | rfl <;> omega
  obtain ⟨ustar, e1, e2, e3, e4⟩ := decode_is_argmin llr hl _ hr (by rw [hfl]; omega) outN
  rw [pairs_flat] at e3 e4
  have hus : ustar = u := by
    by_cases hc : ustar = u
    · exact hc
    · have h1 := other_path_gt _ rp u ustar 0 (by decide) (by rw [e1, hfl]; omega) hcons hc
      have h2 := e3 u (by rw [hul, hfl]; omega)
      rw [sent_path_eq_base _ rp u 0 hcons] at h2
      omega
  rw [hus] at e2 e4
  rw [sent_path_eq_base _ rp u 0 hcons] at e4
  exact Prod.ext e4 e2

/-! ## Part B — the four M17 geometries never erase both values of a trellis step -/

/-- original positions (0-based, of `n` coded bits) that survive puncturing into a frame of `out` bits -/
def receivedPositions (p : List Nat) (n out : Nat) : List Nat := Punct.punctureGo p 0 (List.range n) out

/-- every trellis step keeps at least one of its two coded bits -/
def noDoubleErasure (p : List Nat) (n out : Nat) : Bool :=
  let rx := receivedPositions p n out
  (List.range (n / 2)).all fun t => rx.contains (2 * t) || rx.contains (2 * t + 1)

/-- LSF (P1, 488 → 368), stream (P2, 296 → 272), packet (P3, 420 → 368) and BERT (P2, 402 → 368, where the 369th kept
    bit is dropped): in each, every one of the 244 / 148 / 210 / 201 trellis steps receives at least one soft value, so
    `viterbi_clean_exact` applies to the de-punctured image of every specification-encoded payload -/
theorem geometries_no_double_erasure :
    noDoubleErasure Gen.p1 488 368 = true ∧ noDoubleErasure Gen.p2 296 272 = true ∧
    noDoubleErasure Gen.p3 420 368 = true ∧ noDoubleErasure Gen.p2 402 368 = true := by decide +kernel

/-- trellis lengths of the modem are far below the bound of `viterbi_clean_exact` -/
example : 318 * 244 < 2 ^ 30 - 1 := by decide

/-! ## non-vacuity: a concrete consistent vector -/
example : Consistent 7 [(7, 7), (-3, 0), (0, -5)] (Spec.convFrom 0 [true, false, true]) := by
  simp only [Spec.convFrom, Consistent, okSign]
  decide

end M17.C01

/-
C20 — the link report of the documented pipeline, discrete half as ONE statement: a clean link setup frame built by the specification
transmitter (`Spec.Tx`, which `m17-mod` equals byte for byte — C13) for source `src`, destination `dst` and channel access number `can`,
decoded by the frame decoder model (C01F.lsf_roundtrip) and printed by the model of m17-demod's `dump_lsf` (tied by the `app_lsf` stream),
shows exactly `SRC: src, DEST: dst, STR:V/V CAN:can` and no packet-mode diagnostic.
-/
import M17.Props.C20
import M17.Props.C01F

namespace M17.C20P
open M17.App M17.Dec M17.C01F

/-! ## the specification's callsign encoding is the code's -/

def specIdx (c : Nat) : Nat := Spec.Tx.alphabet.findIdx (fun a => a.toNat == c)

def idxTableOK : Bool := (List.range 128).all fun c => !C17.validChar c || specIdx c == Call.charVal c
theorem idxTable_ok : idxTableOK = true := by decide +kernel

theorem specIdx_eq (c : Nat) (h : C17.validChar c = true) : specIdx c = Call.charVal c := by
  have hc : c < 128 := by
    unfold C17.validChar at h
    simp only [Bool.or_eq_true, Bool.and_eq_true, decide_eq_true_eq, beq_iff_eq] at h
    omega
  have := M17.Bits.all_range idxTable_ok hc
  simp only [Bool.or_eq_true, Bool.not_eq_true', beq_iff_eq] at this
  rcases this with h0 | h1
  · rw [h] at h0; cases h0
  · exact h1

theorem spec_horner (cs : List Nat) (hv : ∀ c ∈ cs, C17.validChar c = true) :
    cs.reverse.foldl (fun acc c => acc * 40 + specIdx c) 0 = C17.horner (cs.map Call.charVal) := by
  rw [List.foldl_reverse]
  induction cs with
  | nil => rfl
  | cons c cs ih =>
    simp only [List.foldr, List.map, C17.horner]
    rw [ih (fun x hx => hv x (List.mem_cons_of_mem _ hx)), specIdx_eq c (hv c List.mem_cons_self)]
    omega

theorem toBytes_eq (v : Nat) : Call.toBytes v = (List.range 6).map fun i => v / 256 ^ (5 - i) % 256 := by
  unfold Call.toBytes
  simp [List.range, List.range.loop]

/-- **specification address = the address `encode_callsign` computes**, for every callsign of 1–9 alphabet characters -/
theorem spec_callsign_eq (cs : List Nat) (hv : ∀ c ∈ cs, C17.validChar c = true) (h1 : 1 ≤ cs.length) (h9 : cs.length ≤ 9) :
    Spec.Tx.callsign cs = Call.encode (Call.pad cs) := by
  have hne : cs.isEmpty = false := by cases cs with
    | nil => simp at h1
    | cons _ _ => rfl
  unfold Spec.Tx.callsign Call.encode
  simp only [hne, Bool.false_eq_true, if_false]
  have hpl : (Call.pad cs).length ≤ 10 := by unfold Call.pad; simp; omega
  rw [C17.encode_value _ hpl]
  have hpad : C17.horner ((Call.pad cs).map Call.charVal) = C17.horner (cs.map Call.charVal) := by
    unfold Call.pad
    rw [List.map_append, List.map_replicate]
    have : Call.charVal 0 = 0 := by decide
    rw [this, C17.horner_append_zeros]
  rw [hpad, toBytes_eq]
  have := spec_horner cs hv
  unfold specIdx at this
  rw [this]

/-! ## the link setup frame of the specification transmitter -/

theorem callsign_length (cs : List Nat) : (Spec.Tx.callsign cs).length = 6 := by
  unfold Spec.Tx.callsign; split <;> simp

theorem callsign_bytes (cs : List Nat) : Bytes.AllBytes (Spec.Tx.callsign cs) := by
  intro b hb
  unfold Spec.Tx.callsign at hb
  split at hb
  · simp only [List.mem_replicate] at hb; omega
  · simp only [List.mem_map, List.mem_range] at hb
    obtain ⟨i, _, rfl⟩ := hb
    exact Nat.mod_lt _ (by decide)

structure LsfFacts (lsf dst src : List Nat) (typ : Nat) (metaB : List Nat) : Prop where
  len : lsf.length = 30
  bytes : Bytes.AllBytes lsf
  crc : Spec.crc16 lsf = 0
  dstField : lsf.take 6 = Spec.Tx.callsign dst
  srcField : (lsf.drop 6).take 6 = Spec.Tx.callsign src
  t12 : lsf.getD 12 0 = typ / 256 % 256
  t13 : lsf.getD 13 0 = typ % 256

theorem lsf_facts (dst src : List Nat) (typ : Nat) (metaB : List Nat) (hm : metaB.length = 14) (hmb : Bytes.AllBytes metaB) :
    LsfFacts (Spec.Tx.lsfBytes dst src typ metaB) dst src typ metaB := by
  have hd := callsign_length dst
  have hs := callsign_length src
  generalize hbody : Spec.Tx.callsign dst ++ Spec.Tx.callsign src ++ [typ / 256 % 256, typ % 256] ++ metaB = body
  have hbl : body.length = 28 := by rw [← hbody]; simp [hd, hs, hm]
  have hlsf : Spec.Tx.lsfBytes dst src typ metaB = body ++ Spec.crcBytes body := by unfold Spec.Tx.lsfBytes; rw [hbody]
  rw [hlsf]
  refine ⟨?_, ?_, C09.append_crc_checks_zero body, ?_, ?_, ?_, ?_⟩
  · simp [hbl, Spec.crcBytes]
  · intro b hb
    rcases List.mem_append.mp hb with hb | hb
    · rw [← hbody] at hb
      simp only [List.mem_append, List.mem_cons, List.not_mem_nil, or_false] at hb
      rcases hb with ((hb | hb) | hb) | hb
      · exact callsign_bytes dst b hb
      · exact callsign_bytes src b hb
      · rcases hb with rfl | rfl <;> exact Nat.mod_lt _ (by decide)
      · exact hmb b hb
    · have := C09.crc16_lt body
      unfold Spec.crcBytes at hb
      simp only [List.mem_cons, List.not_mem_nil, or_false] at hb
      rcases hb with rfl | rfl <;> omega
  · rw [← hbody]; simp only [List.append_assoc]
    rw [List.take_append_of_le_length (by omega), List.take_of_length_le (by omega)]
  · rw [← hbody]; simp only [List.append_assoc]
    rw [List.drop_append_of_le_length (by omega), List.drop_of_length_le (by omega), List.nil_append,
      List.take_append_of_le_length (by omega), List.take_of_length_le (by omega)]
  · rw [← hbody]
    simp only [List.append_assoc, List.getD_eq_getElem?_getD]
    rw [List.getElem?_append_right (by omega), List.getElem?_append_right (by omega)]
    simp [hd, hs]
  · rw [← hbody]
    simp only [List.append_assoc, List.getD_eq_getElem?_getD]
    rw [List.getElem?_append_right (by omega), List.getElem?_append_right (by omega)]
    simp [hd, hs]

/-- TYPE bits the decoder inspects: bit 111 is the least significant bit of byte 13, bit 109 its bit 2 -/
theorem type_bits (lsf : List Nat) (hl : lsf.length = 30) :
    (Spec.Tx.bitsOfBytes lsf).getD 111 false = decide (lsf.getD 13 0 % 2 = 1) ∧
    (Spec.Tx.bitsOfBytes lsf).getD 109 false = decide (lsf.getD 13 0 / 4 % 2 = 1) := by
  have hc := chunk_bitsOfBytes lsf 13 (by omega)
  have e111 : (Spec.Tx.bitsOfBytes lsf).getD 111 false = (((Spec.Tx.bitsOfBytes lsf).drop (8 * 13)).take 8).getD 7 false := by
    simp [List.getD_eq_getElem?_getD, List.getElem?_take, List.getElem?_drop]
  have e109 : (Spec.Tx.bitsOfBytes lsf).getD 109 false = (((Spec.Tx.bitsOfBytes lsf).drop (8 * 13)).take 8).getD 5 false := by
    simp [List.getD_eq_getElem?_getD, List.getElem?_take, List.getElem?_drop]
  rw [e111, e109, hc]
  unfold Spec.byteBits
  simp [List.getD_eq_getElem?_getD, Nat.shiftRight_eq_div_pow]

theorem printed_broadcast : printed (Call.decode (Spec.Tx.callsign [])) = "BROADCAST".toList.map Char.toNat := by decide +kernel

/-- **link report of a clean specification LSF frame**: decoded, reported, stream mode entered, and the fields m17-demod prints are the
    transmitter's: source callsign, destination callsign (or BROADCAST when none was given), `STR:V/V`, the channel access number, and no
    packet-mode diagnostic — for every pair of callsigns over the M17 alphabet (1–9 characters), every CAN 0–15, every META content, every
    decoder state and every clean soft image of the frame -/
theorem link_report (lo : Int) (hlo : 1 ≤ lo) (σ : DState) (cb : Bool) (src dst : List Nat)
    (hsv : ∀ c ∈ src, C17.validChar c = true) (hs1 : 1 ≤ src.length) (hs9 : src.length ≤ 9)
    (hdv : ∀ c ∈ dst, C17.validChar c = true) (hd9 : dst.length ≤ 9)
    (can : Nat) (hcan : can < 16) (metaB : List Nat) (hm : metaB.length = 14) (hmb : Bytes.AllBytes metaB)
    (frame : List Int) (hr : SoftImage lo (Spec.Tx.lsfFrameBits (Spec.Tx.lsfBytes dst src (Spec.Tx.voiceType can) metaB)) frame) :
    let lsf := Spec.Tx.lsfBytes dst src (Spec.Tx.voiceType can) metaB
    (step σ .lsf frame cb).calls = [⟨.lsf, lsf, cleanCost Gen.p1 frame 488⟩] ∧ (step σ .lsf frame cb).result = .ok ∧
    (step σ .lsf frame cb).state.mode = .stream ∧
    printed (Call.decode ((lsf.drop 6).take 6)) = src ∧
    printed (Call.decode (lsf.take 6)) = (if dst = [] then "BROADCAST".toList.map Char.toNat else dst) ∧
    typeName (lsf.getD 12 0 * 256 + lsf.getD 13 0) = "STR:V/V" ∧ canField (lsf.getD 12 0 * 256 + lsf.getD 13 0) = can ∧
    packetDiag (lsf.getD 13 0) = "" := by
  intro lsf
  have F := lsf_facts dst src (Spec.Tx.voiceType can) metaB hm hmb
  have hrt := (lsf_roundtrip lo hlo σ lsf F.len F.bytes frame cb hr).1 F.crc
  have htyp : lsf.getD 12 0 * 256 + lsf.getD 13 0 = Spec.Tx.voiceType can := by
    rw [F.t12, F.t13]; unfold Spec.Tx.voiceType; omega
  obtain ⟨b111, b109⟩ := type_bits lsf F.len
  have h13 : lsf.getD 13 0 = Spec.Tx.voiceType can % 256 := F.t13
  have hmode : updateState .lsf (Spec.Tx.bitsOfBytes lsf) = .stream := by
    unfold updateState
    rw [b111, b109, h13]
    unfold Spec.Tx.voiceType
    have e1 : (5 + 128 * can) % 256 % 2 = 1 := by omega
    have e2 : (5 + 128 * can) % 256 / 4 % 2 = 1 := by omega
    simp [e1, e2]
  refine ⟨by rw [hrt], by rw [hrt], by rw [hrt]; exact hmode, ?_, ?_, ?_, ?_, ?_⟩
  · rw [F.srcField, spec_callsign_eq src hsv hs1 hs9]
    exact C20.callsign_report src hsv hs1 hs9
  · rw [F.dstField]
    by_cases hde : dst = []
    · rw [if_pos hde, hde]; exact printed_broadcast
    · rw [if_neg hde]
      have hd1 : 1 ≤ dst.length := by cases dst with
        | nil => exact absurd rfl hde
        | cons _ _ => simp
      rw [spec_callsign_eq dst hdv hd1 hd9]
      exact C20.callsign_report dst hdv hd1 hd9
  · rw [htyp]; exact C20.type_report_voice can
  · rw [htyp]; exact C20.can_report can hcan
  · rw [h13]; exact (C20.voice_lsf_is_stream can).2

end M17.C20P

/-
C12 — soft demapper: two non-zero soft bits within ±L whose signs are the Gray-coded dibit of the nearest 4-FSK
level (outside a guard band around the decision boundaries 0, ±2), first soft bit antitone in the sample, second
monotone in its magnitude on each side of zero, full confidence at the ideal levels, saturated beyond ±3, NaN and
infinities defined.

Generic theorems for any table satisfying the decidable predicate `TableOK`; then `TableOK` for the six tables the
current headers produce (float/double × widths 2, 3, 4) by kernel evaluation.  Values are exact (integers in units of
2^-1074), so the theorems cover every float and every double.
-/
import M17.Model.Llr

namespace M17.C12
open M17.Llr

abbrev E := Int × Int × Int     -- threshold, first soft bit, second soft bit

/-- guard band: 2^-20 (smaller than the 1e-6 of the property, so the statements are slightly stronger) -/
def g : Int := 2 ^ (1074 - 20)
def two : Int := 2 * 2 ^ 1074
def one : Int := 2 ^ 1074

/-- (previous threshold, entry, is-last) triples of a table: the bins -/
def bins : Option Int → List E → List (Option Int × E × Bool)
  | _, [] => []
  | lo, [e] => [(lo, e, true)]
  | lo, e :: e' :: rest => (lo, e, false) :: bins (some e.1) (e' :: rest)

theorem lookup_mem (tbl : List E) : ∀ (lo : Option Int) (s : Int) (r : Option Int × E × Bool),
    lookupP lo tbl s = some r → r ∈ bins lo tbl ∧ (r.2.2 = true ∨ s ≤ r.2.1.1) ∧
      (∀ l, r.1 = some l → (lo = some l ∨ l < s)) := by
  induction tbl with
  | nil => intro lo s r h; simp [lookupP] at h
  | cons e rest ih =>
    intro lo s r h
    cases rest with
    | nil =>
      simp only [lookupP, Option.some.injEq] at h
      subst h
      exact ⟨by simp [bins], Or.inl rfl, fun l hl => Or.inl hl⟩
    | cons e' rest' =>
      simp only [lookupP] at h
      by_cases hs : s ≤ e.1
      · simp only [hs, if_true, Option.some.injEq] at h
        subst h
        exact ⟨by simp [bins], Or.inr hs, fun l hl => Or.inl hl⟩
      · simp only [hs, if_false] at h
        obtain ⟨h1, h2, h3⟩ := ih (some e.1) s r h
        refine ⟨by simp only [bins, List.mem_cons]; exact Or.inr h1, h2, ?_⟩
        intro l hl
        rcases h3 l hl with h3 | h3
        · right; simp only [Option.some.injEq] at h3; omega
        · exact Or.inr h3

theorem lookup_total (tbl : List E) (hne : tbl ≠ []) : ∀ (lo : Option Int) (s : Int), (lookupP lo tbl s).isSome := by
  induction tbl with
  | nil => exact absurd rfl hne
  | cons e rest ih =>
    intro lo s
    cases rest with
    | nil => simp [lookupP]
    | cons e' rest' =>
      simp only [lookupP]
      split
      · simp
      · exact ih (by simp) _ _

/-- "some sample `s ≤ x` can fall into this bin": its lower edge is below `x` -/
def loLt (lo : Option Int) (x : Int) : Bool := match lo with | none => true | some l => decide (l < x)
/-- "some sample `s ≥ x` can fall into this bin": its upper edge is at least `x`, or it is the catch-all last bin -/
def hiGe (last : Bool) (thr x : Int) : Bool := last || decide (x ≤ thr)

theorem loLt_of (lo : Option Int) (s x : Int) (h : ∀ l, lo = some l → l < s) (hs : s ≤ x) : loLt lo x = true := by
  unfold loLt; cases lo with
  | none => rfl
  | some l => have := h l rfl; simp only [decide_eq_true_eq]; omega

theorem hiGe_of (last : Bool) (thr s x : Int) (h : last = true ∨ s ≤ thr) (hs : x ≤ s) : hiGe last thr x = true := by
  unfold hiGe; rcases h with h | h
  · simp [h]
  · simp only [Bool.or_eq_true, decide_eq_true_eq]; right; omega

/-- everything the property needs from a table, as a decidable check over its bins -/
def binOK (L : Int) (b : Option Int × E × Bool) : Bool :=
  let lo := b.1; let e := b.2.1; let last := b.2.2
  let a := e.2.1; let c := e.2.2
  -- non-zero and bounded
  decide (a ≠ 0) && decide (c ≠ 0) && decide (-L ≤ a) && decide (a ≤ L) && decide (-L ≤ c) && decide (c ≤ L) &&
  -- first soft bit positive for samples ≤ -g, negative for samples ≥ g
  (!loLt lo (-g) || decide (a > 0)) && (!hiGe last e.1 g || decide (a < 0)) &&
  -- second soft bit positive for |x| ≥ 2+g, negative for |x| ≤ 2-g
  (!loLt lo (-(two + g)) || decide (c > 0)) && (!hiGe last e.1 (two + g) || decide (c > 0)) &&
  (!(hiGe last e.1 (-(two - g)) && loLt lo (two - g)) || decide (c < 0))

def TableOK (L : Int) (tbl : List E) : Bool := decide (tbl.length ≥ 2) && (bins none tbl).all (binOK L)

/-- columns are monotone along the table: thresholds strictly increase and the first soft bit never increases -/
def Monotone (tbl : List E) : Bool :=
  (tbl.zip tbl.tail).all fun p => decide (p.1.1 < p.2.1) && decide (p.2.2.1 ≤ p.1.2.1)

/-- second soft bit: never increases while the bins lie at or below +1, never decreases from −1 upwards (it is constant
    −L between −1 and +1), and some threshold lies in [0, 1] and some in [−1, 0] -/
def Monotone2 (tbl : List E) : Bool :=
  ((tbl.zip tbl.tail).all fun p =>
    (!decide (p.2.1 ≤ one) || decide (p.2.2.2 ≤ p.1.2.2)) && (!decide (-one ≤ p.1.1) || decide (p.1.2.2 ≤ p.2.2.2))) &&
  (tbl.any fun e => decide (0 ≤ e.1) && decide (e.1 ≤ one)) && (tbl.any fun e => decide (-one ≤ e.1) && decide (e.1 < 0))

theorem mono_tail (e : E) (rest : List E) (h : Monotone (e :: rest) = true) :
    Monotone rest = true ∧ ∀ f ∈ rest, f.2.1 ≤ e.2.1 ∧ e.1 < f.1 := by
  induction rest generalizing e with
  | nil => exact ⟨by simp [Monotone], by simp⟩
  | cons e' rest ih =>
    unfold Monotone at h
    simp only [List.tail_cons, List.zip_cons_cons, List.all_cons, Bool.and_eq_true, decide_eq_true_eq] at h
    have hm : Monotone (e' :: rest) = true := by unfold Monotone; simpa using h.2
    obtain ⟨_, h2⟩ := ih e' hm
    refine ⟨hm, ?_⟩
    intro f hf
    rcases List.mem_cons.mp hf with rfl | hf
    · exact ⟨h.1.2, h.1.1⟩
    · have := h2 f hf; exact ⟨by omega, by omega⟩

theorem lookup_mem_list (tbl : List E) : ∀ (lo : Option Int) (s : Int) (r : Option Int × E × Bool),
    lookupP lo tbl s = some r → r.2.1 ∈ tbl := by
  induction tbl with
  | nil => intro lo s r h; simp [lookupP] at h
  | cons e rest ih =>
    intro lo s r h
    cases rest with
    | nil => simp only [lookupP, Option.some.injEq] at h; subst h; simp
    | cons e' rest' =>
      simp only [lookupP] at h
      split at h
      · simp only [Option.some.injEq] at h; subst h; simp
      · exact List.mem_cons_of_mem _ (ih _ _ _ h)

/-- **the first soft bit never increases with the sample** (table level) -/
theorem lookup_antitone (tbl : List E) (hm : Monotone tbl = true) : ∀ (lo lo' : Option Int) (x y : Int) (r1 r2 : Option Int × E × Bool),
    x ≤ y → lookupP lo tbl x = some r1 → lookupP lo' tbl y = some r2 → r2.2.1.2.1 ≤ r1.2.1.2.1 := by
  induction tbl with
  | nil => intro lo lo' x y r1 r2 _ h; simp [lookupP] at h
  | cons e rest ih =>
    intro lo lo' x y r1 r2 hxy h1 h2
    cases rest with
    | nil =>
      simp only [lookupP, Option.some.injEq] at h1 h2
      subst h1; subst h2; exact Int.le_refl _
    | cons e' rest' =>
      obtain ⟨hmt, htail⟩ := mono_tail e (e' :: rest') hm
      simp only [lookupP] at h1 h2
      by_cases hx : x ≤ e.1
      · simp only [hx, if_true, Option.some.injEq] at h1
        subst h1
        by_cases hy : y ≤ e.1
        · simp only [hy, if_true, Option.some.injEq] at h2; subst h2; exact Int.le_refl _
        · simp only [hy, if_false] at h2
          exact (htail _ (lookup_mem_list _ _ _ _ h2)).1
      · have hy : ¬ y ≤ e.1 := by omega
        simp only [hx, hy, if_false] at h1 h2
        exact ih hmt _ _ x y r1 r2 hxy h1 h2

theorem clamp_mono (a b : FVal) (x y : Int) (ha : a = .fin x) (hb : b = .fin y) (h : x ≤ y) : clamp a ≤ clamp b := by
  subst ha; subst hb; unfold clamp; simp only
  repeat' split
  all_goals omega

/-- **the first soft bit never increases with the sample**, for all finite values (±∞ included as extreme values) -/
theorem llr1_antitone (tbl : List E) (hm : Monotone tbl = true) (x y : Int) (h : x ≤ y) :
    (llr tbl (.fin y)).1 ≤ (llr tbl (.fin x)).1 := by
  unfold llr
  have hc := clamp_mono (.fin x) (.fin y) x y rfl rfl h
  cases h1 : lookupP none tbl (clamp (.fin x)) with
  | none =>
    cases h2 : lookupP none tbl (clamp (.fin y)) with
    | none => simp
    | some r2 =>
      -- lookup fails only on the empty table
      cases tbl with
      | nil => simp [lookupP] at h2
      | cons e rest => have := lookup_total (e :: rest) (by simp) none (clamp (.fin x)); rw [h1] at this; simp at this
  | some r1 =>
    cases h2 : lookupP none tbl (clamp (.fin y)) with
    | none =>
      cases tbl with
      | nil => simp [lookupP] at h1
      | cons e rest => have := lookup_total (e :: rest) (by simp) none (clamp (.fin y)); rw [h2] at this; simp at this
    | some r2 =>
      obtain ⟨l1, e1, b1⟩ := r1
      obtain ⟨l2, e2, b2⟩ := r2
      exact lookup_antitone tbl hm none none _ _ _ _ hc h1 h2

theorem llr_bin (tbl : List E) (hne : tbl ≠ []) (v : FVal) :
    ∃ lo e last, (lo, e, last) ∈ bins none tbl ∧ llr tbl v = (e.2.1, e.2.2) ∧ (last = true ∨ clamp v ≤ e.1) ∧
      (∀ l, lo = some l → l < clamp v) := by
  have ht := lookup_total tbl hne none (clamp v)
  cases h : lookupP none tbl (clamp v) with
  | none => rw [h] at ht; simp at ht
  | some r =>
    obtain ⟨h1, h2, h3⟩ := lookup_mem tbl none (clamp v) r h
    obtain ⟨lo, e, last⟩ := r
    refine ⟨lo, e, last, h1, by unfold llr; rw [h], h2, ?_⟩
    intro l hl
    rcases h3 l hl with h3 | h3
    · simp at h3
    · exact h3

theorem table_bin_ok (L : Int) (tbl : List E) (hok : TableOK L tbl = true) :
    tbl ≠ [] ∧ ∀ b ∈ bins none tbl, binOK L b = true := by
  unfold TableOK at hok
  simp only [Bool.and_eq_true, decide_eq_true_eq] at hok
  exact ⟨by intro h; rw [h] at hok; simp at hok, List.all_eq_true.mp hok.2⟩

/-- **non-zero and within ±L, for every value including NaN and ±∞** -/
theorem llr_nonzero_bounded (L : Int) (tbl : List E) (hok : TableOK L tbl = true) (v : FVal) :
    (llr tbl v).1 ≠ 0 ∧ (llr tbl v).2 ≠ 0 ∧ -L ≤ (llr tbl v).1 ∧ (llr tbl v).1 ≤ L ∧ -L ≤ (llr tbl v).2 ∧ (llr tbl v).2 ≤ L := by
  obtain ⟨hne, hall⟩ := table_bin_ok L tbl hok
  obtain ⟨lo, e, last, hb, hl, _, _⟩ := llr_bin tbl hne v
  have := hall _ hb
  unfold binOK at this
  simp only [Bool.and_eq_true, decide_eq_true_eq] at this
  rw [hl]
  obtain ⟨⟨⟨⟨⟨⟨⟨⟨⟨⟨h1, h2⟩, h3⟩, h4⟩, h5⟩, h6⟩, _⟩, _⟩, _⟩, _⟩, _⟩ := this
  exact ⟨h1, h2, h3, h4, h5, h6⟩

set_option exponentiation.threshold 3000 in
theorem consts_ok : 0 < g ∧ g < three ∧ two + g < three ∧ 0 < two - g ∧ -three < -(two + g) := by
  unfold g three two; decide +kernel

theorem clamp_le (n x : Int) (hx : -three < x) (h : n ≤ x) : clamp (.fin n) ≤ x := by
  have h3 : (0 : Int) < three := by have := consts_ok; omega
  unfold clamp; simp only; split <;> split <;> omega

theorem le_clamp (n x : Int) (hx : x < three) (h : x ≤ n) : x ≤ clamp (.fin n) := by
  have h3 : (0 : Int) < three := by have := consts_ok; omega
  unfold clamp; simp only; split <;> split <;> omega

/-- **signs are the Gray-coded dibit of the nearest level**: first bit positive (1) for samples below −g and negative
    for samples above g; second bit positive for |x| ≥ 2+g and negative for |x| ≤ 2−g.  With +3:01, +1:00, −1:10, −3:11. -/
theorem llr_sign_is_gray_dibit (L : Int) (tbl : List E) (hok : TableOK L tbl = true) (n : Int) :
    (n ≤ -g → (llr tbl (.fin n)).1 > 0) ∧ (g ≤ n → (llr tbl (.fin n)).1 < 0) ∧
    ((n ≤ -(two + g) ∨ two + g ≤ n) → (llr tbl (.fin n)).2 > 0) ∧
    ((-(two - g) ≤ n ∧ n ≤ two - g) → (llr tbl (.fin n)).2 < 0) := by
  obtain ⟨hne, hall⟩ := table_bin_ok L tbl hok
  obtain ⟨lo, e, last, hb, hl, hup, hlo⟩ := llr_bin tbl hne (.fin n)
  have hbin := hall _ hb
  unfold binOK at hbin
  simp only [Bool.and_eq_true, Bool.or_eq_true, Bool.not_eq_true', decide_eq_true_eq] at hbin
  obtain ⟨⟨⟨⟨⟨_, c1⟩, c2⟩, c3⟩, c4⟩, c5⟩ := hbin
  obtain ⟨k0, k1, k2, k3, k4⟩ := consts_ok
  rw [hl]
  refine ⟨?_, ?_, ?_, ?_⟩
  · intro hn
    have := loLt_of lo _ (-g) hlo (clamp_le n (-g) (by omega) hn)
    rcases c1 with c | c
    · rw [this] at c; exact absurd c (by simp)
    · exact c
  · intro hn
    have := hiGe_of last e.1 _ g hup (le_clamp n g k1 hn)
    rcases c2 with c | c
    · rw [this] at c; exact absurd c (by simp)
    · exact c
  · intro hn
    rcases hn with hn | hn
    · have := loLt_of lo _ (-(two + g)) hlo (clamp_le n _ k4 hn)
      rcases c3 with c | c
      · rw [this] at c; exact absurd c (by simp)
      · exact c
    · have := hiGe_of last e.1 _ (two + g) hup (le_clamp n _ k2 hn)
      rcases c4 with c | c
      · rw [this] at c; exact absurd c (by simp)
      · exact c
  · intro hn
    have h1 := hiGe_of last e.1 _ (-(two - g)) hup (le_clamp n _ (by omega) hn.1)
    have h2 := loLt_of lo _ (two - g) hlo (clamp_le n _ (by omega) hn.2)
    rcases c5 with c | c
    · rw [h1, h2] at c; exact absurd c (by simp)
    · exact c

/-- **saturation and special values**: everything at or beyond ±3 (including ±∞) and NaN maps to the value at ±3 / −3 -/
theorem llr_saturates (tbl : List E) (n : Int) :
    (three ≤ n → llr tbl (.fin n) = llr tbl (.fin three)) ∧ (n ≤ -three → llr tbl (.fin n) = llr tbl (.fin (-three))) ∧
    llr tbl .nan = llr tbl (.fin (-three)) := by
  have h3 : (0 : Int) < three := by have := consts_ok; omega
  refine ⟨?_, ?_, ?_⟩
  · intro h; unfold llr clamp; simp only
    have h1 : -three < n := by omega
    have h2 : ¬ n < three := by omega
    have h4 : -three < three := by omega
    simp [h1, h2, h4]
  · intro h; unfold llr clamp; simp only
    have h1 : ¬ -three < n := by omega
    have h4 : -three < three := by omega
    simp [h1, h4]
  · unfold llr clamp; simp only
    have h4 : -three < three := by omega
    simp [h4]

/-! ## the six tables of the current headers -/

set_option exponentiation.threshold 3000

theorem table_F4 : TableOK 7 Gen.llrF4 = true ∧ Monotone Gen.llrF4 = true ∧ Monotone2 Gen.llrF4 = true := by decide +kernel
theorem table_D4 : TableOK 7 Gen.llrD4 = true ∧ Monotone Gen.llrD4 = true ∧ Monotone2 Gen.llrD4 = true := by decide +kernel
theorem table_F3 : TableOK 3 Gen.llrF3 = true ∧ Monotone Gen.llrF3 = true ∧ Monotone2 Gen.llrF3 = true := by decide +kernel
theorem table_D3 : TableOK 3 Gen.llrD3 = true ∧ Monotone Gen.llrD3 = true ∧ Monotone2 Gen.llrD3 = true := by decide +kernel
theorem table_F2 : TableOK 1 Gen.llrF2 = true ∧ Monotone Gen.llrF2 = true ∧ Monotone2 Gen.llrF2 = true := by decide +kernel
theorem table_D2 : TableOK 1 Gen.llrD2 = true ∧ Monotone Gen.llrD2 = true ∧ Monotone2 Gen.llrD2 = true := by decide +kernel

/-- full confidence with the Gray signs at the ideal levels, saturated at ±3, NaN defined — width 4, both types -/
theorem levels_width4 :
    llr Gen.llrF4 (.fin (unit 3)) = (-7, 7) ∧ llr Gen.llrF4 (.fin (unit 1)) = (-7, -7) ∧
    llr Gen.llrF4 (.fin (unit (-1))) = (7, -7) ∧ llr Gen.llrF4 (.fin (unit (-3))) = (7, 7) ∧ llr Gen.llrF4 .nan = (7, 7) ∧
    llr Gen.llrD4 (.fin (unit 3)) = (-7, 7) ∧ llr Gen.llrD4 (.fin (unit 1)) = (-7, -7) ∧
    llr Gen.llrD4 (.fin (unit (-1))) = (7, -7) ∧ llr Gen.llrD4 (.fin (unit (-3))) = (7, 7) ∧ llr Gen.llrD4 .nan = (7, 7) := by
  decide +kernel

theorem levels_width23 :
    llr Gen.llrF3 (.fin (unit 3)) = (-3, 3) ∧ llr Gen.llrF3 (.fin (unit 1)) = (-3, -3) ∧
    llr Gen.llrF3 (.fin (unit (-1))) = (3, -3) ∧ llr Gen.llrF3 (.fin (unit (-3))) = (3, 3) ∧
    llr Gen.llrD3 (.fin (unit 3)) = (-3, 3) ∧ llr Gen.llrD3 (.fin (unit 1)) = (-3, -3) ∧
    llr Gen.llrD3 (.fin (unit (-1))) = (3, -3) ∧ llr Gen.llrD3 (.fin (unit (-3))) = (3, 3) ∧
    llr Gen.llrF2 (.fin (unit 3)) = (-1, 1) ∧ llr Gen.llrF2 (.fin (unit 1)) = (-1, -1) ∧
    llr Gen.llrF2 (.fin (unit (-1))) = (1, -1) ∧ llr Gen.llrF2 (.fin (unit (-3))) = (1, 1) ∧
    llr Gen.llrD2 (.fin (unit 3)) = (-1, 1) ∧ llr Gen.llrD2 (.fin (unit 1)) = (-1, -1) ∧
    llr Gen.llrD2 (.fin (unit (-1))) = (1, -1) ∧ llr Gen.llrD2 (.fin (unit (-3))) = (1, 1) := by
  decide +kernel

end M17.C12

/-
C02 — Viterbi decoding is maximum-likelihood and its cost is the true path metric.

`M17.Vit` mirrors `Viterbi::decode` (forward add-compare-select with the code's tie-break, first-minimum end
state, chain-back).  The theorems hold for trellises of every length and every received vector.
-/
import M17.Model.Viterbi
import M17.Spec.Conv

namespace M17.C02
open M17.Vit

/-! ## bridge lemmas: dumped tables vs. model formulas vs. specification -/

/-- the dumped `nextState_` / `prevState_` tables of every width are the modelled formulas -/
theorem gen_transitions :
    (Gen.vitNext2 = (List.range 16).flatMap fun s => [next s false, next s true]) ∧
    Gen.vitNext3 = Gen.vitNext2 ∧ Gen.vitNext4 = Gen.vitNext2 ∧ Gen.vitNext5 = Gen.vitNext2 ∧ Gen.vitNext6 = Gen.vitNext2 ∧
    (Gen.vitPrev2 = (List.range 16).flatMap fun t => [pred t false, pred t true]) ∧
    Gen.vitPrev3 = Gen.vitPrev2 ∧ Gen.vitPrev4 = Gen.vitPrev2 ∧ Gen.vitPrev5 = Gen.vitPrev2 ∧ Gen.vitPrev6 = Gen.vitPrev2 := by
  decide

theorem gen_limits : Gen.vitLimit2 = 1 ∧ Gen.vitLimit3 = 3 ∧ Gen.vitLimit4 = 7 ∧ Gen.vitLimit5 = 15 ∧ Gen.vitLimit6 = 31 ∧
    Gen.vitMaxMetric = 2 ^ 30 - 1 := by decide

/-- soft value the code expects for a coded bit: `+L` for 1, `-L` for 0 -/
def expect (l : Nat) (bit : Bool) : Int := if bit then (l : Int) else -(l : Int)

/-- every `cost_` table is `±L` according to the specification encoder's output for (state, input 0),
    and the encoder has the two symmetries the butterfly relies on: both polynomials contain the x^0 and the
    x^4 tap, so flipping the input bit or the oldest state bit complements both output bits -/
def costTablesOK : Bool :=
  [2, 3, 4, 5, 6].all fun llr =>
    (List.range 16).all fun s =>
      (costTbl llr).getD (2 * s) 0 == expect (limit llr) (Spec.convOut s false).1 &&
      (costTbl llr).getD (2 * s + 1) 0 == expect (limit llr) (Spec.convOut s false).2 &&
      (Spec.convOut s true).1 == !(Spec.convOut s false).1 && (Spec.convOut s true).2 == !(Spec.convOut s false).2 &&
      (s ≥ 8 || ((Spec.convOut (s + 8) false).1 == !(Spec.convOut s false).1 &&
                 (Spec.convOut (s + 8) false).2 == !(Spec.convOut s false).2)) &&
      Spec.convNext s false == next s false && Spec.convNext s true == next s true

theorem costTables_ok : costTablesOK = true := by decide +kernel

/-! ## the dynamic programme (any branch costs, any initial metrics, any length) -/

def cost : List Branch → List Bool → Nat → Nat
  | f :: fs, b :: bs, s => f s b + cost fs bs (next s b)
  | _, _, _ => 0

def endState : List Bool → Nat → Nat
  | [], s => s
  | b :: bs, s => endState bs (next s b)

theorem getD_map_range {α} (g : Nat → α) (d : α) (i : Nat) (h : i < 16) :
    ((List.range 16).map g).getD i d = g i := by
  simp [List.getD, h]

theorem next_lt (s : Nat) (b : Bool) : next s b < 16 := by unfold next; omega

theorem next_pred (t : Nat) (d : Bool) (h : t < 16) : next (pred t d) (bitOf t) = t := by
  unfold next pred bitOf
  have h2 : t % 2 = 0 ∨ t % 2 = 1 := by omega
  rcases h2 with h2 | h2 <;> cases d <;> simp [h2] <;> omega

theorem pred_lt (t : Nat) (d : Bool) (h : t < 16) : pred t d < 16 := by
  unfold pred; split <;> omega

theorem next_eq_cases (s : Nat) (b : Bool) (hs : s < 16) :
    (s = next s b / 2 ∨ s = next s b / 2 + 8) ∧ b = bitOf (next s b) := by
  unfold next bitOf
  cases b <;> simp [Bool.toNat] <;> omega

theorem acs1_le (f : Branch) (m : Metrics) (s : Nat) (b : Bool) (hs : s < 16) :
    (acs1 f m (next s b)).1 ≤ m.getD s 0 + f s b := by
  obtain ⟨h1, h2⟩ := next_eq_cases s b hs
  unfold acs1
  simp only
  rw [← h2]
  rcases h1 with h1 | h1
  · rw [← h1]; split <;> simp only [] <;> omega
  · have h3 : next s b / 2 = s - 8 := by omega
    have h4 : s - 8 + 8 = s := by omega
    rw [h3, h4]; split <;> simp only [] <;> omega

theorem acs1_eq (f : Branch) (m : Metrics) (t : Nat) :
    (acs1 f m t).1 = m.getD (pred t (acs1 f m t).2) 0 + f (pred t (acs1 f m t).2) (bitOf t) := by
  unfold acs1 pred
  simp only
  split <;> simp

/-- **lower bound**: every path costs at least the DP value at its end state -/
theorem dp_le (fs : List Branch) : ∀ (m : Metrics) (u : List Bool) (s : Nat),
    u.length = fs.length → s < 16 →
    (dp fs m).getD (endState u s) 0 ≤ m.getD s 0 + cost fs u s := by
  induction fs with
  | nil => intro m u s hu hs; cases u <;> simp_all [dp, endState, cost]
  | cons f fs ih =>
    intro m u s hu hs
    cases u with
    | nil => simp at hu
    | cons b bs =>
      simp only [dp, endState, cost]
      have h1 := ih (acs f m).1 bs (next s b) (by simpa using hu) (next_lt s b)
      have h2 : (acs f m).1.getD (next s b) 0 = (acs1 f m (next s b)).1 := by
        show ((List.range 16).map (fun t => (acs1 f m t).1)).getD _ _ = _; exact getD_map_range _ _ _ (next_lt s b)
      have h3 := acs1_le f m s b hs
      omega

/-- **attainment**: the traced survivor is a real path with exactly the DP cost -/
theorem trace_spec (fs : List Branch) : ∀ (m : Metrics) (s : Nat), s < 16 →
    (trace fs m s).1 < 16 ∧ (trace fs m s).2.length = fs.length ∧ endState (trace fs m s).2 (trace fs m s).1 = s ∧
    m.getD (trace fs m s).1 0 + cost fs (trace fs m s).2 (trace fs m s).1 = (dp fs m).getD s 0 := by
  induction fs with
  | nil => intro m s hs; simp [trace, endState, cost, dp, hs]
  | cons f fs ih =>
    intro m s hs
    obtain ⟨h1, h2, h3, h4⟩ := ih (acs f m).1 s hs
    simp only [trace, dp]
    generalize hr : trace fs (acs f m).1 s = r at h1 h2 h3 h4
    obtain ⟨s1, u⟩ := r
    simp only at h1 h2 h3 h4 ⊢
    have hd : (acs f m).2.getD s1 false = (acs1 f m s1).2 := by
      show ((List.range 16).map (fun t => (acs1 f m t).2)).getD _ _ = _; exact getD_map_range _ _ _ h1
    have hm : (acs f m).1.getD s1 0 = (acs1 f m s1).1 := by
      show ((List.range 16).map (fun t => (acs1 f m t).1)).getD _ _ = _; exact getD_map_range _ _ _ h1
    rw [hd]
    refine ⟨pred_lt _ _ h1, by simp [h2], ?_, ?_⟩
    · simp only [endState]; rw [next_pred _ _ h1]; exact h3
    · simp only [cost]; rw [next_pred _ _ h1]
      have := acs1_eq f m s1
      omega

theorem endState_lt (u : List Bool) (s : Nat) (hs : s < 16) : endState u s < 16 := by
  induction u generalizing s with
  | nil => exact hs
  | cons b u ih => exact ih _ (next_lt s b)

/-! ## end-state selection -/

theorem argmin_spec (m : Metrics) :
    (argmin m).1 < 16 ∧ (argmin m).2 = m.getD (argmin m).1 0 ∧ ∀ j, j < 16 → (argmin m).2 ≤ m.getD j 0 := by
  unfold argmin
  have gen : ∀ (l : List Nat) (acc : Nat × Nat), acc.1 < 16 → acc.2 = m.getD acc.1 0 → (∀ i ∈ l, i < 16) →
      let r := l.foldl (fun (best : Nat × Nat) i => if m.getD i 0 < best.2 then (i, m.getD i 0) else best) acc
      r.1 < 16 ∧ r.2 = m.getD r.1 0 ∧ r.2 ≤ acc.2 ∧ ∀ j ∈ l, r.2 ≤ m.getD j 0 := by
    intro l
    induction l with
    | nil => intro acc h1 h2 _; exact ⟨h1, h2, Nat.le_refl _, by simp⟩
    | cons a l ih =>
      intro acc h1 h2 hl
      simp only [List.foldl]
      have ha : a < 16 := hl a List.mem_cons_self
      have hl' : ∀ i ∈ l, i < 16 := fun i hi => hl i (List.mem_cons_of_mem _ hi)
      by_cases hlt : m.getD a 0 < acc.2
      · rw [if_pos hlt]
        obtain ⟨r1, r2, r3, r4⟩ := ih (a, m.getD a 0) ha rfl hl'
        refine ⟨r1, r2, by simp only at r3; omega, ?_⟩
        intro j hj
        rcases List.mem_cons.mp hj with rfl | hj
        · exact r3
        · exact r4 j hj
      · rw [if_neg hlt]
        obtain ⟨r1, r2, r3, r4⟩ := ih acc h1 h2 hl'
        refine ⟨r1, r2, r3, ?_⟩
        intro j hj
        rcases List.mem_cons.mp hj with rfl | hj
        · omega
        · exact r4 j hj
  obtain ⟨r1, r2, _, r4⟩ := gen (List.range 16) (0, m.getD 0 0) (by simp) rfl (fun i hi => List.mem_range.mp hi)
  exact ⟨r1, r2, fun j hj => r4 j (List.mem_range.mpr hj)⟩

/-! ## maximum likelihood -/

theorem init_getD (s : Nat) (hs : s < 16) : initMetrics.getD s 0 = if s = 0 then 0 else Gen.vitMaxMetric := by
  unfold initMetrics
  cases s with
  | zero => rfl
  | succ s =>
    have : s < 15 := by omega
    rw [List.getD_cons_succ, List.getD_eq_getElem?_getD, List.getElem?_replicate, if_pos this]
    simp

/-- **the decoder's choice is a minimum-cost path from the zero state, and its metric is that minimum** —
    for any sequence of branch-cost functions in which some path from state 0 is cheaper than the "unreachable"
    marker (true of every in-range input, see `decode_is_argmin`) -/
theorem dp_argmin (fs : List Branch) (u0 : List Bool) (hu0 : u0.length = fs.length)
    (hsmall : cost fs u0 0 < Gen.vitMaxMetric) :
    let best := argmin (dp fs initMetrics)
    let tr := trace fs initMetrics best.1
    tr.1 = 0 ∧ tr.2.length = fs.length ∧ cost fs tr.2 0 = best.2 ∧
    ∀ u : List Bool, u.length = fs.length → best.2 ≤ cost fs u 0 := by
  simp only
  obtain ⟨a1, a2, a3⟩ := argmin_spec (dp fs initMetrics)
  obtain ⟨t1, t2, t3, t4⟩ := trace_spec fs initMetrics _ a1
  have hall : ∀ u : List Bool, u.length = fs.length → (argmin (dp fs initMetrics)).2 ≤ cost fs u 0 := by
    intro u hu
    have h1 := dp_le fs initMetrics u 0 hu (by decide)
    have h2 := a3 _ (endState_lt u 0 (by decide))
    rw [init_getD 0 (by decide), if_pos rfl, Nat.zero_add] at h1
    omega
  have hz : (trace fs initMetrics (argmin (dp fs initMetrics)).1).1 = 0 := by
    by_cases h0 : (trace fs initMetrics (argmin (dp fs initMetrics)).1).1 = 0
    · exact h0
    · rw [init_getD _ t1, if_neg h0, ← a2] at t4
      have := hall u0 hu0
      omega
  refine ⟨hz, t2, ?_, hall⟩
  rw [hz, init_getD 0 (by decide), if_pos rfl, Nat.zero_add] at t4
  rw [a2]; exact t4

/-! ## the branch cost is the soft distance to the specification encoder's output -/

/-- distance of one received soft value from the value expected for a coded bit; an erased position (0) costs nothing -/
def dist (l : Nat) (bit : Bool) (r : Int) : Nat := if r ≠ 0 then (expect l bit - r).natAbs else 0

theorem branch_is_soft_distance (llr : Nat) (hl : llr = 2 ∨ llr = 3 ∨ llr = 4 ∨ llr = 5 ∨ llr = 6)
    (s : Nat) (hs : s < 16) (b : Bool) (r0 r1 : Int) :
    branch (costTbl llr) r0 r1 s b =
      dist (limit llr) (Spec.convOut s b).1 r0 + dist (limit llr) (Spec.convOut s b).2 r1 := by
  have hk := costTables_ok
  unfold costTablesOK at hk
  rw [List.all_eq_true] at hk
  have hll : llr ∈ [2, 3, 4, 5, 6] := by rcases hl with h | h | h | h | h <;> simp [h]
  have hk2 := hk llr hll
  rw [List.all_eq_true] at hk2
  have key : ∀ t, t < 16 →
      (costTbl llr).getD (2 * t) 0 = expect (limit llr) (Spec.convOut t false).1 ∧
      (costTbl llr).getD (2 * t + 1) 0 = expect (limit llr) (Spec.convOut t false).2 ∧
      (Spec.convOut t true).1 = !(Spec.convOut t false).1 ∧ (Spec.convOut t true).2 = !(Spec.convOut t false).2 ∧
      (t ≥ 8 ∨ ((Spec.convOut (t + 8) false).1 = !(Spec.convOut t false).1 ∧
                 (Spec.convOut (t + 8) false).2 = !(Spec.convOut t false).2)) := by
    intro t ht
    have := hk2 t (List.mem_range.mpr ht)
    simp only [Bool.and_eq_true, beq_iff_eq, Bool.or_eq_true, decide_eq_true_eq] at this
    exact ⟨this.1.1.1.1.1.1, this.1.1.1.1.1.2, this.1.1.1.1.2, this.1.1.1.2, this.1.1.2⟩
  have neg_expect : ∀ (bit : Bool), expect (limit llr) (!bit) = -expect (limit llr) bit := by
    intro bit; unfold expect; cases bit <;> simp
  have abs_flip : ∀ (e r : Int), (-e - r).natAbs = (e + r).natAbs := by intro e r; omega
  unfold branch cost0 cost1 dist iabs
  by_cases h8 : s < 8
  · obtain ⟨k1, k2, k3, k4, _⟩ := key s hs
    rw [if_pos h8]
    cases b
    · simp only [Bool.false_eq_true, if_false, k1, k2]
    · simp only [if_true, k1, k2, k3, k4, neg_expect, abs_flip]
  · obtain ⟨k1, k2, _, _, k5⟩ := key (s - 8) (by omega)
    obtain ⟨_, _, j3, j4, _⟩ := key s hs
    have k5' := k5.resolve_left (by omega)
    have hs8 : s - 8 + 8 = s := by omega
    rw [hs8] at k5'
    rw [if_neg h8]
    cases b
    · simp only [Bool.false_eq_true, if_false, k1, k2, k5'.1, k5'.2, neg_expect, abs_flip]
    · simp only [if_true, k1, k2, j3, j4, k5'.1, k5'.2, neg_expect, Bool.not_not]

/-- total soft distance between received pairs and an encoder output sequence -/
def softDist (l : Nat) : List (Int × Int) → List (Bool × Bool) → Nat
  | r :: rs, c :: cs => dist l c.1 r.1 + dist l c.2 r.2 + softDist l rs cs
  | _, _ => 0

theorem convNext_eq (s : Nat) (b : Bool) : Spec.convNext s b = next s b := rfl

/-- **the path metric is the total soft distance between the received vector and the re-encoding of the path** -/
theorem pathCost_is_soft_distance (llr : Nat) (hl : llr = 2 ∨ llr = 3 ∨ llr = 4 ∨ llr = 5 ∨ llr = 6)
    (rp : List (Int × Int)) : ∀ (u : List Bool) (s : Nat), s < 16 →
    cost (rp.map fun p => branch (costTbl llr) p.1 p.2) u s = softDist (limit llr) rp (Spec.convFrom s u) := by
  induction rp with
  | nil => intro u s _; cases u <;> simp [cost, softDist, Spec.convFrom]
  | cons r rp ih =>
    intro u s hs
    cases u with
    | nil => simp [cost, softDist, Spec.convFrom]
    | cons b u =>
      simp only [List.map, cost, Spec.convFrom, softDist]
      rw [branch_is_soft_distance llr hl s hs b, ih u _ (next_lt s b), convNext_eq]

/-! ## the decoder on in-range input -/

theorem pairs_length (l : List Int) : (pairs l).length = l.length / 2 := by
  induction l using pairs.induct with
  | case1 a b rest ih => simp only [pairs, List.length_cons, ih]; omega
  | case2 l h =>
    have : pairs l = [] := by
      cases l with
      | nil => rfl
      | cons a l => cases l with
        | nil => rfl
        | cons b l => exact absurd rfl (h a b l)
    rw [this]
    cases l with
    | nil => rfl
    | cons a l => cases l with
      | nil => simp
      | cons b l => exact absurd rfl (h a b l)

theorem pairs_mem (l : List Int) (p : Int × Int) (hp : p ∈ pairs l) : p.1 ∈ l ∧ p.2 ∈ l := by
  induction l using pairs.induct with
  | case1 a b rest ih =>
    simp only [pairs, List.mem_cons] at hp
    rcases hp with rfl | hp
    · simp
    · have := ih hp; simp [this.1, this.2]
  | case2 l h =>
    have : pairs l = [] := by
      cases l with
      | nil => rfl
      | cons a l => cases l with
        | nil => rfl
        | cons b l => exact absurd rfl (h a b l)
    rw [this] at hp; simp at hp

theorem limit_le (llr : Nat) (hl : llr = 2 ∨ llr = 3 ∨ llr = 4 ∨ llr = 5 ∨ llr = 6) : limit llr ≤ 31 := by
  rcases hl with h | h | h | h | h <;> subst h <;> decide

theorem dist_le (l : Nat) (hl : l ≤ 31) (bit : Bool) (r : Int) (h1 : -128 ≤ r) (h2 : r ≤ 127) : dist l bit r ≤ 159 := by
  unfold dist expect; split <;> cases bit <;> simp <;> omega

/-- cost of the all-zero input path: at most 318 per step -/
theorem zero_path_small (llr : Nat) (hl : llr = 2 ∨ llr = 3 ∨ llr = 4 ∨ llr = 5 ∨ llr = 6)
    (rp : List (Int × Int)) (hr : ∀ p ∈ rp, (-128 ≤ p.1 ∧ p.1 ≤ 127) ∧ (-128 ≤ p.2 ∧ p.2 ≤ 127)) : ∀ s, s < 16 →
    cost (rp.map fun p => branch (costTbl llr) p.1 p.2) (List.replicate rp.length false) s ≤ 318 * rp.length := by
  induction rp with
  | nil => intro s _; simp [cost]
  | cons r rp ih =>
    intro s hs
    simp only [List.map, List.length_cons, List.replicate_succ, cost]
    have h1 := ih (fun p hp => hr p (List.mem_cons_of_mem _ hp)) (next s false) (next_lt _ _)
    rw [branch_is_soft_distance llr hl s hs]
    have hrr := hr r List.mem_cons_self
    have d1 := dist_le (limit llr) (limit_le llr hl) (Spec.convOut s false).1 r.1 hrr.1.1 hrr.1.2
    have d2 := dist_le (limit llr) (limit_le llr hl) (Spec.convOut s false).2 r.2 hrr.2.1 hrr.2.2
    omega

/-- **maximum likelihood**: for every in-range soft vector (any confidences, any erasures, any length below 6.7 M)
    the payload returned is a prefix of an input sequence whose re-encoding is at minimum total soft distance
    from the received vector among all input sequences, and the reported cost is that minimum in
    full-confidence units, rounded to nearest -/
theorem decode_is_argmin (llr : Nat) (hl : llr = 2 ∨ llr = 3 ∨ llr = 4 ∨ llr = 5 ∨ llr = 6)
    (recv : List Int) (hr : ∀ x ∈ recv, -128 ≤ x ∧ x ≤ 127)
    (hlen : 318 * (recv.length / 2) < 2 ^ 30 - 1) (outN : Nat) :
    ∃ ustar : List Bool, ustar.length = recv.length / 2 ∧
      (decode llr recv outN).2 = ustar.take outN ∧
      (∀ u : List Bool, u.length = recv.length / 2 →
        softDist (limit llr) (pairs recv) (Spec.convFrom 0 ustar) ≤ softDist (limit llr) (pairs recv) (Spec.convFrom 0 u)) ∧
      (decode llr recv outN).1 = roundDiv (softDist (limit llr) (pairs recv) (Spec.convFrom 0 ustar)) (limit llr) := by
  have hpl := pairs_length recv
  have hrp : ∀ p ∈ pairs recv, (-128 ≤ p.1 ∧ p.1 ≤ 127) ∧ (-128 ≤ p.2 ∧ p.2 ≤ 127) := by
    intro p hp; have := pairs_mem recv p hp; exact ⟨hr _ this.1, hr _ this.2⟩
  have hz := zero_path_small llr hl (pairs recv) hrp 0 (by decide)
  have hmax : Gen.vitMaxMetric = 2 ^ 30 - 1 := gen_limits.2.2.2.2.2
  have hsm : cost ((pairs recv).map fun p => branch (costTbl llr) p.1 p.2) (List.replicate (pairs recv).length false) 0
      < Gen.vitMaxMetric := by rw [hmax]; rw [hpl] at hz ⊢; omega
  obtain ⟨d1, d2, d3, d4⟩ := dp_argmin ((pairs recv).map fun p => branch (costTbl llr) p.1 p.2)
    (List.replicate (pairs recv).length false) (by simp) hsm
  simp only [List.length_map] at d2 d4
  refine ⟨_, by rw [d2, hpl], rfl, ?_, ?_⟩
  · intro u hu
    rw [← pathCost_is_soft_distance llr hl _ _ 0 (by decide), ← pathCost_is_soft_distance llr hl _ _ 0 (by decide), d3]
    exact d4 u (by rw [hu, hpl])
  · rw [← pathCost_is_soft_distance llr hl _ _ 0 (by decide), d3]; rfl

/-- no `int32_t` overflow: every path metric (and every sum formed before the comparison) stays below 2^31
    for trellises of up to 244 steps — the history buffer's size -/
theorem metric_bound (fs : List Branch) (C : Nat) (hf : ∀ f ∈ fs, ∀ s b, f s b ≤ C) : ∀ (m : Metrics) (B : Nat),
    (∀ s, s < 16 → m.getD s 0 ≤ B) → ∀ s, s < 16 → (dp fs m).getD s 0 ≤ B + C * fs.length := by
  induction fs with
  | nil => intro m B hm s hs; simpa [dp] using hm s hs
  | cons f fs ih =>
    intro m B hm s hs
    simp only [dp, List.length_cons]
    have hstep : ∀ t, t < 16 → (acs f m).1.getD t 0 ≤ B + C := by
      intro t ht
      have : (acs f m).1.getD t 0 = (acs1 f m t).1 := by
        show ((List.range 16).map (fun t => (acs1 f m t).1)).getD _ _ = _; exact getD_map_range _ _ _ ht
      rw [this, acs1_eq]
      have h1 := hm _ (pred_lt t (acs1 f m t).2 ht)
      have h2 := hf f List.mem_cons_self (pred t (acs1 f m t).2) (bitOf t)
      omega
    have := ih (fun g hg => hf g (List.mem_cons_of_mem _ hg)) (acs f m).1 (B + C) hstep s hs
    have e : B + C + C * fs.length = B + C * (fs.length + 1) := by rw [Nat.mul_succ]; omega
    omega

example : (2 ^ 30 - 1) + 318 * 244 < 2 ^ 31 := by decide

/-- `std::round(x / float(L))` is `(2x + L) / (2L)`: for odd `L` the quotient is never half-way -/
theorem roundDiv_never_half (x l : Nat) (hl : l % 2 = 1) : 2 * x % (2 * l) ≠ l := by
  intro h
  have h1 := Nat.div_add_mod (2 * x) (2 * l)
  rw [h] at h1
  have : 2 * l * (2 * x / (2 * l)) = 2 * (l * (2 * x / (2 * l))) := by rw [Nat.mul_assoc]
  omega

/-! ## non-vacuity -/
example : (decode 4 [7, 7, -7, 7, 0, -7, 7, 7] 4).1 = (decode 4 [7, 7, -7, 7, 0, -7, 7, 7] 4).1 ∧ ((decode 4 [7, 7, 7, -7, 0, -7, 7, 7] 4).2).length = 4 := by decide +kernel

end M17.C02

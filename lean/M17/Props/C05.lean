/-
C05 — a link setup frame is reported only if it passes the M17 CRC, whatever preceded it; LICH reassembly is exact
and an out-of-range fragment number never touches collected state.
-/
import M17.Model.Decoder
import M17.Props.C04
import M17.Props.C09

namespace M17.C05
open M17.Dec

attribute [local irreducible] fec unpackLich Cond.deinterleaveSoft Cond.randSoft Crc.crc

/-- the check value the decoder computes is the M17 CRC-16 of the 30 bytes (C09) -/
theorem crcOf_is_m17_crc (bytes : List Nat) : crcOf bytes = Spec.crc16 bytes := C09.impl_eq_spec bytes

/-! ## the CRC gate -/

theorem decodeLsf_gate (σ : DState) (buf : List Int) :
    ∀ c ∈ (decodeLsf σ buf).calls, c.ftype = .lsf → crcOf c.bytes = 0 := by
  unfold decodeLsf
  simp only
  split
  · rename_i h; intro c hc _; simp only [List.mem_singleton] at hc; subst hc; exact h
  · intro c hc; simp at hc

theorem decodeLich_gate (σ : DState) (buf : List Int) :
    ∀ c ∈ (decodeLich σ buf).calls, c.ftype = .lsf → crcOf c.bytes = 0 := by
  unfold decodeLich
  split
  · intro c hc; simp at hc
  · simp only
    split
    · intro c hc hk; simp only [List.mem_singleton] at hc; subst hc; simp at hk
    · split
      · intro c hc hk; simp only [List.mem_singleton] at hc; subst hc; simp at hk
      · split
        · rename_i h; intro c hc hk
          simp only [List.mem_cons, List.mem_nil_iff, or_false] at hc
          rcases hc with rfl | rfl
          · simp at hk
          · exact h
        · intro c hc hk; simp only [List.mem_singleton] at hc; subst hc; simp at hk

/-- **one frame**: every link-setup callback carries 30 bytes whose CRC checks -/
theorem lsf_callback_crc_valid_step (σ : DState) (sync : Sync) (frame : List Int) (cb : Bool) :
    ∀ c ∈ (step σ sync frame cb).calls, c.ftype = .lsf → crcOf c.bytes = 0 := by
  unfold step
  cases sync
  · exact decodeLsf_gate _ _
  · cases σ.mode
    · exact decodeLich_gate _ _
    · simp only [decodeStream]; intro c hc hk; simp only [List.mem_singleton] at hc; subst hc; simp at hk
    · intro c hc; simp at hc
    · intro c hc; simp at hc
    · intro c hc; simp at hc
  · cases σ.mode
    · intro c hc; simp at hc
    · intro c hc; simp at hc
    · simp only [decodePacket]; split <;> (intro c hc hk; simp only [List.mem_singleton] at hc; subst hc; simp at hk)
    · simp only [decodePacket]; split <;> (intro c hc hk; simp only [List.mem_singleton] at hc; subst hc; simp at hk)
    · intro c hc; simp at hc
  · simp only [decodeBert]; intro c hc hk; simp only [List.mem_singleton] at hc; subst hc; simp at hk

/-- a history of frames: (sync type, content, callback result) -/
abbrev Frame := Sync × List Int × Bool

/-- all callbacks made while decoding a history from state `σ` -/
def runCalls : DState → List Frame → List Callback
  | _, [] => []
  | σ, (s, f, cb) :: rest => (step σ s f cb).calls ++ runCalls (step σ s f cb).state rest

/-- **every history, every initial state** (including one left behind by `reset()` with a stale LICH mask): a link
    setup frame is reported only if its 30 bytes pass the M17 CRC -/
theorem lsf_callback_crc_valid (σ : DState) (h : List Frame) :
    ∀ c ∈ runCalls σ h, c.ftype = .lsf → Spec.crc16 c.bytes = 0 := by
  induction h generalizing σ with
  | nil => intro c hc; simp [runCalls] at hc
  | cons x rest ih =>
    obtain ⟨s, f, cb⟩ := x
    intro c hc hk
    simp only [runCalls, List.mem_append] at hc
    rcases hc with hc | hc
    · rw [← crcOf_is_m17_crc]; exact lsf_callback_crc_valid_step σ s f cb c hc hk
    · exact ih _ c hc hk

/-- `reset()` leaves the LICH mask and buffer as they were — harmless, by the theorem above -/
theorem stale_mask_harmless (σ : DState) (h : List Frame) :
    ∀ c ∈ runCalls (reset σ) h, c.ftype = .lsf → Spec.crc16 c.bytes = 0 := lsf_callback_crc_valid _ h

/-! ## LICH reassembly -/

/-- the five bytes held for LICH position `i` -/
def slot (lsf : List Nat) (i : Nat) : List Nat := (lsf.drop (5 * i)).take 5

theorem setSlot_getElem? (lsf five : List Nat) (n k : Nat) (hl : lsf.length = 30) (hn : n ≤ 5) (h5 : five.length = 5) :
    (setSlot lsf n five)[k]? = if k < 5 * n then lsf[k]? else if k < 5 * n + 5 then five[k - 5 * n]? else lsf[k]? := by
  unfold setSlot
  have hmin : min (5 * n) lsf.length = 5 * n := by omega
  by_cases h1 : k < 5 * n
  · rw [if_pos h1, List.getElem?_append_left (by simp; omega), List.getElem?_append_left (by simp; omega), List.getElem?_take, if_pos h1]
  · rw [if_neg h1]
    by_cases h2 : k < 5 * n + 5
    · rw [if_pos h2, List.getElem?_append_left (by simp; omega), List.getElem?_append_right (by simp; omega)]
      simp only [List.length_take, hmin]
    · rw [if_neg h2, List.getElem?_append_right (by simp; omega)]
      simp only [List.length_append, List.length_take, hmin, h5, List.getElem?_drop]
      congr 1; omega

theorem slot_getElem? (lsf : List Nat) (i j : Nat) (hj : j < 5) : (slot lsf i)[j]? = lsf[5 * i + j]? := by
  unfold slot; rw [List.getElem?_take, if_pos hj, List.getElem?_drop]

theorem slot_length (lsf : List Nat) (i : Nat) (hl : lsf.length = 30) (hi : i ≤ 5) : (slot lsf i).length = 5 := by
  unfold slot; simp; omega

/-- the slot just stored holds the stored bytes; every other slot is untouched -/
theorem slot_setSlot (lsf five : List Nat) (n i : Nat) (hl : lsf.length = 30) (hn : n ≤ 5) (hi : i ≤ 5) (h5 : five.length = 5) :
    slot (setSlot lsf n five) i = if i = n then five else slot lsf i := by
  apply List.ext_getElem?
  intro j
  by_cases hj : j < 5
  · rw [slot_getElem? _ _ _ hj, setSlot_getElem? lsf five n _ hl hn h5]
    by_cases hin : i = n
    · subst hin
      rw [if_pos rfl, if_neg (by omega), if_pos (by omega)]; congr 1; omega
    · rw [if_neg hin, slot_getElem? _ _ _ hj]
      by_cases hlt : i < n
      · rw [if_pos (by omega)]
      · rw [if_neg (by omega), if_neg (by omega)]
  · have h1 : (slot (setSlot lsf n five) i)[j]? = none := by
      unfold slot; rw [List.getElem?_take, if_neg hj]
    rw [h1]
    split
    · rw [List.getElem?_eq_none (by omega)]
    · unfold slot; rw [List.getElem?_take, if_neg hj]

theorem setSlot_length (lsf five : List Nat) (n : Nat) (hl : lsf.length = 30) (hn : n ≤ 5) (h5 : five.length = 5) :
    (setSlot lsf n five).length = 30 := by
  unfold setSlot; simp; omega

/-- storing position `n` with the bytes of `l` when every other position already holds the bytes of `l` yields `l` -/
theorem setSlot_completes (lsf l five : List Nat) (n : Nat) (hl : lsf.length = 30) (hl' : l.length = 30) (hn : n ≤ 5)
    (hfive : five = slot l n) (hothers : ∀ i, i ≤ 5 → i ≠ n → slot lsf i = slot l i) :
    setSlot lsf n five = l := by
  have h5 : five.length = 5 := by rw [hfive]; exact slot_length l n hl' hn
  apply List.ext_getElem?
  intro k
  by_cases hk : k < 30
  · -- position k lies in slot k/5 at offset k%5
    have hkk : 5 * (k / 5) + k % 5 = k := by omega
    have hs := slot_setSlot lsf five n (k / 5) hl hn (by omega) h5
    have e1 := slot_getElem? (setSlot lsf n five) (k / 5) (k % 5) (by omega)
    have e2 := slot_getElem? l (k / 5) (k % 5) (by omega)
    rw [hkk] at e1 e2
    rw [← e1, ← e2, hs]
    by_cases hin : k / 5 = n
    · rw [if_pos hin, hfive, hin]
    · rw [if_neg hin, hothers (k / 5) (by omega) hin]
  · rw [List.getElem?_eq_none (by rw [setSlot_length lsf five n hl hn h5]; omega), List.getElem?_eq_none (by omega)]

/-- **an out-of-range fragment number never touches collected state** (fragment numbers 6 and 7) -/
theorem out_of_range_inert (σ : DState) (frame : List Int) (cb : Bool) (lich : List Nat) (hm : σ.mode = .lsf)
    (hu : unpackLich (Cond.deinterleaveSoft (Cond.randSoft frame)) = some lich)
    (hfn : (lich.getD 5 0 >>> 5) % 8 > 5) :
    (step σ .stream frame cb).state = σ ∧ (step σ .stream frame cb).result = .incomplete ∧
    (step σ .stream frame cb).calls = [⟨.lich, lich, 0⟩] := by
  have h5 : Gen.maxLichFragment = 5 := by decide
  unfold step; simp only [hm]
  unfold decodeLich; rw [hu]
  simp only [h5, hfn, if_true]
  exact ⟨trivial, trivial, trivial⟩

/-- **exact reassembly**: while waiting for link setup, when a fragment for position `n ≤ 5` arrives, all six
    positions are then held, and the buffer then equals an LSF `l` whose CRC checks — in particular when every other
    position already held the bytes of `l` and this fragment carries `l`'s bytes (`setSlot_completes`) — that very step
    reports `l` bit-exact, returns OK, enters stream mode and clears the collection -/
theorem lich_reassembly_exact (σ : DState) (frame : List Int) (cb : Bool) (lich l : List Nat) (hm : σ.mode = .lsf)
    (hu : unpackLich (Cond.deinterleaveSoft (Cond.randSoft frame)) = some lich)
    (hfn : (lich.getD 5 0 >>> 5) % 8 ≤ 5)
    (hall : ((σ.mask ||| 2 ^ ((lich.getD 5 0 >>> 5) % 8)) % 256) % 64 = 63)
    (hl : setSlot σ.lsfBuf ((lich.getD 5 0 >>> 5) % 8) (lich.take 5) = l) (hcrc : Spec.crc16 l = 0) :
    (step σ .stream frame cb).calls = [⟨.lich, lich, 0⟩, ⟨.lsf, l, 0⟩] ∧ (step σ .stream frame cb).result = .ok ∧
    (step σ .stream frame cb).state = { mode := .stream, mask := 0, lsfBuf := l } ∧ (step σ .stream frame cb).cost = some 0 := by
  have h5 : Gen.maxLichFragment = 5 := by decide
  have hc : crcOf l = 0 := by rw [crcOf_is_m17_crc]; exact hcrc
  unfold step; simp only [hm]
  unfold decodeLich; rw [hu]
  have hnot : ¬ (lich.getD 5 0 >>> 5) % 8 > 5 := by omega
  simp only [h5, hnot, if_false, hall, ne_eq, not_true_eq_false, hl, hc, if_true]
  exact ⟨trivial, trivial, trivial, trivial⟩

/-- while fewer than six positions are held, or the held bytes do not pass the CRC (mixed transmissions), nothing is
    reported beyond the LICH fragment itself and the decoder keeps waiting -/
theorem lich_incomplete (σ : DState) (frame : List Int) (cb : Bool) (lich : List Nat) (hm : σ.mode = .lsf)
    (hu : unpackLich (Cond.deinterleaveSoft (Cond.randSoft frame)) = some lich)
    (hfn : (lich.getD 5 0 >>> 5) % 8 ≤ 5)
    (h : ((σ.mask ||| 2 ^ ((lich.getD 5 0 >>> 5) % 8)) % 256) % 64 ≠ 63 ∨
         Spec.crc16 (setSlot σ.lsfBuf ((lich.getD 5 0 >>> 5) % 8) (lich.take 5)) ≠ 0) :
    (step σ .stream frame cb).calls = [⟨.lich, lich, 0⟩] ∧ (step σ .stream frame cb).result = .incomplete ∧
    (step σ .stream frame cb).state.mode = .lsf ∧
    (step σ .stream frame cb).state.lsfBuf = setSlot σ.lsfBuf ((lich.getD 5 0 >>> 5) % 8) (lich.take 5) := by
  have h5 : Gen.maxLichFragment = 5 := by decide
  unfold step; simp only [hm]
  unfold decodeLich; rw [hu]
  have hnot : ¬ (lich.getD 5 0 >>> 5) % 8 > 5 := by omega
  simp only [h5, hnot, if_false]
  rcases h with h | h
  · simp only [ne_eq, h, not_false_eq_true, if_true]
    exact ⟨trivial, trivial, hm, trivial⟩
  · by_cases h6 : ((σ.mask ||| 2 ^ ((lich.getD 5 0 >>> 5) % 8)) % 256) % 64 = 63
    · have hc : ¬ crcOf (setSlot σ.lsfBuf ((lich.getD 5 0 >>> 5) % 8) (lich.take 5)) = 0 := by
        rw [crcOf_is_m17_crc]; exact h
      simp only [ne_eq, h6, not_true_eq_false, if_false, hc]
      exact ⟨trivial, trivial, hm, trivial⟩
    · simp only [ne_eq, h6, not_false_eq_true, if_true]
      exact ⟨trivial, trivial, hm, trivial⟩

/-! ## Golay words with up to three errors each still yield the fragment -/

/-- the four 12-bit values carried by six LICH bytes -/
def lichWords (b : List Nat) : List Nat :=
  [b.getD 0 0 * 16 + b.getD 1 0 / 16, (b.getD 1 0 % 16) * 256 + b.getD 2 0,
   b.getD 3 0 * 16 + b.getD 4 0 / 16, (b.getD 4 0 % 16) * 256 + b.getD 5 0]

theorem repack (x y : Nat) (hy : y < 4096) : ((x % 16) <<< 4 ||| y >>> 8) % 256 = (x % 16) * 16 + y / 256 := by
  have h1 : y >>> 8 < 2 ^ 4 := by rw [Nat.shiftRight_eq_div_pow]; omega
  rw [← Nat.shiftLeft_add_eq_or_of_lt h1, Nat.shiftLeft_eq, Nat.shiftRight_eq_div_pow]
  omega

attribute [local irreducible] Golay.decode Golay.encode24 hardWord Golay.wtN

/-- **each Golay word may carry up to three bit errors (parity bit included)**: the unpacked LICH is the transmitted one -/
theorem unpack_lich_correct (buf : List Int) (b0 b1 b2 b3 b4 b5 e0 e1 e2 e3 : Nat)
    (l0 : b0 < 256) (l1 : b1 < 256) (l2 : b2 < 256) (l3 : b3 < 256) (l4 : b4 < 256) (l5 : b5 < 256)
    (he : (e0 < 2 ^ 24 ∧ Golay.wtN 24 e0 ≤ 3) ∧ (e1 < 2 ^ 24 ∧ Golay.wtN 24 e1 ≤ 3) ∧
          (e2 < 2 ^ 24 ∧ Golay.wtN 24 e2 ≤ 3) ∧ (e3 < 2 ^ 24 ∧ Golay.wtN 24 e3 ≤ 3))
    (h0 : hardWord ((buf.drop (24 * 0)).take 24) = Golay.encode24 (b0 * 16 + b1 / 16) ^^^ e0)
    (h1 : hardWord ((buf.drop (24 * 1)).take 24) = Golay.encode24 ((b1 % 16) * 256 + b2) ^^^ e1)
    (h2 : hardWord ((buf.drop (24 * 2)).take 24) = Golay.encode24 (b3 * 16 + b4 / 16) ^^^ e2)
    (h3 : hardWord ((buf.drop (24 * 3)).take 24) = Golay.encode24 ((b4 % 16) * 256 + b5) ^^^ e3) :
    unpackLich buf = some [b0, b1, b2, b3, b4, b5] := by
  obtain ⟨o0, q0, r0⟩ := C04.decode_corrects (b0 * 16 + b1 / 16) e0 (by omega) he.1.1 he.1.2
  obtain ⟨o1, q1, r1⟩ := C04.decode_corrects ((b1 % 16) * 256 + b2) e1 (by omega) he.2.1.1 he.2.1.2
  obtain ⟨o2, q2, r2⟩ := C04.decode_corrects (b3 * 16 + b4 / 16) e2 (by omega) he.2.2.1.1 he.2.2.1.2
  obtain ⟨o3, q3, r3⟩ := C04.decode_corrects ((b4 % 16) * 256 + b5) e3 (by omega) he.2.2.2.1 he.2.2.2.2
  unfold unpackLich
  simp only [h0, h1, h2, h3, q0, q1, q2, q3, r0, r1, r2, r3]
  have p1 := repack (b0 * 16 + b1 / 16) ((b1 % 16) * 256 + b2) (by omega)
  have p2 := repack (b3 * 16 + b4 / 16) ((b4 % 16) * 256 + b5) (by omega)
  simp only [p1, p2]
  simp only [Nat.shiftRight_eq_div_pow]
  congr 1
  simp only [List.cons.injEq, and_true]
  refine ⟨?_, ?_, ?_, ?_, ?_, ?_⟩ <;> omega

/-! ## non-vacuity -/
example : lichWords [0xAB, 0xCD, 0xEF, 0x12, 0x34, 0x56] = [0xABC, 0xDEF, 0x123, 0x456] := by decide

end M17.C05

/-
C16 — queue blocking and shutdown: a call waits exactly while it cannot proceed; with the default (unbounded)
time-out it never gives up while the queue is open; close() ends every wait, makes puts fail, lets consumers drain,
and a drained closed queue fails gets at once.
-/
import M17.Props.C15

namespace M17.C16
open M17.Q M17.C15

theorem getD_set {α} (l : List α) (i j : Nat) (a d : α) :
    (l.set i a).getD j d = if i = j ∧ i < l.length then a else l.getD j d := by
  simp only [List.getD_eq_getElem?_getD, List.getElem?_set]
  by_cases h : i = j
  · subst h
    by_cases h2 : i < l.length <;> simp [h2]
  · simp [h]

/-- **a put starts waiting only when the queue is full and open (and its time-out is not zero); a get only when the
    queue is empty and not closed** -/
theorem blocks_only_when_it_must (s s' : Sys) (t : Nat) (hl : t < s.pcs.length) (hs : step s (.run t) = some s') :
    (∀ v to, s.pcs.getD t .idle = .putStart v to → s'.pcs.getD t .idle = .putWaiting v to →
        s.size = s.cap ∧ s.st = .opn ∧ to ≠ .zero) ∧
    (∀ to, s.pcs.getD t .idle = .getStart to → s'.pcs.getD t .idle = .getWaiting to →
        s.items = [] ∧ s.st ≠ .closed) := by
  unfold step at hs
  constructor
  · intro v to hp hw
    simp only [hp] at hs
    by_cases hf : s.size = s.cap
    · simp only [hf, if_true] at hs
      by_cases hz : to = .zero
      · subst hz; simp at hs; cases hs; simp [setPc, getD_set, hl] at hw
      · have hz' : (to == Timeout.zero) = false := by cases to <;> simp_all
        simp only [hz', Bool.false_eq_true, if_false] at hs
        by_cases ho : s.st = .opn
        · exact ⟨hf, ho, hz⟩
        · simp [ho] at hs; cases hs; simp [setPc, getD_set, hl] at hw
    · simp only [hf, if_false] at hs
      cases hs
      unfold putTail at hw
      split at hw <;> simp [setPc, getD_set, hl] at hw
  · intro to hp hw
    simp only [hp] at hs
    cases hi : s.items with
    | nil =>
      simp only [hi] at hs
      by_cases hc : s.st = .closed
      · simp [hc] at hs; cases hs; simp [setPc, getD_set, hl] at hw
      · exact ⟨rfl, hc⟩
    | cons x xs =>
      simp only [hi] at hs
      cases hs
      simp [getTail, setPc, getD_set, hl] at hw

/-- **forever means forever**: with the default time-out a put returns `false` only if the queue is not open,
    and a get returns `false` only if the queue is closed and empty -/
theorem forever_never_gives_up (s s' : Sys) (t : Nat) (hl : t < s.pcs.length)
    (hs : step s (.run t) = some s') :
    (∀ v b, (s.pcs.getD t .idle = .putStart v .forever ∨ s.pcs.getD t .idle = .putWoken v .forever b) →
        s'.pcs.getD t .idle = .done false none → s.st ≠ .opn) ∧
    (∀ b, (s.pcs.getD t .idle = .getStart .forever ∨ s.pcs.getD t .idle = .getWoken .forever b) →
        s'.pcs.getD t .idle = .done false none → s.st = .closed ∧ s.items = []) := by
  unfold step at hs
  constructor
  · intro v b hp hd
    rcases hp with hp | hp
    · simp only [hp] at hs
      by_cases hf : s.size = s.cap
      · simp only [hf, if_true] at hs
        by_cases ho : s.st = .opn
        · simp [ho] at hs; cases hs
          simp [setPc, getD_set, hl] at hd
        · exact ho
      · simp only [hf, if_false] at hs
        cases hs
        unfold putTail at hd
        by_cases ho : s.st = .opn
        · simp [ho, setPc, getD_set, hl] at hd
        · exact ho
    · simp only [hp] at hs
      simp only [bne_self_eq_false, Bool.and_false, Bool.false_eq_true, if_false] at hs
      by_cases hf : s.size = s.cap
      · simp only [hf, if_true] at hs
        by_cases ho : s.st = .opn
        · simp [ho] at hs; cases hs
          simp [setPc, getD_set, hl] at hd
        · exact ho
      · simp only [hf, if_false] at hs
        cases hs
        unfold putTail at hd
        by_cases ho : s.st = .opn
        · simp [ho, setPc, getD_set, hl] at hd
        · exact ho
  · intro b hp hd
    have key : ∀ (hs' : (match s.items with
        | [] => if s.st = .closed then some (setPc s t (.done false none)) else some (setPc s t (.getWaiting .forever))
        | x :: xs => some (getTail s t x xs)) = some s'), s.st = .closed ∧ s.items = [] := by
      intro hs'
      cases hi : s.items with
      | nil =>
        simp only [hi] at hs'
        by_cases hc : s.st = .closed
        · exact ⟨hc, rfl⟩
        · simp [hc] at hs'; cases hs'
          simp [setPc, getD_set, hl] at hd
      | cons x xs =>
        simp only [hi] at hs'
        cases hs'
        simp [getTail, setPc, getD_set, hl] at hd
    rcases hp with hp | hp
    · simp only [hp] at hs; exact key hs
    · simp only [hp] at hs
      simp only [bne_self_eq_false, Bool.and_false, Bool.false_eq_true, if_false] at hs
      exact key hs

/-- **close ends every wait**: once the queue is not open, a put that is woken returns `false` in its next segment
    instead of waiting again; a get that is woken takes an item if there is one and otherwise returns `false` -/
theorem close_ends_waits (s s' : Sys) (t : Nat) (hl : t < s.pcs.length) (hi : Inv s) (hst : s.st ≠ .opn)
    (hs : step s (.run t) = some s') :
    (∀ v to, s.pcs.getD t .idle = .putWoken v to false → s'.pcs.getD t .idle = .done false none) ∧
    (∀ to, s.pcs.getD t .idle = .getWoken to false →
        (∃ x, s'.pcs.getD t .idle = .done true (some x) ∧ s.items.head? = some x) ∨
        (s.items = [] ∧ s'.pcs.getD t .idle = .done false none)) := by
  obtain ⟨_, _, _, h4⟩ := hi
  unfold step at hs
  constructor
  · intro v to hp
    simp only [hp] at hs
    repeat' split at hs
    all_goals (first | contradiction | skip)
    all_goals (cases hs)
    all_goals (simp only [setPc, putTail, getD_set, hl, and_self, if_true])
    all_goals (try split)
    all_goals (simp_all)
  · intro to hp
    simp only [hp] at hs
    cases hitems : s.items with
    | nil =>
      right
      have hc : s.st = .closed := by
        cases hh : s.st
        · exact absurd hh hst
        · exact absurd hitems (h4 hh)
        · rfl
      simp only [hitems, hc] at hs
      simp at hs
      cases hs
      simp [setPc, getD_set, hl]
    | cons x xs =>
      left
      simp only [hitems] at hs
      simp at hs
      cases hs
      exact ⟨x, by simp [getTail, setPc, getD_set, hl], rfl⟩

/-- **what was accepted before close is still delivered, and the get that takes the last item closes the queue** -/
theorem close_drains (s s' : Sys) (t : Nat) (x : Nat) (xs : List Nat) (to : Timeout) (hl : t < s.pcs.length)
    (hp : s.pcs.getD t .idle = .getStart to) (hitems : s.items = x :: xs) (hs : step s (.run t) = some s') :
    s'.pcs.getD t .idle = .done true (some x) ∧ s'.items = xs ∧
    (s.st = .closing → xs = [] → s'.st = .closed) ∧ (s.st = .closing → xs ≠ [] → s'.st = .closing) := by
  unfold step at hs
  simp only [hp, hitems] at hs
  cases hs
  refine ⟨by simp [getTail, setPc, getD_set, hl], by simp [getTail, setPc], ?_, ?_⟩
  · intro h1 h2; simp [getTail, setPc, h1, h2]
  · intro h1 h2; simp [getTail, setPc, h1, h2]

/-- **a get on a drained, closed queue fails in its first segment, without waiting** -/
theorem get_on_closed_is_immediate (s s' : Sys) (t : Nat) (to : Timeout) (hl : t < s.pcs.length)
    (hp : s.pcs.getD t .idle = .getStart to) (hc : s.st = .closed) (he : s.items = [])
    (hs : step s (.run t) = some s') : s'.pcs.getD t .idle = .done false none := by
  unfold step at hs
  simp only [hp, he, hc] at hs
  simp at hs
  cases hs
  simp [setPc, getD_set, hl]

/-- a wake-up is always possible for a waiting thread (notification or spurious), and a time-out wake-up exactly
    when the call has a deadline -/
theorem wake_enabled (s : Sys) (t : Nat) (v : Nat) (to : Timeout) :
    (s.pcs.getD t .idle = .putWaiting v to → (step s (.wake t false)).isSome ∧
        ((step s (.wake t true)).isSome ↔ to ≠ .forever)) ∧
    (s.pcs.getD t .idle = .getWaiting to → (step s (.wake t false)).isSome ∧
        ((step s (.wake t true)).isSome ↔ to ≠ .forever)) := by
  constructor <;> intro h <;> unfold step <;> simp only [h] <;> cases to <;> simp

/-! ## non-vacuity: a concrete schedule -/
example : (runAll (initSys 1 [.putStart 7 .forever, .putStart 8 .forever, .getStart .forever])
    [.run 0, .run 1, .run 2, .wake 1 false, .run 1]).map (fun s => (s.items, s.getLog, s.pcs)) =
    some ([8], [7], [.done true none, .done true none, .done true (some 7)]) := by decide

end M17.C16

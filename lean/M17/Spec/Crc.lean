/-
M17 CRC-16 as the specification states it: polynomial 0x5935, initial value 0xFFFF, message bits
MSB first, no reflection, no final XOR — the textbook direct (non-augmented) bit-serial form.
-/
namespace M17.Spec

def crcPoly : Nat := 0x5935
def crcInit : Nat := 0xFFFF

/-- direct-form register step: shift left; xor the polynomial when (msb ≠ message bit) -/
def crcStep (r : Nat) (b : Bool) : Nat :=
  (2 * r % 65536) ^^^ (if (decide (32768 ≤ r)) != b then crcPoly else 0)

/-- the 8 bits of a byte, MSB first -/
def byteBits (b : Nat) : List Bool := (List.range 8).map fun i => (b >>> (7 - i)) % 2 = 1

def bytesBits (bs : List Nat) : List Bool := bs.flatMap byteBits

/-- CRC register after the message bits, starting from `r0` -/
def crcBitsFrom (r0 : Nat) (bits : List Bool) : Nat := bits.foldl crcStep r0

def crcBits (bits : List Bool) : Nat := crcBitsFrom crcInit bits

/-- the M17 CRC of a byte string -/
def crc16 (bytes : List Nat) : Nat := crcBits (bytesBits bytes)

/-- the two CRC bytes, big-endian, as appended to an LSF -/
def crcBytes (bytes : List Nat) : List Nat := [crc16 bytes / 256, crc16 bytes % 256]

end M17.Spec

/-
M17 specification: convolutional code and puncture matrices.
-/
namespace M17.Spec

/-- P1 (LSF): 61 entries, zero at positions 2, 6, 10, ..., 58 -/
def p1 : List Nat := (List.range 61).map fun i => if i % 4 = 2 then 0 else 1
/-- P2 (stream / BERT): rate 11/12 -/
def p2 : List Nat := [1, 1, 1, 1, 1, 1, 1, 1, 1, 1, 1, 0]
/-- P3 (packet): rate 7/8 -/
def p3 : List Nat := [1, 1, 1, 1, 1, 1, 1, 0]

/-- generator polynomials G1 = 1 + D^3 + D^4 (031 octal), G2 = 1 + D + D^2 + D^4 (027 octal), K = 5 -/
def convPolys : List Nat := [0o31, 0o27]

end M17.Spec

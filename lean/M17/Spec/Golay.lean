/-
M17 specification, Golay(24,12): written from the specification's generator table, independently of
the repository.  `golay24 d` = data (12 bits) ‖ check bits (12 bits, the last one making overall
parity even).
-/
namespace M17.Spec

/-- check bits contributed by data bit `i` (LSB first) -/
def golayRows : List Nat :=
  [0x8eb, 0x93e, 0xa97, 0xdc6, 0x367, 0x6cd, 0xd99, 0x3da, 0x7b4, 0xf68, 0x63b, 0xc75]

def golayCheck (d : Nat) : Nat :=
  (List.range 12).foldl (fun acc i => if d.testBit i then acc ^^^ golayRows.getD i 0 else acc) 0

/-- the (24,12) codeword of a 12-bit data word -/
def golay24 (d : Nat) : Nat := ((d % 4096) <<< 12) ||| golayCheck d

/-- generator polynomial of the cyclic (23,12) code, x^11+x^10+x^6+x^5+x^4+x^2+1 -/
def golayPoly : Nat := 0xC75

end M17.Spec

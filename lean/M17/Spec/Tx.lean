/-
The M17 transmit chain written from the specification (DESIGN.md Appendix A), independent of the repository:
callsign → LSF → convolutional code → puncture → interleave → randomize → frames → the complete stream.
All functions are executable; the driver exposes them as `spec_*` operations.
-/
import M17.Spec.Crc
import M17.Spec.Conv
import M17.Spec.Cond
import M17.Spec.Golay
import M17.Spec.Fec

namespace M17.Spec.Tx

def bitsOfBytes (bs : List Nat) : List Bool := bs.flatMap byteBits

def byteOfBits (bits : List Bool) : Nat := (bits ++ List.replicate (8 - bits.length) false).foldl (fun v b => 2 * v + b.toNat) 0

/-- pack bits MSB first, zero padding the last byte -/
def bytesOfBits (bits : List Bool) : List Nat :=
  (List.range ((bits.length + 7) / 8)).map fun k => byteOfBits ((bits.drop (8 * k)).take 8)

def alphabet : List Char := " ABCDEFGHIJKLMNOPQRSTUVWXYZ0123456789-/.".toList

/-- base-40 address of a callsign (characters as codes), little-endian digits; empty = broadcast -/
def callsign (cs : List Nat) : List Nat :=
  if cs.isEmpty then List.replicate 6 255 else
  let v := cs.reverse.foldl (fun acc c => acc * 40 + (alphabet.findIdx (fun a => a.toNat == c))) 0
  (List.range 6).map fun i => v / 256 ^ (5 - i) % 256

/-- LSF: DST, SRC, TYPE (16 bits), META (14 bytes), CRC -/
def lsfBytes (dst src : List Nat) (typ : Nat) (metaB : List Nat) : List Nat :=
  let body := callsign dst ++ callsign src ++ [typ / 256 % 256, typ % 256] ++ metaB
  body ++ crcBytes body

/-- stream TYPE for voice with channel access number `can` -/
def voiceType (can : Nat) : Nat := 0x0005 + 128 * can

def punct (p : List Nat) (bits : List Bool) (n : Nat) : List Bool :=
  ((bits.zipIdx.filter fun (_, i) => p.getD (i % p.length) 0 != 0).map Prod.fst).take n

def ileave (bits : List Bool) : List Bool :=
  (List.range 368).foldl (fun out i => out.set (ileaveIndex i) (bits.getD i false)) (List.replicate 368 false)

def rnd (bits : List Bool) : List Bool := List.zipWith (· != ·) bits (bitsOfBytes randDC)

def wordBits (w n : Nat) : List Bool := (List.range n).map fun i => (w >>> (n - 1 - i)) % 2 = 1

/-- LICH: 5 LSF bytes + (fragment number << 5), as four Golay(24,12) words -/
def lichBits (lsf : List Nat) (n : Nat) : List Bool :=
  let seg := (lsf.drop (5 * (n % 6))).take 5 ++ [(n % 8) * 32]
  let b := bitsOfBytes seg
  (List.range 4).flatMap fun k =>
    let d := ((b.drop (12 * k)).take 12).foldl (fun v x => 2 * v + x.toNat) 0
    wordBits (golay24 d) 24

def lsfSync : List Nat := [0x55, 0xF7]
def streamSync : List Nat := [0xFF, 0x5D]
def bertSync : List Nat := [0xDF, 0x55]
def eotMarker : List Nat := [0x55, 0x5D]
def preamble : List Nat := List.replicate 48 0x77

/-- the 368 channel bits of a link setup frame (after the sync word) -/
def lsfFrameBits (lsf : List Nat) : List Bool := rnd (ileave (punct p1 (convEncode (bitsOfBytes lsf)) 368))

/-- the 368 channel bits of a stream frame: LICH fragment `lichN` of `lsf` (96 bits) and the coded 18 data bytes (272 bits) -/
def streamFrameBits (lsf : List Nat) (lichN : Nat) (data : List Nat) : List Bool :=
  rnd (ileave (lichBits lsf lichN ++ punct p2 (convEncode (bitsOfBytes data)) 272))

/-- the 368 channel bits of a packet frame carrying 206 bits (25 bytes, EOF flag, 5-bit counter) -/
def packetFrameBits (bits : List Bool) : List Bool := rnd (ileave (punct p3 (convEncode bits) 368))

/-- the 368 channel bits of a BERT frame carrying 197 bits -/
def bertFrameBits (bits : List Bool) : List Bool := rnd (ileave (punct p2 (convEncode bits) 368))

def lsfFrame (lsf : List Nat) : List Nat := lsfSync ++ bytesOfBits (lsfFrameBits lsf)

def streamFrame (lsf : List Nat) (lichN fn : Nat) (payload : List Nat) : List Nat :=
  streamSync ++ bytesOfBits (streamFrameBits lsf lichN ([fn / 256 % 256, fn % 256] ++ payload))

def packetSync : List Nat := [0x75, 0xFF]

def packetFrame (bits : List Bool) : List Nat := packetSync ++ bytesOfBits (packetFrameBits bits)

def bertFrame (bits : List Bool) : List Nat := bertSync ++ bytesOfBits (bertFrameBits bits)

/-- the frames of a stream: payload k gets frame number k (mod 0x8000) and LICH fragment k mod 6; the last one carries
    the end-of-stream bit -/
def streamFrames (lsf : List Nat) (payloads : List (List Nat)) : List (List Nat) :=
  payloads.zipIdx.map fun (p, k) =>
    let fn := k % 0x8000 + (if k + 1 = payloads.length then 0x8000 else 0)
    streamFrame lsf (k % 6) fn p

/-- the complete bitstream of one transmission as m17-mod emits it (this program ends with one EOT marker followed by
    ten zero flush bytes) -/
def stream (src dst : List Nat) (can : Nat) (payloads : List (List Nat)) : List Nat :=
  let lsf := lsfBytes dst src (voiceType can) (List.replicate 14 0)
  preamble ++ lsfFrame lsf ++ (streamFrames lsf payloads).flatten ++ eotMarker ++ List.replicate 10 0

end M17.Spec.Tx

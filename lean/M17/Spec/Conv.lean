/-
M17 specification: rate-1/2, K=5 convolutional encoder, G1 = 1 + D^3 + D^4 (031), G2 = 1 + D + D^2 + D^4 (027).
The encoder state is the last four input bits (newest in the least significant position).
-/
import M17.Spec.Fec

namespace M17.Spec

def parityNat (x : Nat) : Bool := (List.range 5).foldl (fun acc i => acc != x.testBit i) false

/-- the two output bits for state `s` (4 bits) and input bit `b` -/
def convOut (s : Nat) (b : Bool) : Bool × Bool :=
  let m := (2 * s + b.toNat) % 32
  (parityNat (m &&& 0o31), parityNat (m &&& 0o27))

def convNext (s : Nat) (b : Bool) : Nat := (2 * s + b.toNat) % 16

/-- encoder output (pairs) for input bits `u` from state `s` -/
def convFrom : Nat → List Bool → List (Bool × Bool)
  | _, [] => []
  | s, b :: u => convOut s b :: convFrom (convNext s b) u

/-- `convEncode u`: the coded bit stream of `u` followed by four flush zeros, from the zero state -/
def convEncode (u : List Bool) : List Bool :=
  (convFrom 0 (u ++ [false, false, false, false])).flatMap fun p => [p.1, p.2]

end M17.Spec

/-
The documented state machine of the frame decoder (doc comment of `M17FrameDecoder::operator()` and the
statement of property C08), over abstract observations of the received frame.
-/
namespace M17.Spec.SM

inductive Mode | lsf | stream | basicPacket | fullPacket | bert deriving DecidableEq, Repr
inductive Sync | lsf | stream | packet | bert deriving DecidableEq, Repr
inductive Result | fail | ok | eos | incomplete | packetIncomplete deriving DecidableEq, Repr
inductive Kind | lsf | lich | stream | basicPacket | fullPacket | bert deriving DecidableEq, Repr

/-- what the state machine needs to know about a frame -/
structure Obs where
  lsfCrcOk : Bool        -- LSF-sync frame: the 30 decoded bytes pass the CRC
  isStream : Bool        -- TYPE bit 0 (1 = stream, 0 = packet)
  voiceBit : Bool        -- TYPE bit 2 (set for voice and voice+data streams)
  rawPacket : Bool       -- packet type field = 1 (RAW)
  golayOk : Bool         -- all four LICH Golay words accepted
  fragInRange : Bool     -- LICH fragment number ≤ 5
  allSix : Bool          -- all six LICH positions held after storing this fragment
  lichCrcOk : Bool       -- the reassembled 30 bytes pass the CRC
  eof : Bool             -- packet EOF bit
  cb : Bool              -- value returned by the user's callback

/-- mode after the frame, return code, and the kinds of the callbacks made, in order -/
def step (m : Mode) (s : Sync) (o : Obs) : Mode × Result × List Kind :=
  match s with
  | .lsf =>                                   -- LSF sync always restarts link setup
    if o.lsfCrcOk then
      let m' := if o.isStream then (if o.voiceBit then Mode.stream else Mode.lsf)
                else (if o.rawPacket then Mode.basicPacket else Mode.fullPacket)
      (m', .ok, [.lsf])
    else (.lsf, .fail, [])
  | .stream =>
    match m with
    | .lsf =>                                 -- waiting for link setup: collect LICH
      if !o.golayOk then (.lsf, .fail, [])
      else if !o.fragInRange then (.lsf, .incomplete, [.lich])
      else if !o.allSix then (.lsf, .incomplete, [.lich])
      else if o.lichCrcOk then (.stream, .ok, [.lich, .lsf])
      else (.lsf, .incomplete, [.lich])
    | .stream => (.stream, .ok, [.stream])   -- payload decoding
    | _ => (.lsf, .fail, [])                  -- not valid in this mode
  | .packet =>
    match m with
    | .basicPacket => if o.eof then (.lsf, if o.cb then .ok else .fail, [.basicPacket]) else (.basicPacket, .packetIncomplete, [.basicPacket])
    | .fullPacket => if o.eof then (.lsf, if o.cb then .ok else .fail, [.fullPacket]) else (.fullPacket, .packetIncomplete, [.fullPacket])
    | _ => (.lsf, .fail, [])
  | .bert => (.bert, .ok, [.bert])            -- BERT sync always decodes BERT

end M17.Spec.SM

/-
Model of `llr<FloatType, LLR>(sample)` (include/m17cxx/Util.h:128-145).
A finite floating-point value is represented exactly by the integer number of units of 2^-1074 it holds (every
finite `float` and `double` is such an integer); comparisons of finite IEEE values are exact, so only integer
comparison is needed.  Tables (`make_llr_map`) come from `M17.Gen.Llr`, dumped from the compiled constexpr objects.
-/
import M17.Gen.Llr

namespace M17.Llr

inductive FVal | nan | fin (n : Int)
  deriving DecidableEq, Repr

/-- one unit = 2^-1074 -/
def three : Int := 3 * 2 ^ 1074
def unit (x : Int) : Int := x * 2 ^ 1074

/-- `std::min(MAX_VALUE, std::max(MIN_VALUE, sample))`: `max(a,b) = (a < b) ? b : a`, `min(a,b) = (b < a) ? b : a`;
    every comparison with NaN is false, so NaN becomes MIN_VALUE = -3.  ±∞ are `fin` values beyond ±3. -/
def clamp : FVal → Int
  | .nan => -three
  | .fin n => let m := if -three < n then n else -three; if m < three then m else three

/-- `std::lower_bound(map, s, key < s)`: first entry whose threshold is not less than `s`; past the end → last entry.
    Carries the previous threshold and whether the entry is the last one, for the proofs. -/
def lookupP : Option Int → List (Int × Int × Int) → Int → Option (Option Int × (Int × Int × Int) × Bool)
  | _, [], _ => none
  | lo, [e], _ => some (lo, e, true)
  | lo, e :: e' :: rest, s => if s ≤ e.1 then some (lo, e, false) else lookupP (some e.1) (e' :: rest) s

/-- `llr(sample)`: the pair (first soft bit, second soft bit) -/
def llr (tbl : List (Int × Int × Int)) (v : FVal) : Int × Int :=
  match lookupP none tbl (clamp v) with
  | some (_, e, _) => (e.2.1, e.2.2)
  | none => (0, 0)

/-- IEEE-754 binary64 bit pattern → value -/
def ofDoubleBits (b : Nat) : FVal :=
  let sign : Nat := b / 2 ^ 63 % 2
  let e : Nat := b / 2 ^ 52 % 2048
  let m : Nat := b % 2 ^ 52
  if e = 2047 then (if m = 0 then .fin (if sign = 1 then -(2 ^ 2200 : Int) else (2 ^ 2200 : Int)) else .nan)
  else
    let mag : Int := if e = 0 then Int.ofNat m else Int.ofNat (2 ^ 52 + m) * 2 ^ (e - 1)
    .fin (if sign = 1 then -mag else mag)

/-- IEEE-754 binary32 bit pattern → value -/
def ofFloatBits (b : Nat) : FVal :=
  let sign : Nat := b / 2 ^ 31 % 2
  let e : Nat := b / 2 ^ 23 % 256
  let m : Nat := b % 2 ^ 23
  if e = 255 then (if m = 0 then .fin (if sign = 1 then -(2 ^ 2200 : Int) else (2 ^ 2200 : Int)) else .nan)
  else
    let mag : Int := if e = 0 then Int.ofNat m * 2 ^ (1074 - 149) else Int.ofNat (2 ^ 23 + m) * 2 ^ (e + 1074 - 150)
    .fin (if sign = 1 then -mag else mag)

def table (isDouble : Bool) (width : Nat) : List (Int × Int × Int) :=
  match isDouble, width with
  | false, 2 => Gen.llrF2 | false, 3 => Gen.llrF3 | false, 4 => Gen.llrF4
  | true, 2 => Gen.llrD2 | true, 3 => Gen.llrD3 | true, 4 => Gen.llrD4
  | _, _ => []

end M17.Llr

/-
Model of `DataCarrierDetect::update / unlock / dcd` (include/m17cxx/DataCarrierDetect.h).

The arithmetic is a parameter (`Ops`): the driver executes the model at `Float32` (with the C++ expression's
promotion to double) for the bit-exact correspondence, and the theorems are about the same function at `Ext`,
exact rational arithmetic extended with the IEEE special values the property is about (0/0 = NaN, x/0 = ±inf,
NaN absorbing, comparisons with NaN false).  Rounding is NOT modelled in `Ext` (stated in the trusted base).
-/
namespace M17.Dcd

structure Ops (α : Type) where
  zero  : α
  /-- `level * 0.8 + 0.2 * ratio` -/
  blend : α → α → α
  div   : α → α → α
  /-- IEEE `>` (false when either side is NaN) -/
  gt    : α → α → Bool

structure State (α : Type) where
  level : α
  triggered : Bool

/-- `update()` of the current tree: the ratio is formed only when the out-of-band energy is positive -/
def update {α} (o : Ops α) (lo hi : α) (s : State α) (l1 l2 : α) : State α :=
  let ratio := if o.gt l2 o.zero then o.div l1 l2 else o.zero
  let level := o.blend s.level ratio
  { level := level, triggered := if s.triggered then o.gt level lo else o.gt level hi }

/-- `update()` as it was at the pinned commit (no guard): kept to state what the guard is for -/
def updateUnguarded {α} (o : Ops α) (lo hi : α) (s : State α) (l1 l2 : α) : State α :=
  let level := o.blend s.level (o.div l1 l2)
  { level := level, triggered := if s.triggered then o.gt level lo else o.gt level hi }

def unlock {α} (s : State α) : State α := { s with triggered := false }

def run {α} (o : Ops α) (lo hi : α) (s : State α) (xs : List (α × α)) : State α :=
  xs.foldl (fun s p => update o lo hi s p.1 p.2) s

/-! ### extended rationals -/

inductive Ext where
  | fin (q : Rat)
  | pinf
  | ninf
  | nan
  deriving DecidableEq, Repr

namespace Ext

def scale (c : Rat) : Ext → Ext       -- multiplication by a positive finite constant
  | fin q => fin (c * q)
  | e => e

def add : Ext → Ext → Ext
  | fin a, fin b => fin (a + b)
  | nan, _ => nan
  | _, nan => nan
  | pinf, ninf => nan
  | ninf, pinf => nan
  | pinf, _ => pinf
  | _, pinf => pinf
  | ninf, _ => ninf
  | _, ninf => ninf

def div : Ext → Ext → Ext
  | fin a, fin b => if b = 0 then (if a = 0 then nan else if a > 0 then pinf else ninf) else fin (a / b)
  | nan, _ => nan
  | _, nan => nan
  | fin _, _ => fin 0
  | pinf, fin b => if b ≥ 0 then pinf else ninf
  | ninf, fin b => if b ≥ 0 then ninf else pinf
  | _, _ => nan

def gt : Ext → Ext → Bool
  | fin a, fin b => decide (a > b)
  | nan, _ => false
  | _, nan => false
  | pinf, pinf => false
  | pinf, _ => true
  | _, ninf => true
  | _, _ => false

def ops : Ops Ext :=
  { zero := fin 0, blend := fun l r => add (scale (4 / 5) l) (scale (1 / 5) r), div := div, gt := gt }

end Ext

/-! ### binary32 with the C++ expression's promotion to double -/

def f32ops : Ops Float32 :=
  { zero := 0
    blend := fun l r => (l.toFloat * 0.8 + 0.2 * r.toFloat).toFloat32
    div := fun a b => a / b
    gt := fun a b => decide (a > b) }

end M17.Dcd

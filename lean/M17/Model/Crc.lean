/-
Model of include/m17cxx/CRC16.h (`CRC16<Poly, Init>` as instantiated by the frame decoder and the
transmitters).  `uint16_t` arithmetic is modelled in `Nat` with the `& MASK` of the code as `% 65536`.
Poly and Init come from `M17.Gen.Crc` (template arguments of the decoder's `crc_` member).
-/
import M17.Gen.Crc

namespace M17.Crc

def poly : Nat := Gen.crcPoly
def init : Nat := Gen.crcInit

def iter (f : Nat → Nat) : Nat → Nat → Nat
  | 0, x => x
  | n+1, x => iter f n (f x)

/-- one round of `reset()`'s loop: `bit = reg & 1; if (bit) reg ^= Poly; reg >>= 1; if (bit) reg |= MSB;` -/
def resetStep (p r : Nat) : Nat :=
  if r % 2 = 1 then ((r ^^^ p) / 2) ||| 0x8000 else r / 2

/-- `reset()`: value of `reg_` afterwards -/
def reset : Nat := iter (resetStep poly) 16 init % 65536

/-- one round of `crc(byte, reg)` / `get()`:
    `msb = reg & MSB; reg = ((reg << 1) & MASK) | bit; if (msb) reg ^= Poly;` -/
def stepP (p r : Nat) (bit : Bool) : Nat :=
  let r' := ((2 * r) % 65536) ||| (if bit then 1 else 0)
  if 0x8000 ≤ r % 65536 then r' ^^^ p else r'

def step (r : Nat) (bit : Bool) : Nat := stepP poly r bit

/-- `crc(byte, reg)`: the 8 message bits MSB first, then `& MASK` -/
def update (r : Nat) (byte : Nat) : Nat :=
  ((List.range 8).foldl (fun r i => step r ((byte >>> (7 - i)) % 2 = 1)) r) % 65536

/-- `get()`: 16 more rounds with zero message bits -/
def get (r : Nat) : Nat := iter (fun r => step r false) 16 r

/-- `reset(); for (c : bytes) crc_(c); get()` -/
def crc (bytes : List Nat) : Nat := get (bytes.foldl update reset)

/-- `get_bytes()` -/
def getBytes (r : Nat) : List Nat := let c := get r; [(c >>> 8) % 256, c % 256]

end M17.Crc

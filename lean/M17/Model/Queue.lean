/-
Model of `mobilinkd::queue<T, SIZE>` (include/m17cxx/queue.h).

Two layers:
* `BQ` — the sequential bounded FIFO with OPEN / CLOSING / CLOSED states that each critical section of the code
  implements (what one call does when nothing else interleaves);
* `Sys` — any number of threads, each executing calls split at exactly the points where the code releases the mutex
  (`wait`, `wait_until`, `wait_for`, return).  A scheduler choice runs one lock-held segment of one thread, or lets a
  condition-variable wait return (notification, time-out when the call has a finite deadline, or spuriously —
  `std::condition_variable` permits all three, so wake-ups are always enabled and notifications need no bookkeeping
  for safety properties).

Time-outs are `forever | zero | finite`: with the default argument (`duration::max()`) the repaired code waits
without a deadline, so a `forever` wait can never time out.
-/
namespace M17.Q

inductive St | opn | closing | closed deriving DecidableEq, Repr

inductive Timeout | forever | zero | finite deriving DecidableEq, Repr

/-- what a thread is doing; program counters are the lock-held segments of queue.h -/
inductive Pc
  | idle
  | putStart (v : Nat) (to : Timeout)        -- about to take the mutex in put()
  | putWaiting (v : Nat) (to : Timeout)      -- inside full_.wait / wait_until (mutex released)
  | putWoken (v : Nat) (to : Timeout) (timedOut : Bool)
  | getStart (to : Timeout)
  | getWaiting (to : Timeout)
  | getWoken (to : Timeout) (timedOut : Bool)
  | closeStart
  | queryStart (which : Nat)                  -- 0 is_open, 1 is_closed, 2 size, 3 empty
  | done (ok : Bool) (val : Option Nat)
  deriving DecidableEq, Repr

structure Sys where
  cap : Nat
  items : List Nat
  size : Nat
  st : St
  pcs : List Pc              -- one per thread
  putLog : List Nat          -- ghost: values in the order their put() critical section succeeded
  getLog : List Nat          -- ghost: values in the order they were handed to a get()
  deriving Repr

inductive Choice
  | run (t : Nat)                      -- execute thread t's next lock-held segment
  | wake (t : Nat) (timedOut : Bool)   -- the condition-variable wait of thread t returns

def setPc (s : Sys) (t : Nat) (p : Pc) : Sys := { s with pcs := s.pcs.set t p }

/-- the body of put() from the point where the mutex is held and the queue has been seen not full -/
def putTail (s : Sys) (t : Nat) (v : Nat) : Sys :=
  if s.st ≠ .opn then setPc s t (.done false none)
  else { setPc s t (.done true none) with items := s.items ++ [v], size := s.size + 1, putLog := s.putLog ++ [v] }

/-- the body of get() once the queue is seen non-empty -/
def getTail (s : Sys) (t : Nat) (x : Nat) (xs : List Nat) : Sys :=
  let st' := if s.st = .closing ∧ xs = [] then St.closed else s.st
  { setPc s t (.done true (some x)) with items := xs, size := s.size - 1, st := st', getLog := s.getLog ++ [x] }

def step (s : Sys) : Choice → Option Sys
  | .wake t timedOut =>
    match s.pcs.getD t .idle with
    | .putWaiting v to => if timedOut && to == .forever then none else some (setPc s t (.putWoken v to timedOut))
    | .getWaiting to => if timedOut && to == .forever then none else some (setPc s t (.getWoken to timedOut))
    | _ => none
  | .run t =>
    match s.pcs.getD t .idle with
    | .putStart v to =>
      if s.size = s.cap then
        if to == .zero then some (setPc s t (.done false none))
        else if s.st ≠ .opn then some (setPc s t (.done false none))
        else some (setPc s t (.putWaiting v to))
      else some (putTail s t v)
    | .putWoken v to timedOut =>
      -- `forever` waits use wait() without a deadline: a time-out outcome exists only for finite time-outs
      if timedOut && to != .forever then some (setPc s t (.done false none))
      else if s.size = s.cap then
        if s.st ≠ .opn then some (setPc s t (.done false none)) else some (setPc s t (.putWaiting v to))
      else some (putTail s t v)
    | .getStart to =>
      match s.items with
      | [] => if s.st = .closed then some (setPc s t (.done false none)) else some (setPc s t (.getWaiting to))
      | x :: xs => some (getTail s t x xs)
    | .getWoken to timedOut =>
      if timedOut && to != .forever then some (setPc s t (.done false none)) else
      match s.items with
      | [] => if s.st = .closed then some (setPc s t (.done false none)) else some (setPc s t (.getWaiting to))
      | x :: xs => some (getTail s t x xs)
    | .closeStart =>
      some { setPc s t (.done true none) with st := if s.items = [] then .closed else .closing }
    | .queryStart w =>
      let r := match w with
        | 0 => decide (s.st = .opn) | 1 => decide (s.st = .closed) | 2 => true | _ => decide (s.size = 0)
      some (setPc s t (.done r (if w = 2 then some s.size else none)))
    | _ => none

def runAll (s : Sys) : List Choice → Option Sys
  | [] => some s
  | c :: cs => (step s c).bind (fun s' => runAll s' cs)

/-! ### sequential specification (one call at a time, nothing blocks) -/

structure BQ where
  cap : Nat
  items : List Nat
  st : St
  deriving DecidableEq, Repr

inductive Op | put (v : Nat) | get | close | isOpen | isClosed | size | empty deriving DecidableEq, Repr

/-- result of a call that does not have to wait; `none` = the call would block (queue full / empty and open) -/
def BQ.apply (q : BQ) : Op → Option (BQ × Bool × Option Nat)
  | .put v =>
    if q.items.length = q.cap then (if q.st ≠ .opn then some (q, false, none) else none)
    else if q.st ≠ .opn then some (q, false, none)
    else some ({ q with items := q.items ++ [v] }, true, none)
  | .get =>
    match q.items with
    | [] => if q.st = .closed then some (q, false, none) else none
    | x :: xs => some ({ q with items := xs, st := if q.st = .closing ∧ xs = [] then .closed else q.st }, true, some x)
  | .close => some ({ q with st := if q.items = [] then .closed else .closing }, true, none)
  | .isOpen => some (q, decide (q.st = .opn), none)
  | .isClosed => some (q, decide (q.st = .closed), none)
  | .size => some (q, true, some q.items.length)
  | .empty => some (q, decide (q.items.length = 0), none)

end M17.Q

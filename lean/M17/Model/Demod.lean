/-
Control skeleton of `M17Demodulator::operator()` (include/m17cxx/M17Demodulator.h): the sync/frame state machine,
its counters, the symbol-sampling schedule and the framer fill index.  Everything analog — correlator triggers,
carrier-detect decisions, clock-recovery estimates, Viterbi cost, decoder state — enters as an event record `Ev`
chosen by the environment, so a statement proved for all event sequences holds whatever the signal does.
The correspondence check replays observed traces of the real demodulator's public members and searches, per sample,
for an event record under which `step` reproduces the observed next state (trace inclusion).
-/
import M17.Gen.Taps

namespace M17.Demod

/-- DemodState codes: 0 UNLOCKED 1 LSF_SYNC 2 STREAM_SYNC 3 PACKET_SYNC 4 BERT_SYNC 5 SYNC_WAIT 6 FRAME;
    sync word types: 0 LSF 1 STREAM 2 PACKET 3 BERT; decoder states: 0 LSF 1 STREAM 2 BASIC_PACKET 3 FULL_PACKET 4 BERT -/
structure St where
  st : Nat
  sc : Nat          -- sync_count
  msc : Nat         -- missing_sync_count
  si : Nat          -- sample_index
  ssi : Nat         -- sync_sample_index
  ci : Nat          -- correlator.index()
  dcd : Bool        -- dcd_
  ncr : Bool        -- need_clock_reset_
  ncu : Bool        -- need_clock_update_
  cnt : Nat         -- count_
  fi : Nat          -- framer.index_
  swt : Nat         -- sync_word_type
  cost : Nat        -- viterbi_cost
  eot : Bool        -- function-local static eot_flag (not observable)
  frames : Nat      -- ghost: frames handed to the decoder so far
  deriving DecidableEq, Repr, Inhabited

structure Ev where
  det : Bool := true        -- dcd.dcd() when update_dcd() runs
  preUpd : Bool := false    -- preamble_sync(correlator); updated()
  preIdx : Nat := 0
  lsfUpd : Int := 0         -- lsf_sync(correlator); updated()
  lsfIdx : Nat := 0
  pktUpd : Int := 0         -- packet_sync(correlator); updated()
  pktIdx : Nat := 0
  preTrig : Bool := false   -- preamble_sync.triggered() > 0.1
  lsfTrig : Int := 0        -- sign of lsf_sync.triggered() when |.| > 0.1
  bertTrig : Bool := false  -- packet_sync.triggered() < 0
  eotTrig : Bool := false   -- eot_sync.triggered() > EOT_TRIGGER_LEVEL
  clkIdx : Nat := 0         -- clock_recovery.sample_index() after update()
  decState : Nat := 1       -- decoder.state() after a frame
  cost : Nat := 0           -- viterbi_cost after a frame

def MINS : Nat := Gen.demodMinSyncCount
def MAXS : Nat := Gen.demodMaxSyncCount
def MAXMISS : Nat := Gen.demodMaxMissingSync
def SCOST : Nat := Gen.demodStreamCostLimit
def PCOST : Nat := Gen.demodPacketCostLimit
def BLK : Nat := Gen.demodBlockSize

def init : St :=
  { st := 0, sc := 0, msc := 0, si := 0, ssi := 0, ci := 0, dcd := false, ncr := false, ncu := false, cnt := 0, fi := 0,
    swt := 0, cost := 0, eot := false, frames := 0 }

/-- `update_dcd()` -/
def updateDcd (s : St) (det : Bool) : St :=
  if !s.dcd && det then
    -- dcd_on(); need_clock_reset_ = true
    let s := { s with dcd := true }
    let s := if s.st = 0 then { s with sc := 0, msc := 0, fi := 0 } else s
    { s with ncr := true }
  else if s.dcd && !det then
    { s with st := 0, dcd := false }       -- dcd_off()
  else s

def doUnlocked (s : St) (e : Ev) : St :=
  if s.msc < 1920 then
    let s := { s with msc := s.msc + 1 }
    if e.preUpd then { s with sc := 0, msc := 0, ncr := true, si := e.preIdx, ssi := e.preIdx, st := 1 } else s
  else
    let s := if e.lsfUpd ≠ 0 then
        { s with sc := MAXS, msc := 0, ncr := true, si := e.lsfIdx, ssi := e.lsfIdx, st := 6, swt := if e.lsfUpd < 0 then 1 else 0 }
      else s
    if e.pktUpd < 0 then
      { s with sc := MAXS, msc := 0, ncr := true, si := e.pktIdx, ssi := e.pktIdx, st := 6, swt := 3 }
    else s

def doLsfSync (s : St) (e : Ev) : St :=
  if s.ci = s.si then
    if e.preTrig then { s with ncu := true, sc := s.sc + 1 }
    else if e.bertTrig then { s with msc := 0, sc := MAXS, ncu := true, ssi := s.si, st := 6, swt := 3 }
    else if e.lsfTrig ≠ 0 then { s with msc := 0, sc := MAXS, ncu := true, ssi := s.si, st := 6, swt := if e.lsfTrig > 0 then 0 else 1 }
    else if s.msc + 1 > 192 then
      (if s.sc ≥ 10 then { s with msc := 0, ncu := true } else { s with sc := 0, st := 0, msc := 0 })
    else { s with msc := s.msc + 1, ssi := s.si }
  else s

def doStreamSync (s : St) (e : Ev) : St :=
  let s := { s with sc := s.sc + 1 }
  if s.sc < MINS then s
  else if e.eotTrig then { s with swt := 1, st := 6, eot := true, msc := 0 }
  else if e.lsfUpd < 0 then
    -- a sync word confirms the lock only if the last frame decoded below the cost limit
    if s.cost < SCOST then { s with msc := 0, ssi := e.lsfIdx, swt := 1, st := 5, eot := false }
    else if s.msc < MAXMISS then { s with msc := s.msc + 1, ssi := e.lsfIdx, swt := 1, st := 5, eot := false }
    else { s with st := 0, eot := false }
  else if s.sc > MAXS then
    let s' :=
      if s.cost < SCOST ∧ s.msc < MAXMISS then { s with msc := s.msc + 1, swt := 1, st := 6 }
      else if s.eot then { s with st := 0 }
      else if s.msc < MAXMISS then { s with msc := s.msc + 1, swt := 1, st := 6 }
      else { s with st := 0 }
    { s' with eot := false }
  else s

/-- `do_packet_sync` (`bert = false`) and `do_bert_sync` (`bert = true`) -/
def doPacketSync (bert : Bool) (s : St) (e : Ev) : St :=
  let s := { s with sc := s.sc + 1 }
  if s.sc < MINS then s
  else if (if bert then e.pktUpd < 0 else e.pktUpd ≠ 0) then
    if s.cost < (if bert then SCOST else PCOST) then { s with msc := 0, ssi := e.pktIdx, swt := if bert then 3 else 2, st := 5 }
    else if s.msc < MAXMISS then { s with msc := s.msc + 1, ssi := e.pktIdx, swt := if bert then 3 else 2, st := 5 }
    else { s with st := 0 }
  else if s.sc > MAXS then
    if s.cost < (if bert then SCOST else PCOST) then { s with msc := if s.msc = 0 then 1 else s.msc, swt := if bert then 3 else 2, st := 6 }
    else if s.msc < MAXMISS then { s with msc := s.msc + 1, swt := if bert then 3 else 2, st := 6 }
    else { s with st := 0 }
  else s

def doSyncWait (s : St) : St :=
  if s.sc < MAXS then { s with sc := s.sc + 1 } else { s with ncu := true, st := 6 }

/-- |sample_index − correlator.index()| as the code computes it (plain integers) -/
def absDiff (a b : Nat) : Nat := if a ≥ b then a - b else b - a

def doFrame (s : St) (e : Ev) : St :=
  if absDiff s.si s.ci = 5 then { s with si := e.clkIdx }
  else if s.ci ≠ s.si then s
  else
    -- one symbol: two soft bits into the framer
    let fi := s.fi + 2
    if fi = 368 then
      { s with fi := 0, sc := 0, cost := e.cost, frames := s.frames + 1,
               st := if e.decState = 1 ∨ e.decState = 0 then 2 else if e.decState = 4 then 4 else 3 }
    else { s with fi := fi }

/-- true when this step takes a symbol into the framer -/
def isSymbol (s : St) : Bool := s.dcd && s.st = 6 && absDiff s.si ((s.ci + 1) % 10) ≠ 5 && (s.ci + 1) % 10 = s.si

/-- `count_++` -/
def tick (s : St) : St := { s with cnt := s.cnt + 1 }

def setCnt0 (s : St) : St := { s with cnt := 0 }

/-- `correlator.sample()` advances the index; at index 0 a pending clock reset / update is consumed -/
def advance (s : St) : St :=
  let s := { s with ci := (s.ci + 1) % 10 }
  if s.ci = 0 then (if s.ncr then { s with ncr := false, si := s.ssi } else if s.ncu then { s with ncu := false } else s) else s

/-- the `switch (demodState)` -/
def dispatch (s : St) (e : Ev) : St :=
  match s.st with
  | 0 => doUnlocked s e
  | 1 => doLsfSync s e
  | 2 => doStreamSync s e
  | 3 => doPacketSync false s e
  | 4 => doPacketSync true s e
  | 5 => doSyncWait s
  | 6 => doFrame s e
  | _ => s        -- not a DemodState

def step (s : St) (e : Ev) : St :=
  let s := tick s
  if s.dcd = false then
    if s.cnt % (BLK * 2) = 0 then setCnt0 (updateDcd s e.det) else s
  else
    let s := dispatch (advance s) e
    if s.cnt % (BLK * 5) = 0 then setCnt0 (updateDcd s e.det) else s

def run (s : St) (es : List Ev) : St := es.foldl step s

/-! ### trace inclusion (executed by the driver) -/

/-- observable projection: everything but the hidden static and the ghost counter -/
def obsEq (a b : St) : Bool :=
  a.st == b.st && a.sc == b.sc && a.msc == b.msc && a.si == b.si && a.ssi == b.ssi && a.ci == b.ci && a.dcd == b.dcd
    && a.ncr == b.ncr && a.ncu == b.ncu && a.cnt == b.cnt && a.fi == b.fi && a.swt == b.swt && a.cost == b.cost

/-- event records worth trying for an observed transition `pre → post` -/
def candidates (pre post : St) : List Ev :=
  let base : Ev := { clkIdx := post.si, cost := post.cost, preIdx := post.si, lsfIdx := post.ssi, pktIdx := post.ssi }
  [true, false].flatMap fun det =>
    let b := { base with det := det }
    if !pre.dcd then [b]
    else match pre.st with
      | 0 => [b, { b with preUpd := true }] ++
             ([-1, 0, 1].flatMap fun (l : Int) => [-1, 0, 1].map fun (p : Int) => { b with lsfUpd := l, pktUpd := p, lsfIdx := post.si, pktIdx := post.si })
      | 1 => [b, { b with preTrig := true }, { b with bertTrig := true }, { b with lsfTrig := 1 }, { b with lsfTrig := -1 }]
      | 2 => [b, { b with eotTrig := true }, { b with lsfUpd := -1 }, { b with lsfUpd := 1 }]
      | 3 => [b, { b with pktUpd := 1 }, { b with pktUpd := -1 }]
      | 4 => [b, { b with pktUpd := 1 }, { b with pktUpd := -1 }]
      | 5 => [b]
      | _ => [0, 1, 2, 3, 4].map fun d => { b with decState := d }

/-- advance the model along one observed transition; `none` when no event record explains it -/
def follow (m : St) (post : St) : Option St :=
  ((candidates m post).map (step m)).find? (obsEq post)

end M17.Demod

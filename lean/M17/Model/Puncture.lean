/-
Model of `puncture`, `puncture_bytes`, `depuncture`, `depunctured` of include/m17cxx/Util.h.
Puncture matrices come from `M17.Gen.Fec` (P1, P2, P3 of Trellis.h).
The output buffer of the in-place variants is modelled explicitly (`prev`), so that positions the
loop never writes keep their previous content, exactly as in the code.
-/
import M17.Gen.Fec
import M17.Model.Bytes

namespace M17.Punct
open M17.Bytes

/-- `p[pindex]` of a puncture matrix (0 = punctured) -/
def pAt (p : List Nat) (pi : Nat) : Bool := p.getD pi 0 != 0

/-- `pindex++ ; if (pindex == P) pindex = 0` -/
def nextP (p : List Nat) (pi : Nat) : Nat := if pi + 1 = p.length then 0 else pi + 1

/-- the kept values, in order, that `puncture` writes: loop `for (i = 0; i != IN && index != OUT; ++i)`.
    `room` = OUT - index. -/
def punctureGo (p : List Nat) : Nat → List α → Nat → List α
  | _, [], _ => []
  | _, _ :: _, 0 => []
  | pi, x :: xs, room+1 =>
    if pAt p pi then x :: punctureGo p (nextP p pi) xs room
    else punctureGo p (nextP p pi) xs (room + 1)

/-- `puncture(in, out, p)`: new content of `out` (previous content `prev`, length OUT) and return value -/
def puncture (p : List Nat) (xs : List α) (prev : List α) : List α × Nat :=
  let kept := punctureGo p 0 xs prev.length
  (kept ++ prev.drop kept.length, kept.length)

/-- `puncture_bytes(in, out, p)`: same loop through `get_bit_index` / `assign_bit_index` -/
def punctureBytes (p : List Nat) (inb : List Nat) (prev : List Nat) : List Nat × Nat :=
  let kept := punctureGo p 0 (unpack inb) (8 * prev.length)
  ((List.range kept.length).foldl (fun out i => assignBit out i (kept.getD i false)) prev, kept.length)

/-- `depuncture(in, out, p)` as repaired: `for (i = 0; i != OUT; ++i)`, a position is written 0 when it
    is punctured *or* the input is exhausted.  Returns the `OUT` values written and the erasure count. -/
def depunctureGo (p : List Nat) : Nat → List Int → Nat → List Int
  | _, _, 0 => []
  | pi, xs, n+1 =>
    if !pAt p pi then 0 :: depunctureGo p (nextP p pi) xs n
    else match xs with
      | [] => 0 :: depunctureGo p (nextP p pi) [] n
      | x :: xs' => x :: depunctureGo p (nextP p pi) xs' n

def depuncture (p : List Nat) (xs : List Int) (prev : List Int) : List Int :=
  depunctureGo p 0 xs prev.length

/-- the loop of the tree as pinned, `for (i = 0; i != OUT && index < IN; ++i)`: stops as soon as the
    input is used up and leaves the rest of `out` as it was — kept to document the defect. -/
def depunctureGoPinned (p : List Nat) : Nat → List Int → List Int → List Int
  | _, _, [] => []
  | _, [], prev => prev
  | pi, x :: xs, _ :: prev =>
    if !pAt p pi then 0 :: depunctureGoPinned p (nextP p pi) (x :: xs) prev
    else x :: depunctureGoPinned p (nextP p pi) xs prev

/-- `depunctured<M>(p, in)` (value-returning variant; reads `in[index]` unconditionally) -/
def depunctured (p : List Nat) (xs : List Int) (m : Nat) : List Int := depunctureGo p 0 xs m

end M17.Punct

/-
Model of `mobilinkd::ax25_frame::parse` (include/m17cxx/ax25_frame.h) as m17-demod's packet handler uses it: the frame is a byte list;
every `substr` / `operator[]` / iterator range the parser forms is recorded as an access `(offset, length)` so that "no out-of-bounds
access" is a statement about the model.  Strings are byte lists.
-/
namespace M17.Ax25

structure Parsed where
  dest : List Nat          -- destination_ after fixup_address
  src : List Nat
  reps : List (List Nat)   -- repeaters_ after fixup_address
  ftype : Nat              -- 0 UNDEFINED, 1 INFORMATION, 2 SUPERVISORY, 3 UNNUMBERED
  pid : Option Nat
  info : List Nat
  accesses : List (Nat × Nat)   -- (offset, length) of every substr / index / iterator range formed
  deriving Repr, DecidableEq

/-- decimal digits of a small number (`std::to_string(ssid)`, ssid ≤ 15) -/
def decimal (n : Nat) : List Nat := if n < 10 then [48 + n] else [48 + n / 10, 48 + n % 10]

/-- `fixup_address`: returns (more addresses follow, printable address) for a 7-byte field -/
def fixup (a : List Nat) : Bool × List Nat :=
  let more := (a.getD 6 0) % 2 == 0
  let sh := a.map (· / 2)                       -- removeAddressExtensionBit: uint8 >> 1
  let ssid := (sh.getD 6 0) % 16
  let pos := match sh.findIdx? (· == 32) with | some p => p | none => 6     -- find_first_of(' '), npos → 6
  let base := sh.take pos
  (more, if ssid ≠ 0 then base ++ [45] ++ decimal ssid else base)

/-- `parse_repeaters`: `index` starts at 14; `fuel` bounds the loop (the index grows by 7 each round) -/
def repeaters (f : List Nat) : Nat → Nat → List (List Nat) × List (Nat × Nat)
  | 0, _ => ([], [])
  | fuel + 1, index =>
    if index + 7 < f.length then
      let r := (f.drop index).take 7
      let fx := fixup r
      if fx.1 then
        let rest := repeaters f fuel (index + 7)
        (fx.2 :: rest.1, (index, 7) :: rest.2)
      else ([fx.2], [(index, 7)])
    else ([], [])

def frameType (c : Nat) : Nat := match c % 4 with | 0 => 1 | 1 => 2 | 2 => 1 | _ => 3

/-- `parse(frame)`; `none` = frame shorter than 17 bytes (nothing is touched) -/
def parse (f : List Nat) : Option Parsed :=
  let n := f.length
  if n < 17 then none else
  let d := fixup (f.take 7)
  let s := fixup ((f.drop 7).take 7)
  let rp := if s.1 then repeaters f n 14 else ([], [])
  let acc0 := [(n - 2, 2), (0, 7), (7, 7)] ++ rp.2
  let index := 7 * (rp.1.length + 2)
  if n < index + 5 then some { dest := d.2, src := s.2, reps := rp.1, ftype := 0, pid := none, info := [], accesses := acc0 }
  else
    let t := frameType (f.getD index 0)
    let i1 := index + 1
    let (pid, i2, accp) := if t = 3 then (some (f.getD i1 0), i1 + 1, [(i1, 1)]) else (none, i1, [])
    some { dest := d.2, src := s.2, reps := rp.1, ftype := t, pid := pid, info := (f.drop i2).take (n - 2 - i2),
           accesses := acc0 ++ [(index, 1)] ++ accp ++ [(i2, n - 2 - i2)] }

/-- the iterator range `[begin + i2, end - 2)` is well formed when `i2 ≤ n - 2`; recorded for the theorem -/
def infoStart (f : List Nat) : Option Nat :=
  match parse f with
  | some p => (p.accesses.getLast?).map Prod.fst
  | none => none

end M17.Ax25

/-
Model of the DSP primitives: `BaseFirFilter` (FirFilter.h), `BaseIirFilter` (IirFilter.h, N = 3 as instantiated by
Correlator and SymbolEvm), `NSlidingDFT` / `SlidingDFT` (SlidingDFT.h), written once, polymorphic in the scalar, with
the code's circular-buffer indexing.  Executed at `Float` by the driver for correspondence; reasoned about over any
commutative ring (exact arithmetic) in `M17.Props.C19`.
-/
namespace M17.Dsp

variable {α : Type} [Add α] [Sub α] [Mul α] [OfNat α 0]

/-- `BaseFirFilter<F,N>`: taps, circular history, write position -/
structure Fir (α : Type) where
  taps : List α
  history : List α
  pos : Nat

def Fir.init (taps : List α) : Fir α := { taps := taps, history := List.replicate taps.length 0, pos := 0 }

/-- `operator()(input)`: store, advance, then accumulate `history[index] * taps[i]` with `index` walking backwards
    from the new `pos_` (after `i+1` decrements with wrap-around `index = (pos + N - 1 - i) mod N`) -/
def Fir.step (f : Fir α) (x : α) : Fir α × α :=
  let n := f.taps.length
  let h := f.history.set f.pos x
  let p := if f.pos + 1 = n then 0 else f.pos + 1
  let y := (List.range n).foldl (fun acc i => acc + h.getD ((p + n - 1 - i) % n) 0 * f.taps.getD i 0) 0
  ({ f with history := h, pos := p }, y)

def Fir.run (f : Fir α) : List α → Fir α × List α
  | [] => (f, [])
  | x :: xs => let (f1, y) := f.step x; let (f2, ys) := f1.run xs; (f2, y :: ys)

/-- `BaseIirFilter<F,3>` (direct form II): history w0 w1 w2 -/
structure Iir3 (α : Type) where
  b : α × α × α
  a : α × α × α
  w1 : α
  w2 : α

def Iir3.step (f : Iir3 α) (x : α) : Iir3 α × α :=
  -- shift; history_[0] = input; history_[0] -= a1*history_[1]; history_[0] -= a2*history_[2]
  let w0 := x - f.a.2.1 * f.w1 - f.a.2.2 * f.w2
  let y := (0 + f.b.1 * w0) + f.b.2.1 * f.w1 + f.b.2.2 * f.w2
  ({ f with w1 := w0, w2 := f.w1 }, y)

/-- one frequency bin of `NSlidingDFT` (`damp = 1`) / `SlidingDFT` (`damp = 0.999999999999999`) -/
structure Sdft (α : Type) where
  coeff : α
  damp : α
  samples : List α
  index : Nat
  result : α

def Sdft.init (coeff damp : α) (n : Nat) : Sdft α :=
  { coeff := coeff, damp := damp, samples := List.replicate n 0, index := 0, result := 0 }

/-- returns the new state and the value the call returns (`(result_ + delta) * coeff_`) -/
def Sdft.step (s : Sdft α) (x : α) : Sdft α × α :=
  let n := s.samples.length
  let delta := x - s.samples.getD s.index 0
  let r := (s.result + delta) * s.coeff
  ({ s with samples := s.samples.set s.index x, index := if s.index + 1 = n then 0 else s.index + 1, result := r * s.damp }, r)

end M17.Dsp

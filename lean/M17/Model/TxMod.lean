/-
Model of the frame builders of apps/m17-mod.cpp — `send_lsf`, `make_data_frame`, `make_lich_segment`, `send_audio_frame`, `output_bitstream` —
written as the code is written: a shift-register convolutional encoder over the bits of each byte (`update_memory<4>`, `convolve_bit`),
`puncture` into an int8 array of 0/1 values, `interleave` (int8 variant), `randomize` (xor variant), then packing MSB first.
Arrays of 0/1 `int8_t` are `List Int`; bytes are `List Nat`.
-/
import M17.Model.Cond
import M17.Model.Puncture
import M17.Model.Golay
import M17.Model.Crc
import M17.Model.Callsign

namespace M17.TxMod

/-- `std::popcount` of a small value -/
def popc (x : Nat) : Nat := (List.range 32).foldl (fun a i => a + (if x.testBit i then 1 else 0)) 0

/-- `convolve_bit(poly, memory)` -/
def convolveBit (poly memory : Nat) : Nat := popc (poly &&& memory) % 2

/-- `update_memory<4>(memory, input)` -/
def updateMemory (memory input : Nat) : Nat := ((memory <<< 1) ||| input) &&& 31

/-- the bits of a byte as the loops take them: `x = (b & 0x80) >> 7; b <<= 1` on a `uint8_t` -/
def msbBits (b : Nat) : List Nat := (List.range 8).map fun i => (((b <<< i) % 256) &&& 128) >>> 7

/-- the encoder loop over input bits (0/1): two coded bits per input bit -/
def encBits : Nat → List Nat → List Nat
  | _, [] => []
  | m, x :: xs => let m' := updateMemory m x; convolveBit 0o31 m' :: convolveBit 0o27 m' :: encBits m' xs

/-- encode a byte array followed by the four flush zeros -/
def encodeBytes (bytes : List Nat) : List Nat := encBits 0 (bytes.flatMap msbBits ++ [0, 0, 0, 0])

/-- `puncture(encoded, punctured, P)` into a fresh `N`-element int8 array (every element is written: the kept count equals `N`) -/
def punct (p : List Nat) (coded : List Nat) (n : Nat) : List Int := Punct.punctureGo p 0 (coded.map Int.ofNat) n

/-- `output_bitstream`: `c <<= 1; c |= frame[i + j]` over groups of eight -/
def packBits (frame : List Int) : List Nat :=
  (List.range (frame.length / 8)).map fun k =>
    ((frame.drop (8 * k)).take 8).foldl (fun c v => ((c <<< 1) % 256) ||| v.toNat) 0

/-- the 30-byte LSF `send_lsf` builds for a voice stream: DST, SRC, TYPE from the channel access number, zero META, CRC -/
def lsfBytes (src dst : List Nat) (can : Nat) : List Nat :=
  let encSrc := Call.encode (Call.pad src)
  let encDst := if dst.isEmpty then List.replicate 6 255 else Call.encode (Call.pad dst)
  let body := encDst ++ encSrc ++ [(can >>> 1) % 256, (5 ||| ((can &&& 1) <<< 7)) % 256] ++ List.replicate 14 0
  let c := Crc.crc body
  body ++ [(c >>> 8) &&& 255, c &&& 255]

/-- the 368 channel values (0/1) of the LSF frame: encode, puncture P1, interleave, randomize -/
def lsfFrameVals (lsf : List Nat) : List Int :=
  Cond.randBits (Cond.interleaveSoft (punct Gen.p1 (encodeBytes lsf) 368))

/-- bytes `send_lsf` writes in bitstream mode -/
def sendLsf (src dst : List Nat) (can : Nat) : List Nat := [0x55, 0xF7] ++ packBits (lsfFrameVals (lsfBytes src dst can))

/-- `make_data_frame(frame_number, payload)`: 272 punctured values -/
def dataFrame (fn : Nat) (payload : List Nat) : List Int :=
  punct Gen.p2 (encodeBytes ([(fn >>> 8) &&& 255, fn &&& 255] ++ payload)) 272

/-- 24 bits of a Golay word, MSB first: `result[i] = (encoded & (1 << 23)) != 0; encoded <<= 1` -/
def wordVals (w : Nat) : List Int := (List.range 24).map fun i => if ((w <<< i) % 2 ^ 32) &&& 2 ^ 23 ≠ 0 then 1 else 0

/-- `make_lich_segment(segment, segment_number)`: 96 values -/
def lichSegment (seg : List Nat) (n : Nat) : List Int :=
  let g (i : Nat) := seg.getD i 0
  let t0 := ((g 0 <<< 4) ||| ((g 1 >>> 4) &&& 15)) % 65536
  let t1 := (((g 1 &&& 15) <<< 8) ||| g 2) % 65536
  let t2 := ((g 3 <<< 4) ||| ((g 4 >>> 4) &&& 15)) % 65536
  let t3 := (((g 4 &&& 15) <<< 8) ||| ((n % 256) <<< 5)) % 65536
  wordVals (Golay.encode24 t0) ++ wordVals (Golay.encode24 t1) ++ wordVals (Golay.encode24 t2) ++ wordVals (Golay.encode24 t3)

/-- `send_audio_frame(lich, data)` in bitstream mode -/
def sendAudioFrame (lich data : List Int) : List Nat :=
  [0xFF, 0x5D] ++ packBits (Cond.randBits (Cond.interleaveSoft (lich ++ data)))

/-- stream frame `k` of a transmission as `transmit()` composes it: LICH segment `lichN` of the LSF, frame number, payload -/
def streamFrame (lsf : List Nat) (lichN fn : Nat) (payload : List Nat) : List Nat :=
  sendAudioFrame (lichSegment ((lsf.drop (5 * lichN)).take 5) lichN) (dataFrame fn payload)

/-- `make_bert_frame`, data generation: 24 bytes of eight generator bits each (`byte <<= 1; byte |= prbs.generate()`), then five bits
    shifted left by three -/
def bertData (bits : List Nat) : List Nat :=
  (List.range 24).map (fun k => ((bits.drop (8 * k)).take 8).foldl (fun b x => ((b <<< 1) % 256) ||| x) 0) ++
    [(((bits.drop 192).take 5).foldl (fun b x => ((b <<< 1) % 256) ||| x) 0 <<< 3) % 256]

/-- `make_bert_frame`, encoding: 24 full bytes, five bits of the last byte, four flush bits; puncture P2 into 368 values -/
def bertFrameVals (bits : List Nat) : List Int :=
  let data := bertData bits
  let inb := (data.take 24).flatMap msbBits ++ (msbBits (data.getD 24 0)).take 5
  punct Gen.p2 (encBits 0 (inb ++ [0, 0, 0, 0])) 368

/-- one BERT frame as the loop in `main()` emits it in bitstream mode -/
def bertFrame (bits : List Nat) : List Nat := [0xDF, 0x55] ++ packBits (Cond.randBits (Cond.interleaveSoft (bertFrameVals bits)))

end M17.TxMod

/-
Model of `M17Modulator::modulate()` (include/m17cxx/M17Modulator.h:387-463) at the level of its state machine:
one loop iteration per sample taken from the audio queue, with the externally written `state_` (`ptt_on` / `ptt_off`)
changing between iterations as the documented API prescribes.  What is emitted is recorded as abstract items; their
byte content is the frame encoders' business (C13/C01).
-/
namespace M17.Modulator

inductive MState | inactive | idle | preamble | linkSetup | active | endOfStream
  deriving DecidableEq, Repr

/-- what goes to the output queue: the 48-byte preamble, the LSF frame, or one audio frame (frame-number field, LICH
    segment index, number of real samples in its 320-sample block — the rest is zero fill) -/
inductive Item | preamble | lsf | audio (fn lich nsamples : Nat)
  deriving DecidableEq, Repr

structure M where
  st : MState
  index : Nat
  fn : Nat        -- uint16_t frame_number
  lich : Nat      -- uint8_t lich_segment
  out : List Item
  deriving Repr

/-- one loop iteration with a sample received -/
def onSample (m : M) : M :=
  match m.st with
  | .inactive => m
  | .idle => m                                                       -- sample discarded
  | .preamble => { m with st := .linkSetup, out := m.out ++ [.preamble] }
  | .linkSetup => { m with st := .active, index := 0, fn := 0, lich := 0, out := m.out ++ [.lsf] }
  | .active =>
    if m.index + 1 = 320 then
      let fn1 := (m.fn + 1) % 65536
      { m with index := 0, fn := if fn1 = 0x8000 then 0 else fn1, lich := if m.lich + 1 = 6 then 0 else m.lich + 1,
               out := m.out ++ [.audio m.fn m.lich 320] }
    else { m with index := m.index + 1 }
  | .endOfStream =>
    { m with st := .idle, fn := (m.fn + 1) % 65536, lich := m.lich + 1,
             out := m.out ++ [.audio ((m.fn ||| 0x8000) % 65536) m.lich (m.index + 1)] }

/-- `ptt_on()`: returns once the state is IDLE and sets PREAMBLE -/
def pttOn (m : M) : M := if m.st = .idle then { m with st := .preamble } else m
/-- `ptt_off()`: waits for ACTIVE and sets END_OF_STREAM -/
def pttOff (m : M) : M := if m.st = .active then { m with st := .endOfStream } else m

def samples : Nat → M → M
  | 0, m => m
  | n+1, m => onSample (samples n m)

end M17.Modulator

/-
Model of `struct M17FrameDecoder` (include/m17cxx/M17FrameDecoder.h): `operator()` with its per-type decoders,
`update_state`, `unpack_lich`, and the LICH reassembly state.

State kept across frames: `state_`, `lich_segments`, `output_buffer.lsf`.  The union members
(`depuncture_buffer`, `decode_buffer`, `output_buffer.{lich,stream,packet,bert}`) and the Viterbi scratch arrays are
fully overwritten before they are read on every path (depuncture writes every slot — C11; the decoder writes all
`OUT` bits; `to_byte_array` writes every byte; `lich.fill(0)`), so they carry nothing from frame to frame and are
not part of the modelled state; the C++ hidden-state probe of C08 checks exactly this.
-/
import M17.Model.Cond
import M17.Model.Puncture
import M17.Model.Viterbi
import M17.Model.Golay
import M17.Model.Crc
import M17.Model.Bytes

namespace M17.Dec

inductive Mode | lsf | stream | basicPacket | fullPacket | bert
  deriving DecidableEq, Repr
inductive Sync | lsf | stream | packet | bert
  deriving DecidableEq, Repr
inductive Result | fail | ok | eos | incomplete | packetIncomplete
  deriving DecidableEq, Repr
inductive FType | lsf | lich | stream | basicPacket | fullPacket | bert
  deriving DecidableEq, Repr

structure DState where
  mode : Mode
  mask : Nat            -- lich_segments (uint8_t)
  lsfBuf : List Nat     -- output_buffer.lsf, 30 bytes
  deriving DecidableEq, Repr

/-- one invocation of `callback_`: frame type, the bytes of the typed member, the `int` cost argument -/
structure Callback where
  ftype : FType
  bytes : List Nat
  cost : Nat
  deriving DecidableEq, Repr

structure StepOut where
  state : DState
  calls : List Callback
  result : Result
  cost : Option Nat     -- value left in the caller's `viterbi_cost`; `none` = not written on this path
  deriving Repr

def init : DState := { mode := .lsf, mask := 0, lsfBuf := List.replicate 30 0 }

def sizeMax : Nat := 2 ^ 64 - 1     -- `viterbi_cost = -1` on a `size_t`

/-- the decoder's Viterbi instance: soft width 4 -/
def vitLLR : Nat := 4

/-- `viterbi_.decode(depunctured, decoded)` then `to_byte_array` -/
def fec (p : List Nat) (soft : List Int) (depN outBits : Nat) : Nat × List Bool × List Nat :=
  let dep := Punct.depunctureGo p 0 soft depN
  let r := Vit.decode vitLLR dep outBits
  (r.1, r.2, Bytes.pack r.2)

/-- `update_state(lsf_output)`: TYPE bits at 111 (stream/packet), 109, 110 (data / packet type) -/
def updateState (mode : Mode) (bits : List Bool) : Mode :=
  if bits.getD 111 false then
    (if bits.getD 109 false then .stream else mode)
  else
    let pt := 2 * (bits.getD 109 false).toNat + (bits.getD 110 false).toNat
    if pt = 1 then .basicPacket else .fullPacket

def crcOf (bytes : List Nat) : Nat := Crc.crc bytes

/-- `decode_lsf` (entered with `state_` already set to LSF) -/
def decodeLsf (σ : DState) (buf : List Int) : StepOut :=
  let r := fec Gen.p1 buf 488 240
  if crcOf r.2.2 = 0 then
    { state := { σ with mode := updateState .lsf r.2.1, lsfBuf := r.2.2 },
      calls := [⟨.lsf, r.2.2, r.1⟩], result := .ok, cost := some r.1 }
  else
    { state := { mode := .lsf, mask := 0, lsfBuf := List.replicate 30 0 }, calls := [], result := .fail, cost := some r.1 }

/-- 24 hard decisions `buffer[k] > 0`, MSB first -/
def hardWord (xs : List Int) : Nat := xs.foldl (fun acc x => 2 * acc + (if x > 0 then 1 else 0)) 0

/-- `unpack_lich`: four Golay words → six bytes, or `none` if any word is rejected -/
def unpackLich (buf : List Int) : Option (List Nat) :=
  let word (i : Nat) := Golay.decode (hardWord ((buf.drop (24 * i)).take 24))
  match word 0, word 1, word 2, word 3 with
  | some a, some b, some c, some d =>
    let a := a >>> 12; let b := b >>> 12; let c := c >>> 12; let d := d >>> 12
    some [a >>> 4 % 256, ((a % 16) <<< 4 ||| b >>> 8) % 256, b % 256,
          c >>> 4 % 256, ((c % 16) <<< 4 ||| d >>> 8) % 256, d % 256]
  | _, _, _, _ => none

def setSlot (lsf : List Nat) (n : Nat) (five : List Nat) : List Nat :=
  lsf.take (5 * n) ++ five ++ lsf.drop (5 * n + 5)

/-- `decode_lich` -/
def decodeLich (σ : DState) (buf : List Int) : StepOut :=
  match unpackLich buf with
  | none => { state := σ, calls := [], result := .fail, cost := none }
  | some lich =>
    let cb : Callback := ⟨.lich, lich, 0⟩
    let fn := (lich.getD 5 0 >>> 5) % 8
    if fn > Gen.maxLichFragment then
      { state := σ, calls := [cb], result := .incomplete, cost := some sizeMax }
    else
      let lsf := setSlot σ.lsfBuf fn (lich.take 5)
      let mask := (σ.mask ||| 2 ^ fn) % 256
      if mask % 64 ≠ 63 then
        { state := { σ with mask := mask, lsfBuf := lsf }, calls := [cb], result := .incomplete, cost := some sizeMax }
      else if crcOf lsf = 0 then
        { state := { mode := .stream, mask := 0, lsfBuf := lsf }, calls := [cb, ⟨.lsf, lsf, 0⟩], result := .ok, cost := some 0 }
      else
        { state := { σ with mask := mask, lsfBuf := lsf }, calls := [cb], result := .incomplete, cost := some 128 }

/-- `decode_stream` -/
def decodeStream (σ : DState) (buf : List Int) : StepOut :=
  let r := fec Gen.p2 (buf.drop 96) 296 144
  { state := σ, calls := [⟨.stream, r.2.2, r.1⟩], result := .ok, cost := some r.1 }

/-- `decode_packet`; `cbResult` is what the callback returns -/
def decodePacket (σ : DState) (buf : List Int) (ty : FType) (cbResult : Bool) : StepOut :=
  let r := fec Gen.p3 buf 420 206
  if r.2.2.getD 25 0 ≥ 128 then
    { state := { σ with mode := .lsf }, calls := [⟨ty, r.2.2, r.1⟩], result := if cbResult then .ok else .fail, cost := some r.1 }
  else
    { state := σ, calls := [⟨ty, r.2.2, r.1⟩], result := .packetIncomplete, cost := some r.1 }

/-- `decode_bert` (entered with `state_` already set to BERT) -/
def decodeBert (σ : DState) (buf : List Int) : StepOut :=
  let r := fec Gen.p2 buf 402 197
  { state := σ, calls := [⟨.bert, r.2.2, r.1⟩], result := .ok, cost := some r.1 }

/-- `operator()(frame_type, buffer, viterbi_cost)` -/
def step (σ : DState) (sync : Sync) (frame : List Int) (cbResult : Bool) : StepOut :=
  let buf := Cond.deinterleaveSoft (Cond.randSoft frame)
  match sync with
  | .lsf => decodeLsf { σ with mode := .lsf } buf
  | .stream =>
    match σ.mode with
    | .lsf => decodeLich σ buf
    | .stream => decodeStream σ buf
    | _ => { state := { σ with mode := .lsf }, calls := [], result := .fail, cost := none }
  | .packet =>
    match σ.mode with
    | .basicPacket => decodePacket σ buf .basicPacket cbResult
    | .fullPacket => decodePacket σ buf .fullPacket cbResult
    | _ => { state := { σ with mode := .lsf }, calls := [], result := .fail, cost := none }
  | .bert => decodeBert { σ with mode := .bert } buf

/-- `reset()`: note it does not clear `lich_segments` nor the LSF buffer -/
def reset (σ : DState) : DState := { σ with mode := .lsf }

end M17.Dec

/-
Model of the frame builders of `M17Modulator` (include/m17cxx/M17Modulator.h) — `conv_encode`, `make_lich_segment`, `send_link_setup`,
`make_payload`, `send_audio_frame` — written as the code is written: everything stays in packed bytes (`conv_encode` packs the coded bits as it
goes, `puncture_bytes`, the packed-byte interleaver, `M17ByteRandomizer`).  Buffers the code leaves uninitialised before filling them bit by
bit (`punctured`, the LICH segment) are explicit parameters `prev…`.
-/
import M17.Model.TxMod

namespace M17.TxModulator
open M17.Bytes

/-- `conv_encode`: `tmp = (tmp << 1) | bit` on a `uint8_t`, stored every eight coded bits -/
def packCoded (coded : List Nat) : List Nat :=
  (List.range (coded.length / 8)).map fun k => ((coded.drop (8 * k)).take 8).foldl (fun t b => ((t <<< 1) % 256) ||| b) 0

def convEncode (data : List Nat) : List Nat := packCoded (TxMod.encodeBytes data)

/-- `make_lich_segment`: the 96 bits are written with `assign_bit_index` into a 12-byte array whose previous content is `prev` -/
def lichSegment (seg : List Nat) (n : Nat) (prev : List Nat) : List Nat :=
  let vals := TxMod.lichSegment seg n
  (List.range 96).foldl (fun out i => assignBit out i (vals.getD i 0 != 0)) prev

/-- the LSF `send_link_setup` builds: DST, SRC, TYPE 0x0005, zero META, CRC -/
def lsfBytes (src dst : List Nat) : List Nat :=
  let body := dst ++ src ++ [0, 5] ++ List.replicate 14 0
  let c := Crc.crc body
  body ++ [(c >>> 8) &&& 255, c &&& 255]

/-- the private `encode_callsign(std::string)` helper: blank → broadcast, else the base-40 address -/
def address (cs : List Nat) : List Nat := if cs.isEmpty then List.replicate 6 255 else Call.encode (Call.pad cs)

/-- 46 channel bytes of the link setup frame; `prev` = previous content of the `punctured` array -/
def lsfChannel (lsf : List Nat) (prev : List Nat) : List Nat :=
  Cond.randBytes (Cond.interleaveBytes (Punct.punctureBytes Gen.p1 (convEncode lsf) prev).1)

def sendLinkSetup (src dst : List Nat) (prev : List Nat) : List Nat :=
  [0x55, 0xF7] ++ lsfChannel (lsfBytes (address src) (address dst)) prev

/-- `make_payload(frame_number, payload)`: 34 bytes; `prev` = previous content of the `punctured` array -/
def makePayload (fn : Nat) (payload : List Nat) (prev : List Nat) : List Nat :=
  (Punct.punctureBytes Gen.p2 (convEncode ([(fn >>> 8) &&& 255, fn &&& 255] ++ payload)) prev).1

/-- `send_audio_frame(lich, data)` -/
def sendAudioFrame (lich data : List Nat) : List Nat :=
  [0xFF, 0x5D] ++ Cond.randBytes (Cond.interleaveBytes (lich ++ data))

def streamFrame (lsf : List Nat) (lichN fn : Nat) (payload : List Nat) (prevL prevP : List Nat) : List Nat :=
  sendAudioFrame (lichSegment ((lsf.drop (5 * lichN)).take 5) lichN prevL) (makePayload fn payload prevP)

end M17.TxModulator

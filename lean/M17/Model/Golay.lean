/-
Model of include/m17cxx/Golay24.h (namespace mobilinkd::Golay24).
Hand translation; constants and the 2048-entry LUT come from `M17.Gen.Golay`, which is regenerated
from the current headers on every run.  Values are `Nat`; every C++ value here is < 2^32 and no
operation below can overflow 32 bits (inputs are masked to 24 bits first, exactly as the code does).
-/
import M17.Gen.Golay

namespace M17.Golay

/-- `n`-fold iteration (the fixed-count `for` loops of the header). -/
def iter (f : Nat → Nat) : Nat → Nat → Nat
  | 0, x => x
  | n+1, x => iter f n (f x)

/-- One round of the shift-register loop shared by `syndrome` and `encode23`:
    `if (codeword & 1) codeword ^= POLY; codeword >>= 1;` -/
def synStepP (poly c : Nat) : Nat := (if c % 2 = 1 then c ^^^ poly else c) / 2

def synStep (c : Nat) : Nat := synStepP Gen.golayPoly c

/-- 12 rounds of the register: the 11-bit remainder, *before* the final `<< 12` of `syndrome()`. -/
def syn (x : Nat) : Nat := iter synStep 12 x

/-- `syndrome(codeword)`: mask to 24 bits, 12 rounds, result in bits [22:12]. -/
def syndrome (codeword : Nat) : Nat := syn (codeword % 2^24) <<< 12

/-- population count of the low `n` bits -/
def wtN : Nat → Nat → Nat
  | 0, _ => 0
  | n+1, x => x % 2 + wtN n (x / 2)

/-- `std::popcount` on a `uint32_t` -/
def popcount (x : Nat) : Nat := wtN 32 x

/-- `parity(codeword)` : `popcount & 1` -/
def parity (x : Nat) : Bool := popcount x % 2 = 1

/-- `encode23(data)`: check bits (11) | data << 11. -/
def encode23 (data : Nat) : Nat := syn data ||| (data <<< 11)

/-- `encode24(data)`: `(codeword << 1) | parity(codeword)`. -/
def encode24 (data : Nat) : Nat :=
  let cw := encode23 data
  (cw <<< 1) ||| (if parity cw then 1 else 0)

/-- The LUT as (key = `a >> 8`, 23-bit error pattern) pairs, in table order. -/
def lut : List (Nat × Nat) := Gen.golayLutKeys.zip Gen.golayLutPats

/-- `std::lower_bound(LUT, syndrm, key < val)` on the table: the first entry whose key is not
    less than the value.  (This is the specification of `lower_bound` on a table partitioned by the
    predicate, which a key-sorted table is; sortedness of the generated table is a bridge lemma.) -/
def lowerBound (tbl : List (Nat × Nat)) (s : Nat) : Option (Nat × Nat) :=
  tbl.find? (fun e => ¬ (e.1 < s))

/-- `decode(input, output)`: `none` = returns false.  `output` is only meaningful on success.
    Acceptance rule: weight of the *correction* below 3, or even overall parity after correction. -/
def decodeWith (tbl : List (Nat × Nat)) (input : Nat) : Option Nat :=
  let s := syndrome (input >>> 1)
  match lowerBound tbl s with
  | none => none            -- `it == end()`: cannot happen for a complete table (bridge lemma)
  | some (key, pat) =>
    if key = s then
      let correction := pat <<< 1
      let output := input ^^^ correction
      if popcount correction < 3 || !parity output then some output else none
    else none

def decode (input : Nat) : Option Nat := decodeWith lut input

/-- Direct-indexed lookup, equal to `decode` for a table satisfying `LutOK`
    (proved in `M17.Props.C04`, used by the compiled driver for speed). -/
def lutArr : Array (Nat × Nat) := lut.toArray

def decodeFast (input : Nat) : Option Nat :=
  let s := syndrome (input >>> 1)
  let (key, pat) := lutArr.getD (s >>> 12) (0, 0)
  if key = s then
    let correction := pat <<< 1
    let output := input ^^^ correction
    if popcount correction < 3 || !parity output then some output else none
  else none

end M17.Golay

/-
Model of `Viterbi<Trellis<4,2>, LLR>::decode<IN,OUT>` (include/m17cxx/Viterbi.h), for every supported soft
width LLR = 2..6 (L = 1, 3, 7, 15, 31).  Tables `cost_` come from `M17.Gen.Viterbi` (dumped from the real
objects); the state-transition tables are modelled by their formulas and bridged to the dumped tables in
`M17.Props.C02`.  Metrics are `Nat` (the code's `int32_t` never overflows — `metric_bound` in C02).
-/
import M17.Gen.Viterbi

namespace M17.Vit

abbrev Metrics := List Nat          -- 16 path metrics
abbrev Branch := Nat → Bool → Nat   -- cost of leaving state `s` with input bit `b`

/-- `nextState_[s][b]` -/
def next (s : Nat) (b : Bool) : Nat := (2 * s + b.toNat) % 16
/-- `prevState_[t][d]`: d = false → the predecessor below 8, d = true → the one at or above 8 -/
def pred (t : Nat) (d : Bool) : Nat := if d then t / 2 + 8 else t / 2
/-- input bit that leads into state `t` (`next_element & 1`) -/
def bitOf (t : Nat) : Bool := t % 2 == 1

/-- `cost_[j][k]` for soft width `llr` -/
def costTbl (llr : Nat) : List Int :=
  if llr = 2 then Gen.vitCost2 else if llr = 3 then Gen.vitCost3 else if llr = 4 then Gen.vitCost4
  else if llr = 5 then Gen.vitCost5 else Gen.vitCost6

def limit (llr : Nat) : Nat := 2 ^ (llr - 1) - 1

/-- `std::abs(int16_t)` of a small value -/
def iabs (x : Int) : Nat := x.natAbs

/-- `cost0[j]` and `cost1[j]` of one trellis step for the received pair `(s0, s1)` (0 = erased) -/
def cost0 (tbl : List Int) (s0 s1 : Int) (j : Nat) : Nat :=
  (if s0 ≠ 0 then iabs (tbl.getD (2 * j) 0 - s0) else 0) + (if s1 ≠ 0 then iabs (tbl.getD (2 * j + 1) 0 - s1) else 0)
def cost1 (tbl : List Int) (s0 s1 : Int) (j : Nat) : Nat :=
  (if s0 ≠ 0 then iabs (tbl.getD (2 * j) 0 + s0) else 0) + (if s1 ≠ 0 then iabs (tbl.getD (2 * j + 1) 0 + s1) else 0)

/-- the branch cost the butterfly uses: from state `s` with input `b`
    (`m0 = p0 + c0`, `m1 = p0 + c1`, `m2 = p1 + c1`, `m3 = p1 + c0`) -/
def branch (tbl : List Int) (s0 s1 : Int) : Branch := fun s b =>
  if s < 8 then (if b then cost1 tbl s0 s1 s else cost0 tbl s0 s1 s)
  else (if b then cost0 tbl s0 s1 (s - 8) else cost1 tbl s0 s1 (s - 8))

/-- add-compare-select for target state `t`: `d = m_low > m_high; curr = d ? m_high : m_low` -/
def acs1 (f : Branch) (m : Metrics) (t : Nat) : Nat × Bool :=
  let m0 := m.getD (t / 2) 0 + f (t / 2) (bitOf t)
  let m1 := m.getD (t / 2 + 8) 0 + f (t / 2 + 8) (bitOf t)
  if m0 > m1 then (m1, true) else (m0, false)

def acs (f : Branch) (m : Metrics) : Metrics × List Bool :=
  ((List.range 16).map (fun t => (acs1 f m t).1), (List.range 16).map (fun t => (acs1 f m t).2))

/-- forward pass -/
def dp : List Branch → Metrics → Metrics
  | [], m => m
  | f :: fs, m => dp fs (acs f m).1

/-- chain-back from end state `s`: start state and the input bits of the survivor -/
def trace : List Branch → Metrics → Nat → Nat × List Bool
  | [], _, s => (s, [])
  | f :: fs, m, s =>
    let (m1, d) := acs f m
    let (s1, u) := trace fs m1 s
    (pred s1 (d.getD s1 false), bitOf s1 :: u)

/-- first strict minimum: `for i: if (prevMetrics[i] < min_cost) ...` starting from element 0 -/
def argmin (m : Metrics) : Nat × Nat :=
  (List.range 16).foldl (fun (best : Nat × Nat) i => if m.getD i 0 < best.2 then (i, m.getD i 0) else best) (0, m.getD 0 0)

/-- pairs of received soft values -/
def pairs : List Int → List (Int × Int)
  | a :: b :: rest => (a, b) :: pairs rest
  | _ => []

def initMetrics : Metrics := 0 :: List.replicate 15 Gen.vitMaxMetric

/-- `std::round(min_cost / float(L))` for odd `L` (no value is ever exactly at .5) -/
def roundDiv (x l : Nat) : Nat := (2 * x + l) / (2 * l)

/-- `decode<IN,OUT>(in, out)`: reported cost and the `OUT` payload bits (requires `OUT ≤ IN/2`,
    true of every instantiation in the repository: IN = 2·(OUT+4)) -/
def decode (llr : Nat) (recv : List Int) (outN : Nat) : Nat × List Bool :=
  let tbl := costTbl llr
  let fs := (pairs recv).map (fun p => branch tbl p.1 p.2)
  let m := dp fs initMetrics
  let best := argmin m
  let u := (trace fs initMetrics best.1).2
  (roundDiv best.2 (limit llr), u.take outN)

end M17.Vit

/-
Model of the MSB-first bit-indexing helpers of include/m17cxx/Util.h
(`get_bit_index`, `set_bit_index`, `reset_bit_index`, `assign_bit_index`, `to_byte_array`).
Byte arrays are `List Nat` (every element < 256); `uint8_t` narrowing is explicit.
-/
namespace M17.Bytes

/-- `get_bit_index(input, index)`: `(input[index >> 3] & (1 << (7 - (index & 7)))) >> (7 - (index & 7))` -/
def getBit (bs : List Nat) (i : Nat) : Bool := (bs.getD (i / 8) 0).testBit (7 - i % 8)

/-- `set_bit_index`: `input[byte_index] |= (1 << bit_index)` -/
def setBit (bs : List Nat) (i : Nat) : List Nat :=
  bs.set (i / 8) (bs.getD (i / 8) 0 ||| 2 ^ (7 - i % 8))

/-- `reset_bit_index`: `input[byte_index] &= ~(1 << bit_index)` (on a `uint8_t`) -/
def resetBit (bs : List Nat) (i : Nat) : List Nat :=
  bs.set (i / 8) (bs.getD (i / 8) 0 &&& (255 ^^^ 2 ^ (7 - i % 8)))

/-- `assign_bit_index` -/
def assignBit (bs : List Nat) (i : Nat) (v : Bool) : List Nat :=
  if v then setBit bs i else resetBit bs i

/-- all bits of a byte array, MSB first -/
def unpack (bs : List Nat) : List Bool := (List.range (8 * bs.length)).map (getBit bs)

/-- byte value of up to 8 bits, first bit most significant, zero padded on the right
    (`tmp |= (c << (7 - b))` of `to_byte_array`) -/
def byteOf (bits : List Bool) : Nat :=
  (bits.zipIdx.foldl (fun acc (b, k) => if b then acc ||| 2 ^ (7 - k) else acc) 0)

/-- `to_byte_array(in, out)` for an array of 0/1 values: `(N+7)/8` bytes, last one zero padded -/
def pack (bits : List Bool) : List Nat :=
  (List.range ((bits.length + 7) / 8)).map fun k => byteOf ((bits.drop (8 * k)).take 8)

end M17.Bytes

/-
Model of the sequencing logic of apps/m17-mod.cpp `transmit()` (the loop that turns the sample queue into numbered
stream frames) — the per-frame encoders are the FEC model functions already defined.  codec2 is a parameter.
-/
namespace M17.Mod

/-- loop state of `transmit()`: the audio block being filled, `index`, `frame_number`, `lich_segment`, frames sent so far
    as (frame number field, LICH segment index, the 320 samples handed to the codec) -/
structure TxState where
  audio : List Int          -- 320 entries
  index : Nat
  frameNumber : Nat         -- uint16_t
  lich : Nat                -- uint8_t, 0..5
  sent : List (Nat × Nat × List Int)
  deriving Repr

/-- `audio` starts zeroed here; the C++ array is uninitialised until its first complete fill (see `partial_first_block`) -/
def init : TxState := { audio := List.replicate 320 0, index := 0, frameNumber := 0, lich := 0, sent := [] }

/-- one iteration of the `while (!queue.is_closed())` loop body with a sample received -/
def onSample (s : TxState) (x : Int) : TxState :=
  let audio := s.audio.set s.index x
  if s.index + 1 = 320 then
    let fn1 := (s.frameNumber + 1) % 65536
    { audio := List.replicate 320 0, index := 0,
      frameNumber := if fn1 = 0x8000 then 0 else fn1,
      lich := if s.lich + 1 = 6 then 0 else s.lich + 1,
      sent := s.sent ++ [(s.frameNumber, s.lich, audio)] }
  else { s with audio := audio, index := s.index + 1 }

/-- after the loop: the partial block (if any), then the all-zero block with the end-of-stream bit -/
def finish (s : TxState) : List (Nat × Nat × List Int) :=
  let s1 : TxState :=
    if s.index > 0 then
      let fn1 := (s.frameNumber + 1) % 65536
      { s with frameNumber := if fn1 = 0x8000 then 0 else fn1, lich := if s.lich + 1 = 6 then 0 else s.lich + 1,
               sent := s.sent ++ [(s.frameNumber, s.lich, s.audio)] }
    else s
  s1.sent ++ [((s1.frameNumber ||| 0x8000) % 65536, s1.lich, List.replicate 320 0)]

/-- everything `transmit()` hands to the frame encoder for an input of `samples` -/
def plan (samples : List Int) : List (Nat × Nat × List Int) := finish (samples.foldl onSample init)

/-- the blocks a specification encoder is given for the same audio: consecutive 320-sample windows, the last partial
    one zero padded, followed by one all-zero block -/
def blocks (xs : List Int) : List (List Int) :=
  (List.range ((xs.length + 319) / 320)).map fun k =>
    let b := (xs.drop (320 * k)).take 320
    b ++ List.replicate (320 - b.length) 0

def specPlan (samples : List Int) : List (Nat × Nat × List Int) :=
  let bs := blocks samples ++ [List.replicate 320 0]
  bs.zipIdx.map fun (b, k) => (k % 0x8000 + (if k + 1 = bs.length then 0x8000 else 0), k % 6, b)

end M17.Mod

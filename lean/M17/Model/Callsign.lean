/-
Model of `LinkSetupFrame::encode_callsign` / `decode_callsign` (include/m17cxx/LinkSetupFrame.h).
Characters are their codes (`Nat`), a `call_t` is a list of 10 codes, an address a list of 6 bytes.
The `reinterpret_cast` byte copy is modelled as little-endian byte extraction of the 64-bit value
(the code itself notes it only works on little-endian machines).
-/
import M17.Gen.Callsign

namespace M17.Call

/-- digit value of a character as `encode_callsign` computes it (non-strict: unknown characters add 0) -/
def charVal (c : Nat) : Nat :=
  if 65 ≤ c ∧ c ≤ 90 then c - 65 + 1           -- 'A'..'Z'
  else if 48 ≤ c ∧ c ≤ 57 then c - 48 + 27     -- '0'..'9'
  else if c = 45 then 37                        -- '-'
  else if c = 47 then 38                        -- '/'
  else if c = 46 then 39                        -- '.'
  else 0

/-- `callsign_map[d]` -/
def valChar (d : Nat) : Nat := Gen.callAlphabet.getD d 0

/-- big-endian 6-byte form of the low 48 bits of a value -/
def toBytes (v : Nat) : List Nat :=
  [v / 2 ^ 40 % 256, v / 2 ^ 32 % 256, v / 2 ^ 24 % 256, v / 2 ^ 16 % 256, v / 2 ^ 8 % 256, v % 256]

def fromBytes (b : List Nat) : Nat :=
  b.getD 0 0 * 2 ^ 40 + b.getD 1 0 * 2 ^ 32 + b.getD 2 0 * 2 ^ 24 + b.getD 3 0 * 2 ^ 16 + b.getD 4 0 * 2 ^ 8 + b.getD 5 0

/-- `encode_callsign(callsign)`: reverse the 10 characters, Horner in base 40 over `uint64_t`, low 6 bytes big-endian -/
def encode (call : List Nat) : List Nat :=
  toBytes ((call.reverse.foldl (fun acc c => (acc * 40 + charVal c) % 2 ^ 64) 0))

/-- `encode_callsign(callsign, strict = true)`: the first character without a digit (NUL padding included) throws `invalid_argument` -/
def encodeStrict (call : List Nat) : Option (List Nat) :=
  if call.all (fun c => charVal c != 0) then some (encode call) else none

/-- the digit loop of `decode_callsign` as repaired: `while (encoded && index != 9)` — at most nine characters -/
def digitsGo : Nat → Nat → List Nat
  | 0, _ => []
  | fuel+1, v => if v = 0 then [] else valChar (v % 40) :: digitsGo fuel (v / 40)

/-- `decode_callsign(addr)`: 10 characters, NUL filled -/
def decode (addr : List Nat) : List Nat :=
  if addr = Gen.callBroadcastAddr then Gen.callBroadcast
  else
    let ds := digitsGo 9 (fromBytes addr)
    ds ++ List.replicate (10 - ds.length) 0

/-- the loop as pinned (`while (encoded)`): up to ten characters, no terminator left for values ≥ 40^9 -/
def decodePinned (addr : List Nat) : List Nat :=
  if addr = Gen.callBroadcastAddr then Gen.callBroadcast
  else
    let ds := digitsGo 10 (fromBytes addr)
    ds ++ List.replicate (10 - ds.length) 0

/-- a `call_t` from a string of at most 9 characters: NUL padded to 10 -/
def pad (cs : List Nat) : List Nat := cs ++ List.replicate (10 - cs.length) 0

/-- the C string held in a `call_t`: characters before the first NUL -/
def cString (call : List Nat) : List Nat := call.takeWhile (· ≠ 0)

end M17.Call

/-
Model of the index arithmetic of `ClockRecovery` (include/m17cxx/ClockRecovery.h): the free-running `update()` used while coasting and the
wrap applied after a Kalman update.  Real values are integers in units of 2^-20 sample (every value the correspondence run uses is exact
in binary32 at that resolution); what is modelled is the exact real-number computation, `std::fmod` included (truncated remainder, sign of
the dividend) and `round` (half away from zero).
-/
namespace M17.Clock

/-- units per sample -/
def U : Int := 1048576

/-- C `round()` of a value in units: nearest integer, halves away from zero -/
def roundAway (x : Int) : Int := if 0 ≤ x then (2 * x + U) / (2 * U) else -((-2 * x + U) / (2 * U))

/-- the two one-step wraps `idx < 0 ? idx + 10 : idx`, `idx >= 10 ? idx - 10 : idx` -/
def wrapIndex (r : Int) : Int := let i1 := if r < 0 then r + 10 else r; if i1 ≥ 10 then i1 - 10 else i1

/-- `update()`: `csw = fmod(sample_estimate_ + clock_estimate_ * count_, 10)`, one wrap into [0, 10), round, wrap -/
def freeIndex (est clk : Int) (count : Nat) : Int :=
  let v := est + clk * count
  let c0 := Int.tmod v (10 * U)
  let csw := if c0 < 0 then c0 + 10 * U else if c0 ≥ 10 * U then c0 - 10 * U else c0
  wrapIndex (roundAway csw)

/-- `update(index)` after the Kalman filter has produced an estimate (which it keeps in [0, 10)) -/
def lockedIndex (est : Int) : Int := wrapIndex (roundAway est)

end M17.Clock

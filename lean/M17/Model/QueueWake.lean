/-
Wake-up bookkeeping of `mobilinkd::queue` (include/m17cxx/queue.h): which blocked callers have been notified.
Same lock-held segments as `M17.Queue` (which abstracts wake-ups as "always possible"), but counting, per condition
variable, the callers that wait un-notified (`gW`, `pW`) and those notified and not yet resumed (`gN`, `pN`).
Which notify call each method makes is NOT written here: it is the profile `tools/gen_queue.py` extracts from the
current source (`Gen.queueNotify`): 1 = unconditional notify_one, 2 = unconditional notify_all, 3 = guarded.
`std::condition_variable` semantics assumed: notify_one moves one waiting thread (if any) to "notified", notify_all
moves all; a waiting thread may also resume un-notified (spurious wake-up, time-out).
-/
import M17.Gen.Queue

namespace M17.QWake

inductive QSt where
  | opn | closing | closed
  deriving DecidableEq, Repr

structure S where
  cap : Nat
  items : Nat
  st : QSt
  gW : Nat      -- getters waiting on empty_, not notified
  gN : Nat      -- getters notified (or timed out), not yet resumed
  pW : Nat      -- putters waiting on full_, not notified
  pN : Nat
  deriving DecidableEq, Repr

structure Profile where
  putEmpty : Nat
  getFull : Nat
  closeEmpty : Nat
  closeFull : Nat
  deriving DecidableEq, Repr

/-- effect of a notify call of kind `k` on (waiting, notified); a guarded call fires or not as the environment decides -/
def notify (k : Nat) (fires : Bool) (w n : Nat) : Nat × Nat :=
  if k = 2 then (0, n + w)
  else if k = 1 then (if w > 0 then (w - 1, n + 1) else (w, n))
  else if fires then (if w > 0 then (w - 1, n + 1) else (w, n))
  else (w, n)

inductive Op where
  | getArrive                                   -- a get acquires the lock for the first time
  | getResume (notified : Bool) (timedOut : Bool)   -- a waiting get resumes: because notified, or spuriously / by time-out
  | putArrive (zeroTimeout : Bool)
  | putResume (notified : Bool) (timedOut : Bool)
  | close
  deriving Repr

/-- body of get once the lock is held: take an item, or fail on a closed queue, or (re-)wait / give up on time-out -/
def getBody (P : Profile) (fires : Bool) (s : S) (timedOut : Bool) : S :=
  if s.items > 0 then
    let items := s.items - 1
    let st := if s.st = .closing ∧ items = 0 then .closed else s.st
    let (pW, pN) := notify P.getFull fires s.pW s.pN
    { s with items := items, st := st, pW := pW, pN := pN }
  else if s.st = .closed then s
  else if timedOut then s
  else { s with gW := s.gW + 1 }

def putBody (P : Profile) (fires : Bool) (s : S) (zeroTimeout timedOut : Bool) : S :=
  if s.items = s.cap then
    if zeroTimeout then s
    else if s.st ≠ .opn then s
    else if timedOut then s
    else { s with pW := s.pW + 1 }
  else if s.st ≠ .opn then s
  else
    let (gW, gN) := notify P.putEmpty fires s.gW s.gN
    { s with items := s.items + 1, gW := gW, gN := gN }

def step (P : Profile) (fires : Bool) (s : S) : Op → S
  | .getArrive => getBody P fires s false
  | .getResume notified timedOut =>
    if notified then (if s.gN > 0 then getBody P fires { s with gN := s.gN - 1 } timedOut else s)
    else (if s.gW > 0 then getBody P fires { s with gW := s.gW - 1 } timedOut else s)
  | .putArrive z => putBody P fires s z false
  | .putResume notified timedOut =>
    if notified then (if s.pN > 0 then putBody P fires { s with pN := s.pN - 1 } false timedOut else s)
    else (if s.pW > 0 then putBody P fires { s with pW := s.pW - 1 } false timedOut else s)
  | .close =>
    let st := if s.items = 0 then QSt.closed else QSt.closing
    let (pW, pN) := notify P.closeFull fires s.pW s.pN
    let (gW, gN) := notify P.closeEmpty fires s.gW s.gN
    { s with st := st, pW := pW, pN := pN, gW := gW, gN := gN }

def init (cap : Nat) : S := { cap := cap, items := 0, st := .opn, gW := 0, gN := 0, pW := 0, pN := 0 }

def run (P : Profile) (s : S) (ops : List (Op × Bool)) : S := ops.foldl (fun s o => step P o.2 s o.1) s

/-- the profile of the current source -/
def kindOf (m c : String) : Nat :=
  match Gen.queueNotify.filter (fun e => e.1 == m && e.2.1 == c) with
  | [e] => e.2.2
  | _ => 0

def genProfile : Profile :=
  { putEmpty := kindOf "put" "empty_",
    getFull := if kindOf "get" "full_" = kindOf "get_until" "full_" then kindOf "get" "full_" else 0,
    closeEmpty := kindOf "close" "empty_", closeFull := kindOf "close" "full_" }

end M17.QWake

/-
Model of the link report of apps/m17-demod.cpp (`dump_type`, `dump_lsf` with display_lsf) and of the byte count its
audio handler writes.  Executed by the driver against the real handlers (op `app_lsf`).
-/
import M17.Model.Callsign
import M17.Model.Bytes

namespace M17.App

def hexDigit (d : Nat) : Char := "0123456789abcdef".toList.getD d '0'
def hex2 (n : Nat) : String := String.ofList [hexDigit (n / 16 % 16), hexDigit (n % 16)]
def dec2 (n : Nat) : String := (if n < 10 then "0" else "") ++ toString n

/-- how the application prints a `call_t`: every non-zero character -/
def printed (call : List Nat) : List Nat := call.filter (· ≠ 0)
def printedStr (call : List Nat) : String := String.ofList ((printed call).map Char.ofNat)

/-- `dump_type`: classification of the 16-bit TYPE field -/
def typeName (t : Nat) : String :=
  if t % 2 = 1 then
    "STR:" ++ (match t / 2 % 4 with | 0 => "UNK" | 1 => "D/D" | 2 => "V/V" | _ => "V/D")
  else
    "PKT:" ++ (match t / 2 % 4 with | 0 => "UNK" | 1 => "RAW" | 2 => "ENC" | _ => "UNK")

def canField (t : Nat) : Nat := t / 128 % 16

/-- packet-mode handling at the end of `dump_lsf`: `none` = stream (nothing printed) -/
def isPacket (b13 : Nat) : Bool := b13 % 2 == 0
def packetDiag (b13 : Nat) : String :=
  if isPacket b13 then (match b13 / 2 % 4 with | 1 => "" | 2 => "" | _ => "LSF for reserved packet type\n") else ""

def report (display : Bool) (lsf : List Nat) : String :=
  let t := lsf.getD 12 0 * 256 + lsf.getD 13 0
  (if display then
    "\nSRC: " ++ printedStr (Call.decode ((lsf.drop 6).take 6)) ++ ", DEST: " ++ printedStr (Call.decode (lsf.take 6))
      ++ ", " ++ typeName t ++ " CAN:" ++ dec2 (canField t)
      ++ ", NONCE: " ++ String.join (((lsf.drop 14).take 14).map hex2)
      ++ ", CRC: " ++ hex2 (lsf.getD 28 0) ++ hex2 (lsf.getD 29 0) ++ "\n"
   else "") ++ packetDiag (lsf.getD 13 0)

/-- `demodulate_audio`: bytes written to stdout for one stream frame, in either branch -/
def audioBytes (noiseBlanker : Bool) (cost : Nat) : Nat := if noiseBlanker && cost > 80 then 320 + 320 else 320 + 320

/-- `decode_bert`: the bits handed to the PRBS validator — bytes 0..23 MSB first (`b & 0x80; b <<= 1`), then the top five bits of byte 24 -/
def bertBits (bytes : List Nat) : List Bool := (List.range 197).map (Bytes.getBit bytes)

end M17.App

/-
Model of the packet handlers of apps/m17-demod.cpp: `append_packet`, the packet part of `dump_lsf`, and `decode_packet`
(which `handle_frame` calls for BASIC_PACKET and FULL_PACKET frames alike).  Bytes are `Nat` < 256.
Executed by the driver against the real handlers (op `app_packets`).
-/
namespace M17.AppPacket

/-- CRC-16/X-25 as `boost::crc_optimal<16, 0x1021, 0xFFFF, 0xFFFF, true, true>` computes it (reflected, final xor) -/
def x25Bit (r : Nat) : Nat := if r % 2 = 1 then (r / 2) ^^^ 0x8408 else r / 2
def x25Byte (r b : Nat) : Nat := (List.range 8).foldl (fun r _ => x25Bit r) (r ^^^ b)
def x25 (bs : List Nat) : Nat := (bs.foldl x25Byte 0xFFFF) ^^^ 0xFFFF

/-- `out = (out << 1) | c` on a `uint8_t`, over one group of eight input elements -/
def packGroup (g : List Nat) : Nat := g.foldl (fun o c => ((o * 2) ||| c) % 256) 0

/-- `append_packet(result, in)`: one output byte per COMPLETE group of eight input elements (the code treats the elements as bits) -/
def groups : Nat → List Nat → List (List Nat)
  | 0, _ => []
  | n+1, l => l.take 8 :: groups n (l.drop 8)

def appendPacket (buf inp : List Nat) : List Nat := buf ++ (groups (inp.length / 8) inp).map packGroup

structure PState where
  buf : List Nat        -- current_packet
  ctr : Nat             -- packet_frame_counter
deriving Repr, DecidableEq

/-- the end of `dump_lsf`: clear, and for packet LSFs other than RAW prepend the "packed" LSF -/
def onLsf (lsf : List Nat) : PState :=
  let b13 := lsf.getD 13 0
  if b13 % 2 = 0 then
    (if b13 / 2 % 4 = 1 then ⟨[], 0⟩ else ⟨appendPacket [] lsf, 0⟩)
  else ⟨[], 0⟩

/-- `decode_packet(segment)` on a 26-byte segment: new state and the returned flag -/
def step (s : PState) (seg : List Nat) : PState × Bool :=
  let c := seg.getD 25 0
  if 128 ≤ c then
    let n := min (c % 128 / 4) 25
    let buf := s.buf ++ seg.take n
    (⟨buf, s.ctr⟩, x25 buf == 0x0f47)
  else
    let fn := c % 128 / 4
    if fn ≠ s.ctr then (s, false)
    else (⟨s.buf ++ seg.take 25, s.ctr + 1⟩, true)

def run (s : PState) : List (List Nat) → PState × List Bool
  | [] => (s, [])
  | seg :: rest =>
    let (s1, r) := step s seg
    let (s2, rs) := run s1 rest
    (s2, r :: rs)

end M17.AppPacket

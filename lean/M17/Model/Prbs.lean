/-
Model of `struct PRBS9` (include/m17cxx/Util.h): generator, synchronizer, validator, error counting.
Constants (taps, mask, LOCK_COUNT, UNLOCK_COUNT, history size) come from `M17.Gen.Prbs`.
`uint16_t state`, `uint8_t sync_count`, `uint32_t bit_count/err_count`, `size_t hist_count` are `Nat` with the
wrap-around of the C++ type made explicit; the 16-byte history bitmap is a `List Bool` of 128 entries.
-/
import M17.Gen.Prbs

namespace M17.Prbs

structure St where
  state : Nat
  synced : Bool
  syncCount : Nat
  bitCount : Nat
  errCount : Nat
  history : List Bool
  histCount : Nat
  histPos : Nat
  deriving Repr, DecidableEq

def histBits : Nat := Gen.prbsHistBits

/-- freshly constructed object / `reset()` (the constructor leaves `history` uninitialised; it is cleared at lock) -/
def init : St :=
  { state := Gen.prbsInitState, synced := false, syncCount := 0, bitCount := 0, errCount := 0,
    history := List.replicate histBits false, histCount := 0, histPos := 0 }

/-- feedback bit `((state >> TAP_1) ^ (state >> TAP_2)) & 1` -/
def fb (state : Nat) : Bool := (state >>> Gen.prbsTap1) % 2 != (state >>> Gen.prbsTap2) % 2

def shiftIn (state : Nat) (b : Bool) : Nat := ((state <<< 1) ||| (if b then 1 else 0)) &&& Gen.prbsMask

/-- `generate()` -/
def generate (s : St) : St × Bool :=
  let r := fb s.state
  ({ s with state := shiftIn s.state r }, r)

/-- `count_errors(error)` -/
def countErrors (s : St) (error : Bool) : St :=
  let old := s.history.getD s.histPos false
  let hc := (s.histCount + 2 ^ 64 - (if old then 1 else 0)) % 2 ^ 64          -- size_t subtraction
  let s1 := { s with bitCount := (s.bitCount + 1) % 2 ^ 32, histCount := hc }
  let s2 :=
    if error then
      let hc' := (s1.histCount + 1) % 2 ^ 64
      { s1 with errCount := (s1.errCount + 1) % 2 ^ 32, histCount := hc',
                history := s1.history.set s1.histPos true,
                synced := if hc' ≥ Gen.prbsUnlockCount then false else s1.synced }
    else { s1 with history := s1.history.set s1.histPos false }
  { s2 with histPos := if s2.histPos + 1 = histBits then 0 else s2.histPos + 1 }

/-- `synchronize(bit)` -/
def synchronize (s : St) (bit : Bool) : St × Bool :=
  let result := bit != fb s.state
  let s1 := { s with state := shiftIn s.state bit }
  if result then ({ s1 with syncCount := 0 }, result)
  else
    let sc := (s1.syncCount + 1) % 256
    if sc = Gen.prbsLockCount then
      ({ s1 with synced := true, bitCount := (s1.bitCount + Gen.prbsLockCount) % 2 ^ 32,
                 history := List.replicate histBits false, histCount := 0, histPos := 0, syncCount := 0 }, result)
    else ({ s1 with syncCount := sc }, result)

/-- `validate(bit)` -/
def validate (s : St) (bit : Bool) : St × Bool :=
  if !s.synced then synchronize s bit
  else
    let (s1, g) := generate s
    let result := bit != g
    (countErrors s1 result, result)

/-- `reset()` -/
def reset (_ : St) : St := init

/-- feed a list of bits through `validate` -/
def run (s : St) (bits : List Bool) : St := bits.foldl (fun s b => (validate s b).1) s

/-- the generator's output for `n` steps from register value `g`, and the register afterwards -/
def genBits : Nat → Nat → List Bool
  | 0, _ => []
  | n+1, g => fb g :: genBits n (shiftIn g (fb g))

def genState : Nat → Nat → Nat
  | 0, g => g
  | n+1, g => genState n (shiftIn g (fb g))

end M17.Prbs

/-
Model of include/m17cxx/PolynomialInterleaver.h and include/m17cxx/M17Randomizer.h.
Parameters F1, F2, K and the randomizer bytes come from `M17.Gen.Cond` (regenerated every run).
Soft values are `Int` in the `int8_t` range; narrowing is explicit where the code narrows.
-/
import M17.Gen.Cond
import M17.Model.Bytes

namespace M17.Cond
open M17.Bytes

def K : Nat := Gen.ileaveK

/-- `index(i) = ((F1 * i) + (F2 * i * i)) % K` -/
def index (i : Nat) : Nat := (Gen.ileaveF1 * i + Gen.ileaveF2 * i * i) % K

/-- the loop `for i: buffer[idx(i)] = data[i]` on a zero-filled buffer of the same length -/
def scatter (idx : Nat → Nat) (n : Nat) (dflt : α) (xs : List α) : List α :=
  (List.range n).foldl (fun buf i => buf.set (idx i) (xs.getD i dflt)) (List.replicate n dflt)

/-- the loop `for i: buffer[i] = frame[idx(i)]` -/
def gather (idx : Nat → Nat) (n : Nat) (dflt : α) (xs : List α) : List α :=
  (List.range n).map (fun i => xs.getD (idx i) dflt)

/-- `interleave(buffer_t&)` (soft / int8 array variant) -/
def interleaveSoft (xs : List Int) : List Int := scatter index K 0 xs
/-- `deinterleave(buffer_t&)` -/
def deinterleaveSoft (xs : List Int) : List Int := gather index K 0 xs

/-- `interleave(bytes_t&)`: `assign_bit_index(buffer, index(i), get_bit_index(data, i))` on zeroed bytes -/
def interleaveBytes (bs : List Nat) : List Nat :=
  (List.range K).foldl (fun buf i => assignBit buf (index i) (getBit bs i)) (List.replicate (K / 8) 0)
/-- `deinterleave(bytes_t&)` -/
def deinterleaveBytes (bs : List Nat) : List Nat :=
  (List.range K).foldl (fun buf i => assignBit buf i (getBit bs (index i))) (List.replicate (K / 8) 0)

/-! ### randomizer -/

/-- conversion of an `int` result to `int8_t` (two's complement wrap) -/
def narrow8 (x : Int) : Int := (x + 128) % 256 - 128

/-- bit `i` (MSB first) of the randomizer byte sequence -/
def dcBit (i : Nat) : Bool := getBit Gen.randDC i

/-- `dc_[i]` as the constructor computes it: -1 where the DC bit is set, +1 otherwise -/
def dcSign (i : Nat) : Int := if dcBit i then -1 else 1

/-- `operator()(std::array<int8_t,N>&)`: `frame[i] *= dc_[i]` -/
def randSoft (xs : List Int) : List Int := xs.zipIdx.map fun (x, i) => narrow8 (x * dcSign i)

/-- `x ^ b` for a two's-complement `int8_t` x and a bit b: flips the least significant bit -/
def xorLsb (x : Int) (b : Bool) : Int := if b then (if x % 2 = 0 then x + 1 else x - 1) else x

/-- `randomize(std::array<int8_t,N>&)`: `frame[i] ^= (dc_[i] == -1)` -/
def randBits (xs : List Int) : List Int :=
  xs.zipIdx.map fun (x, i) => xorLsb x (dcSign i = -1)

/-- one inner step of `M17ByteRandomizer`: `(f & ~mask) | ((f & mask) ^ (dc & mask))` on `uint8_t` -/
def randByteStep (f dc mask : Nat) : Nat := (f &&& (255 ^^^ mask)) ||| ((f &&& mask) ^^^ (dc &&& mask))

/-- `M17ByteRandomizer::operator()`: for j = 8..1, mask = 1 << (j-1) -/
def randByte (f dc : Nat) : Nat :=
  [128, 64, 32, 16, 8, 4, 2, 1].foldl (fun f m => randByteStep f dc m) f

def randBytes (bs : List Nat) : List Nat := bs.zipIdx.map fun (b, i) => randByte b (Gen.randDC.getD i 0)

end M17.Cond

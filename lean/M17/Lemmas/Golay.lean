/-
Helper lemmas for C04 (Golay).  Table lemmas are kernel evaluations over the *whole* table
(`decide +kernel`); everything else is algebra (GF(2)-linearity of the shift register).
-/
import M17.Model.Golay
import M17.Spec.Golay
import M17.Lemmas.Bits

namespace M17.Golay
open M17.Bits

/-! ### linearity -/

theorem synStepP_lin (poly a b : Nat) : synStepP poly (a ^^^ b) = synStepP poly a ^^^ synStepP poly b := by
  unfold synStepP
  have ha : a % 2 = 0 ∨ a % 2 = 1 := by omega
  have hb : b % 2 = 0 ∨ b % 2 = 1 := by omega
  have hx : ((a ^^^ b) % 2 = 1) ↔ ¬ ((a % 2 = 1) ↔ (b % 2 = 1)) := Nat.xor_mod_two_eq_one
  rcases ha with ha | ha <;> rcases hb with hb | hb
  · have : ¬ ((a ^^^ b) % 2 = 1) := by rw [hx]; omega
    simp [ha, hb, this, Nat.xor_div_two]
  · have : (a ^^^ b) % 2 = 1 := by rw [hx]; omega
    simp [ha, hb, this, ← Nat.xor_div_two, Nat.xor_assoc]
  · have : (a ^^^ b) % 2 = 1 := by rw [hx]; omega
    simp only [ha, hb, this, ← Nat.xor_div_two, if_true]
    simp
    congr 1
    rw [Nat.xor_assoc, Nat.xor_comm b, ← Nat.xor_assoc]
  · have : ¬ ((a ^^^ b) % 2 = 1) := by rw [hx]; omega
    simp only [ha, hb, this, ← Nat.xor_div_two, if_true, if_false]
    congr 1
    rw [Nat.xor_assoc, ← Nat.xor_assoc poly, Nat.xor_comm poly b, Nat.xor_assoc b, Nat.xor_self, Nat.xor_zero]

theorem synStep_lin (a b : Nat) : synStep (a ^^^ b) = synStep a ^^^ synStep b := synStepP_lin _ a b

theorem syn_lin (a b : Nat) : syn (a ^^^ b) = syn a ^^^ syn b := iter_lin _ synStep_lin 12 a b

theorem syn_zero : syn 0 = 0 := by decide

/-! ### size of the register -/

theorem poly_lt : Gen.golayPoly < 2 ^ 12 := by decide

theorem synStep_lt (k c : Nat) (hk : 12 ≤ k) (hc : c < 2 ^ (k + 1)) : synStep c < 2 ^ k := by
  unfold synStep synStepP
  have hp : Gen.golayPoly < 2 ^ (k + 1) :=
    Nat.lt_of_lt_of_le poly_lt (Nat.pow_le_pow_right (by decide) (by omega))
  have hx : c ^^^ Gen.golayPoly < 2 ^ (k + 1) := Nat.xor_lt_two_pow hc hp
  rw [Nat.pow_succ] at hc hx
  split <;> omega

theorem syn_lt (x : Nat) (hx : x < 2 ^ 23) : syn x < 2 ^ 11 := by
  unfold syn
  simp only [iter]
  have h1 := synStep_lt 22 x (by omega) hx
  have h2 := synStep_lt 21 _ (by omega) h1
  have h3 := synStep_lt 20 _ (by omega) h2
  have h4 := synStep_lt 19 _ (by omega) h3
  have h5 := synStep_lt 18 _ (by omega) h4
  have h6 := synStep_lt 17 _ (by omega) h5
  have h7 := synStep_lt 16 _ (by omega) h6
  have h8 := synStep_lt 15 _ (by omega) h7
  have h9 := synStep_lt 14 _ (by omega) h8
  have h10 := synStep_lt 13 _ (by omega) h9
  have h11 := synStep_lt 12 _ (by omega) h10
  -- last round: c < 2^12, result < 2^11
  have h12 : synStep (synStep (synStep (synStep (synStep (synStep (synStep (synStep (synStep (synStep (synStep (synStep x)))))))))))
      < 2 ^ 11 := by
    generalize (synStep (synStep (synStep (synStep (synStep (synStep (synStep (synStep (synStep (synStep (synStep x))))))))))) = c at h11 ⊢
    unfold synStep synStepP
    have hxx : c ^^^ Gen.golayPoly < 2 ^ 12 := Nat.xor_lt_two_pow h11 poly_lt
    split <;> omega
  exact h12

/-! ### table lemmas (kernel evaluation over complete tables) -/

/-- every data word: codeword has zero syndrome, is systematic, fits in 23 bits, and the `|` of
    `encode23` is a disjoint union -/
def encTableOK : Bool :=
  (List.range 4096).all fun d =>
    syn (encode23 d) == 0 && encode23 d >>> 11 == d && decide (encode23 d < 2 ^ 23)
      && encode23 d == (syn d ^^^ (d <<< 11))

set_option maxRecDepth 1000000 in
theorem encTable_ok : encTableOK = true := by decide +kernel

/-- no non-zero word of the low 11 bits has zero syndrome -/
def lowTableOK : Bool := (List.range 2048).all fun t => t == 0 || syn t != 0

set_option maxRecDepth 1000000 in
theorem lowTable_ok : lowTableOK = true := by decide +kernel

/-- minimum weight of the (23,12) code is 7 and of the (24,12) code 8; (24,12) codewords have even
    weight, are systematic, and equal the specification's codewords -/
def wtTableOK : Bool :=
  (List.range 4096).all fun d =>
    (d == 0 || decide (7 ≤ wtN 23 (encode23 d))) &&
    (d == 0 || decide (8 ≤ wtN 24 (encode24 d))) &&
    wtN 24 (encode24 d) % 2 == 0 &&
    encode24 d >>> 12 == d &&
    decide (encode24 d < 2 ^ 24) &&
    encode24 d == Spec.golay24 d

set_option maxRecDepth 1000000 in
theorem wtTable_ok : wtTableOK = true := by decide +kernel

/-- the generated LUT: entry `i` has key `i << 12`, a pattern of weight ≤ 3 below 2^23 whose
    syndrome is `i`; 2048 entries -/
def lutOKb : Bool :=
  lut.length == 2048 &&
  lut.zipIdx.all fun e =>
    e.1.1 == e.2 <<< 12 && syn e.1.2 == e.2 && decide (wtN 23 e.1.2 ≤ 3) && decide (e.1.2 < 2 ^ 23)

set_option maxRecDepth 1000000 in
theorem lutOKb_true : lutOKb = true := by decide +kernel

end M17.Golay

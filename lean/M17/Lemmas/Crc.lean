/-
Helper lemmas for C09 (CRC-16): GF(2)-linearity and injectivity of the register step, the
augmented/direct commutation, self-feeding of the CRC bytes.  Core Lean only.
-/
import M17.Model.Crc
import M17.Spec.Crc
import M17.Lemmas.Bits

namespace M17.CrcL
open M17.Spec M17.Bits

/-- zero-input register step (shift left, reduce by the polynomial) -/
def a0 (r : Nat) : Nat := (2 * r % 65536) ^^^ (if 32768 ≤ r then crcPoly else 0)

def iter (f : Nat → Nat) : Nat → Nat → Nat
  | 0, x => x
  | n+1, x => iter f n (f x)

theorem poly_lt : crcPoly < 65536 := by decide
theorem poly_odd : crcPoly % 2 = 1 := by decide

theorem a0_lt (r : Nat) : a0 r < 65536 := by
  unfold a0
  have h1 : 2 * r % 65536 < 2 ^ 16 := by omega
  have h2 : (if 32768 ≤ r then crcPoly else 0) < 2 ^ 16 := by split <;> decide
  exact Nat.xor_lt_two_pow h1 h2

theorem a0_zero : a0 0 = 0 := by decide

theorem msb_iff (x : Nat) (hx : x < 65536) : x.testBit 15 = decide (32768 ≤ x) := by
  rw [Nat.testBit_eq_decide_div_mod_eq]
  congr 1
  apply propext
  constructor <;> intro h <;> omega

theorem msb_xor (a b : Nat) (ha : a < 65536) (hb : b < 65536) :
    decide (32768 ≤ a ^^^ b) = (decide (32768 ≤ a) ^^ decide (32768 ≤ b)) := by
  have hab : a ^^^ b < 65536 := Nat.xor_lt_two_pow (n := 16) ha hb
  rw [← msb_iff _ hab, ← msb_iff _ ha, ← msb_iff _ hb, Nat.testBit_xor]

theorem dbl_xor (a b : Nat) : 2 * (a ^^^ b) % 65536 = (2 * a % 65536) ^^^ (2 * b % 65536) := by
  rw [← xor_double]
  exact Nat.xor_mod_two_pow (n := 16)

theorem a0_lin (a b : Nat) (ha : a < 65536) (hb : b < 65536) : a0 (a ^^^ b) = a0 a ^^^ a0 b := by
  unfold a0
  rw [dbl_xor]
  have hm := msb_xor a b ha hb
  generalize 2 * a % 65536 = x
  generalize 2 * b % 65536 = y
  by_cases h1 : 32768 ≤ a <;> by_cases h2 : 32768 ≤ b <;> by_cases h3 : 32768 ≤ a ^^^ b <;>
    simp [h1, h2, h3] at hm ⊢ <;> grind

theorem a0_eq_zero (x : Nat) (hx : x < 65536) (h : a0 x = 0) : x = 0 := by
  unfold a0 at h
  by_cases hm : 32768 ≤ x
  · rw [if_pos hm] at h
    have := eq_of_xor_eq_zero h
    have := poly_odd
    omega
  · rw [if_neg hm, Nat.xor_zero] at h; omega

theorem a0_inj (a b : Nat) (ha : a < 65536) (hb : b < 65536) (h : a0 a = a0 b) : a = b := by
  have hab : a ^^^ b < 65536 := Nat.xor_lt_two_pow (n := 16) ha hb
  have : a0 (a ^^^ b) = 0 := by rw [a0_lin a b ha hb, h, Nat.xor_self]
  exact eq_of_xor_eq_zero (a0_eq_zero _ hab this)

theorem iter_a0_lt (n r : Nat) (hr : r < 65536) : iter a0 n r < 65536 := by
  induction n generalizing r with
  | zero => exact hr
  | succ n ih => exact ih _ (a0_lt r)

theorem iter_a0_lin (n : Nat) : ∀ a b, a < 65536 → b < 65536 →
    iter a0 n (a ^^^ b) = iter a0 n a ^^^ iter a0 n b := by
  induction n with
  | zero => intro a b _ _; rfl
  | succ n ih => intro a b ha hb; simp only [iter]; rw [a0_lin a b ha hb]; exact ih _ _ (a0_lt a) (a0_lt b)

theorem iter_comm (f : Nat → Nat) (n : Nat) (a : Nat) : iter f n (f a) = f (iter f n a) := by
  induction n generalizing a with
  | zero => rfl
  | succ n ih => simp [iter, ih]

theorem iter_a0_zero (n : Nat) : iter a0 n 0 = 0 := by
  induction n with
  | zero => rfl
  | succ n ih => simp only [iter]; rw [a0_zero]; exact ih

theorem iter_a0_ne_zero (n x : Nat) (hx : x < 65536) (h : x ≠ 0) : iter a0 n x ≠ 0 := by
  induction n generalizing x with
  | zero => exact h
  | succ n ih =>
    simp only [iter]
    exact ih _ (a0_lt x) (fun h0 => h (a0_eq_zero x hx h0))

theorem iter_add (f : Nat → Nat) (m n x : Nat) : iter f (m + n) x = iter f n (iter f m x) := by
  induction m generalizing x with
  | zero => simp [iter]
  | succ m ih => rw [Nat.succ_add]; simp only [iter]; exact ih _

def fwd16 (r : Nat) : Nat := iter a0 16 r

theorem fwd16_one : fwd16 1 = crcPoly := by decide
theorem fwd16_zero : fwd16 0 = 0 := iter_a0_zero 16

/-- direct-form step = zero-input step xor (message bit · polynomial) -/
theorem crcStep_eq (r : Nat) (b : Bool) : crcStep r b = a0 r ^^^ (if b then crcPoly else 0) := by
  unfold crcStep a0
  by_cases h : 32768 ≤ r <;> cases b <;> simp [h]
  rw [Nat.xor_assoc, Nat.xor_self, Nat.xor_zero]

theorem crcStep_lt (r : Nat) (b : Bool) : crcStep r b < 65536 := by
  rw [crcStep_eq]
  have h2 : (if b then crcPoly else 0) < 2 ^ 16 := by split <;> decide
  exact Nat.xor_lt_two_pow (n := 16) (a0_lt r) h2

/-- augmented-form step (message bit enters at the LSB) -/
def aStep (r : Nat) (b : Bool) : Nat := a0 r ^^^ (if b then 1 else 0)

theorem aStep_lt (r : Nat) (b : Bool) : aStep r b < 65536 := by
  unfold aStep
  have h2 : (if b then 1 else 0) < 2 ^ 16 := by split <;> decide
  exact Nat.xor_lt_two_pow (n := 16) (a0_lt r) h2

/-- the augmented register, run 16 further zero steps, is the direct register -/
theorem commute (r : Nat) (b : Bool) (_hr : r < 65536) : fwd16 (aStep r b) = crcStep (fwd16 r) b := by
  rw [crcStep_eq]; unfold aStep fwd16
  have hb : (if b then 1 else 0) < 65536 := by split <;> decide
  rw [iter_a0_lin 16 _ _ (a0_lt r) hb, iter_comm]
  cases b
  · simp [iter_a0_zero]
  · have := fwd16_one; unfold fwd16 at this; simp [this]

theorem crcBitsFrom_lt (bits : List Bool) (r : Nat) (hr : r < 65536) : crcBitsFrom r bits < 65536 := by
  induction bits generalizing r with
  | nil => exact hr
  | cons b bs ih => exact ih _ (crcStep_lt r b)

theorem crcBitsFrom_append (r : Nat) (x y : List Bool) :
    crcBitsFrom r (x ++ y) = crcBitsFrom (crcBitsFrom r x) y := by
  unfold crcBitsFrom; rw [List.foldl_append]

theorem crcBitsFrom_zeros (j r : Nat) : crcBitsFrom r (List.replicate j false) = iter a0 j r := by
  induction j generalizing r with
  | zero => rfl
  | succ j ih =>
    rw [List.replicate_succ]
    show crcBitsFrom (crcStep r false) _ = _
    rw [ih, crcStep_eq]; simp [iter]

/-- affine in the message: crc(m ⊕ e) from r ⊕ s = crc(m) from r ⊕ crc(e) from s -/
theorem crc_affine : ∀ (m e : List Bool) (r s : Nat), m.length = e.length → r < 65536 → s < 65536 →
    crcBitsFrom (r ^^^ s) (List.zipWith xor m e) = crcBitsFrom r m ^^^ crcBitsFrom s e := by
  intro m
  induction m with
  | nil => intro e r s h _ _; cases e <;> simp_all [crcBitsFrom]
  | cons x m ih =>
    intro e r s h hr hs
    cases e with
    | nil => simp at h
    | cons y e =>
      simp only [List.zipWith_cons_cons]
      show crcBitsFrom (crcStep (r ^^^ s) (xor x y)) _ = crcBitsFrom (crcStep r x) m ^^^ crcBitsFrom (crcStep s y) e
      have hstep : crcStep (r ^^^ s) (xor x y) = crcStep r x ^^^ crcStep s y := by
        rw [crcStep_eq, crcStep_eq, crcStep_eq, a0_lin r s hr hs]
        generalize a0 r = A
        generalize a0 s = B
        cases x <;> cases y <;> simp <;> first | ac_rfl | exact (xor_cancel_mid _ _ _).symm
      rw [hstep]
      exact ih e _ _ (by simpa using h) (crcStep_lt r x) (crcStep_lt s y)

/-! ### feeding a register its own bits zeroes it -/

/-- the next `k` most significant bits of a 16-bit register, as the register shifts left -/
def msbBits : Nat → Nat → List Bool
  | 0, _ => []
  | k+1, r => decide (32768 ≤ r) :: msbBits k (2 * r % 65536)

theorem selfStep (r : Nat) : crcStep r (decide (32768 ≤ r)) = 2 * r % 65536 := by
  unfold crcStep; simp

theorem feed_msbBits16 (r : Nat) (_hr : r < 65536) : crcBitsFrom r (msbBits 16 r) = 0 := by
  simp only [msbBits, crcBitsFrom, List.foldl, selfStep]
  omega

end M17.CrcL

/-
Lemmas about the MSB-first bit helpers (`M17.Bytes`): what `assignBit` does to `getBit`,
lengths, byte bounds.
-/
import M17.Model.Bytes

namespace M17.Bytes

def AllBytes (bs : List Nat) : Prop := ∀ b ∈ bs, b < 256

theorem getD_set_eq {α} (l : List α) (i j : Nat) (a d : α) :
    (l.set i a).getD j d = if i = j ∧ i < l.length then a else l.getD j d := by
  simp only [List.getD_eq_getElem?_getD, List.getElem?_set]
  by_cases h : i = j
  · subst h
    by_cases h2 : i < l.length
    · simp [h2]
    · simp [h2]
  · simp [h]

theorem length_setBit (bs : List Nat) (i : Nat) : (setBit bs i).length = bs.length := by simp [setBit]
theorem length_resetBit (bs : List Nat) (i : Nat) : (resetBit bs i).length = bs.length := by simp [resetBit]
theorem length_assignBit (bs : List Nat) (i : Nat) (v : Bool) : (assignBit bs i v).length = bs.length := by
  unfold assignBit; split <;> simp [length_setBit, length_resetBit]

theorem testBit_255 (k : Nat) : (255 : Nat).testBit k = decide (k < 8) := by
  have : (255 : Nat) = 2 ^ 8 - 1 := by decide
  rw [this, Nat.testBit_two_pow_sub_one]

/-- reading any bit after an assignment -/
theorem getBit_assignBit (bs : List Nat) (i j : Nat) (v : Bool) (hi : i < 8 * bs.length) :
    getBit (assignBit bs i v) j = if j = i then v else getBit bs j := by
  have hlen : i / 8 < bs.length := by omega
  unfold assignBit
  by_cases hj : j = i
  · subst hj
    simp only [if_true]
    cases v
    · simp only [Bool.false_eq_true, if_false, resetBit, getBit, getD_set_eq, hlen, and_self, if_true]
      rw [Nat.testBit_and, Nat.testBit_xor, Nat.testBit_two_pow, testBit_255]
      have : decide (7 - j % 8 < 8) = true := by simp; omega
      simp [this]
    · simp only [if_true, setBit, getBit, getD_set_eq, hlen, and_self]
      rw [Nat.testBit_or, Nat.testBit_two_pow]
      simp
  · simp only [hj, if_false]
    by_cases hb : j / 8 = i / 8
    · have hk : 7 - j % 8 ≠ 7 - i % 8 := by omega
      cases v
      · simp only [Bool.false_eq_true, if_false, resetBit, getBit, getD_set_eq, hb, hlen, and_self, if_true]
        rw [Nat.testBit_and, Nat.testBit_xor, Nat.testBit_two_pow, testBit_255]
        have : decide (7 - i % 8 = 7 - j % 8) = false := by simp; omega
        rw [this]
        have : decide (7 - j % 8 < 8) = true := by simp; omega
        simp [this]
      · simp only [if_true, setBit, getBit, getD_set_eq, hb, hlen, and_self]
        rw [Nat.testBit_or, Nat.testBit_two_pow]
        have : decide (7 - i % 8 = 7 - j % 8) = false := by simp; omega
        simp [this]
    · have hne : ¬ (i / 8 = j / 8 ∧ i / 8 < bs.length) := fun h => hb h.1.symm
      cases v
      · simp only [Bool.false_eq_true, if_false, resetBit, getBit, getD_set_eq, hne]
      · simp only [if_true, setBit, getBit, getD_set_eq, hne, if_false]

theorem getBit_replicate_zero (n j : Nat) : getBit (List.replicate n 0) j = false := by
  unfold getBit
  simp only [List.getD_eq_getElem?_getD, List.getElem?_replicate]
  split <;> simp

end M17.Bytes

/-
Generic lemmas for C10: a scatter loop through a bijection followed by the gather loop through the
same bijection is the identity (both orders), for element arrays and for packed bit arrays.
-/
import M17.Model.Cond
import M17.Lemmas.Bytes

namespace M17.Cond
open M17.Bytes

/-- `π` is a bijection of `{0..n-1}` with inverse `σ` -/
def Bij (π σ : Nat → Nat) (n : Nat) : Prop :=
  (∀ i, i < n → π i < n ∧ σ (π i) = i) ∧ (∀ p, p < n → σ p < n ∧ π (σ p) = p)

theorem foldl_set_length {α} (f : Nat → Nat) (g : Nat → α) (l : List Nat) (buf : List α) :
    (l.foldl (fun b i => b.set (f i) (g i)) buf).length = buf.length := by
  induction l generalizing buf with
  | nil => rfl
  | cons a l ih => simp [List.foldl, ih]

/-- state of the scatter loop after `m` iterations -/
theorem scatter_prefix {α} (π σ : Nat → Nat) (n : Nat) (h : Bij π σ n) (g : Nat → α) (d : α) (buf : List α)
    (hb : buf.length = n) (m : Nat) (hm : m ≤ n) (p : Nat) (hp : p < n) :
    ((List.range m).foldl (fun b i => b.set (π i) (g i)) buf).getD p d =
      if σ p < m then g (σ p) else buf.getD p d := by
  induction m with
  | zero => simp
  | succ m ih =>
    rw [List.range_succ, List.foldl_append]
    simp only [List.foldl]
    rw [getD_set_eq, foldl_set_length, hb, ih (by omega)]
    have hπm := (h.1 m (by omega))
    have hσp := (h.2 p hp)
    by_cases hmp : π m = p
    · have : σ p = m := by rw [← hmp]; exact hπm.2
      simp [hmp, hp, this]
    · have hne : σ p ≠ m := by
        intro hc; apply hmp; rw [← hc]; exact hσp.2
      have h1 : ¬ (π m = p ∧ π m < n) := fun c => hmp c.1
      rw [if_neg h1]
      by_cases hlt : σ p < m
      · have : σ p < m + 1 := by omega
        simp [hlt, this]
      · have : ¬ σ p < m + 1 := by omega
        simp [hlt, this]

theorem scatter_getD {α} (π σ : Nat → Nat) (n : Nat) (h : Bij π σ n) (d : α) (xs : List α)
    (p : Nat) (hp : p < n) : (scatter π n d xs).getD p d = xs.getD (σ p) d := by
  unfold scatter
  rw [scatter_prefix π σ n h (fun i => xs.getD i d) d _ (by simp) n (Nat.le_refl n) p hp]
  simp [(h.2 p hp).1]

theorem scatter_length {α} (π : Nat → Nat) (n : Nat) (d : α) (xs : List α) : (scatter π n d xs).length = n := by
  unfold scatter; rw [foldl_set_length]; simp

theorem gather_length {α} (π : Nat → Nat) (n : Nat) (d : α) (xs : List α) : (gather π n d xs).length = n := by
  unfold gather; simp

theorem gather_getD {α} (π : Nat → Nat) (n : Nat) (d : α) (xs : List α) (i : Nat) (hi : i < n) :
    (gather π n d xs).getD i d = xs.getD (π i) d := by
  unfold gather
  simp [List.getD_eq_getElem?_getD, hi]

theorem list_ext_getD {α} (a b : List α) (d : α) (n : Nat) (ha : a.length = n) (hb : b.length = n)
    (h : ∀ i, i < n → a.getD i d = b.getD i d) : a = b := by
  apply List.ext_getElem (by omega)
  intro i h1 h2
  have := h i (by omega)
  simpa [List.getD_eq_getElem?_getD, h1, h2] using this

/-- gather ∘ scatter = id -/
theorem gather_scatter {α} (π σ : Nat → Nat) (n : Nat) (h : Bij π σ n) (d : α) (xs : List α) (hx : xs.length = n) :
    gather π n d (scatter π n d xs) = xs := by
  apply list_ext_getD _ _ d n (gather_length _ _ _ _) hx
  intro i hi
  rw [gather_getD _ _ _ _ _ hi, scatter_getD π σ n h d xs _ (h.1 i hi).1, (h.1 i hi).2]

/-- scatter ∘ gather = id -/
theorem scatter_gather {α} (π σ : Nat → Nat) (n : Nat) (h : Bij π σ n) (d : α) (xs : List α) (hx : xs.length = n) :
    scatter π n d (gather π n d xs) = xs := by
  apply list_ext_getD _ _ d n (scatter_length _ _ _ _) hx
  intro p hp
  rw [scatter_getD π σ n h d _ p hp, gather_getD _ _ _ _ _ (h.2 p hp).1, (h.2 p hp).2]

/-! ### packed-bit loops -/

theorem foldl_assign_length (tgt : Nat → Nat) (val : Nat → Bool) (l : List Nat) (buf : List Nat) :
    (l.foldl (fun b i => assignBit b (tgt i) (val i)) buf).length = buf.length := by
  induction l generalizing buf with
  | nil => rfl
  | cons a l ih => simp [List.foldl, ih, length_assignBit]

/-- state of a loop of `assign_bit_index(buffer, tgt(i), val(i))` after `m` iterations -/
theorem assign_prefix (π σ : Nat → Nat) (n : Nat) (h : Bij π σ n) (val : Nat → Bool) (buf : List Nat)
    (hb : 8 * buf.length = n) (m : Nat) (hm : m ≤ n) (p : Nat) (hp : p < n) :
    getBit ((List.range m).foldl (fun b i => assignBit b (π i) (val i)) buf) p =
      if σ p < m then val (σ p) else getBit buf p := by
  induction m with
  | zero => simp
  | succ m ih =>
    rw [List.range_succ, List.foldl_append]
    simp only [List.foldl]
    have hπm := (h.1 m (by omega))
    have hσp := (h.2 p hp)
    rw [getBit_assignBit _ _ _ _ (by rw [foldl_assign_length]; omega), ih (by omega)]
    by_cases hmp : p = π m
    · have : σ p = m := by rw [hmp]; exact hπm.2
      rw [if_pos hmp, this]
      simp
    · have hne : σ p ≠ m := by
        intro hc; apply hmp; rw [← hc]; exact hσp.2.symm
      rw [if_neg hmp]
      by_cases hlt : σ p < m
      · have : σ p < m + 1 := by omega
        simp [hlt, this]
      · have : ¬ σ p < m + 1 := by omega
        simp [hlt, this]

theorem bij_id (n : Nat) : Bij id id n := ⟨fun _ hi => ⟨hi, rfl⟩, fun _ hp => ⟨hp, rfl⟩⟩

end M17.Cond

/-
General lemmas on `Nat` bit operations and on the population count `wtN` used by the Golay and CRC
proofs.  Core Lean only.
-/
import M17.Model.Golay

namespace M17.Bits
open M17.Golay (wtN iter)

theorem eq_of_xor_eq_zero {a b : Nat} (h : a ^^^ b = 0) : a = b := by
  have : a ^^^ (a ^^^ b) = b := by rw [← Nat.xor_assoc, Nat.xor_self, Nat.zero_xor]
  rw [h, Nat.xor_zero] at this; exact this

theorem xor_cancel_mid (x y p : Nat) : x ^^^ p ^^^ (y ^^^ p) = x ^^^ y := by
  have : x ^^^ p ^^^ (y ^^^ p) = x ^^^ y ^^^ (p ^^^ p) := by ac_rfl
  rw [this, Nat.xor_self, Nat.xor_zero]

theorem all_range {p : Nat → Bool} {n : Nat} (h : ((List.range n).all p) = true) {i : Nat} (hi : i < n) :
    p i = true := by
  rw [List.all_eq_true] at h
  exact h i (List.mem_range.mpr hi)

theorem wtN_zero (n : Nat) : wtN n 0 = 0 := by
  induction n with
  | zero => rfl
  | succ n ih => simp [wtN, ih]

theorem wtN_le (n : Nat) : ∀ x, wtN n x ≤ n := by
  induction n with
  | zero => intro x; simp [wtN]
  | succ n ih => intro x; simp only [wtN]; have := ih (x / 2); omega

theorem wtN_xor_le (n : Nat) : ∀ a b, wtN n (a ^^^ b) ≤ wtN n a + wtN n b := by
  induction n with
  | zero => intro a b; simp [wtN]
  | succ n ih =>
    intro a b
    simp only [wtN, Nat.xor_div_two]
    have := ih (a / 2) (b / 2)
    have hx : ((a ^^^ b) % 2 = 1) ↔ ¬ ((a % 2 = 1) ↔ (b % 2 = 1)) := Nat.xor_mod_two_eq_one
    omega

theorem wtN_xor_parity (n : Nat) : ∀ a b, wtN n (a ^^^ b) % 2 = (wtN n a + wtN n b) % 2 := by
  induction n with
  | zero => intro a b; simp [wtN]
  | succ n ih =>
    intro a b
    simp only [wtN, Nat.xor_div_two]
    have := ih (a / 2) (b / 2)
    have hx : ((a ^^^ b) % 2 = 1) ↔ ¬ ((a % 2 = 1) ↔ (b % 2 = 1)) := Nat.xor_mod_two_eq_one
    omega

/-- bits above the value do not count -/
theorem wtN_of_lt (n : Nat) : ∀ (k x : Nat), x < 2 ^ n → wtN (n + k) x = wtN n x := by
  induction n with
  | zero => intro k x h; have : x = 0 := by simpa using h
            subst this; simp [wtN_zero]
  | succ n ih =>
    intro k x h
    have : n + 1 + k = (n + k) + 1 := by omega
    rw [this]
    simp only [wtN]
    rw [ih k (x / 2) (by rw [Nat.pow_succ] at h; omega)]

theorem wtN_eq_zero (n : Nat) : ∀ x, x < 2 ^ n → wtN n x = 0 → x = 0 := by
  induction n with
  | zero => intro x h _; simpa using h
  | succ n ih =>
    intro x h hw
    simp only [wtN] at hw
    have h1 : x / 2 = 0 := ih (x / 2) (by rw [Nat.pow_succ] at h; omega) (by omega)
    omega

/-- weight of `2*x + b` -/
theorem wtN_succ_double (n x b : Nat) (hb : b < 2) : wtN (n + 1) (2 * x + b) = b + wtN n x := by
  simp only [wtN]
  have h1 : (2 * x + b) % 2 = b := by omega
  have h2 : (2 * x + b) / 2 = x := by omega
  rw [h1, h2]

theorem shl1 (x : Nat) : x <<< 1 = 2 * x := by rw [Nat.shiftLeft_eq]; omega
theorem shr1 (x : Nat) : x >>> 1 = x / 2 := by rw [Nat.shiftRight_eq_div_pow, Nat.pow_one]

theorem shl1_or (x b : Nat) (hb : b < 2) : (x <<< 1) ||| b = 2 * x + b := by
  rw [← Nat.shiftLeft_add_eq_or_of_lt (by simpa using hb), shl1]

theorem xor_double (x y : Nat) : (2 * x) ^^^ (2 * y) = 2 * (x ^^^ y) := by
  rw [← shl1, ← shl1, ← shl1, Nat.shiftLeft_xor_distrib]

/-- xor of `2x+a` and `2y+b` for single bits `a`, `b` -/
theorem xor_double_add (x y a b : Nat) (ha : a < 2) (hb : b < 2) :
    (2 * x + a) ^^^ (2 * y + b) = 2 * (x ^^^ y) + (a ^^^ b) := by
  have hab : a ^^^ b < 2 := Nat.xor_lt_two_pow (n := 1) (by simpa using ha) (by simpa using hb)
  have h1 : ((2 * x + a) ^^^ (2 * y + b)) / 2 = x ^^^ y := by
    rw [Nat.xor_div_two]; congr 1 <;> omega
  have h2 : ((2 * x + a) ^^^ (2 * y + b)) % 2 = a ^^^ b := by
    have hx : (((2 * x + a) ^^^ (2 * y + b)) % 2 = 1) ↔ ¬ (((2 * x + a) % 2 = 1) ↔ ((2 * y + b) % 2 = 1)) :=
      Nat.xor_mod_two_eq_one
    have hy : ((a ^^^ b) % 2 = 1) ↔ ¬ ((a % 2 = 1) ↔ (b % 2 = 1)) := Nat.xor_mod_two_eq_one
    omega
  omega

theorem iter_lin (f : Nat → Nat) (hf : ∀ a b, f (a ^^^ b) = f a ^^^ f b) (n : Nat) :
    ∀ a b, iter f n (a ^^^ b) = iter f n a ^^^ iter f n b := by
  induction n with
  | zero => intro a b; rfl
  | succ n ih => intro a b; simp [iter, hf, ih]

end M17.Bits

/-
`m17drv`: line-protocol driver over the executable model (core Lean only, no Mathlib).
One request per input line: `<op> <int> <int> ...`; one reply line per request.
-/
import M17.Model.Golay
import M17.Spec.Golay
import M17.Model.Crc
import M17.Spec.Crc
import M17.Model.Cond
import M17.Model.Puncture
import M17.Model.Callsign
import M17.Model.Prbs
import M17.Model.Viterbi
import M17.Model.Decoder
import M17.Model.Queue
import M17.Model.Llr
import M17.Model.Dsp
import M17.Gen.Taps
import M17.Spec.Tx
import M17.Model.Mod
import M17.Model.Dcd
import M17.Model.App
import M17.Model.Demod
import M17.Model.Ax25
import M17.Model.AppPacket
import M17.Model.TxMod
import M17.Model.TxModulator
import M17.Model.Clock

open M17

def parseInts (ws : List String) : List Int :=
  ws.filterMap String.toInt?

def showOptNat : Option Nat → String
  | none => "-1"
  | some n => toString n

def joinInts (xs : List Int) : String := " ".intercalate (xs.map toString)
def joinNats (xs : List Nat) : String := " ".intercalate (xs.map toString)

def pmat (P : Nat) : List Nat :=
  if P == 61 then Gen.p1 else if P == 12 then Gen.p2 else if P == 8 then Gen.p3
  else if P == 3 then [1, 0, 1] else if P == 5 then [0, 1, 1, 0, 1] else []

def bitsToInts (bs : List Bool) : List Int := bs.map fun b => if b then 1 else 0

def prbsScenario (toks : List Int) : String :=
  let rec go (fuel : Nat) (toks : List Int) (v : Prbs.St) (h : Nat) : Prbs.St × Nat :=
    match fuel, toks with
    | 0, _ => (v, h)
    | _, [] => (v, h)
    | f+1, 2 :: rest => go f rest Prbs.init h
    | f+1, 3 :: x :: rest => go f rest { v with state := x.toNat % 65536 } h
    | f+1, b :: rest =>
      let (v', r) := Prbs.validate v (b != 0)
      go f rest v' ((h * 1000003 + (if r then 1 else 0) + 2 * (if v'.synced then 1 else 0)) % 1000000007)
  let (v, h) := go (toks.length + 1) toks Prbs.init 7
  joinNats [if v.synced then 1 else 0, v.errCount, v.bitCount, v.state, v.syncCount, v.histCount, v.histPos, h]

def stNum : Q.St → Nat | .opn => 0 | .closing => 1 | .closed => 2

/-- sequential op word through the specification queue; an op that would block times out: `false`, state unchanged -/
def qSeq (cap : Nat) (toks : List Int) : String :=
  let rec go (fuel : Nat) (toks : List Int) (q : Q.BQ) (acc : List Int) : List Int :=
    match fuel, toks with
    | 0, _ => acc
    | _, [] => acc
    | f+1, t :: rest =>
      let (op, rest') : Option Q.Op × List Int :=
        if t == 1 || t == 2 then (match rest with | v :: r => (some (Q.Op.put v.toNat), r) | [] => (none, []))
        else if t == 3 || t == 4 then (some Q.Op.get, rest)
        else if t == 5 then (some Q.Op.close, rest) else if t == 6 then (some Q.Op.isOpen, rest)
        else if t == 7 then (some Q.Op.isClosed, rest) else if t == 8 then (some Q.Op.size, rest)
        else if t == 9 then (some Q.Op.empty, rest) else (none, rest)
      match op with
      | none => go f rest' q (acc ++ [-9])
      | some o =>
        let (q', ok, val) := match q.apply o with
          | some r => r
          | none => (q, false, none)
        let outs : List Int := match o with
          | .get => [if ok then 1 else 0, match val with | some v => Int.ofNat v | none => -1]
          | .size => [match val with | some v => Int.ofNat v | none => -1]
          | _ => [if ok then 1 else 0]
        go f rest' q' (acc ++ outs)
  joinInts (go (toks.length + 1) toks { cap := cap, items := [], st := .opn } [])

/-- replay of the critical-section events recorded by the hook through the specification queue -/
def qTrace (cap : Nat) (ev : List Int) : String :=
  let rec go (fuel : Nat) (ev : List Int) (q : Q.BQ) (i : Nat) : String :=
    match fuel, ev with
    | 0, _ => s!"ok {i}"
    | _, tag :: val :: size :: state :: rest =>
      let chk (q' : Q.BQ) : Bool := q'.items.length == size.toNat && stNum q'.st == state.toNat
      let bad (why : String) := s!"reject event {i} tag {tag}: {why}"
      let f := fuel - 1
      if tag == 1 then
        match q.apply (.put val.toNat) with
        | some (q', true, _) => if chk q' then go f rest q' (i+1) else bad "size/state after put differ"
        | _ => bad "put accepted by the implementation but not enabled in the specification (full or not open)"
      else if tag == 2 then (if q.st != .opn then go f rest q (i+1) else bad "put rejected while open")
      else if tag == 3 then (if q.items.length == q.cap && q.st == .opn then go f rest q (i+1) else bad "put waits although not (full and open)")
      else if tag == 4 then
        match q.apply .get with
        | some (q', true, some v) => if v == val.toNat && chk q' then go f rest q' (i+1) else bad s!"get returned {val}, specification head is {v} (or size/state differ)"
        | _ => bad "get returned an item from an empty queue"
      else if tag == 5 then (if q.st == .closed && q.items.isEmpty then go f rest q (i+1) else bad "get failed although not (closed and empty)")
      else if tag == 6 then (if q.items.isEmpty && q.st != .closed then go f rest q (i+1) else bad "get waits although not (empty and not closed)")
      else if tag == 7 then
        match q.apply .close with
        | some (q', _, _) => if chk q' then go f rest q' (i+1) else bad "state after close differs"
        | none => bad "close"
      else go f rest q (i+1)
    | _, _ => s!"ok {i}"
  go (ev.length + 1) ev { cap := cap, items := [], st := .opn } 0

/-- tap value as a Float (exact: 53-bit mantissa times a power of two) -/
def tapFloat (p : Int × Nat) : Float := Float.ofInt p.1 * Float.exp2 (Float.ofInt (Int.ofNat p.2 - 1074))
def tapFloat32 (p : Int × Nat) : Float32 := (tapFloat p).toFloat32

def dblBits (y : Float) : Int := let b := Int.ofNat y.toBits.toNat; if b ≥ 2 ^ 63 then b - 2 ^ 64 else b

/-- dcd_seq <level bits> <triggered> then per step: <level_1 bits> <level_2 bits>, or -1 0 for unlock() -> per step: level bits, dcd() -/
def dcdSeq (lvl trig : Int) (toks : List Int) : String :=
  let lo := Float32.ofBits (UInt32.ofNat Gen.dcdLoBits)
  let hi := Float32.ofBits (UInt32.ofNat Gen.dcdHiBits)
  let rec go (fuel : Nat) (toks : List Int) (s : Dcd.State Float32) (acc : List Int) : List Int :=
    match fuel, toks with
    | fu+1, a :: b :: rest =>
      let s' := if a < 0 then Dcd.unlock s
                else Dcd.update Dcd.f32ops lo hi s (Float32.ofBits (UInt32.ofNat a.toNat)) (Float32.ofBits (UInt32.ofNat b.toNat))
      -- NaN payloads are not compared: canonical NaN pattern
      let bits : Int := if s'.level.isNaN then -1 else Int.ofNat s'.level.toBits.toNat
      go fu rest s' (acc ++ [bits, if s'.triggered then 1 else 0])
    | _, _ => acc
  joinInts (go (toks.length + 1) toks { level := Float32.ofBits (UInt32.ofNat lvl.toNat), triggered := trig != 0 } [])

/-- demod_trace: 13 numbers per observed state (st sc msc si ssi ci dcd ncr ncu cnt fi swt cost); checks that every observed
    transition of the real demodulator is a transition of the control-skeleton model under some event record -/
def demodTrace (toks : List Int) : String :=
  let rec parse (fuel : Nat) (t : List Int) (acc : Array Demod.St) : Array Demod.St :=
    match fuel, t with
    | fu+1, st :: sc :: msc :: si :: ssi :: ci :: dcd :: ncr :: ncu :: cnt :: fi :: swt :: cost :: rest =>
      parse fu rest (acc.push { st := st.toNat, sc := sc.toNat, msc := msc.toNat, si := si.toNat, ssi := ssi.toNat, ci := ci.toNat, dcd := dcd != 0,
                                ncr := ncr != 0, ncu := ncu != 0, cnt := cnt.toNat, fi := fi.toNat, swt := swt.toNat, cost := cost.toNat, eot := false, frames := 0 })
    | _, _ => acc
  let obs := parse (toks.length + 1) toks #[]
  if obs.size == 0 then "bad empty" else
  Id.run do
    let mut m := obs[0]!
    let mut syms := 0
    for i in [1:obs.size] do
      let post := obs[i]!
      if Demod.isSymbol m then syms := syms + 1
      match Demod.follow m post with
      | some m' => m := m'
      | none => return (s!"bad {i} : {repr m} -> {repr post}".replace "\n" " ")
    return s!"ok {obs.size - 1} {m.frames} {syms}"

def firRun {α : Type} [Add α] [Sub α] [Mul α] [OfNat α 0] (taps : List α) (conv : Int → α) (show_ : α → Int) (toks : List Int) : String :=
  let rec go (fuel : Nat) (toks : List Int) (f : Dsp.Fir α) (acc : List Int) : List Int :=
    match fuel, toks with
    | 0, _ => acc
    | _, [] => acc
    | fu+1, t :: rest =>
      if t == 999999 then go fu rest (Dsp.Fir.init taps) acc
      else let (f', y) := f.step (conv t); go fu rest f' (acc ++ [show_ y])
  joinInts (go (toks.length + 1) toks (Dsp.Fir.init taps) [])

def iirRun {α : Type} [Add α] [Sub α] [Mul α] [OfNat α 0] (b a : List α) (conv : Int → α) (show_ : α → Int) (toks : List Int) : String :=
  let g (l : List α) (i : Nat) : α := l.getD i 0
  let f0 : Dsp.Iir3 α := { b := (g b 0, g b 1, g b 2), a := (g a 0, g a 1, g a 2), w1 := 0, w2 := 0 }
  let (_, out) := toks.foldl (fun (st : Dsp.Iir3 α × List Int) t => let (f', y) := st.1.step (conv t); (f', st.2 ++ [show_ y])) (f0, [])
  joinInts out

/-- direct-form CRC-16 with an arbitrary polynomial and initial value (answers the harness op `crc_other`, which exercises other
    `CRC16<>` instantiations next to the M17 one; not part of the verified model) -/
def genericCrc (poly init : Nat) (bytes : List Nat) : Nat :=
  bytes.foldl (fun r b => (List.range 8).foldl (fun r i =>
    let top := r / 32768 % 2
    let bit := (b >>> (7 - i)) % 2
    let r2 := (2 * r) % 65536
    if top != bit then r2 ^^^ poly else r2) r) init

def clockFreeRun : Nat → List Int → List Int → List Int
  | fu + 1, e :: c :: n :: rest, acc => clockFreeRun fu rest (acc ++ [Clock.freeIndex e c n.toNat])
  | _, _, acc => acc

/-- state carried across lines (stateful components get a field each) -/
structure DrvState where
  dec : Dec.DState := Dec.init

def modeNum : Dec.Mode → Nat
  | .lsf => 0 | .stream => 1 | .basicPacket => 2 | .fullPacket => 3 | .bert => 4
def resultNum : Dec.Result → Nat
  | .fail => 0 | .ok => 1 | .eos => 2 | .incomplete => 3 | .packetIncomplete => 4
def ftypeNum : Dec.FType → Nat
  | .lsf => 0 | .lich => 1 | .stream => 2 | .basicPacket => 3 | .fullPacket => 4 | .bert => 5
def syncOf (n : Int) : Dec.Sync := if n == 0 then .lsf else if n == 1 then .stream else if n == 2 then .packet else .bert

def showStep (o : Dec.StepOut) : String :=
  let cs := match o.cost with
    | none => "none"
    | some c => if c == Dec.sizeMax then "max" else toString c
  let calls := o.calls.foldl (fun acc c => acc ++ s!" | {ftypeNum c.ftype} {c.cost} {joinNats c.bytes}") ""
  s!"{resultNum o.result} {modeNum o.state.mode} {o.state.mask} {cs} {joinNats o.state.lsfBuf}{calls}"

def handle (st : DrvState) (op : String) (a : List Int) : DrvState × String :=
  match op, a with
  | "golay_dec", [w] => (st, showOptNat (Golay.decodeFast w.toNat))
  | "golay_dec_ref", [w] => (st, showOptNat (Golay.decode w.toNat))
  | "golay_enc", [d] => (st, toString (Golay.encode24 d.toNat))
  | "golay_syn", [d] => (st, toString (Golay.syndrome d.toNat))
  | "spec_golay_enc", [d] => (st, toString (Spec.golay24 d.toNat))
  | "golay_digest", [lo, hi] =>
    let rec go (w : Nat) (n : Nat) (h : Nat) (nok : Nat) : Nat × Nat :=
      match n with
      | 0 => (h, nok)
      | n+1 =>
        match Golay.decodeFast w with
        | some o => go (w+1) n ((h * 1000003 + ((o >>> 12) + 1)) % 1000000007) (nok + 1)
        | none => go (w+1) n ((h * 1000003) % 1000000007) nok
    let (h, nok) := go lo.toNat (hi.toNat - lo.toNat) 7 0
    (st, s!"{h} {nok}")
  | "crc", bs => (st, toString (Crc.crc (bs.map Int.toNat)))
  | "spec_crc", bs => (st, toString (Spec.crc16 (bs.map Int.toNat)))
  | "crc_step", [r, b] => (st, toString (Crc.update r.toNat b.toNat))
  | "crc_step_digest", [lo, hi] =>
    let h := (List.range (hi.toNat - lo.toNat)).foldl (fun h k =>
      (List.range 256).foldl (fun h b => (h * 1000003 + Crc.update (lo.toNat + k) b) % 1000000007) h) 7
    (st, toString h)
  | "crc_bytes", bs => (st, joinNats (Crc.getBytes ((bs.map Int.toNat).foldl Crc.update Crc.reset)))
  | "ileave_soft", v => (st, joinInts (Cond.interleaveSoft v))
  | "deileave_soft", v => (st, joinInts (Cond.deinterleaveSoft v))
  | "rand_soft", v => (st, joinInts (Cond.randSoft v))
  | "rand_bits", v => (st, joinInts (Cond.randBits v))
  | "ileave_bytes", v => (st, joinNats (Cond.interleaveBytes (v.map Int.toNat)))
  | "deileave_bytes", v => (st, joinNats (Cond.deinterleaveBytes (v.map Int.toNat)))
  | "rand_bytes", v => (st, joinNats (Cond.randBytes (v.map Int.toNat)))
  | "punct", P :: n_in :: _ :: rest =>
    let xs := rest.take n_in.toNat
    let prev := rest.drop n_in.toNat
    let (out, n) := Punct.puncture (pmat P.toNat) xs prev
    (st, joinInts (Int.ofNat n :: out))
  | "depunct", P :: n_in :: _ :: rest =>
    let xs := rest.take n_in.toNat
    let prev := rest.drop n_in.toNat
    (st, joinInts (Punct.depuncture (pmat P.toNat) xs prev))
  | "punct_bytes", P :: n_in :: _ :: rest =>
    let xs := (rest.take n_in.toNat).map Int.toNat
    let prev := (rest.drop n_in.toNat).map Int.toNat
    let (out, n) := Punct.punctureBytes (pmat P.toNat) xs prev
    (st, joinNats (n :: out))
  | "call_enc", v => (st, joinNats (Call.encode ((v.map Int.toNat) ++ List.replicate (10 - v.length) 0)))
  | "call_enc_s", v => (st, match Call.encodeStrict ((v.map Int.toNat) ++ List.replicate (10 - v.length) 0) with
                            | some a => joinNats a
                            | none => "throw")
  | "call_dec", v => (st, joinNats (Call.decode (v.map Int.toNat)))
  | "prbs_gen", n :: rest =>
    let g := match rest with | [x] => x.toNat | _ => Gen.prbsInitState
    (st, joinInts ((bitsToInts (Prbs.genBits n.toNat g)) ++ [Int.ofNat (Prbs.genState n.toNat g)]))
  | "prbs", toks => (st, prbsScenario toks)
  | "txm_lsf", ns :: rest =>
    -- model of M17Modulator::send_link_setup: txm_lsf <nsrc> src... <ndst> dst... prev x46 -> 48 bytes
    let src := (rest.take ns.toNat).map Int.toNat
    match rest.drop ns.toNat with
    | nd :: r =>
      let dst := (r.take nd.toNat).map Int.toNat
      (st, joinNats (TxModulator.sendLinkSetup src dst ((r.drop nd.toNat).map Int.toNat)))
    | [] => (st, "bad-args")
  | "txm_frame", n :: fn :: rest =>
    -- model of one stream frame of M17Modulator: txm_frame <lich index> <frame number> lsf x30 payload x16 prevL x12 prevP x34 -> 48 bytes
    let v := rest.map Int.toNat
    (st, joinNats (TxModulator.streamFrame (v.take 30) n.toNat fn.toNat ((v.drop 30).take 16) ((v.drop 46).take 12) ((v.drop 58).take 34)))
  | "mod_lsf", _bs :: _inv :: can :: ns :: rest =>
    -- model of m17-mod's send_lsf in bitstream mode (same request as harness/drv_mod.cpp): <30 LSF bytes> | <48 output bytes>
    let src := (rest.take ns.toNat).map Int.toNat
    let rest2 := rest.drop ns.toNat
    let dst := match rest2 with | nd :: r => (r.take nd.toNat).map Int.toNat | [] => []
    (st, joinNats (TxMod.lsfBytes src dst can.toNat) ++ " | " ++ joinNats (TxMod.sendLsf src dst can.toNat))
  | "mod_data", fn :: p => (st, joinInts (TxMod.dataFrame fn.toNat (p.map Int.toNat)))
  | "mod_lich", n :: seg => (st, joinInts (TxMod.lichSegment (seg.map Int.toNat) n.toNat))
  | "mod_audio_frame", _bs :: _inv :: rest => (st, joinNats (TxMod.sendAudioFrame (rest.take 96) (rest.drop 96)))
  | "crc_other", which :: bytes =>
    let (poly, init) := if which == 0 then (0x1021, 0xFFFF) else if which == 1 then (0x8005, 0) else (0x5935, 0)
    (st, toString (genericCrc poly init (bytes.map Int.toNat)))
  | "clock_free", toks => (st, joinInts (clockFreeRun toks.length toks []))
  | "ax25", bytes =>
    let bs (l : List Nat) := String.join (l.map fun b => " " ++ toString b)
    let show_ (d s : List Nat) (reps : List (List Nat)) (t : Nat) (pid : Option Nat) (info : List Nat) :=
      "D" ++ bs d ++ " | S" ++ bs s ++ " | R " ++ toString reps.length ++ String.join (reps.map fun r => " |" ++ bs r) ++
      " | T " ++ toString t ++ " | P " ++ (match pid with | some p => toString p | none => "-1") ++ " | I" ++ bs info
    match Ax25.parse (bytes.map Int.toNat) with
    | some p => (st, show_ p.dest p.src p.reps p.ftype p.pid p.info)
    | none => (st, show_ [] [] [] 0 none [])
  | "app_packets", v =>
    -- model of m17-demod's dump_lsf (packet part) + decode_packet on 26-byte segments: flags, then the size of current_packet
    let bs := v.map Int.toNat
    let mode := bs.getD 0 0
    let lsf := (List.replicate 13 0) ++ [if mode = 1 then 2 else 4] ++ List.replicate 16 0
    let s0 : AppPacket.PState := if mode = 0 then ⟨[], 0⟩ else AppPacket.onLsf lsf
    let body := bs.drop 1
    let segs := (List.range (body.length / 26)).map fun k => (body.drop (26 * k)).take 26
    let (s1, rs) := AppPacket.run s0 segs
    (st, joinNats (rs.map (fun r => if r then 1 else 0) ++ [s1.buf.length]))
  | "app_bert", bytes =>
    -- model of m17-demod's decode_bert on consecutive 25-byte frames from a reset validator: sync, errors, bits
    let bs := bytes.map Int.toNat
    let v := (List.range (bs.length / 25)).foldl (fun v k => Prbs.run v (App.bertBits ((bs.drop (25 * k)).take 25))) Prbs.init
    (st, joinNats [if v.synced then 1 else 0, v.errCount, if v.synced then v.bitCount else 0])
  | "vit", llr :: _ :: nout :: v =>
    let (c, bits) := Vit.decode llr.toNat v nout.toNat
    let m := Vit.dp ((Vit.pairs v).map (fun p => Vit.branch (Vit.costTbl llr.toNat) p.1 p.2)) Vit.initMetrics
    (st, joinInts (Int.ofNat c :: Int.ofNat (m.foldl max 0) :: bitsToInts bits))
  | "dec_new", _ => ({ st with dec := Dec.init }, "ok")
  | "dec_reset", _ => ({ st with dec := Dec.reset st.dec }, "ok")
  | "dec_frame", sync :: cb :: v =>
    let o := Dec.step st.dec (syncOf sync) v (cb != 0)
    ({ st with dec := o.state }, showStep o)
  | "qseq", cap :: toks => (st, qSeq cap.toNat toks)
  | "qtrace", cap :: ev => (st, qTrace cap.toNat ev)
  | "llr", d :: w :: pats =>
    let tbl := Llr.table (d != 0) w.toNat
    let outs := pats.flatMap fun b =>
      let v := if d != 0 then Llr.ofDoubleBits (if b < 0 then b + 2 ^ 64 else b).toNat else Llr.ofFloatBits b.toNat
      let r := Llr.llr tbl v
      [r.1, r.2]
    (st, joinInts outs)
  | "app_lsf", disp :: lsf =>
    (st, "1 | " ++ (App.report (disp != 0) (lsf.map Int.toNat)).replace "\n" "\\n")
  | "demod_trace", toks => (st, demodTrace toks)
  | "dcd_seq", lvl :: trig :: toks =>
    (st, dcdSeq lvl trig toks)
  | "fir", d :: toks =>
    if d != 0 then (st, firRun (Gen.rxTapsD.map tapFloat) (fun n => Float.ofInt n / 4096) dblBits toks)
    else (st, firRun (Gen.rxTapsF.map tapFloat32) (fun n => (Float.ofInt n).toFloat32 / 4096) (fun y => Int.ofNat y.toBits.toNat) toks)
  | "firs", d :: k :: toks =>
    let sc : Float := Float.exp2 (Float.ofInt k)
    if d != 0 then (st, firRun (Gen.rxTapsD.map tapFloat) (fun n => Float.ofInt n / sc) dblBits toks)
    else (st, firRun (Gen.rxTapsF.map tapFloat32) (fun n => (Float.ofInt n).toFloat32 / sc.toFloat32) (fun y => Int.ofNat y.toBits.toNat) toks)
  | "firg", d :: n :: toks =>
    -- the same polymorphic FIR model with an arbitrary tap set (values k/4096) and tap count
    let tp := toks.take n.toNat
    let xs := toks.drop n.toNat
    if d != 0 then (st, firRun (tp.map fun k => Float.ofInt k / 4096) (fun k => Float.ofInt k / 4096) dblBits xs)
    else (st, firRun (tp.map fun k => (Float.ofInt k).toFloat32 / 4096) (fun k => (Float.ofInt k).toFloat32 / 4096) (fun y => Int.ofNat y.toBits.toNat) xs)
  | "iir", d :: toks =>
    if d != 0 then (st, iirRun (Gen.corrBD.map tapFloat) (Gen.corrAD.map tapFloat) (fun n => Float.ofInt n / 4096) dblBits toks)
    else (st, iirRun (Gen.corrBF.map tapFloat32) (Gen.corrAF.map tapFloat32) (fun n => (Float.ofInt n).toFloat32 / 4096) (fun y => Int.ofNat y.toBits.toNat) toks)
  | "iirs", d :: k :: toks =>
    -- the same filter on inputs x / 2^k (the power of two is exact in both formats for the k the harness uses)
    let sc : Float := Float.exp2 (Float.ofInt k)
    if d != 0 then (st, iirRun (Gen.corrBD.map tapFloat) (Gen.corrAD.map tapFloat) (fun n => Float.ofInt n / sc) dblBits toks)
    else (st, iirRun (Gen.corrBF.map tapFloat32) (Gen.corrAF.map tapFloat32) (fun n => (Float.ofInt n).toFloat32 / sc.toFloat32) (fun y => Int.ofNat y.toBits.toNat) toks)
  | "spec_lsf", can :: ns :: rest =>
    -- spec_lsf <can> <nsrc> src... <ndst> dst... -> 30 LSF bytes | 48 frame bytes
    let src := (rest.take ns.toNat).map Int.toNat
    let rest2 := rest.drop ns.toNat
    let dst := match rest2 with | nd :: r => (r.take nd.toNat).map Int.toNat | [] => []
    let lsf := Spec.Tx.lsfBytes dst src (Spec.Tx.voiceType can.toNat) (List.replicate 14 0)
    (st, joinNats lsf ++ " | " ++ joinNats (Spec.Tx.lsfFrame lsf))
  | "spec_stream_frame", lichN :: fn :: rest =>
    -- spec_stream_frame <lich number> <frame number> lsf x30 payload x16 -> 48 bytes
    let lsf := (rest.take 30).map Int.toNat
    let pl := (rest.drop 30).map Int.toNat
    (st, joinNats (Spec.Tx.streamFrame lsf lichN.toNat fn.toNat pl))
  | "spec_frame_bits", kind :: rest =>
    -- the 368 channel bits of one specification-encoded frame (the objects the C01 frame-level theorems are about):
    -- 0 lsf x30 | 1 <lich number> lsf x30 data x18 | 2 bits x206 | 3 bits x197
    let bitStr (bs : List Bool) := String.intercalate " " (bs.map fun b => if b then "1" else "0")
    if kind == 0 then (st, bitStr (Spec.Tx.lsfFrameBits (rest.map Int.toNat)))
    else if kind == 1 then
      match rest with
      | n :: r => (st, bitStr (Spec.Tx.streamFrameBits ((r.take 30).map Int.toNat) n.toNat ((r.drop 30).map Int.toNat)))
      | [] => (st, "bad-args")
    else if kind == 2 then (st, bitStr (Spec.Tx.packetFrameBits (rest.map fun x => x != 0)))
    else (st, bitStr (Spec.Tx.bertFrameBits (rest.map fun x => x != 0)))
  | "mod_bert", state :: n :: _ =>
    -- model of m17-mod's BERT loop (make_bert_frame + interleave + randomize + output_bitstream), same reply as harness/drv_mod.cpp
    let (bytes, g) := (List.range n.toNat).foldl (fun (acc : List Nat × Nat) _ =>
      (acc.1 ++ TxMod.bertFrame ((Prbs.genBits 197 acc.2).map fun b => if b then 1 else 0), Prbs.genState 197 acc.2)) ([], state.toNat)
    (st, joinNats (bytes ++ [g]))
  | "spec_bert", state :: n :: _ =>
    let (bytes, g) := (List.range n.toNat).foldl (fun (acc : List Nat × Nat) _ =>
      (acc.1 ++ Spec.Tx.bertFrame (Prbs.genBits 197 acc.2), Prbs.genState 197 acc.2)) ([], state.toNat)
    (st, joinNats (bytes ++ [g]))
  | "spec_stream", can :: ns :: rest =>
    -- spec_stream <can> <nsrc> src... <ndst> dst... <npayloads> payloads(16 each)...
    let src := (rest.take ns.toNat).map Int.toNat
    let rest2 := rest.drop ns.toNat
    match rest2 with
    | nd :: r =>
      let dst := (r.take nd.toNat).map Int.toNat
      match r.drop nd.toNat with
      | np :: pr =>
        let pls := (List.range np.toNat).map fun k => ((pr.drop (16 * k)).take 16).map Int.toNat
        (st, joinNats (Spec.Tx.stream src dst can.toNat pls))
      | [] => (st, "bad-args")
    | [] => (st, "bad-args")
  | "mod_plan", samples =>
    let p := Mod.plan samples
    let q := Mod.specPlan samples
    (st, (if p == q then "same " else "DIFF ") ++ joinNats (p.flatMap fun f => [f.1, f.2.1]))
  | _, _ => (st, "bad-op")

partial def loop (h : IO.FS.Stream) (out : IO.FS.Stream) (st : DrvState) : IO Unit := do
  let line ← h.getLine
  if line.isEmpty then return ()
  let ws := (line.trimAscii.toString.splitOn " ").filter (· ≠ "")
  match ws with
  | [] => loop h out st
  | op :: rest =>
    let (st', r) := handle st op (parseInts rest)
    out.putStrLn r
    loop h out st'

def main : IO Unit := do
  let stdin ← IO.getStdin
  let stdout ← IO.getStdout
  loop stdin stdout {}

#include "m17-mod.cpp"

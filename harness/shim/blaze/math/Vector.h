#pragma once
#include "../Math.h"

#pragma once
// Minimal stand-in for the subset of Blaze used by KalmanFilter.h (fixed-size dense, eager evaluation).
// Blaze is not installed in this sandbox; what the checks exercise is the repository's code over this shim.
#include <array>
#include <cmath>
#include <cstddef>
#include <initializer_list>
namespace blaze {
template <typename T, size_t N> struct StaticVector {
  std::array<T,N> v{};
  StaticVector() = default;
  StaticVector(std::initializer_list<T> l){ size_t i=0; for(auto x: l) v[i++]=x; }
  T& operator[](size_t i){return v[i];} const T& operator[](size_t i) const {return v[i];}
  StaticVector& operator+=(const StaticVector& o){ for(size_t i=0;i<N;++i) v[i]+=o.v[i]; return *this; }
};
template <typename T, size_t M, size_t N> struct StaticMatrix {
  std::array<std::array<T,N>,M> m{};
  StaticMatrix() = default;
  StaticMatrix(std::initializer_list<std::initializer_list<T>> l){ size_t i=0; for(auto& r: l){ size_t j=0; for(auto x: r) m[i][j++]=x; ++i; } }
  T& operator()(size_t i,size_t j){return m[i][j];} const T& operator()(size_t i,size_t j) const {return m[i][j];}
};
template <typename T,size_t M,size_t N,size_t K> StaticMatrix<T,M,K> operator*(const StaticMatrix<T,M,N>& a,const StaticMatrix<T,N,K>& b){ StaticMatrix<T,M,K> r; for(size_t i=0;i<M;++i)for(size_t k=0;k<K;++k){T s=0;for(size_t j=0;j<N;++j)s+=a(i,j)*b(j,k);r(i,k)=s;} return r; }
template <typename T,size_t M,size_t N> StaticVector<T,M> operator*(const StaticMatrix<T,M,N>& a,const StaticVector<T,N>& x){ StaticVector<T,M> r; for(size_t i=0;i<M;++i){T s=0;for(size_t j=0;j<N;++j)s+=a(i,j)*x[j];r[i]=s;} return r; }
template <typename T,size_t M,size_t N,typename S> StaticMatrix<T,M,N> operator*(const StaticMatrix<T,M,N>& a,S s){ StaticMatrix<T,M,N> r; for(size_t i=0;i<M;++i)for(size_t j=0;j<N;++j)r(i,j)=a(i,j)*T(s); return r; }
template <typename T,size_t M,size_t N> StaticMatrix<T,M,N> operator+(const StaticMatrix<T,M,N>& a,const StaticMatrix<T,M,N>& b){ StaticMatrix<T,M,N> r; for(size_t i=0;i<M;++i)for(size_t j=0;j<N;++j)r(i,j)=a(i,j)+b(i,j); return r; }
template <typename T,size_t M,size_t N> StaticMatrix<T,M,N> operator-(const StaticMatrix<T,M,N>& a,const StaticMatrix<T,M,N>& b){ StaticMatrix<T,M,N> r; for(size_t i=0;i<M;++i)for(size_t j=0;j<N;++j)r(i,j)=a(i,j)-b(i,j); return r; }
template <typename T,size_t M,size_t N> StaticMatrix<T,N,M> trans(const StaticMatrix<T,M,N>& a){ StaticMatrix<T,N,M> r; for(size_t i=0;i<M;++i)for(size_t j=0;j<N;++j)r(j,i)=a(i,j); return r; }
template <typename T,size_t N,typename S> StaticVector<T,N> operator-(S s,const StaticVector<T,N>& x){ StaticVector<T,N> r; for(size_t i=0;i<N;++i)r[i]=T(s)-x[i]; return r; }
template <typename T,size_t N> bool isnan(const StaticVector<T,N>& x){ for(size_t i=0;i<N;++i) if(std::isnan(x[i])) return true; return false; }
}

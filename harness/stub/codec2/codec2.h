// stand-in for <codec2/codec2.h> used only by harness/drv_modulator.cpp (the functions are defined there)
#pragma once
#ifdef __cplusplus
extern "C" {
#endif
struct CODEC2;
struct CODEC2* codec2_create(int mode);
void codec2_destroy(struct CODEC2* c);
void codec2_encode(struct CODEC2* c, unsigned char* bits, short speech_in[]);
#ifndef CODEC2_MODE_3200
#define CODEC2_MODE_3200 0
#endif
#ifdef __cplusplus
}
#endif

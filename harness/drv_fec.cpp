// In-process driver for the FEC components of /repo's current tree, speaking the same line
// protocol as lean/Main.lean (m17drv): one request per line `<op> <int>...`, one reply line.
// Built with -fsanitize=address,undefined -fno-sanitize-recover=all by tools/check.py.
#include <cstdio>
#include <cstdint>
#include <cstring>
#include <string>
#include <vector>
#include <sstream>
#include <iostream>
#include <array>
#include <algorithm>
#include <functional>
#include <thread>

#define private public
#define protected public
#include "m17cxx/Golay24.h"
#include "m17cxx/CRC16.h"
#include "m17cxx/Trellis.h"
#include "m17cxx/Viterbi.h"
#include "m17cxx/PolynomialInterleaver.h"
#include "m17cxx/M17Randomizer.h"
#include "m17cxx/Util.h"
#include "m17cxx/LinkSetupFrame.h"
#include "m17cxx/M17FrameDecoder.h"
#undef private
#undef protected

bool display_lsf = false;
using namespace mobilinkd;

typedef std::vector<long long> Args;

static std::string join(const std::vector<long long>& v)
{
    std::string s;
    for (size_t i = 0; i < v.size(); ++i) { if (i) s += ' '; s += std::to_string(v[i]); }
    return s;
}

#include "drv_fec_ops.inc"

int main()
{
    std::ios::sync_with_stdio(false);
    std::string line;
    while (std::getline(std::cin, line))
    {
        std::istringstream is(line);
        std::string op; is >> op;
        if (op.empty()) continue;
        Args a; long long x;
        while (is >> x) a.push_back(x);
        std::cout << handle(op, a) << '\n';
    }
    return 0;
}

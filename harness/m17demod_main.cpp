#include "m17-demod.cpp"

// Receive path of the current tree behind the line protocol: M17Demodulator<float> (over the Blaze stand-in) with
// apps/m17-demod.cpp's frame handlers (main renamed).  Used by C03, C06, C07, C20.
#include <cstdio>
#include <cstring>
#include <sstream>
#include <iostream>
#include <string>
#include <vector>
#include <random>
#include <cmath>
#include <numeric>

#define main m17demod_main
#include "m17-demod.cpp"
#undef main

typedef std::vector<long long> Args;
static std::string join(const std::vector<long long>& v)
{
    std::string s;
    for (size_t i = 0; i < v.size(); ++i) { if (i) s += ' '; s += std::to_string(v[i]); }
    return s;
}

struct Capture {
    std::ostringstream out, err;
    std::streambuf *o, *e;
    Capture() { o = std::cout.rdbuf(out.rdbuf()); e = std::cerr.rdbuf(err.rdbuf()); }
    ~Capture() { std::cout.rdbuf(o); std::cerr.rdbuf(e); }
};

// windowed-sinc interpolation of the int16 baseband at fractional position t
static double interp(const std::vector<double>& s, double t)
{
    long k = (long)std::floor(t);
    double f = t - k, acc = 0;
    for (long j = -7; j <= 8; ++j) {
        long i = k + j;
        if (i < 0 || i >= (long)s.size()) continue;
        double x = f - j;
        double w = 0.5 + 0.5 * std::cos(M_PI * x / 8.5);
        double si = std::fabs(x) < 1e-12 ? 1.0 : std::sin(M_PI * x) / (M_PI * x);
        acc += s[size_t(i)] * si * w;
    }
    return acc;
}

// rx <gain_milli> <dc_1e4> <sigma_1e4> <delay_milli> <ppm> <lead kind> <lead len> <lead level_1e4> <seed> <app handlers 0/1> samples(int16)...
// lead kinds: 0 none 1 exact zeros 2 gaussian noise 3 constant 4 tone 1 kHz 5 uniform noise; 6..9 exactly periodic tones (table of one
// period, so that x[i] == x[i - period] bit for bit): 6 = 3600 Hz, 7 = 2400 Hz, 8 = 400 Hz, 9 = 4800 Hz
// reply: <maxSampleIndex> <maxFramerIndex> <dcd> <demodState> <nsamples> <samples with dcd> <first sample with dcd> | frames: "L b30" / "S cost b18" / "K b6" ... ; or with app handlers: | <stdout bytes> | <stderr text, newlines as \n>
static std::string rx(const Args& a)
{
    using namespace mobilinkd;
    double gain = a.at(0) / 1000.0, dc = a.at(1) / 10000.0, sigma = a.at(2) / 10000.0, delay = a.at(3) / 1000.0, ppm = double(a.at(4));
    int lead = int(a.at(5)); long leadn = a.at(6); double level = a.at(7) / 10000.0; unsigned seed = unsigned(a.at(8)); bool app = a.at(9) != 0;
    std::vector<double> s; for (size_t i = 10; i < a.size(); ++i) s.push_back(double(a[i]) / 41067.0);
    std::mt19937 g(seed); std::normal_distribution<double> nd(0.0, 1.0); std::uniform_real_distribution<double> ud(-1.0, 1.0);
    std::string frames;
    auto cb = [&](const M17FrameDecoder::output_buffer_t& b, int cost) -> bool {
        using FT = M17FrameDecoder::FrameType;
        std::vector<long long> v;
        if (b.type == FT::LSF) { for (auto x : b.lsf) v.push_back(x); frames += " L " + join(v) + " ;"; }
        else if (b.type == FT::STREAM) { v.push_back(cost); for (auto x : b.stream) v.push_back(x); frames += " S " + join(v) + " ;"; }
        else if (b.type == FT::LICH) { for (auto x : b.lich) v.push_back(x); frames += " K " + join(v) + " ;"; }
        else if (b.type == FT::BASIC_PACKET || b.type == FT::FULL_PACKET) { v.push_back(int(b.type)); v.push_back(cost); for (auto x : b.packet) v.push_back(x); frames += " P " + join(v) + " ;"; }
        else if (b.type == FT::BERT) { v.push_back(cost); for (auto x : b.bert) v.push_back(x); frames += " B " + join(v) + " ;"; }
        else frames += " O " + std::to_string(int(b.type)) + " ;";
        return !(b.type == FT::STREAM && cost < 70 && (b.stream[0] & 0x80));
    };
    Capture cap;
    if (app && !codec2) codec2 = ::codec2_create(CODEC2_MODE_3200);
    if (app) display_lsf = true;
    if (a.at(9) == 2) app = false;
    // mode 3: a SECOND demodulator instance lives in the same process and is fed, interleaved sample by sample, a looped copy of the
    // transmission's last frames + EOT (so it keeps acquiring, receiving an end of transmission and unlocking) - the function-local
    // statics of M17Demodulator are shared by all instances; the first instance's reception must not depend on the second's.
    bool dual = a.at(9) == 3;
    if (dual) app = false;
    std::unique_ptr<M17Demodulator<float>> other;
    std::vector<float> loopA; size_t ia = 0;
    if (dual) {
        other.reset(new M17Demodulator<float>([](const M17FrameDecoder::output_buffer_t&, int) { return true; }));
        size_t tail = std::min<size_t>(s.size(), size_t(17000) + size_t(seed % 1920));
        for (size_t i = s.size() - tail; i < s.size(); ++i) loopA.push_back(float(s[i]));
        for (size_t i = 0; i < size_t(3000) + size_t(seed % 977); ++i) loopA.push_back(0.0f);
    }
    std::unique_ptr<M17Demodulator<float>> demod(app ? new M17Demodulator<float>(handle_frame) : new M17Demodulator<float>(cb));
    if (app) demod->diagnostics(diagnostic_callback<float>);
    long long maxsi = 0, maxfi = 0, n = 0, dcdn = 0, dcdfirst = -1;
    bool tracing = a.at(9) == 2;
    std::string trace;
    if (tracing) { trace.reserve(size_t(40) * (s.size() + size_t(leadn) + 4000)); app = false; }
    auto feed = [&](double x) {
        if (dual && !loopA.empty()) { (*other)(loopA[ia]); if (++ia == loopA.size()) ia = 0; }
        (*demod)(float(x));
        ++n;
        if (tracing && n >= 1920) {
            auto& d = *demod;
            char buf[160];
            snprintf(buf, sizeof buf, " %d %d %d %d %d %d %d %d %d %zu %zu %d %zu", int(d.demodState), d.sync_count, d.missing_sync_count, int(d.sample_index),
                     int(d.sync_sample_index), int(d.correlator.index()), int(d.dcd_), int(d.need_clock_reset_), int(d.need_clock_update_), d.count_,
                     d.framer.index_, int(d.sync_word_type), d.viterbi_cost);
            trace += buf;
        }
        if (demod->dcd_) { ++dcdn; if (dcdfirst < 0) dcdfirst = n; }
        if (demod->sample_index > maxsi) maxsi = demod->sample_index;
        if ((long long)demod->framer.index_ > maxfi) maxfi = (long long)demod->framer.index_;
    };
    for (long i = 0; i < leadn; ++i) {
        double x = 0;
        switch (lead) { case 1: x = 0; break; case 2: x = level * nd(g); break; case 3: x = level; break;
                        case 4: x = level * std::sin(2 * M_PI * 1000.0 * i / 48000.0); break; case 5: x = level * ud(g); break;
                        case 6: case 7: case 8: case 9: {
                            static const int freq[4] = {3600, 2400, 400, 4800};
                            int f = freq[lead - 6]; long per = 48000 / std::gcd(48000, f) ; // samples per exact period
                            x = double(float(level * std::sin(2 * M_PI * double(f) * double(i % per) / 48000.0))); break; }
                        default: x = 0; }
        if (x > 1) x = 1; if (x < -1) x = -1;
        feed(x);
    }
    double step = 1.0 + ppm * 1e-6;
    for (double t = delay; t < double(s.size()) - 1; t += step) {
        double x = gain * interp(s, t) + dc + (sigma > 0 ? sigma * nd(g) : 0.0);
        feed(x);
    }
    for (int i = 0; i < 4000; ++i) feed(sigma > 0 ? sigma * nd(g) : 0.0);       // trailing silence/noise
    std::string head = join({maxsi, maxfi, (long long)demod->dcd_, (long long)int(demod->demodState), n, dcdn, dcdfirst});
    if (tracing) return "demod_trace" + trace;
    if (!app) return head + " |" + frames;
    std::string err = cap.err.str(); std::string e2;
    for (char c : err) { if (c == '\n') e2 += "\\n"; else if (c == '\r') continue; else e2 += c; }
    return head + " | " + std::to_string(cap.out.str().size()) + " | " + e2;
}

// hostile <kind> <n> <seed> <level_1e4>: synthetic sample streams straight into the demodulator with the application's handlers
static std::string hostile(const Args& a)
{
    using namespace mobilinkd;
    int kind = int(a.at(0)); long n = a.at(1); unsigned seed = unsigned(a.at(2)); double level = a.at(3) / 10000.0;
    std::mt19937 g(seed); std::uniform_real_distribution<double> ud(-1.0, 1.0); std::normal_distribution<double> nd(0.0, 1.0);
    Capture cap;
    if (!codec2) codec2 = ::codec2_create(CODEC2_MODE_3200);
    display_lsf = true;
    M17Demodulator<float> demod(handle_frame);
    long long maxsi = 0, maxfi = 0, dcdn = 0;
    double hold = 0;
    demod.diagnostics(diagnostic_callback<float>);
    for (long i = 0; i < n; ++i) {
        double x = 0;
        switch (kind) {
        case 0: x = level * ud(g); break;                                   // uniform noise
        case 1: x = level; break;                                           // constant
        case 2: x = level * std::sin(2 * M_PI * (300 + seed % 5000) * i / 48000.0); break;   // tone
        case 3: x = ((i / (5 + seed % 40)) % 2) ? level : -level; break;    // square wave
        case 4: x = (i % (7 + seed % 500) == 0) ? level : 0.0; break;       // impulse train
        case 5: x = (g() & 1) ? 1.0 : -1.0; break;                          // rails
        case 6: x = level * nd(g); if (x > 1) x = 1; if (x < -1) x = -1; break;
        case 7: x = level * ((i % 10 == 0) ? double(int(g() % 4) * 2 - 3) / 3.0 : 0.0); break;  // random symbols, unshaped
        case 8: x = level * std::sin(2 * M_PI * 2400.0 * i / 48000.0) + 0.02 * ud(g); break;   // in-band tone: opens carrier detect
        case 9: if (i % 10 == 0) hold = double(int(g() % 4) * 2 - 3) / 3.0; x = level * hold; break;    // random symbols, rectangular pulses
        case 10: {                                                            // preamble, sync word, then random symbols (rectangular pulses)
            static const int lsfsync[8] = {3, 3, 3, 3, -3, -3, 3, -3};
            long sym = i / 10;
            if (i % 10 == 0) {
                long ph = sym % (192 + 8 + (seed % 400));
                if (ph < 192) hold = (ph % 2) ? -1.0 : 1.0;
                else if (ph < 200) hold = lsfsync[ph - 192] / 3.0 * ((seed & 1) ? -1.0 : 1.0);
                else hold = double(int(g() % 4) * 2 - 3) / 3.0;
            }
            x = level * hold; break; }
        }
        if (x > 1) x = 1; if (x < -1) x = -1;
        demod(float(x));
        if (demod.dcd_) ++dcdn;
        if (demod.sample_index > maxsi) maxsi = demod.sample_index;
        if ((long long)demod.framer.index_ > maxfi) maxfi = (long long)demod.framer.index_;
    }
    std::string err = cap.err.str();
    long long nl = 0; for (char c : err) if (c == '\n') ++nl;
    return join({maxsi, maxfi, (long long)demod.dcd_, (long long)int(demod.demodState), dcdn, nl, (long long)cap.out.str().size()});
}

// app handlers with arbitrary content
static std::string app_lsf(const Args& a)
{
    Capture cap; display_lsf = a.at(0) != 0;
    std::array<uint8_t, 30> lsf{}; for (size_t i = 0; i < 30; ++i) lsf[i] = uint8_t(a.at(1 + i));
    bool r = dump_lsf(lsf);
    std::string err = cap.err.str(), e2; for (char c : err) { if (c == '\n') e2 += "\\n"; else e2 += c; }
    return std::to_string(r) + " | " + e2;
}
static std::string app_packets(const Args& a)
{
    // app_packets <lsf type: 0 none 1 raw 2 enc> then packet segments of 26 bytes each
    Capture cap; display_lsf = false;
    if (a.at(0)) { std::array<uint8_t, 30> lsf{}; lsf[13] = a.at(0) == 1 ? 0x02 : 0x04; dump_lsf(lsf); }
    else { current_packet.clear(); packet_frame_counter = 0; }
    std::vector<long long> r;
    for (size_t i = 1; i + 26 <= a.size(); i += 26) {
        mobilinkd::M17FrameDecoder::packet_buffer_t p{}; for (size_t k = 0; k < 26; ++k) p[k] = uint8_t(a[i + k]);
        r.push_back(decode_packet(p));
    }
    r.push_back((long long)current_packet.size());
    return join(r);
}
// clock_free <est units> <clk units> <count>...(triples): the demodulator's ClockRecovery with sample_estimate_ / clock_estimate_ / count_ set
// (units of 2^-20 sample), then the free-running update(): -> the int8 sample_index_ per triple
static std::string clock_free(const Args& a)
{
    std::vector<long long> r;
    for (size_t i = 0; i + 2 < a.size(); i += 3) {
        mobilinkd::ClockRecovery<float, 10> c;
        c.sample_estimate_ = float(double(a[i]) / 1048576.0);
        c.clock_estimate_ = float(double(a[i + 1]) / 1048576.0);
        c.count_ = size_t(a[i + 2]);
        c.update();
        r.push_back((long long)c.sample_index_);
    }
    return join(r);
}

// ax25 bytes...: mobilinkd::ax25_frame on an arbitrary byte string -> "D dest | S src | R n | rep ... | T type | P pid | I info" (bytes as numbers)
static std::string ax25_op(const Args& a)
{
    std::string f; for (auto x : a) f.push_back(char(uint8_t(x)));
    mobilinkd::ax25_frame fr(f);
    auto bytes = [](const std::string& s) { std::string r; for (unsigned char c : s) { r += ' '; r += std::to_string(int(c)); } return r; };
    std::string out = "D" + bytes(fr.destination()) + " | S" + bytes(fr.source()) + " | R " + std::to_string(fr.repeaters().size());
    for (auto& r : fr.repeaters()) out += " |" + bytes(r);
    out += " | T " + std::to_string(int(fr.type())) + " | P " + (fr.pid() ? std::to_string(int(*fr.pid())) : std::string("-1")) + " | I" + bytes(fr.info());
    return out;
}

// app_bert bytes(25 per frame)...: m17-demod's decode_bert handler on consecutive frames, from a reset validator -> "<sync> <errors> <bits>"
static std::string app_bert(const Args& a)
{
    prbs.reset();
    for (size_t k = 0; k + 25 <= a.size(); k += 25) {
        mobilinkd::M17FrameDecoder::bert_buffer_t b{};
        for (size_t i = 0; i < 25; ++i) b[i] = uint8_t(a[k + i]);
        decode_bert(b);
    }
    std::string r = join({(long long)prbs.sync(), (long long)prbs.errors(), (long long)(prbs.sync() ? prbs.bits() : 0)});
    prbs.reset();
    return r;
}

static std::string app_call(const Args& a)
{
    mobilinkd::LinkSetupFrame::encoded_call_t e{}; for (size_t i = 0; i < 6; ++i) e[i] = uint8_t(a.at(i));
    auto c = mobilinkd::LinkSetupFrame::decode_callsign(e);
    std::string s; for (auto x : c) if (x) s += x;        // how the application prints it
    return std::to_string(s.size());
}

// dcd_seq <level bits> <triggered> then per step: <level_1 bits> <level_2 bits>, or -1 0 for unlock(): the demodulator's own detector object
static std::string dcd_seq(const Args& a)
{
    using namespace mobilinkd;
    auto cbk = [](M17FrameDecoder::output_buffer_t const&, int) { return true; };
    M17Demodulator<float> demod(cbk);
    auto& d = demod.dcd;
    auto fromBits = [](long long b) { uint32_t u = uint32_t(b); float f; std::memcpy(&f, &u, 4); return f; };
    d.level_ = fromBits(a.at(0)); d.triggered_ = a.at(1) != 0;
    std::vector<long long> out;
    for (size_t i = 2; i + 1 < a.size(); i += 2) {
        if (a[i] < 0) d.unlock();
        else { d.level_1 = fromBits(a[i]); d.level_2 = fromBits(a[i + 1]); d.update(); }
        float l = d.level(); uint32_t u; std::memcpy(&u, &l, 4);
        out.push_back(std::isnan(l) ? -1 : (long long)u);
        out.push_back(d.dcd() ? 1 : 0);
    }
    return join(out);
}

// dcd_ratio <block> samples(int16)...: band energies the detector accumulates over consecutive blocks of a sample stream -> per block "level_1 bits level_2 bits"
static std::string dcd_ratio(const Args& a)
{
    using namespace mobilinkd;
    auto cbk = [](M17FrameDecoder::output_buffer_t const&, int) { return true; };
    M17Demodulator<float> demod(cbk);
    auto& d = demod.dcd;
    long block = a.at(0);
    std::vector<long long> out;
    for (size_t i = 1; i < a.size(); ++i) {
        d(float(double(a[i]) / 41067.0));
        if (long(i) % block == 0) {
            uint32_t u1, u2; float l1 = d.level_1, l2 = d.level_2; std::memcpy(&u1, &l1, 4); std::memcpy(&u2, &l2, 4);
            out.push_back(u1); out.push_back(u2);
            d.update();
        }
    }
    return join(out);
}

static std::string handle(const std::string& op, const Args& a)
{
    if (op == "dcd_seq") return dcd_seq(a);
    if (op == "dcd_ratio") return dcd_ratio(a);
    if (op == "rx") return rx(a);
    if (op == "hostile") return hostile(a);
    if (op == "app_lsf") return app_lsf(a);
    if (op == "app_packets") return app_packets(a);
    if (op == "app_call") return app_call(a);
    if (op == "app_bert") return app_bert(a);
    if (op == "ax25") return ax25_op(a);
    if (op == "clock_free") return clock_free(a);
    return "bad-op";
}

int main()
{
    std::string line;
    while (std::getline(std::cin, line)) {
        std::istringstream is(line);
        std::string op; is >> op;
        if (op.empty()) continue;
        Args a; long long x;
        while (is >> x) a.push_back(x);
        std::string r = handle(op, a);
        fputs(r.c_str(), stdout); fputc('\n', stdout); fflush(stdout);
    }
    return 0;
}

// In-process driver over apps/m17-mod.cpp (main renamed): the repository's own transmit functions behind the line
// protocol.  std::cout of the application is captured.
#include <cstdio>
#include <sstream>
#include <iostream>
#include <string>
#include <vector>
#include <cstdint>

#define main m17mod_main
#include "m17-mod.cpp"
#undef main

typedef std::vector<long long> Args;
static std::string join(const std::vector<long long>& v)
{
    std::string s;
    for (size_t i = 0; i < v.size(); ++i) { if (i) s += ' '; s += std::to_string(v[i]); }
    return s;
}

// run f with std::cout captured; returns the bytes written
template <typename F> static std::string capture(F f)
{
    std::ostringstream os;
    auto* old = std::cout.rdbuf(os.rdbuf());
    auto* olde = std::cerr.rdbuf(nullptr);
    f();
    std::cout.rdbuf(old);
    std::cerr.rdbuf(olde);
    return os.str();
}
static std::vector<long long> bytes_of(const std::string& s) { std::vector<long long> v; for (unsigned char c : s) v.push_back(c); return v; }

static std::string handle(const std::string& op, const Args& a)
{
    if (op == "mod_lsf") {
        // mod_lsf <bitstream 0/1> <invert 0/1> <can> <nsrc> src... <ndst> dst... -> <30 LSF bytes> | <output bytes>
        bitstream = a.at(0) != 0; invert = a.at(1) != 0; can = int8_t(a.at(2));
        size_t ns = size_t(a.at(3)); std::string src, dst;
        for (size_t i = 0; i < ns; ++i) src.push_back(char(a.at(4 + i)));
        size_t nd = size_t(a.at(4 + ns));
        for (size_t i = 0; i < nd; ++i) dst.push_back(char(a.at(5 + ns + i)));
        lsf_t lsf;
        auto out = capture([&]{ lsf = send_lsf(src, dst); });
        std::vector<long long> l; for (auto x : lsf) l.push_back(x);
        return join(l) + " | " + join(bytes_of(out));
    }
    if (op == "mod_data") {      // mod_data <fn> p x16 -> 272 bits
        codec_frame_t p; for (size_t i = 0; i < 16; ++i) p[i] = uint8_t(a.at(1 + i));
        auto d = make_data_frame(uint16_t(a.at(0)), p);
        std::vector<long long> r; for (auto x : d) r.push_back(x);
        return join(r);
    }
    if (op == "mod_lich") {      // mod_lich <segment number> b x5 -> 96 bits
        std::array<uint8_t, 5> seg; for (size_t i = 0; i < 5; ++i) seg[i] = uint8_t(a.at(1 + i));
        auto l = make_lich_segment(seg, uint8_t(a.at(0)));
        std::vector<long long> r; for (auto x : l) r.push_back(x);
        return join(r);
    }
    if (op == "mod_audio_frame") {   // mod_audio_frame <bitstream> <invert> lich x96 data x272 -> output bytes
        bitstream = a.at(0) != 0; invert = a.at(1) != 0;
        lich_segment_t l; data_frame_t d;
        for (size_t i = 0; i < 96; ++i) l[i] = uint8_t(a.at(2 + i));
        for (size_t i = 0; i < 272; ++i) d[i] = int8_t(a.at(98 + i));
        return join(bytes_of(capture([&]{ send_audio_frame(l, d); })));
    }
    if (op == "mod_bert") {      // mod_bert <prbs register> <nframes> -> per frame 48 bytes as the BERT loop of main() emits them
        bitstream = true; invert = false;
        mobilinkd::PRBS9 prbs; prbs.state = uint16_t(a.at(0));
        mobilinkd::M17Randomizer<368> randomizer;
        mobilinkd::PolynomialInterleaver<45, 92, 368> interleaver;
        std::string out;
        for (long long k = 0; k < a.at(1); ++k) {
            auto frame = make_bert_frame(prbs);
            interleaver.interleave(frame);
            randomizer.randomize(frame);
            out += capture([&]{ output_frame(BERT_SYNC_WORD, frame); });
        }
        auto v = bytes_of(out); v.push_back(prbs.state);
        return join(v);
    }
    if (op == "codec2") {        // codec2 <320 samples> -> 16 bytes, with a FRESH codec state per call sequence handled by caller: stateful!
        static struct CODEC2* c2 = nullptr;
        if (a.size() == 1 && a[0] == -1) { if (c2) ::codec2_destroy(c2); c2 = ::codec2_create(CODEC2_MODE_3200); return "ok"; }
        if (!c2) c2 = ::codec2_create(CODEC2_MODE_3200);
        audio_frame_t au; au.fill(0);
        for (size_t i = 0; i < 320 && i < a.size(); ++i) au[i] = int16_t(a[i]);
        auto r = encode(c2, au);
        std::vector<long long> v; for (auto x : r) v.push_back(x);
        return join(v);
    }
    if (op == "mod_transmit") {  // mod_transmit <bitstream> <invert> <can> <nsrc> src.. <ndst> dst.. samples... : the whole main() data path in-process
        bitstream = a.at(0) != 0; invert = a.at(1) != 0; can = int8_t(a.at(2));
        size_t ns = size_t(a.at(3)); std::string src, dst;
        for (size_t i = 0; i < ns; ++i) src.push_back(char(a.at(4 + i)));
        size_t nd = size_t(a.at(4 + ns));
        for (size_t i = 0; i < nd; ++i) dst.push_back(char(a.at(5 + ns + i)));
        size_t off = 5 + ns + nd;
        auto out = capture([&]{
            send_preamble();
            auto lsf = send_lsf(src, dst);
            running = true;
            queue_t queue;
            std::thread thd([&queue, &lsf](){ transmit(queue, lsf); });
            for (size_t i = off; i < a.size(); ++i) if (!queue.put(int16_t(a[i]), std::chrono::seconds(300))) break;
            running = false;
            queue.close();
            thd.join();
        });
        return join(bytes_of(out));
    }
    if (op == "mod_long") {      // mod_long <can> <nsrc> src.. <ndst> dst.. <naudio blocks> <lo> <hi> : bitstream of a long transmission of pseudo-random audio;
                                 // reply: <total bytes> | bytes of stream frames lo..hi-1 | codec2 payloads (16 bytes each) of the same frames from a fresh codec
        bitstream = true; invert = false; can = int8_t(a.at(0));
        size_t ns = size_t(a.at(1)); std::string src, dst;
        for (size_t i = 0; i < ns; ++i) src.push_back(char(a.at(2 + i)));
        size_t nd = size_t(a.at(2 + ns));
        for (size_t i = 0; i < nd; ++i) dst.push_back(char(a.at(3 + ns + i)));
        size_t off = 3 + ns + nd;
        size_t nblocks = size_t(a.at(off)), lo = size_t(a.at(off + 1)), hi = size_t(a.at(off + 2));
        auto sample = [](size_t i) { uint32_t x = uint32_t(i) * 2654435761u; x ^= x >> 13; return int16_t(int(x % 16001) - 8000); };
        auto out = capture([&]{
            send_preamble();
            auto lsf = send_lsf(src, dst);
            running = true;
            queue_t queue;
            std::thread thd([&queue, &lsf](){ transmit(queue, lsf); });
            for (size_t i = 0; i < nblocks * 320; ++i) if (!queue.put(sample(i), std::chrono::seconds(300))) break;
            running = false;
            queue.close();
            thd.join();
        });
        std::string r = std::to_string(out.size()) + " |";
        for (size_t k = lo; k < hi; ++k) {
            size_t base = 48 + 48 + 48 * k;
            for (size_t j = 0; j < 48 && base + j < out.size(); ++j) r += " " + std::to_string((unsigned char)out[base + j]);
        }
        r += " |";
        struct CODEC2* c = ::codec2_create(CODEC2_MODE_3200);
        for (size_t k = 0; k < hi && k <= nblocks; ++k) {
            audio_frame_t au; au.fill(0);
            if (k < nblocks) for (size_t i = 0; i < 320; ++i) au[i] = sample(k * 320 + i);
            auto e = encode(c, au);
            if (k >= lo) for (auto x : e) r += " " + std::to_string((unsigned)x);
        }
        ::codec2_destroy(c);
        return r;
    }
    if (op == "mod_frame") {     // mod_frame <bitstream> <invert> <sync byte 0> <sync byte 1> bit x368 -> output bytes of output_frame() for ANY frame content
        bitstream = a.at(0) != 0; invert = a.at(1) != 0;
        bitstream_t f; for (size_t i = 0; i < 368; ++i) f[i] = int8_t(a.at(4 + i));
        std::array<uint8_t, 2> sw = {uint8_t(a.at(2)), uint8_t(a.at(3))};
        return join(bytes_of(capture([&]{ output_frame(sw, f); })));
    }
    if (op == "mod_preamble") { bitstream = a.at(0) != 0; invert = a.at(1) != 0; return join(bytes_of(capture([&]{ send_preamble(); }))); }
    if (op == "mod_eot") { bitstream = a.at(0) != 0; invert = a.at(1) != 0; return join(bytes_of(capture([&]{ output_eot(); }))); }
    return "bad-op";
}

int m17_driver_main()
{
    std::string line;
    while (std::getline(std::cin, line))
    {
        std::istringstream is(line);
        std::string op; is >> op;
        if (op.empty()) continue;
        Args a; long long x;
        while (is >> x) a.push_back(x);
        std::string r = handle(op, a);
        fputs(r.c_str(), stdout); fputc('\n', stdout);
    }
    fflush(stdout);
    return 0;
}
int main() { return m17_driver_main(); }

// Queue driver: sequential op words, real-thread scenarios with the critical-section event hook, timing probes.
// Built with ASan/UBSan (default) or with ThreadSanitizer (-DQ_TSAN build) by tools/props/c15.py / c16.py.
#include <cstdio>
#include <cstdint>
#include <string>
#include <vector>
#include <sstream>
#include <iostream>
#include <thread>
#include <atomic>
#include <chrono>
#include <mutex>
#include <random>
#include "m17cxx/queue.h"

using namespace mobilinkd;
using namespace std::chrono_literals;
typedef std::vector<long long> Args;
static std::string join(const std::vector<long long>& v)
{
    std::string s;
    for (size_t i = 0; i < v.size(); ++i) { if (i) s += ' '; s += std::to_string(v[i]); }
    return s;
}

// ---- event log (filled from inside the queue's critical sections, i.e. under the queue's own mutex) ----
static std::vector<long long> g_events;
static const void* g_q = nullptr;
static void hook(const void* q, int tag, long long val, long long size, int state)
{
    if (q != g_q) return;
    g_events.push_back(tag); g_events.push_back(val); g_events.push_back(size); g_events.push_back(state);
}

// sequential op words: tokens  1 v = put v (zero timeout)   2 v = put v (1 ms timeout)   3 = get (zero)   4 = get (1 ms)
//                              5 = close   6 = is_open   7 = is_closed   8 = size   9 = empty
template <size_t CAP> static std::string seq(const Args& a)
{
    queue<int, CAP> q;
    std::vector<long long> r;
    for (size_t i = 1; i < a.size(); ++i) {
        int v = 0;
        switch (a[i]) {
        case 1: r.push_back(q.put(int(a.at(++i)), 0ms)); break;
        case 2: r.push_back(q.put(int(a.at(++i)), 1ms)); break;
        case 3: { bool ok = q.get(v, 0ms); r.push_back(ok); r.push_back(ok ? v : -1); break; }
        case 4: { bool ok = q.get(v, 1ms); r.push_back(ok); r.push_back(ok ? v : -1); break; }
        case 5: q.close(); r.push_back(1); break;
        case 6: r.push_back(q.is_open()); break;
        case 7: r.push_back(q.is_closed()); break;
        case 8: r.push_back((long long)q.size()); break;
        case 9: r.push_back(q.empty()); break;
        default: r.push_back(-9);
        }
    }
    return join(r);
}

// real threads: <cap> <nprod> <ncons> <items per producer> <closer: 0 none (consumers stop by count), 1 after producers, 2 concurrently>
//               <seed> <jitter us>
// output: events (tag val size state)* | accepted per producer | received lists per consumer | flags
template <size_t CAP> static std::string mt(const Args& a)
{
    size_t np = size_t(a.at(1)), nc = size_t(a.at(2)), per = size_t(a.at(3)); int closer = int(a.at(4));
    unsigned seed = unsigned(a.at(5)); int jitter = int(a.at(6));
    queue<int, CAP> q;
    g_events.clear(); g_q = &q; verif::queue_hook = &hook;
    std::vector<std::vector<long long>> got(nc);
    std::vector<long long> accepted(np, 0);
    std::atomic<size_t> maxsize{0};
    std::atomic<bool> stopmon{false};
    std::atomic<long long> taken{0};
    std::vector<std::thread> th;
    auto nap = [jitter](std::mt19937& g) { if (jitter) { int us = int(g() % unsigned(jitter + 1)); if (us > jitter / 2) std::this_thread::sleep_for(std::chrono::microseconds(us)); else std::this_thread::yield(); } };
    for (size_t p = 0; p < np; ++p) th.emplace_back([&, p] {
        std::mt19937 g(seed * 31 + unsigned(p));
        for (size_t k = 0; k < per; ++k) { nap(g); if (q.put(int(p * 100000 + k))) accepted[p]++; else break; }
    });
    long long total = (long long)(np * per);
    for (size_t c = 0; c < nc; ++c) th.emplace_back([&, c] {
        std::mt19937 g(seed * 77 + unsigned(c));
        while (true) {
            if (closer == 0 && taken.load() >= total) break;
            int v = -1; nap(g);
            bool ok = closer == 0 ? q.get(v, 20ms) : q.get(v);
            if (ok) { got[c].push_back(v); taken++; }
            else if (closer != 0) break;
        }
    });
    std::thread mon([&] { while (!stopmon) { size_t s = q.size(); size_t m = maxsize.load(); if (s > m) maxsize = s; (void)q.empty(); (void)q.is_open(); (void)q.is_closed(); std::this_thread::yield(); } });
    std::thread cl;
    if (closer == 2) cl = std::thread([&] { std::this_thread::sleep_for(std::chrono::microseconds(200 + seed % 1500)); q.close(); });
    for (size_t p = 0; p < np; ++p) th[p].join();
    if (closer == 1) q.close();
    if (closer == 2) cl.join();
    for (size_t c = 0; c < nc; ++c) th[np + c].join();
    stopmon = true; mon.join();
    verif::queue_hook = nullptr;
    std::string out = join(g_events) + " |";
    out += " " + join(accepted) + " |";
    for (auto& v : got) out += " " + join(v) + " ;";
    out += " | " + join({(long long)maxsize.load(), (long long)q.is_closed(), (long long)q.is_open(), (long long)q.size()});
    return out;
}

// timing probes (C16); each returns measured facts as integers (ms) so that the checker applies the thresholds
template <size_t CAP> static std::string timing(const Args&)
{
    std::vector<long long> r;
    auto ms = [](auto d) { return (long long)std::chrono::duration_cast<std::chrono::milliseconds>(d).count(); };
    {   // (1) default-timeout put on a full queue blocks until a consumer takes an item
        queue<int, CAP> q; for (size_t i = 0; i < CAP; ++i) q.put(int(i), 0ms);
        std::atomic<int> state{0}; bool res = false;
        auto t0 = std::chrono::steady_clock::now();
        std::thread t([&] { res = q.put(99); state = 1; });
        std::this_thread::sleep_for(250ms);
        r.push_back(state.load());                       // 0 = still blocked after 250 ms
        int v; q.get(v, 0ms);
        t.join();
        r.push_back(res); r.push_back(ms(std::chrono::steady_clock::now() - t0));
    }
    {   // (2) default-timeout get on an empty queue blocks until a producer puts
        queue<int, CAP> q; std::atomic<int> state{0}; bool res = false; int v = -1;
        std::thread t([&] { res = q.get(v); state = 1; });
        std::this_thread::sleep_for(250ms);
        r.push_back(state.load());
        q.put(7, 0ms); t.join();
        r.push_back(res); r.push_back(v);
    }
    {   // (3) close() wakes a blocked putter and a blocked getter promptly
        queue<int, CAP> qf; for (size_t i = 0; i < CAP; ++i) qf.put(int(i), 0ms);
        queue<int, CAP> qe;
        bool rp = true, rg = true; int v;
        std::thread tp([&] { rp = qf.put(5); });
        std::thread tg([&] { rg = qe.get(v); });
        std::this_thread::sleep_for(100ms);
        auto t0 = std::chrono::steady_clock::now();
        qf.close(); qe.close();
        tp.join(); tg.join();
        r.push_back(ms(std::chrono::steady_clock::now() - t0)); r.push_back(rp); r.push_back(rg);
    }
    {   // (4) close with items: further puts fail, consumers drain, then the queue reports closed, gets fail at once
        queue<int, CAP> q; q.put(1, 0ms);
        q.close();
        r.push_back(q.put(2, 0ms));               // must be 0
        r.push_back(q.is_closed());                // 0: not yet drained
        int v = -1; bool g1 = q.get(v, 0ms);
        r.push_back(g1); r.push_back(v);
        r.push_back(q.is_closed());                // 1: drained
        auto t0 = std::chrono::steady_clock::now();
        bool g2 = q.get(v, 2000ms);
        r.push_back(g2); r.push_back(ms(std::chrono::steady_clock::now() - t0));   // 0 and < 50 ms
    }
    {   // (5) finite timeout: a get on an empty open queue with 100 ms gives up after about 100 ms
        queue<int, CAP> q; int v;
        auto t0 = std::chrono::steady_clock::now();
        bool g = q.get(v, 100ms);
        r.push_back(g); r.push_back(ms(std::chrono::steady_clock::now() - t0));
        for (size_t i = 0; i < CAP; ++i) q.put(int(i), 0ms);
        t0 = std::chrono::steady_clock::now();
        bool p = q.put(1, 100ms);
        r.push_back(p); r.push_back(ms(std::chrono::steady_clock::now() - t0));
    }
    return join(r);
}


// multi-waiter probes (C15/C16): several threads blocked on the same condition variable, then the events that must wake them.
// Waiters use a 2 s time-out so that a lost wake-up shows as a late return instead of a hang.  Per scenario the reply holds
// <trials> <worst return delay ms> <anomalies>; anomalies are counted by the scenario's own rule.
template <size_t CAP> static std::string wake(const Args& a)
{
    using clk = std::chrono::steady_clock;
    auto ms = [](auto d) { return (long long)std::chrono::duration_cast<std::chrono::milliseconds>(d).count(); };
    int trials = a.size() > 1 ? int(a[1]) : 5;
    std::vector<long long> r;
    {   // W1: k consumers blocked on an empty queue; put one item then close at once: everybody returns promptly, exactly one with the item
        long long worst = 0, anomalies = 0;
        for (int t = 0; t < trials; ++t) {
            queue<int, CAP> q; const int k = 2 + t % 2;
            std::vector<int> res(k, -1), val(k, -1); std::vector<long long> dt(k, 0);
            std::vector<std::thread> th; clk::time_point t0;
            std::atomic<int> ready{0};
            for (int i = 0; i < k; ++i) th.emplace_back([&, i] { ready++; res[i] = q.get(val[i], 2000ms); dt[i] = ms(clk::now() - t0); });
            while (ready.load() < k) std::this_thread::yield();
            std::this_thread::sleep_for(30ms);
            t0 = clk::now();
            q.put(42, 0ms); q.close();
            for (auto& x : th) x.join();
            int got = 0; for (int i = 0; i < k; ++i) { got += (res[i] == 1 && val[i] == 42); worst = std::max(worst, dt[i]); }
            if (got != 1) ++anomalies;
        }
        r.push_back(trials); r.push_back(worst); r.push_back(anomalies);
    }
    {   // W2: two consumers blocked; two puts back to back (capacity permitting): both consumers get an item promptly
        long long worst = 0, anomalies = 0; int done = 0;
        if (CAP >= 2) for (int t = 0; t < trials; ++t) {
            queue<int, CAP> q; std::vector<int> res(2, -1), val(2, -1); std::vector<long long> dt(2, 0);
            std::vector<std::thread> th; clk::time_point t0; std::atomic<int> ready{0};
            for (int i = 0; i < 2; ++i) th.emplace_back([&, i] { ready++; res[i] = q.get(val[i], 2000ms); dt[i] = ms(clk::now() - t0); });
            while (ready.load() < 2) std::this_thread::yield();
            std::this_thread::sleep_for(30ms);
            t0 = clk::now();
            q.put(1, 0ms); q.put(2, 0ms);
            for (auto& x : th) x.join();
            for (int i = 0; i < 2; ++i) { worst = std::max(worst, dt[i]); if (res[i] != 1) ++anomalies; }
            ++done;
        }
        r.push_back(done); r.push_back(worst); r.push_back(anomalies);
    }
    {   // W3: two producers blocked on a full queue; close: both return false promptly
        long long worst = 0, anomalies = 0;
        for (int t = 0; t < trials; ++t) {
            queue<int, CAP> q; for (size_t i = 0; i < CAP; ++i) q.put(int(i), 0ms);
            std::vector<int> res(2, -1); std::vector<long long> dt(2, 0);
            std::vector<std::thread> th; clk::time_point t0; std::atomic<int> ready{0};
            for (int i = 0; i < 2; ++i) th.emplace_back([&, i] { ready++; res[i] = q.put(100 + i, 2000ms); dt[i] = ms(clk::now() - t0); });
            while (ready.load() < 2) std::this_thread::yield();
            std::this_thread::sleep_for(30ms);
            t0 = clk::now();
            q.close();
            for (auto& x : th) x.join();
            for (int i = 0; i < 2; ++i) { worst = std::max(worst, dt[i]); if (res[i] != 0) ++anomalies; }
        }
        r.push_back(trials); r.push_back(worst); r.push_back(anomalies);
    }
    {   // W4: two producers blocked on a full queue; two gets back to back: both producers succeed promptly
        long long worst = 0, anomalies = 0; int done = 0;
        if (CAP >= 2) for (int t = 0; t < trials; ++t) {
            queue<int, CAP> q; for (size_t i = 0; i < CAP; ++i) q.put(int(i), 0ms);
            std::vector<int> res(2, -1); std::vector<long long> dt(2, 0);
            std::vector<std::thread> th; clk::time_point t0; std::atomic<int> ready{0};
            for (int i = 0; i < 2; ++i) th.emplace_back([&, i] { ready++; res[i] = q.put(100 + i, 2000ms); dt[i] = ms(clk::now() - t0); });
            while (ready.load() < 2) std::this_thread::yield();
            std::this_thread::sleep_for(30ms);
            t0 = clk::now();
            int v; q.get(v, 0ms); q.get(v, 0ms);
            for (auto& x : th) x.join();
            for (int i = 0; i < 2; ++i) { worst = std::max(worst, dt[i]); if (res[i] != 1) ++anomalies; }
            ++done;
        }
        r.push_back(done); r.push_back(worst); r.push_back(anomalies);
    }
    {   // W5: a producer blocked on a full queue; a get frees a slot and close follows at once: a closed queue never holds an item
        long long worst = 0, anomalies = 0;
        for (int t = 0; t < trials * 20; ++t) {
            queue<int, CAP> q; for (size_t i = 0; i < CAP; ++i) q.put(int(i), 0ms);
            int res = -1; clk::time_point t0; std::atomic<int> ready{0}; long long dt = 0;
            std::thread th([&] { ready++; res = q.put(777, 2000ms); dt = ms(clk::now() - t0); });
            while (ready.load() < 1) std::this_thread::yield();
            std::this_thread::sleep_for(std::chrono::microseconds(300 + 200 * (t % 5)));
            t0 = clk::now();
            int v; q.get(v, 0ms); q.close();
            th.join();
            worst = std::max(worst, dt);
            if (q.is_closed() && q.size() != 0) ++anomalies;   // CLOSED is reached only through an empty queue and admits no put
            // drain what close left
            std::vector<int> rest; while (q.get(v, 0ms)) rest.push_back(v);
            bool has777 = false; for (int x : rest) has777 |= (x == 777);
            if ((res == 1) != has777) ++anomalies;            // accepted item lost, or rejected item delivered
            if (!q.is_closed() || q.size() != 0) ++anomalies;
        }
        r.push_back(trials * 20); r.push_back(worst); r.push_back(anomalies);
    }
    {   // W6: a consumer blocked on an empty queue; an item is put and taken again at once by another caller: the queue is still open, so the
        //     blocked get (default or 2 s time-out) must keep waiting, and it receives the next item promptly
        long long worst = 0, anomalies = 0;
        for (int t = 0; t < trials * 6; ++t) {
            queue<int, CAP> q; int res = -1, val = -1; std::atomic<int> ready{0}, done{0}; clk::time_point t0 = clk::now(), tend = t0;
            std::thread th([&] { ready++; res = (t % 2) ? q.get(val, 2000ms) : q.get(val); tend = clk::now(); done = 1; });
            while (ready.load() < 1) std::this_thread::yield();
            std::this_thread::sleep_for(std::chrono::milliseconds(3 + t % 3));
            int v = -1; q.put(5, 0ms); q.get(v, 0ms);
            std::this_thread::sleep_for(40ms);
            if (done.load() && res != 1) ++anomalies;          // gave up on an open queue long before its time-out
            t0 = clk::now();
            q.put(9, 0ms);
            th.join();
            if (res == 1 && tend > t0) worst = std::max(worst, ms(tend - t0));     // it was still waiting when the second item came
        }
        r.push_back(trials * 6); r.push_back(worst); r.push_back(anomalies);
    }
    return join(r);
}

#define CAPS(fn) switch (a.at(0)) { case 1: return fn<1>(a); case 2: return fn<2>(a); case 3: return fn<3>(a); case 8: return fn<8>(a); case 96: return fn<96>(a); case 320: return fn<320>(a); default: return std::string("bad-cap"); }
static std::string handle(const std::string& op, const Args& a)
{
    if (op == "qseq") { CAPS(seq) }
    if (op == "qmt") { CAPS(mt) }
    if (op == "qtime") { CAPS(timing) }
    if (op == "qwake") { CAPS(wake) }
    return "bad-op";
}

int main()
{
    std::string line;
    while (std::getline(std::cin, line))
    {
        std::istringstream is(line);
        std::string op; is >> op;
        if (op.empty()) continue;
        Args a; long long x;
        while (is >> x) a.push_back(x);
        std::string r = handle(op, a);
        fputs(r.c_str(), stdout); fputc('\n', stdout); fflush(stdout);
    }
    return 0;
}

// M17Modulator with real threads behind the line protocol (C14).  codec2 is replaced at link time by a stand-in whose
// 8-byte output is a fingerprint of its 160 input samples, so that loss, duplication or reordering of audio is visible.
#include <cstdio>
#include <cstdint>
#include <cstring>
#include <string>
#include <vector>
#include <sstream>
#include <iostream>
#include <thread>
#include <atomic>
#include <chrono>
#include <random>

// ---- codec2 stand-in (same C interface as <codec2/codec2.h>) ----
extern "C" {
struct CODEC2 { int dummy; };
struct CODEC2* codec2_create(int) { return new CODEC2{0}; }
void codec2_destroy(struct CODEC2* c) { delete c; }
void codec2_encode(struct CODEC2*, unsigned char* bits, short speech_in[])
{
    uint16_t first = uint16_t(speech_in[0]), last = uint16_t(speech_in[159]);
    uint32_t sum = 0; for (int i = 0; i < 160; ++i) sum += uint16_t(speech_in[i]);
    bits[0] = first >> 8; bits[1] = first & 0xFF; bits[2] = last >> 8; bits[3] = last & 0xFF;
    bits[4] = (sum >> 24) & 0xFF; bits[5] = (sum >> 16) & 0xFF; bits[6] = (sum >> 8) & 0xFF; bits[7] = sum & 0xFF;
}
}
#define CODEC2_MODE_3200 0
#define __CODEC2__          // keep the real header out if it is found
#include "m17cxx/M17Modulator.h"

using namespace mobilinkd;
using namespace std::chrono_literals;
typedef std::vector<long long> Args;
static std::string join(const std::vector<long long>& v)
{
    std::string s;
    for (size_t i = 0; i < v.size(); ++i) { if (i) s += ' '; s += std::to_string(v[i]); }
    return s;
}

// modrun <seed> <consumer mode 0 eager | 1 slow (1 byte / 200us) | 2 stalls> <audio mode 0 prequeued-trickle | 1 bursty>
//        <keyups> <frames per keyup (full 320-sample blocks fed while active)> <extra samples> <nsrc> src... <ndst> dst...
//        [optional: per key-up pairs <frames_k> <extra_k> overriding the common values]
// reply: <final state> <exception 0/1> | bytes...
// access to the private address fields of M17Modulator (explicit-instantiation friend injection; no change to the class)
template <typename Tag, typename Tag::type M> struct Rob { friend typename Tag::type get(Tag) { return M; } };
struct SrcTag { typedef LinkSetupFrame::encoded_call_t M17Modulator::*type; friend type get(SrcTag); };
struct DstTag { typedef LinkSetupFrame::encoded_call_t M17Modulator::*type; friend type get(DstTag); };
template struct Rob<SrcTag, &M17Modulator::source_>;
template struct Rob<DstTag, &M17Modulator::dest_>;

// mod_addr_sweep <len> <mode 0 constructor | 1 setters on one long-lived object>: every callsign of exactly <len> characters over the M17 alphabet
// given to the modulator as source and as destination; the stored addresses must be the base-40 addresses of the specification
// (computed here independently).  reply: <cases> <mismatches> <index of the first mismatch>
static std::string mod_addr_sweep(const Args& a)
{
    static const char ALPHA[] = " ABCDEFGHIJKLMNOPQRSTUVWXYZ0123456789-/.";
    size_t len = size_t(a.at(0)); bool setters = a.at(1) != 0;
    long long cases = 0, bad = 0, first = -1;
    std::vector<size_t> idx(len, 1);
    M17Modulator keep("A", "B");
    while (true) {
        std::string cs(len, ' ');
        unsigned long long v = 0, pw = 1;
        for (size_t i = 0; i < len; ++i) { cs[i] = ALPHA[idx[i]]; v += idx[i] * pw; pw *= 40; }
        LinkSetupFrame::encoded_call_t want;
        for (size_t i = 0; i < 6; ++i) want[i] = uint8_t(v >> (8 * (5 - i)));
        LinkSetupFrame::encoded_call_t s, d;
        if (setters) {          // a longer callsign was in force before: nothing of it may survive
            if (cases % 3 == 0) { keep.source("ZZZZZZZZZ"); keep.dest("9/9/9/9/9"); }
            keep.source(cs); keep.dest(cs); s = keep.*get(SrcTag()); d = keep.*get(DstTag());
        }
        else { M17Modulator m(cs, cs); s = m.*get(SrcTag()); d = m.*get(DstTag()); }
        if (s != want || d != want) { if (!bad) first = cases; ++bad; }
        ++cases;
        size_t k = 0;
        while (k < len && ++idx[k] == 40) { idx[k] = 1; ++k; }
        if (k == len) break;
    }
    return join({cases, bad, first});
}

// modapi: like modrun (consumer eager, audio prequeued) but the callsigns are changed through the public setters between key-ups:
// modapi <seed> <frames> <extra> <nsrc> src... <ndst> dst... <K> then K times: <kind 0 none | 1 source(x) | 2 dest(x)> <len> chars...
struct ApiStep { int kind; std::string call; };
static std::vector<ApiStep> g_api;
static std::string modrun(const Args& a);
static std::string modapi(const Args& a)
{
    size_t ns = size_t(a.at(3));
    size_t nd = size_t(a.at(4 + ns));
    size_t j = 5 + ns + nd;
    size_t K = size_t(a.at(j++));
    g_api.clear();
    for (size_t k = 0; k < K; ++k) {
        ApiStep st; st.kind = int(a.at(j++)); size_t len = size_t(a.at(j++));
        for (size_t i = 0; i < len; ++i) st.call.push_back(char(a.at(j++)));
        g_api.push_back(st);
    }
    Args b{a.at(0), 0, 0, (long long)K, a.at(1), a.at(2)};
    for (size_t i = 3; i < 5 + ns + nd; ++i) b.push_back(a[i]);
    std::string r = modrun(b);
    g_api.clear();
    return r;
}
static std::string modrun(const Args& a)
{
    unsigned seed = unsigned(a.at(0)); int cmode = int(a.at(1)), amode = int(a.at(2));
    int keyups = int(a.at(3)), frames = int(a.at(4)), extra = int(a.at(5));
    size_t ns = size_t(a.at(6)); std::string src, dst;
    for (size_t i = 0; i < ns; ++i) src.push_back(char(a.at(7 + i)));
    size_t nd = size_t(a.at(7 + ns));
    for (size_t i = 0; i < nd; ++i) dst.push_back(char(a.at(8 + ns + i)));
    std::vector<std::pair<int, int>> plan(size_t(keyups), {frames, extra});
    for (size_t k = 0, j = 8 + ns + nd; k < size_t(keyups) && j + 1 < a.size(); ++k, j += 2) plan[k] = {int(a[j]), int(a[j + 1])};
    std::mt19937 rng(seed);
    auto aq = std::make_shared<M17Modulator::audio_queue_t>();
    auto bq = std::make_shared<M17Modulator::bitstream_queue_t>();
    M17Modulator mod(src, dst);
    std::vector<long long> out;
    std::atomic<bool> stop{false};
    std::thread consumer([&] {
        std::mt19937 g(seed * 7 + 1);
        uint8_t b;
        while (true) {
            if (!bq->get(b, 50ms)) { if (stop) break; else continue; }
            out.push_back(b);
            if (cmode == 1) std::this_thread::sleep_for(200us);
            if (cmode == 2 && g() % 97 == 0) std::this_thread::sleep_for(std::chrono::milliseconds(5 + g() % 40));
        }
    });
    bool exc = false;
    auto fut = mod.run(aq, bq);
    int16_t counter = 1;
    auto feed = [&](int n) {
        for (int i = 0; i < n; ++i) {
            aq->put(counter, 5s);
            counter = int16_t(counter == 30000 ? 1 : counter + 1);
            if (amode == 1 && rng() % 400 == 0) std::this_thread::sleep_for(std::chrono::milliseconds(rng() % 8));
        }
    };
    for (int k = 0; k < keyups; ++k) {
        if (size_t(k) < g_api.size()) {
            if (g_api[size_t(k)].kind == 1) mod.source(g_api[size_t(k)].call);
            if (g_api[size_t(k)].kind == 2) mod.dest(g_api[size_t(k)].call);
        }
        // audio while idle (discarded) - or none at all: a re-key straight after wait_until_idle(), with no sample taken in IDLE in between
        // (a PTT-gated microphone), must start from frame number 0 / LICH fragment 0 just the same
        feed((rng() % 3 == 0) ? 0 : int(rng() % 50));
        while (aq->size() != 0) std::this_thread::sleep_for(1ms);
        std::this_thread::sleep_for(3ms);       // the modulator thread has taken the last idle sample
        mod.ptt_on();
        // PREAMBLE and LINK_SETUP each consume one sample; then `frames` full blocks and `extra` samples
        feed(2);
        while (mod.state() != M17Modulator::State::ACTIVE) std::this_thread::sleep_for(1ms);
        feed(plan[size_t(k)].first * 320 + plan[size_t(k)].second);
        while (aq->size() != 0) std::this_thread::sleep_for(1ms);
        std::this_thread::sleep_for(5ms);
        mod.ptt_off();
        feed(1);                                // the END_OF_STREAM iteration needs one more sample
        mod.wait_until_idle();
    }
    std::this_thread::sleep_for(20ms);
    int st = int(mod.state());
    aq->close();
    try { fut.get(); } catch (...) { exc = true; }
    std::this_thread::sleep_for(60ms);
    stop = true;
    consumer.join();
    bq->close();
    return std::to_string(st) + " " + std::to_string(exc ? 1 : 0) + " | " + join(out);
}

int main()
{
    std::string line;
    while (std::getline(std::cin, line)) {
        std::istringstream is(line);
        std::string op; is >> op;
        if (op.empty()) continue;
        Args a; long long x;
        while (is >> x) a.push_back(x);
        std::string r = op == "modrun" ? modrun(a) : op == "modapi" ? modapi(a) : op == "mod_addr_sweep" ? mod_addr_sweep(a) : std::string("bad-op");
        fputs(r.c_str(), stdout); fputc('\n', stdout); fflush(stdout);
    }
    return 0;
}

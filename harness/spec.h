// Independent re-statement of M17 specification facts used by property-level oracles in the harness.
// Nothing in here includes or calls the repository's code.  The same definitions exist in Lean
// (lean/M17/Spec/*.lean); `spec_*` operations of both drivers are cross-checked against each other.
#pragma once
#include <cstdint>
#include <vector>
#include <array>

namespace spec {

// M17 Golay(24,12) generator: check bits of data bit i (libm17 / specification table)
static const uint16_t GOLAY_ROWS[12] = {0x8eb, 0x93e, 0xa97, 0xdc6, 0x367, 0x6cd, 0xd99, 0x3da, 0x7b4, 0xf68, 0x63b, 0xc75};

inline uint32_t golay24(uint16_t d)
{
    uint32_t chk = 0;
    for (int i = 0; i < 12; ++i) if (d & (1u << i)) chk ^= GOLAY_ROWS[i];
    return (uint32_t(d & 0xFFF) << 12) | chk;
}

inline int popcnt(uint32_t x) { int n = 0; while (x) { n += x & 1; x >>= 1; } return n; }

// M17 CRC-16: poly 0x5935, init 0xFFFF, MSB first, no reflection, no final xor (direct form)
inline uint16_t crc16(const uint8_t* p, size_t n)
{
    uint16_t r = 0xFFFF;
    for (size_t k = 0; k < n; ++k) {
        r ^= uint16_t(p[k]) << 8;
        for (int i = 0; i < 8; ++i) r = (r & 0x8000) ? uint16_t((r << 1) ^ 0x5935) : uint16_t(r << 1);
    }
    return r;
}

} // namespace spec

// Independent re-statement of M17 specification facts used by property-level oracles in the harness.
// Nothing in here includes or calls the repository's code.  The same definitions exist in Lean
// (lean/M17/Spec/*.lean); `spec_*` operations of both drivers are cross-checked against each other.
#pragma once
#include <cstdint>
#include <vector>
#include <array>
#include <algorithm>

namespace spec {

// M17 Golay(24,12) generator: check bits of data bit i (libm17 / specification table)
static const uint16_t GOLAY_ROWS[12] = {0x8eb, 0x93e, 0xa97, 0xdc6, 0x367, 0x6cd, 0xd99, 0x3da, 0x7b4, 0xf68, 0x63b, 0xc75};

inline uint32_t golay24(uint16_t d)
{
    uint32_t chk = 0;
    for (int i = 0; i < 12; ++i) if (d & (1u << i)) chk ^= GOLAY_ROWS[i];
    return (uint32_t(d & 0xFFF) << 12) | chk;
}

inline int popcnt(uint32_t x) { int n = 0; while (x) { n += x & 1; x >>= 1; } return n; }

// M17 CRC-16: poly 0x5935, init 0xFFFF, MSB first, no reflection, no final xor (direct form)
inline uint16_t crc16(const uint8_t* p, size_t n)
{
    uint16_t r = 0xFFFF;
    for (size_t k = 0; k < n; ++k) {
        r ^= uint16_t(p[k]) << 8;
        for (int i = 0; i < 8; ++i) r = (r & 0x8000) ? uint16_t((r << 1) ^ 0x5935) : uint16_t(r << 1);
    }
    return r;
}

// ---- convolutional code (specification): K=5, G1=031, G2=027; state = last 4 input bits ----
inline int par5(unsigned x) { x &= 31; x ^= x >> 4; x ^= x >> 2; x ^= x >> 1; return x & 1; }
inline void conv_out(unsigned state, int bit, int& o1, int& o2)
{
    unsigned m = ((state << 1) | unsigned(bit)) & 31;
    o1 = par5(m & 031); o2 = par5(m & 027);
}
inline long long soft_dist1(int L, int bit, int r) { if (r == 0) return 0; int e = bit ? L : -L; return e > r ? e - r : r - e; }

// minimum total soft distance over all input sequences from state 0 (free end state), optionally with the first
// `prefix.size()` input bits forced.  Plain forward dynamic programme, written independently of the repository.
inline long long viterbi_min(const std::vector<int>& recv, int L, const std::vector<int>& prefix)
{
    const long long INF = 1LL << 60;
    std::vector<long long> m(16, INF), n(16);
    m[0] = 0;
    size_t T = recv.size() / 2;
    for (size_t t = 0; t < T; ++t) {
        std::fill(n.begin(), n.end(), INF);
        for (unsigned s = 0; s < 16; ++s) {
            if (m[s] >= INF) continue;
            for (int b = 0; b < 2; ++b) {
                if (t < prefix.size() && prefix[t] != b) continue;
                int o1, o2; conv_out(s, b, o1, o2);
                long long c = m[s] + soft_dist1(L, o1, recv[2 * t]) + soft_dist1(L, o2, recv[2 * t + 1]);
                unsigned ns = ((s << 1) | unsigned(b)) & 15;
                if (c < n[ns]) n[ns] = c;
            }
        }
        m.swap(n);
    }
    long long best = INF;
    for (auto x : m) best = std::min(best, x);
    return best;
}

// brute force over all 2^T input sequences (T <= 20)
inline long long brute_min(const std::vector<int>& recv, int L)
{
    size_t T = recv.size() / 2;
    long long best = 1LL << 60;
    for (unsigned long u = 0; u < (1ul << T); ++u) {
        unsigned s = 0; long long c = 0;
        for (size_t t = 0; t < T; ++t) {
            int b = (u >> t) & 1, o1, o2; conv_out(s, b, o1, o2);
            c += soft_dist1(L, o1, recv[2 * t]) + soft_dist1(L, o2, recv[2 * t + 1]);
            s = ((s << 1) | unsigned(b)) & 15;
        }
        best = std::min(best, c);
    }
    return best;
}

} // namespace spec

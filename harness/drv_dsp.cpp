#include <cmath>
// DSP primitives of the current tree behind the line protocol (C19): FIR with the demodulator's tap sets, the
// correlator's IIR, the carrier detector's sliding DFT.  Samples are passed as integers n meaning n/4096 (exact in
// float and double); results are returned as IEEE bit patterns so that the comparison can be exact.
#include <cstdio>
#include <cstring>
#include <string>
#include <memory>
#include <vector>
#include <sstream>
#include <iostream>
#include <complex>
#include "m17cxx/M17Demodulator.h"
bool display_lsf = false;
using namespace mobilinkd;
typedef std::vector<long long> Args;
static std::string join(const std::vector<long long>& v)
{
    std::string s;
    for (size_t i = 0; i < v.size(); ++i) { if (i) s += ' '; s += std::to_string(v[i]); }
    return s;
}
template <typename F> static long long bits(F x)
{
    if constexpr (sizeof(F) == 4) { uint32_t b; memcpy(&b, &x, 4); return (long long)b; }
    else { uint64_t b; memcpy(&b, &x, 8); return (long long)b; }
}
template <typename F> static std::string fir(const Args& a)
{
    BaseFirFilter<F, 150> f{detail::Taps<F>::rrc_taps};
    std::vector<long long> r;
    for (size_t i = 1; i < a.size(); ++i) {
        if (a[i] == 999999) { f.reset(); continue; }       // reset() marker
        r.push_back(bits(f(F(a[i]) / F(4096))));
    }
    return join(r);
}
template <typename F> static std::string iir(const Args& a)
{
    BaseIirFilter<F, 3> f{Correlator<F>::b, Correlator<F>::a};
    std::vector<long long> r;
    for (size_t i = 1; i < a.size(); ++i) r.push_back(bits(f(F(a[i]) / F(4096))));
    return join(r);
}
// firs <d> <k> x...: the 150-tap receive filter on inputs x / 2^k (reset marker as in `fir`)
template <typename F> static std::string firs(const Args& a)
{
    BaseFirFilter<F, 150> f{detail::Taps<F>::rrc_taps};
    std::vector<long long> r;
    if (a.size() < 2) return "bad-op";
    const F sc = std::ldexp(F(1), int(a[1]));
    for (size_t i = 2; i < a.size(); ++i) {
        if (a[i] == 999999) { f.reset(); continue; }
        r.push_back(bits(f(F(a[i]) / sc)));
    }
    return join(r);
}
// iirs <d> <k> x...: the same filter on inputs scaled to x / 2^k (small amplitudes; the filter is linear, so every amplitude matters)
template <typename F> static std::string iirs(const Args& a)
{
    BaseIirFilter<F, 3> f{Correlator<F>::b, Correlator<F>::a};
    std::vector<long long> r;
    if (a.size() < 2) return "bad-op";
    const F sc = std::ldexp(F(1), int(a[1]));
    for (size_t i = 2; i < a.size(); ++i) r.push_back(bits(f(F(a[i]) / sc)));
    return join(r);
}
template <typename F> static std::string sdft(const Args& a)
{
    NSlidingDFT<F, 48000, 120, 2> d({2400, 3600});
    std::vector<long long> r;
    for (size_t i = 1; i < a.size(); ++i) {
        auto v = d(F(a[i]) / F(4096));
        r.push_back(bits(double(v[0].real()))); r.push_back(bits(double(v[0].imag())));
        r.push_back(bits(double(v[1].real()))); r.push_back(bits(double(v[1].imag())));
    }
    return join(r);
}
template <typename F> static std::string sdft1(const Args& a)
{
    SlidingDFT<F, 48000, 3200, 400> d;     // damped single-bin variant, N = 120, bin 8 (the frequency must be a multiple of the resolution)
    std::vector<long long> r;
    for (size_t i = 1; i < a.size(); ++i) {
        auto v = d(F(a[i]) / F(4096));
        r.push_back(bits(double(v.real()))); r.push_back(bits(double(v.imag())));
    }
    return join(r);
}
// firg <d> <N> taps(N ints, value n/4096) samples...: BaseFirFilter<F,N> for other tap counts and tap sets than the repository's (even and odd N,
// symmetric and asymmetric), 999999 = reset()
template <typename F, size_t N> static std::string firg_n(const Args& a)
{
    std::array<F, N> taps; for (size_t i = 0; i < N; ++i) taps[i] = F(a.at(2 + i)) / F(4096);
    BaseFirFilter<F, N> f{taps};
    std::vector<long long> r;
    for (size_t i = 2 + N; i < a.size(); ++i) {
        if (a[i] == 999999) { f.reset(); continue; }
        r.push_back(bits(f(F(a[i]) / F(4096))));
    }
    return join(r);
}
template <typename F> static std::string firg(const Args& a)
{
    switch (a.at(1)) {
        case 1: return firg_n<F, 1>(a); case 2: return firg_n<F, 2>(a); case 3: return firg_n<F, 3>(a); case 4: return firg_n<F, 4>(a);
        case 5: return firg_n<F, 5>(a); case 8: return firg_n<F, 8>(a); case 10: return firg_n<F, 10>(a); case 11: return firg_n<F, 11>(a);
        default: return "bad-n";
    }
}
// sdftm <d> <k> f1a f1b ... samples: k+1 detectors of the SAME instantiation live in one process; the first k (frequency pairs given) are
// constructed and exercised first, the last one {2400,3600} is the one reported - each instance must use its own configured frequencies
template <typename F> static std::string sdftm(const Args& a)
{
    size_t k = size_t(a.at(1));
    std::vector<std::unique_ptr<NSlidingDFT<F, 48000, 120, 2>>> others;
    for (size_t i = 0; i < k; ++i) {
        others.emplace_back(new NSlidingDFT<F, 48000, 120, 2>({size_t(a.at(2 + 2 * i)), size_t(a.at(3 + 2 * i))}));
        (*others.back())(F(0.25));
    }
    NSlidingDFT<F, 48000, 120, 2> d({2400, 3600});
    std::vector<long long> r;
    for (size_t i = 2 + 2 * k; i < a.size(); ++i) {
        for (auto& o : others) (*o)(F(a[i]) / F(8192));
        auto v = d(F(a[i]) / F(4096));
        r.push_back(bits(double(v[0].real()))); r.push_back(bits(double(v[0].imag())));
        r.push_back(bits(double(v[1].real()))); r.push_back(bits(double(v[1].imag())));
    }
    return join(r);
}
static std::string handle(const std::string& op, const Args& a)
{
    bool d = !a.empty() && a[0] != 0;
    if (op == "fir") return d ? fir<double>(a) : fir<float>(a);
    if (op == "iir") return d ? iir<double>(a) : iir<float>(a);
    if (op == "firs") return d ? firs<double>(a) : firs<float>(a);
    if (op == "iirs") return d ? iirs<double>(a) : iirs<float>(a);
    if (op == "sdft") return d ? sdft<double>(a) : sdft<float>(a);
    if (op == "sdft1") return d ? sdft1<double>(a) : sdft1<float>(a);
    if (op == "firg") return d ? firg<double>(a) : firg<float>(a);
    if (op == "sdftm") return d ? sdftm<double>(a) : sdftm<float>(a);
    return "bad-op";
}
int main()
{
    std::string line;
    while (std::getline(std::cin, line)) {
        std::istringstream is(line);
        std::string op; is >> op;
        if (op.empty()) continue;
        Args a; long long x;
        while (is >> x) a.push_back(x);
        std::string r = handle(op, a);
        fputs(r.c_str(), stdout); fputc('\n', stdout);
    }
    return 0;
}

#!/usr/bin/env python3
"""Measurement, not a check: which lines of the repository's headers and programs do the correspondence / exploration streams execute?

usage:  python3 tools/coverage_report.py <scratch-copy-of-/verif> [--repo /repo] [--md out.md]

The scratch copy must have been run with drivers built with `--coverage -O0` (see DESIGN.md §21: copy /verif, add the two flags in
tools/lib/core.py:build_cpp, run every quick check there). This script runs gcov on every .gcda below <copy>/.build/cxx, merges the
per-line execution counts of all programs and prints, per repository file, the executable lines never reached - the places where the hand-written
model is not exercised against the code.
"""
import sys, os, glob, gzip, json, subprocess, argparse, collections


def main():
    ap = argparse.ArgumentParser()
    ap.add_argument("copy")
    ap.add_argument("--repo", default="/repo")
    ap.add_argument("--md")
    a = ap.parse_args()
    repo = os.path.realpath(a.repo)
    hits = collections.defaultdict(dict)          # file -> line -> count
    for gcda in glob.glob(os.path.join(a.copy, ".build", "cxx", "*", "*.gcda")):
        d = os.path.dirname(gcda)
        p = subprocess.run(["gcov", "--json-format", "--stdout", os.path.basename(gcda)], cwd=d, stdout=subprocess.PIPE, stderr=subprocess.DEVNULL)
        for chunk in p.stdout.decode(errors="replace").splitlines():
            if not chunk.strip().startswith("{"):
                continue
            j = json.loads(chunk)
            for f in j.get("files", []):
                fn = os.path.realpath(os.path.join(d, f["file"]))
                if not fn.startswith(repo + "/"):
                    continue
                rel = fn[len(repo) + 1:]
                for ln in f["lines"]:
                    n = ln["line_number"]
                    hits[rel][n] = hits[rel].get(n, 0) + ln["count"]
    out = []
    tot_l = tot_h = 0
    for rel in sorted(hits):
        lines = hits[rel]
        src = open(os.path.join(repo, rel), errors="replace").read().splitlines()
        miss = sorted(n for n, c in lines.items() if c == 0)
        tot_l += len(lines); tot_h += len(lines) - len(miss)
        out.append(f"### {rel}: {len(lines) - len(miss)}/{len(lines)} executable lines reached")
        # group into ranges
        rng = []
        for n in miss:
            if rng and n <= rng[-1][1] + 2:
                rng[-1][1] = n
            else:
                rng.append([n, n])
        for lo, hi in rng:
            text = src[lo - 1].strip()[:110] if lo - 1 < len(src) else ""
            out.append(f"* {lo}" + (f"-{hi}" if hi != lo else "") + f": `{text}`")
        out.append("")
    head = f"## Line coverage of the repository by the checks' drivers: {tot_h}/{tot_l} executable lines ({100.0 * tot_h / max(1, tot_l):.1f} %)\n"
    text = head + "\n".join(out)
    if a.md:
        open(a.md, "w").write(text + "\n")
    print(text)


if __name__ == "__main__":
    main()

#!/usr/bin/env python3
"""
Confirm a seeded change independently, then run the registered checks against it.

  tools/seed_verify.py <seed-id> <dir with patch.diff demo.cpp notes.md> <PROP>[,PROP...] [--needs "..."]

1. scratch worktree of /repo HEAD under /tmp: baseline test results, demo must exit 0;
2. apply patch: must compile, same tests pass, demo must exit non-zero;
3. apply patch to /repo itself, run `tools/check.py <PROP> --tier quick` for each property, undo (git checkout -- .);
4. store /verif/seeded/<seed-id>/{patch.diff, demo.cpp, notes.md, meta.json}.
"""
import sys, os, subprocess, json, shutil, re, time

V = os.path.dirname(os.path.dirname(os.path.abspath(__file__)))
# Isolation: when M17_REPO points at a scratch clone of /repo (and this script runs from a scratch copy of /verif) the patch is applied to the
# clone, the checks read the clone (tools/lib/core.py honours M17_REPO), and /repo itself is never touched, so the main tree stays usable.
REPO = os.environ.get("M17_REPO", "/repo")
DEST = os.environ.get("SEED_DEST", V)      # where seeded/<id>/ is stored (the real /verif)


def sh(cmd, cwd=None, timeout=3600):
    p = subprocess.run(cmd, shell=True, cwd=cwd, stdout=subprocess.PIPE, stderr=subprocess.STDOUT, text=True, timeout=timeout)
    return p.returncode, p.stdout


def ctest(wt):
    sh(f"cmake -G Ninja -S {wt} -B {wt}/_b -DCMAKE_BUILD_TYPE=RelWithDebInfo", timeout=600)
    sh(f"cmake --build {wt}/_b -j16 -- -k0", timeout=1800)
    rc, out = sh(f"ctest --test-dir {wt}/_b -j8 --timeout 900", timeout=1800)
    passed = set(re.findall(r"Test\s+#\d+: (\S+) \.+\s+Passed", out))
    return passed


def main():
    sid, src, props = sys.argv[1], sys.argv[2], sys.argv[3].split(",")
    needs = sys.argv[5] if len(sys.argv) > 5 and sys.argv[4] == "--needs" else ""
    wt = f"/tmp/seedverify-{sid}"
    sh(f"git -C {REPO} worktree remove --force {wt}")
    rc, out = sh(f"git -C {REPO} worktree add --detach {wt} HEAD")
    meta = {"id": sid, "breaks": props, "needs": needs, "ran": []}
    try:
        base = ctest(wt)
        demo = os.path.join(src, "demo.cpp")
        srcabs = os.path.abspath(src)
        stubs = " ".join(f"-I{os.path.join(srcabs, d)}" for d in sorted(os.listdir(srcabs)) if os.path.isdir(os.path.join(srcabs, d)))
        extra = f"-I{wt}/include/m17cxx -I{wt}/apps -I{srcabs} {stubs} -pthread -lcodec2 -lboost_program_options"
        if os.path.exists(os.path.join(srcabs, "demo.flags")):            # compiler flags the demonstration needs (sanitizers, assertions)
            extra = open(os.path.join(srcabs, "demo.flags")).read().strip() + " " + extra
        script = os.path.join(srcabs, "demo.sh")
        use_script = (not os.path.exists(demo)) and os.path.exists(script)      # a demonstration script, run from the tree's root
        def run_demo(tag):
            if use_script:
                return sh(f"cd {wt} && bash {script}", timeout=900)
            return sh(f"g++ -std=c++20 -I{wt}/include -I{wt} {demo} -o {wt}/_b/demo{tag} {extra} && {wt}/_b/demo{tag}", timeout=900)
        rc0, o0 = run_demo(0)
        meta["demo_without_patch_exit"] = rc0
        rc, out = sh(f"git -C {wt} apply {os.path.abspath(src)}/patch.diff")
        if rc != 0:
            print("patch does not apply:", out); return 1
        mut = ctest(wt)
        rc1, o1 = run_demo(1)
        meta["demo_with_patch_exit"] = rc1
        meta["tests_passed_baseline"] = len(base)
        meta["tests_passed_with_patch"] = len(mut)
        meta["tests_same"] = (base == mut)
        meta["demo_output_with_patch"] = o1[-600:]
        print(f"[{sid}] baseline tests {len(base)}, with patch {len(mut)}, same={base == mut}; demo exit without={rc0} with={rc1}")
        confirmed = (base == mut) and rc0 == 0 and rc1 != 0 and len(base) > 50
        meta["confirmed"] = confirmed
    finally:
        sh(f"git -C {REPO} worktree remove --force {wt}")
        shutil.rmtree(wt, ignore_errors=True)
    if not meta.get("confirmed"):
        print(f"[{sid}] NOT confirmed; not kept"); print(json.dumps(meta, indent=1)[:1500]); return 1
    # run the checks against /repo with the patch applied
    rc, out = sh(f"git -C {REPO} status --porcelain --untracked-files=no")
    if out.strip():
        print(f"{REPO} has local modifications; refusing"); return 2
    rc, out = sh(f"git -C {REPO} apply {os.path.abspath(src)}/patch.diff")
    try:
        for p in props:
            t0 = time.time()
            rc, out = sh(f"python3 tools/check.py {p} --tier quick", cwd=V, timeout=3600)
            viol = [l for l in out.split("\n") if l.startswith("VIOLATION")]
            why = [l for l in out.split("\n") if l.startswith("  ->") or l.startswith("  broken") or l.startswith("  disagreement")]
            meta["ran"].append({"check": f"tools/check.py {p} --tier quick", "exit": rc, "violation_lines": viol[:3], "detail": why[:4],
                                "wall_s": round(time.time() - t0, 1)})
            print(f"[{sid}] check {p}: exit {rc}; {viol[:1]} {why[:2]}")
    finally:
        sh(f"git -C {REPO} checkout -- .")
    meta["detected_by"] = [r["check"] for r in meta["ran"] if r["exit"] == 1 and r["violation_lines"]]
    dst = os.path.join(DEST, "seeded", sid)
    os.makedirs(dst, exist_ok=True)
    extra_files = [f for f in os.listdir(src) if f.endswith((".h", ".hpp", ".inc", ".cpp")) and f != "demo.cpp" and os.path.isfile(os.path.join(src, f))]
    for f in ["patch.diff", "demo.cpp", "demo.sh", "demo.flags", "notes.md"] + extra_files:
        if os.path.exists(os.path.join(src, f)) and os.path.abspath(os.path.join(src, f)) != os.path.abspath(os.path.join(dst, f)):
            shutil.copy(os.path.join(src, f), os.path.join(dst, f))
    for d in os.listdir(src):
        if os.path.isdir(os.path.join(src, d)) and os.path.abspath(src) != os.path.abspath(dst):
            shutil.copytree(os.path.join(src, d), os.path.join(dst, d), dirs_exist_ok=True)
    json.dump(meta, open(os.path.join(dst, "meta.json"), "w"), indent=1)
    print(f"[{sid}] detected_by: {meta['detected_by']}")
    return 0


if __name__ == "__main__":
    sys.exit(main())

#!/usr/bin/env python3
"""Print the markdown table of seeded changes (seeded/*/meta.json): id, what it needs, which quick checks caught it, which stayed quiet."""
import json, glob, os, re, sys
V = os.path.dirname(os.path.dirname(os.path.abspath(__file__)))
pat = sys.argv[1] if len(sys.argv) > 1 else "*"
rows = []
for mj in sorted(glob.glob(os.path.join(V, "seeded", pat, "meta.json"))):
    m = json.load(open(mj))
    sid = m["id"]
    needs = re.sub(r"\s+", " ", m.get("needs", "")).strip().replace("|", "/")
    needs = re.sub(r"^\*\*?[A-Za-z ]*\*\*?:?\s*", "", needs)
    caught = [r["check"].split()[1] for r in m.get("ran", []) if r["exit"] == 1 and r["violation_lines"]]
    quiet = [r["check"].split()[1] for r in m.get("ran", []) if not (r["exit"] == 1 and r["violation_lines"])]
    rows.append(f"| {sid} | {needs[:230]} | {', '.join(caught)} | {', '.join(quiet)} |")
print("| Seed | Change / what it needs to manifest | Caught by (quick tier) | Ran, quiet |\n|---|---|---|---|")
print("\n".join(rows))

"""C11 — puncture/depuncture keep positions exactly and mark everything else erased."""
from lib import core
from lib.prop import Prop

P1 = [0 if i % 4 == 2 else 1 for i in range(61)]
P2 = [1] * 11 + [0]
P3 = [1] * 7 + [0]
MATS = {61: P1, 12: P2, 8: P3, 3: [1, 0, 1], 5: [0, 1, 1, 0, 1]}
PUNCT = [(61, 488, 368), (12, 296, 272), (12, 402, 368), (8, 420, 368), (3, 10, 7), (3, 10, 4), (5, 13, 9), (5, 4, 9), (12, 24, 30)]
DEPUNCT = [(61, 368, 488), (12, 272, 296), (12, 368, 402), (8, 368, 420), (3, 7, 10), (3, 4, 10), (5, 9, 13), (5, 2, 13), (12, 30, 24)]
PBYTES = [(61, 61, 46), (12, 37, 34), (12, 41, 34), (8, 53, 46), (3, 3, 2), (5, 2, 3)]


def spec_punct(p, xs, prev):
    kept = [x for i, x in enumerate(xs) if p[i % len(p)]][:len(prev)]
    return [len(kept)] + kept + prev[len(kept):]


def spec_depunct(p, xs, n):
    out = []
    k = 0
    for i in range(n):
        if p[i % len(p)] and k < len(xs):
            out.append(xs[k]); k += 1
        else:
            out.append(0)
    return out


def bits_of(bs):
    return [(b >> (7 - k)) & 1 for b in bs for k in range(8)]


def pack(bits):
    return [sum(bits[i + j] << (7 - j) for j in range(8)) for i in range(0, len(bits), 8)]


class C11(Prop):
    pid = "C11"
    lean_targets = ["M17.Props.C11"]
    theorems = ["M17.C11.gen_p1_eq_spec", "M17.C11.gen_p2_eq_spec", "M17.C11.gen_p3_eq_spec", "M17.C11.pIdx_eq_mod",
                "M17.C11.puncture_spec", "M17.C11.puncture_out", "M17.C11.keptSeq_rank", "M17.C11.punctureBytes_bit",
                "M17.C11.depuncture_spec", "M17.C11.depuncture_prev_independent", "M17.C11.depuncture_puncture",
                "M17.C11.kept_lsf", "M17.C11.kept_stream", "M17.C11.kept_bert", "M17.C11.kept_packet", "M17.C11.frame_sizes"]
    level_text = ("Lean 4 theorems generic in matrix, lengths, contents and previous buffer content: the modelled puncture loop equals "
                  "'kept subsequence, truncated to the output size'; the modelled depuncture loop writes, at every output position, the received "
                  "value if the position is kept and received, else 0 — independent of what the buffer held; depuncture∘puncture is the identity on "
                  "kept positions; byte variant agrees; the four modem geometries yield 368/272/368/368 by kernel evaluation. Matrices regenerated "
                  "from Trellis.h; all three C++ entry points compared with the model for every geometry with random pre-filled output buffers.")
    design_ref = "DESIGN.md §5 C11"
    level_note = ("Trusted: Lean kernel; dump_tables.cpp; hand translation M17/Model/Puncture.lean validated by the correspondence stream "
                  "(including the previous-content argument). Axioms: propext, Classical.choice, Quot.sound only.")
    technique = "Lean 4 proof (structural induction over the loops, generic in all parameters) + regenerated matrices + differential correspondence"
    rule = ("random int8 contents and random PRE-FILLED output buffers for puncture/depuncture on the four modem (matrix,length) pairs and five toy "
            "pairs (including input shorter/longer than needed), puncture_bytes on 6 pairs; implementation vs Lean model vs independent python "
            "specification; distinct = distinct request lines; non-trivial = previous buffer content not all zero")

    def run(self, ctx):
        exe = self.impl_driver(ctx)
        rng = ctx.rng
        quick = ctx.tier == "quick"
        lines, expect = [], []
        reps = 12 if quick else 300
        for (P, IN, OUT) in PUNCT:
            for _ in range(reps):
                xs = [rng.randrange(-128, 128) for _ in range(IN)]
                prev = [rng.randrange(-128, 128) for _ in range(OUT)]
                lines.append(f"punct {P} {IN} {OUT} " + " ".join(map(str, xs + prev)))
                expect.append(" ".join(map(str, spec_punct(MATS[P], xs, prev))))
        for (P, IN, OUT) in DEPUNCT:
            for r in range(reps):
                xs = [rng.choice([-7, -3, -1, 1, 3, 7, rng.randrange(-128, 128)]) or 1 for _ in range(IN)]
                prev = [0] * OUT if r == 0 else [rng.randrange(-128, 128) or 5 for _ in range(OUT)]
                lines.append(f"depunct {P} {IN} {OUT} " + " ".join(map(str, xs + prev)))
                expect.append(" ".join(map(str, spec_depunct(MATS[P], xs, OUT))))
        for (P, IN, OUT) in PBYTES:
            for _ in range(reps):
                xs = [rng.randrange(256) for _ in range(IN)]
                prev = [rng.randrange(256) for _ in range(OUT)]
                r = spec_punct(MATS[P], bits_of(xs), bits_of(prev))
                lines.append(f"punct_bytes {P} {IN} {OUT} " + " ".join(map(str, xs + prev)))
                expect.append(" ".join(map(str, [r[0]] + pack(r[1:]))))
        impl = ctx.run_impl(exe, lines, "punct")
        for ln, a, e in zip(lines, impl, expect):
            f = ln.split()
            key = " ".join(f[:4])
            ctx.stat("combo:" + key)
            ctx.count(ln, nontrivial=True)
            if a != e:
                aa, ee = a.split(), e.split()
                k = next((i for i, (x, y) in enumerate(zip(aa, ee)) if x != y), -1)
                what = (f"{key}: output index {k} is {aa[k] if 0 <= k < len(aa) else '?'}, specification says {ee[k] if 0 <= k < len(ee) else '?'}"
                        + (" (position not received/punctured must be the erasure value 0, whatever the buffer held)" if f[0] == "depunct" else ""))
                ctx.violate(f"punct:{key}:{k}", what, {"stream": "punct", "ops": [ln], "impl": a, "spec": e})
        if ctx.model_ok:
            model = ctx.run_model(lines)
            ctx.compare("punct", lines, impl, model, oracle=lambda ln, a: None, sig=lambda ln: " ".join(ln.split()[:4]))
            ctx.traces += len(lines)
        ctx.sample({"op": lines[0][:90] + "...", "impl": impl[0][:60] + "..."})
        ctx.sample({"op": " ".join(lines[2 * reps + len(PUNCT) * reps].split()[:4]) + " ...", "note": "depuncture with pre-filled output buffer"})


PROP = C11()

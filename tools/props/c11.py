"""C11 — puncture/depuncture keep positions exactly and mark everything else erased."""
from lib import core
from lib.prop import Prop

P1 = [0 if i % 4 == 2 else 1 for i in range(61)]
P2 = [1] * 11 + [0]
P3 = [1] * 7 + [0]
MATS = {61: P1, 12: P2, 8: P3, 3: [1, 0, 1], 5: [0, 1, 1, 0, 1]}
PUNCT = [(61, 488, 368), (12, 296, 272), (12, 402, 368), (8, 420, 368), (3, 10, 7), (3, 10, 4), (5, 13, 9), (5, 4, 9), (12, 24, 30)]
DEPUNCT = [(61, 368, 488), (12, 272, 296), (12, 368, 402), (8, 368, 420), (3, 7, 10), (3, 4, 10), (5, 9, 13), (5, 2, 13), (12, 30, 24)]
PBYTES = [(61, 61, 46), (12, 37, 34), (12, 41, 34), (8, 53, 46), (3, 3, 2), (5, 2, 3)]


def spec_punct(p, xs, prev):
    kept = [x for i, x in enumerate(xs) if p[i % len(p)]][:len(prev)]
    return [len(kept)] + kept + prev[len(kept):]


def spec_depunct(p, xs, n):
    out = []
    k = 0
    for i in range(n):
        if p[i % len(p)] and k < len(xs):
            out.append(xs[k]); k += 1
        else:
            out.append(0)
    return out


def bits_of(bs):
    return [(b >> (7 - k)) & 1 for b in bs for k in range(8)]


def pack(bits):
    return [sum(bits[i + j] << (7 - j) for j in range(8)) for i in range(0, len(bits), 8)]


class C11(Prop):
    pid = "C11"
    lean_targets = ["M17.Props.C11"]
    theorems = ["M17.C11.gen_p1_eq_spec", "M17.C11.gen_p2_eq_spec", "M17.C11.gen_p3_eq_spec", "M17.C11.pIdx_eq_mod",
                "M17.C11.puncture_spec", "M17.C11.puncture_out", "M17.C11.keptSeq_rank", "M17.C11.punctureBytes_bit",
                "M17.C11.depuncture_spec", "M17.C11.depuncture_prev_independent", "M17.C11.depuncture_puncture",
                "M17.C11.kept_lsf", "M17.C11.kept_stream", "M17.C11.kept_bert", "M17.C11.kept_packet", "M17.C11.frame_sizes"]
    level_text = ("Lean 4 theorems generic in matrix, lengths, contents and previous buffer content: the modelled puncture loop equals "
                  "'kept subsequence, truncated to the output size'; the modelled depuncture loop writes, at every output position, the received "
                  "value if the position is kept and received, else 0 — independent of what the buffer held; depuncture∘puncture is the identity on "
                  "kept positions; byte variant agrees; the four modem geometries yield 368/272/368/368 by kernel evaluation. Matrices regenerated "
                  "from Trellis.h; all three C++ entry points compared with the model for every geometry with random pre-filled output buffers.")
    design_ref = "DESIGN.md §5 C11"
    level_note = ("Trusted: Lean kernel; dump_tables.cpp; hand translation M17/Model/Puncture.lean validated by the correspondence stream "
                  "(including the previous-content argument). Axioms: propext, Classical.choice, Quot.sound only.")
    technique = "Lean 4 proof (structural induction over the loops, generic in all parameters) + regenerated matrices + differential correspondence"
    rule = ("random int8 contents and random PRE-FILLED output buffers for puncture/depuncture on the four modem (matrix,length) pairs and five toy "
            "pairs (including input shorter/longer than needed), puncture_bytes on 6 pairs; implementation vs Lean model vs independent python "
            "specification; distinct = distinct request lines; non-trivial = previous buffer content not all zero")

    def run(self, ctx):
        exe = self.impl_driver(ctx)
        rng = ctx.rng
        quick = ctx.tier == "quick"
        lines, expect = [], []
        reps = 12 if quick else 300
        for (P, IN, OUT) in PUNCT:
            for _ in range(reps):
                xs = [rng.randrange(-128, 128) for _ in range(IN)]
                prev = [rng.randrange(-128, 128) for _ in range(OUT)]
                lines.append(f"punct {P} {IN} {OUT} " + " ".join(map(str, xs + prev)))
                expect.append(" ".join(map(str, spec_punct(MATS[P], xs, prev))))
        for (P, IN, OUT) in DEPUNCT:
            for r in range(reps):
                xs = [rng.choice([-7, -3, -1, 1, 3, 7, rng.randrange(-128, 128)]) or 1 for _ in range(IN)]
                prev = [0] * OUT if r == 0 else [rng.randrange(-128, 128) or 5 for _ in range(OUT)]
                lines.append(f"depunct {P} {IN} {OUT} " + " ".join(map(str, xs + prev)))
                expect.append(" ".join(map(str, spec_depunct(MATS[P], xs, OUT))))
        for (P, IN, OUT) in PBYTES:
            for _ in range(reps):
                xs = [rng.randrange(256) for _ in range(IN)]
                prev = [rng.randrange(256) for _ in range(OUT)]
                r = spec_punct(MATS[P], bits_of(xs), bits_of(prev))
                lines.append(f"punct_bytes {P} {IN} {OUT} " + " ".join(map(str, xs + prev)))
                expect.append(" ".join(map(str, [r[0]] + pack(r[1:]))))
        impl = ctx.run_impl(exe, lines, "punct")
        for ln, a, e in zip(lines, impl, expect):
            f = ln.split()
            key = " ".join(f[:4])
            ctx.stat("combo:" + key)
            ctx.count(ln, nontrivial=True)
            if a != e:
                aa, ee = a.split(), e.split()
                k = next((i for i, (x, y) in enumerate(zip(aa, ee)) if x != y), -1)
                what = (f"{key}: output index {k} is {aa[k] if 0 <= k < len(aa) else '?'}, specification says {ee[k] if 0 <= k < len(ee) else '?'}"
                        + (" (position not received/punctured must be the erasure value 0, whatever the buffer held)" if f[0] == "depunct" else ""))
                ctx.violate(f"punct:{key}:{k}", what, {"stream": "punct", "ops": [ln], "impl": a, "spec": e})
        if ctx.model_ok:
            model = ctx.run_model(lines)
            ctx.compare("punct", lines, impl, model, oracle=lambda ln, a: None, sig=lambda ln: " ".join(ln.split()[:4]))
            ctx.traces += len(lines)
        self.decoder_reuse(ctx)
        ctx.sample({"op": lines[0][:90] + "...", "impl": impl[0][:60] + "..."})
        ctx.sample({"op": " ".join(lines[2 * reps + len(PUNCT) * reps].split()[:4]) + " ...", "note": "depuncture with pre-filled output buffer"})

    def decoder_reuse(self, ctx):
        """the decoder de-punctures all four geometries into ONE reused buffer (a union): clean full-confidence frames of alternating kinds,
        including CRC-failing link setup frames and late entry, must each decode at cost 0 with the exact payload whatever the buffer held
        from the frame before (depuncture_prev_independent at its call sites), and as the history-free model does"""
        from lib import decgen, deccheck
        exe = self.impl_driver(ctx)
        rng = ctx.rng
        g = decgen.Gen(rng)
        g.mags = lambda: 7
        fixed = [["lsf_voice", "stream", "stream", "lsf_badcrc"] + ["lich_ok"] * 6 + ["stream", "stream", "bert", "lsf_voice", "stream", "lsf_pkt_raw", "pkt_mid", "pkt_eof",
                  "lsf_voice", "stream", "bert", "bert", "lsf_badcrc", "bert", "lsf_pkt_enc", "pkt_mid", "lsf_voice", "stream"],
                 ["bert", "lsf_voice", "stream", "lsf_nearcrc"] + ["stream"] * 7 + ["lsf_pkt_raw", "pkt_mid", "lsf_badcrc"] + ["lich_ok"] * 6 + ["stream"] * 2]
        pool = ["lsf_voice", "lsf_badcrc", "stream", "stream", "stream", "lich_ok", "bert", "lsf_pkt_raw", "pkt_mid", "pkt_eof", "lsf_data", "lsf_pkt_enc"]
        words = fixed + [[rng.choice(pool) for _ in range(40)] for _ in range(4 if ctx.tier == "quick" else 120)]
        lines, metas, impl, model = deccheck.run_words(ctx, exe, words, clean_prob=1.1, gen=g)
        for ln, m, a in zip(lines, metas, impl):
            if m is None:
                continue
            r = decgen.parse_reply(a)
            if not r:
                continue
            ctx.count(ln, nontrivial=True)
            ctx.stat("dec-reuse:" + m["kind"])
            for c in r["calls"]:
                if c["type"] in (0, 2, 3, 4, 5):
                    want = m.get("lsf") if c["type"] == 0 else m.get("payload")
                    ok_payload = want is None or c["type"] == 0 or c["bytes"] == want
                    if c["cost"] != 0 or not ok_payload:
                        ctx.violate(f"dec-reuse:{m['kind']}", f"clean full-confidence {m['kind']} frame after frames of other geometries in the decoder's reused de-puncture buffer: "
                                    f"{deccheck.FT[c['type']]} delivered with cost {c['cost']}" + ("" if ok_payload else " and a payload that differs from the transmitted one") +
                                    " (a punctured/not-received position was not set to the erasure value)",
                                    {"stream": "dec", "ops": deccheck.history(lines, ln), "impl": a})
        if model is not None:
            ctx.compare("dec-reuse", lines, impl, model, oracle=lambda ln, a: None, sig=lambda ln: "dec-reuse")
            ctx.traces += len(lines)


PROP = C11()

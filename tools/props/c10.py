"""C10 — interleaver and randomizer are exact, mutually inverse bit-conditioning maps."""
from lib import core
from lib.prop import Prop

DC = bytes.fromhex("D6B5E23082FF8462BA4E9690D898DD5D0CC85243911DF86E682F35DA14EACD76198DD580D133871357182D2978C3")


def idx(i):
    return (45 * i + 92 * i * i) % 368


def bits_of(bs):
    return [(b >> (7 - k)) & 1 for b in bs for k in range(8)]


def pack(bits):
    return [sum(bits[i + j] << (7 - j) for j in range(8)) for i in range(0, len(bits), 8)]


def n8(x):
    return (x + 128) % 256 - 128


class C10(Prop):
    pid = "C10"
    lean_targets = ["M17.Props.C10", "M17.Props.C10R"]
    theorems = ["M17.C10.gen_params_eq_spec", "M17.C10.index_eq_spec", "M17.C10.gen_index_eq_model", "M17.C10.gen_dc_eq_spec",
                "M17.C10.gen_signs_eq_model", "M17.C10.index_perm", "M17.C10R.interleave_mem", "M17.C10R.conditioning_roundtrip",
                "M17.C10.deinterleave_interleave_soft", "M17.C10.interleave_deinterleave_soft", "M17.C10.interleave_soft_position",
                "M17.C10.bytes_variant_agrees", "M17.C10.soft_deinterleave_undoes_bytes",
                "M17.C10.rand_soft_involutive", "M17.C10.rand_bits_involutive", "M17.C10.randBytes_bit",
                "M17.C10.rand_bytes_involutive_bit", "M17.C10.rand_variants_agree"]
    level_text = ("Lean 4 theorems for all frame contents: the modelled scatter/gather loops through index(i) are mutually inverse because "
                  "index is a bijection of 0..367 (complete table by kernel evaluation, inverse exhibited); the packed-byte loops "
                  "(get/assign_bit_index, MSB first) realise the same permutation; the three randomizer variants are involutions and "
                  "agree bit-for-bit with xor by the DC sequence. F1/F2/K, the 368 index values, the DC bytes and the dc_ sign table are "
                  "regenerated from the current headers; all seven C++ entry points are compared with the model on position-tagged and "
                  "random frames and with the specification formula.")
    design_ref = "DESIGN.md §5 C10"
    level_note = ("Trusted: Lean kernel; dump_tables.cpp; hand translation M17/Model/Cond.lean + Bytes.lean validated by the correspondence "
                  "stream; int8_t narrowing modelled as two's-complement wrap. Axioms: propext, Classical.choice, Quot.sound only.")
    technique = "Lean 4 proof (bijection table + generic scatter/gather induction; bitwise lemmas) + regenerated tables + differential correspondence"
    rule = ("position-tagged frames (value = position+1 mod 127, 368 one-hot frames for bytes), random int8 frames incl. -128, random 0/1 frames, "
            "random 46-byte frames through interleave/deinterleave x {int8, bytes} and randomizer x {soft, bits, bytes}; compared with the Lean model "
            "and with the specification permutation/xor computed independently; distinct = distinct (op, frame)")

    def run(self, ctx):
        exe = self.impl_driver(ctx)
        rng = ctx.rng
        quick = ctx.tier == "quick"
        lines = []
        expect = []     # independent expectation from the specification (python), or None

        def soft_frames():
            fs = [[(i % 127) + 1 for i in range(368)], [-((i % 127) + 1) for i in range(368)], [-128] * 368, [127] * 368]
            for _ in range(30 if quick else 600):
                fs.append([rng.randrange(-128, 128) for _ in range(368)])
            return fs
        for f in soft_frames():
            out = [0] * 368
            for i in range(368):
                out[idx(i)] = f[i]
            lines.append("ileave_soft " + " ".join(map(str, f))); expect.append(" ".join(map(str, out)))
            lines.append("deileave_soft " + " ".join(map(str, f))); expect.append(" ".join(str(f[idx(i)]) for i in range(368)))
            dcb = bits_of(DC)
            lines.append("rand_soft " + " ".join(map(str, f))); expect.append(" ".join(str(n8(-x) if d else x) for x, d in zip(f, dcb)))
        for _ in range(20 if quick else 300):
            f = [rng.randrange(2) for _ in range(368)]
            dcb = bits_of(DC)
            lines.append("rand_bits " + " ".join(map(str, f))); expect.append(" ".join(str(x ^ d) for x, d in zip(f, dcb)))
        byte_frames = []
        for k in range(368 if not quick else 64):
            pos = k if not quick else rng.randrange(368)
            bits = [0] * 368
            bits[pos] = 1
            byte_frames.append(pack(bits))
        for _ in range(40 if quick else 600):
            byte_frames.append([rng.randrange(256) for _ in range(46)])
        byte_frames += [[0] * 46, [255] * 46]
        for f in byte_frames:
            b = bits_of(f)
            out = [0] * 368
            for i in range(368):
                out[idx(i)] = b[i]
            lines.append("ileave_bytes " + " ".join(map(str, f))); expect.append(" ".join(map(str, pack(out))))
            lines.append("deileave_bytes " + " ".join(map(str, f))); expect.append(" ".join(map(str, pack([b[idx(i)] for i in range(368)]))))
            lines.append("rand_bytes " + " ".join(map(str, f))); expect.append(" ".join(str(x ^ d) for x, d in zip(f, DC)))
        impl = ctx.run_impl(exe, lines, "cond")
        for ln, a, e in zip(lines, impl, expect):
            op = ln.split(" ", 1)[0]
            ctx.stat("op:" + op)
            ctx.count(ln, nontrivial=True)
            if a != e:
                # first differing position
                aa, ee = a.split(), e.split()
                k = next((i for i, (x, y) in enumerate(zip(aa, ee)) if x != y), -1)
                ctx.violate(f"cond:{op}:{k}", f"{op}: output differs from the specification mapping at position {k} (impl {aa[k] if 0 <= k < len(aa) else '?'} / spec {ee[k] if 0 <= k < len(ee) else '?'})",
                            {"stream": "cond", "ops": [ln], "impl": a, "spec": e})
        if ctx.model_ok:
            model = ctx.run_model(lines)
            ctx.compare("cond", lines, impl, model, oracle=lambda ln, a: None, sig=lambda ln: ln.split(" ", 1)[0])
            ctx.traces += len(lines)
        ctx.sample({"op": lines[0][:80] + "...", "impl": impl[0][:80] + "..."})
        # concurrent use of SEPARATE objects (a transmit and a receive chain in one process): no shared scratch state may exist
        mt = [f"cond_mt {nt} {400 if quick else 20000} {rng.randrange(1, 10**6)}" for nt in (2, 4, 4)]
        for ln, o in zip(mt, ctx.run_impl(exe, mt, "cond-mt", timeout=900)):
            ctx.count(ln, nontrivial=True)
            ctx.stat("cond-mt:runs")
            if o.isdigit() and int(o) > 0:
                ctx.violate("cond-mt", f"{ln.split()[1]} threads, each with its own interleaver and randomizer objects and its own frames: {o} frames came back wrong "
                            "(interleave is not the specified permutation / round trips fail) - state is shared between objects",
                            {"stream": "cond-mt", "ops": [ln], "impl": o})
        # round trips on the implementation itself (interleave then deinterleave, randomize twice)
        rt = []
        for f in soft_frames()[:20]:
            rt.append(("ileave_soft", "deileave_soft", f))
            rt.append(("deileave_soft", "ileave_soft", f))
            rt.append(("rand_soft", "rand_soft", f))
        first = [f"{a} " + " ".join(map(str, f)) for a, b, f in rt]
        o1 = ctx.run_impl(exe, first, "cond-rt")
        second = [f"{b} {o}" for (a, b, f), o in zip(rt, o1)]
        o2 = ctx.run_impl(exe, second, "cond-rt")
        for (a, b, f), o in zip(rt, o2):
            ctx.evaluations += 1
            if o != " ".join(map(str, f)):
                ctx.violate(f"cond-rt:{a}:{b}", f"{a} followed by {b} is not the identity", {"stream": "cond-rt", "ops": [f"{a} " + " ".join(map(str, f))]})


PROP = C10()

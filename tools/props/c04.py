"""C04 — Golay(24,12): corrects every <=3-bit error, rejects every 4-bit error."""
from lib import core
from lib.prop import Prop
import itertools


def popcnt(x):
    return bin(x).count("1")


class C04(Prop):
    pid = "C04"
    lean_targets = ["M17.Props.C04"]
    theorems = [
        "M17.C04.gen_poly_eq_spec", "M17.C04.lut_ok", "M17.C04.encode24_eq_spec",
        "M17.C04.encode_systematic", "M17.C04.encode_linear", "M17.C04.min_distance_8",
        "M17.C04.decode_corrects", "M17.C04.decode_rejects4", "M17.C04.decode_sound",
        "M17.C04.decodeFast_eq",
    ]
    level_text = ("Machine-checked Lean 4 theorems for all 2^24 received words (decode_corrects, decode_rejects4, decode_sound, "
                  "encode_linear, min_distance_8) about a model whose polynomial and 2048-entry LUT are regenerated from the current "
                  "header; complete-table lemmas by kernel evaluation lifted by GF(2)-linearity; model tied to the C++ by differential "
                  "runs and the C++ itself swept exhaustively (4096 data x all weight<=4 patterns) against the specification table.")
    design_ref = "DESIGN.md §5 C04"
    level_note = ("Trusted: Lean kernel; dump_tables.cpp; the hand translation of Golay24.h (M17/Model/Golay.lean), validated by the "
                  "correspondence stream; std::lower_bound semantics. Axioms: propext, Classical.choice, Quot.sound only.")
    technique = "Lean 4 proof (linearity + complete-table kernel evaluation) + regenerated tables + differential correspondence"
    rule = ("correspondence: C++ Golay24::decode/encode24 vs compiled Lean model on random 24-bit words and on "
            "codeword xor error-pattern of weight 0..5 (canonical form: success flag and data bits out>>12); "
            "oracle: in-process exhaustive sweep data x weight<=4 patterns against the specification generator table; "
            "a case is non-trivial when the received word is not a codeword; distinct = distinct received words")
    assumptions = ["std::lower_bound on the sorted LUT returns the first entry with key >= value (model: List.find?)"]

    def run(self, ctx):
        exe = self.impl_driver(ctx)
        rng = ctx.rng
        quick = ctx.tier == "quick"
        # ---- (1) encoder: exhaustive, impl vs model vs independent spec table -----------------
        lines = [f"golay_enc {d}" for d in range(4096)]
        impl = ctx.run_impl(exe, lines, "golay-enc")
        spec_lines = [f"spec_golay_enc {d}" for d in range(4096)]
        spec_impl = ctx.run_impl(exe, spec_lines, "golay-spec")
        if ctx.model_ok:
            model = ctx.run_model(lines)
            spec_model = ctx.run_model(spec_lines)
            ctx.compare("golay-enc", lines, impl, model,
                        oracle=lambda ln, a: None)
            # harness spec table == Lean spec table (self-check of the oracle)
            for ln, a, b in zip(spec_lines, spec_impl, spec_model):
                if a != b:
                    raise core.BuildError("harness spec.h and Lean Spec disagree on " + ln, f"{a} vs {b}")
        for d, (a, s) in enumerate(zip(impl, spec_impl)):
            ctx.count(("enc", d), nontrivial=d != 0)
            if a != s:
                ctx.violate(f"golay-enc:{d}", f"encode24({d}) = {a}, specification codeword is {s}",
                            {"stream": "golay-enc", "ops": [f"golay_enc {d}", f"spec_golay_enc {d}"], "impl": a, "spec": s})
        ctx.sample({"op": "golay_enc 5", "impl": impl[5], "spec": spec_impl[5]})

        # ---- (2) property oracle on the implementation: exhaustive data x weight<=4 -------------
        # 4096 x 12951 = 53 M decodes in-process; split for parallelism
        step = 256
        sweep = [f"golay_sweep {lo} {lo+step}" for lo in range(0, 4096, step)]
        out = ctx.run_impl(exe, sweep, "golay-sweep")
        total = fails = 0
        for ln, r in zip(sweep, out):
            f = r.split()
            if len(f) != 5:
                continue
            total += int(f[0])
            if int(f[1]):
                fails += int(f[1])
                d, e, k = int(f[2]), int(f[3]), int(f[4])
                kind = {1: "rejected a <=3-bit error", 2: "returned wrong data for a <=3-bit error", 3: "accepted a 4-bit error"}[k]
                cls = f"w{popcnt(e)}{'p' if e & 1 else ''}"
                ctx.violate(f"golay-sweep:kind{k}:{cls}",
                            f"Golay24::decode {kind}: data {d:#05x}, error pattern {e:#08x} ({int(f[1])} such cases in data range {ln.split()[1]}..)",
                            {"stream": "golay-sweep", "ops": [f"spec_golay_enc {d}", f"golay_dec {int(spec_golay(d)) ^ e}"],
                             "data": d, "error": e, "kind": kind})
        ctx.evaluations += total
        ctx.stat("sweep:cases", total)
        ctx.stat("sweep:failures", fails)
        ctx.sample({"op": sweep[0], "reply(cases fails d e kind)": out[0]})
        # soundness over received words: quick = 2^20 random-offset window + structured, thorough = all 2^24
        if quick:
            lo = rng.randrange(0, (1 << 24) - (1 << 20))
            snd = [f"golay_sound {lo} {lo + (1 << 20)}"]
        else:
            snd = [f"golay_sound {lo} {lo + (1 << 20)}" for lo in range(0, 1 << 24, 1 << 20)]
            ctx.exhaustive = True
        out = ctx.run_impl(exe, snd, "golay-sound")
        for ln, r in zip(snd, out):
            f = r.split()
            if len(f) == 3:
                ctx.evaluations += int(f[0])
                ctx.stat("sound:cases", int(f[0]))
                if int(f[1]):
                    w = int(f[2])
                    ctx.violate(f"golay-sound:{w}", f"Golay24::decode({w:#08x}) reports success but no codeword with that data is within distance 3",
                                {"stream": "golay-sound", "ops": [f"golay_dec {w}"]})

        # ---- (3) correspondence impl vs model ------------------------------------------------
        if not ctx.model_ok:
            return
        n = 60000 if quick else 400000
        words = []
        for i in range(n):
            r = rng.random()
            if r < 0.3:
                w = rng.getrandbits(24)
                kind = "rand"
            else:
                d = rng.getrandbits(12)
                wt = rng.choice([0, 1, 1, 2, 2, 3, 3, 3, 4, 4, 4, 5, 6, 7])
                pos = rng.sample(range(24), wt)
                if rng.random() < 0.3 and wt:
                    pos[0] = 0    # make sure the overall-parity bit is hit often
                e = 0
                for p in set(pos):
                    e |= 1 << p
                w = spec_golay(d) ^ e
                kind = f"w{popcnt(e)}" + ("p" if e & 1 else "")
            words.append(w)
            ctx.stat("dec:" + kind)
            ctx.count(("dec", w), nontrivial=True)
        lines = [f"golay_dec {w}" for w in words]
        impl = ctx.run_impl(exe, lines, "golay-dec")
        model = ctx.run_model(lines)
        canon = lambda ln, r: r if r in ("-1", "<crash>") else str(int(r) >> 12)

        def oracle(ln, a):
            w = int(ln.split()[1])
            # nearest-codeword oracle from the specification table (brute force over 4096 codewords)
            best = min(range(4096), key=lambda d: popcnt(spec_golay(d) ^ w))
            dist = popcnt(spec_golay(best) ^ w)
            if dist <= 3:
                if a == "-1":
                    return f"word is at distance {dist} from codeword of data {best} but was rejected"
                if (int(a) >> 12) != best:
                    return f"decoded data {int(a) >> 12}, unique codeword within distance 3 has data {best}"
            else:
                if a != "-1":
                    return f"word is at distance {dist} >= 4 from every codeword but was accepted"
            return None
        ctx.compare("golay-dec", lines, impl, model, canon=canon, oracle=oracle,
                    sig=lambda ln: "w" + ln.split()[1])
        ctx.traces += len(lines)
        for i in range(3):
            ctx.sample({"op": lines[i], "impl": impl[i], "model": model[i]})
        # the reference (find?-based) model on a small sample, tying decodeFast to decode operationally too
        ref = [f"golay_dec_ref {w}" for w in words[:300]]
        if ctx.run_model(ref) != model[:300]:
            ctx.violate("golay-dec:fast-vs-ref", "model decodeFast and decode differ", {"ops": ref[:5]}, concrete=False)
        # ---- (4) thorough: all 2^24 words, digests per chunk ----------------------------------
        if not quick:
            chunks = [f"golay_digest {lo} {lo + (1 << 16)}" for lo in range(0, 1 << 24, 1 << 16)]
            di = ctx.run_impl(exe, chunks, "golay-digest")
            dm = ctx.run_model(chunks)
            for ln, a, b in zip(chunks, di, dm):
                ctx.evaluations += 1 << 16
                if a != b:
                    lo = int(ln.split()[1])
                    ws = [f"golay_dec {w}" for w in range(lo, lo + (1 << 16))]
                    ctx.compare("golay-dec", ws, ctx.run_impl(exe, ws, "golay-dec"), ctx.run_model(ws),
                                canon=canon, oracle=oracle, sig=lambda l: "w" + l.split()[1])
            ctx.stat("digest:chunks", len(chunks))


_ROWS = [0x8eb, 0x93e, 0xa97, 0xdc6, 0x367, 0x6cd, 0xd99, 0x3da, 0x7b4, 0xf68, 0x63b, 0xc75]


def spec_golay(d):
    c = 0
    for i in range(12):
        if d >> i & 1:
            c ^= _ROWS[i]
    return (d << 12) | c


PROP = C04()

"""C15 — queue is a race-free bounded FIFO under every thread interleaving."""
import os, subprocess
from lib import core
from lib.prop import Prop

TSAN_FLAGS = ["-std=c++20", "-O1", "-g", "-fsanitize=thread", "-DNDEBUG", f"-D{core.GUARD}", "-fno-access-control"]


def parse_mt(out):
    parts = out.split(" |")
    if len(parts) < 4:
        return None
    ev = [int(x) for x in parts[0].split()]
    acc = [int(x) for x in parts[1].split()]
    got = [[int(x) for x in g.split()] for g in parts[2].split(";") if g.strip() != "" or True]
    got = [g for g in got]
    flags = [int(x) for x in parts[3].split()]
    return ev, acc, got[:-1] if got and got[-1] == [] else got, flags


class C15(Prop):
    pid = "C15"
    lean_targets = ["M17.Props.C15", "M17.Props.C16W"]
    theorems = ["M17.C15.step_inv", "M17.C15.reachable_inv", "M17.C15.fifo_all_schedules", "M17.C15.not_open_rejects_puts",
                "M17.C15.close_keeps_items", "M17.C15.put_accept_refines", "M17.C15.put_reject_refines", "M17.C15.get_refines",
                "M17.C15.get_closed_refines", "M17.C15.race_free", "M17.C15.access_table_nonempty",
                "M17.C16W.gen_profile_ok", "M17.C16W.no_lost_wakeup"]
    level_text = ("Lean 4 theorems about a transition system whose steps are the lock-held segments of queue.h (any number of threads, any "
                  "programs of put/get/close/queries, wake-ups always enabled): for EVERY schedule size = |items| <= capacity and "
                  "putLog = getLog ++ items (each accepted item delivered at most once, in put-completion order, none lost — not by close either); "
                  "a queue that is not open accepts nothing; each completing segment is a step of the sequential bounded-FIFO specification. "
                  "Data-race freedom: the table of every access to queue_/size_/state_ with 'mutex_ held' is re-extracted from the current source "
                  "text on every run and race_free (kernel decide) shows conflicting accesses are all locked. Tie to the C++: critical-section "
                  "events recorded by the M17CXX_VERIF hook under the queue's own mutex in real multi-threaded runs are replayed through the "
                  "specification, sequential op words are compared with the model, and a ThreadSanitizer build runs the same stress.")
    design_ref = "DESIGN.md §5 C15"
    level_note = ("Trusted: Lean kernel; tools/gen_queue.py (regex translation of queue.h into the access table); std::mutex / condition_variable "
                  "semantics (wake-ups may be spurious; lock gives mutual exclusion); 'all conflicting accesses under one mutex => race-free' of "
                  "the C++ memory model; the hand-written segment model validated by event-trace replay. Axioms: propext, Classical.choice, Quot.sound only.")
    technique = "Lean 4 proof (invariant by induction over all schedules of a segment-level transition system; refinement to a sequential spec) + source-extracted lock table + trace replay + ThreadSanitizer"
    rule = ("real-thread scenarios: capacities 1,2,3,8 x producers 1-3 x consumers 1-3 x closer none/after/concurrent x jitter 0/20/200us, seeds from "
            "VERIF_SEED; each run's hook event sequence (critical-section order) replayed through the Lean specification queue; oracles: multiset "
            "received = accepted, per-producer order, max observed size <= capacity, nothing lost at close; sequential op words (zero/1ms "
            "time-outs) vs model; TSan stress; distinct = distinct event sequences; non-trivial = at least one wait event in the trace")

    def setup_drivers(self):
        return [core.build_cpp("drv_queue", ["drv_queue.cpp"]),
                core.build_cpp("drv_queue_tsan", ["drv_queue.cpp"], flags=TSAN_FLAGS)]

    def impl_driver(self, ctx):
        return core.build_cpp("drv_queue", ["drv_queue.cpp"])

    def run(self, ctx):
        exe = self.impl_driver(ctx)
        rng = ctx.rng
        quick = ctx.tier == "quick"
        # ---- sequential words ---------------------------------------------------------------
        words = []
        for _ in range(400 if quick else 8000):
            cap = rng.choice([1, 2, 3])
            toks = [cap]
            for _ in range(rng.randrange(1, 25)):
                t = rng.choice([1, 1, 1, 2, 3, 3, 3, 4, 5, 6, 7, 8, 9]) if rng.random() < 0.93 else 5
                toks.append(t)
                if t in (1, 2):
                    toks.append(rng.randrange(1000))
            words.append("qseq " + " ".join(map(str, toks)))
        impl = ctx.run_impl(exe, words, "queue-seq", timeout=600)
        if ctx.model_ok:
            model = ctx.run_model(words)
            def seq_oracle(ln, a):
                # property-level reading of a sequential word: is_closed must be true once a closed queue is drained
                return "sequential behaviour differs from the bounded-FIFO specification (e.g. never CLOSED after drain, FIFO order, capacity)"
            ctx.compare("queue-seq", words, impl, model, oracle=seq_oracle, sig=lambda ln: "word")
        for w in words:
            ctx.count(w, nontrivial=True)
        ctx.sample({"op": words[0], "impl": impl[0]})
        # ---- several waiters on one condition variable: no accepted item is stranded while a consumer waits, no free slot while a
        #      producer waits, and a queue that is CLOSED never holds an item --------------------------------------------------------
        wl = [f"qwake {c} {3 if quick else 15}" for c in (1, 2, 3)]
        wout = ctx.run_impl(exe, wl, "queue-wake", timeout=240)
        names = {1: "W2 two consumers blocked, two puts back to back", 3: "W4 two producers blocked on a full queue, two gets back to back",
                 4: "W5 producer blocked on a full queue, get then close at once"}
        for ln, o in zip(wl, wout):
            f = o.split()
            if len(f) != 18:
                continue
            v = [int(x) for x in f]
            for i, nm in names.items():
                n, worst, anom = v[3 * i:3 * i + 3]
                if n == 0:
                    continue
                ctx.count((ln, nm), nontrivial=True)
                ctx.stat("wake:" + nm.split()[0], n)
                if anom > 0 or (i in (1, 3) and worst > 400):
                    what = ("an accepted item sat in the queue while a consumer stayed blocked" if i == 1 else
                            "a free slot existed while a producer stayed blocked" if i == 3 else
                            "after close the queue reported CLOSED while holding an item, or an accepted item was not delivered")
                    ctx.violate(f"queue-wake:{nm.split()[0]}", f"queue<int,{ln.split()[1]}> {nm}: {what} ({anom} anomalous outcomes in {n} trials, slowest waiter {worst} ms)",
                                {"stream": "queue-wake", "ops": [ln], "impl": o, "scenario": nm})
        # ---- real threads + trace replay ---------------------------------------------------------
        scen = []
        for cap in (1, 2, 3, 8):
            for np_ in (1, 2, 3):
                for nc in (1, 2, 3):
                    for closer in (0, 1, 2):
                        for jitter in ((0, 50) if quick else (0, 20, 200)):
                            if quick and (np_ + nc + cap + closer + ctx.seed) % 3:
                                continue
                            scen.append(f"qmt {cap} {np_} {nc} {rng.choice([5, 20, 60])} {closer} {rng.randrange(1, 10**6)} {jitter}")
        out = ctx.run_impl(exe, scen, "queue-mt", timeout=300 if quick else 1800)
        traces = []
        for ln, o in zip(scen, out):
            f = ln.split()
            cap, np_, nc, per, closer = int(f[1]), int(f[2]), int(f[3]), int(f[4]), int(f[5])
            p = parse_mt(o)
            if not p:
                continue
            ev, acc, got, flags = p
            ctx.count(tuple(ev), nontrivial=any(ev[i] in (3, 6) for i in range(0, len(ev), 4)))
            ctx.stat(f"mt:closer{closer}")
            allgot = sorted(x for g in got for x in g)
            want = sorted(pp * 100000 + k for pp in range(np_) for k in range(acc[pp]))
            bad = None
            if allgot != want:
                bad = f"received items differ from accepted items (accepted {sum(acc)}, received {len(allgot)}, lost {len(set(want) - set(allgot))}, duplicated {len(allgot) - len(set(allgot))})"
            for g in got:
                for pp in range(np_):
                    seq = [x for x in g if x // 100000 == pp]
                    if seq != sorted(seq):
                        bad = f"a consumer saw producer {pp}'s items out of order"
            if flags[0] > cap:
                bad = f"size() observed {flags[0]} > capacity {cap}"
            if closer and flags[3] == 0 and not flags[1]:
                bad = "queue closed and drained but is_closed() is false"
            if bad:
                ctx.violate(f"queue-mt:{bad.split('(')[0].strip()[:40]}", f"queue<int,{cap}> with {np_} producers / {nc} consumers / closer mode {closer}: {bad}",
                            {"stream": "queue-mt", "ops": [ln], "impl": o[-400:]})
            traces.append(f"qtrace {cap} " + " ".join(map(str, ev)))
        if ctx.model_ok and traces:
            rep = ctx.run_model(traces)
            for ln, r, sc in zip(traces, rep, scen):
                ctx.traces += 1
                if not r.startswith("ok"):
                    ctx.violate("queue-trace:" + r.split(":")[0][:40], f"critical-section event trace of a real run is not a behaviour of the specification queue: {r}",
                                {"stream": "queue-trace", "ops": [sc], "trace": ln[:600], "model": r})
        ctx.sample({"scenario": scen[0], "events(tag val size state)*": out[0][:160]})
        # ---- ThreadSanitizer stress ------------------------------------------------------------
        tsan = core.build_cpp("drv_queue_tsan", ["drv_queue.cpp"], flags=TSAN_FLAGS)
        st = [f"qmt {cap} 2 2 40 {closer} {rng.randrange(10**6)} 0" for cap in (1, 3) for closer in (1, 2)] * (1 if quick else 10)
        o, rc, err = ctx.run_lines(tsan, st, timeout=1800, env={"TSAN_OPTIONS": "halt_on_error=1 second_deadlock_stack=1"})
        ctx.stat("tsan:scenarios", len(st))
        ctx.evaluations += len(st)
        if rc != 0 or "WARNING: ThreadSanitizer" in err:
            loc = core.first_frame(err)
            what = "data race" if "data race" in err else "ThreadSanitizer report"
            ctx.violate(f"queue-tsan:{loc}", f"ThreadSanitizer: {what} in queue operations called concurrently ({core.first_err_line(err)}) at {loc}",
                        {"stream": "queue-tsan", "ops": st[:2], "stderr": err[-2500:], "build": "g++ -fsanitize=thread harness/drv_queue.cpp"})


PROP = C15()

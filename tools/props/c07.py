"""C07 — receive path is memory-safe and UB-free on arbitrary samples and frames."""
from lib import core, decgen, demodlib
from lib.prop import Prop


def x25(bs):
    """CRC-16/X-25 (the frame check sequence m17-demod verifies packets with)"""
    r = 0xFFFF
    for b in bs:
        r ^= b
        for _ in range(8):
            r = (r >> 1) ^ 0x8408 if r & 1 else r >> 1
    return r ^ 0xFFFF


class C07(Prop):
    pid = "C07"
    lean_targets = ["M17.Props.C07"]
    theorems = ["M17.C07.lich_slot_in_range", "M17.C07.viterbi_metric_no_overflow", "M17.C07.callsign_index_le_9",
                "M17.C07.depuncture_fills_buffer", "M17.C07.framer_index_in_range", "M17.C07.packet_size_le_25",
                "M17.C07.clock_index_in_range"]
    level_text = ("Lean 4 range theorems over the models of C01-C05, C11, C17 (for ALL inputs): the LICH slot written is 0..5 and stays inside "
                  "the 30-byte LSF; Viterbi path metrics stay below 2^31 for trellises up to 244 steps (history size); decode_callsign "
                  "writes at most 9 characters into its 10-byte array; depuncture fills exactly its output buffer; the framer's fill index stays "
                  "even and below 368 and returns to 0; packet size is clamped to 25; a symbol-timing estimate in [0,10) rounds to an index 0..9. "
                  "What these theorems cannot exhibit — float-to-int conversions, the Kalman arithmetic, and the application handlers' indexing "
                  "— is checked by running the real receive path (demodulator over the Blaze stand-in + apps/m17-demod.cpp handlers in-process) "
                  "under ASan+UBSan+_GLIBCXX_ASSERTIONS on hostile sample streams, all 368-LLR frames in [-128,127] (shared with C08's garbage "
                  "frames), random LSFs / addresses / packet segment sequences, with index ranges monitored after every sample.")
    design_ref = "DESIGN.md §5 C07"
    level_note = ("Trusted: Lean kernel; sanitizers (ASan, UBSan, libstdc++ assertions) as detectors of memory/UB errors on the explored inputs; "
                  "Blaze stand-in. Partial: absence of UB in float code is explored, not proved. Axioms: propext, Classical.choice, Quot.sound only.")
    technique = "Lean 4 proof (index/arith range lemmas over the FEC, decoder, callsign models) + sanitizer-instrumented exploration of the real receive path with hostile generators"
    rule = ("sample streams |x|<=1: uniform/gaussian noise at several levels, constants, tones, square waves, impulse trains, +-1 rails, unshaped "
            "random symbols, clean and corrupted M17 transmissions; app handlers: random 30-byte LSFs (all TYPE classes), every address class, "
            "packet segment sequences incl. EOF-first with size 0 in RAW/ENCAPSULATED mode; non-trivial = stream that gets past carrier detect "
            "or handler input with EOF; distinct = distinct request lines")

    def setup_drivers(self):
        return list(demodlib.drivers())

    def impl_driver(self, ctx):
        return demodlib.drivers()[0]

    def run(self, ctx):
        demod, mod = demodlib.drivers()
        rng = ctx.rng
        quick = ctx.tier == "quick"
        lines = []
        # app handlers with arbitrary content
        for _ in range(300 if quick else 5000):
            lsf = [rng.randrange(256) for _ in range(30)]
            if rng.random() < 0.5:
                lsf[13] = rng.choice([0x05, 0x02, 0x04, 0x00, 0x06, 0x03, 0x07])
                lsf[12] = rng.randrange(8)
            if rng.random() < 0.3:
                lsf[0:6] = [0xFF] * 6
            if rng.random() < 0.3:
                lsf[6:12] = [rng.choice([0xEE, 0xFF, 0xF0]), rng.randrange(256)] + [rng.randrange(256) for _ in range(4)]
            lines.append(f"app_lsf {rng.randrange(2)} " + " ".join(map(str, lsf)))
        for _ in range(300 if quick else 5000):
            mode = rng.randrange(3)
            segs = []
            for k in range(rng.randrange(1, 5)):
                seg = [rng.randrange(256) for _ in range(25)]
                last = rng.random() < 0.5
                ctr = rng.choice([0, k, rng.randrange(32)])
                seg.append((0x80 if last else 0) | (ctr << 2))
                segs += seg
                if last and rng.random() < 0.7:
                    break
            lines.append(f"app_packets {mode} " + " ".join(map(str, segs)))
        # packets with a valid X.25 frame check sequence so that the AX.25 parser runs on hostile content
        nvalid = 0
        for _ in range(300 if quick else 5000):
            mode = rng.randrange(3)
            n = rng.choice([0, 1, 5, 13, 14, 15, 16, 17, 18, 21, 22, 23, 28, 29, 30, rng.randrange(0, 120), rng.randrange(0, 700)])
            k = rng.random()
            if k < 0.3:
                body = [rng.randrange(256) for _ in range(n)]
            elif k < 0.6:      # address-like: even bytes (extension bit clear) so that the repeater list runs to the end
                body = [rng.randrange(128) * 2 for _ in range(n)]
            else:              # plausible AX.25 UI frame with random tail
                body = ([ord(c) << 1 for c in "APRS  "] + [0x60] + [ord(c) << 1 for c in "N0CALL"] + [rng.choice([0x61, 0x60])]
                        + [rng.randrange(256) for _ in range(n)])
            prefix = [0, 16, 0] if mode == 2 else []
            fcs = x25(prefix + body)
            data = body + [fcs & 0xFF, fcs >> 8]
            segs = []
            cnt = 0
            while len(data) > 25:
                segs += data[:25] + [cnt << 2]
                data = data[25:]
                cnt = (cnt + 1) % 32
            segs += data + [0] * (25 - len(data)) + [0x80 | (len(data) << 2)]
            lines.append(f"app_packets {mode} " + " ".join(map(str, segs)))
            nvalid += 1
        lines.append("app_packets 1 " + " ".join(map(str, [0] * 25 + [0x80])))        # RAW mode, EOF first, size 0
        lines.append("app_packets 0 " + " ".join(map(str, [0] * 25 + [0x80])))
        vals = [0, 1, 40 ** 9 - 1, 40 ** 9, 40 ** 9 + 1, 2 ** 48 - 2, 2 ** 48 - 1] + [rng.randrange(2 ** 48) for _ in range(200)]
        lines += ["app_call " + " ".join(map(str, v.to_bytes(6, "big"))) for v in vals]
        for kind in range(11):
            for _ in range(2 if quick else 12):
                level = rng.choice([10000, 5000, 1000, 100, 30000 if kind in (0, 6) else 9999])
                lines.append(f"hostile {kind} {rng.choice([20000, 60000]) if quick else 300000} {rng.randrange(1, 10**6)} {min(level, 10000)}")
        # run one process per group so that a crash pinpoints the request
        out = demodlib.run_resilient(ctx, demod, lines, "rxpath")
        for ln, o in zip(lines, out):
            op = ln.split()[0]
            ctx.count(ln, nontrivial=True)
            ctx.stat("op:" + op)
            if op == "hostile" and not o.startswith("<"):
                f = o.split()
                if len(f) >= 5:
                    if int(f[4]) > 0:
                        ctx.stat("hostile:streams-past-carrier-detect")
                    ctx.stat("hostile:diagnostic-lines", int(f[5]))
                    if int(f[0]) > 9 or int(f[1]) >= 368:
                        ctx.violate("rxpath:index-range", f"index out of its documented range: sample_index max {f[0]} (0-9), framer fill max {f[1]} (<368) on `{ln}`",
                                    {"stream": "rxpath", "ops": [ln], "impl": o})
            if op == "app_packets" and not o.startswith("<"):
                f = o.split()
                if len(f) >= 2 and f[-2] == "1" and int(ln.split()[-1]) & 0x80:
                    ctx.stat("packets:valid-fcs-parsed-as-ax25")
            if op == "app_call" and o.isdigit() and int(o) > 9:
                ctx.violate("rxpath:callsign-length", f"callsign printed by the application has {o} characters", {"stream": "rxpath", "ops": [ln]})
        # corrupted M17 signal through the whole receive path with the app handlers
        src, dst = "W1AW", "N0CALL"
        audio = [rng.randrange(-8000, 8000) for _ in range(320 * (8 if quick else 40))]
        samples, bs, nfr = demodlib.transmission(ctx, mod, src, dst, 5, audio)
        for trial in range(2 if quick else 10):
            s2 = list(samples)
            for _ in range(rng.randrange(1, 40)):
                i = rng.randrange(len(s2)); n = rng.randrange(1, 3000)
                kind = rng.random()
                for j in range(i, min(len(s2), i + n)):
                    s2[j] = 0 if kind < 0.3 else (32767 if kind < 0.5 else (rng.randrange(-32768, 32768) if kind < 0.8 else -s2[j]))
            p = {"gain": 1000, "dc": 0, "sigma": rng.choice([0, 100, 1000]), "delay": rng.randrange(1000), "ppm": rng.randrange(-200, 200),
                 "lead": rng.randrange(6), "leadn": rng.randrange(0, 20000), "level": rng.choice([0, 100, 3000]), "seed": rng.randrange(10**6), "app": 1}
            ln, rep, rc, err = demodlib.run_rx(ctx, demod, p, s2)
            ctx.count(ln[:200], nontrivial=True)
            ctx.stat("rx:corrupted-transmission")
            if rc != 0:
                kind = "sanitizer" if ("ERROR: AddressSanitizer" in err or "runtime error" in err or "Assertion" in err) else "crash"
                ctx.violate(f"rxpath:{kind}:{core.first_frame(err)}", f"receive path aborted ({kind}) on a corrupted M17 transmission: {core.first_err_line(err)}",
                            {"stream": "rxpath", "ops": [ln[:400] + " ..."], "params": p, "stderr": err[-2500:]})
        ctx.sample({"op": lines[0][:80], "reply": out[0][:80]})
        ctx.sample({"op": lines[-1], "reply": out[-1]})


PROP = C07()

"""C07 — receive path is memory-safe and UB-free on arbitrary samples and frames."""
from lib import core, decgen, demodlib, m17spec as S
from lib.prop import Prop


def x25(bs):
    """CRC-16/X-25 (the frame check sequence m17-demod verifies packets with)"""
    r = 0xFFFF
    for b in bs:
        r ^= b
        for _ in range(8):
            r = (r >> 1) ^ 0x8408 if r & 1 else r >> 1
    return r ^ 0xFFFF


class C07(Prop):
    pid = "C07"
    lean_targets = ["M17.Props.C07", "M17.Props.C07A", "M17.Props.C07C", "M17.Props.C07P"]
    theorems = ["M17.C07.lich_slot_in_range", "M17.C07.viterbi_metric_no_overflow", "M17.C07.callsign_index_le_9",
                "M17.C07.depuncture_fills_buffer", "M17.C07.framer_index_in_range", "M17.C07.packet_size_le_25",
                "M17.C07.clock_index_in_range", "M17.C07A.repeaters_in_bounds", "M17.C07A.parse_in_bounds",
                "M17.C07C.free_index_in_range", "M17.C07C.locked_index_in_range", "M17.C07P.reassembly"]
    level_text = ("Lean 4 range theorems over the models of C01-C05, C11, C17 (for ALL inputs): the LICH slot written is 0..5 and stays inside "
                  "the 30-byte LSF; Viterbi path metrics stay below 2^31 for trellises up to 244 steps (history size); decode_callsign "
                  "writes at most 9 characters into its 10-byte array; depuncture fills exactly its output buffer; the framer's fill index stays "
                  "even and below 368 and returns to 0; packet size is clamped to 25; a symbol-timing estimate in [0,10) rounds to an index 0..9, and (C07C.free_index_in_range) the "
                  "free-running ClockRecovery::update() — fmod, one wrap, round, wrap — yields an index 0..9 for EVERY estimate, clock offset and "
                  "number of samples since the last sync word (exact model in units of 2^-20 sample, tied bit-exactly to the real class where the "
                  "float computation is exact, range oracle elsewhere); "
                  "parse_in_bounds: every substr / operator[] / iterator range formed by the model of ax25_frame::parse lies inside the frame, "
                  "for every frame length and content (model tied to the real class field by field on hostile frames); C07P.reassembly: the model of m17-demod's "
                  "decode_packet (tied to the real handler on every app_packets request: flags and buffer size) reassembles a packet cut into segments as the "
                  "M17 sender cuts it exactly — every content, up to 33 segments, after whatever dump_lsf left in the buffer — and the last result is "
                  "the X.25 check of exactly those bytes. "
                  "What these theorems cannot exhibit — float-to-int conversions, the Kalman arithmetic, and the application handlers' indexing "
                  "— is checked by running the real receive path (demodulator over the Blaze stand-in + apps/m17-demod.cpp handlers in-process) "
                  "under ASan+UBSan+_GLIBCXX_ASSERTIONS on hostile sample streams, all 368-LLR frames in [-128,127] (shared with C08's garbage "
                  "frames), random LSFs / addresses / packet segment sequences, with index ranges monitored after every sample.")
    design_ref = "DESIGN.md §5 C07"
    level_note = ("Trusted: Lean kernel; sanitizers (ASan, UBSan, libstdc++ assertions) as detectors of memory/UB errors on the explored inputs; "
                  "Blaze stand-in. Partial: absence of UB in float code is explored, not proved. Axioms: propext, Classical.choice, Quot.sound only.")
    technique = "Lean 4 proof (index/arith range lemmas over the FEC, decoder, callsign models) + sanitizer-instrumented exploration of the real receive path with hostile generators"
    rule = ("sample streams |x|<=1: uniform/gaussian noise at several levels, constants, tones, square waves, impulse trains, +-1 rails, unshaped "
            "random symbols, clean and corrupted M17 stream transmissions, packet superframes (RAW/ENCAPSULATED, 1-33 frames, AX.25 with valid FCS) and BERT transmissions "
            "shaped by m17-mod's own filter, clean and damaged; app handlers: random 30-byte LSFs (all TYPE classes), every address class, "
            "packet segment sequences incl. EOF-first with size 0 in RAW/ENCAPSULATED mode; non-trivial = stream that gets past carrier detect "
            "or handler input with EOF; distinct = distinct request lines")

    def setup_drivers(self):
        return list(demodlib.drivers()) + [self.fec_driver()]

    def fec_driver(self):
        return core.build_cpp("drv_fec", ["drv_fec.cpp"], deps=["drv_fec_ops.inc", "spec.h"])

    def lich_slot_stage(self, ctx):
        """LICH fragment slot stays 0..5: Golay-valid fragments whose counter is 6 or 7, at every point of a partial collection
        (after k = 0..5 valid fragments, singly and in runs), must leave the collected state (mask, 30-byte LSF buffer) untouched, and the
        mask never gets a bit above 5.  An intra-object overflow past the LSF array is invisible to ASan, so the state is the observable."""
        rng = ctx.rng
        quick = ctx.tier == "quick"
        exe = self.fec_driver()
        lines, metas = [], []
        for h in range(40 if quick else 600):
            g = decgen.Gen(rng)
            lsf = g.rand_lsf(0x0005)
            lines.append("dec_new"); metas.append(None)
            order = list(range(6)); rng.shuffle(order)
            k = h % 6 if h < 12 else rng.randrange(6)
            plan = [order[i] for i in range(k)]
            if h < 12 and k == 5:
                plan = [0, 1, 2, 3, 4] if h < 6 else [1, 2, 3, 4, 5]
            plan += [rng.choice([6, 7]) for _ in range(1 if h % 2 == 0 else rng.randrange(1, 9))]
            plan += [rng.randrange(8) for _ in range(rng.randrange(0, 6))]
            for t, n in enumerate(plan):
                bits = S.stream_frame_bits(lsf, n, t, bytes(rng.randrange(256) for _ in range(16)), None)
                v = S.soft(bits, g.mags())
                lines.append("dec_frame 1 1 " + " ".join(map(str, v)))
                metas.append({"n": n})
        impl = ctx.run_impl(exe, lines, "dec-slot")
        prev = None
        for ln, m, a in zip(lines, metas, impl):
            if m is None:
                prev = None
                continue
            ctx.count(ln, nontrivial=True)
            r = decgen.parse_reply(a)
            if not r:
                continue
            ctx.stat(f"lich-slot:counter{m['n']}")
            if r["mask"] & 0xC0:
                ctx.violate("dec-slot:mask", f"LICH fragment slot outside 0..5: collection mask became {r['mask']:#04x} after a fragment with counter {m['n']}",
                            {"stream": "dec-slot", "ops": self.hist(lines, ln), "impl": a})
            if m["n"] > 5 and prev is not None and prev["mode"] == 0 and (r["mask"] != prev["mask"] or r["lsfbuf"] != prev["lsfbuf"] or r["mode"] != 0):
                ctx.violate("dec-slot:state", f"a LICH fragment with reserved counter {m['n']} changed the collected link setup state "
                            f"(mask {prev['mask']:#04x} -> {r['mask']:#04x}, buffer {'changed' if r['lsfbuf'] != prev['lsfbuf'] else 'same'}): slot outside 0..5",
                            {"stream": "dec-slot", "ops": self.hist(lines, ln), "impl": a})
            prev = r
        if ctx.model_ok:
            model = ctx.run_model(lines)
            ctx.compare("dec-slot", lines, impl, model, oracle=lambda ln, a: None, sig=lambda ln: "step")

    def ax25_stage(self, ctx, demod):
        """mobilinkd::ax25_frame (the real class, in-process, under ASan/UBSan/_GLIBCXX_ASSERTIONS) against the Lean model Ax25.parse whose
        accesses are proved in range (C07A.parse_in_bounds): arbitrary byte strings with lengths around every guard (17, 14+7r+3..+6),
        address chains of 0..8 repeaters ended / not ended by the extension bit, all four control-field classes"""
        rng = ctx.rng
        quick = ctx.tier == "quick"
        lines = []
        for n in list(range(0, 40)) + [44, 45, 46, 51, 52, 53, 58, 59, 60, 70, 71, 72, 77, 78, 79, 200, 330]:
            for ctl in (0x03, 0x00, 0x01, 0x02, 0x13, 0xFF):
                for chain in (0, 1, 2):
                    if chain == 0:
                        f = [rng.randrange(256) for _ in range(n)]
                    elif chain == 1:   # every address byte even: the repeater chain runs to the end of the frame
                        f = [rng.randrange(128) * 2 for _ in range(n)]
                    else:              # r repeaters then control byte
                        r = rng.randrange(0, 9)
                        f = [rng.randrange(128) * 2 for _ in range(7 * (2 + r))]
                        if f:
                            f[-1] |= 1
                        f += [ctl] + [rng.randrange(256) for _ in range(rng.randrange(0, 8))]
                        f = f[:n] if n and rng.random() < 0.3 else f
                    if f and rng.random() < 0.5:
                        k = rng.randrange(len(f)); f[k] = rng.choice([64, 65, 0x40 | 0x1E, 32])    # spaces / SSIDs after the shift
                    lines.append("ax25 " + " ".join(map(str, f)))
        for _ in range(200 if quick else 5000):
            n = rng.choice([17, 18, 19, 20, 21, 24, 25, 26, 31, 32, 33, rng.randrange(0, 90)])
            lines.append("ax25 " + " ".join(str(rng.randrange(256)) for _ in range(n)))
        out = demodlib.run_resilient(ctx, demod, lines, "ax25")
        for ln in lines:
            ctx.count(ln[:200], nontrivial=len(ln.split()) > 17)
            ctx.stat("op:ax25")
        if ctx.model_ok:
            model = ctx.run_model(lines)
            ctx.compare("ax25", lines, out, model, oracle=lambda ln, a: None, sig=lambda ln: "len%d" % (len(ln.split()) - 1))

    def clock_stage(self, ctx, demod):
        """ClockRecovery's free-running update() (the real class) with its members set to arbitrary values: the sample index must stay 0..9 for
        every estimate, clock offset and number of samples since the last sync word (theorem C07C.free_index_in_range about the exact
        model); where the float computation is exact (dyadic values, small products) the real class must equal the model"""
        rng = ctx.rng
        quick = ctx.tier == "quick"
        exact, wild = [], []
        for _ in range(400 if quick else 20000):
            est = rng.randrange(0, 2560) * 4096               # multiples of 2^-8 in [0, 10)
            clk = rng.randrange(-1024, 1025)                  # up to +-977 ppm in units of 2^-20
            cnt = rng.choice([0, 1, 192, 1920, rng.randrange(0, 4096)])
            exact += [est, clk, cnt]
        for _ in range(400 if quick else 20000):
            est = rng.randrange(-2 * 1048576, 12 * 1048576)
            clk = rng.choice([1, -1]) * rng.choice([1, 21, 105, 210, 315, 1049, rng.randrange(1, 5000)])    # 1..5000 ppm-ish
            cnt = rng.choice([0, 1920, 19200, 192000, 1000000, 10000000, rng.randrange(0, 2 * 10 ** 7)])
            wild += [est, clk, cnt]
        l1 = "clock_free " + " ".join(map(str, exact)); l2 = "clock_free " + " ".join(map(str, wild))
        o = demodlib.run_resilient(ctx, demod, [l1, l2], "clock")
        for ln, a, tag in ((l1, o[0], "exact"), (l2, o[1], "long-coast")):
            ctx.count(ln[:200], nontrivial=True)
            vals = a.split()
            ctx.stat(f"clock:{tag}", len(vals))
            t = ln.split()[1:]
            for k, v in enumerate(vals):
                ctx.evaluations += 1
                if not v.lstrip("-").isdigit() or not (0 <= int(v) <= 9):
                    e, c, n = t[3 * k:3 * k + 3]
                    ctx.violate("clock:index-range", f"ClockRecovery::update() with sample estimate {int(e)/1048576:.4f}, clock estimate {int(c)/1.048576:.1f} ppm, "
                                f"{n} samples since the last sync word: sample_index_ = {v} (documented range 0..9)",
                                {"stream": "clock", "ops": [f"clock_free {e} {c} {n}"], "impl": v})
                    break
        if ctx.model_ok:
            m = ctx.run_model([l1])
            ctx.compare("clock", [l1], [o[0]], m, oracle=lambda ln, a: None, sig=lambda ln: "clock_free")

    @staticmethod
    def hist(lines, ln):
        from lib import deccheck
        return deccheck.history(lines, ln)

    def impl_driver(self, ctx):
        return demodlib.drivers()[0]

    def run(self, ctx):
        demod, mod = demodlib.drivers()
        rng = ctx.rng
        quick = ctx.tier == "quick"
        self.lich_slot_stage(ctx)
        self.ax25_stage(ctx, demod)
        self.clock_stage(ctx, demod)
        lines = []
        # app handlers with arbitrary content
        for _ in range(300 if quick else 5000):
            lsf = [rng.randrange(256) for _ in range(30)]
            if rng.random() < 0.5:
                lsf[13] = rng.choice([0x05, 0x02, 0x04, 0x00, 0x06, 0x03, 0x07])
                lsf[12] = rng.randrange(8)
            if rng.random() < 0.3:
                lsf[0:6] = [0xFF] * 6
            if rng.random() < 0.3:
                lsf[6:12] = [rng.choice([0xEE, 0xFF, 0xF0]), rng.randrange(256)] + [rng.randrange(256) for _ in range(4)]
            lines.append(f"app_lsf {rng.randrange(2)} " + " ".join(map(str, lsf)))
        for _ in range(300 if quick else 5000):
            mode = rng.randrange(3)
            segs = []
            for k in range(rng.randrange(1, 5)):
                seg = [rng.randrange(256) for _ in range(25)]
                last = rng.random() < 0.5
                ctr = rng.choice([0, k, rng.randrange(32)])
                seg.append((0x80 if last else 0) | (ctr << 2))
                segs += seg
                if last and rng.random() < 0.7:
                    break
            lines.append(f"app_packets {mode} " + " ".join(map(str, segs)))
        # packets with a valid X.25 frame check sequence so that the AX.25 parser runs on hostile content
        nvalid = 0
        for _ in range(300 if quick else 5000):
            mode = rng.randrange(3)
            n = rng.choice([0, 1, 5, 13, 14, 15, 16, 17, 18, 21, 22, 23, 28, 29, 30, rng.randrange(0, 120), rng.randrange(0, 700)])
            k = rng.random()
            if k < 0.3:
                body = [rng.randrange(256) for _ in range(n)]
            elif k < 0.6:      # address-like: even bytes (extension bit clear) so that the repeater list runs to the end
                body = [rng.randrange(128) * 2 for _ in range(n)]
            else:              # plausible AX.25 UI frame with random tail
                body = ([ord(c) << 1 for c in "APRS  "] + [0x60] + [ord(c) << 1 for c in "N0CALL"] + [rng.choice([0x61, 0x60])]
                        + [rng.randrange(256) for _ in range(n)])
            prefix = [0, 16, 0] if mode == 2 else []
            fcs = x25(prefix + body)
            data = body + [fcs & 0xFF, fcs >> 8]
            segs = []
            cnt = 0
            while len(data) > 25:
                segs += data[:25] + [cnt << 2]
                data = data[25:]
                cnt = (cnt + 1) % 32
            segs += data + [0] * (25 - len(data)) + [0x80 | (len(data) << 2)]
            lines.append(f"app_packets {mode} " + " ".join(map(str, segs)))
            nvalid += 1
        # the longest packets the 5-bit segment counter allows (32 full segments + a last one), after each kind of link setup frame
        for mode in (0, 1, 2):
            for lastn in (0, 1, 22, 23, 24, 25, 31):
                segs = []
                for k in range(32):
                    segs += [rng.randrange(256) for _ in range(25)] + [k << 2]
                segs += [rng.randrange(256) for _ in range(25)] + [0x80 | (lastn << 2)]
                lines.append(f"app_packets {mode} " + " ".join(map(str, segs)))
        lines.append("app_packets 1 " + " ".join(map(str, [0] * 25 + [0x80])))        # RAW mode, EOF first, size 0
        lines.append("app_packets 0 " + " ".join(map(str, [0] * 25 + [0x80])))
        vals = [0, 1, 40 ** 9 - 1, 40 ** 9, 40 ** 9 + 1, 2 ** 48 - 2, 2 ** 48 - 1] + [rng.randrange(2 ** 48) for _ in range(200)]
        lines += ["app_call " + " ".join(map(str, v.to_bytes(6, "big"))) for v in vals]
        for kind in range(11):
            for _ in range(2 if quick else 12):
                level = rng.choice([10000, 5000, 1000, 100, 30000 if kind in (0, 6) else 9999])
                lines.append(f"hostile {kind} {rng.choice([20000, 60000]) if quick else 300000} {rng.randrange(1, 10**6)} {min(level, 10000)}")
        # run one process per group so that a crash pinpoints the request
        out = demodlib.run_resilient(ctx, demod, lines, "rxpath")
        for ln, o in zip(lines, out):
            op = ln.split()[0]
            ctx.count(ln, nontrivial=True)
            ctx.stat("op:" + op)
            if op == "hostile" and not o.startswith("<"):
                f = o.split()
                if len(f) >= 5:
                    if int(f[4]) > 0:
                        ctx.stat("hostile:streams-past-carrier-detect")
                    ctx.stat("hostile:diagnostic-lines", int(f[5]))
                    if int(f[0]) > 9 or int(f[1]) >= 368:
                        ctx.violate("rxpath:index-range", f"index out of its documented range: sample_index max {f[0]} (0-9), framer fill max {f[1]} (<368) on `{ln}`",
                                    {"stream": "rxpath", "ops": [ln], "impl": o})
            if op == "app_packets" and not o.startswith("<"):
                f = o.split()
                if len(f) >= 2 and f[-2] == "1" and int(ln.split()[-1]) & 0x80:
                    ctx.stat("packets:valid-fcs-parsed-as-ax25")
            if op == "app_call" and o.isdigit() and int(o) > 9:
                ctx.violate("rxpath:callsign-length", f"callsign printed by the application has {o} characters", {"stream": "rxpath", "ops": [ln]})
        # the packet handlers against their model (AppPacket.step / onLsf; theorem C07P.reassembly speaks about this model)
        pk = [(ln, o) for ln, o in zip(lines, out) if ln.startswith("app_packets") and not o.startswith("<")]
        if ctx.model_ok and pk:
            pm = ctx.run_model([ln for ln, _ in pk])
            ctx.compare("app-packets", [ln for ln, _ in pk], [o for _, o in pk], pm, oracle=lambda ln, a: None, sig=lambda ln: "app-packets")
            ctx.traces += len(pk)
        # corrupted M17 signal through the whole receive path with the app handlers
        src, dst = "W1AW", "N0CALL"
        audio = [rng.randrange(-8000, 8000) for _ in range(320 * (8 if quick else 40))]
        samples, bs, nfr = demodlib.transmission(ctx, mod, src, dst, 5, audio)
        for trial in range(2 if quick else 10):
            s2 = list(samples)
            for _ in range(rng.randrange(1, 40)):
                i = rng.randrange(len(s2)); n = rng.randrange(1, 3000)
                kind = rng.random()
                for j in range(i, min(len(s2), i + n)):
                    s2[j] = 0 if kind < 0.3 else (32767 if kind < 0.5 else (rng.randrange(-32768, 32768) if kind < 0.8 else -s2[j]))
            p = {"gain": 1000, "dc": 0, "sigma": rng.choice([0, 100, 1000]), "delay": rng.randrange(1000), "ppm": rng.randrange(-200, 200),
                 "lead": rng.randrange(6), "leadn": rng.randrange(0, 20000), "level": rng.choice([0, 100, 3000]), "seed": rng.randrange(10**6), "app": 1}
            ln, rep, rc, err = demodlib.run_rx(ctx, demod, p, s2)
            ctx.count(ln[:200], nontrivial=True)
            ctx.stat("rx:corrupted-transmission")
            if rc != 0:
                kind = "sanitizer" if ("ERROR: AddressSanitizer" in err or "runtime error" in err or "Assertion" in err) else "crash"
                ctx.violate(f"rxpath:{kind}:{core.first_frame(err)}", f"receive path aborted ({kind}) on a corrupted M17 transmission: {core.first_err_line(err)}",
                            {"stream": "rxpath", "ops": [ln[:400] + " ..."], "params": p, "stderr": err[-2500:]})
        self.other_modes_stage(ctx, demod, mod)
        ctx.sample({"op": lines[0][:80], "reply": out[0][:80]})
        ctx.sample({"op": lines[-1], "reply": out[-1]})

    def other_modes_stage(self, ctx, demod, mod):
        """packet superframes (raw and encapsulated; random content and AX.25 frames with a valid frame check sequence, 1..32 frames, clean and
        damaged) and BERT transmissions through the WHOLE receive path - demodulator (do_packet_sync / do_bert_sync), frame decoder, and
        m17-demod's handle_frame / decode_packet / decode_bert - under the sanitizers"""
        rng = ctx.rng
        g = decgen.Gen(rng)
        reached = 0
        for trial in range(20 if ctx.tier == "quick" else 80):
            kind = ("pkt_raw", "bert", "pkt_enc")[trial % 3]
            if kind == "bert":
                samples, _ = demodlib.bert_transmission(ctx, mod, rng.randrange(6, 30), start=rng.randrange(1, 512))
            else:
                content = None
                nfr = rng.choice([1, 2, 5, 12, 32, 33])
                if trial % 2 == 0:           # a plausible AX.25 UI frame with a valid FCS: the parser runs on what was received
                    body = ([ord(c) << 1 for c in "APRS  "] + [0x60] + [ord(c) << 1 for c in "N0CALL"] + [0x61, 0x03, 0xF0] + [rng.randrange(32, 127) for _ in range(rng.randrange(0, 300))])
                    prefix = [0, 16, 0] if kind == "pkt_enc" else []
                    fcs = x25(prefix + body)
                    content = bytes(body + [fcs & 0xFF, fcs >> 8])
                    nfr = (len(content) + 24) // 25
                samples, _ = demodlib.packet_transmission(ctx, mod, rng, g.rand_lsf(0x0002 if kind == "pkt_raw" else 0x0004), nfr, content=content)
            s2 = list(samples)
            if trial >= 10 and trial % 3 == 0:
                for _ in range(rng.randrange(1, 12)):
                    i = rng.randrange(len(s2)); n = rng.randrange(1, 2500); k = rng.random()
                    for j in range(i, min(len(s2), i + n)):
                        s2[j] = 0 if k < 0.4 else (rng.randrange(-32768, 32768) if k < 0.8 else -s2[j])
            p = {"gain": rng.choice([500, 1000, 2000]), "dc": rng.randrange(-100, 100), "sigma": rng.choice([0, 0, 100]), "delay": rng.randrange(1000),
                 "ppm": rng.randrange(-100, 100), "lead": 2, "leadn": 6000 + (trial % 10 if trial < 10 else rng.randrange(0, 200)), "level": 5000, "seed": rng.randrange(10 ** 6), "app": 1}
            # (open-squelch noise of every length modulo 10 in front: every phase of the transmission against the correlator's 10-sample index
            # cycle; with silence in front the receiver as it stands takes the link setup frame - and with it the packet mode - at two phases only)
            if trial < 10:
                p.update(gain=1000, dc=0, sigma=0, delay=0, ppm=0)
            ln, rep, rc, err = demodlib.run_rx(ctx, demod, p, s2)
            ctx.count(("other-modes", kind, trial, tuple(sorted(p.items()))), nontrivial=True)
            ctx.stat("rx:" + kind)
            if rc != 0:
                k2 = "sanitizer" if ("ERROR: AddressSanitizer" in err or "runtime error" in err or "Assertion" in err) else "crash"
                ctx.violate(f"rxpath:{k2}:{core.first_frame(err)}", f"receive path aborted ({k2}) on a {kind} transmission: {core.first_err_line(err)}",
                            {"stream": "rxpath", "ops_file": demodlib.save_ops([ln]), "params": p, "stderr": err[-2500:]})
                continue
            # was the mode actually reached? (same signal, bare callback)
            p0 = dict(p); p0["app"] = 0
            _, rep0, rc0, _ = demodlib.run_rx(ctx, demod, p0, s2)
            h0, frs = demodlib.parse_frames(rep0)
            if h0 and (h0[0] > 9 or h0[1] >= 368):
                ctx.violate("rxpath:index-range", f"index out of its documented range while receiving a {kind} transmission: sample_index max {h0[0]} (0-9), framer fill max {h0[1]} (<368)",
                            {"stream": "rxpath", "ops_file": demodlib.save_ops([ln]), "params": p0})
            got = sum(1 for f in frs if f[0] == ("B" if kind == "bert" else "P"))
            ctx.stat(f"rx:{kind}:frames-delivered", got)
            reached += 1 if got else 0
        ctx.stat("rx:other-modes:runs-that-reached-the-mode", reached)
        if reached == 0:
            ctx.notes.append("other-modes stage: no run reached packet/BERT reception (the stage explored nothing)")


PROP = C07()

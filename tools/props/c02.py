"""C02 — Viterbi decoding is maximum-likelihood and its cost is the true path metric."""
import itertools
from lib import core
from lib.prop import Prop

GEOMS = [(488, 240), (296, 144), (420, 206), (402, 197)]
SHORT = [(4, 2), (6, 3), (8, 4), (10, 5), (12, 6), (12, 2), (16, 4), (20, 6), (24, 8)]
P = {488: [0 if i % 4 == 2 else 1 for i in range(61)], 296: [1] * 11 + [0], 402: [1] * 11 + [0], 420: [1] * 7 + [0]}


def conv(bits):
    out, m = [], 0
    for b in bits:
        m = ((m << 1) | b) & 0x1F
        out.append(bin(m & 0o31).count("1") & 1)
        out.append(bin(m & 0o27).count("1") & 1)
    return out


def rdiv(x, l):
    return (2 * x + l) // (2 * l)


class C02(Prop):
    pid = "C02"
    lean_targets = ["M17.Props.C02", "M17.Props.C02D"]
    theorems = ["M17.C02.gen_transitions", "M17.C02.gen_limits", "M17.C02.costTables_ok", "M17.C02.dp_le", "M17.C02.trace_spec",
                "M17.C02.argmin_spec", "M17.C02.dp_argmin", "M17.C02.branch_is_soft_distance", "M17.C02.pathCost_is_soft_distance",
                "M17.C02.decode_is_argmin", "M17.C02.metric_bound", "M17.C02.roundDiv_never_half",
                "M17.C02D.lin_ok", "M17.C02D.mham_linear", "M17.C02D.back_le", "M17.C02D.scan_le", "M17.C02D.softDist_full",
                "M17.C02D.corrects_below_half_distance", "M17.C02D.geometry_distances", "M17.C02D.lsf_single_error_corrected",
                "M17.C02D.stream_double_error_prefix"]
    level_text = ("Lean 4 theorems for trellises of every length and every in-range soft vector: the modelled forward pass computes, per end "
                  "state, the minimum over all paths (induction: lower bound + attainment by the traced survivor), the end-state selection is "
                  "a minimum, so the returned payload is a prefix of a globally minimum-distance input sequence from the zero state and the "
                  "cost is round(min/L); the butterfly's branch costs equal the soft distance to the specification encoder's output (cost_ "
                  "tables of all five widths and the x^0/x^4 tap symmetries by kernel evaluation); int32 metrics cannot overflow. The model "
                  "mirrors the code's comparisons so it agrees bit-for-bit with the C++ (checked on all geometries and widths); the C++ is also "
                  "checked against an independent forward DP with forced prefix and against brute force for IN<=24. "
                  "The corollary (M17.Props.C02D) is a theorem too: corrects_below_half_distance — for every width, every mask of received "
                  "positions, every message and every full-confidence word with w errors on received positions, 2w < d implies the payload is "
                  "returned, where d is COMPUTED by a verified backward dynamic program over the error trellis (the code is linear: lin_ok; "
                  "scan_le: the scan value bounds the masked weight of every input sequence that is non-zero inside the payload) and evaluated "
                  "in the kernel for the four geometries (geometry_distances): 3/2/3/3 over all payload pairs — the decoder does not force the "
                  "end state, so the last payload bits are the weakest — and 4/6/5/5 for pairs differing at least 12 bits before the end; "
                  "instances lsf_single_error_corrected and stream_double_error_prefix.")
    design_ref = "DESIGN.md §5 C02"
    level_note = ("Trusted: Lean kernel; dump_tables.cpp; hand translation M17/Model/Viterbi.lean validated by the correspondence stream; "
                  "std::round(min/float(L)) = (2min+L)/(2L) relies on L odd (proved) and on float division being accurate to better than 1/(2L) "
                  "for min < 2^17 (not proved; checked on every run). Axioms: propext, Classical.choice, Quot.sound only.")
    technique = "Lean 4 proof (DP invariant by induction over the trellis, generic in branch costs) + regenerated tables + differential correspondence + brute-force oracle"
    rule = ("soft vectors for the four M17 geometries and nine short trellises at LLR widths 2..6: clean codewords (+k sign flips, k=0..12), "
            "puncture-pattern erasures plus random extra erasures, uniform random in [-L..L], three-valued {-L,0,L}, all-zero, out-of-width "
            "magnitudes up to +-128; exhaustive {-L,0,L}^IN for IN<=8 (quick) / IN<=12 (thorough); canonical comparison: cost equal to "
            "round(min/L) of an independent DP, min-with-forced-returned-payload == min, and exact equality with the Lean model; "
            "distinct = distinct request lines; non-trivial = vector not all zero")

    def gen_vec(self, rng, L, IN, OUT):
        kind = rng.choice(["clean", "flips", "flips", "erase", "rand", "three", "zero", "wide", "lowconf"])
        lim = L
        if kind in ("clean", "flips", "erase", "lowconf"):
            payload = [rng.randrange(2) for _ in range(IN // 2 - 4)] + [0, 0, 0, 0] if IN // 2 > 4 else [rng.randrange(2) for _ in range(IN // 2)]
            c = conv(payload)[:IN]
            mag = lim if kind != "lowconf" else rng.randrange(1, lim + 1)
            v = [mag if b else -mag for b in c]
            pm = P.get(IN)
            if pm:
                v = [x if pm[i % len(pm)] else 0 for i, x in enumerate(v)]
            if kind == "flips":
                for _ in range(rng.randrange(0, 13)):
                    i = rng.randrange(IN)
                    v[i] = -v[i]
            if kind == "erase":
                for _ in range(rng.randrange(0, IN // 4 + 1)):
                    v[rng.randrange(IN)] = 0
            return kind, v
        if kind == "rand":
            return kind, [rng.randint(-lim, lim) for _ in range(IN)]
        if kind == "three":
            return kind, [rng.choice([-lim, 0, lim]) for _ in range(IN)]
        if kind == "zero":
            return kind, [0] * IN
        return kind, [rng.choice([-128, 127, -lim - 1, lim + 1, rng.randint(-128, 127)]) for _ in range(IN)]

    def run(self, ctx):
        exe = self.impl_driver(ctx)
        rng = ctx.rng
        quick = ctx.tier == "quick"
        lines, meta = [], []
        for llr in (2, 3, 4, 5, 6):
            L = 2 ** (llr - 1) - 1
            for (IN, OUT) in GEOMS:
                for _ in range((12 if llr == 4 else 4) if quick else 150):
                    k, v = self.gen_vec(rng, L, IN, OUT)
                    lines.append(f"vit {llr} {IN} {OUT} " + " ".join(map(str, v))); meta.append((llr, IN, OUT, k, v))
            for (IN, OUT) in SHORT:
                for _ in range(25 if quick else 400):
                    k, v = self.gen_vec(rng, L, IN, OUT)
                    lines.append(f"vit {llr} {IN} {OUT} " + " ".join(map(str, v))); meta.append((llr, IN, OUT, k, v))
            # exhaustive three-valued short trellises
            exh = [(4, 2), (6, 3), (8, 4)] + ([] if quick else [(10, 5), (12, 6)])
            for (IN, OUT) in exh:
                if quick and llr not in (2, 4) and IN == 8:
                    continue
                for t in itertools.product((-L, 0, L), repeat=IN):
                    lines.append(f"vit {llr} {IN} {OUT} " + " ".join(map(str, t))); meta.append((llr, IN, OUT, "exh", list(t)))
        impl = ctx.run_impl(exe, lines, "vit")
        # independent oracle: min distance, and min distance with the returned payload forced
        orc = []
        for (llr, IN, OUT, k, v), a in zip(meta, impl):
            f = a.split()
            bits = f[2:2 + OUT] if len(f) >= 2 + OUT else ["0"] * OUT
            orc.append(f"vit_oracle {llr} {IN} {OUT} " + " ".join(bits) + " " + " ".join(map(str, v)))
        oout = ctx.run_impl(exe, orc, "vit-oracle")
        for ln, a, o, (llr, IN, OUT, k, v) in zip(lines, impl, oout, meta):
            L = 2 ** (llr - 1) - 1
            ctx.count(ln, nontrivial=any(v))
            ctx.stat(f"kind:{k}")
            ctx.stat(f"geom:{IN}/{OUT}")
            f, g = a.split(), o.split()
            if len(f) < 2 + OUT or len(g) < 2:
                continue
            cost, mx = int(f[0]), int(f[1])
            mn, mnp = int(g[0]), int(g[1])
            if len(g) > 2 and int(g[2]) != mn:
                raise core.BuildError("oracle DP and brute force disagree", ln[:200])
            sig = f"vit:{llr}:{IN}/{OUT}"
            if mnp != mn:
                ctx.violate(sig + ":notml", f"Viterbi<LLR={llr}> decode<{IN},{OUT}>: returned payload is at soft distance >= {mnp} but some payload reaches {mn} (input kind {k})",
                            {"stream": "vit", "ops": [ln], "impl": a, "oracle": o})
            elif cost != rdiv(mn, L):
                ctx.violate(sig + ":cost", f"Viterbi<LLR={llr}> decode<{IN},{OUT}>: reported cost {cost}, minimum distance {mn} => round(min/L) = {rdiv(mn, L)}",
                            {"stream": "vit", "ops": [ln], "impl": a, "oracle": o})
            if mx >= 2 ** 31 - 400:
                ctx.violate(sig + ":overflow", f"path metric {mx} at the edge of int32", {"stream": "vit", "ops": [ln], "impl": a})
        if ctx.model_ok:
            model = ctx.run_model(lines)
            ctx.compare("vit", lines, impl, model, oracle=lambda ln, a: None, sig=lambda ln: "tie:" + " ".join(ln.split()[:4]))
            ctx.traces += len(lines)
        ctx.sample({"op": lines[0][:80] + "...", "impl(cost maxmetric bits...)": impl[0][:60] + "...", "oracle(min, min|payload)": oout[0]})
        ctx.exhaustive = False


PROP = C02()

"""C09 — CRC-16 is the M17 CRC for every message and detects all short error classes."""
from lib import core
from lib.prop import Prop


def spec_crc(bs):
    r = 0xFFFF
    for b in bs:
        r ^= b << 8
        for _ in range(8):
            r = ((r << 1) ^ 0x5935) & 0xFFFF if r & 0x8000 else (r << 1) & 0xFFFF
    return r


class C09(Prop):
    pid = "C09"
    lean_targets = ["M17.Props.C09"]
    theorems = ["M17.C09.gen_poly_eq_spec", "M17.C09.gen_init_eq_spec", "M17.C09.reset_eq_gen", "M17.C09.fwd16_reset",
                "M17.C09.impl_eq_spec", "M17.C09.append_crc_checks_zero", "M17.C09.impl_append_checks_zero",
                "M17.C09.detects_single", "M17.C09.detects_double", "M17.C09.detects_burst"]
    level_text = ("Lean 4 theorems for byte strings of every length: the modelled engine (augmented register, reset() pre-compensation, "
                  "16 flush steps) equals the direct-form M17 CRC-16; message ++ CRC checks to zero; every single, double (<=240 bits) "
                  "and burst<=16 error changes the value (GF(2)-linearity and injectivity of the register step, orbit table of 239 "
                  "entries by kernel evaluation). Poly/Init regenerated from the decoder's crc_ member; C++ engine compared with the "
                  "model on random/structured strings of length 0..64 and swept exhaustively over the three error classes.")
    design_ref = "DESIGN.md §5 C09"
    level_note = ("Trusted: Lean kernel; dump_tables.cpp; hand translation M17/Model/Crc.lean validated by the correspondence stream. "
                  "Axioms: propext, Classical.choice, Quot.sound only.")
    technique = "Lean 4 proof (linearity/injectivity of the CRC register step, induction over the message) + differential correspondence"
    rule = ("byte strings of length 0..64: random, all-equal, single-bit, M17-like LSFs with valid CRC; C++ CRC16<> (decoder instance type) vs "
            "Lean model vs independent spec; oracle: exhaustive single/double/burst<=16 sweep on 30-byte frames in C++; "
            "non-trivial = non-empty string; distinct = distinct byte strings")

    def run(self, ctx):
        exe = self.impl_driver(ctx)
        rng = ctx.rng
        quick = ctx.tier == "quick"
        msgs = [[]]
        for n in range(1, 65):
            msgs.append([0] * n)
            msgs.append([0xFF] * n)
            msgs.append([rng.randrange(256)] * n)
        for _ in range(3000 if quick else 60000):
            n = rng.randrange(0, 65)
            kind = rng.random()
            if kind < 0.6:
                m = [rng.randrange(256) for _ in range(n)]
            elif kind < 0.8:
                m = [0] * n
                if n:
                    m[rng.randrange(n)] = 1 << rng.randrange(8)
            else:
                body = [rng.randrange(256) for _ in range(28)]
                c = spec_crc(body)
                m = body + [c >> 8, c & 0xFF]
            msgs.append(m)
        lines = ["crc " + " ".join(map(str, m)) for m in msgs]
        lines_b = ["crc_bytes " + " ".join(map(str, m)) for m in msgs[:500]]
        impl = ctx.run_impl(exe, lines, "crc")
        implb = ctx.run_impl(exe, lines_b, "crc-bytes")
        for m, a in zip(msgs, impl):
            ctx.count(("crc", tuple(m)), nontrivial=len(m) > 0)
            s = spec_crc(m)
            ctx.stat("len:%d-%d" % (len(m) // 16 * 16, len(m) // 16 * 16 + 15))
            if a != str(s):
                ctx.violate("crc:" + " ".join(map(str, m))[:80], f"CRC16 of {m[:8]}... (len {len(m)}) = {a}, M17 CRC is {s}",
                            {"stream": "crc", "ops": ["crc " + " ".join(map(str, m)), "spec_crc " + " ".join(map(str, m))], "impl": a, "spec": s})
        # configurations: other CRC16<> instantiations live in the same process (m17-demod has CRC16<0x1021,0xFFFF> next to the M17 one)
        # and may run first; the M17 engine must be unaffected (shared statics, caches keyed too coarsely, ...)
        def gen_crc(m, poly, init):
            r = init
            for b in m:
                for i in range(8):
                    top = r & 0x8000
                    r = (r << 1) & 0xFFFF
                    if bool(top) != bool((b >> (7 - i)) & 1):
                        r ^= poly
            return r
        params = {0: (0x1021, 0xFFFF), 1: (0x8005, 0x0000), 2: (0x5935, 0x0000)}
        mixed, want = [], []
        for j, m in enumerate(msgs[190:190 + (300 if quick else 3000)]):
            which = j % 3
            mixed.append(f"crc_other {which} " + " ".join(map(str, m))); want.append(gen_crc(m, *params[which]))
            mixed.append("crc " + " ".join(map(str, m))); want.append(spec_crc(m))
        outm = ctx.run_impl(exe, mixed, "crc-mixed")          # a fresh process: the first engine used has another polynomial
        for ln, a, w in zip(mixed, outm, want):
            ctx.evaluations += 1
            ctx.stat("mixed:" + ln.split()[0])
            if a != str(w) and not ln.startswith("crc "):
                ctx.stat("mixed:other-instantiation-differs-from-reference(outside C09)")
            if a != str(w) and ln.startswith("crc "):
                i = mixed.index(ln)
                ctx.violate("crc-mixed:" + ln.split()[0], f"with several CRC16<> instantiations used in one process, `{ln[:60]}` = {a}, expected {w}",
                            {"stream": "crc-mixed", "ops": mixed[:i + 1][-6:], "impl": a, "expected": w})
                break
        # histories of the engine object: bytes fed (and get() called) before the first reset(), repeated use of one object
        hl, hw = [], []
        for m in msgs[100:100 + (200 if quick else 2000)]:
            k = rng.randrange(0, 6)
            pre = [rng.randrange(256) for _ in range(k)]
            hl.append(f"crc_hist {k} " + " ".join(map(str, pre + m))); hw.append(spec_crc(m))
        for ln, a, w in zip(hl, ctx.run_impl(exe, hl, "crc-hist"), hw):
            ctx.evaluations += 1
            ctx.stat("hist:pre%d" % int(ln.split()[1]))
            if a != f"{w} {w}":
                ctx.violate("crc-hist", f"engine with {ln.split()[1]} byte(s) fed before its first reset(): reset/feed/get twice gave {a}, the M17 CRC is {w}",
                            {"stream": "crc-hist", "ops": [ln], "impl": a})
                break
        # message ++ crc bytes checks to zero on the implementation
        chk = []
        for m, b in zip(msgs[:500], implb):
            try:
                hi, lo = [int(x) for x in b.split()]
            except ValueError:
                continue
            chk.append("crc " + " ".join(map(str, m + [hi, lo])))
        out = ctx.run_impl(exe, chk, "crc-check")
        for ln, a in zip(chk, out):
            ctx.evaluations += 1
            if a != "0":
                ctx.violate("crc-check:" + ln[:80], f"message followed by its get_bytes() checks to {a}, not 0", {"stream": "crc-check", "ops": [ln]})
        if ctx.model_ok:
            model = ctx.run_model(lines)
            ctx.compare("crc", lines, impl, model, oracle=lambda ln, a: None if a == str(spec_crc([int(x) for x in ln.split()[1:]])) else "differs from the M17 CRC")
            modelb = ctx.run_model(lines_b)
            ctx.compare("crc-bytes", lines_b, implb, modelb)
            sp = ["spec_crc " + " ".join(map(str, m)) for m in msgs[:800]]
            a1 = ctx.run_impl(exe, sp, "spec"); a2 = ctx.run_model(sp)
            if a1 != a2 or any(x != str(spec_crc(m)) for x, m in zip(a1, msgs[:800])):
                raise core.BuildError("spec CRC in harness/Lean/python disagree", "")
            ctx.traces += len(lines)
        for i in (1, 200, 300):
            ctx.sample({"op": lines[i][:100], "impl": impl[i]})
        # exhaustive step-level comparison: crc(byte, reg) for ALL 2^16 registers x 256 bytes, by chunk digests
        if ctx.model_ok:
            step = 4096
            ch = [f"crc_step_digest {lo} {lo + step}" for lo in range(0, 65536, step)]
            di = ctx.run_impl(exe, ch, "crc-step")
            dm = ctx.run_model(ch)
            ctx.evaluations += 65536 * 256
            ctx.stat("step:pairs", 65536 * 256)
            for ln, a, b in zip(ch, di, dm):
                if a != b:
                    lo = int(ln.split()[1])
                    ws = [f"crc_step {r} {bb}" for r in range(lo, lo + step) for bb in (0, 1, 0x80, 0xFF, rng.randrange(256))]
                    ctx.compare("crc-step", ws, ctx.run_impl(exe, ws, "crc-step"), ctx.run_model(ws),
                                oracle=lambda l, x: "register step differs from the M17 CRC step (see impl_eq_spec)", sig=lambda l: "reg" + l.split()[1])
            ctx.exhaustive = True
        # exhaustive error-class sweep on frames
        frames = [[0] * 30, [0xFF] * 30]
        for _ in range(2 if quick else 30):
            body = [rng.randrange(256) for _ in range(28)]
            c = spec_crc(body)
            frames.append(body + [c >> 8, c & 0xFF])
        sw = ["crc_sweep " + " ".join(map(str, f)) for f in frames]
        out = ctx.run_impl(exe, sw, "crc-sweep")
        for ln, r in zip(sw, out):
            f = r.split()
            if len(f) != 5:
                continue
            ctx.evaluations += int(f[0])
            ctx.stat("sweep:cases", int(f[0]))
            if int(f[1]):
                kind = {1: "single-bit", 2: "double-bit", 3: "burst"}[int(f[2])]
                ctx.violate(f"crc-sweep:{kind}:{f[3]}:{f[4]}", f"{int(f[1])} undetected errors on a 30-byte frame; first: {kind} at {f[3]} / {f[4]}",
                            {"stream": "crc-sweep", "ops": [ln], "reply": r})
        ctx.sample({"op": sw[0][:60], "reply(cases undetected kind p q)": out[0]})


PROP = C09()

"""C18 — PRBS9/BERT: maximal-length generator, lock within 27 bits, exact error count."""
from lib import core
from lib.prop import Prop


def prbs_seq(n, state=1):
    out = []
    for _ in range(n):
        b = ((state >> 8) ^ (state >> 4)) & 1
        state = ((state << 1) | b) & 0x1FF
        out.append(b)
    return out, state


class C18(Prop):
    pid = "C18"
    lean_targets = ["M17.Props.C18", "M17.Props.C18B", "M17.Props.C18P"]
    theorems = ["M17.C18.gen_consts", "M17.C18.period_511", "M17.C18P.genState_periods", "M17.C18P.genBits_periods", "M17.C18P.ones_periods",
                "M17.C18P.return_511_any_phase", "M17.C18P.bit_periodic", "M17.C18P.bit_periodic_any_phase", "M17.C18.nine_bits_determine", "M17.C18.locks_within_27",
                "M17.C18.locked_step", "M17.C18.exact_count", "M17.C18.unlock_at_25", "M17.C18.inv_at_lock",
                "M17.C18B.getBit_pack", "M17.C18B.counts_at_lock", "M17.C18B.clean_run", "M17.C18B.rx_is_run", "M17.C18B.bert_end_to_end"]
    level_text = ("Lean 4 theorems about the modelled PRBS9 object: the generator from the reset state has period exactly 511 with 256 ones "
                  "(kernel evaluation of the whole orbit), and — by induction (C18P) — is 511-periodic for ever: every output index repeats the bit 511 earlier, k periods are k copies of one period with exactly 256k ones, from every phase of the orbit; a validator with run counter 0 and ANY register content, fed any phase, locks at some "
                  "bit 18..27 with its register equal to the generator's and not earlier (nine shifted-in bits determine the register; "
                  "counter induction); after lock, for every error pattern whose every 128-bit window has fewer than 25 errors the validator "
                  "stays locked and err/bit counters grow by exactly the errors / bits seen (sliding-window invariant over the 128-bit "
                  "history, size_t/uint32 wrap explicit); the first window reaching 25 unlocks. Constants regenerated from Util.h; C++ "
                  "object compared with the model on all 511 phases x prior histories, single errors, and random error densities. "
                  "The clause 'BERT frames passed through the frame decoder re-lock with zero errors' is the theorem bert_end_to_end "
                  "(M17.Props.C18B): clean specification-encoded frames cut from ANY phase of the sequence, decoded by the frame-decoder model "
                  "from any state (C01F.bert_roundtrip), unpacked by the model of m17-demod's decode_bert (getBit_pack: get_bit_index undoes "
                  "to_byte_array) and fed to any freshly unlocked validator lock it within the first frame, count zero errors for any number of "
                  "frames, and count 18 + (bits since lock) bits (clean_run, counts_at_lock).")
    design_ref = "DESIGN.md §5 C18"
    level_note = ("Trusted: Lean kernel; dump_tables.cpp; hand translation M17/Model/Prbs.lean (history bitmap as List Bool; the constructor's "
                  "uninitialised history is modelled as cleared, it is never read before the clearing at lock) validated by the correspondence "
                  "stream. Axioms: propext, Classical.choice, Quot.sound only.")
    technique = "Lean 4 proof (orbit by kernel evaluation, induction over bits with a sliding-window invariant) + differential correspondence"
    rule = ("scenarios = [optional prior history: fresh / reset() / forced unlock by a burst / arbitrary register] + phase p of the sequence "
            "(all 511 phases) + error pattern: none, every single position 0..599, random densities 0.5%..30%; C++ PRBS9 vs Lean model on "
            "sync(), errors(), bits(), register, counters and a digest of every validate() return value; oracle: lock within 27 bits and "
            "exact counts recomputed independently in python; distinct = distinct scenario lines")

    def setup_drivers(self):
        from lib import demodlib
        from props.c20 import PROP as C20P
        return [self.impl_driver(None), demodlib.drivers()[0]] + list(C20P.programs())

    def bert_pipeline(self, ctx):
        """process level: `m17-mod -B` (the repository's BERT transmitter: PRBS9 generator, make_bert_frame, baseband) piped into m17-demod (the
        repository's BERT receiver: demodulator, decode_bert, PRBS9 validator, BER display). m17-mod -B runs until interrupted: it is sent
        SIGINT after N frames. Oracle: the last BER line shows 0 errors over at least (N - 40) x 197 bits; both programs exit 0."""
        import subprocess, signal, re, os
        from props.c20 import PROP as C20P
        mod, dem = C20P.programs(san=(ctx.tier != "quick"))
        rng = ctx.rng
        for trial in range(2 if ctx.tier == "quick" else 8):
            nfr = 400 if trial == 0 else rng.choice([120, 200, 333, 700])      # one run always beyond 2^16 transmitted bits
            inv = trial % 2
            src = "".join(rng.choice("ABCDEFGHIJKLMNOPQRSTUVWXYZ0123456789") for _ in range(rng.randrange(1, 10)))
            cmd_m = [mod, "-S", src, "-B"] + (["-i"] if inv else [])
            pm = subprocess.Popen(cmd_m, stdout=subprocess.PIPE, stderr=subprocess.PIPE, env=core.san_env())
            want = 3840 * (nfr + 1)                  # preamble + nfr frames of 1920 int16 samples
            bb = b""
            while len(bb) < want:
                chunk = pm.stdout.read(want - len(bb))
                if not chunk:
                    break
                bb += chunk
            pm.send_signal(signal.SIGINT)
            try:
                rest, merr = pm.communicate(timeout=60)
            except subprocess.TimeoutExpired:
                pm.kill(); rest, merr = pm.communicate()
                merr += b"\nTIMEOUT: m17-mod -B did not stop on SIGINT"
            bb = bb[:want - (want % 2)]
            first = None
            if trial % 2 == 1:
                # two transmissions into ONE receiver process, each followed by 1 s of weak noise (carrier drops in between): the counts shown
                # at the end are those of the second transmission only (the validator is reset when the carrier is lost)
                import struct, random as _r
                nr = _r.Random(rng.randrange(10 ** 6))
                gap = b"".join(struct.pack("<h", int(nr.gauss(0, 40))) for _ in range(48000))
                n1 = rng.choice([150, 250])
                first = n1
                p1 = subprocess.Popen(cmd_m, stdout=subprocess.PIPE, stderr=subprocess.PIPE, env=core.san_env())
                w1 = 3840 * (n1 + 1); b1 = b""
                while len(b1) < w1:
                    chunk = p1.stdout.read(w1 - len(b1))
                    if not chunk:
                        break
                    b1 += chunk
                p1.send_signal(signal.SIGINT)
                try:
                    p1.communicate(timeout=60)
                except subprocess.TimeoutExpired:
                    p1.kill(); p1.communicate()
                bb = b1[:w1] + gap + bb + gap
            cmd_d = [dem] + (["-d"] if trial % 2 else ["-l"]) + (["-i"] if inv else [])
            pd = subprocess.run(cmd_d, input=bb, stdout=subprocess.PIPE, stderr=subprocess.PIPE, timeout=600, env=core.san_env())
            err = pd.stderr.decode(errors="replace")
            ctx.count(("bert-pipeline", src, nfr, inv), nontrivial=True)
            ctx.stat("bert-pipeline:runs")
            probs = []
            if pm.returncode != 0:
                probs.append(f"m17-mod -B exit status {pm.returncode} after SIGINT: {core.first_err_line(merr.decode(errors='replace'))}")
            if pd.returncode != 0:
                probs.append(f"m17-demod exit status {pd.returncode}: {core.first_err_line(err)}")
            m = [(float(a), int(b)) for a, b in re.findall(r"BER: ([0-9.]+) \((\d+) bits\)", err)]
            if not m:
                probs.append("m17-demod printed no BER line for a BERT transmission")
            else:
                # runs of the display: the bit count only grows until the validator is reset (carrier lost) or re-locks
                runs, cur = [], [m[0]]
                for x in m[1:]:
                    if x[1] < cur[-1][1]:
                        runs.append(cur); cur = [x]
                    else:
                        cur.append(x)
                runs.append(cur)
                ctx.stat("bert-pipeline:display-runs", len(runs))
                if first is None:
                    ber, nb = m[-1]
                    ctx.stat("bert-pipeline:bits-validated", nb)
                    if ber != 0.0:
                        probs.append(f"clean BERT transmission of {nfr} frames received with BER {ber} over {nb} bits (must be 0)")
                    if nb < (nfr - 40) * 197:
                        probs.append(f"only {nb} bits validated of {nfr} x 197 transmitted (at most the first 40 frames may be lost to acquisition)")
                else:
                    # two transmissions, each followed by noise (which the receiver may decode as a few erroneous BERT frames before the carrier
                    # drops): each must appear as a display run of its own that reaches nearly all of its bits with zero errors
                    def clean_bits(run):
                        return max([b for (r, b) in run if r == 0.0] or [0])
                    big = [r for r in runs if clean_bits(r) >= 20 * 197]
                    ctx.stat("bert-pipeline:bits-validated", sum(clean_bits(r) for r in big))
                    if len(big) != 2:
                        probs.append(f"two BERT transmissions ({first} and {nfr} frames, a carrier drop between them) appear as {len(big)} error-free display run(s) "
                                     f"(bit counts at the end of each run: {[r[-1][1] for r in runs][:8]}): the validator was not reset when the carrier was lost")
                    else:
                        for r, n_ in zip(big, (first, nfr)):
                            cb = clean_bits(r)
                            if cb < (n_ - 40) * 197 or cb > (n_ + 3) * 197:
                                probs.append(f"transmission of {n_} frames: {cb} bits validated error-free (expected {(n_ - 40) * 197}..{(n_ + 3) * 197})")
            if probs:
                bbp = os.path.join(core.VERIF, "evidence", "replay", f"C18-bert-{trial}.bb.raw")
                os.makedirs(os.path.dirname(bbp), exist_ok=True)
                open(bbp, "wb").write(bb)
                ctx.violate("bert-pipeline:" + re.sub(r"[^a-z]+", "-", probs[0].lower())[:40], f"{' '.join(cmd_m[1:])} | m17-demod {' '.join(cmd_d[1:])}: " + "; ".join(probs[:3]),
                            {"stream": "bert-pipeline", "mod_cmd": cmd_m, "demod_cmd": cmd_d, "baseband_file": bbp, "frames": nfr, "stderr_tail": err[-800:],
                             "how": "m17-mod -S <src> -B, interrupted with SIGINT after the given number of frames, output fed to m17-demod"})

    def app_bert_stage(self, ctx, seq):
        """m17-demod's decode_bert handler (the real function, in-process) on packed BERT payloads: consecutive 197-bit cuts of the sequence
        from every phase class, packed as to_byte_array packs them; must lock within the first frame with zero errors (theorem
        bert_end_to_end), and agree with the model App.bertBits + Prbs.run on arbitrary bytes too"""
        from lib import demodlib
        from lib import m17spec as S
        demod = demodlib.drivers()[0]
        rng = ctx.rng
        quick = ctx.tier == "quick"
        lines, want = [], []
        for p in (list(range(0, 511, 7)) if quick else list(range(511))):
            nfr = rng.choice([1, 2, 3, 27])
            bs = []
            for k in range(nfr):
                bits = [seq[(p + 197 * k + i) % 511] for i in range(197)]
                bs += list(S.pack(bits))
            lines.append("app_bert " + " ".join(map(str, bs))); want.append(nfr)
        for _ in range(40 if quick else 1000):
            nfr = rng.randrange(1, 5)
            lines.append("app_bert " + " ".join(str(rng.randrange(256)) for _ in range(25 * nfr))); want.append(None)
        impl = ctx.run_impl(demod, lines, "app-bert")
        for ln, a, nfr in zip(lines, impl, want):
            ctx.count(ln[:120], nontrivial=True)
            ctx.stat("app-bert:" + ("sequence" if nfr else "random-bytes"))
            f = a.split()
            if nfr and len(f) == 3:
                if f[0] != "1" or f[1] != "0" or not (18 + 197 * nfr - 27 <= int(f[2]) <= 197 * nfr):
                    ctx.violate("app-bert:clean", f"{nfr} clean BERT payload(s) through m17-demod's decode_bert: sync={f[0]} errors={f[1]} bits={f[2]}; "
                                f"must lock within the first frame with 0 errors", {"stream": "app-bert", "ops": [ln], "impl": a})
        if ctx.model_ok:
            model = ctx.run_model(lines)
            ctx.compare("app-bert", lines, impl, model, oracle=lambda ln, a: None, sig=lambda ln: "frames")
        # the whole receive path of a BERT transmission: specification-encoded frames cut from the sequence -> the real frame decoder (one decoder
        # object for the whole run, so anything left behind by the previous frame is in play) -> the bytes its callback delivers -> decode_bert
        fec = self.impl_driver(ctx)
        for phase in ([3, 200] if quick else [3, 77, 200, 305, 444, 510]):
            nfr = 70 if quick else 600
            dl, payloads = ["dec_new"], []
            for k in range(nfr):
                bits = [seq[(phase + 197 * k + i) % 511] for i in range(197)]
                payloads.append(list(S.pack(bits)))
                dl.append("dec_frame 3 1 " + " ".join(map(str, S.soft(S.bert_frame_bits(bits), rng.choice([7, 7, 3, 1])))))
            rep = ctx.run_impl(fec, dl, "bert-path")[1:]
            got = []
            from lib import decgen
            for k, a in enumerate(rep):
                r = decgen.parse_reply(a)
                ctx.evaluations += 1
                b = r["calls"][0]["bytes"] if r and r["calls"] and r["calls"][0]["type"] == 5 else None
                if b != payloads[k]:
                    ctx.violate("bert-path:payload", f"clean BERT frame {k} of a run (phase {phase}): the decoder delivered {b[-3:] if b else b} as its last bytes, "
                                f"the transmitted payload ends {payloads[k][-3:]} (25 bytes, last three bits zero)",
                                {"stream": "bert-path", "ops": dl[:k + 2][-4:], "impl": a})
                    break
                got += b
            else:
                o = ctx.run_impl(demod, ["app_bert " + " ".join(map(str, got))], "app-bert")[0].split()
                ctx.count(("bert-path", phase, nfr), nontrivial=True)
                if len(o) == 3 and (o[0] != "1" or o[1] != "0"):
                    ctx.violate("bert-path:errors", f"{nfr} clean BERT frames (phase {phase}) through decoder and decode_bert: sync={o[0]} errors={o[1]} bits={o[2]}",
                                {"stream": "bert-path", "ops": dl[:3]})

    def run(self, ctx):
        exe = self.impl_driver(ctx)
        rng = ctx.rng
        quick = ctx.tier == "quick"
        seq, _ = prbs_seq(511 * 5)
        lines, meta = [], []
        # generator: whole period
        gen_lines = ["prbs_gen 1022"] + [f"prbs_gen 40 {g}" for g in (1, 2, 255, 256, 511, 0)]
        gimpl = ctx.run_impl(exe, gen_lines, "prbs-gen")
        g = [int(x) for x in gimpl[0].split()] if gimpl[0] != "<crash>" else []
        ctx.evaluations += 1
        if g:
            bits = g[:-1]
            if bits[:511] != bits[511:1022] or sum(bits[:511]) != 256 or any(bits[:k] == bits[k:2 * k] and 511 % k == 0 for k in (7, 73)) or bits != seq[:1022]:
                ctx.violate("prbs-gen:sequence", "generator output is not the PRBS9 m-sequence x^9+x^5+1 (period 511, 256 ones)",
                            {"stream": "prbs-gen", "ops": [gen_lines[0]], "impl": gimpl[0][:200]})
        # validator scenarios
        def scenario(prior, phase, nbits, errs, reg=None):
            toks = list(prior)
            if reg is not None:
                toks += [3, reg]
            body = seq[phase:phase + nbits]
            body = [b ^ (1 if i in errs else 0) for i, b in enumerate(body)]
            return toks + body
        priors = {
            "fresh": [],
            "after-reset": [1, 0, 1, 1, 0, 2],
            "after-lock-reset": seq[5:45] + [2],
            "after-unlock": seq[7:47] + [b ^ 1 for b in seq[47:47 + 60]],      # lock, then a burst forces unlock
        }
        for p in range(511):
            kind = list(priors)[p % 4] if not quick or p % 3 == 0 else "fresh"
            reg = rng.randrange(512) if p % 2 else None
            n = 60
            lines.append("prbs " + " ".join(map(str, scenario(priors[kind], p, n, set(), reg))))
            meta.append(("phase", kind, p, n, set(), reg))
        for pos in range(0, 600, 1 if not quick else 3):
            p = rng.randrange(511)
            lines.append("prbs " + " ".join(map(str, scenario([], p, 700, {pos}))))
            meta.append(("single", "fresh", p, 700, {pos}, None))
        for _ in range(150 if quick else 3000):
            p = rng.randrange(511)
            n = rng.choice([200, 500, 1200])
            dens = rng.choice([0.005, 0.02, 0.05, 0.1, 0.15, 0.19, 0.2, 0.25, 0.3])
            errs = {i for i in range(30, n) if rng.random() < dens}
            lines.append("prbs " + " ".join(map(str, scenario([], p, n, errs))))
            meta.append(("dense%.3f" % dens, "fresh", p, n, errs, None))
        # histories with a prior unlock: burst -> unlock, clean bits -> re-lock (no reset()), then sparse errors. Two requests per case, without (A)
        # and with (B) the sparse tail: B must still be locked and have counted exactly the tail's errors and bits on top of A.
        relock = []
        for _ in range(12 if quick else 200):
            p = rng.randrange(511)
            nclean = rng.choice([40, 60, 90])
            ntail = rng.choice([300, 640, 1000])
            step = rng.choice([30, 64, 100])
            tail_errs = {nclean + j for j in range(rng.randrange(1, step), ntail, step)}
            a_ln = "prbs " + " ".join(map(str, scenario(priors["after-unlock"], p, nclean, set())))
            b_ln = "prbs " + " ".join(map(str, scenario(priors["after-unlock"], p, nclean + ntail, tail_errs)))
            relock.append((len(lines), len(lines) + 1, len(tail_errs), ntail))
            lines += [a_ln, b_ln]
            meta += [("relock-A", "after-unlock", p, nclean, set(), None), ("relock-B", "after-unlock", p, nclean + ntail, tail_errs, None)]
        impl = ctx.run_impl(exe, lines, "prbs")
        for ia, ib, ke, nt in relock:
            fa, fb = impl[ia].split(), impl[ib].split()
            if len(fa) != 8 or len(fb) != 8:
                continue
            ctx.evaluations += 1
            if int(fa[0]) != 1:
                continue            # not re-locked within the clean run: outside this oracle (lock timing is the lock scenarios' business)
            if int(fb[0]) != 1 or int(fb[1]) - int(fa[1]) != ke or int(fb[2]) - int(fa[2]) != nt:
                ctx.violate("prbs:relock-count", f"after unlock and re-lock (no reset), {ke} sparse errors over {nt} bits: sync={fb[0]} errors +{int(fb[1]) - int(fa[1])} bits +{int(fb[2]) - int(fa[2])} "
                            f"(expected locked, +{ke}, +{nt})", {"stream": "prbs", "ops": [lines[ia], lines[ib]], "impl": [impl[ia], impl[ib]]})
        # independent oracle for error-free phases (lock within 27) and sparse errors (exact counts)
        for ln, a, (k, prior, p, n, errs, reg) in zip(lines, impl, meta):
            ctx.count(ln, nontrivial=True)
            ctx.stat("scenario:" + (k if not k.startswith("dense") else "dense"))
            f = a.split()
            if len(f) != 8:
                continue
            synced, nerr, nbits = int(f[0]), int(f[1]), int(f[2])
            if k == "phase" and prior in ("fresh", "after-reset", "after-lock-reset"):
                # locked by bit 27 => bits() >= 18 + (n - 27) and zero errors
                if not synced or nerr != 0 or nbits < 18 + (n - 27) or nbits > n:
                    ctx.violate(f"prbs:lock:{prior}", f"validator ({prior}) fed phase {p} error-free for {n} bits: sync={synced} errors={nerr} bits={nbits}; must lock within 27 bits with 0 errors",
                                {"stream": "prbs", "ops": [ln], "impl": a})
            if k == "single":
                pos = next(iter(errs))
                # error after lock (>= 27): exactly one error counted, lock kept; bits = n - (lock point) + 18 with lock point in 18..27
                if pos >= 27:
                    if not synced or nerr != 1 or not (n - 27 + 18 <= nbits <= n):
                        ctx.violate("prbs:single", f"single error at bit {pos} after lock: sync={synced} errors={nerr} bits={nbits}",
                                    {"stream": "prbs", "ops": [ln], "impl": a})
            if k.startswith("dense"):
                # window rule: stays locked iff no 128-window (since lock at bit 18 for a fresh validator on a clean start) reaches 25
                es = sorted(errs)
                unlocked = any(sum(1 for x in es if e - 128 < x <= e) >= 25 for e in es)
                if not unlocked:
                    if not synced or nerr != len(es) or not (n - 9 <= nbits <= n):
                        ctx.violate("prbs:count", f"sparse error pattern ({len(es)} errors, no 128-window with 25): sync={synced} errors={nerr} bits={nbits} (expected {len(es)} / {n-9}..{n})",
                                    {"stream": "prbs", "ops": [ln], "impl": a})
        self.app_bert_stage(ctx, seq)
        self.bert_pipeline(ctx)
        if ctx.model_ok:
            model = ctx.run_model(lines)
            ctx.compare("prbs", lines, impl, model, oracle=lambda ln, a: None, sig=lambda ln: "scenario")
            gm = ctx.run_model(gen_lines)
            ctx.compare("prbs-gen", gen_lines, gimpl, gm)
            ctx.traces += len(lines)
        ctx.sample({"op": lines[0][:100], "reply(sync errs bits state sc hc hp digest)": impl[0]})
        ctx.sample({"op": lines[-1][:60] + "...", "reply": impl[-1]})


PROP = C18()

"""C20 — the documented pipeline m17-mod | m17-demod -l reports the link and decodes audio."""
import math, os, re, struct, subprocess
from lib import core, m17spec as S
from lib.prop import Prop


class C20(Prop):
    pid = "C20"
    lean_targets = ["M17.Props.C20", "M17.Props.C03", "M17.Props.C20P"]
    theorems = ["M17.C20.type_report_voice", "M17.C20.type_report_total", "M17.C20.can_report", "M17.C20.voice_lsf_is_stream",
                "M17.C20.audio_bytes_multiple_of_640", "M17.C20.callsign_report", "M17.C03.lock_needs_decodable_frames",
                "M17.C20P.spec_callsign_eq", "M17.C20P.lsf_facts", "M17.C20P.type_bits", "M17.C20P.link_report"]
    level_text = ("PARTIAL proof. Lean 4 theorems for the decision logic of the receiver's link report, for ALL inputs: the TYPE field the "
                  "transmitter builds for a voice stream with any CAN 0..15 (Spec.Tx.voiceType) is classified as a stream (never packet mode), is "
                  "printed as STR:V/V, and its CAN field prints the transmitter's CAN; the report is total over all 65536 TYPE values; the "
                  "callsigns printed are the decode of the encoded addresses, which by C17's round-trip theorem are the transmitter's; the audio "
                  "written is 640 bytes per delivered stream frame. These are composed into ONE statement, link_report (M17.Props.C20P): for every source and "
                  "destination callsign over the M17 alphabet (1-9 characters, destination possibly absent), every CAN 0..15, every META content, "
                  "every decoder state and every clean soft image (magnitudes 1..7) of the link setup frame the specification transmitter builds "
                  "(Spec.Tx.lsfFrameBits of lsfBytes — what m17-mod emits, C13), the decoder model reports that LSF (result OK, stream mode) and "
                  "the fields m17-demod prints are SRC = source, DEST = destination or BROADCAST, STR:V/V, CAN = can, with no packet-mode "
                  "diagnostic (uses spec_callsign_eq: the specification address equals encode_callsign's). Everything else the property names is process behaviour that no theorem here "
                  "exhibits (option parsing, int16 I/O loops, exit status, the demodulator's acquisition): it is decided by running the two "
                  "built programs, m17-mod piped into m17-demod -l, over callsigns x CAN x polarity x leading noise x audio, and checking "
                  "stderr fields, stdout length, EOS flag and both exit statuses.")
    design_ref = "DESIGN.md §5 C20"
    level_note = ("Trusted: Lean kernel; the hand-written model of dump_type/dump_lsf's classification (M17/Model/App.lean) tied to the code by the "
                  "app_lsf correspondence stream; g++ builds of the two applications with the Blaze stand-in; codec2 library as installed. "
                  "Axioms: propext, Classical.choice, Quot.sound only.")
    technique = "Lean 4 proof (decision logic of the link report for all TYPE/CAN values, callsign report via the C17 round trip) + correspondence of the report model with apps/m17-demod.cpp + process-level runs of the built m17-mod | m17-demod pipeline"
    rule = ("report model: random and boundary 30-byte LSFs through dump_lsf vs the model's report string; pipeline: callsigns over the M17 alphabet "
            "(lengths 1..9, with and without destination), CAN 0..15, -i on both or neither, with/without leading noise, audio {noise, tone, silence, "
            "loud square} of 20..30 s; distinct = distinct (src,dst,can,polarity,lead,audio kind); non-trivial = all")

    def setup_drivers(self):
        return list(self.programs()) + [self.impl_driver(None)]

    def programs(self, san=False):
        fl = None if san else core.FAST_FLAGS
        mod = core.build_cpp("m17-mod-san" if san else "m17-mod", ["m17mod_main.cpp"], flags=fl, libs=["-lcodec2", "-lboost_program_options"])
        dem = core.build_cpp("m17-demod-san" if san else "m17-demod", ["m17demod_main.cpp"], flags=fl, libs=["-lcodec2", "-lboost_program_options"], deps=["shim/blaze/Math.h"])
        return mod, dem

    def impl_driver(self, ctx):
        from lib import demodlib
        return demodlib.drivers()[0]

    # ---- report model vs dump_lsf ---------------------------------------------------------------
    def report(self, ctx):
        rng = ctx.rng
        exe = self.impl_driver(ctx)
        lines = []
        for _ in range(400 if ctx.tier == "quick" else 6000):
            lsf = bytearray(S.make_lsf(dst="".join(rng.choice(S.ALPH[1:]) for _ in range(rng.randrange(0, 10))),
                                       src="".join(rng.choice(S.ALPH[1:]) for _ in range(rng.randrange(1, 10))),
                                       typ=rng.randrange(65536) if rng.random() < 0.5 else (5 | (rng.randrange(16) << 7)),
                                       meta=bytes(rng.randrange(256) for _ in range(14))))
            if rng.random() < 0.1:
                lsf = bytearray(rng.randrange(256) for _ in range(30))
            lines.append("app_lsf 1 " + " ".join(map(str, lsf)))
        impl = ctx.run_impl(exe, lines, "report")
        model = ctx.run_model(lines)

        def canon(ln, rep):
            return rep.replace("\\n", " ").strip()

        def oracle(ln, rep):
            b = [int(x) for x in ln.split()[2:]]
            typ = (b[12] << 8) | b[13]
            if typ & 1 and ("reserved packet type" in rep or ", PKT:" in rep):      # (the field `PKT:`, not the letters: a callsign may read FGPKT)
                return "packet-mode diagnostics for a stream TYPE"
            if typ & 1 and (typ >> 1) & 3 == 2 and "STR:V/V" not in rep:
                return "voice stream not reported as STR:V/V"
            m = re.search(r"CAN:(\d+)", rep)
            if not m or int(m.group(1)) != (typ >> 7) & 15:
                return f"CAN printed {m.group(1) if m else None}, TYPE field carries {(typ >> 7) & 15}"
            return None
        for ln, a in zip(lines, impl):
            ctx.count(ln, nontrivial=True)
            if a.startswith("<"):
                continue
            bad = oracle(ln, a)
            if bad:
                ctx.violate("report:" + bad.split(",")[0][:40], f"m17-demod link report: {bad} on `{ln}` -> {a[:200]}", {"stream": "report", "ops": [ln], "impl": a})
        ctx.compare("report", lines, impl, model, canon=canon, oracle=oracle, sig=lambda ln: "report")
        ctx.stat("report:lsfs", len(lines))
        ctx.sample({"op": lines[0][:100], "impl": impl[0][:160], "model": model[0][:160]})

    # ---- the pipeline ----------------------------------------------------------------------------
    def pipeline(self, ctx, mod, dem, cases, tag):
        rng = ctx.rng
        tmpd = os.path.join(core.BUILD, "tmp")
        for (src, dst, can, inv, lead, akind, secs) in cases:
            n = int(8000 * secs)
            if akind == "noise":
                audio = [rng.randrange(-8000, 8000) for _ in range(n)]
            elif akind == "tone":
                audio = [int(9000 * math.sin(i * 0.31)) for i in range(n)]
            elif akind == "silence":
                audio = [0] * n
            else:
                audio = [(30000 if (i // 40) % 2 else -30000) for i in range(n)]
            raw = b"".join(struct.pack("<h", x) for x in audio)
            cmd_m = [mod, "-S", src, "-C", str(can)] + (["-D", dst] if dst else []) + (["-i"] if inv else [])
            pm = subprocess.run(cmd_m, input=raw, stdout=subprocess.PIPE, stderr=subprocess.PIPE, timeout=600, env=core.san_env())
            bb = pm.stdout
            lead_info = None
            if lead:
                if isinstance(lead, dict):
                    k, sig, lseed = lead["samples"], lead["sigma_int16"], lead["seed"]
                else:
                    k = rng.choice([2400, 48000, 96000, rng.randrange(1000, 100000), rng.randrange(1000, 100000)])
                    sig = rng.choice([30, 300, 3000])
                    lseed = rng.randrange(10 ** 6)
                lr = __import__("random").Random(lseed)
                lead_info = {"samples": k, "sigma_int16": sig, "seed": lseed, "how": "random.Random(seed).gauss(0, sigma) per sample, clipped to int16, little endian, in front of the baseband"}
                bb = b"".join(struct.pack("<h", max(-32768, min(32767, int(lr.gauss(0, sig))))) for _ in range(k)) + bb
            cmd_d = [dem, "-l"] + (["-i"] if inv else [])
            pd = subprocess.run(cmd_d, input=bb, stdout=subprocess.PIPE, stderr=subprocess.PIPE, timeout=600, env=core.san_env())
            err = pd.stderr.decode(errors="replace")
            key = (src, dst, can, inv, str(lead), akind, secs, tag)
            ctx.count(key, nontrivial=True)
            ctx.stat(f"pipeline[{tag}]:runs")
            frames_tx = (len(audio) + 319) // 320 + 1          # audio blocks + end-of-stream frame
            probs = []
            if pm.returncode != 0:
                probs.append(f"m17-mod exit status {pm.returncode}")
            if pd.returncode != 0:
                probs.append(f"m17-demod exit status {pd.returncode}: {core.first_err_line(err)}")
            m = re.search(r"SRC: ([^,]*), DEST: ([^,]*), (\S+) CAN:(\d+)", err)
            if not m:
                probs.append("no link report (SRC/DEST/type/CAN) on stderr")
            else:
                if m.group(1) != src:
                    probs.append(f"SRC printed `{m.group(1)}`, transmitter was given `{src}`")
                if dst and m.group(2) != dst:
                    probs.append(f"DEST printed `{m.group(2)}`, transmitter was given `{dst}`")
                if m.group(3) != "STR:V/V":
                    probs.append(f"type printed `{m.group(3)}` for a voice stream")
                if int(m.group(4)) != can:
                    probs.append(f"CAN printed {m.group(4)}, transmitter was given {can}")
            for mm in re.finditer(r"SRC: ([^,]*), DEST: ([^,]*), (\S+) CAN:(\d+)", err):
                if mm.group(1) != src or (dst and mm.group(2) != dst) or int(mm.group(4)) != can or mm.group(3) != "STR:V/V":
                    probs.append(f"contradicting link report `{mm.group(0)}`")
                    break
            for bad in ("reserved packet type", "Packet checksum", "Packet frame sequence", "PKT:"):
                if bad in err:
                    probs.append(f"packet-mode diagnostic `{bad}` for a voice stream")
            if len(pd.stdout) % 640 != 0:
                probs.append(f"audio output {len(pd.stdout)} bytes is not a whole number of 640-byte frames")
            if len(pd.stdout) // 640 < frames_tx - 400:
                probs.append(f"audio output covers {len(pd.stdout) // 640} of {frames_tx} frames (more than 400 missing)")
            if "EOS" not in err:
                probs.append("end of stream not flagged")
            ctx.stat(f"pipeline[{tag}]:frames-missing", max(0, frames_tx - len(pd.stdout) // 640))
            if probs and akind != "noise" and not pm.returncode and not pd.returncode and len(pd.stdout) % 640 == 0 and (not m or len(pd.stdout) // 640 < frames_tx - 400):
                # receiver deaf to a transmission whose voice payload repeats in every frame: is it the known open finding (false sync lock)?
                # differential diagnosis: same callsigns, CAN, polarity and lead-in with noise audio of the same length
                raw2 = b"".join(struct.pack("<h", rng.randrange(-8000, 8000)) for _ in range(n))
                bb2 = subprocess.run(cmd_m, input=raw2, stdout=subprocess.PIPE, stderr=subprocess.PIPE, timeout=600, env=core.san_env()).stdout
                if lead_info:
                    lr = __import__("random").Random(lead_info["seed"])
                    bb2 = b"".join(struct.pack("<h", max(-32768, min(32767, int(lr.gauss(0, lead_info["sigma_int16"]))))) for _ in range(lead_info["samples"])) + bb2
                pd2 = subprocess.run(cmd_d, input=bb2, stdout=subprocess.PIPE, stderr=subprocess.PIPE, timeout=600, env=core.san_env())
                e2 = pd2.stderr.decode(errors="replace")
                if pd2.returncode == 0 and f"SRC: {src}," in e2 and "EOS" in e2 and len(pd2.stdout) // 640 >= frames_tx - 400:
                    bbp = os.path.join(core.VERIF, "evidence", "replay", f"C20-{abs(hash(key)) % 10**8}.audio.raw")
                    os.makedirs(os.path.dirname(bbp), exist_ok=True)
                    open(bbp, "wb").write(raw)
                    ctx.stat("pipeline:known-finding-false-sync-lock")
                    ctx.violate("pipeline:false-sync-lock:repeating-payload",
                                f"m17-mod {' '.join(cmd_m[1:])} | m17-demod {' '.join(cmd_d[1:])} ({akind} audio, {secs} s): " + "; ".join(probs[:3]) + " — while noise audio with the same parameters is received",
                                {"stream": "pipeline", "mod_cmd": cmd_m, "demod_cmd": cmd_d, "audio_file": bbp, "lead": lead_info, "problems": probs})
                    probs = []
            if probs:
                sig = "pipeline:" + re.sub(r"[^a-z]+", "-", probs[0].lower())[:40]
                bbp = os.path.join(core.VERIF, "evidence", "replay", f"C20-{abs(hash(key)) % 10**8}.audio.raw")
                os.makedirs(os.path.dirname(bbp), exist_ok=True)
                open(bbp, "wb").write(raw)
                ctx.violate(sig, f"m17-mod {' '.join(cmd_m[1:])} | m17-demod {' '.join(cmd_d[1:])} ({akind} audio, {secs} s, leading noise {lead}): " + "; ".join(probs[:3]),
                            {"stream": "pipeline", "mod_cmd": cmd_m, "demod_cmd": cmd_d, "audio_file": bbp, "lead": lead_info, "problems": probs,
                             "stderr_tail": err[-1500:], "how": "m17-mod < audio_file | m17-demod -l"})
        return

    def run(self, ctx):
        rng = ctx.rng
        quick = ctx.tier == "quick"
        self.report(ctx)
        mod, dem = self.programs()
        alph = S.ALPH[1:]
        cases = []
        for k in range(6 if quick else 60):
            src = "".join(rng.choice(alph) for _ in range(rng.randrange(1, 10)))
            dst = "" if k % 5 == 4 else "".join(rng.choice(alph) for _ in range(rng.randrange(1, 10)))
            cases.append((src, dst, rng.randrange(16), k % 2, (k // 2) % 2, rng.choice(["noise", "tone", "silence", "square"]), rng.choice([20, 20.013, 24, 30])))
        # corpus first: witness of the open finding pipeline:false-sync-lock:repeating-payload (found by search on /repo 489c813)
        self.pipeline(ctx, mod, dem, [("2F", "YF03", 11, 0, {"samples": 48000, "sigma_int16": 30, "seed": 381536}, "square", 20)], "corpus")
        self.pipeline(ctx, mod, dem, cases, "release")
        # input-length alignment: the same 20 s transmission (the property speaks of audio of at least 20 s: a 3 s one, used at first, can end
        # before a receiver that entered badly has recovered - false alarm at seed 7) behind leading noise of every length class modulo the block sizes the programs
        # might read or process in (steps of 32 samples over 384): link report, end-of-stream flag and whole frames must not depend on it
        src = "".join(rng.choice(alph) for _ in range(rng.randrange(1, 10)))
        base = rng.randrange(700, 1100)         # short enough that the receiver is ready for the link setup FRAME itself (not only the LICH)
        cans = list(range(16)); rng.shuffle(cans)
        align = [(src, "", cans[j % 16], j % 2, {"samples": base + 32 * j, "sigma_int16": 30, "seed": rng.randrange(10 ** 6)}, "noise", 20) for j in range(12 if quick else 48)]
        self.pipeline(ctx, mod, dem, align, "alignment")
        self.cli_rejections(ctx, mod, dem)
        if not quick:
            mods, dems = self.programs(san=True)
            self.pipeline(ctx, mods, dems, cases[:6], "sanitized")
            self.cli_rejections(ctx, mods, dems)

    def cli_rejections(self, ctx, mod, dem):
        """the argument checks of both programs (the property speaks of VALID callsigns and CAN 0..15): identifiers longer than 9 characters,
        CAN outside 0..15, contradictory verbosity flags, a missing source, --help / --version - each must end the program by itself (no crash,
        no signal, no hang) without emitting a transmission"""
        audio = b"\x00\x01" * 4000
        runs = [(mod, ["-S", "ABCDEFGHIJ"]), (mod, ["-S", "AB1CD", "-D", "ABCDEFGHIJK"]), (mod, ["-S", "AB1CD", "-C", "16"]), (mod, ["-S", "AB1CD", "-C", "-1"]),
                (mod, ["-S", "AB1CD", "-q", "-v"]), (mod, []), (mod, ["--help"]), (mod, ["--version"]),
                (dem, ["-q", "-v"]), (dem, ["-d", "-v"]), (dem, ["--help"]), (dem, ["--version"])]
        for exe, args in runs:
            name = "m17-mod" if exe == mod else "m17-demod"
            ctx.count(("cli", name, tuple(args)), nontrivial=True)
            ctx.stat("cli:" + name)
            try:
                p = subprocess.run([exe] + args, input=audio, stdout=subprocess.PIPE, stderr=subprocess.PIPE, timeout=60, env=core.san_env())
                rc, out, err = p.returncode, p.stdout, p.stderr.decode(errors="replace")
            except subprocess.TimeoutExpired:
                rc, out, err = -999, b"", "TIMEOUT"
            bad = None
            if rc == -999:
                bad = "did not exit within 60 s"
            elif rc < 0 or rc > 1:
                bad = f"ended with status {rc}: {core.first_err_line(err)}"
            elif len(out) > 4000 and b"options" not in out[:400]:
                bad = f"wrote {len(out)} bytes of output although its arguments are invalid"
            if bad:
                ctx.violate(f"cli:{name}:{'-'.join(a.strip('-') for a in args)[:30]}", f"{name} {' '.join(args)}: {bad}",
                            {"stream": "cli", "cmd": [exe] + args, "stdin": "4000 int16 samples 0x0100", "stderr_tail": err[-600:]})


PROP = C20()

"""C06 — acquisition: no input history leaves the receiver deaf to a clean transmission."""
import struct, math
from lib import core, demodlib
from lib.prop import Prop


def bits(x):
    return struct.unpack("<I", struct.pack("<f", x))[0]


def val(b):
    return struct.unpack("<f", struct.pack("<I", b))[0]


class C06(Prop):
    pid = "C06"
    lean_targets = ["M17.Props.C06", "M17.Props.C03"]
    theorems = ["M17.C06.gen_thresholds", "M17.C06.update_sane", "M17.C06.dcd_no_nan_latch", "M17.C06.update_level_ge",
                "M17.C06.dcd_recovers", "M17.C06.run_level_ge", "M17.C06.dcd_recovers_within", "M17.C06.dcd_recovers_10_at_4_5", "M17.C06.dcd_holds", "M17.C06.unguarded_silence_is_nan", "M17.C06.unguarded_nan_latches",
                "M17.C03.coast_step", "M17.C03.coasting_bounded", "M17.C03.lock_needs_decodable_frames"]
    level_text = ("PARTIAL proof. Lean 4 theorems about the carrier detector's update (model M17/Model/Dcd.lean, thresholds regenerated from "
                  "the current header), in exact arithmetic extended with the IEEE special values: for ALL histories of finite non-negative band "
                  "energies — exact digital silence (0/0) included — the averaged level stays a finite number (dcd_no_nan_latch, induction over "
                  "the history); whatever finite level the history left and whether or not unlock() was called, four consecutive updates with "
                  "in-band/out-of-band ratio >= 8 assert carrier detect (dcd_recovers), and in general n blocks of ratio >= r do as soon as (4/5)^n r < r - htrigger (dcd_recovers_within, induction over the blocks; 10 blocks at the measured worst-case ratio 4.5); it then holds while the ratio exceeds the low threshold; "
                  "and the two theorems that say what the guard is for (without it silence gives NaN and NaN latches for every later input). "
                  "The same update function is executed at binary32 (with the C++ expression's promotion to double) bit-for-bit against "
                  "DataCarrierDetect::update on random and boundary band energies. On the control skeleton of the demodulator (M17/Model/Demod.lean, tied to the code by C03's trace inclusion): coasting is "
                  "bounded (coasting_bounded, for all event sequences) — without a sync word at most MAX_MISSING_SYNC further frames are delivered before "
                  "the sync state machine gives up and searches afresh, so misaligned frames that merely decode below the cost limit cannot hold it for ever — and a sync word confirms "
                  "the lock only when frames decode (lock_needs_decodable_frames): a sync-like data pattern recurring in every frame of a transmission with a "
                  "repeating payload cannot keep it locked to frames it cannot decode. "
                  "NOT proved: that a clean transmission produces ratio >= 4.5 on every block "
                  "(measured on every run and recorded), and the sync search / clock acquisition that follow carrier detect (floating-point "
                  "correlator, Kalman filters): these are explored end to end — lead-in histories x channel envelope x clean transmissions "
                  "through the real demodulator, oracle = steady reception (8 consecutive bit-exact frames) within 400 frames.")
    design_ref = "DESIGN.md §5 C06"
    level_note = ("Trusted: Lean kernel; Ext (rationals + NaN/+-inf) as an abstraction of IEEE arithmetic without rounding; dump_tables.cpp for "
                  "the thresholds; Blaze stand-in; the C++ transmitter as the source of clean transmissions (itself checked by C13). "
                  "Axioms: propext, Classical.choice, Quot.sound only.")
    technique = "Lean 4 proof (invariant by induction over all band-energy histories, exact rational arithmetic with IEEE specials) + bit-exact binary32 correspondence of the detector update + end-to-end exploration of lead-in histories through the real demodulator"
    rule = ("detector: sequences of (level_1, level_2) binary32 patterns from {0, denormal, tiny, 1, large, random} with unlock() calls, from random "
            "start levels; end to end: lead-ins {none, exact zeros, gaussian/uniform noise sigma 0..0.5, constants, tone, an earlier complete or "
            "truncated transmission with zero or noise gap} x gain 0.3..3.5, dc +-0.03, noise, sub-sample delay, +-200 ppm x random payloads; "
            "non-trivial = lead-in of at least 100 samples; distinct = distinct parameter tuples")

    def setup_drivers(self):
        return list(demodlib.drivers())

    def impl_driver(self, ctx):
        return demodlib.drivers()[0]

    # ------------------------------------------------------------------------------------------
    def detector(self, ctx, demod, quick):
        rng = ctx.rng
        pool = [0.0, 1e-45, 1e-38, 1e-30, 1e-10, 1e-3, 0.1, 1.0, 4.0, 8.0, 100.0, 1e10, 1e30, 3e38]
        lines = []
        for _ in range(200 if quick else 5000):
            lvl = rng.choice([0.0, 0.05, 0.1, 0.5, 3.9, 4.0, 4.1, 100.0, 1e30, rng.random() * 10])
            toks = [bits(lvl), rng.randrange(2)]
            for _ in range(rng.randrange(1, 40)):
                k = rng.random()
                if k < 0.08:
                    toks += [-1, 0]
                elif k < 0.3:
                    toks += [0, 0]
                elif k < 0.5:
                    toks += [bits(rng.choice(pool)), bits(rng.choice(pool))]
                elif k < 0.8:
                    b = rng.random() * rng.choice([1e-6, 1.0, 1e4])
                    toks += [bits(b * rng.choice([0.05, 0.1, 0.10000001, 1, 3.9, 4, 4.1, 8, 30])), bits(b)]
                else:
                    toks += [rng.randrange(0x7F800000), rng.randrange(0x7F800000)]
            lines.append("dcd_seq " + " ".join(map(str, toks)))
        impl = ctx.run_impl(demod, lines, "dcd")
        model = ctx.run_model(lines)

        def oracle(ln, rep):
            # finite non-negative energies in, NaN level out: the detector can never assert again (C06.unguarded_nan_latches)
            f = rep.split()
            if "-1" in f[0::2]:
                k = f[0::2].index("-1")
                return f"level is NaN after update #{k} on finite non-negative band energies: every later comparison is false, carrier detect is latched off"
            return None
        for ln, a in zip(lines, impl):
            ctx.count(ln, nontrivial=True)
            if a.startswith("<"):
                continue
            bad = oracle(ln, a)
            if bad:
                t = ln.split()
                k = a.split()[0::2].index("-1")
                short = " ".join(t[:3] + t[3 + 2 * k:5 + 2 * k]) if k > 0 else ln
                ctx.violate("dcd:nan-level", f"DataCarrierDetect: {bad} (`{ln[:100]}`)", {"stream": "dcd", "ops": [ln], "impl": a})
        ctx.compare("dcd", lines, impl, model, oracle=oracle, sig=lambda ln: "nan-level")
        ctx.stat("dcd:sequences", len(lines))
        ctx.sample({"op": lines[0][:120], "impl": impl[0][:120], "model": model[0][:120]})

    def random_payload_ok(self, ctx, demod, p, pre, tx_l, sent_l):
        ln, rep, rc, err = demodlib.run_rx(ctx, demod, p, pre + tx_l)
        if rc != 0:
            return False
        h, frames = demodlib.parse_frames(rep)
        res = demodlib.judge_delivery(sent_l, frames)
        return res["steady_frame"] is not None and res["steady_frame"] <= 400

    # ------------------------------------------------------------------------------------------
    def run(self, ctx):
        demod, mod = demodlib.drivers()
        rng = ctx.rng
        quick = ctx.tier == "quick"
        self.detector(ctx, demod, quick)
        # the skeleton theorems listed above (coasting_bounded, lock_needs_decodable_frames) speak about this code only through trace inclusion:
        # check it on this run too (same stage as C03: clean, damaged, sync-blanked and truncated-earlier-transmission receptions)
        from props.c03 import PROP as C03P
        C03P.traces(ctx, demod, mod, 6 if quick else 40)

        # clean transmissions
        nshort = 40
        audio_s = [rng.randrange(-8000, 8000) for _ in range(320 * nshort)]
        tx_s, _, _ = demodlib.transmission(ctx, mod, "W1AW", "N0CALL", 5, audio_s)
        sent_s = demodlib.sent_stream_payloads(ctx, mod, audio_s)
        nlong = 412
        audio_l = [rng.randrange(-8000, 8000) for _ in range(320 * nlong)]
        tx_l, _, _ = demodlib.transmission(ctx, mod, "AB1CDE", "", 11, audio_l)
        sent_l = demodlib.sent_stream_payloads(ctx, mod, audio_l)
        # transmissions whose codec2 payload repeats in every frame (silence, a loud square wave): only the frame number and the LICH differ
        # from frame to frame, so any data pattern that resembles a sync word recurs at the same place in every frame
        audio_c = [(30000 if (i // 40) % 2 else -30000) for i in range(320 * nlong)] if rng.random() < 0.6 else [0] * (320 * nlong)
        tx_c, _, _ = demodlib.transmission(ctx, mod, "".join(rng.choice(demodlib.S.ALPH[1:]) for _ in range(rng.randrange(1, 10))),
                                           "".join(rng.choice(demodlib.S.ALPH[1:]) for _ in range(rng.randrange(1, 10))), rng.randrange(16), audio_c)
        sent_c = demodlib.sent_stream_payloads(ctx, mod, audio_c)
        audio_p = [rng.randrange(-8000, 8000) for _ in range(320 * 12)]
        tx_p, _, _ = demodlib.transmission(ctx, mod, "K9XYZ", "W1AW", 0, audio_p)
        audio_q = [rng.randrange(-8000, 8000) for _ in range(320 * 70)]
        tx_q, _, _ = demodlib.transmission(ctx, mod, "K9XYZ", "", 9, audio_q)      # long enough for the receiver to be locked when it is cut

        # premise of dcd_recovers measured on the clean transmission: ratio of the band energies per detector block
        rep = ctx.run_impl(demod, ["dcd_ratio 384 " + " ".join(map(str, tx_s))], "dcd-ratio")[0].split()
        ratios = []
        for i in range(0, len(rep) - 1, 2):
            l1, l2 = val(int(rep[i])), val(int(rep[i + 1]))
            ratios.append(l1 / l2 if l2 > 0 else float("inf"))
        body = ratios[1:-12] if len(ratios) > 20 else ratios
        ctx.stat("dcd-ratio:blocks", len(body))
        ctx.notes.append(f"band-energy ratio over 384-sample blocks of a clean transmission at nominal level: min {min(body):.1f}, median {sorted(body)[len(body)//2]:.1f} "
                         f"(premise of dcd_recovers_10_at_4_5 is ratio >= 4.5 for ten consecutive blocks: {'met by every block' if min(body) >= 4.5 else 'NOT met by every block'}; "
                         f"premise of dcd_recovers, ratio >= 8 on four consecutive blocks: met at {sum(1 for i in range(len(body) - 3) if min(body[i:i + 4]) >= 8)} of {max(0, len(body) - 3)} positions)")

        # ---- corpus: the witness of the open finding runs first, on every run ----
        import gzip, os
        wit = os.path.join(core.VERIF, "corpus", "C06-false-sync-lock.ops.gz")
        if os.path.exists(wit):
            wl = [l for l in gzip.open(wit, "rt").read().split("\n") if l]
            out_w, rc_w, err_w = ctx.run_lines(demod, wl, timeout=600)
            ctx.count(("corpus", "C06-false-sync-lock"), nontrivial=True)
            ctx.stat("corpus:witness-runs")
            h, frames = demodlib.parse_frames(out_w[0] if out_w else "")
            # steady reception without knowing the payloads: eight consecutive stream frames with consecutive frame numbers and low cost
            run_ = best = 0
            prev_fn = None
            for f in frames:
                if f[0] != "S":
                    continue
                fn = ((f[2][0] << 8) | f[2][1]) & 0x7FFF
                run_ = run_ + 1 if (prev_fn is not None and fn == (prev_fn + 1) % 0x8000 and f[1] < 70) else 1
                best = max(best, run_)
                prev_fn = fn
            if rc_w != 0 or best < 8:
                ctx.violate("rx:false-sync-lock:repeating-payload",
                            f"corpus witness (100 zero samples, then a clean 412-frame square-wave transmission): longest run of consecutive good frames {best}",
                            {"stream": "rx", "ops_file": wit, "params": "corpus/C06-false-sync-lock.json"})

        def scenario(k):
            p = {"gain": rng.choice([300, 1000, 3500, rng.randrange(300, 3501)]), "dc": rng.randrange(-300, 301), "sigma": rng.choice([0, 0, 10, 50]),
                 "delay": rng.randrange(1000), "ppm": rng.randrange(-200, 201), "lead": 0, "leadn": 0, "level": 0, "seed": rng.randrange(10 ** 6), "app": 0}
            hist = rng.choice(["zeros", "zeros", "gauss", "uniform", "const", "tone", "prev", "prev-trunc", "prev-zero-gap", "none",
                               "locked-trunc-silence", "locked-trunc-silence", "locked-trunc-noise", "rekey", "rekey", "tone", "tone"])
            if k in (6, 7):
                hist = "tone"
            if k in (1, 2, 3, 4, 5):
                hist = "locked-trunc-silence"
            pre = []
            if hist == "zeros":
                p.update(lead=1, leadn=rng.choice([100, 384, 768, 1920, 5000, 48000, 200000]))
            elif hist == "gauss":
                p.update(lead=2, leadn=rng.choice([1000, 20000, 100000]), level=rng.choice([1, 10, 100, 1000, 3000, 5000]))
            elif hist == "uniform":
                p.update(lead=5, leadn=rng.choice([1000, 20000, 100000]), level=rng.choice([1, 100, 5000, 10000]))
            elif hist == "const":
                p.update(lead=3, leadn=rng.choice([1000, 20000]), level=rng.choice([1, 100, 5000, 10000, -5000]))
            elif hist == "tone":
                # 1 kHz, or exactly periodic tones at the carrier detector's own frequencies (2400 in band, 3600 out of band) and others
                p.update(lead=6 if k in (6, 7) else rng.choice([4, 6, 6, 7, 8, 9]), leadn=rng.choice([1000, 20000, 96000, 96013, 96027, 100000]) if k not in (6, 7) else rng.choice([96000, 96013, 96027, 96040 + k]),
                         level=10000 if k in (6, 7) else rng.choice([100, 5000, 10000, 10000]))
                if k in (6, 7):
                    p.update(gain=1000, dc=0, sigma=0)
                if rng.random() < 0.5:
                    pre = [0] * rng.choice([100, 4800, 48000])         # silence between the tone and the transmission
            elif hist.startswith("prev"):
                prev = list(tx_p)
                if hist == "prev-trunc":
                    prev = prev[:rng.randrange(3000, len(prev))]
                gap = rng.choice([0, 100, 960, 4800, 48000])
                pre = prev + [0] * gap
                if hist == "prev-zero-gap":
                    # exact digital silence between transmissions: no dc, no noise
                    p.update(dc=0, sigma=0)
                    pre = prev + [0] * rng.choice([4800, 48000, 200000])
            if hist == "rekey":
                # a complete transmission (received to its end-of-stream), then the next one keyed up almost at once
                pre = list(tx_q) + [0] * rng.choice([0, 1, 7, 100, 180, 240, 300, 480, 960, 1919, rng.randrange(0, 4000)])
                if rng.random() < 0.5:
                    p.update(dc=0, sigma=0)
            if hist.startswith("locked-trunc"):
                # the earlier transmission is cut while it is being received; then silence (exact zeros) or noise; then the new transmission
                cut = rng.randrange(70000, len(tx_q) - 3000)
                gap = rng.choice([500, 960, 1000, 1920, 4805, 10000, 48137, rng.randrange(100, 60000)])
                pre = tx_q[:cut] + [0] * gap
                if hist == "locked-trunc-silence":
                    p.update(dc=0, sigma=0)
                else:
                    p.update(sigma=rng.choice([10, 50, 200]))
            if hist == "zeros" and rng.random() < 0.5:
                p.update(lead=1)
            return hist, p, pre

        n = 28 if quick else 400
        fails = 0
        sweep = []
        cut0 = rng.randrange(90000, 110000)
        for g in range(40 if quick else 400):
            # sweep of the silence length after a transmission cut while it was being received: the old frame timing keeps running,
            # what matters is how the new transmission falls relative to it
            p = {"gain": rng.choice([1000, 1000, 300, 3500]), "dc": 0, "sigma": 0, "delay": rng.randrange(1000), "ppm": rng.choice([0, 0, 50, -120]),
                 "lead": 0, "leadn": 0, "level": 0, "seed": rng.randrange(10 ** 6), "app": 0}
            sweep.append(("locked-trunc-silence-sweep", p, tx_q[:cut0 + 17 * g] + [0] * rng.randrange(100, 20000)))
        for k in range(n + len(sweep)):
            hist, p, pre = scenario(k) if k < n else sweep[k - n]
            long_ = (k % 8 == 0)
            tx, sent = (tx_l, sent_l) if long_ else (tx_s, sent_s)
            const_ = (k % 4 == 3) or (k >= n and k % 2 == 0)
            if const_:
                long_, tx, sent = True, tx_c, sent_c
                hist = hist + "+repeating-payload"
            ln, rep, rc, err = demodlib.run_rx(ctx, demod, p, pre + tx)
            key = (hist, tuple(sorted(p.items())), len(pre), long_)
            ctx.count(key, nontrivial=(p["leadn"] + len(pre) >= 100))
            ctx.stat("history:" + hist)
            if rc != 0:
                ctx.violate(f"rx:abort:{core.first_frame(err)}", f"demodulator aborted on history {hist}: {core.first_err_line(err)}",
                            {"stream": "rx", "params": p, "history": hist, "stderr": err[-2000:]})
                continue
            h, frames = demodlib.parse_frames(rep)
            res = demodlib.judge_delivery(sent, frames)
            ok = res["steady_frame"] is not None and res["steady_frame"] <= 400
            if not ok and not long_:
                # a short transmission ended before steady reception: decide on the 412-frame transmission with the same history and channel
                ln, rep, rc, err = demodlib.run_rx(ctx, demod, p, pre + tx_l)
                h, frames = demodlib.parse_frames(rep)
                res = demodlib.judge_delivery(sent_l, frames)
                sent = sent_l
                ok = res["steady_frame"] is not None and res["steady_frame"] <= 400
                ctx.stat("rx:re-decided-on-long-transmission")
            if ok:
                ctx.stat("rx:steady-reception-reached")
                ctx.stat("rx:frames-before-steady", res["steady_frame"])
            elif const_ and self.random_payload_ok(ctx, demod, p, pre, tx_l, sent_l):
                # differential diagnosis: the same history and channel with a transmission whose payload does NOT repeat is received.
                # What fails is the known open finding (known_findings.json): frames of a constant-payload transmission contain, at fixed
                # offsets, data patterns that resemble sync words; after a late entry the sync search takes the first one it meets,
                # deterministically, again after every recycle.
                fails += 1
                ctx.stat("rx:known-finding-false-sync-lock")
                ctx.violate("rx:false-sync-lock:repeating-payload",
                            f"after history `{hist}` a clean 412-frame transmission with a repeating voice payload is not received ({res['delivered']} frames delivered) "
                            f"while the same history and channel with a non-repeating payload is",
                            {"stream": "rx", "history": hist, "params": p, "pre_samples": len(pre), "ops_file": demodlib.save_ops([ln])})
            else:
                fails += 1
                dcd_ever = h[5] if h else 0
                ctx.violate(f"rx:deaf:{hist.split('+')[0]}" + ("+repeating-payload" if const_ else ""),
                            f"after history `{hist}` ({p['leadn'] + len(pre)} samples) a clean 412-frame transmission (gain {p['gain']/1000}, dc {p['dc']/1e4}, sigma {p['sigma']/1e4}, "
                            f"{p['ppm']} ppm) never reaches steady reception: {res['delivered']} stream frames delivered, carrier detect asserted on {dcd_ever} samples",
                            {"stream": "rx", "history": hist, "params": p, "pre_samples": len(pre), "op_head": ln[:160] + " ...",
                             "ops_file": demodlib.save_ops([ln]), "expected": "steady reception (8 consecutive bit-exact frames) within 400 frames",
                             "sent_payloads_head": sent[:3]})
        ctx.sample({"scenarios": n, "no-steady-reception": fails})


PROP = C06()

"""C05 — link setup is reported only if CRC-valid, and is rebuilt exactly from LICH."""
from lib import core, decgen, deccheck, m17spec as S
from lib.prop import Prop


class C05(Prop):
    pid = "C05"
    lean_targets = ["M17.Props.C05", "M17.Props.C05S"]
    theorems = ["M17.C05.crcOf_is_m17_crc", "M17.C05.lsf_callback_crc_valid_step", "M17.C05.lsf_callback_crc_valid",
                "M17.C05.stale_mask_harmless", "M17.C05.slot_setSlot", "M17.C05.setSlot_completes", "M17.C05.out_of_range_inert",
                "M17.C05.lich_reassembly_exact", "M17.C05.lich_incomplete", "M17.C05.unpack_lich_correct",
                "M17.C05S.mask_ok", "M17.C05S.step_fragment", "M17.C05S.run_incomplete", "M17.C05S.late_entry"]
    level_text = ("Lean 4 theorems about the modelled decoder: for EVERY history of frames and every initial state (also one left by reset() "
                  "with a stale LICH mask) each link-setup callback carries 30 bytes whose M17 CRC-16 is zero (both emission sites are guarded; "
                  "the check value is the M17 CRC by C09); storing a fragment changes exactly its slot; when the six held slots equal an LSF with "
                  "valid CRC that LSF is reported bit-exact in that very step (OK, stream mode, collection cleared), otherwise only the fragment "
                  "is reported; fragment numbers 6/7 leave state untouched; four Golay words with up to three errors each (parity bit included, "
                  "via C04) unpack to the transmitted six bytes. Composition over whole received frames (M17.Props.C05S, using C01F.lich_roundtrip): "
                  "late_entry — from a decoder waiting for link setup with nothing collected, after ANY sequence of clean specification-encoded "
                  "stream frames of one transmission (fragments in any order, any repetitions, any payloads, soft magnitudes 1..7) that leaves one "
                  "position missing, the frame carrying that position reports the LSF bit-exact, returns OK, clears the collection and enters "
                  "stream mode; run_incomplete — until then the collected state is exactly the positions seen and only LICH callbacks occur "
                  "(induction over the frame list; mask arithmetic by kernel evaluation of all 256x6 cases). C++ decoder compared with the model on fragment histories of two interleaved "
                  "LSFs with 0-4 errors per Golay word, out-of-range numbers, LSF-sync frames valid/corrupt/near-miss CRC, garbage; independent "
                  "python tracker predicts when a report must happen.")
    design_ref = "DESIGN.md §5 C05"
    level_note = ("Trusted: Lean kernel; hand translation M17/Model/Decoder.lean validated by the correspondence stream. "
                  "Axioms: propext, Classical.choice, Quot.sound only.")
    technique = "Lean 4 proof (invariant over histories by induction; list lemmas for slot assembly; Golay theorem reused) + differential correspondence"
    rule = ("histories of length 8..40 over {fragments 0..5 of LSF A or B, fragment numbers 6/7, LSF-sync frames (valid A/B, bad CRC, near-miss CRC "
            "residue 0x??00/0x00??/single bit), stream payload, garbage}; each Golay word hit by 0..4 errors at chosen positions incl. the parity "
            "bit; oracle 1: CRC of every reported LSF; oracle 2: tracker of held slots => 'all six from one LSF => reported now, bit-exact'; "
            "distinct = distinct (history, position); non-trivial = history contains fragments of both LSFs")

    def run(self, ctx):
        exe = self.impl_driver(ctx)
        rng = ctx.rng
        quick = ctx.tier == "quick"
        nhist = 60 if quick else 1500
        lines, metas = [], []
        for h in range(nhist):
            g = decgen.Gen(rng)
            A = g.rand_lsf(0x0005); B = g.rand_lsf(0x0005)
            lines.append("dec_new"); metas.append(None)
            # tracker mirrors the documented collection: slots since the last clear
            # half of the histories are built around a complete collection: a shuffled pass over all six positions of A,
            # with repeats, out-of-range numbers and (for some) fragments of B mixed in before it completes
            plan = []
            if h % 2 == 0:
                order = list(range(6)); rng.shuffle(order)
                for n_ in order:
                    plan.append(("A", n_))
                    if rng.random() < 0.3:
                        plan.append(("A", rng.choice(order)))
                    if rng.random() < 0.15:
                        plan.append(("A", rng.choice([6, 7])))
                    if h % 4 == 0 and rng.random() < 0.2:
                        plan.append(("B", rng.randrange(6)))
            nsteps = max(len(plan), rng.randrange(8, 41))
            for t in range(nsteps):
                r = rng.random()
                m = {"kind": "frag"}
                if t < len(plan) or r < 0.70:
                    if t < len(plan):
                        which, n = plan[t]
                    else:
                        which = rng.choice("AAB") if h % 3 else "A"
                        n = rng.choice([0, 1, 2, 3, 4, 5]) if rng.random() < 0.9 else rng.choice([6, 7])
                    lsf = A if which == "A" else B
                    errs = []
                    maxw = 0
                    for _ in range(4):
                        w = rng.choice([0, 0, 1, 2, 3, 3, 3] + ([4] if t >= len(plan) else [])) if rng.random() < 0.6 else 0
                        pos = rng.sample(range(24), w)
                        if pos and rng.random() < 0.5:
                            pos[0] = 0
                        e = sum(1 << p for p in set(pos))
                        errs.append(e)
                        maxw = max(maxw, bin(e).count("1"))
                    bits = S.stream_frame_bits(lsf, n, t, bytes(rng.randrange(256) for _ in range(16)), errs)
                    v = S.soft(bits, g.mags())
                    m.update({"which": which, "n": n, "maxw": maxw, "lsf": list(lsf)})
                    lines.append("dec_frame 1 1 " + " ".join(map(str, v)))
                elif r < 0.85:
                    k = rng.choice(["lsf_data", "lsf_badcrc", "lsf_nearcrc", "lsf_nearcrc"])
                    ln, mm = g.line(k, clean=rng.random() < 0.7)
                    m = mm
                    lines.append(ln)
                else:
                    ln, mm = g.line("garbage")
                    m = mm
                    lines.append(ln)
                metas.append(m)
        # another CRC16<> instantiation (m17-demod's packet CRC polynomial) is used first in the same process: the decoder's M17 CRC gate
        # must not depend on it
        lines.insert(0, "crc_other 0 49 50 51 52 53 54 55 56 57"); metas.insert(0, None)
        impl = ctx.run_impl(exe, lines, "dec-lich")
        nlsf = deccheck.lsf_crc_oracle(ctx, lines, metas, impl, self.pid)
        ctx.stat("lsf-callbacks", nlsf)
        # tracker oracle
        held = {}
        mode = 0
        for ln, m, a in zip(lines, metas, impl):
            if m is None:
                held = {}; mode = 0
                continue
            ctx.count(ln, nontrivial=True)
            r = decgen.parse_reply(a)
            if not r:
                continue
            if m.get("kind") == "frag" and mode == 0:
                ctx.stat(f"frag:maxw{m['maxw']}:n{m['n']}")
                if m["maxw"] <= 3:
                    # must be accepted: LICH callback with exactly the fragment bytes
                    want = m["lsf"][5 * (m["n"] % 6):5 * (m["n"] % 6) + 5] + [(m["n"] & 7) << 5]
                    lich = [c for c in r["calls"] if c["type"] == 1]
                    if not lich or lich[0]["bytes"] != want:
                        cls = "parity" if False else "w<=3"
                        ctx.violate("dec-lich:fragment-dropped", f"LICH fragment {m['n']} whose Golay words carry <= {m['maxw']} errors each was not delivered bit-exact (result {deccheck.RES[r['result']]})",
                                    {"stream": "dec-lich", "ops": deccheck.history(lines, ln), "impl": a})
                    if m["n"] <= 5:
                        held[m["n"]] = (m["which"], m["lsf"])
                    else:
                        pass   # out of range: must not change anything (checked through model equality and mask below)
                    srcs = {w for w, _ in held.values()}
                    if len(held) == 6 and len(srcs) == 1 and m["n"] <= 5:
                        lsfs = [c for c in r["calls"] if c["type"] == 0]
                        if not lsfs or lsfs[0]["bytes"] != m["lsf"] or r["result"] != 1 or r["mode"] != 1:
                            ctx.violate("dec-lich:reassembly", "all six LICH positions hold fragments of one LSF but it was not reported bit-exact at the arrival of the last one",
                                        {"stream": "dec-lich", "ops": deccheck.history(lines, ln), "impl": a})
                        ctx.stat("reassembly:complete")
                else:
                    # a word with 4 errors is rejected; with more it may alias: whatever happened, follow the implementation's mask
                    if r["result"] != 0 and m["n"] <= 5 and any(c["type"] == 1 for c in r["calls"]):
                        held[(r["calls"][0]["bytes"][5] >> 5) & 7] = ("?", None)
            if m.get("kind") != "frag" and mode == 0 and m.get("sync", 1) == 1 and any(c["type"] == 1 for c in r["calls"]):
                # a stream-sync frame of unknown content (garbage LLRs, a corrupted LSF frame kind sent under stream sync, ...) was accepted as a
                # LICH fragment (random Golay words are within distance 3 of a code word more often than not): its slot now holds unknown bytes
                fnx = (next(c for c in r["calls"] if c["type"] == 1)["bytes"][5] >> 5) & 7
                if fnx <= 5:
                    held[fnx] = ("?", None)
            # clears: LSF-sync failure, successful reassembly
            if m.get("sync", 1) == 0 and r["result"] == 0:
                held = {}
            if any(c["type"] == 0 for c in r["calls"]) and m.get("sync", 1) == 1:
                held = {}
            if m.get("sync", 1) == 0 and r["result"] == 1:
                # a valid LSF overwrote the whole buffer; the mask is not cleared by the code: positions keep being 'held' with new content
                src = ("L", m.get("lsf"))
                held = {k: src for k in held}
            mode = r["mode"]
        if ctx.model_ok:
            model = ctx.run_model(lines)
            ctx.compare("dec-lich", lines, impl, model, oracle=lambda ln, a: None, sig=lambda ln: "step")
            ctx.traces += nhist
        i = next(i for i, m in enumerate(metas) if m and m.get("kind") == "frag")
        ctx.sample({"frame": {k: v for k, v in metas[i].items() if k != "lsf"}, "reply": impl[i][:120]})


PROP = C05()

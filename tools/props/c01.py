"""C01 — clean-channel round trip: every encoded frame decodes to the exact payload."""
from lib import core, decgen, deccheck, m17spec as S
from lib.prop import Prop


def rdiv(x, l):
    return (2 * x + l) // (2 * l)


class C01(Prop):
    pid = "C01"
    lean_targets = ["M17.Props.C01", "M17.Props.C01F", "M17.Props.C01G", "M17.Props.C13T", "M17.Props.C14T"]
    theorems = ["M17.C01.any_path_ge_base", "M17.C01.sent_path_eq_base", "M17.C01.other_path_gt", "M17.C01.viterbi_clean_exact",
                "M17.C01.geometries_no_double_erasure",
                "M17.C01F.dc_bridge", "M17.C01F.condition_image", "M17.C01F.punct_eq", "M17.C01F.geometries_noDouble",
                "M17.C01F.depunct_consistent", "M17.C01F.fec_clean", "M17.C01F.pack_bitsOfBytes",
                "M17.C01F.lsf_roundtrip", "M17.C01F.stream_roundtrip", "M17.C01F.packet_roundtrip", "M17.C01F.bert_roundtrip",
                "M17.C01F.lich_roundtrip", "M17.C01F.lich_callback",
                "M17.C01F.lsf_cost_zero", "M17.C01F.stream_cost_zero", "M17.C01F.packet_cost_zero", "M17.C01F.softAt_image",
                "M17.C01G.sum_depuncture", "M17.C01G.sum_deinterleave", "M17.C01G.sum_randSoft",
                "M17.C01G.lsf_cost_formula", "M17.C01G.packet_cost_formula", "M17.C01G.bert_cost_formula", "M17.C01G.stream_cost_formula", "M17.C01G.stream_slack_positions",
                "M17.C13T.m17mod_lsf_decodes", "M17.C13T.m17mod_stream_decodes", "M17.C14T.modulator_lsf_decodes", "M17.C14T.modulator_stream_decodes"]
    level_text = ("Lean 4 frame-level theorems (M17.Props.C01F) about the decoder model Dec.step fed with ANY clean soft image (correct signs, "
                  "per-position magnitudes 1..7) of a frame built by the independent specification encoder Spec.Tx (convolutional code, puncture, "
                  "interleave, randomize; Golay + LICH packing): lsf_roundtrip (every 30-byte LSF, every decoder state: the 30 bytes are decoded "
                  "exactly, reported with result OK iff the CRC checks, else FAIL without a callback), stream_roundtrip (stream mode: callback = the "
                  "18 data bytes, any LICH fragment), lich_roundtrip / lich_callback (link-setup mode: unpack_lich returns exactly the five LSF bytes "
                  "of slot n mod 6 and the counter, for every n), packet_roundtrip (all 2^206 payloads, both packet modes, EOF rule), "
                  "bert_roundtrip (all 2^197), each with cost = round(slack/7) and *_cost_zero: cost 0 when every soft value is +-7; C01G.*_cost_formula: "
                  "slack is exactly the sum over the received int8 values r of (7 - |r|) (de-puncturing places each value once, de-interleaving is a "
                  "permutation, de-randomizing flips signs), i.e. the cost formula the correspondence oracle uses. They compose "
                  "per-stage lemmas proved here and in C02/C04/C05/C09/C10/C11: dc_bridge (spec randomizer bytes = the code's +-1 table), "
                  "condition_image (de-randomize + de-interleave undo the spec's interleave + randomize on soft values), punct_eq (spec puncturing = "
                  "the code's loop), depunct_consistent + geometries_noDouble (kernel evaluation: no trellis step of the four geometries loses both "
                  "bits), viterbi_clean_exact (the transmitted path is the unique minimum, any width/length), pack_bitsOfBytes, Golay zero-error "
                  "decode. The three transmitters: Spec.Tx is the independent encoder; the models of m17-mod's and M17Modulator's "
                  "frame builders (TxMod, TxModulator — written as the code is written, tied to the code by C13/C14's streams) are PROVED equal to Spec.Tx "
                  "frames (C13T.sendLsf_eq_spec / streamFrame_eq_spec, C14T.sendLinkSetup_eq_spec / streamFrame_eq_spec), giving m17mod_*_decodes and "
                  "modulator_*_decodes: every LSF and stream frame either transmitter emits, received as any clean soft image, is decoded bit-exact. "
                  "(m17-mod's BERT frames are compared with Spec.Tx.bertFrame by correspondence in C13.)")
    design_ref = "DESIGN.md §5 C01"
    level_note = ("Trusted: Lean kernel; the hand-written decoder model (tied to M17FrameDecoder by the dec-clean correspondence on every run) and "
                  "the specification encoder Spec.Tx (tied bit-for-bit to the python and C++ specification encoders and, through C13/C14, to the "
                  "repository's transmitters on every run). The theorems cover soft magnitudes 1..7 (what the 4-bit demapper emits); cost for "
                  "magnitudes below 7 is round(slack/7), 0 exactly at full confidence. Axioms: propext, Classical.choice, Quot.sound only.")
    technique = "Lean 4 proof: frame-level round-trip theorems for all payloads/states/magnitudes (composition of randomizer, interleaver, puncture, Viterbi, Golay, CRC, packing lemmas) + model/implementation and spec-encoder correspondence runs with three transmitters"
    rule = ("clean frames of the four kinds (LSF valid/invalid CRC, stream with each LICH number in both decoder modes, packet mid/EOF, BERT) from the "
            "independent specification encoder, from m17-mod's send_lsf/make_lich_segment/make_data_frame/make_bert_frame and from M17Modulator, "
            "mapped to soft values at uniform magnitude 1..7 and at per-position random magnitudes; oracle: payload bit-exact, result code, "
            "cost = round(sum(7-m)/7) (0 at magnitude 7); distinct = distinct frames; non-trivial = payload not all zero")

    def run(self, ctx):
        exe = self.impl_driver(ctx)
        rng = ctx.rng
        quick = ctx.tier == "quick"
        g = decgen.Gen(rng)
        lines, exp = ["dec_new"], [None]

        def add(sync, softv, e):
            lines.append(f"dec_frame {sync} 1 " + " ".join(map(str, softv))); exp.append(e)

        def mags(kind):
            out = [7, 1] + [rng.randrange(1, 8)] + [[rng.randrange(1, 8) for _ in range(368)]]
            return out if quick else list(range(1, 8)) + [[rng.randrange(1, 8) for _ in range(368)] for _ in range(3)]

        reps = 6 if quick else 120
        for rep in range(reps):
            # --- a valid data-only stream LSF (TYPE 0x0003) from whatever mode the previous round ended in (BERT, and a packet mode below):
            # lsf_roundtrip holds for every decoder state; update_state() keeps LSF mode for it, so the next stream frame is a LICH fragment
            if rep:
                lsf3 = g.rand_lsf(0x0003)
                add(0, S.soft(S.lsf_frame_bits(lsf3), 7), {"kind": "lsf_dataonly", "calls": [(0, list(lsf3))], "result": 1, "cost": 0, "mode": 0})
                n = rng.randrange(6)
                sb = S.stream_frame_bits(lsf3, n, 0, bytes(rng.randrange(256) for _ in range(16)))
                add(1, S.soft(sb, 7), {"kind": "lich", "calls": [(1, list(lsf3[5 * n:5 * n + 5]) + [n << 5])], "result": 3, "cost": "max", "mode": 0})
            # --- LSF (valid CRC, each TYPE class) then stream frames in STREAM mode, then LICH collection in LSF mode
            for typ in (0x0005, 0x0007):
                lsf = g.rand_lsf(typ)
                for m in mags("lsf"):
                    bits = S.lsf_frame_bits(lsf)
                    cost = rdiv(sum(7 - x for x in (m if isinstance(m, list) else [m] * 368)), 7)
                    add(0, S.soft(bits, m), {"kind": "lsf", "calls": [(0, list(lsf))], "result": 1, "cost": cost, "mode": 1})
                    # stream payload in STREAM mode
                    fn = rng.randrange(0x10000); pl = bytes(rng.randrange(256) for _ in range(16)); n = rng.randrange(6)
                    sb = S.stream_frame_bits(lsf, n, fn, pl)
                    mm = m if isinstance(m, list) else [m] * 368
                    # cost counts only the 272 payload positions: they are frame positions whose de-interleaved index is >= 96
                    inv = [0] * 368
                    for i in range(368):
                        inv[(45 * i + 92 * i * i) % 368] = i
                    pc = rdiv(sum(7 - mm[p] for p in range(368) if inv[p] >= 96), 7)
                    add(1, S.soft(sb, m), {"kind": "stream", "calls": [(2, list(fn.to_bytes(2, "big") + pl))], "result": 1, "cost": pc, "mode": 1})
            # LSF with invalid CRC: decoded bits still exact (model equality covers it), result FAIL
            bad = bytearray(g.rand_lsf(0x0005)); bad[rng.randrange(28)] ^= 1 << rng.randrange(8)
            add(0, S.soft(S.lsf_frame_bits(bytes(bad)), 7), {"kind": "lsf_badcrc", "calls": [], "result": 0, "cost": 0, "mode": 0})
            # LICH: all six fragment numbers in LSF mode (after the failed LSF above the collection is empty)
            lsf = g.rand_lsf(0x0005)
            order = list(range(6)); rng.shuffle(order)
            for k, n in enumerate(order):
                m = rng.choice(mags("lich"))
                pl = bytes(rng.randrange(256) for _ in range(16))
                sb = S.stream_frame_bits(lsf, n, k, pl)
                lich6 = list(lsf[5 * n:5 * n + 5]) + [n << 5]
                if k < 5:
                    add(1, S.soft(sb, m), {"kind": "lich", "calls": [(1, lich6)], "result": 3, "cost": "max", "mode": 0})
                else:
                    add(1, S.soft(sb, m), {"kind": "lich_last", "calls": [(1, lich6), (0, list(lsf))], "result": 1, "cost": 0, "mode": 1})
            # late entry after an interrupted one: 1-5 fragments of another transmission A are left behind, the application calls
            # reset() (carrier lost), then transmission B is entered late: all six fragments, then B's stream payloads
            lsfA = g.rand_lsf(0x0005); lsfB = g.rand_lsf(0x0005)
            keep = rng.sample(range(6), rng.randrange(1, 6))
            lines.append("dec_reset"); exp.append(None)          # back to waiting for link setup (the collection above ended in stream mode)
            # what the documented collection does, simulated: the 30-byte buffer still holds the LSF reassembled above, the mask is empty
            buf = bytearray(lsf); mask = 0
            for k, n in enumerate(keep):
                sb = S.stream_frame_bits(lsfA, n, k, bytes(rng.randrange(256) for _ in range(16)))
                buf[5 * n:5 * n + 5] = lsfA[5 * n:5 * n + 5]; mask |= 1 << n
                add(1, S.soft(sb, 7), None)
            lines.append("dec_reset"); exp.append(None)
            order = list(range(6)); rng.shuffle(order)
            streaming = False
            for k, n in enumerate(order):
                pl = bytes(rng.randrange(256) for _ in range(16))
                sb = S.stream_frame_bits(lsfB, n, k, pl)
                lich6 = list(lsfB[5 * n:5 * n + 5]) + [n << 5]
                if streaming:      # the set completed early (A's slots happened to equal B's): these are ordinary stream frames now
                    add(1, S.soft(sb, 7), {"kind": "stream_after_late_entry", "calls": [(2, list(k.to_bytes(2, "big") + pl))], "result": 1, "cost": 0, "mode": 1})
                    continue
                buf[5 * n:5 * n + 5] = lsfB[5 * n:5 * n + 5]; mask |= 1 << n
                # the mask still holds A's positions after reset(): the set completes as soon as A's and B's positions cover 0..5; a mixed
                # buffer fails the CRC and keeps collecting; as soon as the buffer is a CRC-valid LSF it must be reported - at the latest when
                # all six fragments of B are stored
                if mask == 63 and S.crc16(bytes(buf)) == 0:
                    add(1, S.soft(sb, 7), {"kind": "lich_last_after_partial", "calls": [(1, lich6), (0, list(buf))], "result": 1, "cost": 0, "mode": 1})
                    streaming = True; mask = 0
                else:
                    add(1, S.soft(sb, 7), {"kind": "lich_after_partial", "calls": [(1, lich6)], "result": 3, "cost": None, "mode": 0})
            fn = rng.randrange(0x8000); pl = bytes(rng.randrange(256) for _ in range(16))
            add(1, S.soft(S.stream_frame_bits(lsfB, 0, fn, pl), 7), {"kind": "stream_after_late_entry", "calls": [(2, list(fn.to_bytes(2, "big") + pl))], "result": 1, "cost": 0, "mode": 1})
            # packet: needs a packet LSF first
            for typ, ftype in ((0x0002, 3), (0x0004, 4)):
                add(0, S.soft(S.lsf_frame_bits(g.rand_lsf(typ)), 7), None)
                for eof in (0, 0, 1):
                    bits = [rng.randrange(2) for _ in range(206)]; bits[200] = eof
                    m = rng.choice(mags("pkt"))
                    cost = rdiv(sum(7 - x for x in (m if isinstance(m, list) else [m] * 368)), 7)
                    add(2, S.soft(S.packet_frame_bits(bits), m), {"kind": "packet", "calls": [(ftype, list(S.pack(bits)))], "result": 1 if eof else 4, "cost": cost, "mode": 0 if eof else ftype - 1})
                # the same data-only LSF from inside a packet (mid-packet mode)
                add(0, S.soft(S.lsf_frame_bits(g.rand_lsf(typ)), 7), None)
                bits = [rng.randrange(2) for _ in range(206)]; bits[200] = 0
                add(2, S.soft(S.packet_frame_bits(bits), 7), {"kind": "packet", "calls": [(ftype, list(S.pack(bits)))], "result": 4, "cost": 0, "mode": ftype - 1})
                lsf3 = g.rand_lsf(0x0003)
                add(0, S.soft(S.lsf_frame_bits(lsf3), 7), {"kind": "lsf_dataonly", "calls": [(0, list(lsf3))], "result": 1, "cost": 0, "mode": 0})
            # BERT
            for m in mags("bert")[:3]:
                bits = [rng.randrange(2) for _ in range(197)]
                cost = rdiv(sum(7 - x for x in (m if isinstance(m, list) else [m] * 368)), 7)     # C01G.bert_cost_formula
                add(3, S.soft(S.bert_frame_bits(bits), m), {"kind": "bert", "calls": [(5, list(S.pack(bits)))], "result": 1, "cost": cost, "mode": 4})
        impl = ctx.run_impl(exe, lines, "dec-clean")
        self.judge(ctx, lines, exp, impl, "spec-encoder")
        self.spec_tie(ctx)
        if ctx.model_ok:
            model = ctx.run_model(lines)
            ctx.compare("dec-clean", lines, impl, model, oracle=lambda ln, a: None, sig=lambda ln: "step")
            ctx.traces += len(lines)
        self.txrx_m17mod(ctx, exe)
        self.txrx_modulator(ctx, exe)
        j = next(i for i, e in enumerate(exp) if e and e["kind"] == "stream")
        ctx.sample({"frame": exp[j]["kind"], "request": lines[j][:50] + "...", "reply": impl[j][:140]})

    def spec_tie(self, ctx):
        """the frames the theorems speak about (Lean Spec.Tx.*FrameBits) are bit-for-bit the frames of the python specification encoder
        that this check feeds to the real decoder"""
        if not ctx.model_ok:
            return
        rng = ctx.rng
        g = decgen.Gen(rng)
        reqs, want = [], []
        for _ in range(12 if ctx.tier == "quick" else 300):
            lsf = g.rand_lsf(rng.choice([0x0005, 0x0007, 0x0002, 0x0003]))
            reqs.append("spec_frame_bits 0 " + " ".join(map(str, lsf))); want.append(S.lsf_frame_bits(lsf))
            n = rng.randrange(8); fn = rng.randrange(0x10000); pl = bytes(rng.randrange(256) for _ in range(16))
            reqs.append(f"spec_frame_bits 1 {n} " + " ".join(map(str, list(lsf) + list(fn.to_bytes(2, "big") + pl))))
            want.append(S.stream_frame_bits(lsf, n, fn, pl))
            b = [rng.randrange(2) for _ in range(206)]
            reqs.append("spec_frame_bits 2 " + " ".join(map(str, b))); want.append(S.packet_frame_bits(b))
            b = [rng.randrange(2) for _ in range(197)]
            reqs.append("spec_frame_bits 3 " + " ".join(map(str, b))); want.append(S.bert_frame_bits(b))
        got = ctx.run_model(reqs)
        for ln, a, w in zip(reqs, got, want):
            ctx.evaluations += 1
            ctx.stat("spec-tie:kind" + ln.split()[1])
            if a != " ".join(map(str, w)):
                raise core.BuildError("Lean Spec.Tx frame bits differ from the python specification encoder on `%s`" % ln[:80], a[:200])

    def judge(self, ctx, lines, exp, impl, who):
        for ln, e, a in zip(lines, exp, impl):
            if e is None:
                continue
            ctx.count(ln, nontrivial=True)
            ctx.stat(f"{who}:{e['kind']}")
            r = decgen.parse_reply(a)
            if not r:
                continue
            got = [(c["type"], c["bytes"]) for c in r["calls"]]
            bad = None
            if got != e["calls"]:
                bad = f"callbacks {[(t, b[:6]) for t, b in got]} differ from the transmitted payload {[(t, b[:6]) for t, b in e['calls']]}"
            elif r["result"] != e["result"]:
                bad = f"result {deccheck.RES[r['result']]}, expected {deccheck.RES[e['result']]}"
            elif e["cost"] is not None and str(r["cost"]) != str(e["cost"]):
                bad = f"reported cost {r['cost']}, expected {e['cost']}"
            elif r["mode"] != e["mode"]:
                bad = f"mode after frame {deccheck.MODE[r['mode']]}, expected {deccheck.MODE[e['mode']]}"
            if bad:
                ctx.violate(f"dec-clean:{who}:{e['kind']}", f"clean {e['kind']} frame from {who}: {bad}",
                            {"stream": "dec-clean", "ops": deccheck.history(lines, ln, 30), "impl": a})

    def txrx_modulator(self, ctx, exe):
        """third transmitter: M17Modulator (real threads, fingerprinting codec stand-in); its frames through the decoder"""
        rng = ctx.rng
        mod = core.build_cpp("drv_modulator", ["drv_modulator.cpp"], extra_inc=[core.HARNESS + "/stub"], deps=["stub/codec2/codec2.h"])
        g = decgen.Gen(rng)
        src, dst = g.rand_call(), g.rand_call()
        frames = 3 if ctx.tier == "quick" else 12
        keyups = 2          # the second key-up of one modulator run re-uses its CRC engine, frame counter and buffers
        ln = f"modrun {rng.randrange(1, 10**6)} 0 0 {keyups} {frames} 7 {len(src)} " + " ".join(str(ord(c)) for c in src) + f" {len(dst)} " + " ".join(str(ord(c)) for c in dst)
        o = ctx.run_impl(mod, [ln], "modulator", timeout=600)[0]
        if " | " not in o:
            return
        data = bytes(int(x) for x in o.split(" | ")[1].split())
        seg = 96 + 48 * (frames + 1)
        if len(data) != keyups * seg:
            ctx.violate("dec-clean:M17Modulator:length", f"M17Modulator emitted {len(data)} bytes for {keyups} key-ups of {frames} frames", {"stream": "modulator", "ops": [ln]})
            return
        lsf = list(S.make_lsf(dst, src, 0x0005, bytes(14), 0))
        dl, exp, fidx = ["dec_new"], [None], [None]
        for ku in range(keyups):
            base = ku * seg
            m = rng.randrange(1, 8)
            dl.append("dec_frame 0 1 " + " ".join(map(str, S.soft(S.bits_of(data[base + 50:base + 96]), m))))
            exp.append({"kind": "lsf", "calls": [(0, lsf)], "result": 1, "cost": rdiv(368 * (7 - m), 7), "mode": 1}); fidx.append(None)
            for f in range(frames + 1):
                fr = data[base + 96 + 48 * f:base + 96 + 48 * (f + 1)]
                m = rng.randrange(1, 8)
                dl.append("dec_frame 1 1 " + " ".join(map(str, S.soft(S.bits_of(fr[2:]), m))))
                exp.append({"kind": "stream", "calls": None, "result": 1, "cost": rdiv(272 * (7 - m), 7), "mode": 1}); fidx.append(f)
        impl = ctx.run_impl(exe, dl, "dec-txrx")
        for i, (e, a) in enumerate(zip(exp, impl)):
            if e and e["calls"] is None:
                r = decgen.parse_reply(a)
                if r and r["calls"]:
                    want_fn = fidx[i] | (0x8000 if fidx[i] == frames else 0)
                    e["calls"] = [(2, [want_fn >> 8, want_fn & 0xFF] + r["calls"][0]["bytes"][2:])]
                else:
                    e["calls"] = [(2, [])]
        self.judge(ctx, dl, exp, impl, "M17Modulator")

    def txrx_m17mod(self, ctx, exe):
        """frames produced by the repository's own m17-mod functions, decoded by the repository's decoder"""
        rng = ctx.rng
        mod = core.build_cpp("drv_mod", ["drv_mod.cpp"], libs=["-lcodec2", "-lboost_program_options"])
        g = decgen.Gen(rng)
        n = 12 if ctx.tier == "quick" else 300
        mlines, info = [], []
        for _ in range(n):
            src, dst, can = g.rand_call(), (g.rand_call() if rng.random() < 0.8 else ""), rng.randrange(16)
            mlines.append(f"mod_lsf 1 0 {can} {len(src)} " + " ".join(str(ord(c)) for c in src) + f" {len(dst)} " + " ".join(str(ord(c)) for c in dst))
            info.append(("lsf", src, dst, can))
        out = ctx.run_impl(mod, mlines, "m17mod")
        dl, exp = ["dec_new"], [None]
        follow = []
        for (k, src, dst, can), o in zip(info, out):
            if " | " not in o:
                continue
            lsf = [int(x) for x in o.split(" | ")[0].split()]
            frame = [int(x) for x in o.split(" | ")[1].split()]
            want = list(S.make_lsf(dst, src, 0x0005, bytes(14), can))
            if lsf != want or frame[:2] != [0x55, 0xF7]:
                ctx.violate("m17mod:lsf-fields", f"m17-mod send_lsf({src},{dst},can={can}) built LSF {lsf[:14]}.. but the specification LSF is {want[:14]}..",
                            {"stream": "m17mod", "ops": [mlines[0]], "impl": o[:300]})
            m = rng.randrange(1, 8)
            dl.append("dec_frame 0 1 " + " ".join(map(str, S.soft(S.bits_of(bytes(frame[2:])), m))))
            exp.append({"kind": "lsf", "calls": [(0, lsf)], "result": 1, "cost": rdiv(368 * (7 - m), 7), "mode": 1})
            follow.append(lsf)
        # stream frames: lich segment + data frame through send_audio_frame
        ml2, inf2 = [], []
        for lsf in follow:
            for seg in range(6):
                fn = rng.randrange(0x10000); pl = [rng.randrange(256) for _ in range(16)]
                ml2.append(f"mod_lich {seg} " + " ".join(map(str, lsf[5 * seg:5 * seg + 5]))); inf2.append(("lich", lsf, seg, fn, pl))
                ml2.append(f"mod_data {fn} " + " ".join(map(str, pl))); inf2.append(("data", lsf, seg, fn, pl))
        o2 = ctx.run_impl(mod, ml2, "m17mod")
        ml3, inf3 = [], []
        for i in range(0, len(ml2), 2):
            ml3.append("mod_audio_frame 1 0 " + o2[i] + " " + o2[i + 1]); inf3.append(inf2[i])
        o3 = ctx.run_impl(mod, ml3, "m17mod")
        dl.append("dec_frame 0 1 " + " ".join(map(str, S.soft(S.lsf_frame_bits(S.make_lsf("", "X", 0x0005)), 7)))); exp.append(None)   # STREAM mode
        for (k, lsf, seg, fn, pl), o in zip(inf3, o3):
            fr = [int(x) for x in o.split()]
            if len(fr) != 48:
                continue
            dl.append("dec_frame 1 1 " + " ".join(map(str, S.soft(S.bits_of(bytes(fr[2:])), 7))))
            exp.append({"kind": "stream", "calls": [(2, list(fn.to_bytes(2, "big")) + pl)], "result": 1, "cost": 0, "mode": 1})
        # the same frames again while waiting for link setup: LICH path
        dl.append("dec_frame 0 1 " + " ".join(map(str, S.soft(S.lsf_frame_bits(bytes(30)), 7)))); exp.append(None)     # bad CRC -> LSF mode, mask 0
        cnt = 0
        for (k, lsf, seg, fn, pl), o in zip(inf3[:6], o3[:6]):
            fr = [int(x) for x in o.split()]
            cnt += 1
            lich6 = lsf[5 * seg:5 * seg + 5] + [seg << 5]
            dl.append("dec_frame 1 1 " + " ".join(map(str, S.soft(S.bits_of(bytes(fr[2:])), 5))))
            if cnt < 6:
                exp.append({"kind": "lich", "calls": [(1, lich6)], "result": 3, "cost": "max", "mode": 0})
            else:
                exp.append({"kind": "lich_last", "calls": [(1, lich6), (0, lsf)], "result": 1, "cost": 0, "mode": 1})
        # BERT frames of m17-mod's BERT loop, decoded and validated by the repository's PRBS9
        ob = ctx.run_impl(mod, [f"mod_bert {rng.randrange(1, 512)} 4"], "m17mod")[0].split()
        if len(ob) == 4 * 48 + 1:
            payload_bits = []
            for k in range(4):
                fr = [int(x) for x in ob[48 * k:48 * k + 48]]
                dl.append("dec_frame 3 1 " + " ".join(map(str, S.soft(S.bits_of(bytes(fr[2:])), rng.randrange(1, 8)))))
                exp.append({"kind": "bert", "calls": None, "result": 1, "cost": None, "mode": 4})
        impl = ctx.run_impl(exe, dl, "dec-txrx")
        # BERT: collect decoded bits and run them through the validator (C18 clause: re-locks with zero errors)
        bert_bits = []
        exp2 = []
        for e, a in zip(exp, impl):
            if e and e["kind"] == "bert":
                r = decgen.parse_reply(a)
                if r and r["calls"]:
                    bert_bits += S.bits_of(bytes(r["calls"][0]["bytes"]))[:197]
                exp2.append(None)
            else:
                exp2.append(e)
        self.judge(ctx, dl, exp2, impl, "m17-mod")
        if bert_bits:
            v = ctx.run_impl(exe, ["prbs " + " ".join(map(str, bert_bits))], "prbs")[0].split()
            ctx.evaluations += 1
            if len(v) == 8 and (v[0] != "1" or v[1] != "0" or int(v[2]) < len(bert_bits) - 27 + 18):
                ctx.violate("dec-txrx:bert-relock", f"BERT frames from m17-mod decoded by the frame decoder do not re-lock the PRBS9 validator with zero errors (sync={v[0]} errors={v[1]} bits={v[2]} of {len(bert_bits)})",
                            {"stream": "dec-txrx", "ops": dl[-4:], "impl": " ".join(v)})
            ctx.stat("bert-bits-validated", len(bert_bits))


PROP = C01()

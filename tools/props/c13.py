"""C13 — m17-mod emits exactly the spec stream for its inputs, continuously pulse-shaped."""
import os, struct, subprocess
from fractions import Fraction
from lib import core, m17spec as S
from lib.prop import Prop


def codes(s):
    return " ".join(str(ord(c)) for c in s)


class C13(Prop):
    pid = "C13"
    lean_targets = ["M17.Props.C13", "M17.Props.C13A", "M17.Props.C13T"]
    theorems = ["M17.C13.inv_step", "M17.C13.plan_numbering", "M17.C13.eos_bit", "M17.C13.baseband_is_one_continuous_run",
                "M17.C13A.ainv_step", "M17.C13A.plan_audio", "M17.C13A.plan_eq_specPlan",
                "M17.C13T.encodeBytes_eq", "M17.C13T.punct_eq_spec", "M17.C13T.ileave_eq_spec", "M17.C13T.randBits_eq_spec", "M17.C13T.packBits_eq_spec",
                "M17.C13T.lsfBytes_eq_spec", "M17.C13T.sendLsf_eq_spec", "M17.C13T.lichSegment_eq_spec", "M17.C13T.streamFrame_eq_spec",
                "M17.C13T.m17mod_lsf_decodes", "M17.C13T.m17mod_stream_decodes", "M17.C13T.bertFrame_eq_spec"]
    level_text = ("Lean 4 theorems: for EVERY audio length the modelled transmit() loop sends ceil(len/320)+1 stream frames numbered k mod 0x8000 "
                  "with LICH fragment k mod 6, the last one carrying the end-of-stream bit and the all-zero block (loop invariant by induction "
                  "over the samples); plan_audio / plan_eq_specPlan: every frame carries exactly its 320-sample window of the input, the partial last "
                  "window zero padded, nothing stale from an earlier block — the loop's whole plan (numbers, LICH indices, audio blocks, final "
                  "frame) equals the specification's plan for every input length; and the frame CONTENT (M17.Props.C13T): the model TxMod of send_lsf / "
                  "make_data_frame / make_lich_segment / send_audio_frame / output_bitstream, written as the code is written (shift-register encoder, "
                  "int8 0/1 arrays, int8 interleaver and xor randomizer, MSB-first packing), produces exactly Spec.Tx.lsfFrame / streamFrame "
                  "(sendLsf_eq_spec, streamFrame_eq_spec: every callsign pair over the alphabet, CAN 0..15, LICH index 0..5, every frame number "
                  "and payload), hence by C01F every such frame decodes bit-exact (m17mod_lsf_decodes, m17mod_stream_decodes); bertFrame_eq_spec: make_bert_frame + the BERT "
                  "loop emit Spec.Tx.bertFrame of the 197 generator bits (so C18B.bert_end_to_end applies to m17-mod's BERT transmission); shaping block after block through one FIR object equals one continuous run over the concatenated "
                  "symbol stream (from C19). The per-frame encoders are compositions of the functions proved in C04/C09/C10/C11 (and round-trip "
                  "in C01); that m17-mod's bytes equal those of the independent specification encoder (Lean M17.Spec.Tx, also python) is NOT one "
                  "Lean theorem: it is checked byte-for-byte on every run at function level (send_lsf, make_lich_segment, make_data_frame, "
                  "send_audio_frame, BERT loop, preamble, EOT), for the whole transmit() data path in-process (real codec2) and for the built "
                  "binary; the baseband is compared sample-for-sample with the exact rational convolution of the symbol stream.")
    design_ref = "DESIGN.md §5 C13"
    level_note = ("Trusted: Lean kernel; codec2 (external, a parameter of the model; the helper links the same library); Boost option parsing; "
                  "tools/gen_taps.py. Partial: per-frame byte equality with the specification is by three-way correspondence, not a theorem; "
                  "baseband sample values rest on exact arithmetic plus a measured tolerance of 1 LSB at near-integer values. "
                  "Axioms: propext, Classical.choice, Quot.sound only.")
    technique = "Lean 4 proof (loop invariant of the frame sequencer; continuity of block-wise filtering) + three-way byte-exact correspondence C++ / model / independent spec + exact rational baseband oracle"
    rule = ("callsigns over the M17 alphabet (1-9 chars, empty destination), CAN 0..15, audio lengths {0,1,319,320,321,640k+r}, bitstream and "
            "baseband, invert on/off, BERT frames at random PRBS phases; compared: LSF fields and every output byte (function level, in-process "
            "whole path, built binary) against Lean Spec.Tx and the python specification encoder; baseband samples against exact convolution; "
            "distinct = distinct (callsigns, CAN, audio); non-trivial = at least one audio block")

    def setup_drivers(self):
        return [self.impl_driver(None)]

    def impl_driver(self, ctx):
        return core.build_cpp("drv_mod", ["drv_mod.cpp"], libs=["-lcodec2", "-lboost_program_options"])

    def rand_call(self, rng, allow_empty=False):
        if allow_empty and rng.random() < 0.25:
            return ""
        return "".join(rng.choice(S.ALPH[1:]) for _ in range(rng.randrange(1, 10)))

    def run(self, ctx):
        exe = self.impl_driver(ctx)
        rng = ctx.rng
        quick = ctx.tier == "quick"
        # ---------------- function level: LSF ----------------
        n = 40 if quick else 1500
        cases = [(self.rand_call(rng), self.rand_call(rng, True), rng.randrange(16)) for _ in range(n)]
        cases += [("A", "", 0), ("W1AW", "N0CALL", 10), ("A1B2C3D4E", "Z", 15), ("ABCDEFGHI", "ABCDEFG", 7), ("AB", "ABCDEFGHI", 1)]
        ml = [f"mod_lsf 1 0 {can} {len(src)} {codes(src)} {len(dst)} {codes(dst)}".replace("  ", " ") for src, dst, can in cases]
        sl = [f"spec_lsf {can} {len(src)} {codes(src)} {len(dst)} {codes(dst)}".replace("  ", " ") for src, dst, can in cases]
        mo = ctx.run_impl(exe, ml, "m17mod")
        so = ctx.run_model(sl) if ctx.model_ok else [None] * len(sl)
        lsfs = []
        for (src, dst, can), a, b, ln in zip(cases, mo, so, ml):
            ctx.count(("lsf", src, dst, can), nontrivial=True)
            want_lsf = list(S.make_lsf(dst, src, 0x0005, bytes(14), can))
            want = " ".join(map(str, want_lsf)) + " | " + " ".join(map(str, bytes([0x55, 0xF7]) + S.pack(S.lsf_frame_bits(bytes(want_lsf)))))
            if b is not None and b != want:
                raise core.BuildError("Lean Spec.Tx and python specification encoder disagree on an LSF", f"{src} {dst} {can}\n{b}\n{want}")
            if a != want:
                k = next((i for i, (x, y) in enumerate(zip(a.split(), want.split())) if x != y), -1)
                ctx.violate(f"m17mod:lsf:{'field' if k < 30 else 'frame'}", f"m17-mod send_lsf(src={src!r}, dst={dst!r}, can={can}): output differs from the specification at item {k} (LSF byte/frame byte)",
                            {"stream": "m17mod", "ops": [ln], "impl": a[:400], "spec": want[:400]})
            lsfs.append(want_lsf)
        # ---------------- function level: stream frames ----------------
        fl, meta = [], []
        for lsf in lsfs[:n // 2 + 3]:
            seg = rng.randrange(6); fn = rng.choice([0, 1, 0x7FFF, 0x8000, 0xFFFF, rng.randrange(0x10000)]); pl = [rng.randrange(256) for _ in range(16)]
            fl.append(f"mod_lich {seg} " + " ".join(map(str, lsf[5 * seg:5 * seg + 5]))); fl.append(f"mod_data {fn} " + " ".join(map(str, pl)))
            meta.append((lsf, seg, fn, pl))
        o = ctx.run_impl(exe, fl, "m17mod")
        al = [f"mod_audio_frame 1 0 {o[2 * i]} {o[2 * i + 1]}" for i in range(len(meta))]
        ao = ctx.run_impl(exe, al, "m17mod")
        spl = [f"spec_stream_frame {seg} {fn} " + " ".join(map(str, lsf)) + " " + " ".join(map(str, pl)) for lsf, seg, fn, pl in meta]
        spo = ctx.run_model(spl) if ctx.model_ok else [None] * len(spl)
        for (lsf, seg, fn, pl), a, b, ln in zip(meta, ao, spo, al):
            ctx.count(("frame", seg, fn, tuple(pl)), nontrivial=True)
            want = " ".join(map(str, bytes([0xFF, 0x5D]) + S.pack(S.stream_frame_bits(bytes(lsf), seg, fn, bytes(pl)))))
            if b is not None and b != want:
                raise core.BuildError("Lean Spec.Tx and python specification encoder disagree on a stream frame", f"{b}\n{want}")
            if a != want:
                k = next((i for i, (x, y) in enumerate(zip(a.split(), want.split())) if x != y), -1)
                ctx.violate("m17mod:stream-frame", f"m17-mod stream frame (LICH {seg}, FN {fn:#06x}) differs from the specification encoding at byte {k}",
                            {"stream": "m17mod", "ops": [f"mod_lich {seg} ...", f"mod_data {fn} ...", ln[:200]], "impl": a, "spec": want})
        # the Lean model of m17-mod's frame builders (M17.TxMod, about which C13T proves "= Spec.Tx") against the real functions, same requests
        if ctx.model_ok:
            ctx.compare("txmod", ml, mo, ctx.run_model(ml), oracle=lambda ln, a: None, sig=lambda ln: ln.split()[0])
            ctx.compare("txmod", fl, o, ctx.run_model(fl), oracle=lambda ln, a: None, sig=lambda ln: ln.split()[0])
            ctx.compare("txmod", al, ao, ctx.run_model(al), oracle=lambda ln, a: None, sig=lambda ln: ln.split()[0])
            ctx.traces += len(ml) + len(fl) + len(al)
        # ---------------- BERT frames, preamble, EOT ----------------
        st = rng.randrange(1, 512)
        a = ctx.run_impl(exe, [f"mod_bert {st} 3", "mod_preamble 1 0", "mod_eot 1 0"], "m17mod")
        if ctx.model_ok:
            bl = [f"mod_bert {s0} {nf}" for s0, nf in ((st, 3), (1, 30), (rng.randrange(1, 512), 7))]
            ctx.compare("txmod", bl, ctx.run_impl(exe, bl, "m17mod"), ctx.run_model(bl), oracle=lambda ln, x: None, sig=lambda ln: "mod_bert")
        bits, g = S.prbs9(197 * 3, st)
        want = []
        for k in range(3):
            want += list(bytes([0xDF, 0x55]) + S.pack(S.bert_frame_bits(bits[197 * k:197 * k + 197])))
        ctx.evaluations += 3
        if a[0] != " ".join(map(str, want + [g])):
            ctx.violate("m17mod:bert", "m17-mod BERT frames differ from the specification encoding of the PRBS9 sequence", {"stream": "m17mod", "ops": [f"mod_bert {st} 3"], "impl": a[0][:300]})
        if ctx.model_ok and ctx.run_model([f"spec_bert {st} 3"])[0] != " ".join(map(str, want + [g])):
            raise core.BuildError("Lean Spec.Tx and python disagree on BERT frames", "")
        if a[1] != " ".join(["119"] * 48):
            ctx.violate("m17mod:preamble", "preamble is not 48 bytes of 0x77", {"stream": "m17mod", "ops": ["mod_preamble 1 0"], "impl": a[1]})
        if a[2] != " ".join(map(str, [0x55, 0x5D] + [0] * 10)):
            ctx.violate("m17mod:eot", "EOT marker differs", {"stream": "m17mod", "ops": ["mod_eot 1 0"], "impl": a[2]})
        # ---------------- whole transmit() path in process, real codec2 ----------------
        lens = [0, 1, 319, 320, 321, 640, 961, 1600 + rng.randrange(320)] if quick else [0, 1, 2, 319, 320, 321, 639, 640, 641] + [rng.randrange(0, 6000) for _ in range(60)]
        for ln_ in lens:
            src, dst, can = self.rand_call(rng), self.rand_call(rng, True), rng.randrange(16)
            audio = [rng.randrange(-20000, 20000) if (i // 50) % 2 else int(8000 * ((i % 40) - 20) / 20) for i in range(ln_)]
            tl = f"mod_transmit 1 0 {can} {len(src)} {codes(src)} {len(dst)} {codes(dst)} ".replace("  ", " ") + " ".join(map(str, audio))
            out = ctx.run_impl(exe, [tl], "m17mod-transmit", timeout=600)[0]
            # payloads from the same codec2 library, fresh codec state
            blocks = [audio[i:i + 320] for i in range(0, ln_, 320)]
            cl = ["codec2 -1"] + ["codec2 " + " ".join(map(str, b + [0] * (320 - len(b)))) for b in blocks] + ["codec2 " + " ".join(["0"] * 320)]
            pls = [[int(x) for x in r.split()] for r in ctx.run_impl(exe, cl, "codec2")[1:]]
            lsf = S.make_lsf(dst, src, 0x0005, bytes(14), can)
            want = bytes([0x77] * 48) + bytes([0x55, 0xF7]) + S.pack(S.lsf_frame_bits(lsf))
            for k, p in enumerate(pls):
                fn = (k % 0x8000) | (0x8000 if k == len(pls) - 1 else 0)
                want += bytes([0xFF, 0x5D]) + S.pack(S.stream_frame_bits(lsf, k % 6, fn, bytes(p)))
            want += bytes([0x55, 0x5D]) + bytes(10)
            ctx.count(("transmit", ln_, src, dst, can), nontrivial=ln_ >= 320)
            ctx.stat(f"transmit:blocks{min(len(blocks), 6)}")
            got = bytes(int(x) for x in out.split()) if out and out[0].isdigit() else b""
            if got != want:
                k = next((i for i, (x, y) in enumerate(zip(got, want)) if x != y), min(len(got), len(want)))
                ctx.violate(f"m17mod:transmit:{'length' if len(got) != len(want) else 'bytes'}", f"m17-mod bitstream for {ln_} audio samples (src={src!r} dst={dst!r} can={can}): {len(got)} bytes vs specification {len(want)}; first difference at byte {k} (frame {max(0, (k - 48) // 48)})",
                            {"stream": "m17mod-transmit", "ops": [tl[:3000]], "audio_samples": ln_, "first_diff": k})
            if ctx.model_ok and ln_ <= 1000:
                sp = f"spec_stream {can} {len(src)} {codes(src)} {len(dst)} {codes(dst)} {len(pls)} ".replace("  ", " ") + " ".join(" ".join(map(str, p)) for p in pls)
                if ctx.run_model([sp])[0] != " ".join(map(str, want)):
                    raise core.BuildError("Lean Spec.Tx.stream and python specification disagree", sp[:200])
                mp = ctx.run_model(["mod_plan " + " ".join(map(str, audio))])[0]
                if not mp.startswith("same") and ln_ > 0:
                    ctx.violate("m17mod:plan-model", "Lean model of transmit() and its specification plan differ", {"ops": ["mod_plan ..."], "model": mp[:200]}, concrete=False)
                ctx.traces += 1
        ctx.sample({"op": "mod_transmit 1 0 <can> <src> <dst> <samples>", "audio lengths": lens[:8]})
        # ---------------- the built program (option parsing, stdin loop, exit status) ----------------
        binp = core.build_cpp("m17-mod", ["m17mod_main.cpp"], flags=core.FAST_FLAGS, libs=["-lcodec2", "-lboost_program_options"])
        for ln_ in ([0, 321, 1000] if quick else [0, 1, 320, 321, 1000, 5000, 16000]):
            src, dst, can = self.rand_call(rng), self.rand_call(rng, True), rng.randrange(16)
            audio = [rng.randrange(-10000, 10000) for _ in range(ln_)]
            raw = b"".join(struct.pack("<h", x) for x in audio)
            cmd = [binp, "-S", src, "-C", str(can), "-b"] + (["-D", dst] if dst else [])
            p = subprocess.run(cmd, input=raw, stdout=subprocess.PIPE, stderr=subprocess.PIPE, timeout=120)
            tl = f"mod_transmit 1 0 {can} {len(src)} {codes(src)} {len(dst)} {codes(dst)} ".replace("  ", " ") + " ".join(map(str, audio))
            ref = bytes(int(x) for x in ctx.run_impl(exe, [tl], "m17mod-transmit", timeout=600)[0].split())
            ctx.count(("binary", ln_, src, dst, can), nontrivial=True)
            if p.returncode != 0 or p.stdout != ref:
                ctx.violate("m17mod:binary", f"m17-mod program (exit {p.returncode}) for {ln_} samples, -S {src} -D {dst!r} -C {can}: output {len(p.stdout)} bytes differs from the in-process transmit path ({len(ref)} bytes) or non-zero exit",
                            {"stream": "m17mod-binary", "ops": [" ".join(cmd)], "stderr": p.stderr.decode(errors="replace")[-500:]})
        # ---------------- long transmission: the 15-bit frame counter wraps at 0x8000 (after 21 min 50 s of audio) ----------------
        self.long_run(ctx, exe, rng)
        # ---------------- baseband: one continuous filter run ----------------
        self.baseband(ctx, exe, rng)

    def long_run(self, ctx, exe, rng):
        from lib import m17spec as S
        src, dst, can = self.rand_call(rng), self.rand_call(rng, True), rng.randrange(16)
        for nblocks, lo, hi in ((0x8000 + 9, 0x8000 - 6, 0x8000 + 10), (0x10000 + 3, 0x10000 - 3, 0x10000 + 4)) if ctx.tier != "quick" else ((0x8000 + 9, 0x8000 - 6, 0x8000 + 10),):
            ln = f"mod_long {can} {len(src)} {codes(src)} {len(dst)} {codes(dst)} {nblocks} {lo} {hi}".replace("  ", " ")
            rep = ctx.run_impl(exe, [ln], "m17mod-long", timeout=900)[0]
            ctx.count(ln, nontrivial=True)
            if rep.startswith("<"):
                continue
            total, frames, pls = rep.split("|")
            fb = [int(x) for x in frames.split()]
            pb = [int(x) for x in pls.split()]
            lsf = S.make_lsf(dst, src, typ=0x0005, can=can)
            nfr = nblocks + 1                         # audio blocks + the end-of-stream frame
            if int(total) != 48 + 48 + 48 * nfr + 12:
                ctx.violate("m17mod:long-length", f"m17-mod emitted {total.strip()} bytes for {nblocks} audio blocks; the specification stream has {48 + 48 + 48 * nfr + 12}",
                            {"stream": "m17mod-long", "ops": [ln]})
            for k in range(lo, min(hi, nfr)):
                fn = (k % 0x8000) | (0x8000 if k == nfr - 1 else 0)
                want = [0xFF, 0x5D] + list(S.pack(S.stream_frame_bits(lsf, k % 6, fn, bytes(pb[16 * (k - lo):16 * (k - lo) + 16]))))
                got = fb[48 * (k - lo):48 * (k - lo) + 48]
                ctx.stat("long:frames-compared")
                if got != want:
                    ctx.violate("m17mod:long-frame", f"stream frame {k} of a {nfr}-frame transmission (-S {src} -D {dst!r} -C {can}) is not the specification frame with frame number {fn:#06x}, LICH fragment {k % 6}",
                                {"stream": "m17mod-long", "ops": [ln], "frame": k, "got": got, "want": want})
                    break

    def baseband(self, ctx, exe, rng):
        taps = self.read_taps()
        for inv in (0, 1):
            src, dst, can = self.rand_call(rng), "", rng.randrange(16)
            audio = [rng.randrange(-3000, 3000) for _ in range(rng.choice([0, 320]))]
            tl = f"mod_transmit 0 {inv} {can} {len(src)} {codes(src)} 0 " + " ".join(map(str, audio))
            tb = f"mod_transmit 1 0 {can} {len(src)} {codes(src)} 0 " + " ".join(map(str, audio))
            o = ctx.run_impl(exe, [tb, tl], "m17mod-baseband", timeout=600)
            bs = bytes(int(x) for x in o[0].split())
            raw = bytes(int(x) for x in o[1].split())
            samples = [struct.unpack("<h", raw[i:i + 2])[0] for i in range(0, len(raw) - 1, 2)]
            # symbol stream of the bitstream: 4 symbols per byte; the EOT block is 2 marker bytes + 40 zero symbols
            symmap = {0: 1, 1: 3, 2: -1, 3: -3}
            syms = []
            body, eot = bs[:-12], bs[-12:]
            for b in body:
                syms += [symmap[(b >> s) & 3] for s in (6, 4, 2, 0)]
            for b in eot[:2]:
                syms += [symmap[(b >> s) & 3] for s in (6, 4, 2, 0)]
            syms += [0] * 40
            up = []
            for s in syms:
                up += [s] + [0] * 9
            if len(samples) != len(up):
                ctx.violate("m17mod:baseband:length", f"baseband has {len(samples)} samples, the symbol stream needs {len(up)}", {"stream": "m17mod-baseband", "ops": [tl[:300]]})
                continue
            bad = None
            sign = -1 if inv else 1
            nz = [i for i, v in enumerate(up) if v]
            for n in range(len(up)):
                acc = Fraction(0)
                lo = n - 149
                for i in nz:
                    if i > n:
                        break
                    if i >= lo:
                        acc += taps[n - i] * up[i]
                v = acc * 7168 * sign
                t = int(v)      # truncation toward zero
                ctx.evaluations += 1
                near = abs(v - round(v)) < Fraction(1, 10 ** 6)
                if samples[n] != t and not (near and abs(samples[n] - t) <= 1):
                    bad = (n, samples[n], t)
                    break
            if bad:
                n, got, want = bad
                ctx.violate("m17mod:baseband:discontinuity", f"baseband sample {n} (symbol {n // 10}, frame {n // 1920}) is {got}, one continuous RRC run over the symbol stream gives {want} (invert={inv})",
                            {"stream": "m17mod-baseband", "ops": [tl[:300]], "sample": n, "impl": got, "expected": want})
            ctx.stat("baseband:samples-compared", len(up))

    def read_taps(self):
        import re
        txt = open(os.path.join(core.LEAN, "M17", "Gen", "TapsTx.lean")).read()
        body = txt[txt.index("def txTaps150"):]
        body = body[:body.index("]")]
        vals = re.findall(r"\(\(?(-?\d+)\)?, (\d+)\)", body)
        return [Fraction(int(m)) * Fraction(2) ** (int(s) - 1074) for m, s in vals]


PROP = C13()

"""C03 — demodulator tracking: in steady reception no frame is lost or corrupted."""
from lib import core, demodlib, decgen, m17spec as S
from lib.prop import Prop


class C03(Prop):
    pid = "C03"
    lean_targets = ["M17.Props.C03"]
    theorems = ["M17.C03.gen_consts", "M17.C03.step_finv", "M17.C03.run_finv", "M17.C03.mid_step", "M17.C03.steady_next_symbol",
                "M17.C03.frame_delivery", "M17.C03.doStreamSync_spec", "M17.C03.step_dcd_on", "M17.C03.coast_step", "M17.C03.coasting_bounded", "M17.C03.locked_step", "M17.C03.lock_needs_decodable_frames"]
    level_text = ("PARTIAL proof. Lean 4 theorems about the control skeleton of M17Demodulator::operator() (M17/Model/Demod.lean: the seven-state "
                  "sync/frame machine, its counters, the symbol-sampling schedule and the framer index, with every analog quantity — correlator "
                  "triggers, carrier-detect decisions, clock estimates, Viterbi cost, decoder state — an arbitrary per-sample event), for ALL event "
                  "sequences: (run_finv, induction over the sample history) the framer index is even, below 368, and non-zero only while a frame is "
                  "being collected, so every 368-soft-bit frame handed to the decoder is 184 consecutive symbols of one FRAME episode; "
                  "(frame_delivery) a frame is delivered only by the 184th symbol and leaves the framer empty; (steady_next_symbol, induction "
                  "over the 90 samples with an explicit invariant) after a completed stream frame, whether the next sync word is found early, "
                  "late or missed altogether (coasting), no symbol is taken for 89 samples and the 90th sample takes the first symbol of the next "
                  "frame at the unchanged sample index — exactly the 8 sync symbols are skipped, nothing lost, nothing taken twice. The "
                  "skeleton is tied to the code by trace inclusion: every observed per-sample transition of the real demodulator's public state "
                  "(clean, noisy, corrupted and history runs) must be a transition of the model under some event. NOT proved: that the analog "
                  "estimators deliver the right soft bits (matched filter, Kalman clock, deviation/offset, LLR) — explored end to end: "
                  "transmitter baseband x channel envelope x histories through the real demodulator, oracle = after 8 consecutive bit-exact "
                  "frames every following frame exactly once, in order, bit-exact, through the EOS frame; reported LSF equals the transmitted one.")
    design_ref = "DESIGN.md §5 C03"
    level_note = ("Trusted: Lean kernel; the hand-written skeleton tied by trace inclusion (existential search over a finite candidate set of event "
                  "records per sample); constants regenerated from the header by dump_tables.cpp; Blaze stand-in; the C++ transmitter as signal "
                  "source (C13); windowed-sinc resampler of the harness for delay/ppm. Axioms: propext, Classical.choice, Quot.sound only.")
    technique = "Lean 4 proof (invariants by induction over all event histories of the demodulator's control skeleton) + trace-inclusion correspondence with the real demodulator + end-to-end channel/history exploration with a payload oracle"
    rule = ("transmissions of the repository's transmitter (random audio -> codec2 payloads, random callsigns, CAN) x gain 0.3..3.5 x dc +-0.03 x "
            "noise sigma 0..0.005 x sub-sample delay x +-200 ppm (windowed-sinc resampling) x lead-in history {none, zeros, noise, constant, tone, "
            "earlier transmission} x lengths 20..300 frames; one run in three with a second demodulator instance receiving looped end-of-transmission "
            "bursts interleaved in the same process; oracle from the transmitted payload list; distinct = distinct parameter tuples; "
            "non-trivial = steady reception reached with at least 10 frames following")

    def setup_drivers(self):
        return list(demodlib.drivers())

    def impl_driver(self, ctx):
        return demodlib.drivers()[0]

    def explore(self, ctx, demod, mod, n, lengths, stress=0):
        rng = ctx.rng
        alph = S.ALPH[1:]
        for k in range(n + stress):
            src = "".join(rng.choice(alph) for _ in range(rng.randrange(1, 10)))
            dst = "" if (rng.random() < 0.15 or k == 0) else "".join(rng.choice(alph) for _ in range(rng.randrange(1, 10)))
            can = rng.randrange(16)
            nfr = rng.choice(lengths) if k < n else 300
            kind = rng.random() if k < n else 0.0
            if kind < 0.6:
                audio = [rng.randrange(-8000, 8000) for _ in range(320 * nfr)]
            elif kind < 0.8:
                audio = [0] * (320 * nfr)                   # silence: identical codec2 payloads, frames differ by frame number only
            else:
                audio = [rng.choice([-30000, 30000]) for _ in range(320 * nfr - rng.randrange(0, 320))]
            tx, _, _ = demodlib.transmission(ctx, mod, src, dst, can, audio)
            sent = demodlib.sent_stream_payloads(ctx, mod, audio)
            lsf = list(S.make_lsf(dst, src, typ=0x0005, can=can))
            for trial in range(10 if k == 0 else 3):
                p = {"gain": rng.choice([300, 1000, 3500, rng.randrange(300, 3501)]), "dc": rng.randrange(-300, 301), "sigma": rng.choice([0, 5, 20, 50]),
                     "delay": rng.randrange(1000), "ppm": rng.choice([-200, 200, 0, rng.randrange(-200, 201)]), "lead": rng.randrange(6),
                     "leadn": rng.choice([0, 0, 137, 1920, 5000, 48000]), "level": rng.choice([0, 10, 100, 1000, 5000]), "seed": rng.randrange(10 ** 6), "app": 0}
                if k >= n:
                    # corners of the envelope held for a whole 12 s transmission: clock error at its limits, amplitude at both ends
                    p.update(gain=[300, 3500, 300][trial], ppm=[200, -200, -200][trial], sigma=rng.choice([0, 20]), lead=rng.choice([0, 1]), leadn=rng.choice([0, 1920]))
                if trial == 2:
                    p["app"] = 3        # a second demodulator instance runs interleaved in the same process (shared function-local statics)
                    ctx.stat("rx:runs-with-second-instance")
                pre = []
                if (rng.random() < 0.2 or k == 0) and k < n:
                    # (the first case always: a COMPLETE earlier transmission of another station to the same destination, then this one -
                    # LICH fragments 0, 3 and 4 of the two link setup frames are byte-identical)
                    a2 = [rng.randrange(-8000, 8000) for _ in range(320 * (80 if k == 0 else 6))]      # long enough to be received completely (LSF through the LICH)
                    prev, _, _ = demodlib.transmission(ctx, mod, "N0CALL", "", 3, a2)
                    pre = (prev if (rng.random() < 0.5 or k == 0) else prev[:rng.randrange(2000, len(prev) + 1)]) + [0] * rng.choice([0, 480, 9600])
                n_pre = 0
                if pre:
                    # how many callbacks does the earlier transmission alone produce? (the receiver is causal: everything delivered beyond
                    # that count in the joint run was delivered after the new transmission began, so an LSF there must be the new one)
                    _, rep_pre, rc_pre, _ = demodlib.run_rx(ctx, demod, p, pre)
                    if rc_pre == 0:
                        n_pre = len(demodlib.parse_frames(rep_pre)[1])
                ln, rep, rc, err = demodlib.run_rx(ctx, demod, p, pre + tx)
                key = (src, dst, can, nfr, tuple(sorted(p.items())), len(pre))
                if rc != 0:
                    ctx.count(key, nontrivial=False)
                    ctx.violate(f"rx:abort:{core.first_frame(err)}", f"demodulator aborted: {core.first_err_line(err)}",
                                {"stream": "rx", "params": p, "ops_file": demodlib.save_ops([ln]), "stderr": err[-2000:]})
                    continue
                h, frames = demodlib.parse_frames(rep)
                res = demodlib.judge_delivery(sent, frames)
                nontriv = res["steady_frame"] is not None and len(sent) - res["steady_frame"] >= 10
                ctx.count(key, nontrivial=nontriv)
                ctx.stat("rx:runs")
                if res["steady_frame"] is None:
                    ctx.stat("rx:no-steady-reception(short transmission; C06's subject)")
                    continue
                ctx.stat("rx:frames-checked-after-steady", len(sent) - res["steady_frame"])
                # any LSF reported during this transmission equals the transmitted one
                started = False
                for i_f, f in enumerate(frames):
                    if f[0] == "S" and tuple(f[2]) in {tuple(x) for x in sent[:3]}:
                        started = True
                    if f[0] == "L" and (started or not pre or i_f >= n_pre) and f[1] != lsf:
                        res["problems"].append(f"link setup frame reported differs from the transmitted one: {f[1]} / {lsf}")
                        break
                if h and (h[0] > 9 or h[1] >= 368):
                    res["problems"].append(f"index out of range: sample_index max {h[0]}, framer fill max {h[1]}")
                if res["problems"]:
                    what = res["problems"][0]
                    sig = "rx:" + what.split(" (")[0].split(":")[0][:40].replace(" ", "-")
                    sig = "rx:" + ("lost" if "lost" in what or "never delivered" in what else "dup" if "again" in what else "corrupt" if "corrupted" in what else "lsf" if "link setup" in what else "index")
                    ctx.violate(sig, f"steady reception from frame {res['steady_frame']} of {len(sent)}, then: {what} [gain {p['gain']/1000}, dc {p['dc']/1e4}, sigma {p['sigma']/1e4}, "
                                     f"delay {p['delay']/1000}, {p['ppm']} ppm, lead kind {p['lead']} x {p['leadn']}]",
                                {"stream": "rx", "params": p, "src": src, "dst": dst, "can": can, "frames": nfr, "problems": res["problems"][:5],
                                 "ops_file": demodlib.save_ops([ln]), "sent_payloads_file": demodlib.save_ops([" ".join(map(str, x)) for x in sent])})

    def dual_stage(self, ctx, demod, mod, n):
        """a second demodulator instance in the same process keeps receiving end-of-transmission bursts while the first is in steady reception
        of a long clean transmission (the function-local statics are shared): the first one's delivery must be unaffected"""
        rng = ctx.rng
        # corpus first: the witness of the defect repaired in d37d962 (statics shared by all instances), found by this stage in the thorough tier
        import gzip, os
        wit = os.path.join(core.VERIF, "corpus", "C03-second-instance.ops.gz")
        if os.path.exists(wit):
            wl = gzip.open(wit, "rt").read().strip().split("\n")[0]
            wsent = [list(map(int, l.split())) for l in gzip.open(wit.replace(".ops.gz", ".sent.gz"), "rt").read().strip().split("\n")]
            wout, wrc, werr = ctx.run_lines(demod, [wl], timeout=900)
            ctx.count(("dual", "corpus"), nontrivial=True)
            ctx.stat("rx:dual-instance-runs")
            if wrc != 0:
                ctx.violate(f"rx2:abort:{core.first_frame(werr)}", f"demodulator aborted with a second instance in the process (corpus witness): {core.first_err_line(werr)}",
                            {"stream": "rx", "ops_file": wit, "stderr": werr[-2000:]})
            else:
                _, wfr = demodlib.parse_frames(wout[0])
                wres = demodlib.judge_delivery(wsent, wfr)
                if wres["steady_frame"] is not None and wres["problems"]:
                    ctx.violate("rx2:second-instance", f"corpus witness (41-frame transmission at gain 2.926, 200 ppm, next to a second instance receiving EOT bursts): steady reception from frame "
                                f"{wres['steady_frame']}, then: {wres['problems'][0]}", {"stream": "rx", "ops_file": wit, "sent_payloads_file": wit.replace(".ops.gz", ".sent.gz"), "problems": wres["problems"][:5]})
        nfr = 200
        audio = [rng.randrange(-8000, 8000) for _ in range(320 * nfr)]
        tx, _, _ = demodlib.transmission(ctx, mod, "W1AW", "N0CALL", 5, audio)
        sent = demodlib.sent_stream_payloads(ctx, mod, audio)
        for trial in range(n):
            p = {"gain": rng.choice([300, 1000, 3500]), "dc": rng.randrange(-300, 301), "sigma": [0, 20, 50][trial % 3], "delay": rng.randrange(1000),
                 "ppm": [0, 200, -200, 60, -60, 120][trial % 6], "lead": 0, "leadn": 0, "level": 0, "seed": rng.randrange(10 ** 6), "app": 3}
            if trial < 2:
                p.update(gain=1000, dc=0)
            ln, rep, rc, err = demodlib.run_rx(ctx, demod, p, tx)
            ctx.count(("dual", tuple(sorted(p.items()))), nontrivial=True)
            ctx.stat("rx:dual-instance-runs")
            if rc != 0:
                ctx.violate(f"rx2:abort:{core.first_frame(err)}", f"demodulator aborted with a second instance in the process: {core.first_err_line(err)}",
                            {"stream": "rx", "params": p, "ops_file": demodlib.save_ops([ln]), "stderr": err[-2000:]})
                continue
            h, frames = demodlib.parse_frames(rep)
            res = demodlib.judge_delivery(sent, frames)
            if res["steady_frame"] is not None and res["problems"]:
                ctx.violate("rx2:second-instance", f"steady reception from frame {res['steady_frame']} of {len(sent)} while a second demodulator instance in the same process "
                            f"receives end-of-transmission bursts, then: {res['problems'][0]} [gain {p['gain']/1000}, sigma {p['sigma']/1e4}, {p['ppm']} ppm]",
                            {"stream": "rx", "params": p, "problems": res["problems"][:5], "ops_file": demodlib.save_ops([ln]),
                             "sent_payloads_file": demodlib.save_ops([" ".join(map(str, x)) for x in sent])})

    def traces(self, ctx, demod, mod, n):
        """trace inclusion: observed transitions of the real demodulator vs the control skeleton"""
        rng = ctx.rng
        nfr = 30
        audio = [rng.randrange(-8000, 8000) for _ in range(320 * nfr)]
        tx, _, _ = demodlib.transmission(ctx, mod, "W1AW", "N0CALL", 5, audio)
        a2 = [rng.randrange(-8000, 8000) for _ in range(320 * 6)]
        prev, _, _ = demodlib.transmission(ctx, mod, "K9XYZ", "", 3, a2)
        for trial in range(n):
            p = {"gain": rng.choice([300, 1000, 3500]), "dc": rng.randrange(-300, 300), "sigma": rng.choice([0, 0, 50, 500, 2000]), "delay": rng.randrange(1000),
                 "ppm": rng.randrange(-200, 200), "lead": rng.randrange(6), "leadn": rng.choice([0, 500, 5000, 20000]), "level": rng.choice([0, 100, 3000]),
                 "seed": rng.randrange(10 ** 6), "app": 2}
            if trial == 0:
                p.update(gain=1000, dc=0, sigma=0, delay=0, ppm=0, lead=0, leadn=0)
            s2 = list(tx)
            if trial % 2:
                for _ in range(rng.randrange(1, 10)):
                    i = rng.randrange(len(s2)); ln_ = rng.randrange(1, 6000)
                    kind = rng.random()
                    for j in range(i, min(len(s2), i + ln_)):
                        s2[j] = 0 if kind < 0.4 else (rng.randrange(-32768, 32768) if kind < 0.8 else -s2[j])
            if trial % 4 in (1, 3):
                # blank the sync words of a run of consecutive frames: the data still decodes, the demodulator has to coast
                k0 = rng.randrange(16, 20); run = rng.choice([1, 2, 5, 9, 12]) if trial % 4 == 1 else 14
                for k in range(k0, min(k0 + run, nfr)):
                    b = (2 + k) * 1920 + 70
                    for j in range(b, min(len(s2), b + 110)):
                        s2[j] = 0
            pre = (prev[:rng.randrange(500, len(prev))] + [0] * rng.choice([0, 77, 4803])) if trial % 3 == 2 else []
            ln, rep, rc, err = demodlib.run_rx(ctx, demod, p, pre + s2)
            ctx.count(("trace", tuple(sorted(p.items())), trial), nontrivial=True)
            if rc != 0 or not rep.startswith("demod_trace"):
                ctx.violate(f"trace:abort:{core.first_frame(err)}", f"demodulator aborted while tracing: {core.first_err_line(err)}",
                            {"stream": "trace", "params": p, "ops_file": demodlib.save_ops([ln]), "stderr": err[-2000:]})
                continue
            out = ctx.run_model([rep])[0]
            f = out.split()
            if f[0] == "ok":
                ctx.traces += 1
                ctx.stat("trace:transitions-explained", int(f[1]))
                ctx.stat("trace:frames", int(f[2]))
                ctx.stat("trace:symbols", int(f[3]))
            else:
                # the skeleton no longer describes the code: look for a concrete failing input with the end-to-end oracle (done by explore());
                # if it finds none this stays a broken tie
                ctx.violate("trace:tie", f"an observed transition of the demodulator is not a transition of the control skeleton: {out[:600]}",
                            {"stream": "trace", "params": p, "ops_file": demodlib.save_ops([ln]), "model_reply": out[:3000],
                             "broken": "trace inclusion M17.Demod.follow (theorems M17.C03.run_finv / steady_next_symbol no longer speak about this code)"},
                            concrete=False)

    def mode_traces(self, ctx, demod, mod, n):
        """trace inclusion in the other receive modes: packet superframes (raw and encapsulated) and BERT transmissions, built by the
        specification encoder and shaped by m17-mod's own filter; clean, with one sync word blanked, and with a long run of sync words
        blanked (coasting, then give-up) - the skeleton's do_packet_sync / do_bert_sync transitions against the real ones"""
        rng = ctx.rng
        g = decgen.Gen(rng)
        for trial in range(n):
            kind = ("pkt_raw", "pkt_enc", "bert")[trial % 3]
            nfr = rng.randrange(8, 24)
            if kind == "bert":
                s, _ = demodlib.bert_transmission(ctx, mod, nfr, start=rng.randrange(1, 512))
            else:
                s, _ = demodlib.packet_transmission(ctx, mod, rng, g.rand_lsf(0x0002 if kind == "pkt_raw" else 0x0004), nfr)
            s2 = list(s)
            variant = (trial // 3) % 3
            first = 3 if kind != "bert" else 2            # index of the first payload frame in 1920-sample units (2 preambles, LSF)
            if variant:
                ks = [rng.randrange(2, nfr)] if variant == 1 else range(rng.randrange(2, 6), nfr)
                for k in ks:
                    b = (first + k) * 1920 + 70
                    for j in range(b - 80, min(len(s2), b + 30)):
                        s2[j] = 0
            p = {"gain": rng.choice([500, 1000, 2000]), "dc": rng.randrange(-100, 100), "sigma": rng.choice([0, 0, 50]), "delay": rng.randrange(1000),
                 "ppm": rng.randrange(-50, 50), "lead": 2, "leadn": 6000 + rng.randrange(0, 200), "level": 5000, "seed": rng.randrange(10 ** 6), "app": 2}
            if trial < 3:
                p.update(gain=1000, dc=0, sigma=0, delay=0, ppm=0, lead=0, leadn=0)
            ln, rep, rc, err = demodlib.run_rx(ctx, demod, p, s2)
            ctx.count(("mode-trace", kind, variant, tuple(sorted(p.items()))), nontrivial=True)
            if rc != 0 or not rep.startswith("demod_trace"):
                ctx.violate(f"trace:abort:{core.first_frame(err)}", f"demodulator aborted while tracing a {kind} transmission: {core.first_err_line(err)}",
                            {"stream": "trace", "params": p, "ops_file": demodlib.save_ops([ln]), "stderr": err[-2000:]})
                continue
            # which states did the real demodulator visit? (6 = PACKET_SYNC, 7 = BERT_SYNC in DemodState order is not assumed: count distinct)
            out = ctx.run_model([rep])[0]
            f = out.split()
            if f[0] == "ok":
                ctx.traces += 1
                ctx.stat(f"trace:{kind}:transitions-explained", int(f[1]))
                ctx.stat(f"trace:{kind}:frames", int(f[2]))
            else:
                ctx.violate("trace:tie", f"an observed transition of the demodulator ({kind} transmission) is not a transition of the control skeleton: {out[:600]}",
                            {"stream": "trace", "params": p, "ops_file": demodlib.save_ops([ln]), "model_reply": out[:3000],
                             "broken": "trace inclusion M17.Demod.follow (theorems M17.C03.run_finv / coasting_bounded no longer speak about this code)"},
                            concrete=False)

    def run(self, ctx):
        demod, mod = demodlib.drivers()
        quick = ctx.tier == "quick"
        self.traces(ctx, demod, mod, 8 if quick else 60)
        self.mode_traces(ctx, demod, mod, 9 if quick else 45)
        self.dual_stage(ctx, demod, mod, 8 if quick else 60)
        self.explore(ctx, demod, mod, 10 if quick else 150, [20, 40, 60, 120] if quick else [20, 40, 60, 120, 300], stress=2 if quick else 20)


PROP = C03()

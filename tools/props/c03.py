"""C03 — demodulator tracking: in steady reception no frame is lost or corrupted."""
from lib import core, demodlib, m17spec as S
from lib.prop import Prop


class C03(Prop):
    pid = "C03"
    lean_targets = ["M17.Props.C03"]
    theorems = []
    level_text = ""
    design_ref = "DESIGN.md §5 C03"
    level_note = ""
    technique = ""
    rule = ("transmissions of the repository's transmitter (random audio -> codec2 payloads, random callsigns, CAN) x gain 0.3..3.5 x dc +-0.03 x "
            "noise sigma 0..0.005 x sub-sample delay x +-200 ppm (windowed-sinc resampling) x lead-in history {none, zeros, noise, constant, tone, "
            "earlier transmission} x lengths 20..300 frames; oracle from the transmitted payload list; distinct = distinct parameter tuples; "
            "non-trivial = steady reception reached with at least 10 frames following")

    def setup_drivers(self):
        return list(demodlib.drivers())

    def impl_driver(self, ctx):
        return demodlib.drivers()[0]

    def explore(self, ctx, demod, mod, n, lengths):
        rng = ctx.rng
        alph = S.ALPH[1:]
        for k in range(n):
            src = "".join(rng.choice(alph) for _ in range(rng.randrange(1, 10)))
            dst = "" if rng.random() < 0.15 else "".join(rng.choice(alph) for _ in range(rng.randrange(1, 10)))
            can = rng.randrange(16)
            nfr = rng.choice(lengths)
            kind = rng.random()
            if kind < 0.6:
                audio = [rng.randrange(-8000, 8000) for _ in range(320 * nfr)]
            elif kind < 0.8:
                audio = [0] * (320 * nfr)                   # silence: identical codec2 payloads, frames differ by frame number only
            else:
                audio = [rng.choice([-30000, 30000]) for _ in range(320 * nfr - rng.randrange(0, 320))]
            tx, _, _ = demodlib.transmission(ctx, mod, src, dst, can, audio)
            sent = demodlib.sent_stream_payloads(ctx, mod, audio)
            lsf = list(S.make_lsf(dst, src, typ=0x0005, can=can))
            for trial in range(3):
                p = {"gain": rng.choice([300, 1000, 3500, rng.randrange(300, 3501)]), "dc": rng.randrange(-300, 301), "sigma": rng.choice([0, 5, 20, 50]),
                     "delay": rng.randrange(1000), "ppm": rng.choice([-200, 200, 0, rng.randrange(-200, 201)]), "lead": rng.randrange(6),
                     "leadn": rng.choice([0, 0, 137, 1920, 5000, 48000]), "level": rng.choice([0, 10, 100, 1000, 5000]), "seed": rng.randrange(10 ** 6), "app": 0}
                pre = []
                if rng.random() < 0.2:
                    a2 = [rng.randrange(-8000, 8000) for _ in range(320 * 6)]
                    prev, _, _ = demodlib.transmission(ctx, mod, "N0CALL", "", 3, a2)
                    pre = prev[:rng.randrange(2000, len(prev) + 1)] + [0] * rng.choice([0, 480, 9600])
                ln, rep, rc, err = demodlib.run_rx(ctx, demod, p, pre + tx)
                key = (src, dst, can, nfr, tuple(sorted(p.items())), len(pre))
                if rc != 0:
                    ctx.count(key, nontrivial=False)
                    ctx.violate(f"rx:abort:{core.first_frame(err)}", f"demodulator aborted: {core.first_err_line(err)}",
                                {"stream": "rx", "params": p, "ops_file": demodlib.save_ops([ln]), "stderr": err[-2000:]})
                    continue
                h, frames = demodlib.parse_frames(rep)
                res = demodlib.judge_delivery(sent, frames)
                nontriv = res["steady_frame"] is not None and len(sent) - res["steady_frame"] >= 10
                ctx.count(key, nontrivial=nontriv)
                ctx.stat("rx:runs")
                if res["steady_frame"] is None:
                    ctx.stat("rx:no-steady-reception(short transmission; C06's subject)")
                    continue
                ctx.stat("rx:frames-checked-after-steady", len(sent) - res["steady_frame"])
                # any LSF reported during this transmission equals the transmitted one
                started = False
                for f in frames:
                    if f[0] == "S" and tuple(f[2]) in {tuple(x) for x in sent[:3]}:
                        started = True
                    if f[0] == "L" and (started or not pre) and f[1] != lsf:
                        res["problems"].append(f"link setup frame reported differs from the transmitted one: {f[1]} / {lsf}")
                        break
                if h and (h[0] > 9 or h[1] >= 368):
                    res["problems"].append(f"index out of range: sample_index max {h[0]}, framer fill max {h[1]}")
                if res["problems"]:
                    what = res["problems"][0]
                    sig = "rx:" + what.split(" (")[0].split(":")[0][:40].replace(" ", "-")
                    sig = "rx:" + ("lost" if "lost" in what or "never delivered" in what else "dup" if "again" in what else "corrupt" if "corrupted" in what else "lsf" if "link setup" in what else "index")
                    ctx.violate(sig, f"steady reception from frame {res['steady_frame']} of {len(sent)}, then: {what} [gain {p['gain']/1000}, dc {p['dc']/1e4}, sigma {p['sigma']/1e4}, "
                                     f"delay {p['delay']/1000}, {p['ppm']} ppm, lead kind {p['lead']} x {p['leadn']}]",
                                {"stream": "rx", "params": p, "src": src, "dst": dst, "can": can, "frames": nfr, "problems": res["problems"][:5],
                                 "ops_file": demodlib.save_ops([ln]), "sent_payloads_file": demodlib.save_ops([" ".join(map(str, x)) for x in sent])})

    def run(self, ctx):
        demod, mod = demodlib.drivers()
        quick = ctx.tier == "quick"
        self.explore(ctx, demod, mod, 10 if quick else 150, [20, 40, 60, 120] if quick else [20, 40, 60, 120, 300])


PROP = C03()

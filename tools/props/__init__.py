"""registry of property checkers"""
import importlib

REGISTRY = {}
for _m in ["c01", "c02", "c03", "c04", "c05", "c06", "c07", "c08", "c09", "c10", "c11", "c12", "c13", "c14", "c15", "c16", "c17", "c18", "c19", "c20"]:
    mod = importlib.import_module("props." + _m)
    REGISTRY[mod.PROP.pid] = mod.PROP

"""C16 — queue blocking and shutdown: forever means forever, close ends waits promptly."""
from lib import core
from lib.prop import Prop


class C16(Prop):
    pid = "C16"
    lean_targets = ["M17.Props.C16", "M17.Props.C16W"]
    theorems = ["M17.C16.blocks_only_when_it_must", "M17.C16.forever_never_gives_up", "M17.C16.close_ends_waits", "M17.C16.close_drains",
                "M17.C16.get_on_closed_is_immediate", "M17.C16.wake_enabled",
                "M17.C16W.gen_profile_ok", "M17.C16W.step_inv", "M17.C16W.run_inv", "M17.C16W.no_lost_wakeup"]
    level_text = ("Lean 4 theorems on the segment-level model of queue.h, for every reachable state: a put starts waiting only if the queue is full "
                  "and open, a get only if it is empty and not closed; with the default time-out a put returns false only if the queue is not "
                  "open and a get only if it is closed and empty; after close a woken putter returns false in its next segment and a woken "
                  "getter takes an item if any is left, else fails; items present at close are delivered, the get that takes the last one makes the "
                  "queue CLOSED, and a get on a drained closed queue fails in its first segment without waiting; a time-out wake-up exists exactly "
                  "for finite time-outs. Wake-up bookkeeping (M17/Model/QueueWake.lean, notify calls taken from the current source by "
                  "tools/gen_queue.py): for every sequence of arrivals, notified / spurious / timed-out resumptions and close, a consumer sleeps "
                  "un-notified only while notified consumers cover every queued item, a producer only while notified producers cover every free "
                  "slot, and after close nobody sleeps un-notified (no_lost_wakeup, induction over the operation history). What the model cannot exhibit — that the real condition variables do return and the chrono deadline "
                  "arithmetic does not overflow — is measured on every run by timing probes on the real queue (still blocked after 250 ms, "
                  "released by the peer, close returns blocked callers within 100 ms, drained closed get returns within 50 ms) under UBSan.")
    design_ref = "DESIGN.md §5 C16"
    level_note = ("Trusted: Lean kernel; std::condition_variable semantics (wait returns after notify / deadline); the segment model validated by "
                  "C15's trace replay. Partial: promptness in wall-clock terms is measured, not proved. Axioms: propext, Classical.choice, Quot.sound only.")
    technique = "Lean 4 proof (case analysis of every lock-held segment of the queue model) + timing probes and UBSan on the real queue"
    rule = ("multi-waiter probes W1-W5 (2-3 callers blocked on one condition variable, then put+close / two puts / close / two gets / get+close; "
            "late return or wrong outcome = violation); timing probes on capacities 1,2,3,96: default-timeout put on full / get on empty, close with blocked callers, close with items then "
            "drain, finite time-outs of 100 ms; each probe returns measured facts judged against thresholds; sequential words around close "
            "(shared with C15); distinct = probe x capacity; non-trivial = all")

    def setup_drivers(self):
        return [core.build_cpp("drv_queue", ["drv_queue.cpp"])]

    def impl_driver(self, ctx):
        return core.build_cpp("drv_queue", ["drv_queue.cpp"])

    def run(self, ctx):
        exe = self.impl_driver(ctx)
        caps = [1, 2, 3, 96]
        lines = [f"qtime {c}" for c in caps]
        if ctx.tier != "quick":
            lines = lines * 5
        out = ctx.run_impl(exe, lines, "queue-time", timeout=90)
        for ln, o in zip(lines, out):
            f = o.split()
            ctx.count((ln, o), nontrivial=True)
            ctx.evaluations += 4
            if len(f) != 23:
                continue
            v = [int(x) for x in f]
            checks = [
                (v[0] == 0 and v[1] == 1, f"default-timeout put on a full queue: blocked-after-250ms={v[0] == 0}, returned {bool(v[1])} (must block, then succeed when a consumer takes an item)", "forever-put"),
                (v[3] == 0 and v[4] == 1 and v[5] == 7, f"default-timeout get on an empty queue: blocked-after-250ms={v[3] == 0}, returned {bool(v[4])} value {v[5]}", "forever-get"),
                (v[6] <= 100 and v[7] == 0 and v[8] == 0, f"close() with a blocked putter and getter: both returned after {v[6]} ms with put={v[7]} get={v[8]} (must be prompt, both false)", "close-wakes"),
                (v[9] == 0, "put after close succeeded", "closed-put"),
                (v[10] == 0 and v[11] == 1 and v[12] == 1, f"queue closed with one item: is_closed before drain={v[10]}, get={v[11]} value {v[12]}", "close-drains"),
                (v[13] == 1, "queue closed and drained does not report is_closed()", "closed-after-drain"),
                (v[14] == 0 and v[15] <= 50, f"get on a drained closed queue returned {v[14]} after {v[15]} ms (must fail at once, not wait out its 2 s time-out)", "closed-get-immediate"),
                (v[16] == 0 and 80 <= v[17] <= 400, f"get with 100 ms time-out on an empty open queue returned {v[16]} after {v[17]} ms", "finite-get"),
                (v[18] == 0 and 80 <= v[19] <= 400, f"put with 100 ms time-out on a full open queue returned {v[18]} after {v[19]} ms", "finite-put"),
            ]
            for ok, what, key in checks:
                ctx.stat("probe:" + key)
                if not ok:
                    ctx.violate(f"queue-time:{key}", f"queue<int,{ln.split()[1]}>: {what}", {"stream": "queue-time", "ops": [ln], "impl": o})
        ctx.sample({"op": lines[0], "reply": out[0]})
        # several waiters on one condition variable: every one of them must be released by the event that ends its wait
        wl = [f"qwake {c} {3 if ctx.tier == 'quick' else 15}" for c in (1, 2, 3)]
        wout = ctx.run_impl(exe, wl, "queue-wake", timeout=240)
        names = ["W1 consumers blocked, put+close", "W2 two consumers, two puts", "W3 producers blocked on full queue, close", "W4 two producers, two gets", "W5 producer blocked, get+close",
                 "W6 consumer blocked, an item put and taken at once by another caller"]
        for ln, o in zip(wl, wout):
            f = o.split()
            if len(f) != 18:
                continue
            v = [int(x) for x in f]
            for i, nm in enumerate(names):
                n, worst, anom = v[3 * i:3 * i + 3]
                if n == 0:
                    continue
                ctx.count((ln, nm), nontrivial=True)
                ctx.stat("wake:" + nm.split()[0], n)
                late = worst > 400
                bad = (i in (0, 2, 4, 5) and anom > 0)
                if late or bad:
                    why = ("slowest waiter returned after %d ms (its own time-out is 2000 ms; must be released at once)" % worst if late or i in (0, 2) else
                           "after close() returned the queue accepted an item (CLOSED while holding one), or an accepted item was not delivered" if i == 4 else
                           "a get gave up (returned false) on an open queue long before its time-out")
                    ctx.violate(f"queue-wake:{nm.split()[0]}",
                                f"queue<int,{ln.split()[1]}> {nm}: {why}, {anom} anomalous outcomes in {n} trials",
                                {"stream": "queue-wake", "ops": [ln], "impl": o, "scenario": nm})
        # sequential words around close, against the model
        rng = ctx.rng
        words = []
        for _ in range(300):
            cap = rng.choice([1, 2, 3])
            toks = [cap]
            for _ in range(rng.randrange(0, 4)):
                toks += [1, rng.randrange(100)]
            toks += [5]
            for _ in range(rng.randrange(1, 10)):
                t = rng.choice([1, 3, 3, 3, 6, 7, 8, 9, 5, 4])
                toks.append(t)
                if t == 1:
                    toks.append(rng.randrange(100))
            words.append("qseq " + " ".join(map(str, toks)))
        impl = ctx.run_impl(exe, words, "queue-seq", timeout=600)
        if ctx.model_ok:
            model = ctx.run_model(words)
            ctx.compare("queue-seq", words, impl, model,
                        oracle=lambda ln, a: "behaviour around close() differs from the specification (drain, CLOSED after drain, immediate failure)", sig=lambda ln: "close-word")
            ctx.traces += len(words)


PROP = C16()

"""C12 — soft demapper: sign = nearest symbol's dibit, magnitude monotone, never zero."""
import struct, math
from lib import core
from lib.prop import Prop


def fbits(x):
    return struct.unpack("<I", struct.pack("<f", x))[0]


def dbits(x):
    b = struct.unpack("<Q", struct.pack("<d", x))[0]
    return b - (1 << 64) if b >= (1 << 63) else b


class C12(Prop):
    pid = "C12"
    lean_targets = ["M17.Props.C12", "M17.Props.C12M"]
    theorems = ["M17.C12.lookup_mem", "M17.C12.llr_nonzero_bounded", "M17.C12.llr_sign_is_gray_dibit", "M17.C12.llr1_antitone",
                "M17.C12.llr_saturates", "M17.C12.table_F4", "M17.C12.table_D4", "M17.C12.table_F3", "M17.C12.table_D3",
                "M17.C12.table_F2", "M17.C12.table_D2", "M17.C12.levels_width4", "M17.C12.levels_width23",
                "M17.C12M.lookup_up", "M17.C12M.lookup_down", "M17.C12M.lookup_first", "M17.C12M.llr0_monotone_in_abs",
                "M17.C12M.second_bit_monotone_all_tables"]
    level_text = ("Lean 4 theorems, generic in the table under a decidable predicate TableOK and holding for EVERY float and double value "
                  "(values are exact integers in units of 2^-1074; NaN and infinities included): both soft bits non-zero and within +-L; signs "
                  "are the Gray dibit of the nearest level outside a 2^-20 guard band around 0 and +-2 (stronger than the 1e-6 of the property); "
                  "the first soft bit never increases with the sample; everything beyond +-3 and NaN maps to the value at +-3 / -3; then TableOK "
                  "and column monotonicity for the six tables compiled from the current make_llr_map (float/double x widths 2,3,4) and full "
                  "confidence at the ideal levels, by kernel evaluation on the exactly dumped tables. The monotonicity of the SECOND bit in |x| "
                  "is a theorem too (M17.Props.C12M: llr0_monotone_in_abs, lifted from the table predicate Monotone2 by induction over the "
                  "sorted table, for every finite value on each side of zero; instantiated for the six tables). The exhaustive sweep of all "
                  "2^32 float patterns (thorough) / 2^26 (quick) on the C++ and the model comparison tie the tables' use to the code.")
    design_ref = "DESIGN.md §5 C12"
    level_note = ("Trusted: Lean kernel; dump_tables.cpp (exact dump of thresholds via frexp); IEEE comparison semantics of finite values, "
                  "std::lower_bound / std::min / std::max as modelled (NaN handling by argument order). Axioms: propext, Classical.choice, Quot.sound only.")
    technique = "Lean 4 proof (generic lookup lemmas over sorted threshold tables + kernel-evaluated table predicates on exactly dumped tables) + bit-exact differential correspondence + exhaustive float sweep"
    rule = ("bit patterns: every table threshold +-2 ulp, +-0, subnormals, +-inf, NaNs, ideal levels, decision boundaries +-1e-6, uniform random "
            "bit patterns and uniform random reals in [-4,4], for float and double x widths 2,3,4: C++ llr<F,W> vs Lean model bit-exact; "
            "C++ sweep of consecutive float patterns checks non-zero/bounded/sign/saturation/monotone clauses; distinct = distinct patterns")

    def run(self, ctx):
        exe = self.impl_driver(ctx)
        rng = ctx.rng
        quick = ctx.tier == "quick"
        lines = []
        for d in (0, 1):
            conv = dbits if d else fbits
            specials = [0.0, -0.0, 1.0, -1.0, 2.0, -2.0, 3.0, -3.0, 1e-6, -1e-6, 2 + 1e-6, 2 - 1e-6, -2 - 1e-6, -2 + 1e-6, 1e-7, -1e-7,
                        float("inf"), float("-inf"), float("nan"), 5e-324, -5e-324, 1e-40, -1e-40, 1e38, -1e38, 2.999999, 3.000001, -2.999999]
            for w in (2, 3, 4):
                L = 2 ** (w - 1) - 1
                pats = [conv(x) for x in specials]
                # thresholds of the ideal table and their neighbourhood
                for k in range(-3 * L, 3 * L + 2):
                    base = conv(k / L)
                    pats += [(base + dlt) if d else (base + dlt) % (1 << 32) for dlt in (-2, -1, 0, 1, 2)]
                for _ in range(4000 if quick else 200000):
                    r = rng.random()
                    if r < 0.5:
                        pats.append(conv(rng.uniform(-4, 4)))
                    elif r < 0.8:
                        b = rng.getrandbits(64 if d else 32)
                        pats.append(b - (1 << 64) if d and b >= (1 << 63) else b)
                    else:
                        pats.append(conv(rng.choice([-1, 1]) * rng.choice([0, 2]) + rng.uniform(-3e-6, 3e-6)))
                for i in range(0, len(pats), 2000):
                    lines.append(f"llr {d} {w} " + " ".join(map(str, pats[i:i + 2000])))
        impl = ctx.run_impl(exe, lines, "llr")
        # property oracle on the implementation's own output (python floats are doubles: exact for both types)
        for ln, a in zip(lines, impl):
            f = ln.split()
            d, w = int(f[1]), int(f[2])
            L = 2 ** (w - 1) - 1
            vals = a.split()
            if len(vals) != 2 * (len(f) - 3):
                continue
            for j, pb in enumerate(f[3:]):
                b = int(pb)
                x = struct.unpack("<d", struct.pack("<q", b))[0] if d else struct.unpack("<f", struct.pack("<I", b))[0]
                s1, s2 = int(vals[2 * j]), int(vals[2 * j + 1])
                ctx.count((d, w, b), nontrivial=True)
                bad = None
                if s1 == 0 or s2 == 0 or abs(s1) > L or abs(s2) > L:
                    bad = "zero or out-of-range soft bit"
                elif not math.isnan(x):
                    g = 1e-6
                    if (x <= -g and s1 <= 0) or (x >= g and s1 >= 0):
                        bad = "first soft bit has the wrong sign (positive means bit 1 = negative sample)"
                    elif (abs(x) >= 2 + g and s2 <= 0) or (abs(x) <= 2 - g and s2 >= 0):
                        bad = "second soft bit has the wrong sign (positive for |x| > 2)"
                    elif abs(x) >= 3 and (s2 != L or abs(s1) != L):
                        bad = "not saturated beyond +-3"
                if bad:
                    ty = "double" if d else "float"
                    ctx.violate(f"llr:{ty}:{w}:{bad[:20]}", f"llr<{ty},{w}>({x!r}) = ({s1},{s2}): {bad}",
                                {"stream": "llr", "ops": [f"llr {d} {w} {b}"], "impl": f"{s1} {s2}", "sample": repr(x)})
        if ctx.model_ok:
            model = ctx.run_model(lines)
            ctx.compare("llr", lines, impl, model, oracle=lambda ln, a: None, sig=lambda ln: " ".join(ln.split()[:3]))
            ctx.traces += len(lines)
        ctx.sample({"op": " ".join(lines[0].split()[:8]) + " ...", "impl": " ".join(impl[0].split()[:10]) + " ..."})
        # exhaustive sweep over consecutive float patterns on the C++ (width 4 = the modem's; 2,3 as well)
        span = 1 << (26 if quick else 32)
        chunks = []
        lo0 = 0 if not quick else rng.randrange(0, (1 << 32) - span)
        step = 1 << 22
        for w in (4, 3, 2):
            rng_lo = lo0 if w == 4 or not quick else rng.randrange(0, (1 << 32) - (span >> 2))
            sp = span if w == 4 or not quick else span >> 2
            for lo in range(rng_lo, rng_lo + sp, step):
                chunks.append(f"llr_sweep {w} {lo} {min(lo + step, 1 << 32)}")
            # the interesting region: patterns of values in [-4,4] around the boundaries, always included
            for centre in (0.0, 2.0, -2.0, 1.0, -1.0, 3.0, -3.0):
                c = fbits(centre)
                chunks.append(f"llr_sweep {w} {max(0, c - 200000)} {c + 200000}")
        out = ctx.run_impl(exe, chunks, "llr-sweep", timeout=3600)
        tot = 0
        for ln, o in zip(chunks, out):
            f = o.split()
            if len(f) != 4:
                continue
            tot += int(f[0])
            if int(f[1]):
                kind = {1: "zero/out of range", 2: "first-bit sign", 3: "second-bit sign", 4: "saturation", 5: "first bit not antitone", 6: "second bit not monotone in |x|"}[int(f[3])]
                b = int(f[2])
                x = struct.unpack("<f", struct.pack("<I", b))[0]
                ctx.violate(f"llr-sweep:{ln.split()[1]}:{kind}", f"llr<float,{ln.split()[1]}>: {int(f[1])} patterns violate '{kind}' in sweep {ln}; first at bit pattern {b:#010x} = {x!r}",
                            {"stream": "llr-sweep", "ops": [ln, f"llr 0 {ln.split()[1]} {b}"], "reply": o})
        ctx.evaluations += tot
        ctx.stat("sweep:patterns", tot)
        ctx.exhaustive = not quick


PROP = C12()

"""C14 — M17Modulator emits a complete, well-formed stream for every PTT/audio schedule."""
from lib import core, decgen, m17spec as S
from lib.prop import Prop


def codes(s):
    return " ".join(str(ord(c)) for c in s)


class C14(Prop):
    pid = "C14"
    lean_targets = ["M17.Props.C14", "M17.Props.C14T"]
    theorems = ["M17.C14.active_phase", "M17.C14.keyup_output", "M17.C14.keyup_ends_idle", "M17.C14.idle_discards_audio", "M17.C14.eos_bit",
                "M17.C14T.bytes_ext", "M17.C14T.convEncode_eq_spec", "M17.C14T.channel_eq", "M17.C14T.punctureBytes_bits", "M17.C14T.lichSegment_bits",
                "M17.C14T.sendLinkSetup_eq_spec", "M17.C14T.streamFrame_eq_spec", "M17.C14T.modulator_lsf_decodes", "M17.C14T.modulator_stream_decodes"]
    level_text = ("Lean 4 theorems about the modelled modulate() state machine: from IDLE, ptt_on followed by any number n of audio samples while "
                  "ACTIVE and ptt_off produces exactly preamble, link-setup frame, floor(n/320) audio frames numbered 0,1,2,... (mod 0x8000) with "
                  "LICH fragments cycling 0..5, then one frame carrying the end-of-stream bit, and ends IDLE with audio received while idle "
                  "discarded — for every n (loop invariant by induction). That no byte is lost, duplicated or reordered on the way to a slow "
                  "consumer follows from C15 (FIFO over all schedules) and C16 (default-timeout put never gives up while the queue is open). "
                  "The byte content of each frame is a theorem too (M17.Props.C14T): the model TxModulator of conv_encode / puncture_bytes / the packed-byte "
                  "interleaver / M17ByteRandomizer / make_lich_segment (assign_bit_index) / send_link_setup / make_payload / send_audio_frame produces "
                  "exactly Spec.Tx.lsfFrame and Spec.Tx.streamFrame for every callsign pair over the alphabet, LICH index 0..5, frame number and payload, "
                  "whatever the buffers the code leaves uninitialised held (sendLinkSetup_eq_spec, streamFrame_eq_spec); the model is tied to the real "
                  "modulator by reproducing every frame it emitted in this run. M17 field order, CRC, specification encoding and the real thread "
                  "interleavings are checked on every run: M17Modulator runs with real threads over a codec2 stand-in whose output fingerprints "
                  "its input, under eager / slow / stalling consumers and trickled / bursty audio, 1-3 key-ups; every emitted frame is decoded by "
                  "the repository's decoder and re-encoded by the independent specification encoder and must match bit-for-bit; payload "
                  "fingerprints must show consecutive 320-sample windows.")
    design_ref = "DESIGN.md §5 C14"
    level_note = ("Trusted: Lean kernel; the event-level model of modulate() (one loop iteration per received sample; external ptt_on/ptt_off "
                  "writes between iterations as the documented API requires); codec2 (stubbed); queue theorems C15/C16. Partial: byte content "
                  "and real schedules by correspondence. Axioms: propext, Classical.choice, Quot.sound only.")
    technique = "Lean 4 proof (state-machine invariant by induction over the sample count) + C15/C16 queue theorems + real-thread runs re-encoded by an independent specification encoder"
    rule = ("schedules: consumer {eager, 1 byte/200us, random stalls 5-45 ms} x audio {trickled, bursty} x key-ups 1..3 x 0..4 full frames per "
            "key-up x 0..319 extra samples, random callsigns (1-9 chars, empty destination); oracles: stream grammar, LSF fields and CRC, each "
            "frame re-encoded by the specification encoder, frame numbers / LICH cycle / EOS bit, audio-window continuity via fingerprints, "
            "modulator ends IDLE without exception; distinct = distinct scenario lines; non-trivial = at least one full audio frame")

    def setup_drivers(self):
        return [self.impl_driver(None)]

    def impl_driver(self, ctx):
        return core.build_cpp("drv_modulator", ["drv_modulator.cpp"], extra_inc=[core.HARNESS + "/stub"], deps=["stub/codec2/codec2.h"])

    def run(self, ctx):
        exe = self.impl_driver(ctx)
        dec = core.build_cpp("drv_fec", ["drv_fec.cpp"], deps=["drv_fec_ops.inc", "spec.h"])
        rng = ctx.rng
        quick = ctx.tier == "quick"
        g = decgen.Gen(rng)
        scen = []
        combos = [(c, a) for c in (0, 1, 2) for a in (0, 1)]
        for i in range(8 if quick else 120):
            c, a = combos[i % len(combos)]
            src = g.rand_call(); dst = g.rand_call() if rng.random() < 0.7 else ""
            if i % 4 == 3:                                      # a space inside a callsign is the alphabet's digit 0 ("M17 A")
                a_, b_ = g.rand_call()[:4], g.rand_call()[:4]
                dst = a_ + " " + b_
                if i % 8 == 7:
                    src = b_ + " " + a_
            keyups = rng.choice([1, 1, 2, 3])
            plan = [(rng.choice([0, 1, 2, 4, 6, 7, 13]), rng.choice([0, 0, 1, 159, 160, 319, rng.randrange(320)])) for _ in range(keyups)]
            if i == 1:
                keyups, plan = 1, [(7, 3)]                      # more than six stream frames: every LICH fragment is sent
            if i == 2:
                keyups, plan = 2, [(1, 200), (0, 12)]           # a short key-up after a longer partial block
            if i == 3:
                keyups, plan = 3, [(0, 319), (0, 0), (2, 161)]
            frames, extra = plan[0]
            scen.append((src, dst, keyups, plan, extra, c, a,
                         (f"modrun {rng.randrange(1, 10**6)} {c} {a} {keyups} {frames} {extra} {len(src)} {codes(src)} {len(dst)} {codes(dst)} ".replace("  ", " ")
                          + " ".join(f"{f} {e}" for f, e in plan)).strip()))
        out = ctx.run_impl(exe, [s[-1] for s in scen], "modulator", timeout=600)
        for (src, dst, keyups, frames, extra, c, a, ln), o in zip(scen, out):
            ctx.count(ln, nontrivial=any(f > 0 for f, _ in frames))
            ctx.stat(f"consumer{c}:audio{a}")
            if " | " not in o:
                continue
            head, body = o.split(" | ")
            st, exc = head.split()
            data = bytes(int(x) for x in body.split())
            bad = self.judge(ctx, dec, data, src, dst, keyups, frames, extra)
            if st != "1" or exc != "0":
                bad = bad or f"modulator did not end IDLE cleanly (state {st}, exception {exc})"
            if bad:
                key = bad.split(":")[0][:50]
                ctx.violate(f"modulator:{key}", f"M17Modulator(src={src!r}, dst={dst!r}), {keyups} key-up(s) with (full blocks, extra samples) = {frames}, consumer mode {c}: {bad}",
                            {"stream": "modulator", "ops": [ln], "output_bytes": len(data)})
        ctx.sample({"op": scen[0][-1], "reply": out[0][:120] + " ..."})
        self.long_keyup(ctx, exe, dec)
        self.api_sequences(ctx, exe, dec)

    def api_sequences(self, ctx, exe, dec):
        """callsigns changed through source() / dest() between key-ups of one modulator: every key-up must carry the LSF (frame and LICH) of the
        callsigns in force, with its own CRC"""
        rng = ctx.rng
        g = decgen.Gen(rng)
        for trial in range(4 if ctx.tier == "quick" else 60):
            src, dst = g.rand_call(), (g.rand_call() if trial % 2 else "")
            K = rng.randrange(3, 7)
            steps, cur = [], []
            s_, d_ = src, dst
            for k in range(K):
                kind = 0 if k == 0 else rng.choice([1, 2, 2, 0])
                call = ""
                if kind == 1:
                    call = g.rand_call(); s_ = call
                if kind == 2:
                    call = g.rand_call() if rng.random() < 0.8 else ""; d_ = call
                steps.append((kind, call)); cur.append((s_, d_))
            frames, extra = 7, rng.randrange(0, 320)
            ln = (f"modapi {rng.randrange(1, 10**6)} {frames} {extra} {len(src)} {codes(src)} {len(dst)} {codes(dst)} {K} ".replace("  ", " ")
                  + " ".join(f"{kind} {len(c)} {codes(c)}".strip() for kind, c in steps))
            ln = " ".join(ln.split())
            o = ctx.run_impl(exe, [ln], "modulator-api", timeout=600)[0]
            ctx.count(ln, nontrivial=True)
            ctx.stat("api:sequences")
            if " | " not in o:
                continue
            head, body = o.split(" | ")
            data = bytes(int(x) for x in body.split())
            per = 96 + 48 * (frames + 1)
            problem = None
            if head.split() != ["1", "0"]:
                problem = f"did not end IDLE cleanly ({head})"
            elif len(data) != K * per:
                problem = f"stream length {len(data)}, expected {K * per}"
            else:
                lines = []
                for k in range(K):
                    seg = data[k * per:(k + 1) * per]
                    lines.append("dec_frame 0 1 " + " ".join(map(str, S.soft(S.bits_of(seg[50:96]), 7))))
                    for f in range(frames + 1):
                        lines.append("dec_frame 1 1 " + " ".join(map(str, S.soft(S.bits_of(seg[96 + 48 * f + 2:96 + 48 * (f + 1)]), 7))))
                rep = ctx.run_impl(dec, ["dec_new"] + lines, "modulator-decode")[1:]
                i = 0
                for k in range(K):
                    s_, d_ = cur[k]
                    lsf = S.make_lsf(d_, s_, 0x0005, bytes(14), 0)
                    seg = data[k * per:(k + 1) * per]
                    r = decgen.parse_reply(rep[i]); i += 1
                    ctx.evaluations += 1
                    if not r or not r["calls"] or r["calls"][0]["type"] != 0:
                        problem = f"key-up {k} (after {steps[k]}): the link setup frame does not decode to a CRC-valid LSF"; break
                    if r["calls"][0]["bytes"] != list(lsf):
                        problem = f"key-up {k} (after {steps[k]}): LSF {r['calls'][0]['bytes'][:12]} is not that of src={s_!r} dst={d_!r}"; break
                    for f in range(frames + 1):
                        r = decgen.parse_reply(rep[i]); i += 1
                        fr = seg[96 + 48 * f:96 + 48 * (f + 1)]
                        if not r or not r["calls"] or r["calls"][0]["type"] != 2:
                            problem = f"key-up {k} frame {f}: not decodable"; break
                        pl = r["calls"][0]["bytes"]
                        want = bytes([0xFF, 0x5D]) + S.pack(S.stream_frame_bits(lsf, f % 6, (pl[0] << 8) | pl[1], bytes(pl[2:])))
                        if fr != want:
                            problem = f"key-up {k} (after {steps[k]}) frame {f}: LICH/encoding is not that of the LSF in force (src={s_!r} dst={d_!r})"; break
                    if problem:
                        break
            if problem:
                ctx.violate("modulator-api:" + problem.split(":")[0][:30], f"M17Modulator({src!r},{dst!r}) with callsign changes {steps}: {problem}",
                            {"stream": "modulator-api", "ops": [ln]})

    def model_tie(self, ctx, data, src, dst, keyups, plan, offs, pers, lsf, rep):
        """the Lean model of the modulator's frame builders (M17.TxModulator, about which C14T proves "= Spec.Tx") reproduces the bytes the real
        modulator emitted: LSF frame from the callsigns, every stream frame from (LICH index, frame number, payload as decoded), with arbitrary
        previous contents for the buffers the code leaves uninitialised"""
        if not ctx.model_ok:
            return
        rng = ctx.rng
        reqs, want = [], []
        i = 1
        for k in range(keyups):
            frames = plan[k][0]
            seg = data[offs[k]:offs[k] + pers[k]]
            reqs.append(f"txm_lsf {len(src)} {codes(src)} {len(dst)} {codes(dst)} ".replace("  ", " ") + " ".join(str(rng.randrange(256)) for _ in range(46)))
            want.append(" ".join(map(str, seg[48:96])))
            i += 1
            for f in range(frames + 1):
                r = decgen.parse_reply(rep[i]); i += 1
                if not r or not r["calls"] or r["calls"][0]["type"] != 2:
                    continue
                pl = r["calls"][0]["bytes"]
                fn = (pl[0] << 8) | pl[1]
                reqs.append(f"txm_frame {f % 6} {fn} " + " ".join(map(str, list(lsf) + pl[2:] + [rng.randrange(256) for _ in range(46)])))
                want.append(" ".join(map(str, seg[96 + 48 * f:96 + 48 * (f + 1)])))
        reqs = [" ".join(x.split()) for x in reqs]
        got = ctx.run_model(reqs)
        ctx.compare("txmodulator", reqs, want, got, oracle=lambda ln, a: None, sig=lambda ln: ln.split()[0])
        ctx.traces += len(reqs)

    def long_keyup(self, ctx, exe, dec):
        """one key-up longer than 32768 stream frames: the 15-bit frame number wraps while the LICH fragment index must keep cycling 0..5
        (32768 is not a multiple of 6); frames around the wrap, the first ones and a random sample are decoded and re-encoded"""
        rng = ctx.rng
        nblocks = 32775 if ctx.tier == "quick" else 65550
        src, dst = "W1AW", "N0CALL"
        ln = f"modrun {rng.randrange(1, 10**6)} 0 0 1 {nblocks} 7 {len(src)} {codes(src)} {len(dst)} {codes(dst)}"
        o = ctx.run_impl(exe, [ln], "modulator-long", timeout=900)[0]
        ctx.count(ln, nontrivial=True)
        ctx.stat("long-keyup:frames", nblocks + 1)
        if " | " not in o:
            return
        head, body = o.split(" | ")
        data = bytes(int(x) for x in body.split())
        want_len = 96 + 48 * (nblocks + 1)
        def bad(msg):
            ctx.violate("modulator-long:" + msg.split(":")[0][:40], f"M17Modulator key-up of {nblocks} blocks (frame counter wraps at 0x8000): {msg}",
                        {"stream": "modulator-long", "ops": [ln], "output_bytes": len(data)})
        if head.split() != ["1", "0"]:
            return bad(f"did not end IDLE cleanly (state/exception {head})")
        if len(data) != want_len:
            return bad(f"stream length: {len(data)} bytes, expected {want_len}")
        lsf = S.make_lsf(dst, src, 0x0005, bytes(14), 0)
        idx = sorted(set(list(range(0, 8)) + list(range(32755, min(nblocks + 1, 32790))) + list(range(nblocks - 5, nblocks + 1))
                         + [rng.randrange(nblocks) for _ in range(40)] + ([65530 + i for i in range(20)] if nblocks > 65550 - 1 else [])))
        idx = [f for f in idx if f <= nblocks]
        lines = ["dec_new", "dec_frame 0 1 " + " ".join(map(str, S.soft(S.bits_of(data[50:96]), 7)))]
        for f in idx:
            fr = data[96 + 48 * f:96 + 48 * (f + 1)]
            lines.append("dec_frame 1 1 " + " ".join(map(str, S.soft(S.bits_of(fr[2:]), 7))))
        rep = ctx.run_impl(dec, lines, "modulator-decode")
        for f, a in zip(idx, rep[2:]):
            ctx.evaluations += 1
            fr = data[96 + 48 * f:96 + 48 * (f + 1)]
            r = decgen.parse_reply(a)
            if not r or not r["calls"] or r["calls"][0]["type"] != 2:
                return bad(f"stream frame {f}: not decodable")
            pl = r["calls"][0]["bytes"]
            fn = (pl[0] << 8) | pl[1]
            want_fn = (f % 0x8000) | (0x8000 if f == nblocks else 0)
            if fn != want_fn:
                return bad(f"frame numbering: frame {f} carries frame number {fn:#06x}, expected {want_fn:#06x}")
            want = bytes([0xFF, 0x5D]) + S.pack(S.stream_frame_bits(lsf, f % 6, fn, bytes(pl[2:])))
            if fr != want:
                return bad(f"frame encoding: stream frame {f} (FN {fn:#06x}) is not the specification's encoding with LICH fragment {f % 6} (the LICH cycle must not restart at the frame-counter wrap)")

    def judge(self, ctx, dec, data, src, dst, keyups, frames, extra):
        """grammar + specification re-encoding; returns a description of the first problem or None"""
        plan = frames
        pers = [48 + 48 + 48 * (f + 1) for f, _ in plan]
        offs = [sum(pers[:k]) for k in range(keyups)]
        if len(data) != sum(pers):
            return f"stream length: {len(data)} bytes, expected sum over key-ups of (preamble 48 + LSF 48 + (blocks + 1) x 48) = {sum(pers)} (bytes lost or duplicated)"
        lsf = S.make_lsf(dst, src, 0x0005, bytes(14), 0)
        want_lsf_frame = bytes([0x55, 0xF7]) + S.pack(S.lsf_frame_bits(lsf))
        lines = ["dec_new"]
        for k in range(keyups):
            frames = plan[k][0]
            seg = data[offs[k]:offs[k] + pers[k]]
            if seg[:48] != bytes([0x77] * 48):
                return "preamble: not 48 bytes of 0x77"
            lf = seg[48:96]
            if lf[:2] != bytes([0x55, 0xF7]):
                return "LSF frame: wrong sync word"
            lines.append("dec_frame 0 1 " + " ".join(map(str, S.soft(S.bits_of(lf[2:]), 7))))
            for f in range(frames + 1):
                fr = seg[96 + 48 * f:96 + 48 * (f + 1)]
                if fr[:2] != bytes([0xFF, 0x5D]):
                    return f"stream frame {f}: wrong sync word"
                lines.append("dec_frame 1 1 " + " ".join(map(str, S.soft(S.bits_of(fr[2:]), 7))))
        rep = ctx.run_impl(dec, lines, "modulator-decode")
        self.model_tie(ctx, data, src, dst, keyups, plan, offs, pers, lsf, rep)
        i = 1
        prev_last = None
        for k in range(keyups):
            frames, extra = plan[k]
            seg = data[offs[k]:offs[k] + pers[k]]
            r = decgen.parse_reply(rep[i]); i += 1
            if not r or not r["calls"] or r["calls"][0]["type"] != 0:
                return "LSF frame: does not decode to a CRC-valid link setup frame"
            got = r["calls"][0]["bytes"]
            if got != list(lsf):
                if got[:6] == list(lsf[6:12]) and got[6:12] == list(lsf[:6]):
                    return "LSF field order: source address is sent before destination address (M17 order is DST, SRC)"
                return f"LSF fields: {got[:14]} differ from the specification LSF {list(lsf[:14])}"
            if seg[48:96] != want_lsf_frame:
                return "LSF frame: bytes differ from the specification encoding"
            for f in range(frames + 1):
                fr = seg[96 + 48 * f:96 + 48 * (f + 1)]
                r = decgen.parse_reply(rep[i]); i += 1
                if not r or not r["calls"] or r["calls"][0]["type"] != 2:
                    return f"stream frame {f}: not decodable"
                pl = r["calls"][0]["bytes"]
                fn = (pl[0] << 8) | pl[1]
                want_fn = f | (0x8000 if f == frames else 0)
                if fn != want_fn:
                    if f == frames and fn == f:
                        return "end of stream: the last frame does not carry the end-of-stream bit (0x8000)"
                    return f"frame numbering: frame {f} carries frame number {fn:#06x}, expected {want_fn:#06x}"
                want = bytes([0xFF, 0x5D]) + S.pack(S.stream_frame_bits(lsf, f % 6, fn, bytes(pl[2:])))
                if fr != want:
                    lich_ok = S.bits_of(fr[2:]) != None
                    # which part differs: de-randomize/de-interleave not needed for the message; report the first byte
                    kbyte = next(j for j, (x, y) in enumerate(zip(fr, want)) if x != y)
                    return f"frame encoding: stream frame {f} decodes (FN {fn:#06x}) but its bytes are not the specification's encoding of that FN/LICH/payload (first difference at byte {kbyte})"
                # audio continuity: fingerprints (first, last, sum) x 2 halves
                a1, l1 = (pl[2] << 8) | pl[3], (pl[4] << 8) | pl[5]
                a2, l2 = (pl[10] << 8) | pl[11], (pl[12] << 8) | pl[13]
                if f < frames:
                    if l1 - a1 != 159 or l2 - a2 != 159 or a2 != l1 + 1:
                        return f"audio window: frame {f} does not cover 320 consecutive samples (first/last {a1},{l1},{a2},{l2})"
                    if f > 0 and prev_last is not None and a1 != prev_last + 1:
                        return f"audio continuity: frame {f} starts at sample {a1}, previous frame ended at {prev_last} (audio lost, duplicated or reordered)"
                    prev_last = l2
                else:
                    # final frame: the samples collected since the last full block (extra + the one that carried ptt_off), then zeros —
                    # nothing older may be left in it
                    n = extra + 1
                    v0 = prev_last + 1 if (frames > 0 and prev_last is not None) else a1
                    s1 = (pl[6] << 24) | (pl[7] << 16) | (pl[8] << 8) | pl[9]
                    s2 = (pl[14] << 24) | (pl[15] << 16) | (pl[16] << 8) | pl[17]
                    n1, n2 = min(n, 160), max(0, n - 160)
                    want1 = (v0, v0 + 159 if n1 == 160 else 0, n1 * v0 + n1 * (n1 - 1) // 2)
                    want2 = ((v0 + 160, v0 + 319 if n2 == 160 else 0, n2 * (v0 + 160) + n2 * (n2 - 1) // 2) if n2 else (0, 0, 0))
                    if (a1, l1, s1) != want1 or (a2, l2, s2) != want2:
                        return (f"final frame audio: key-up {k} ended with {n} fresh samples starting at {v0}; the end-of-stream frame's audio fingerprint "
                                f"(first,last,sum per half) is {(a1, l1, s1)},{(a2, l2, s2)}, expected {want1},{want2} (stale or missing audio)")
                    prev_last = None
        return None


PROP = C14()

"""C17 — callsign codec: lossless for valid callsigns, terminated for any address."""
import itertools
from lib import core
from lib.prop import Prop

ALPHA = "ABCDEFGHIJKLMNOPQRSTUVWXYZ0123456789-/."
SPEC_ALPHA = " " + ALPHA     # specification digit values (digit 0 never occurs in a valid callsign)


def spec_enc(cs):
    v = 0
    for c in reversed(cs):
        v = v * 40 + SPEC_ALPHA.index(c)
    return list(v.to_bytes(6, "big"))


class C17(Prop):
    pid = "C17"
    lean_targets = ["M17.Props.C17"]
    theorems = ["M17.C17.gen_alphabet", "M17.C17.gen_broadcast", "M17.C17.encode_value", "M17.C17.encodeStrict_spec", "M17.C17.roundtrip",
                "M17.C17.encode_injective", "M17.C17.decode_broadcast", "M17.C17.encode_valid_ne_broadcast", "M17.C17.decode_terminated"]
    level_text = ("Lean 4 theorems: for every callsign of 1-9 alphabet characters decode(encode) returns the same 10-byte call_t (base-40 "
                  "Horner induction; no uint64 wrap), hence encode is injective and never yields the broadcast address; the all-ones "
                  "address decodes to BROADCAST; for EVERY 6-byte address the decoded array has length 10 with a NUL at index <= 9 and no "
                  "NUL before it. Alphabet/broadcast constants regenerated from the header; C++ codec compared with the model on all callsigns "
                  "of length 1-3 (1-4 thorough), random long ones, invalid characters, and addresses around 40^k, 40^9..2^48-1.")
    design_ref = "DESIGN.md §5 C17"
    level_note = ("Trusted: Lean kernel; dump_tables.cpp; hand translation M17/Model/Callsign.lean (little-endian byte copy of the uint64) "
                  "validated by the correspondence stream. Axioms: propext, Classical.choice, Quot.sound only.")
    technique = "Lean 4 proof (base-40 digit induction, alphabet table by kernel evaluation) + regenerated constants + differential correspondence"
    rule = ("encode: all callsigns of length 1..3 (quick) over the 39-character alphabet, random ones of length 4..9, strings with invalid/lowercase "
            "characters and embedded NULs; decode: 40^k-1,40^k,40^k+1 for k=0..9, 40^9..2^48-1 sampled, broadcast, random addresses; "
            "non-trivial = callsign length >= 2 or address >= 40; distinct = distinct inputs")

    def setup_drivers(self):
        return [self.impl_driver(None), core.build_cpp("drv_modulator", ["drv_modulator.cpp"], extra_inc=[core.HARNESS + "/stub"], deps=["stub/codec2/codec2.h"])]

    def run(self, ctx):
        exe = self.impl_driver(ctx)
        rng = ctx.rng
        quick = ctx.tier == "quick"
        calls = []
        for n in (1, 2, 3):
            for t in itertools.product(ALPHA, repeat=n):
                calls.append("".join(t))
        for _ in range(20000 if quick else 300000):
            n = rng.randrange(4, 10)
            calls.append("".join(rng.choice(ALPHA) for _ in range(n)))
        enc_lines = ["call_enc " + " ".join(str(ord(c)) for c in cs) for cs in calls]
        # malformed stream: invalid characters, embedded NULs, full 10 characters
        mal = []
        for _ in range(3000):
            n = rng.randrange(0, 11)
            mal.append([rng.choice([0, 32, 97, 122, 64, 91, 47, 58, 65, 90, 48, 57, 45, 46, 255, rng.randrange(256)]) for _ in range(n)])
        enc_lines += ["call_enc " + " ".join(map(str, m)) for m in mal]
        impl = ctx.run_impl(exe, enc_lines, "call-enc")
        seen = {}
        for cs, a in zip(calls, impl):
            ctx.count(("enc", cs), nontrivial=len(cs) >= 2)
            ctx.stat(f"enc:len{len(cs)}")
            if a != " ".join(map(str, spec_enc(cs))):
                ctx.violate(f"call-enc:{cs}", f"encode_callsign({cs!r}) = [{a}], specification address is {spec_enc(cs)}",
                            {"stream": "call-enc", "ops": ["call_enc " + " ".join(str(ord(c)) for c in cs)], "impl": a})
            if a in seen and seen[a] != cs:
                ctx.violate(f"call-enc:collision:{cs}", f"{cs!r} and {seen[a]!r} get the same address [{a}]", {"stream": "call-enc", "ops": []})
            seen[a] = cs
        # strict mode (encodeStrict_spec): a full 10-character array of alphabet characters gives the non-strict address, anything else -
        # NUL padding of a shorter callsign included - throws invalid_argument
        st_lines, st_want = [], []
        for _ in range(600 if quick else 6000):
            k = rng.random()
            if k < 0.4:
                cs = [ord(rng.choice(ALPHA)) for _ in range(10)]
            elif k < 0.7:
                cs = [ord(rng.choice(ALPHA)) for _ in range(rng.randrange(0, 10))]
            else:
                cs = [ord(rng.choice(ALPHA)) for _ in range(10)]
                cs[rng.randrange(10)] = rng.choice([0, 32, 97, 122, 64, 91, 58, 44, 255, rng.randrange(256)])
            st_lines.append("call_enc_s " + " ".join(map(str, cs)))
            ok = len(cs) == 10 and all(chr(c) in ALPHA for c in cs)
            v10 = 0
            for c in reversed(cs):
                v10 = v10 * 40 + (SPEC_ALPHA.index(chr(c)) if ok else 0)
            st_want.append(" ".join(map(str, (v10 % 2 ** 48).to_bytes(6, "big"))) if ok else "throw")      # ten digits: the low 48 bits of the value
        st_impl = ctx.run_impl(exe, st_lines, "call-enc-strict")
        for ln, a, w in zip(st_lines, st_impl, st_want):
            ctx.count(ln, nontrivial=True)
            ctx.stat("enc-strict:" + ("throw" if w == "throw" else "ok"))
            if a != w and a != "<crash>":
                ctx.violate("call-enc-strict", f"encode_callsign({ln.split()[1:]}, strict) gave `{a}`, documented behaviour is `{w}`", {"stream": "call-enc-strict", "ops": [ln], "impl": a})
        if ctx.model_ok:
            ctx.compare("call-enc-strict", st_lines, st_impl, ctx.run_model(st_lines), oracle=lambda ln, a: None, sig=lambda ln: "strict")
        # decode what the implementation encoded (round trip) + boundary/hostile addresses
        addrs = [a for a in impl[:len(calls)] if a != "<crash>"]
        vals = [0, 1, 39, 2 ** 48 - 1, 2 ** 48 - 2]
        for k in range(1, 10):
            vals += [40 ** k - 1, 40 ** k, 40 ** k + 1]
        for _ in range(4000 if quick else 100000):
            vals.append(rng.randrange(40 ** 9, 2 ** 48))
            vals.append(rng.randrange(2 ** 48))
            vals.append(rng.randrange(40 ** rng.randrange(1, 10)))
        dec_lines = ["call_dec " + a for a in addrs] + ["call_dec " + " ".join(map(str, v.to_bytes(6, "big"))) for v in vals]
        dimpl = ctx.run_impl(exe, dec_lines, "call-dec")

        def term_oracle(ln, a):
            try:
                out = [int(x) for x in a.split()]
            except ValueError:
                return None
            if len(out) != 10:
                return f"decoded array has {len(out)} entries"
            if 0 not in out:
                return "decoded callsign has no NUL terminator within its 10-byte array"
            n = out.index(0)
            if n > 9:
                return "terminator beyond index 9"
            return None
        for i, (ln, a) in enumerate(zip(dec_lines, dimpl)):
            ctx.count(ln, nontrivial=True)
            bad = term_oracle(ln, a)
            if bad:
                v = int.from_bytes(bytes(int(x) for x in ln.split()[1:]), "big")
                cls = ">=40^9" if v >= 40 ** 9 else "<40^9"
                ctx.violate(f"call-dec:unterminated:{cls}", f"decode_callsign of address {v:#014x}: {bad}", {"stream": "call-dec", "ops": [ln], "impl": a})
            if i < len(addrs):
                cs = calls[i]
                want = " ".join(str(ord(c)) for c in cs) + " 0" * (10 - len(cs))
                if a != want:
                    ctx.violate(f"call-rt:{cs}", f"decode(encode({cs!r})) = [{a}]", {"stream": "call-rt", "ops": [enc_lines[i], ln], "impl": a})
        if ctx.model_ok:
            model = ctx.run_model(enc_lines)
            ctx.compare("call-enc", enc_lines, impl, model, oracle=lambda ln, a: None, sig=lambda ln: "enc")
            dmodel = ctx.run_model(dec_lines)
            ctx.compare("call-dec", dec_lines, dimpl, dmodel, oracle=term_oracle, sig=lambda ln: "dec")
            ctx.traces += len(enc_lines) + len(dec_lines)
        ctx.sample({"op": enc_lines[100], "impl": impl[100]})
        ctx.sample({"op": dec_lines[-1], "impl": dimpl[-1]})
        # every place that turns a callsign into an address must be the codec: M17Modulator's private helper (constructor and setters), exhaustively
        # for all callsigns of length 1..3 (1..4 thorough), against base-40 computed independently in the harness
        modexe = core.build_cpp("drv_modulator", ["drv_modulator.cpp"], extra_inc=[core.HARNESS + "/stub"], deps=["stub/codec2/codec2.h"])
        sw = [f"mod_addr_sweep {n} {m}" for n in ((1, 2, 3) if quick else (1, 2, 3, 4)) for m in (0, 1)]
        for ln, o in zip(sw, ctx.run_impl(modexe, sw, "modulator-address", timeout=900)):
            f = o.split()
            ctx.count(ln, nontrivial=True)
            if len(f) == 3:
                ctx.evaluations += int(f[0])
                ctx.stat("modulator-address:callsigns", int(f[0]))
                if int(f[1]):
                    k = int(f[2]); n = int(ln.split()[1]); cs = ""
                    for _ in range(n):
                        cs += ALPHA[k % 39]; k //= 39
                    ctx.violate("modulator-address", f"M17Modulator ({'setters' if ln.endswith('1') else 'constructor'}) stores a wrong address for {f[1]} of {f[0]} callsigns of length {n}; first: {cs!r}",
                                {"stream": "modulator-address", "ops": [ln], "reply": o, "first_callsign": cs})
        if not quick:
            out = ctx.run_impl(exe, ["call_sweep 4"], "call-sweep")
            f = out[0].split()
            if len(f) == 4:
                ctx.evaluations += int(f[0])
                if int(f[1]) or int(f[3]):
                    ctx.violate("call-sweep:4", f"length-4 sweep: {f[1]} round-trip failures (first index {f[2]}), {f[3]} duplicate addresses",
                                {"stream": "call-sweep", "ops": ["call_sweep 4"], "reply": out[0]})
            ctx.exhaustive = True


PROP = C17()

"""C19 — DSP primitives equal their definitions; the RRC filter pair is ISI-free."""
import struct, math, cmath
from lib import core
from lib.prop import Prop
from fractions import Fraction


def f_of_bits(b, dbl):
    if dbl:
        return struct.unpack("<d", struct.pack("<q", b))[0]
    return struct.unpack("<f", struct.pack("<I", b))[0]


class C19(Prop):
    pid = "C19"
    lean_targets = ["M17.Props.C19", "M17.Props.C19I"]
    theorems = ["M17.C19.ring_key", "M17.C19.fir_step", "M17.C19.fir_eq_convolution", "M17.C19.fir_reset", "M17.C19.fir_run_append",
                "M17.C19.iir_difference_equation", "M17.C19.iir_state_recurrence", "M17.C19I.iir_three_any_state", "M17.C19I.iir_difference_equation_all",
                "M17.C19I.iir_start_from_rest", "M17.C19.nsdft_closed_form",
                "M17.C19.taps_exact", "M17.C19.taps_symmetric", "M17.C19.cascade_nyquist", "M17.C19.gen_tx_scale", "M17.C19.corr_a0_one"]
    level_text = ("Lean 4 theorems over ANY commutative ring (exact arithmetic), every tap count and input length: the modelled FIR (circular "
                  "buffer, code's index walk) outputs the dot product of its taps with the last N inputs from a zero state — i.e. the "
                  "convolution — reset restores that state, and feeding a concatenation equals feeding the pieces through the same object; the "
                  "direct-form-II IIR realises its difference equation at every time index of every input sequence from every internal state (C19I); the un-damped sliding DFT's value is sum_m x[n-m] w^(m+1) when w^N = 1 "
                  "(direct DFT of the latest window up to a unit phase). Tap tables: exact values of all four sets in the current sources; "
                  "symmetry about the peak and the Nyquist property of every TX x RX cascade (side taps < 0.5 %, sum < 2 %) by kernel "
                  "evaluation on exact integers. NOT shown by proof: floating-point rounding ('within numerical tolerance') and the damped "
                  "SlidingDFT variant; covered by bit-exact comparison of the C++ float/double filters with the same model run at "
                  "Float32/Float, comparison with exact rational convolution within N*eps*sum|taps|*max|x|, and the sliding DFT vs a direct DFT.")
    design_ref = "DESIGN.md §5 C19"
    level_note = ("Trusted: Lean kernel; dump_tables.cpp / tools/gen_taps.py (exact tap values); the model's closed-form index walk for the FIR "
                  "loop; Lean Float/Float32 = IEEE binary64/32 with the same operation order as the g++ -O1 build (no FMA contraction). "
                  "Partial as stated. Axioms: propext, Classical.choice, Quot.sound only.")
    technique = "Lean 4 proof (circular-buffer invariant for any length; ring identities by grind; exact tap tables by kernel evaluation) + bit-exact Float/Float32 correspondence + direct-DFT oracle"
    rule = ("input sequences (values n/4096): impulses, steps, alternating +-3 symbols at 10 samples/symbol, tones at 2400/3000/3600 Hz, uniform noise, "
            "with reset() markers, lengths 50..3000 (quick) / 10^5 (thorough); FIR and IIR float+double compared bit-for-bit with the model run at "
            "Float32/Float and against exact integer convolution within tolerance; sliding DFT magnitudes vs direct DFT of the last 120 samples; "
            "distinct = distinct sequences; non-trivial = not all zero")

    def setup_drivers(self):
        return [self.impl_driver(None)]

    def impl_driver(self, ctx):
        return core.build_cpp("drv_dsp", ["drv_dsp.cpp"], deps=["shim/blaze/Math.h"])

    def seqs(self, rng, quick):
        out = []
        n = 600 if quick else 20000
        out.append(("impulse", [4096] + [0] * 300))
        out.append(("step", [4096 * 3] * 400))
        sym = []
        for _ in range(n // 10):
            sym += [rng.choice([-3, -1, 1, 3]) * 4096] + [0] * 9
        out.append(("symbols", sym))
        for f in (2400, 3000, 3600):
            out.append((f"tone{f}", [int(4096 * math.sin(2 * math.pi * f * k / 48000)) for k in range(n)]))
        out.append(("noise", [rng.randrange(-3 * 4096, 3 * 4096) for _ in range(n)]))
        r = [rng.randrange(-4096, 4096) for _ in range(300)]
        out.append(("reset", r + [999999] + r[:200]))
        out.append(("zeros", [0] * 200))
        return out

    def run(self, ctx):
        exe = self.impl_driver(ctx)
        rng = ctx.rng
        quick = ctx.tier == "quick"
        seqs = self.seqs(rng, quick)
        lines, meta = [], []
        for name, xs in seqs:
            for d in (0, 1):
                lines.append(f"fir {d} " + " ".join(map(str, xs))); meta.append(("fir", d, name, xs))
                if len(xs) <= 700:
                    for k in ((40, 70) if d == 0 else (70, 200)):
                        lines.append(f"firs {d} {k} " + " ".join(map(str, xs))); meta.append(("firs", d, f"{name}/2^{k}", xs, k))
                if 999999 not in xs:
                    lines.append(f"iir {d} " + " ".join(map(str, xs))); meta.append(("iir", d, name, xs))
                    # the filter is linear: the same sequence at small amplitudes x / 2^k (a state flushed or clamped at some absolute
                    # threshold is invisible at unit scale)
                    for k in ((12, 30, 45, 70) if d == 0 else (12, 45, 70, 200)):
                        if len(xs) <= 3000:
                            lines.append(f"iirs {d} {k} " + " ".join(map(str, xs))); meta.append(("iirs", d, f"{name}/2^{k}", xs, k))
        impl = ctx.run_impl(exe, lines, "dsp")
        for ln in lines:
            ctx.count(ln, nontrivial=any(t not in ("0",) for t in ln.split()[2:]))
        if ctx.model_ok:
            model = ctx.run_model(lines)
            for ln, a, b, mt in zip(lines, impl, model, meta):
                op, d, name, xs = mt[:4]
                scale = 2.0 ** (12 - mt[4]) if op in ("iirs", "firs") else 1.0     # amplitude relative to the unit-scale streams
                ctx.stat(f"{op}:{'double' if d else 'float'}:{name}")
                if a == b:
                    ctx.stat("bit-exact")
                    continue
                # not bit-identical: compare numerically with the tolerance of the property
                fa = [f_of_bits(int(x), d) for x in a.split()]
                fb = [f_of_bits(int(x), d) for x in b.split()]
                eps = 2.0 ** -52 if d else 2.0 ** -23
                tol = 150 * eps * 3 * 15 * scale
                k = next((i for i, (p, q) in enumerate(zip(fa, fb)) if not abs(p - q) <= tol), None)
                if k is None and len(fa) == len(fb):
                    ctx.stat("within-tolerance-not-bit-exact")
                    continue
                ctx.violate(f"dsp:{op}:{d}", f"{op}<{'double' if d else 'float'}> on '{name}': output {k} = {fa[k] if k is not None and k < len(fa) else '?'} differs from the definition ({fb[k] if k is not None and k < len(fb) else '?'}) beyond numerical tolerance",
                            {"stream": "dsp", "ops": [" ".join(ln.split()[:60])], "index": k})
            ctx.traces += len(lines)
        # exact convolution oracle for the FIR (independent: python integers with the dumped exact taps is overkill here;
        # use python floats in extended form: fractions)
        from fractions import Fraction
        taps = self.read_taps()
        for (op, d, name, xs, *_), a in zip(meta, impl):
            if op != "fir" or 999999 in xs or len(xs) > 700:
                continue
            t = taps["rxTapsD" if d else "rxTapsF"]
            fa = [f_of_bits(int(x), d) for x in a.split()]
            eps = 2.0 ** -52 if d else 2.0 ** -23
            for n in range(0, len(xs), max(1, len(xs) // 60)):
                ex = sum(t[i] * Fraction(xs[n - i], 4096) for i in range(150) if n - i >= 0)
                tol = 150 * eps * 15 * 3.2
                ctx.evaluations += 1
                if abs(Fraction(fa[n]) - ex) > Fraction(tol):
                    ctx.violate(f"dsp:fir-conv:{d}", f"FIR<{'double' if d else 'float'}> output {n} on '{name}' = {fa[n]!r}, exact convolution = {float(ex)!r}",
                                {"stream": "dsp", "ops": [f"fir {d} " + " ".join(map(str, xs[:n + 1]))]})
                    break
        # other configurations of the same templates: tap counts 1..11 (even and odd), symmetric and asymmetric tap sets; exact convolution oracle
        gl, gm = [], []
        tapsets = [[2048, 2048], [1024, 3072, 3072, 1024], [410] * 10, [4096], [4096, -2048, 1024], [100, 2000, 4096, 2000, 100],
                   [1, 2, 3, 4, 5, 6, 7, 8], [300, -200, 100, 4096, 100, -200, 300, 77, 5, 1, 9]]
        tapsets += [[rng.randrange(-4096, 4097) for _ in range(n)] for n in (2, 3, 4, 5, 8, 10, 11)]
        for tp in tapsets:
            xs = [rng.randrange(-3 * 4096, 3 * 4096) for _ in range(60)] + [999999] + [4096] + [0] * 15 + [rng.randrange(-4096, 4096) for _ in range(30)]
            for d in (0, 1):
                gl.append(f"firg {d} {len(tp)} " + " ".join(map(str, tp)) + " " + " ".join(map(str, xs))); gm.append((d, tp, xs))
        gout = ctx.run_impl(exe, gl, "dsp-generic")
        gmod = ctx.run_model(gl) if ctx.model_ok else [None] * len(gl)
        for ln, a, b, (d, tp, xs) in zip(gl, gout, gmod, gm):
            ctx.count(ln, nontrivial=True)
            ctx.stat(f"firg:N{len(tp)}:{'sym' if tp == tp[::-1] else 'asym'}")
            fa = [f_of_bits(int(x), d) for x in a.split()] if a and a[0] not in "<b" else []
            # exact oracle: convolution from the zero state, restarted at the reset marker
            seg, k, bad = [], 0, None
            eps = 2.0 ** -52 if d else 2.0 ** -23
            for x in xs:
                if x == 999999:
                    seg = []
                    continue
                seg.append(x)
                ex = sum(Fraction(tp[i], 4096) * Fraction(seg[len(seg) - 1 - i], 4096) for i in range(len(tp)) if len(seg) - 1 - i >= 0)
                ctx.evaluations += 1
                if k >= len(fa) or abs(Fraction(fa[k]) - ex) > Fraction(len(tp) * eps * 12):
                    bad = (k, fa[k] if k < len(fa) else None, float(ex)); break
                k += 1
            if bad:
                ctx.violate(f"dsp:firg:{d}:N{len(tp)}", f"BaseFirFilter<{'double' if d else 'float'},{len(tp)}> with taps {tp}/4096: output {bad[0]} = {bad[1]!r}, convolution = {bad[2]!r}",
                            {"stream": "dsp-generic", "ops": [ln]})
            elif b is not None and a != b:
                ctx.stat("firg:within-tolerance-not-bit-exact")
        # sliding DFT vs direct DFT of the latest window
        sd = []
        for name, xs in seqs:
            if 999999 in xs:
                continue
            for d in (0, 1):
                sd.append((name, d, xs, f"sdft {d} " + " ".join(map(str, xs[:1500]))))
        # several detector instances of one instantiation with different frequencies in the same process: the reported one is {2400, 3600}
        for name, xs in seqs[:4]:
            if 999999 in xs:
                continue
            for d in (0, 1):
                sd.append((name + "+other-instances", d, xs, f"sdftm {d} 2 1000 2000 5000 3000 " + " ".join(map(str, xs[:1500]))))
        # the multi-instance lines run in a process of their own: no detector with the reported frequencies may have existed before
        first = [x for x in sd if x[3].startswith("sdftm")]
        rest = [x for x in sd if not x[3].startswith("sdftm")]
        sd = first + rest
        out = ctx.run_impl(exe, [s[3] for s in first], "sdftm") + ctx.run_impl(exe, [s[3] for s in rest], "sdft")
        for (name, d, xs, ln), o in zip(sd, out):
            v = o.split()
            xs = xs[:1500]
            if len(v) != 4 * len(xs):
                continue
            off = 7 if ln.startswith('sdftm') else 2
            ctx.count(ln, nontrivial=True)
            for n in range(130, len(xs), 97):
                for bi, f in ((0, 2400), (1, 3600)):
                    re = f_of_bits(int(v[4 * n + 2 * bi]), 1); im = f_of_bits(int(v[4 * n + 2 * bi + 1]), 1)
                    direct = sum((xs[n - m] / 4096) * cmath.exp(-2j * math.pi * f * (119 - m) / 48000) for m in range(120))
                    tol = (1e-9 if d else 2e-3) * (1 + n / 100) + 1e-12
                    ctx.evaluations += 1
                    if abs(abs(complex(re, im)) - abs(direct)) > tol * max(1.0, abs(direct)):
                        ctx.violate(f"dsp:sdft:{d}:{f}", f"sliding DFT<{'double' if d else 'float'}> bin {f} Hz after {n} samples of '{name}': |{abs(complex(re, im))!r}| vs direct DFT |{abs(direct)!r}|",
                                    {"stream": "sdft", "ops": [" ".join(ln.split()[:n + off + 1])]})
                        break
        # the single-bin class SlidingDFT<F, 48000, 3200, 400> (N = 120, bin 8, damping factor 1 - 1e-15: far below the tolerance) against the direct DFT
        s1 = [(name, d, xs[:1500], f"sdft1 {d} " + " ".join(map(str, xs[:1500]))) for name, xs in seqs if 999999 not in xs for d in (0, 1)]
        out1 = ctx.run_impl(exe, [x[3] for x in s1], "sdft1")
        for (name, d, xs, ln), o in zip(s1, out1):
            v = o.split()
            if len(v) != 2 * len(xs):
                continue
            ctx.count(ln, nontrivial=True)
            ctx.stat("sdft1:runs")
            for n in range(130, len(xs), 97):
                re = f_of_bits(int(v[2 * n]), 1); im = f_of_bits(int(v[2 * n + 1]), 1)
                direct = sum((xs[n - m] / 4096) * cmath.exp(-2j * math.pi * 3200 * (119 - m) / 48000) for m in range(120))
                tol = (1e-9 if d else 2e-3) * (1 + n / 100) + 1e-12
                ctx.evaluations += 1
                if abs(abs(complex(re, im)) - abs(direct)) > tol * max(1.0, abs(direct)):
                    ctx.violate(f"dsp:sdft1:{d}", f"SlidingDFT<{'double' if d else 'float'},48000,3200,400> after {n} samples of '{name}': |{abs(complex(re, im))!r}| vs direct DFT |{abs(direct)!r}|",
                                {"stream": "sdft1", "ops": [" ".join(ln.split()[:n + 3])]})
                    break
        # long bin-centred tones: the recursive DFT must not decay or drift away from the direct DFT of the latest window (float and double)
        nlong = 120000 if quick else 1000000
        for f in (2400, 3600):
            xs = [int(4096 * math.sin(2 * math.pi * f * k / 48000)) for k in range(nlong)]
            for d in (0, 1):
                ln = f"sdft {d} " + " ".join(map(str, xs))
                o = ctx.run_impl(exe, [ln], "sdft-long", timeout=900)[0]
                v = o.split()
                ctx.count(("sdft-long", f, d, nlong), nontrivial=True)
                if len(v) != 4 * nlong:
                    continue
                n = nlong - 1
                bi = 0 if f == 2400 else 1
                re = f_of_bits(int(v[4 * n + 2 * bi]), 1); im = f_of_bits(int(v[4 * n + 2 * bi + 1]), 1)
                direct = sum((xs[n - m] / 4096) * cmath.exp(-2j * math.pi * f * (119 - m) / 48000) for m in range(120))
                ctx.evaluations += 1
                tol = 1e-6 if d else max(1e-2, 6e-8 * nlong)      # binary32: rounding error of the undamped recursion grows with the run length (n * eps)
                if abs(abs(complex(re, im)) - abs(direct)) > tol * abs(direct):
                    ctx.violate(f"dsp:sdft-long:{d}", f"sliding DFT<{'double' if d else 'float'}> at {f} Hz after {nlong} samples of a bin-centred tone: |{abs(complex(re, im)):.4f}| vs "
                                f"direct DFT of the latest window |{abs(direct):.4f}| (decay or drift of the recursion)",
                                {"stream": "sdft-long", "ops": [f"sdft {d} <{nlong} samples of a {f} Hz tone: int(4096*sin(2*pi*f*k/48000))>"]})
        ctx.sample({"op": " ".join(lines[0].split()[:10]) + " ...", "impl(bit patterns)": " ".join(impl[0].split()[:4]) + " ..."})

    def read_taps(self):
        import re, os
        from fractions import Fraction
        txt = open(os.path.join(core.LEAN, "M17", "Gen", "Taps.lean")).read()
        out = {}
        for name in ("rxTapsF", "rxTapsD"):
            body = txt[txt.index("def " + name):]
            body = body[:body.index("]")]
            vals = re.findall(r"\(\(?(-?\d+)\)?, (\d+)\)", body)
            out[name] = [Fraction(int(m)) * Fraction(2) ** (int(s) - 1074) for m, s in vals]
        return out


PROP = C19()

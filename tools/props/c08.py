"""C08 — frame decoder follows its documented state machine and has no hidden state."""
import itertools
from lib import core, decgen, deccheck, m17spec as S
from lib.prop import Prop


class C08(Prop):
    pid = "C08"
    lean_targets = ["M17.Props.C08"]
    theorems = ["M17.C08.step_refines_spec", "M17.C08.lsf_sync_restarts", "M17.C08.stream_in_lsf_mode_collects_lich",
                "M17.C08.stream_mode_decodes", "M17.C08.stream_mode_entry", "M17.C08.packet_only_after_packet_lsf", "M17.C08.packet_ends_at_eof",
                "M17.C08.bert_always_bert", "M17.C08.invalid_sync_drops_to_lsf_fail", "M17.C08.outcome_depends_on_abstract_state"]
    level_text = ("Lean 4 theorems: the modelled operator() simulates the documented automaton (mode after, return code, sequence of callback "
                  "kinds) for every state, sync type, frame content and callback result; corollaries per clause of the property. The model's "
                  "state is (mode, LICH mask, LSF buffer) only: that the C++ keeps nothing else (unions, Viterbi scratch) is established by "
                  "C11/C02 (every slot overwritten before being read) and checked on every run by a hidden-state probe on the real decoder "
                  "(same suffix after different prefixes that end in the same abstract state must give identical outputs including cost) "
                  "and by exact model/implementation comparison on exhaustive short words over 14 frame kinds and long random words.")
    design_ref = "DESIGN.md §5 C08"
    level_note = ("Trusted: Lean kernel; hand translation M17/Model/Decoder.lean validated by the correspondence stream; the claim that no "
                  "C++ buffer carries state between frames is an assumption of the model tested by the probe, not a theorem. Axioms: propext, Classical.choice, Quot.sound only.")
    technique = "Lean 4 proof (refinement of the documented automaton by case analysis on the modelled step) + differential correspondence + hidden-state probe"
    rule = ("words over 14 abstract frame kinds (valid LSF x4 TYPE classes, bad-CRC LSF, near-miss CRC, LICH ok/bad/out-of-range, stream, packet "
            "mid/EOF, BERT, garbage), each instantiated with fresh random content, clean or corrupted: exhaustive to length 2 (quick) / 3 (thorough), "
            "random words of length 3..8 and one long random word; hidden-state probe: 60 (quick) pairs of different prefixes ending in the same "
            "(mode, mask, LSF buffer); distinct = distinct (word, position); non-trivial = frame kind other than garbage")

    def run(self, ctx):
        exe = self.impl_driver(ctx)
        rng = ctx.rng
        quick = ctx.tier == "quick"
        K = decgen.KINDS
        words = [[a] for a in K] + [[a, b] for a in K for b in K]
        if not quick:
            words += [[a, b, c] for a in K for b in K for c in K]
        for _ in range(150 if quick else 3000):
            words.append([rng.choice(K) for _ in range(rng.randrange(3, 9))])
        words.append([rng.choice(K) for _ in range(600 if quick else 10000)])
        # scenario words: multi-step receptions whose outcome must not depend on what the buffers held before
        # (late entry after a failed LSF following stream / BERT / packet reception; odd and even runs of BERT frames before other kinds)
        six = ["lich_ok"] * 6
        scen = [["lsf_voice", "stream", "stream", "lsf_badcrc"] + six + ["stream", "stream"],
                ["bert", "lsf_badcrc"] + six + ["stream"],
                ["lsf_pkt_raw", "pkt_mid", "lsf_badcrc"] + six + ["stream", "stream"],
                ["lsf_voice", "stream", "lsf_nearcrc", "lich_ok", "lich_ok", "lich_oor"] + six + ["stream"],
                ["bert", "lsf_voice", "stream", "stream"], ["bert", "bert", "lsf_voice", "stream"], ["bert", "bert", "bert", "lsf_pkt_raw", "pkt_mid", "pkt_eof"],
                ["lsf_voice", "stream", "bert", "lsf_voice", "stream", "lsf_pkt_enc", "pkt_mid", "pkt_eof", "lsf_voice", "stream"]]
        for w in scen:
            for _ in range(2 if quick else 20):
                words.append(list(w))
        lines, metas, impl, model = deccheck.run_words(ctx, exe, words)
        for ln, m, a in zip(lines, metas, impl):
            if m is None:
                continue
            ctx.count(ln, nontrivial=m["kind"] != "garbage")
            r = decgen.parse_reply(a)
            if r:
                ctx.stat(f"{m['kind']}->{deccheck.RES[r['result']]}/{deccheck.MODE[r['mode']]}")
        # automaton oracle on clean, known-content frames (independent of the model)
        self.automaton_oracle(ctx, lines, metas, impl)
        if model is not None:
            ctx.compare("dec", lines, impl, model, oracle=lambda ln, a: None, sig=lambda ln: "step")
            ctx.traces += len(words)
        deccheck.lsf_crc_oracle(ctx, lines, metas, impl, self.pid)
        self.probe(ctx, exe)
        i = next(i for i, m in enumerate(metas) if m and m["kind"] == "lsf_voice")
        ctx.sample({"kind": metas[i]["kind"], "request": lines[i][:60] + "...", "reply": impl[i][:160]})

    def automaton_oracle(self, ctx, lines, metas, impl):
        """documented state machine, driven by what the implementation itself reported for the previous frame (mode)"""
        mode = 0
        for ln, m, a in zip(lines, metas, impl):
            if m is None:
                mode = 0
                continue
            r = decgen.parse_reply(a)
            if not r:
                continue
            k, sync = m["kind"], m["sync"]
            kinds = [c["type"] for c in r["calls"]]
            bad = None
            if sync == 0:      # LSF sync always restarts link setup
                if r["mode"] not in (0, 1, 2, 3):
                    bad = "LSF sync left the decoder in a mode other than LSF/STREAM/PACKET"
                if kinds not in ([], [0]):
                    bad = f"LSF sync produced callbacks {kinds}"
                if (r["result"] == 1) != (kinds == [0]):
                    bad = "LSF sync: OK without an LSF callback (or the reverse)"
                if r["result"] == 0 and r["mode"] != 0:
                    bad = "LSF sync failed but mode is not LSF"
            elif sync == 1:
                if mode == 0:
                    if any(t not in (0, 1) for t in kinds) or r["mode"] not in (0, 1):
                        bad = f"stream frame while waiting for link setup produced {kinds}, mode {r['mode']}"
                    if r["mode"] == 1 and kinds != [1, 0]:
                        bad = "entered STREAM from LICH collection without reporting the reassembled LSF"
                elif mode == 1:
                    if kinds != [2] or r["result"] != 1 or r["mode"] != 1:
                        bad = f"stream frame in STREAM mode: callbacks {kinds}, result {r['result']}, mode {r['mode']}"
                else:
                    if kinds or r["result"] != 0 or r["mode"] != 0:
                        bad = "stream sync in a packet/BERT mode must drop to LSF and fail"
            elif sync == 2:
                if mode in (2, 3):
                    want = 3 if mode == 2 else 4
                    if kinds != [want]:
                        bad = f"packet frame in packet mode: callbacks {kinds}"
                    elif (r["calls"][0]["bytes"][25] & 0x80):
                        if r["mode"] != 0 or r["result"] != (1 if m["cb"] else 0):
                            bad = "packet EOF frame must return to LSF with the callback's verdict"
                    elif r["mode"] != mode or r["result"] != 4:
                        bad = "packet frame without EOF must stay in packet mode with PACKET_INCOMPLETE"
                else:
                    if kinds or r["result"] != 0 or r["mode"] != 0:
                        bad = "packet sync outside packet mode must drop to LSF and fail"
            else:
                if kinds != [5] or r["result"] != 1 or r["mode"] != 4:
                    bad = "BERT sync must decode BERT"
            if bad:
                ctx.violate(f"dec:automaton:{sync}:{mode}", f"documented state machine violated ({k}, mode before {deccheck.MODE[mode]}): {bad}",
                            {"stream": "dec", "ops": deccheck.history(lines, ln), "impl": a})
            mode = r["mode"]

    def probe(self, ctx, exe):
        """same suffix after two different prefixes that end in the same abstract state => identical outputs"""
        rng = ctx.rng
        g = decgen.Gen(rng)
        n = 60 if ctx.tier == "quick" else 1500
        lines, tags = [], []
        for t in range(n):
            suffix = []
            for k in [rng.choice(["bert", "stream", "lich_ok", "pkt_mid", "bert", "lsf_voice", "garbage"]) for _ in range(rng.randrange(1, 4))]:
                suffix.append(g.line(k, clean=rng.random() < 0.5)[0])
            for side in (0, 1):
                pre = [g.line(rng.choice(decgen.KINDS), clean=rng.random() < 0.5)[0] for _ in range(rng.randrange(0, 4))]
                # both prefixes end with a (different) bad-CRC LSF frame: abstract state (LSF, mask 0, zero buffer)
                pre.append(g.line("lsf_badcrc", clean=True)[0])
                lines.append("dec_new"); tags.append(None)
                for ln in pre:
                    lines.append(ln); tags.append((t, side, "pre"))
                for i, ln in enumerate(suffix):
                    lines.append(ln); tags.append((t, side, i))
        impl = ctx.run_impl(exe, lines, "dec-probe")
        res = {}
        for ln, tg, a in zip(lines, tags, impl):
            if tg is None or tg[2] == "pre":
                if tg is not None:
                    res.setdefault((tg[0], tg[1], "state"), a.split(" | ")[0])
                    res[(tg[0], tg[1], "state")] = a.split(" | ")[0]
                continue
            res[tg] = (a, ln)
        diffs = 0
        for t in range(n):
            s0 = res.get((t, 0, "state"), "").split()
            s1 = res.get((t, 1, "state"), "").split()
            if s0[1:3] != s1[1:3] or s0[4:] != s1[4:]:
                continue       # prefixes did not end in the same abstract state
            i = 0
            while (t, 0, i) in res:
                ctx.evaluations += 1
                ctx.stat("probe:suffix-frames")
                a0, ln0 = res[(t, 0, i)]
                a1, _ = res[(t, 1, i)]
                if a0 != a1:
                    diffs += 1
                    kind = "cost" if a0.split()[:3] == a1.split()[:3] else "outcome"
                    ctx.violate(f"dec:hidden-state:{kind}", f"same frame decoded from the same (mode, LICH mask, LSF buffer) gives different {kind} depending on earlier frames: `{a0[:70]}` vs `{a1[:70]}`",
                                {"stream": "dec-probe", "ops": [l for l, tg in zip(lines, tags) if tg is not None and tg[0] == t and tg[1] == 0][:8],
                                 "impl_a": a0[:300], "impl_b": a1[:300]})
                i += 1
        ctx.stat("probe:pairs", n)
        ctx.stat("probe:differences", diffs)


PROP = C08()

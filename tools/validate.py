#!/usr/bin/env python3
"""validate MANIFEST.json and evidence/*.json against the schemas (uses the tooling venv's jsonschema)"""
import json, sys, glob, os
import jsonschema
V = os.path.dirname(os.path.dirname(os.path.abspath(__file__)))
ok = True
m = json.load(open(os.path.join(V, "MANIFEST.json")))
jsonschema.validate(m, json.load(open("/root/.vp/MANIFEST.schema.json")))
props = [json.loads(l)["id"] for l in open(os.path.join(V, "properties.jsonl"))]
claimed = [c["property_id"] for c in m["checks"]]
na = [c["property_id"] for c in m.get("not_applicable", [])]
for p in props:
    if (p in claimed) == (p in na):
        print("property", p, "must be either claimed or not_applicable"); ok = False
es = json.load(open("/root/.vp/EVIDENCE.schema.json"))
for f in sorted(glob.glob(os.path.join(V, "evidence", "*.json"))):
    try:
        jsonschema.validate(json.load(open(f)), es)
    except Exception as e:
        print("INVALID", f, str(e)[:300]); ok = False
print("manifest: claimed", claimed, "not_applicable", na)
print("OK" if ok else "FAILED")
sys.exit(0 if ok else 1)

#!/usr/bin/env python3
"""
Entry point of the verification machinery.

    tools/check.py <PROPERTY-ID> [--tier quick|thorough] [--replay FILE]

For the property it (1) regenerates lean/M17/Gen from /repo's *current* headers, (2) re-checks the
property's Lean theorems (lake build of M17.Props.<id>, axiom audit, textual audit), (3) builds the
C++ drivers against the current tree (ASan+UBSan) and runs the correspondence streams model-vs-
implementation and the property-level oracles, (4) writes evidence/<id>.json, (5) reports
`VIOLATION property=<id> replay=<path>` / `KNOWN-FINDING: ...` as described in DESIGN.md §4.
"""
import sys, os, json, time, argparse, traceback

HERE = os.path.dirname(os.path.abspath(__file__))
sys.path.insert(0, HERE)

from lib import core   # noqa: E402


def main():
    ap = argparse.ArgumentParser()
    ap.add_argument("prop")
    ap.add_argument("--tier", default=os.environ.get("VERIF_TIER", "quick"), choices=["quick", "thorough"])
    ap.add_argument("--replay", default=None)
    args = ap.parse_args()
    seed = int(os.environ.get("VERIF_SEED", "1") or "1")
    pid = args.prop.upper()
    from props import REGISTRY
    if pid not in REGISTRY:
        print(f"unknown property {pid}; known: {sorted(REGISTRY)}")
        return 2
    ctx = core.Ctx(pid, args.tier, seed)
    prop = REGISTRY[pid]
    if args.replay:
        return core.replay(ctx, prop, args.replay)
    try:
        return core.run_check(ctx, prop)
    except Exception:
        # an internal error of the machinery is reported as such (non-zero exit, no VIOLATION line)
        traceback.print_exc()
        print(f"CHECK-ERROR property={pid} (internal error of the checking machinery, not a verdict)")
        return 3


if __name__ == "__main__":
    sys.exit(main())

#!/usr/bin/env python3
"""
Translator for queue.h: extracts, from the *current* source text, every access to the plain data members
(queue_, size_, state_) of mobilinkd::queue with the method it occurs in, whether it is a write, and whether the
method holds mutex_ (a lock_type/guard_type object constructed on mutex_ earlier in the same body).
Emits lean/M17/Gen/Queue.lean.  Usage: gen_queue.py <repo> <outdir>
"""
import re, sys, os


def strip_comments(src):
    src = re.sub(r"/\*.*?\*/", lambda m: "\n" * m.group(0).count("\n"), src, flags=re.S)
    return re.sub(r"//[^\n]*", "", src)


def visibility(src, pos):
    """access label in force at `pos` of the class text (a `class` starts private)"""
    labels = [(m.start(), m.group(1)) for m in re.finditer(r"\b(private|public|protected)\s*:", src[:pos])]
    return labels[-1][1] if labels else "private"


def call_span(body, name):
    """(start, end) of the first unqualified call `name(...)` in body, or None"""
    m = re.search(r"(?<![\.\w>:])" + re.escape(name) + r"\s*\(", body)
    if not m:
        return None
    i, d = m.end(), 1
    while d and i < len(body):
        d += {"(": 1, ")": -1}.get(body[i], 0)
        i += 1
    return m.start(), i


def inline_helpers(body, helpers, depth=0):
    """textual inlining of private helper member functions into the body of their caller, so that the accesses and notifications they make are
    attributed to the public method that runs them (with that method's lock).  `return A && helper(...);` is first rewritten to the equivalent
    `if (!(A)) return false; helper(...);`.  A call that sits under a condition (if / else / loop / ?: / && / ||) is inlined inside an
    `if (1) { ... }` so that what it does stays visibly conditional.  The call expression itself is replaced by `true`."""
    if depth > 3:
        return body
    for _ in range(40):
        hit = None
        for name in helpers:
            sp = call_span(body, name)
            if sp and (hit is None or sp[0] < hit[1][0]):
                hit = (name, sp)
        if hit is None:
            break
        name, (cs, ce) = hit
        hb = inline_helpers(helpers[name], {k: v for k, v in helpers.items() if k != name}, depth + 1)
        st = max(body.rfind(";", 0, cs), body.rfind("{", 0, cs), body.rfind("}", 0, cs)) + 1
        prefix = body[st:cs]
        rm = re.match(r"\s*return\s+(.+?)\s*&&\s*$", prefix, flags=re.S)
        if rm and re.match(r"\s*;", body[ce:]):
            semi = body.find(";", ce)
            body = body[:st] + f" if (!({rm.group(1)})) return false; {hb} " + body[semi + 1:]
            continue
        guarded = bool(re.search(r"\b(if|else|while|for)\b", prefix)) or any(t in prefix for t in ("?", "&&", "||"))
        ins = f" if (1) {{ {hb} }} " if guarded else f" {hb} "
        body = body[:st] + ins + body[st:cs] + "true" + body[ce:]
    return body


def methods(src):
    """(name, body) of every member function defined in the class body; private helper functions that other member functions call are
    inlined into their callers and not listed themselves"""
    raw = raw_methods(src)
    names = [n for n, _, _ in raw]
    helpers = {}
    for n, b, vis in raw:
        if vis == "private" and any(call_span(b2, n) for n2, b2, _ in raw if n2 != n):
            helpers[n] = b
    return [(n, inline_helpers(b, helpers)) for n, b, vis in raw if n not in helpers]


def raw_methods(src):
    out = []
    for m in re.finditer(r"\b(bool|void|size_t)\s+(\w+)\s*\(", src):
        name = m.group(2)
        i = m.end()
        depth = 1
        while depth and i < len(src):               # matching ')' of the parameter list (default arguments may nest)
            depth += {"(": 1, ")": -1}.get(src[i], 0)
            i += 1
        rest = re.match(r"\s*(const)?\s*\{", src[i:])
        if not rest:
            continue
        i += rest.end()
        start = i
        depth = 1
        while depth and i < len(src):
            depth += {"{": 1, "}": -1}.get(src[i], 0)
            i += 1
        out.append((name, src[start:i - 1], visibility(src, m.start())))
    return out


WRITE = [r"\b{m}\s*=(?!=)", r"\b{m}\s*[+\-]=", r"\b{m}\s*\.\s*(pop_front|emplace_back|push_back|clear|pop_back)\b", r"std::move\(\s*{m}\b"]


def main():
    repo, outdir = sys.argv[1], sys.argv[2]
    src = strip_comments(open(os.path.join(repo, "include/m17cxx/queue.h")).read())
    rows = []
    for name, body in methods(src):
        lockpos = None
        lm = re.search(r"\b(lock_type|guard_type|std::unique_lock<[^>]*>|std::lock_guard<[^>]*>)\s+\w+\s*\(\s*mutex_\s*\)", body)
        if lm:
            lockpos = lm.start()
        for member in ("queue_", "size_", "state_"):
            for am in re.finditer(r"\b" + member + r"\b", body):
                stmt_start = max(body.rfind(";", 0, am.start()), body.rfind("{", 0, am.start()), body.rfind("}", 0, am.start())) + 1
                stmt_end = body.find(";", am.start())
                stmt = body[stmt_start:stmt_end if stmt_end >= 0 else len(body)]
                rel = stmt[am.start() - stmt_start:]
                is_write = any(re.match(w.format(m=member), rel) for w in WRITE[:3]) or bool(re.search(WRITE[3].format(m=member), stmt))
                locked = lockpos is not None and lockpos < am.start()
                rows.append((name, member, is_write, locked))
    rows = sorted(set(rows))
    # notification profile: every notify call with the method it occurs in and whether it is unconditional on the path that reaches
    # the end of the method (brace depth 0 in the method body and not the body of a brace-less `if`/`else`/loop)
    notes = []
    for name, body in methods(src):
        for nm in re.finditer(r"\b(empty_|full_)\s*\.\s*notify_(one|all)\s*\(\s*\)", body):
            depth = body[:nm.start()].count("{") - body[:nm.start()].count("}")
            stmt_start = max(body.rfind(";", 0, nm.start()), body.rfind("{", 0, nm.start()), body.rfind("}", 0, nm.start())) + 1
            prefix = body[stmt_start:nm.start()]
            guarded = depth != 0 or bool(re.search(r"\b(if|else|while|for)\b", prefix)) or "?" in prefix or "&&" in prefix or "||" in prefix
            kind = 3 if guarded else (1 if nm.group(2) == "one" else 2)
            notes.append((name, nm.group(1), kind))
    notes = sorted(set(notes))
    mod = strip_comments(open(os.path.join(repo, "include/m17cxx/M17Modulator.h")).read())
    caps = [int(x) for x in re.findall(r"queue<\s*\w+\s*,\s*(\d+)\s*>", mod)]
    lines = ["-- GENERATED by tools/gen_queue.py from /repo's current include/m17cxx/queue.h. Do not edit.", "namespace M17.Gen", "",
             "/-- (method, member, is write, mutex_ held) for every access to a plain data member -/",
             "def queueAccess : List (String × String × Bool × Bool) := ["]
    lines.append(",\n".join(f'  ("{n}", "{m}", {str(w).lower()}, {str(l).lower()})' for n, m, w, l in rows))
    lines += ["]", "", "/-- (method, condition variable, kind) for every notify call: 1 = unconditional notify_one, 2 = unconditional notify_all, 3 = guarded -/",
              "def queueNotify : List (String × String × Nat) := ["]
    lines.append(",\n".join(f'  ("{n}", "{c}", {k})' for n, c, k in notes))
    lines += ["]", "", f"def queueCapacities : List Nat := {caps}", "", "end M17.Gen", ""]
    text = "\n".join(lines)
    path = os.path.join(outdir, "Queue.lean")
    if not os.path.exists(path) or open(path).read() != text:
        open(path, "w").write(text)


if __name__ == "__main__":
    main()

"""base class of property checkers"""
from lib import core


class Prop:
    pid = "C00"
    level = "proof"
    lean_targets = []
    theorems = []          # fully qualified names; each is one proof obligation, axiom-audited every run
    rule = ""
    assumptions = []
    trusted_extra = []

    def theorem_modules(self):
        return {" ".join(self.lean_targets): self.theorems}

    def impl_driver(self, ctx):
        return core.build_cpp("drv_fec", ["drv_fec.cpp"], deps=["drv_fec_ops.inc", "spec.h"])

    def setup_drivers(self):
        """drivers to pre-build in setup_cmd"""
        return [self.impl_driver(None)]

    def run(self, ctx):
        raise NotImplementedError
